package tlx

// (tlb.dicts pkg Type) -> ( (x<path> 'Hashmap|'HashmapE 'uint|'bits|'other n<key bits> ('opaque x<why>) | (descriptor x<coq term>)) ... )
//
// Every dictionary-typed position of a generated Go type, in pre-order (struct
// fields in declaration order, through pointers, anonymous structs, structs of
// the generated package and the generic wrappers Maybe / Either / EitherRef / Ref
// of tlb), with the descriptor of its VALUE type: the dictionary body is an opaque
// cell for tlbdesc.Describe, so what a leaf holds (inline or in a reference) is
// visible only here.  Works for the non-empty Hashmap too, which Describe does
// not model.

import (
	"reflect"
	"strings"

	"verifharness/sx"
	"verifharness/tlbdesc"
)

const tlbPkgPath = "github.com/tonkeeper/tongo/tlb"

func genBase(t reflect.Type) string {
	n := t.Name()
	if i := strings.IndexByte(n, '['); i >= 0 {
		return n[:i]
	}
	return n
}

func TlbDicts(root reflect.Type) sx.V {
	out := []sx.V{}
	stack := map[reflect.Type]bool{}
	var walk func(t reflect.Type, path string)
	walk = func(t reflect.Type, path string) {
		for t.Kind() == reflect.Pointer {
			t = t.Elem()
		}
		if t.Kind() != reflect.Struct || stack[t] {
			return
		}
		base := genBase(t)
		if t.PkgPath() == tlbPkgPath && (base == "Hashmap" || base == "HashmapE") {
			km, ok1 := t.MethodByName("Keys")
			vm, ok2 := t.MethodByName("Values")
			if !ok1 || !ok2 {
				out = append(out, sx.L(sx.Str(path), sx.A(base), sx.A("other"), sx.Nat(0), sx.L(sx.A("opaque"), sx.Str("no Keys/Values"))))
				return
			}
			kt, vt := km.Type.Out(0).Elem(), vm.Type.Out(0).Elem()
			dk := tlbdesc.Describe(kt, "")
			kk, kw := "other", 0
			switch dk.K {
			case tlbdesc.KUint:
				kk, kw = "uint", dk.W
			case tlbdesc.KBits:
				kk, kw = "bits", dk.W
			}
			dv := tlbdesc.Describe(vt, "")
			var d sx.V
			if dv.K == tlbdesc.KOpaque {
				d = sx.L(sx.A("opaque"), sx.Str(dv.Why))
			} else {
				d = sx.L(dv.Sx(), sx.Str(dv.Coq()))
			}
			out = append(out, sx.L(sx.Str(path), sx.A(base), sx.A(kk), sx.Nat(kw), d))
			walk(vt, path+"/value")
			return
		}
		if t.PkgPath() == tlbPkgPath {
			switch base {
			case "Maybe", "Either", "EitherRef", "Ref":
			default:
				return // library types are not the generator's output
			}
		}
		stack[t] = true
		for i := 0; i < t.NumField(); i++ {
			f := t.Field(i)
			walk(f.Type, path+"."+f.Name)
		}
		delete(stack, t)
	}
	walk(root, "")
	return sx.L(out...)
}
