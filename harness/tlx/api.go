package tlx

// Entry points used by the C09 generator (harness/cmd/run/c09*.go).  Nothing
// here attaches meaning: ParseSchema is the line parser of c10.go (independent
// of tl/parser), Extract is genTlBindings of c10.go with the file list and the
// names of the emitted definitions as parameters.

import (
	"bytes"
	"fmt"
	"go/ast"
	"go/parser"
	"go/token"
	"sort"
	"strconv"
	"strings"

	"verifharness/sx"
)

// Field / Decl: one schema line as read by the line parser.
type Field struct {
	Name    string
	Cond    string
	Bit     uint64
	HasCond bool
	Ty      string // Coq [ty] term
}

type Decl struct {
	Name   string
	ID     uint64 // 2^32 when the line carries no 8-digit id
	Fields []Field
	Res    string
}

func export(ds []c10Decl) []Decl {
	var out []Decl
	for _, d := range ds {
		e := Decl{Name: d.name, ID: d.id, Res: d.res}
		for _, f := range d.fields {
			e.Fields = append(e.Fields, Field{Name: f.name, Cond: f.cond, Bit: f.bit, HasCond: f.hasCond, Ty: f.ty})
		}
		out = append(out, e)
	}
	return out
}

func unexport(ds []Decl) []c10Decl {
	var out []c10Decl
	for _, d := range ds {
		e := c10Decl{name: d.Name, id: d.ID, idText: fmt.Sprintf("#%08x", d.ID), res: d.Res}
		for _, f := range d.Fields {
			e.fields = append(e.fields, c10Field{name: f.Name, cond: f.Cond, bit: f.Bit, hasCond: f.HasCond, ty: f.Ty})
		}
		out = append(out, e)
	}
	return out
}

// ParseSchema reads a TL schema text (types section, ---functions---, functions).
func ParseSchema(src string) (types, funcs []Decl) {
	t, f := c10ParseSchema(src)
	return export(t), export(f)
}

// CoqDecls prints `Definition <name> : list decl := [...]`.
func CoqDecls(name string, ds []Decl) string {
	var b bytes.Buffer
	c10WriteDecls(&b, name, unexport(ds))
	return b.String()
}

// TySx turns the Coq [ty] term of a field into data: 'int 'nat 'long 'int256
// 'bytes 'string 'bool 'true ('vector t) ('bare x<name>) ('boxed x<name>).
func TySx(t string) sx.V {
	t = strings.TrimSpace(t)
	if strings.HasPrefix(t, "(") && strings.HasSuffix(t, ")") {
		in := strings.TrimSpace(t[1 : len(t)-1])
		switch {
		case strings.HasPrefix(in, "TVector "):
			return sx.L(sx.A("vector"), TySx(in[len("TVector "):]))
		case strings.HasPrefix(in, "TBare "):
			s, _ := strconv.Unquote(strings.TrimSpace(in[len("TBare "):]))
			return sx.L(sx.A("bare"), sx.Str(s))
		case strings.HasPrefix(in, "TBoxed "):
			s, _ := strconv.Unquote(strings.TrimSpace(in[len("TBoxed "):]))
			return sx.L(sx.A("boxed"), sx.Str(s))
		}
		return sx.A("unparsed")
	}
	m := map[string]string{"TInt": "int", "TNat": "nat", "TLong": "long", "TInt256": "int256", "TBytes": "bytes",
		"TString": "string", "TBool": "bool", "TTrue": "true"}
	if a, ok := m[t]; ok {
		return sx.A(a)
	}
	return sx.A("unparsed")
}

// DeclSx: (x<name> n<id> ((x<fname> () | (x<cond> n<bit>) ty) ...) x<res>)
func DeclSx(d Decl) sx.V {
	var fs []sx.V
	for _, f := range d.Fields {
		cond := sx.L()
		if f.HasCond {
			cond = sx.L(sx.Str(f.Cond), sx.N(f.Bit))
		}
		fs = append(fs, sx.L(sx.Str(f.Name), cond, TySx(f.Ty)))
	}
	return sx.L(sx.Str(d.Name), sx.N(d.ID), sx.L(fs...), sx.Str(d.Res))
}

func DeclsSx(ds []Decl) sx.V {
	var l []sx.V
	for _, d := range ds {
		l = append(l, DeclSx(d))
	}
	return sx.L(l...)
}

// TyText prints the TL type expression of a [ty] in data form.
func TyText(t sx.V) string {
	if t.K == sx.KA {
		switch t.Atom {
		case "nat":
			return "#"
		case "bool":
			return "Bool"
		}
		return t.Atom
	}
	if t.K == sx.KL && len(t.List) == 2 {
		switch t.List[0].Atom {
		case "vector":
			return "(vector " + TyText(t.List[1]) + ")"
		case "bare", "boxed":
			return string(t.List[1].Bytes)
		}
	}
	return "?"
}

// DeclText prints one schema line from its data form (inverse of ParseSchema
// followed by DeclSx on the lines the C09 generator writes).
func DeclText(d sx.V) string {
	var sb strings.Builder
	fmt.Fprintf(&sb, "%s#%08x", string(d.List[0].Bytes), d.List[1].U64())
	for _, f := range d.List[2].List {
		sb.WriteString(" " + string(f.List[0].Bytes) + ":")
		if len(f.List[1].List) == 2 {
			fmt.Fprintf(&sb, "%s.%d?", string(f.List[1].List[0].Bytes), f.List[1].List[1].U64())
		}
		sb.WriteString(TyText(f.List[2]))
	}
	sb.WriteString(" = " + string(d.List[3].Bytes) + ";")
	return sb.String()
}

// SchemaText prints a whole schema from its data form.
func SchemaText(types, funcs sx.V) string {
	var sb strings.Builder
	for _, d := range types.List {
		sb.WriteString(DeclText(d) + "\n")
	}
	sb.WriteString("\n---functions---\n\n")
	for _, d := range funcs.List {
		sb.WriteString(DeclText(d) + "\n")
	}
	return sb.String()
}

// Method is one extracted request method.
type Method struct {
	Name, Req, RespTy string
	ReqID, ErrID      uint64
	RespIDs           []uint64
	Shape             bool
}

// Extract parses the given Go files (the first one is the generated file: its
// *Client methods and taggedRequestDecodeFunctions are read) and prints
//
//	Definition <p>_bindings : bindings, <p>_methods : list method,
//	<p>_table : list (N * N * string * string).
func Extract(paths []string, p string) (string, []Method, error) {
	type tdecl struct {
		name string
		ty   ast.Expr
		x    *c10x
	}
	var types []tdecl
	marshal := map[string]*ast.FuncDecl{}
	unmarshal := map[string]*ast.FuncDecl{}
	xs := map[*ast.FuncDecl]*c10x{}
	var methods []c10Method
	var table [][4]string // key, tag, gotype, tlname
	for fi, path := range paths {
		fset := token.NewFileSet()
		af, err := parser.ParseFile(fset, path, nil, 0)
		if err != nil {
			return "", nil, err
		}
		x := &c10x{fset: fset}
		consts := map[string]string{}
		decodeFuncs := map[string][3]string{} // var -> tag, name const, type
		var tableLit ast.Expr
		for _, d := range af.Decls {
			switch n := d.(type) {
			case *ast.GenDecl:
				for _, s := range n.Specs {
					switch sp := s.(type) {
					case *ast.TypeSpec:
						types = append(types, tdecl{sp.Name.Name, sp.Type, x})
					case *ast.ValueSpec:
						for i, nm := range sp.Names {
							if i >= len(sp.Values) {
								continue
							}
							if nm.Name == "taggedRequestDecodeFunctions" {
								tableLit = sp.Values[i]
							}
							if s, ok := strLit(sp.Values[i]); ok {
								consts[nm.Name] = s
							}
							if call, ok := sp.Values[i].(*ast.CallExpr); ok && c10Ident(call.Fun, "decodeRequest") && len(call.Args) == 3 {
								tag, ok1 := intLit(call.Args[0])
								cn, ok2 := call.Args[1].(*ast.Ident)
								cl, ok3 := call.Args[2].(*ast.CompositeLit)
								if ok1 && ok2 && ok3 && len(cl.Elts) == 0 {
									if ti, ok := cl.Type.(*ast.Ident); ok {
										decodeFuncs[nm.Name] = [3]string{strconv.FormatUint(tag, 10), cn.Name, ti.Name}
									}
								}
							}
						}
					}
				}
			case *ast.FuncDecl:
				rn, _ := c10RecvIdent(n)
				switch {
				case rn != "" && n.Name.Name == "MarshalTL":
					marshal[rn] = n
					xs[n] = x
				case rn != "" && n.Name.Name == "UnmarshalTL":
					unmarshal[rn] = n
					xs[n] = x
				case rn == "Client" && fi == 0:
					methods = append(methods, x.method(n))
				}
			}
		}
		if fi == 0 {
			if cl, ok := tableLit.(*ast.CompositeLit); ok {
				for _, el := range cl.Elts {
					kv, ok := el.(*ast.KeyValueExpr)
					if !ok {
						table = append(table, [4]string{"4294967296", "4294967296", "?", "?"})
						continue
					}
					key, ok1 := intLit(kv.Key)
					id, ok2 := kv.Value.(*ast.Ident)
					row := [4]string{strconv.FormatUint(key, 10), "4294967296", "?", "?"}
					if ok1 && ok2 {
						if df, ok := decodeFuncs[id.Name]; ok {
							row[1], row[2] = df[0], df[2]
							if s, ok := consts[df[1]]; ok {
								row[3] = s
							}
						}
					}
					table = append(table, row)
				}
			}
		}
	}

	var b bytes.Buffer
	fmt.Fprintf(&b, "Definition %s_bindings : bindings := [\n", p)
	var rows []string
	for _, t := range types {
		mf, hasM := marshal[t.name]
		uf, hasU := unmarshal[t.name]
		if !hasM && !hasU {
			continue
		}
		mb := "(MNone)"
		if hasM {
			mb = xs[mf].marshalBody(mf)
		}
		ub := "(UPlain [" + c10Unrec("no UnmarshalTL method") + "])"
		if hasU {
			ub = xs[uf].unmarshalBody(uf)
		}
		rows = append(rows, fmt.Sprintf("  mkbinding %s\n    %s\n    %s\n    %s", c10q(t.name), t.x.gty(t.ty), mb, ub))
	}
	b.WriteString(strings.Join(rows, ";\n"))
	fmt.Fprintf(&b, "\n].\n\nDefinition %s_methods : list method := [\n", p)
	rows = nil
	var ms []Method
	for _, m := range methods {
		req := "None"
		if m.req != "" {
			req = "(Some " + c10q(m.req) + ")"
		}
		sh := "false"
		if m.shape {
			sh = "true"
		}
		rows = append(rows, fmt.Sprintf("  mkmethod %s %s %d %d %s %s %s", c10q(m.name), req, m.reqID, m.errID, coqNList(m.respIDs), c10q(m.respTy), sh))
		ms = append(ms, Method{Name: m.name, Req: m.req, RespTy: m.respTy, ReqID: m.reqID, ErrID: m.errID, RespIDs: m.respIDs, Shape: m.shape})
	}
	b.WriteString(strings.Join(rows, ";\n"))
	fmt.Fprintf(&b, "\n].\n\nDefinition %s_table : list (N * N * string * string) := [\n", p)
	sort.SliceStable(table, func(i, j int) bool {
		a, _ := strconv.ParseUint(table[i][0], 10, 64)
		c, _ := strconv.ParseUint(table[j][0], 10, 64)
		return a < c
	})
	rows = nil
	for _, r := range table {
		rows = append(rows, fmt.Sprintf("  (%s, %s, %s, %s)", r[0], r[1], c10q(r[2]), c10q(r[3])))
	}
	b.WriteString(strings.Join(rows, ";\n"))
	b.WriteString("\n].\n")
	return b.String(), ms, nil
}
