package tlx

// TL values <-> sx by reflection on the generated Go types: a COPY of the
// conversion of harness/cmd/run/c10.go (package main there).
//   n<hex> number | x<hex> bytes/string/int256 | t/f | ('v v ...) vector |
//   ('r 'Name ('Field v) ...) record ('_ = unnamed; nil fields are omitted)

import (
	"fmt"
	"reflect"

	"verifharness/sx"
)

func IsSum(t reflect.Type) bool {
	if t.Kind() != reflect.Struct {
		return false
	}
	_, ok := t.FieldByName("SumType")
	return ok
}

// ---------------------------------------------------------------- value <-> sx

func fieldsSx(v reflect.Value) []sx.V {
	var out []sx.V
	t := v.Type()
	for i := 0; i < t.NumField(); i++ {
		f := v.Field(i)
		if (f.Kind() == reflect.Pointer || f.Kind() == reflect.Slice) && f.IsNil() {
			continue
		}
		out = append(out, sx.L(sx.A(t.Field(i).Name), ToSx(f)))
	}
	return out
}

func ToSx(v reflect.Value) sx.V {
	switch v.Kind() {
	case reflect.Uint32, reflect.Uint64:
		return sx.N(v.Uint())
	case reflect.Bool:
		return sx.B(v.Bool())
	case reflect.String:
		return sx.Str(v.String())
	case reflect.Pointer:
		return ToSx(v.Elem())
	case reflect.Array:
		b := make([]byte, v.Len())
		for i := range b {
			b[i] = byte(v.Index(i).Uint())
		}
		return sx.Bytes(b)
	case reflect.Slice:
		if v.Type().Elem().Kind() == reflect.Uint8 {
			return sx.Bytes(v.Bytes())
		}
		items := []sx.V{sx.A("v")}
		for i := 0; i < v.Len(); i++ {
			items = append(items, ToSx(v.Index(i)))
		}
		return sx.L(items...)
	case reflect.Struct:
		if IsSum(v.Type()) {
			name := v.FieldByName("SumType").String()
			items := []sx.V{sx.A("r")}
			if name == "" {
				return sx.L(sx.A("r"), sx.A("_"))
			}
			items = append(items, sx.A(name))
			if f := v.FieldByName(name); f.IsValid() && f.Kind() == reflect.Struct && name != "SumType" {
				items = append(items, fieldsSx(f)...)
			}
			return sx.L(items...)
		}
		return sx.L(append([]sx.V{sx.A("r"), sx.A("_")}, fieldsSx(v)...)...)
	}
	return sx.A("unsupported-kind")
}

func setFields(dst reflect.Value, fs []sx.V) error {
	for _, f := range fs {
		if f.K != sx.KL || len(f.List) != 2 || f.List[0].K != sx.KA {
			return fmt.Errorf("bad field")
		}
		fv := dst.FieldByName(f.List[0].Atom)
		if !fv.IsValid() {
			return fmt.Errorf("no field %s", f.List[0].Atom)
		}
		if err := FromSx(fv, f.List[1]); err != nil {
			return err
		}
	}
	return nil
}

func FromSx(dst reflect.Value, s sx.V) error {
	switch dst.Kind() {
	case reflect.Uint32, reflect.Uint64:
		if s.K != sx.KN {
			return fmt.Errorf("number expected")
		}
		dst.SetUint(s.U64())
	case reflect.Bool:
		if s.K != sx.KB {
			return fmt.Errorf("bool expected")
		}
		dst.SetBool(s.Bool)
	case reflect.String:
		if s.K != sx.KBytes {
			return fmt.Errorf("bytes expected")
		}
		dst.SetString(string(s.Bytes))
	case reflect.Pointer:
		p := reflect.New(dst.Type().Elem())
		if err := FromSx(p.Elem(), s); err != nil {
			return err
		}
		dst.Set(p)
	case reflect.Array:
		if s.K != sx.KBytes || len(s.Bytes) != dst.Len() {
			return fmt.Errorf("array length")
		}
		for i, b := range s.Bytes {
			dst.Index(i).SetUint(uint64(b))
		}
	case reflect.Slice:
		if dst.Type().Elem().Kind() == reflect.Uint8 {
			if s.K != sx.KBytes {
				return fmt.Errorf("bytes expected")
			}
			dst.SetBytes(append([]byte{}, s.Bytes...))
			return nil
		}
		if s.Head() != "v" {
			return fmt.Errorf("vector expected")
		}
		sl := reflect.MakeSlice(dst.Type(), len(s.List)-1, len(s.List)-1)
		for i, x := range s.List[1:] {
			if err := FromSx(sl.Index(i), x); err != nil {
				return err
			}
		}
		dst.Set(sl)
	case reflect.Struct:
		if s.Head() != "r" || len(s.List) < 2 || s.List[1].K != sx.KA {
			return fmt.Errorf("record expected")
		}
		name := s.List[1].Atom
		if IsSum(dst.Type()) {
			if name == "_" {
				return nil
			}
			dst.FieldByName("SumType").SetString(name)
			sub := dst.FieldByName(name)
			if !sub.IsValid() || sub.Kind() != reflect.Struct || name == "SumType" {
				if len(s.List) > 2 {
					return fmt.Errorf("fields of an unknown constructor")
				}
				return nil
			}
			return setFields(sub, s.List[2:])
		}
		return setFields(dst, s.List[2:])
	default:
		return fmt.Errorf("unsupported kind %v", dst.Kind())
	}
	return nil
}

// ---------------------------------------------------------------- execs
