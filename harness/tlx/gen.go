package tlx

// The schema compilers of /repo called as libraries, the way their in-repo
// callers do (liteclient/generator.go, tlb/generator-config.go, abi/parser
// registerMsgType).  Shared by the C09 generator and by the scratch driver, so
// that the same call can be repeated in a fresh process.

import (
	"fmt"
	"os"
	"regexp"
	"strings"
	"sync"

	abiparser "github.com/tonkeeper/tongo/abi/parser"
	tlparser "github.com/tonkeeper/tongo/tl/parser"
	tlbparser "github.com/tonkeeper/tongo/tlb/parser"
)

var (
	quietMu    sync.Mutex
	quietDepth int
	quietSaved *os.File
	quietNull  *os.File
)

// Quiet keeps what tl/parser prints (generateRequestDecoder: fmt.Printf) off the
// process's stdout; calls may overlap.
func Quiet(f func()) {
	quietMu.Lock()
	if quietDepth == 0 {
		if null, err := os.OpenFile(os.DevNull, os.O_WRONLY, 0); err == nil {
			quietSaved, quietNull = os.Stdout, null
			os.Stdout = null
		}
	}
	quietDepth++
	quietMu.Unlock()
	defer func() {
		quietMu.Lock()
		quietDepth--
		if quietDepth == 0 && quietNull != nil {
			os.Stdout = quietSaved
			quietNull.Close()
			quietNull = nil
		}
		quietMu.Unlock()
	}()
	f()
}

// GenTl: liteclient/generator.go with the schema text as input.
func GenTl(text string) (code string, err error) {
	defer func() {
		if r := recover(); r != nil {
			err = fmt.Errorf("generator panicked: %v", r)
		}
	}()
	Quiet(func() {
		parsed, e := tlparser.Parse(text)
		if e != nil {
			err = fmt.Errorf("parse: %v", e)
			return
		}
		g := tlparser.NewGenerator(nil, "*Client")
		types, e := g.LoadTypes(parsed.Declarations)
		if e != nil {
			err = fmt.Errorf("LoadTypes: %v", e)
			return
		}
		functions, e := g.LoadFunctions(parsed.Functions)
		if e != nil {
			err = fmt.Errorf("LoadFunctions: %v", e)
			return
		}
		code = types + functions
	})
	return
}

type TlbMsg struct{ GoName, Text string }

// SplitTlb separates the message-body declarations (generated alone, abi style) from the rest.
func SplitTlb(text string) (main string, msgs []TlbMsg) {
	const mark = "// message body, generated alone as "
	lines := strings.Split(text, "\n")
	var keep []string
	for i := 0; i < len(lines); i++ {
		if strings.HasPrefix(lines[i], mark) && i+1 < len(lines) {
			name := strings.TrimSuffix(strings.TrimPrefix(lines[i], mark), " with skipMagic")
			msgs = append(msgs, TlbMsg{name, lines[i+1]})
			i++
			continue
		}
		keep = append(keep, lines[i])
	}
	return strings.Join(keep, "\n"), msgs
}

// GenTlb: tlb/generator-config.go (types) and abi/parser registerMsgType (message bodies).
func GenTlb(text string) (code string, err error) {
	defer func() {
		if r := recover(); r != nil {
			err = fmt.Errorf("generator panicked: %v", r)
		}
	}()
	main, msgs := SplitTlb(text)
	parsed, e := tlbparser.Parse(main)
	if e != nil {
		return "", fmt.Errorf("parse: %v", e)
	}
	g := tlbparser.NewGenerator()
	s, e := g.GenerateGolangTypes(parsed.Declarations, "", false)
	if e != nil {
		return "", fmt.Errorf("GenerateGolangTypes: %v", e)
	}
	code = s
	for _, m := range msgs {
		p, e := tlbparser.Parse(m.Text)
		if e != nil {
			return "", fmt.Errorf("parse: %v", e)
		}
		mg := tlbparser.NewGenerator()
		t, e := mg.GenerateGolangTypes(p.Declarations, m.GoName, true)
		if e != nil {
			return "", fmt.Errorf("GenerateGolangTypes(%s): %v", m.GoName, e)
		}
		code += t
	}
	return code, nil
}

var reIdent = regexp.MustCompile(`[A-Za-z_][A-Za-z0-9_]*(\.[A-Za-z][A-Za-z0-9_]*)*`)

// Names: every identifier (dotted names whole and by component) occurring in a schema text.
func Names(text string) []string {
	seen := map[string]bool{}
	var out []string
	add := func(s string) {
		if !seen[s] {
			seen[s] = true
			out = append(out, s)
		}
	}
	for _, m := range reIdent.FindAllString(text, -1) {
		add(m)
		for _, c := range strings.Split(m, ".") {
			add(c)
		}
	}
	return out
}

const otherTlb = "other_a$0 x:uint8 y:Coins = C09Other;\nother_b$1 z:(Maybe ^Cell) w:C09Inner = C09Other;\n"
const otherTlbInner = "_ a:uint16 = C09Inner;\n"
const otherTl = "c09.other#0c09c09c a:int b:bytes = c09.Other;\nliteServer.error#48e1a9bb code:int message:string = liteServer.Error;\n\n---functions---\n\nc09.getOther#0c09c09d a:int = c09.Other;\n"

// Interfere runs unrelated generator instances between two generations of a
// schema: every option function of tlb/parser (WithDefaultTypes, replace false
// and true) over the type names the schema uses and over fresh names, a
// tl/parser generator with a custom type table over the schema's names, another
// schema through fresh generators, and the abi generator (default table and a
// custom one) over the schema's own declarations.  None of it may change what a
// later NewGenerator() produces.  step selects the variant (0..3); errors of the
// unrelated generators are of no interest.
func Interfere(kind, text string, step int) {
	defer func() { recover() }()
	names := append(Names(text), "C09FreshName", "c09.freshName", "Coins", "Bool", "Cell", "uint8", "int", "bytes", "#")
	Quiet(func() {
		bm := map[string]tlbparser.DefaultType{}
		lm := map[string]tlparser.DefaultType{}
		for _, n := range names {
			bm[n] = tlbparser.DefaultType{Name: "tlb.Grams"}
			lm[n] = tlparser.DefaultType{Name: "uint64"}
		}
		if po, err := tlbparser.Parse(otherTlbInner + otherTlb); err == nil {
			switch step % 4 {
			case 0:
				_, _ = tlbparser.NewGenerator(tlbparser.WithDefaultTypes(bm, false)).GenerateGolangTypes(po.Declarations, "", false)
			case 1:
				_, _ = tlbparser.NewGenerator(tlbparser.WithDefaultTypes(bm, true)).GenerateGolangTypes(po.Declarations, "", false)
			case 2:
				_, _ = tlbparser.NewGenerator(tlbparser.WithDefaultTypes(bm, true), tlbparser.WithDefaultTypes(bm, false)).GenerateGolangTypes(po.Declarations, "C09Prefix", true)
			default:
				_, _ = tlbparser.NewGenerator().GenerateGolangTypes(po.Declarations, "", false)
			}
		}
		if pt, err := tlparser.Parse(otherTl); err == nil {
			g := tlparser.NewGenerator(lm, "*Other")
			if step%2 == 1 {
				g = tlparser.NewGenerator(nil, "*Other")
			}
			_, _ = g.LoadTypes(pt.Declarations)
			_, _ = g.LoadFunctions(pt.Functions)
		}
		// the abi generator: registerType / registerMsgType create tlb generators WithDefaultTypes(abi's table, false)
		abi := abiparser.ABI{Types: []string{otherTlbInner}}
		if kind == "tlb" {
			main, msgs := SplitTlb(text)
			abi.Types = append(abi.Types, main)
			for _, m := range msgs {
				abi.Internals = append(abi.Internals, abiparser.Message{Name: m.GoName, Input: m.Text})
			}
		}
		if step%2 == 0 {
			_, _ = abiparser.NewGenerator(nil, abi)
		} else {
			_, _ = abiparser.NewGenerator(bm, abi)
		}
	})
}

// GenAbiTypes: the TL-B declarations of a schema through abi/parser (types section only).
func GenAbiTypes(text string) (out string, err error) {
	defer func() {
		if r := recover(); r != nil {
			err = fmt.Errorf("generator panicked: %v", r)
		}
	}()
	main, _ := SplitTlb(text)
	g, e := abiparser.NewGenerator(nil, abiparser.ABI{Types: []string{main}})
	if e != nil {
		return "", e
	}
	return g.CollectedTypes(), nil
}

// TlbTypes: Generator.GetTlbTypes after generating the (non-message) declarations of a schema.
func TlbTypes(text string) (names, defs []string, err error) {
	defer func() {
		if r := recover(); r != nil {
			err = fmt.Errorf("generator panicked: %v", r)
		}
	}()
	main, _ := SplitTlb(text)
	parsed, e := tlbparser.Parse(main)
	if e != nil {
		return nil, nil, e
	}
	g := tlbparser.NewGenerator()
	if _, e := g.GenerateGolangTypes(parsed.Declarations, "", false); e != nil {
		return nil, nil, e
	}
	for _, t := range g.GetTlbTypes() {
		names = append(names, t.Name)
		defs = append(defs, t.Definition)
	}
	return
}
