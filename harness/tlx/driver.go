package tlx

// DriverMain is the body of the tiny `main` the C09 generator writes into its
// scratch module: it links the packages the schema compilers produced and
// executes requests read from stdin (one sx per line), one answer per line.
//
//	(tl.m pkg Type value junk)         -> 'err | (x<MarshalTL bytes> decoded-value n<unread>)
//	                                      tl.Marshal(v); tl.Unmarshal(bytes ++ junk)
//	(tl.u pkg Type x<bytes>)           -> 'err | (decoded-value n<unread>)
//	(tl.req pkg Method value|'none x<response>)
//	                                   -> 'err | (x<payload> ('result v)|('lserror v)|'err server-side-decoder-agrees)
//	(gen tl|tlb pkg x<schema text>)    -> 'err | x<generator output>   the schema compilers once more, in this process
//	(tlb.d pkg Type)                   -> ('opaque x<why>) | (descriptor x<coq term>)
//	(tlb.r pkg Type n<seed> n<count>)  -> (value ...)       random in-domain values (tlbdesc.Rand)
//	(tlb.e pkg Type value)             -> 'err | (cell decoded-value|'decode-err)
//	(tlb.dicts pkg Type)               -> the dictionary-typed positions of the type with the descriptors of their value types (dicts.go)
//	                                      tlb.Marshal(v); tlb.Unmarshal(cell)

import (
	"bufio"
	"bytes"
	"fmt"
	"os"
	"reflect"

	"github.com/tonkeeper/tongo/boc"
	"github.com/tonkeeper/tongo/tl"
	"github.com/tonkeeper/tongo/tlb"

	"verifharness/prng"
	"verifharness/sx"
	"verifharness/tlbdesc"
)

// TlPkg is what a generated TL package exposes through its registry.go.
type TlPkg struct {
	Types  map[string]reflect.Type
	Call   func(method string, req any, respond func([]byte) ([]byte, error)) (any, error, bool)
	Decode func(b []byte) (uint32, string, any, bool)
}

func herr(what string, a ...any) sx.V {
	return sx.L(sx.A("harness-error"), sx.Str(fmt.Sprintf(what, a...)))
}

func safe(f func() sx.V) (out sx.V) {
	defer func() {
		if r := recover(); r != nil {
			out = sx.A("panic")
		}
	}()
	return f()
}

func tlMarshal(t reflect.Type, sv sx.V, junk []byte) sx.V {
	v := reflect.New(t).Elem()
	if err := FromSx(v, sv); err != nil {
		return herr("value: %v", err)
	}
	b, err := tl.Marshal(v.Interface())
	if err != nil {
		return sx.A("err")
	}
	p := reflect.New(t)
	r := bytes.NewReader(append(append([]byte{}, b...), junk...))
	if err := tl.Unmarshal(r, p.Interface()); err != nil {
		return sx.L(sx.Bytes(b), sx.A("decode-err"), sx.Nat(0))
	}
	return sx.L(sx.Bytes(b), ToSx(p.Elem()), sx.Nat(r.Len()))
}

func tlUnmarshal(t reflect.Type, b []byte) sx.V {
	p := reflect.New(t)
	r := bytes.NewReader(b)
	if err := tl.Unmarshal(r, p.Interface()); err != nil {
		return sx.A("err")
	}
	return sx.L(ToSx(p.Elem()), sx.Nat(r.Len()))
}

func tlRequest(pk TlPkg, method string, rv sx.V, resp []byte) sx.V {
	var req any
	var reqT reflect.Type
	if !rv.IsA("none") {
		t, ok := pk.Types[method+"Request"]
		if !ok {
			return herr("no request type for %s", method)
		}
		reqT = t
		v := reflect.New(t).Elem()
		if err := FromSx(v, rv); err != nil {
			return herr("request value: %v", err)
		}
		req = v.Interface()
	}
	var payload []byte
	called := false
	res, rerr, ok := pk.Call(method, req, func(p []byte) ([]byte, error) {
		called = true
		payload = append([]byte{}, p...)
		return append([]byte{}, resp...), nil
	})
	if !ok {
		return herr("no method %s", method)
	}
	if !called {
		return sx.A("err") // the request could not be marshalled
	}
	// the server side of the same request
	agrees := false
	if tag, _, body, ok := pk.Decode(payload); ok && len(payload) >= 4 {
		_ = tag
		if reqT == nil {
			agrees = true
		} else if body != nil && reflect.TypeOf(body) == reqT {
			agrees = ToSx(reflect.ValueOf(body)).String() == rv.String()
		}
	}
	var out sx.V
	switch {
	case rerr == nil:
		out = sx.L(sx.A("result"), ToSx(reflect.ValueOf(res)))
	default:
		ev := reflect.ValueOf(rerr)
		if et, ok := pk.Types["LiteServerErrorC"]; ok && ev.Type() == et {
			out = sx.L(sx.A("lserror"), ToSx(ev))
		} else {
			out = sx.A("err")
		}
	}
	return sx.L(sx.Bytes(payload), out, sx.B(agrees))
}

type tlbEntry struct {
	t reflect.Type
	d *tlbdesc.Desc
}

func tlbEncode(e tlbEntry, v sx.V) sx.V {
	pv := reflect.New(e.t)
	if err := e.d.Fill(v, pv.Elem()); err != nil {
		return herr("fill: %v", err)
	}
	c := boc.NewCell()
	if err := tlb.Marshal(c, pv.Elem().Interface()); err != nil {
		return sx.A("err")
	}
	cs := tlbdesc.CellSx(c)
	c.ResetCounters()
	back := reflect.New(e.t)
	if err := tlb.Unmarshal(c, back.Interface()); err != nil {
		return sx.L(cs, sx.A("decode-err"))
	}
	return sx.L(cs, e.d.Render(back.Elem()))
}

// DriverMain serves requests until stdin closes.
func DriverMain(tls map[string]TlPkg, tlbs map[string]map[string]reflect.Type) {
	rd := bufio.NewReaderSize(os.Stdin, 1<<20)
	w := bufio.NewWriterSize(os.Stdout, 1<<20)
	defer w.Flush()
	descs := map[string]tlbEntry{}
	entry := func(pkg, name string) (tlbEntry, bool) {
		k := pkg + "." + name
		if e, ok := descs[k]; ok {
			return e, true
		}
		t, ok := tlbs[pkg][name]
		if !ok {
			return tlbEntry{}, false
		}
		e := tlbEntry{t, tlbdesc.Describe(t, "")}
		descs[k] = e
		return e, true
	}
	for {
		line, err := rd.ReadString('\n')
		if len(line) > 1 {
			in, perr := sx.Parse(line[:len(line)-1])
			var out sx.V
			if perr != nil || in.K != sx.KL || len(in.List) < 3 || in.List[1].K != sx.KA || in.List[2].K != sx.KA {
				out = herr("request")
			} else {
				op, pkg, name, args := in.Head(), in.List[1].Atom, in.List[2].Atom, in.List[3:]
				out = safe(func() sx.V {
					switch op {
					case "gen":
						if len(args) != 1 || args[0].K != sx.KBytes {
							return herr("gen arguments")
						}
						var code string
						var gerr error
						if pkg == "tlb" {
							code, gerr = GenTlb(string(args[0].Bytes))
						} else {
							code, gerr = GenTl(string(args[0].Bytes))
						}
						if gerr != nil {
							return sx.A("err")
						}
						return sx.Str(code)
					case "tl.m", "tl.u", "tl.req":
						pk, ok := tls[pkg]
						if !ok {
							return herr("no package %s", pkg)
						}
						if op == "tl.req" {
							if len(args) != 2 || args[1].K != sx.KBytes {
								return herr("tl.req arguments")
							}
							return tlRequest(pk, name, args[0], args[1].Bytes)
						}
						t, ok := pk.Types[name]
						if !ok {
							return herr("no type %s.%s", pkg, name)
						}
						if op == "tl.m" {
							if len(args) != 2 || args[1].K != sx.KBytes {
								return herr("tl.m arguments")
							}
							return tlMarshal(t, args[0], args[1].Bytes)
						}
						if len(args) != 1 || args[0].K != sx.KBytes {
							return herr("tl.u arguments")
						}
						return tlUnmarshal(t, args[0].Bytes)
					case "tlb.dicts":
						t, ok := tlbs[pkg][name]
						if !ok {
							return herr("no type %s.%s", pkg, name)
						}
						return TlbDicts(t)
					case "tlb.d", "tlb.r", "tlb.e":
						e, ok := entry(pkg, name)
						if !ok {
							return herr("no type %s.%s", pkg, name)
						}
						if e.d.K == tlbdesc.KOpaque {
							if op == "tlb.d" {
								return sx.L(sx.A("opaque"), sx.Str(e.d.Why))
							}
							return herr("opaque type %s.%s", pkg, name)
						}
						switch op {
						case "tlb.d":
							return sx.L(e.d.Sx(), sx.Str(e.d.Coq()))
						case "tlb.r":
							if len(args) != 2 {
								return herr("tlb.r arguments")
							}
							r := prng.New(args[0].U64())
							var vs []sx.V
							for i := 0; i < args[1].I(); i++ {
								pv := reflect.New(e.t)
								vs = append(vs, e.d.Rand(r, pv.Elem(), 0))
							}
							return sx.L(vs...)
						default:
							if len(args) != 1 {
								return herr("tlb.e arguments")
							}
							return tlbEncode(e, args[0])
						}
					}
					return herr("unknown request %s", op)
				})
			}
			fmt.Fprintln(w, out.String())
			w.Flush()
		}
		if err != nil {
			return
		}
	}
}
