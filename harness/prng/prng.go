// Package prng: xoshiro256** seeded by splitmix64; the only source of
// randomness in the harness, so that (seed, case index) replays exactly.
package prng

import "math/bits"

type R struct{ s [4]uint64 }

func New(seed uint64) *R {
	r := &R{}
	x := seed
	for i := 0; i < 4; i++ {
		x += 0x9e3779b97f4a7c15
		z := x
		z = (z ^ (z >> 30)) * 0xbf58476d1ce4e5b9
		z = (z ^ (z >> 27)) * 0x94d049bb133111eb
		r.s[i] = z ^ (z >> 31)
	}
	return r
}

func (r *R) U64() uint64 {
	s := &r.s
	res := bits.RotateLeft64(s[1]*5, 7) * 9
	t := s[1] << 17
	s[2] ^= s[0]
	s[3] ^= s[1]
	s[1] ^= s[2]
	s[0] ^= s[3]
	s[2] ^= t
	s[3] = bits.RotateLeft64(s[3], 45)
	return res
}

// Intn returns a value in [0,n).
func (r *R) Intn(n int) int {
	if n <= 0 {
		return 0
	}
	return int(r.U64() % uint64(n))
}
func (r *R) Bool() bool   { return r.U64()&1 == 1 }
func (r *R) Chance(p int) bool { return r.Intn(100) < p }
func (r *R) Bytes(n int) []byte {
	b := make([]byte, n)
	for i := range b {
		b[i] = byte(r.U64())
	}
	return b
}
func (r *R) Pick(xs []int) int { return xs[r.Intn(len(xs))] }

// Fork derives an independent stream (per case) so that cases can be replayed
// individually.
func (r *R) Fork(i uint64) *R { return New(r.s[0] ^ (i * 0x9e3779b97f4a7c15) ^ r.s[2]) }
