module verifharness

go 1.19

require (
	github.com/oasisprotocol/curve25519-voi v0.0.0-20220328075252-7dd334e3daae
	github.com/tonkeeper/tongo v0.0.0
)

require (
	github.com/alecthomas/participle/v2 v2.0.0-beta.5 // indirect
	github.com/snksoft/crc v1.1.0 // indirect
	golang.org/x/crypto v0.17.0 // indirect
	golang.org/x/exp v0.0.0-20230116083435-1de6713980de // indirect
	golang.org/x/sys v0.15.0 // indirect
)

replace github.com/tonkeeper/tongo => /repo
