module verifharness

go 1.19

require github.com/tonkeeper/tongo v0.0.0

replace github.com/tonkeeper/tongo => /repo
