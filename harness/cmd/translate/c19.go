package main

// C19: the data that tonconnect.CheckProof depends on, copied out of the source:
//   - tonconnect/server.go: the two prefix strings, the default lifetimes, the upper
//     bound of the loop that fills knownHashes, the switch of ParseStateInit
//     (version -> wallet data type, and whether the default clause returns an error)
//   - wallet/models.go: the iota order of Version and the code BOC of every version
//     (base64 text decoded to bytes)
//   - wallet/*.go: for every data type named in the switch, the bit offset of the field
//     PublicKey (sum of the widths of the fields before it) and whether a HashmapE
//     follows it
//   - abi/get_methods.go: the method id literal of GetPublicKey
//   - the representation hash of every code BOC, computed with tongo's boc package.
//     Properties/C19_gen.v recomputes these hashes from the BOC bytes with the Coq
//     models of the parser and of the cell hash and compares.
// No meaning is attached here; Properties/C19_gen.v states the obligations.

import (
	"bytes"
	"encoding/base64"
	"fmt"
	"go/ast"
	"go/token"
	"path/filepath"
	"strconv"
	"strings"

	"github.com/tonkeeper/tongo/boc"
)

func c19Bytes(b []byte) string {
	xs := make([]uint64, len(b))
	for i, v := range b {
		xs[i] = uint64(v)
	}
	return coqNList(xs)
}

// c19Structs collects struct type specs of the given files.
func c19Structs(rels ...string) map[string]*ast.StructType {
	m := map[string]*ast.StructType{}
	for _, rel := range rels {
		f := parse(rel)
		for _, d := range f.f.Decls {
			g, ok := d.(*ast.GenDecl)
			if !ok || g.Tok != token.TYPE {
				continue
			}
			for _, s := range g.Specs {
				ts := s.(*ast.TypeSpec)
				if st, ok := ts.Type.(*ast.StructType); ok {
					m[ts.Name.Name] = st
				}
			}
		}
	}
	return m
}

// c19Width: bit width of a field type; dict=true for tlb.HashmapE[...].
func c19Width(structs map[string]*ast.StructType, e ast.Expr) (w int, dict bool) {
	switch t := e.(type) {
	case *ast.Ident:
		switch t.Name {
		case "bool":
			return 1, false
		case "uint8", "int8":
			return 8, false
		case "uint16", "int16":
			return 16, false
		case "uint32", "int32":
			return 32, false
		case "uint64", "int64":
			return 64, false
		}
		if st, ok := structs[t.Name]; ok {
			total := 0
			for _, f := range st.Fields.List {
				fw, d := c19Width(structs, f.Type)
				if d {
					fatal("c19: dictionary inside nested struct %s", t.Name)
				}
				total += fw * len(f.Names)
			}
			return total, false
		}
	case *ast.SelectorExpr:
		n := t.Sel.Name
		if n == "Bits256" {
			return 256, false
		}
		for _, p := range []string{"Uint", "Int"} {
			if strings.HasPrefix(n, p) {
				if v, err := strconv.Atoi(n[len(p):]); err == nil {
					return v, false
				}
			}
		}
	case *ast.IndexListExpr:
		if s, ok := t.X.(*ast.SelectorExpr); ok && s.Sel.Name == "HashmapE" {
			return 0, true
		}
	case *ast.IndexExpr:
		if s, ok := t.X.(*ast.SelectorExpr); ok && s.Sel.Name == "HashmapE" {
			return 0, true
		}
	}
	fatal("c19: cannot size field type %T", e)
	return 0, false
}

func genC19() {
	srv := parse("tonconnect/server.go")
	str := func(name string) string {
		s, ok := strLit(srv.topValue(name))
		if !ok {
			fatal("c19: %s is not a string literal", name)
		}
		return s
	}
	num := func(name string) uint64 {
		v, ok := intLit(srv.topValue(name))
		if !ok {
			fatal("c19: %s is not an integer literal", name)
		}
		return v
	}

	// Version iota order
	models := parse("wallet/models.go")
	var versions []string
	for _, d := range models.f.Decls {
		g, ok := d.(*ast.GenDecl)
		if !ok || g.Tok != token.CONST || len(g.Specs) == 0 {
			continue
		}
		first := g.Specs[0].(*ast.ValueSpec)
		if id, ok := first.Type.(*ast.Ident); !ok || id.Name != "Version" {
			continue
		}
		if len(first.Values) != 1 {
			continue
		}
		if id, ok := first.Values[0].(*ast.Ident); !ok || id.Name != "iota" {
			continue
		}
		for _, s := range g.Specs {
			vs := s.(*ast.ValueSpec)
			if len(vs.Values) > 0 && s != g.Specs[0] {
				fatal("c19: Version const block is not a plain iota enumeration")
			}
			for _, n := range vs.Names {
				versions = append(versions, n.Name)
			}
		}
	}
	if len(versions) == 0 {
		fatal("c19: Version enumeration not found")
	}
	index := map[string]int{}
	for i, n := range versions {
		index[n] = i
	}

	// code BOCs
	codes := map[string][]byte{}
	cl, ok := models.topValue("codes").(*ast.CompositeLit)
	if !ok {
		fatal("c19: codes is not a composite literal")
	}
	for _, e := range cl.Elts {
		kv := e.(*ast.KeyValueExpr)
		k := kv.Key.(*ast.Ident).Name
		s, ok := strLit(kv.Value)
		if !ok {
			fatal("c19: code of %s is not a string literal", k)
		}
		b, err := base64.StdEncoding.DecodeString(s)
		if err != nil {
			fatal("c19: code of %s: %v", k, err)
		}
		codes[k] = b
	}

	// upper bound of the knownHashes loop
	upper := -1
	lower := -1
	if fd := srv.funcDecl("init"); fd != nil {
		ast.Inspect(fd, func(n ast.Node) bool {
			fs, ok := n.(*ast.ForStmt)
			if !ok {
				return true
			}
			if be, ok := fs.Cond.(*ast.BinaryExpr); ok && be.Op == token.LEQ {
				if se, ok := be.Y.(*ast.SelectorExpr); ok {
					if i, ok := index[se.Sel.Name]; ok {
						upper = i
					}
				}
			}
			if as, ok := fs.Init.(*ast.AssignStmt); ok && len(as.Rhs) == 1 {
				if ce, ok := as.Rhs[0].(*ast.CallExpr); ok && len(ce.Args) == 1 {
					if v, ok := intLit(ce.Args[0]); ok {
						lower = int(v)
					}
				}
			}
			return true
		})
	}
	if upper < 0 || lower < 0 {
		fatal("c19: loop filling knownHashes not recognised")
	}

	// switch of ParseStateInit
	structs := c19Structs("wallet/wallet_v1v2.go", "wallet/wallet_v3.go", "wallet/wallet_v4.go",
		"wallet/wallet_v5.go", "wallet/wallet_v5_beta.go", "wallet/wallet_highload_v2.go")
	type layout struct {
		off  int
		dict bool
		typ  string
	}
	layoutOf := func(typ string) layout {
		st, ok := structs[typ]
		if !ok {
			fatal("c19: data type %s not found", typ)
		}
		off := 0
		found := false
		dict := false
		for _, f := range st.Fields.List {
			for _, n := range f.Names {
				w, d := c19Width(structs, f.Type)
				if found {
					if d {
						dict = true
					} else {
						fatal("c19: %s has a non-dictionary field after PublicKey", typ)
					}
					continue
				}
				if n.Name == "PublicKey" {
					if w != 256 {
						fatal("c19: %s.PublicKey is not 256 bits", typ)
					}
					found = true
					continue
				}
				if d {
					fatal("c19: %s has a dictionary before PublicKey", typ)
				}
				off += w
			}
		}
		if !found {
			fatal("c19: %s has no PublicKey", typ)
		}
		return layout{off, dict, typ}
	}
	var sw [][3]int // version, off, dict
	defaultErr := false
	seenSwitch := false
	if fd := srv.funcDecl("ParseStateInit"); fd != nil {
		ast.Inspect(fd, func(n ast.Node) bool {
			ss, ok := n.(*ast.SwitchStmt)
			if !ok {
				return true
			}
			if id, ok := ss.Tag.(*ast.Ident); !ok || id.Name != "version" {
				return true
			}
			seenSwitch = true
			for _, c := range ss.Body.List {
				cc := c.(*ast.CaseClause)
				if cc.List == nil {
					for _, st := range cc.Body {
						if rs, ok := st.(*ast.ReturnStmt); ok && len(rs.Results) == 2 {
							if id, ok := rs.Results[1].(*ast.Ident); !ok || id.Name != "nil" {
								if id0, ok := rs.Results[0].(*ast.Ident); ok && id0.Name == "nil" {
									defaultErr = true
								}
							}
						}
					}
					continue
				}
				typ := ""
				usesKey := false
				for _, st := range cc.Body {
					if ds, ok := st.(*ast.DeclStmt); ok {
						for _, s := range ds.Decl.(*ast.GenDecl).Specs {
							if vs, ok := s.(*ast.ValueSpec); ok {
								if se, ok := vs.Type.(*ast.SelectorExpr); ok {
									typ = se.Sel.Name
								}
							}
						}
					}
					if as, ok := st.(*ast.AssignStmt); ok && len(as.Lhs) == 1 && len(as.Rhs) == 1 {
						if l, ok := as.Lhs[0].(*ast.Ident); ok && l.Name == "pubKey" {
							if se, ok := as.Rhs[0].(*ast.SelectorExpr); ok && se.Sel.Name == "PublicKey" {
								usesKey = true
							}
						}
					}
				}
				if typ == "" || !usesKey {
					fatal("c19: case clause of ParseStateInit not recognised")
				}
				lo := layoutOf(typ)
				for _, e := range cc.List {
					se, ok := e.(*ast.SelectorExpr)
					if !ok {
						fatal("c19: case label not recognised")
					}
					d := 0
					if lo.dict {
						d = 1
					}
					sw = append(sw, [3]int{index[se.Sel.Name], lo.off, d})
				}
			}
			return false
		})
	}
	if !seenSwitch {
		fatal("c19: switch of ParseStateInit not found")
	}

	// method id
	method := uint64(0)
	abi := parse("abi/get_methods.go")
	if fd := abi.funcDecl("GetPublicKey"); fd != nil {
		ast.Inspect(fd, func(n ast.Node) bool {
			ce, ok := n.(*ast.CallExpr)
			if !ok {
				return true
			}
			if se, ok := ce.Fun.(*ast.SelectorExpr); ok && se.Sel.Name == "RunSmcMethodByID" && len(ce.Args) == 4 {
				if v, ok := intLit(ce.Args[2]); ok {
					method = v
				}
			}
			return true
		})
	}

	var b bytes.Buffer
	b.WriteString("(* GENERATED by harness/cmd/translate (genC19) from tonconnect/server.go, wallet/*.go, abi/get_methods.go. Do not edit. *)\n")
	b.WriteString("From Coq Require Import List NArith ZArith.\nImport ListNotations.\nLocal Open Scope N_scope.\n\n")
	fmt.Fprintf(&b, "Definition gen_tonProofPrefix : list N := %s.\n", c19Bytes([]byte(str("tonProofPrefix"))))
	fmt.Fprintf(&b, "Definition gen_tonConnectPrefix : list N := %s.\n", c19Bytes([]byte(str("tonConnectPrefix"))))
	fmt.Fprintf(&b, "Definition gen_defaultLifeTimeProof : Z := %d%%Z.\n", num("defaultLifeTimeProof"))
	fmt.Fprintf(&b, "Definition gen_defaultLifeTimePayload : Z := %d%%Z.\n", num("defaultLifeTimePayload"))
	fmt.Fprintf(&b, "Definition gen_get_public_key_method : N := %d.\n", method)
	fmt.Fprintf(&b, "Definition gen_version_count : N := %d.\n", len(versions))
	fmt.Fprintf(&b, "Definition gen_known_lower : N := %d.\n", lower)
	fmt.Fprintf(&b, "Definition gen_known_upper : N := %d. (* %s *)\n", upper, versions[upper])
	fmt.Fprintf(&b, "Definition gen_switch_default_is_error : bool := %v.\n", defaultErr)
	b.WriteString("(* (version, bit offset of PublicKey, 1 if a HashmapE follows) per case label of ParseStateInit *)\n")
	b.WriteString("Definition gen_switch : list (N * (N * N)) := [")
	for i, s := range sw {
		if i > 0 {
			b.WriteString("; ")
		}
		fmt.Fprintf(&b, "(%d, (%d, %d))", s[0], s[1], s[2])
	}
	b.WriteString("].\n")
	b.WriteString("(* (version, code BOC bytes) for every version with an entry in wallet.codes *)\n")
	b.WriteString("Definition gen_code_bocs : list (N * list N) := [\n")
	firstOut := true
	for i, n := range versions {
		c, ok := codes[n]
		if !ok {
			continue
		}
		if !firstOut {
			b.WriteString(";\n")
		}
		firstOut = false
		fmt.Fprintf(&b, "  (* %s *) (%d, %s)", n, i, c19Bytes(c))
	}
	b.WriteString("].\n")
	b.WriteString("(* (version, representation hash of its code) for lower <= version <= upper, as computed by tongo *)\n")
	b.WriteString("Definition gen_known_hashes : list (N * list N) := [\n")
	for i := lower; i <= upper; i++ {
		c, ok := codes[versions[i]]
		if !ok {
			fatal("c19: version %s has no code", versions[i])
		}
		cells, err := boc.DeserializeBoc(c)
		if err != nil || len(cells) != 1 {
			fatal("c19: code of %s does not parse", versions[i])
		}
		h, err := cells[0].Hash()
		if err != nil {
			fatal("c19: hash of %s: %v", versions[i], err)
		}
		if i > lower {
			b.WriteString(";\n")
		}
		fmt.Fprintf(&b, "  (* %s *) (%d, %s)", versions[i], i, c19Bytes(h))
	}
	b.WriteString("].\n")
	writeIfChanged(filepath.Join(*out, "TonConnectConsts.v"), b.Bytes())
}
