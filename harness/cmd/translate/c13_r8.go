package main

// C13 (round 8): the critical sections of liteapi/pool as data (coq/Generated/PoolSections.v).
//
// A check and the store that depends on it must be ONE critical section ("is this head
// newer than the stored one?  then store it"): split over two sections (check under RLock,
// store under Lock) two callers can both pass the check and the older head is stored last.
// The window is a few instructions wide; whether it exists is a fact about the source.
//
// For every method of *ConnPool and *connection this lists, in source order:
//   sections       every critical section on the receiver's mu: the lock kind (1 RLock, 2 Lock),
//                  the receiver fields read in it and the receiver fields written in it.
//                  A section starts at a r.mu.Lock()/RLock() call and reaches to the last
//                  r.mu.Unlock()/RUnlock() call before the next Lock/RLock call (to the end of
//                  the body if the unlock is deferred or missing);
//   calls_outside  methods of the same receiver called outside every section;
//   reads_outside / writes_outside  receiver fields read / written outside every section.
// A write is: the target of an assignment or ++/-- (also through an index: r.f[k] = v) and the
// first argument of delete(); every other mention of r.f is a read.  Lock calls inside function
// literals are ignored; field accesses inside them count at their source position.
// Also: the field names of the two structs in declaration order (the fields after `mu` are the
// ones it guards).  No meaning is attached here; Properties/C13_gen_r8.v states the obligations.

import (
	"bytes"
	"fmt"
	"go/ast"
	"go/token"
	"path/filepath"
	"sort"
)

type c13Section struct {
	kind          int
	from, to      token.Pos
	reads, writes []string
}

type c13SecMethod struct {
	recvType, name string
	sections       []*c13Section
	callsOutside   []string
	readsOutside   []string
	writesOutside  []string
}

func c13AddUniq(xs []string, x string) []string {
	for _, y := range xs {
		if y == x {
			return xs
		}
	}
	return append(xs, x)
}

// recv.F with F a field of the receiver's struct
func c13FieldSel(e ast.Expr, recv string, fields map[string]bool) (*ast.SelectorExpr, bool) {
	sel, ok := e.(*ast.SelectorExpr)
	if !ok {
		return nil, false
	}
	id, ok := sel.X.(*ast.Ident)
	if !ok || id.Name != recv || !fields[sel.Sel.Name] || sel.Sel.Name == "mu" {
		return nil, false
	}
	return sel, true
}

func c13WriteTarget(e ast.Expr) ast.Expr {
	for {
		switch x := e.(type) {
		case *ast.IndexExpr:
			e = x.X
		case *ast.ParenExpr:
			e = x.X
		case *ast.StarExpr:
			e = x.X
		default:
			return e
		}
	}
}

func c13Sections(fd *ast.FuncDecl, typ, recv string, methods, fields map[string]bool) c13SecMethod {
	m := c13SecMethod{recvType: typ, name: fd.Name.Name}
	if fd.Body == nil || recv == "" {
		return m
	}
	type ev struct {
		pos  token.Pos
		kind int // 1 RLock, 2 Lock, 0 unlock
	}
	var evs []ev
	deferred := false
	ast.Inspect(fd.Body, func(n ast.Node) bool {
		switch x := n.(type) {
		case *ast.FuncLit:
			return false
		case *ast.DeferStmt:
			if s := c13MuCall(x.Call, recv); s == "Unlock" || s == "RUnlock" {
				deferred = true
			}
			return false
		case *ast.CallExpr:
			switch c13MuCall(x, recv) {
			case "Lock":
				evs = append(evs, ev{x.Pos(), 2})
			case "RLock":
				evs = append(evs, ev{x.Pos(), 1})
			case "Unlock", "RUnlock":
				evs = append(evs, ev{x.Pos(), 0})
			}
		}
		return true
	})
	sort.Slice(evs, func(i, j int) bool { return evs[i].pos < evs[j].pos })
	var cur *c13Section
	closed := false
	for _, e := range evs {
		if e.kind != 0 {
			if cur != nil && !closed {
				cur.to = e.pos // a lock taken while one is held: the first section ends here
			}
			cur = &c13Section{kind: e.kind, from: e.pos, to: fd.Body.End()}
			closed = false
			m.sections = append(m.sections, cur)
		} else if cur != nil {
			cur.to = e.pos
			closed = true
		}
	}
	if cur != nil && (deferred || !closed) {
		cur.to = fd.Body.End()
	}
	sectionAt := func(p token.Pos) *c13Section {
		for _, s := range m.sections {
			if p > s.from && p < s.to {
				return s
			}
		}
		return nil
	}
	isWrite := map[*ast.SelectorExpr]bool{}
	markWrite := func(e ast.Expr) {
		if sel, ok := c13FieldSel(c13WriteTarget(e), recv, fields); ok {
			isWrite[sel] = true
		}
	}
	ast.Inspect(fd.Body, func(n ast.Node) bool {
		switch x := n.(type) {
		case *ast.AssignStmt:
			for _, l := range x.Lhs {
				markWrite(l)
			}
		case *ast.IncDecStmt:
			markWrite(x.X)
		case *ast.CallExpr:
			if id, ok := x.Fun.(*ast.Ident); ok && id.Name == "delete" && len(x.Args) > 0 {
				markWrite(x.Args[0])
			}
		}
		return true
	})
	ast.Inspect(fd.Body, func(n ast.Node) bool {
		switch x := n.(type) {
		case *ast.CallExpr:
			if sel, ok := x.Fun.(*ast.SelectorExpr); ok {
				if id, ok := sel.X.(*ast.Ident); ok && id.Name == recv && methods[sel.Sel.Name] && sectionAt(x.Pos()) == nil {
					m.callsOutside = append(m.callsOutside, sel.Sel.Name)
				}
			}
		case *ast.SelectorExpr:
			sel, ok := c13FieldSel(x, recv, fields)
			if !ok {
				return true
			}
			s := sectionAt(sel.Pos())
			switch {
			case s != nil && isWrite[sel]:
				s.writes = c13AddUniq(s.writes, sel.Sel.Name)
			case s != nil:
				s.reads = c13AddUniq(s.reads, sel.Sel.Name)
			case isWrite[sel]:
				m.writesOutside = c13AddUniq(m.writesOutside, sel.Sel.Name)
			default:
				m.readsOutside = c13AddUniq(m.readsOutside, sel.Sel.Name)
			}
		}
		return true
	})
	return m
}

func c13StructFields(files []*file, typ string) []string {
	var out []string
	for _, f := range files {
		for _, d := range f.f.Decls {
			gd, ok := d.(*ast.GenDecl)
			if !ok {
				continue
			}
			for _, sp := range gd.Specs {
				ts, ok := sp.(*ast.TypeSpec)
				if !ok || ts.Name.Name != typ {
					continue
				}
				st, ok := ts.Type.(*ast.StructType)
				if !ok {
					continue
				}
				for _, fl := range st.Fields.List {
					for _, n := range fl.Names {
						out = append(out, n.Name)
					}
				}
			}
		}
	}
	return out
}

func genC13r8() {
	files := []*file{parse("liteapi/pool/conn_pool.go"), parse("liteapi/pool/connection.go")}
	types := []string{"ConnPool", "connection"}
	methods := map[string]map[string]bool{}
	fields := map[string]map[string]bool{}
	fieldList := map[string][]string{}
	for _, t := range types {
		methods[t] = map[string]bool{}
		fields[t] = map[string]bool{}
		fieldList[t] = c13StructFields(files, t)
		for _, n := range fieldList[t] {
			fields[t][n] = true
		}
	}
	for _, f := range files {
		for _, d := range f.f.Decls {
			if fd, ok := d.(*ast.FuncDecl); ok {
				if typ, _ := c13RecvOf(fd); methods[typ] != nil {
					methods[typ][fd.Name.Name] = true
				}
			}
		}
	}
	var ms []c13SecMethod
	for _, f := range files {
		for _, d := range f.f.Decls {
			if fd, ok := d.(*ast.FuncDecl); ok {
				if typ, recv := c13RecvOf(fd); methods[typ] != nil {
					ms = append(ms, c13Sections(fd, typ, recv, methods[typ], fields[typ]))
				}
			}
		}
	}
	sort.SliceStable(ms, func(i, j int) bool {
		if ms[i].recvType != ms[j].recvType {
			return ms[i].recvType < ms[j].recvType
		}
		return ms[i].name < ms[j].name
	})
	var b bytes.Buffer
	b.WriteString("(* generated by harness/cmd/translate (genC13r8) from liteapi/pool/conn_pool.go and connection.go; do not edit *)\n")
	b.WriteString("From Coq Require Import List String NArith.\nImport ListNotations.\nLocal Open Scope string_scope.\n\n")
	b.WriteString("(* one critical section on the receiver's mu: lock kind (1 RLock, 2 Lock), receiver fields read in it,\n   receiver fields written in it *)\n")
	b.WriteString("Record crit_section := mkCS { cs_kind : N; cs_reads : list string; cs_writes : list string }.\n\n")
	b.WriteString("(* receiver type, method, its critical sections in source order, same-receiver methods called outside every\n   section, receiver fields read / written outside every section *)\n")
	b.WriteString("Record section_fact := mkSF { sf_type : string; sf_name : string; sf_sections : list crit_section;\n")
	b.WriteString("  sf_calls_outside : list string; sf_reads_outside : list string; sf_writes_outside : list string }.\n\n")
	b.WriteString("(* struct fields in declaration order *)\n")
	b.WriteString("Definition pool_struct_fields : list (string * list string) := [\n")
	for i, t := range types {
		sep := ";"
		if i == len(types)-1 {
			sep = ""
		}
		fmt.Fprintf(&b, "  (%q, %s)%s\n", t, c13StrList(fieldList[t]), sep)
	}
	b.WriteString("].\n\n")
	b.WriteString("Definition pool_section_facts : list section_fact := [\n")
	for i, m := range ms {
		sep := ";"
		if i == len(ms)-1 {
			sep = ""
		}
		var sb bytes.Buffer
		sb.WriteString("[")
		for k, s := range m.sections {
			if k > 0 {
				sb.WriteString("; ")
			}
			fmt.Fprintf(&sb, "mkCS %d %s %s", s.kind, c13StrList(s.reads), c13StrList(s.writes))
		}
		sb.WriteString("]")
		fmt.Fprintf(&b, "  mkSF %q %q %s %s %s %s%s\n", m.recvType, m.name, sb.String(),
			c13StrList(m.callsOutside), c13StrList(m.readsOutside), c13StrList(m.writesOutside), sep)
	}
	b.WriteString("].\n")
	writeIfChanged(filepath.Join(*out, "PoolSections.v"), b.Bytes())
}
