package main

// C11 (round 8): who writes to the tx cipher stream of a connection, as data
// (coq/Generated/ConnSends.v).
//
// AES-CTR state carries across packets: encryptedConn.send (XORKeyStream on the
// tx cipher in place, then conn.Write) must be executed by one goroutine at a
// time per connection, and the frames must reach the wire in the order in which
// they took key stream.  The library serialises with Connection.mu.  Whether
// every user of the stream does so is a fact about the source; a run-time test
// cannot hit a window of microseconds that opens every 3 s (the pinger).
//
// For every function of package liteclient (all non-test files without the
// verif build tag) this lists, in source order:
//   "xor-tx"  a call X.cipher.XORKeyStream(..)          (the tx cipher field)
//   "tx-ref"  any other mention of a field named cipher  (the stream escaping)
//   "write"   a call X.conn.Write(..)
//   "call"    a call of a method of Connection / encryptedConn or of a function
//             of connection.go / encrypted_conn.go, by name
// each with: receiver type and name of the enclosing function, the target name,
// held  = the site executes with the receiver's mu held: an earlier TOP-LEVEL
//         statement `r.mu.Lock()` of the same function with no `r.mu.Unlock()`
//         statement (other than a deferred one) between it and the site,
// async = the site is inside a function literal, or is the call of a go / defer
//         statement (it does not execute at this point of the function).
// No meaning is attached here; Properties/C11_gen_r8.v states the obligation.

import (
	"bytes"
	"fmt"
	"go/ast"
	"go/token"
	"os"
	"path/filepath"
	"sort"
	"strings"
)

type c11Site struct {
	file, recv, fn, kind, target string
	held, async               bool
}

func c11r8Files() []string {
	ents, err := os.ReadDir(filepath.Join(*repo, "liteclient"))
	if err != nil {
		fatal("read liteclient: %v", err)
	}
	var fs []string
	for _, e := range ents {
		n := e.Name()
		if e.IsDir() || !strings.HasSuffix(n, ".go") || strings.HasSuffix(n, "_test.go") {
			continue
		}
		src, err := os.ReadFile(filepath.Join(*repo, "liteclient", n))
		if err != nil {
			fatal("read %s: %v", n, err)
		}
		head := src
		if i := bytes.Index(src, []byte("\npackage ")); i >= 0 {
			head = src[:i]
		}
		if bytes.Contains(head, []byte("go:build verif")) || bytes.Contains(head, []byte("+build verif")) {
			continue
		}
		fs = append(fs, n)
	}
	sort.Strings(fs)
	return fs
}

// r.mu.<sel>() as a call expression
func c11r8MuCall(e ast.Expr, recv string) string {
	if recv == "" {
		return ""
	}
	return c13MuCall(e, recv)
}

func c11r8Analyse(fname string, fd *ast.FuncDecl, declared map[string]bool) []c11Site {
	typ, recv := c13RecvOf(fd)
	if fd.Recv != nil && typ == "" {
		typ = "?"
	}
	var locks, unlocks []token.Pos
	for _, st := range fd.Body.List {
		if es, ok := st.(*ast.ExprStmt); ok && c11r8MuCall(es.X, recv) == "Lock" {
			locks = append(locks, es.Pos())
		}
	}
	deferredCalls := map[*ast.CallExpr]bool{}
	asyncCalls := map[*ast.CallExpr]bool{}
	ast.Inspect(fd.Body, func(n ast.Node) bool {
		switch x := n.(type) {
		case *ast.DeferStmt:
			deferredCalls[x.Call] = true
			asyncCalls[x.Call] = true
		case *ast.GoStmt:
			asyncCalls[x.Call] = true
		case *ast.ExprStmt:
			if c11r8MuCall(x.X, recv) == "Unlock" {
				unlocks = append(unlocks, x.Pos())
			}
		}
		return true
	})
	held := func(p token.Pos) bool {
		for _, l := range locks {
			if l >= p {
				continue
			}
			free := false
			for _, u := range unlocks {
				if u > l && u < p {
					free = true
				}
			}
			if !free {
				return true
			}
		}
		return false
	}
	var sites []c11Site
	add := func(kind, target string, p token.Pos, async bool) {
		sites = append(sites, c11Site{file: fname, recv: typ, fn: fd.Name.Name, kind: kind, target: target, held: held(p) && !async, async: async})
	}
	xorRecv := map[*ast.SelectorExpr]bool{}
	var walk func(n ast.Node, async bool)
	walk = func(n ast.Node, async bool) {
		ast.Inspect(n, func(m ast.Node) bool {
			switch x := m.(type) {
			case *ast.FuncLit:
				if m != n {
					walk(x.Body, true)
					return false
				}
			case *ast.CallExpr:
				a := async || asyncCalls[x]
				switch f := x.Fun.(type) {
				case *ast.Ident:
					if declared[f.Name] {
						add("call", f.Name, x.Pos(), a)
					}
				case *ast.SelectorExpr:
					inner, _ := f.X.(*ast.SelectorExpr)
					switch {
					case f.Sel.Name == "XORKeyStream" && inner != nil && inner.Sel.Name == "cipher":
						xorRecv[inner] = true
						add("xor-tx", "cipher", x.Pos(), a)
					case f.Sel.Name == "Write" && inner != nil && inner.Sel.Name == "conn":
						add("write", "conn", x.Pos(), a)
					case declared[f.Sel.Name]:
						add("call", f.Sel.Name, x.Pos(), a)
					}
				}
			case *ast.SelectorExpr:
				if x.Sel.Name == "cipher" && !xorRecv[x] {
					add("tx-ref", "cipher", x.Pos(), async)
				}
			}
			return true
		})
	}
	walk(fd.Body, false)
	return sites
}

func genC11r8() {
	names := c11r8Files()
	files := map[string]*file{}
	declared := map[string]bool{}
	for _, n := range names {
		f := parse(filepath.Join("liteclient", n))
		files[n] = f
		for _, d := range f.f.Decls {
			fd, ok := d.(*ast.FuncDecl)
			if !ok {
				continue
			}
			typ, _ := c13RecvOf(fd)
			if typ == "Connection" || typ == "encryptedConn" ||
				(fd.Recv == nil && (n == "connection.go" || n == "encrypted_conn.go")) {
				declared[fd.Name.Name] = true
			}
		}
	}
	var sites []c11Site
	for _, n := range names {
		for _, d := range files[n].f.Decls {
			if fd, ok := d.(*ast.FuncDecl); ok && fd.Body != nil {
				sites = append(sites, c11r8Analyse(n, fd, declared)...)
			}
		}
	}
	var b bytes.Buffer
	b.WriteString("(* generated by harness/cmd/translate (genC11r8) from liteclient/*.go; do not edit *)\n")
	b.WriteString("From Coq Require Import List String.\nImport ListNotations.\nLocal Open Scope string_scope.\n\n")
	b.WriteString("(* file, receiver type of the enclosing function (\"\" for a plain function), its name, kind of the site\n")
	b.WriteString("   (xor-tx: X.cipher.XORKeyStream; tx-ref: other mention of a field cipher; write: X.conn.Write;\n")
	b.WriteString("   call: call of a function of the connection layer by name), target name,\n")
	b.WriteString("   held: executes with the receiver's mu held (top-level Lock earlier in the same function, no\n")
	b.WriteString("   non-deferred Unlock in between), async: inside a function literal or the call of a go/defer statement *)\n")
	b.WriteString("Record conn_site := mkCS { cs_file : string; cs_recv : string; cs_func : string; cs_kind : string;\n")
	b.WriteString("  cs_target : string; cs_held : bool; cs_async : bool }.\n\n")
	b.WriteString("Definition conn_source_files : list string := [")
	for i, n := range names {
		if i > 0 {
			b.WriteString("; ")
		}
		fmt.Fprintf(&b, "%q", n)
	}
	b.WriteString("].\n\n")
	b.WriteString("Definition conn_sites : list conn_site := [\n")
	for i, s := range sites {
		sep := ";"
		if i == len(sites)-1 {
			sep = ""
		}
		fmt.Fprintf(&b, "  mkCS %q %q %q %q %q %v %v%s\n", s.file, s.recv, s.fn, s.kind, s.target, s.held, s.async, sep)
	}
	b.WriteString("].\n")
	writeIfChanged(filepath.Join(*out, "ConnSends.v"), b.Bytes())
}
