package main

// C10: the TL schema liteclient/lite_api.tl and the *structure* of the TL
// bindings of package liteclient as data.
//
//   Generated/TlSchema.v    tl_types, tl_functions : list decl
//       own line parser of lite_api.tl (independent of tl/parser)
//   Generated/TlBindings.v  tl_bindings : bindings, tl_methods : list method,
//                           tl_request_table
//       go/ast over liteclient/generated.go and liteclient/extensions.go:
//       every type that has a MarshalTL or UnmarshalTL method becomes a
//       [binding]: its Go type as a [gty] term and the two method bodies in the
//       mini-language of coq/Model/Tl.v (Field, IfBit, WriteTag, ReadTag, Self;
//       MPlain/MSwitch/MNone, UPlain/USwitch).  A statement sequence that is
//       not one of the shapes below becomes [Unrecognised "..."], on which the
//       checker of coq/Model/TlMatch.v fails: nothing is silently skipped.
//       Every method of *Client in generated.go becomes a [method] row (request
//       id, error id, response ids, response type, shape flag); the map
//       taggedRequestDecodeFunctions becomes tl_request_table.
//
// No meaning is attached here; Properties/C10_gen.v states the obligations.

import (
	"bytes"
	"fmt"
	"go/ast"
	"go/printer"
	"go/token"
	"os"
	"path/filepath"
	"reflect"
	"sort"
	"strconv"
	"strings"
)

// ---------------------------------------------------------------- schema

type c10Field struct {
	name    string
	cond    string // "" or mode field
	bit     uint64
	hasCond bool
	ty      string // Coq term
}

type c10Decl struct {
	name   string
	id     uint64
	idText string
	fields []c10Field
	res    string
}

func c10q(s string) string {
	return "\"" + strings.ReplaceAll(s, "\"", "\"\"") + "\""
}

// c10Ty renders a TL type expression as a Coq [ty] term (atomic terms are not
// parenthesised).
func c10Ty(t string) string {
	t = strings.TrimSpace(t)
	switch t {
	case "int":
		return "TInt"
	case "#":
		return "TNat"
	case "long":
		return "TLong"
	case "int256":
		return "TInt256"
	case "bytes":
		return "TBytes"
	case "string":
		return "TString"
	case "Bool":
		return "TBool"
	case "true":
		return "TTrue"
	}
	if strings.HasPrefix(t, "(") && strings.HasSuffix(t, ")") {
		in := strings.Fields(t[1 : len(t)-1])
		if len(in) == 2 && in[0] == "vector" {
			return "(TVector " + c10Ty(in[1]) + ")"
		}
		return "(TBare " + c10q("?unparsed:"+t) + ")"
	}
	if strings.HasPrefix(t, "vector<") && strings.HasSuffix(t, ">") {
		return "(TVector " + c10Ty(t[7:len(t)-1]) + ")"
	}
	for _, c := range t {
		ok := c == '.' || c == '_' || (c >= '0' && c <= '9') || (c >= 'a' && c <= 'z') || (c >= 'A' && c <= 'Z')
		if !ok {
			return "(TBare " + c10q("?unparsed:"+t) + ")"
		}
	}
	last := t
	if i := strings.LastIndexByte(t, '.'); i >= 0 {
		last = t[i+1:]
	}
	if last == "" {
		return "(TBare " + c10q("?unparsed:"+t) + ")"
	}
	if last[0] >= 'A' && last[0] <= 'Z' {
		return "(TBoxed " + c10q(t) + ")"
	}
	return "(TBare " + c10q(t) + ")"
}

// c10Tokens splits a declaration at blanks, keeping "( ... )" together.
func c10Tokens(s string) []string {
	var toks []string
	depth := 0
	cur := ""
	for _, c := range s {
		switch {
		case c == '(':
			depth++
			cur += string(c)
		case c == ')':
			depth--
			cur += string(c)
		case (c == ' ' || c == '\t') && depth == 0:
			if cur != "" {
				toks = append(toks, cur)
				cur = ""
			}
		default:
			cur += string(c)
		}
	}
	if cur != "" {
		toks = append(toks, cur)
	}
	return toks
}

func c10ParseDecl(s string) c10Decl {
	d := c10Decl{id: 1 << 32, idText: "no id"} // 2^32: decl_ok fails unless an id is found
	toks := c10Tokens(s)
	if len(toks) < 3 || toks[len(toks)-2] != "=" {
		d.name = "?unparsed:" + s
		return d
	}
	d.res = toks[len(toks)-1]
	head := toks[0]
	if i := strings.IndexByte(head, '#'); i >= 0 {
		d.name = head[:i]
		d.idText = "#" + head[i+1:]
		if v, err := strconv.ParseUint(head[i+1:], 16, 32); err == nil && len(head[i+1:]) == 8 {
			d.id = v
		}
	} else {
		d.name = head
	}
	for _, t := range toks[1 : len(toks)-2] {
		i := strings.IndexByte(t, ':')
		if i < 0 {
			d.fields = append(d.fields, c10Field{name: "?unparsed:" + t, ty: "(TBare " + c10q("?unparsed:"+t) + ")"})
			continue
		}
		f := c10Field{name: t[:i]}
		ty := t[i+1:]
		if q := strings.IndexByte(ty, '?'); q >= 0 && !strings.HasPrefix(ty, "(") {
			c := ty[:q]
			dot := strings.LastIndexByte(c, '.')
			bit, err := uint64(0), error(nil)
			if dot >= 0 {
				bit, err = strconv.ParseUint(c[dot+1:], 10, 32)
			}
			if dot < 0 || err != nil {
				f.ty = "(TBare " + c10q("?unparsed:"+ty) + ")"
				d.fields = append(d.fields, f)
				continue
			}
			f.hasCond, f.cond, f.bit = true, c[:dot], bit
			ty = ty[q+1:]
		}
		f.ty = c10Ty(ty)
		d.fields = append(d.fields, f)
	}
	return d
}

func c10ParseSchema(src string) (types, funcs []c10Decl) {
	// comments
	var sb strings.Builder
	for _, line := range strings.Split(src, "\n") {
		if i := strings.Index(line, "//"); i >= 0 {
			line = line[:i]
		}
		sb.WriteString(line)
		sb.WriteString(" ")
	}
	text := sb.String()
	inFuncs := false
	for {
		// section markers may sit between declarations
		t := strings.TrimSpace(text)
		if strings.HasPrefix(t, "---functions---") {
			inFuncs = true
			text = t[len("---functions---"):]
			continue
		}
		if strings.HasPrefix(t, "---types---") {
			inFuncs = false
			text = t[len("---types---"):]
			continue
		}
		i := strings.IndexByte(t, ';')
		if i < 0 {
			if t != "" {
				d := c10Decl{name: "?unterminated:" + t, id: 1 << 32, idText: "no id"}
				if inFuncs {
					funcs = append(funcs, d)
				} else {
					types = append(types, d)
				}
			}
			break
		}
		d := c10ParseDecl(strings.TrimSpace(t[:i]))
		if inFuncs {
			funcs = append(funcs, d)
		} else {
			types = append(types, d)
		}
		text = t[i+1:]
	}
	return
}

func c10WriteDecls(b *bytes.Buffer, name string, ds []c10Decl) {
	fmt.Fprintf(b, "Definition %s : list decl := [\n", name)
	for i, d := range ds {
		fmt.Fprintf(b, "  mkdecl %s %d (* %s *)\n    [", c10q(d.name), d.id, d.idText)
		for j, f := range d.fields {
			if j > 0 {
				b.WriteString(";\n     ")
			}
			cond := "None"
			if f.hasCond {
				cond = fmt.Sprintf("(Some (%s, %d))", c10q(f.cond), f.bit)
			}
			fmt.Fprintf(b, "mkfield %s %s %s", c10q(f.name), cond, f.ty)
		}
		sep := ";"
		if i == len(ds)-1 {
			sep = ""
		}
		fmt.Fprintf(b, "]\n    %s%s\n", c10q(d.res), sep)
	}
	b.WriteString("].\n")
}

func genTlSchema(repo, out string) {
	src, err := os.ReadFile(filepath.Join(repo, "liteclient/lite_api.tl"))
	if err != nil {
		fatal("read lite_api.tl: %v", err)
	}
	types, funcs := c10ParseSchema(string(src))
	var b bytes.Buffer
	b.WriteString("(* GENERATED by harness/cmd/translate from /repo/liteclient/lite_api.tl — do not edit *)\n")
	b.WriteString("From Coq Require Import String List NArith.\nFrom Tongo Require Import Spec.TlWire.\nImport ListNotations.\n")
	b.WriteString("Local Open Scope string_scope.\nLocal Open Scope N_scope.\n\n")
	c10WriteDecls(&b, "tl_types", types)
	b.WriteString("\n")
	c10WriteDecls(&b, "tl_functions", funcs)
	writeIfChanged(filepath.Join(out, "TlSchema.v"), b.Bytes())
}

// ---------------------------------------------------------------- bindings

type c10x struct {
	fset *token.FileSet
}

func (x *c10x) src(n ast.Node) string {
	var b bytes.Buffer
	printer.Fprint(&b, x.fset, n)
	s := strings.Join(strings.Fields(b.String()), " ")
	if len(s) > 80 {
		s = s[:80] + "..."
	}
	return s
}

func c10Sel(e ast.Expr, pkg, name string) bool {
	s, ok := e.(*ast.SelectorExpr)
	if !ok || s.Sel.Name != name {
		return false
	}
	id, ok := s.X.(*ast.Ident)
	return ok && id.Name == pkg
}

func c10Ident(e ast.Expr, name string) bool {
	id, ok := e.(*ast.Ident)
	return ok && id.Name == name
}

// gty term of a Go type expression
func (x *c10x) gty(e ast.Expr) string {
	switch t := e.(type) {
	case *ast.Ident:
		switch t.Name {
		case "uint32":
			return "GU32"
		case "uint64":
			return "GU64"
		case "bool":
			return "GBool"
		case "string":
			return "GString"
		case "int", "int8", "int16", "int32", "int64", "uint", "uint8", "uint16", "byte", "float32", "float64", "any", "error":
			return "(GOther " + c10q(t.Name) + ")"
		}
		return "(GNamed " + c10q(t.Name) + ")"
	case *ast.SelectorExpr:
		if c10Sel(t, "tl", "Int256") {
			return "GInt256"
		}
		return "(GOther " + c10q(x.src(t)) + ")"
	case *ast.ArrayType:
		if t.Len != nil {
			return "(GOther " + c10q(x.src(t)) + ")"
		}
		if c10Ident(t.Elt, "byte") || c10Ident(t.Elt, "uint8") {
			return "GBytes"
		}
		return "(GSlice " + x.gty(t.Elt) + ")"
	case *ast.StarExpr:
		return "(GPtr " + x.gty(t.X) + ")"
	case *ast.StructType:
		var fs []string
		if t.Fields != nil {
			for _, f := range t.Fields.List {
				if len(f.Names) == 0 {
					if c10Sel(f.Type, "tl", "SumType") {
						fs = append(fs, "(\"SumType\", GSumTag)")
					} else {
						fs = append(fs, "("+c10q("?embedded")+", (GOther "+c10q(x.src(f.Type))+"))")
					}
					continue
				}
				for _, n := range f.Names {
					fs = append(fs, "("+c10q(n.Name)+", "+x.gty(f.Type)+")")
				}
			}
		}
		return "(GStruct [" + strings.Join(fs, "; ") + "])"
	case *ast.ParenExpr:
		return x.gty(t.X)
	}
	return "(GOther " + c10q(x.src(e)) + ")"
}

func c10Unrec(what string) string { return "Unrecognised " + c10q(what) }

// `recv.A.B` -> [A; B]
func c10Path(e ast.Expr, recv string) ([]string, bool) {
	switch t := e.(type) {
	case *ast.Ident:
		if t.Name == recv {
			return []string{}, true
		}
	case *ast.SelectorExpr:
		p, ok := c10Path(t.X, recv)
		if ok {
			return append(p, t.Sel.Name), true
		}
	case *ast.ParenExpr:
		return c10Path(t.X, recv)
	}
	return nil, false
}

func c10CoqPath(p []string) string {
	var q []string
	for _, s := range p {
		q = append(q, c10q(s))
	}
	return "[" + strings.Join(q, "; ") + "]"
}

// `(recv.M>>N)&1 == 1`
func c10BitCond(e ast.Expr, recv string) (string, uint64, bool) {
	be, ok := e.(*ast.BinaryExpr)
	if !ok || be.Op != token.EQL {
		return "", 0, false
	}
	if v, ok := intLit(be.Y); !ok || v != 1 {
		return "", 0, false
	}
	and, ok := be.X.(*ast.BinaryExpr)
	if !ok || and.Op != token.AND {
		return "", 0, false
	}
	if v, ok := intLit(and.Y); !ok || v != 1 {
		return "", 0, false
	}
	px, ok := and.X.(*ast.ParenExpr)
	if !ok {
		return "", 0, false
	}
	shr, ok := px.X.(*ast.BinaryExpr)
	if !ok || shr.Op != token.SHR {
		return "", 0, false
	}
	n, ok := intLit(shr.Y)
	if !ok {
		return "", 0, false
	}
	p, ok := c10Path(shr.X, recv)
	if !ok || len(p) != 1 {
		return "", 0, false
	}
	return p[0], n, true
}

// `if err != nil { return <zero>, err }` / `{ return err }`
func c10ErrCheck(s ast.Stmt, nres int) bool {
	is, ok := s.(*ast.IfStmt)
	if !ok || is.Init != nil || is.Else != nil || len(is.Body.List) != 1 {
		return false
	}
	be, ok := is.Cond.(*ast.BinaryExpr)
	if !ok || be.Op != token.NEQ || !c10Ident(be.X, "err") || !c10Ident(be.Y, "nil") {
		return false
	}
	rs, ok := is.Body.List[0].(*ast.ReturnStmt)
	if !ok || len(rs.Results) != nres {
		return false
	}
	if nres == 2 && !(c10Ident(rs.Results[0], "nil") || c10Ident(rs.Results[0], "res")) {
		return false
	}
	return c10Ident(rs.Results[nres-1], "err")
}

// a call `pkg.fn(args)`
func c10Call(e ast.Expr, pkg, fn string) ([]ast.Expr, bool) {
	c, ok := e.(*ast.CallExpr)
	if !ok || !c10Sel(c.Fun, pkg, fn) {
		return nil, false
	}
	return c.Args, true
}

type c10Cursor struct {
	ss []ast.Stmt
	i  int
}

func (c *c10Cursor) peek() ast.Stmt {
	if c.i < len(c.ss) {
		return c.ss[c.i]
	}
	return nil
}

// ---- MarshalTL

// one `b, err = tl.Marshal(X); if err != nil {..}; _, err = buf.Write(b); [if err != nil {..}]`
// returns the Coq stmt and whether it is a plain field access
func (x *c10x) marshalItem(c *c10Cursor, recv string, consts map[string]uint64) (string, string, bool) {
	as, ok := c.peek().(*ast.AssignStmt)
	if !ok || len(as.Lhs) != 2 || len(as.Rhs) != 1 || !c10Ident(as.Lhs[0], "b") || !c10Ident(as.Lhs[1], "err") {
		return "", "", false
	}
	args, ok := c10Call(as.Rhs[0], "tl", "Marshal")
	if !ok || len(args) != 1 {
		return "", "", false
	}
	if c.i+2 >= len(c.ss) {
		return "", "", false
	}
	if !c10ErrCheck(c.ss[c.i+1], 2) {
		return "", "", false
	}
	w, ok := c.ss[c.i+2].(*ast.AssignStmt)
	if !ok || len(w.Lhs) != 2 || len(w.Rhs) != 1 || !c10Ident(w.Lhs[0], "_") || !c10Ident(w.Lhs[1], "err") {
		return "", "", false
	}
	wargs, ok := c10Call(w.Rhs[0], "buf", "Write")
	if !ok || len(wargs) != 1 || !c10Ident(wargs[0], "b") {
		return "", "", false
	}
	n := 3
	if c.i+3 < len(c.ss) && c10ErrCheck(c.ss[c.i+3], 2) {
		n = 4
	}
	arg := args[0]
	// field
	if p, ok := c10Path(arg, recv); ok && len(p) > 0 {
		c.i += n
		acc := "(" + c10CoqPath(p) + ", None)"
		return "Field " + acc, acc, true
	}
	// uint32(0x...) or a local constant
	if call, ok := arg.(*ast.CallExpr); ok && len(call.Args) == 1 {
		if c10Ident(call.Fun, "uint32") {
			if v, ok := intLit(call.Args[0]); ok {
				c.i += n
				return fmt.Sprintf("WriteTag %d", v), "", true
			}
		}
		if id, ok := call.Fun.(*ast.Ident); ok && c10Ident(call.Args[0], recv) {
			c.i += n
			return "Self " + c10q(id.Name), "", true
		}
	}
	if id, ok := arg.(*ast.Ident); ok {
		if v, ok := consts[id.Name]; ok {
			c.i += n
			return fmt.Sprintf("WriteTag %d", v), "", true
		}
	}
	return "", "", false
}

func (x *c10x) marshalItems(ss []ast.Stmt, recv string, consts map[string]uint64) []string {
	c := &c10Cursor{ss: ss}
	var out []string
	for c.peek() != nil {
		if st, _, ok := x.marshalItem(c, recv, consts); ok {
			out = append(out, st)
			continue
		}
		if is, ok := c.peek().(*ast.IfStmt); ok && is.Init == nil && is.Else == nil {
			if m, n, ok := c10BitCond(is.Cond, recv); ok {
				ic := &c10Cursor{ss: is.Body.List}
				var accs []string
				good := true
				for ic.peek() != nil {
					st, acc, ok := x.marshalItem(ic, recv, consts)
					if !ok || acc == "" || !strings.HasPrefix(st, "Field ") {
						good = false
						break
					}
					accs = append(accs, acc)
				}
				if good {
					out = append(out, fmt.Sprintf("IfBit %s %d [%s]", c10q(m), n, strings.Join(accs, "; ")))
					c.i++
					continue
				}
			}
		}
		out = append(out, c10Unrec(x.src(c.peek())))
		c.i++
	}
	return out
}

// the statements of MarshalTL between the prelude and `return buf.Bytes(), nil`
func (x *c10x) marshalBody(fd *ast.FuncDecl) string {
	recv := ""
	if len(fd.Recv.List[0].Names) == 1 {
		recv = fd.Recv.List[0].Names[0].Name
	}
	if _, ptr := fd.Recv.List[0].Type.(*ast.StarExpr); ptr {
		return "(MPlain [" + c10Unrec("MarshalTL has a pointer receiver") + "])"
	}
	ss := fd.Body.List
	consts := map[string]uint64{}
	// prelude: var declarations (err, b, constants), buf := new(bytes.Buffer)
	i := 0
	haveBuf := false
	for i < len(ss) {
		if ds, ok := ss[i].(*ast.DeclStmt); ok {
			gd, ok := ds.Decl.(*ast.GenDecl)
			if !ok || gd.Tok != token.VAR {
				break
			}
			okAll := true
			for _, sp := range gd.Specs {
				vs := sp.(*ast.ValueSpec)
				if len(vs.Values) == 0 {
					for _, n := range vs.Names {
						if n.Name != "err" && n.Name != "b" {
							okAll = false
						}
					}
					continue
				}
				if len(vs.Names) == 1 && len(vs.Values) == 1 && c10Ident(vs.Type, "uint32") {
					if v, ok := intLit(vs.Values[0]); ok {
						consts[vs.Names[0].Name] = v
						continue
					}
				}
				okAll = false
			}
			if !okAll {
				break
			}
			i++
			continue
		}
		if as, ok := ss[i].(*ast.AssignStmt); ok && as.Tok == token.DEFINE && len(as.Lhs) == 1 && len(as.Rhs) == 1 && c10Ident(as.Lhs[0], "buf") && !haveBuf {
			if call, ok := as.Rhs[0].(*ast.CallExpr); ok && c10Ident(call.Fun, "new") && len(call.Args) == 1 && c10Sel(call.Args[0], "bytes", "Buffer") {
				haveBuf = true
				i++
				continue
			}
		}
		break
	}
	// epilogue
	if len(ss) == 0 || i > len(ss)-1 || !haveBuf {
		return "(MPlain [" + c10Unrec("MarshalTL prelude") + "])"
	}
	last, ok := ss[len(ss)-1].(*ast.ReturnStmt)
	okRet := ok && len(last.Results) == 2 && c10Ident(last.Results[1], "nil")
	if okRet {
		call, ok := last.Results[0].(*ast.CallExpr)
		okRet = ok && c10Sel(call.Fun, "buf", "Bytes") && len(call.Args) == 0
	}
	if !okRet {
		return "(MPlain [" + c10Unrec("MarshalTL does not end with return buf.Bytes(), nil") + "])"
	}
	mid := ss[i : len(ss)-1]
	// switch t.SumType { case "C": ...; default: return nil, error }
	if len(mid) == 1 {
		if sw, ok := mid[0].(*ast.SwitchStmt); ok && sw.Init == nil {
			if p, ok := c10Path(sw.Tag, recv); ok && len(p) == 1 && p[0] == "SumType" {
				var cases []string
				haveDefault := false
				good := true
				for _, cl := range sw.Body.List {
					cc := cl.(*ast.CaseClause)
					if cc.List == nil {
						// default: return nil, <error>
						if len(cc.Body) == 1 {
							if rs, ok := cc.Body[0].(*ast.ReturnStmt); ok && len(rs.Results) == 2 && c10Ident(rs.Results[0], "nil") {
								if _, ok := c10Call(rs.Results[1], "fmt", "Errorf"); ok {
									haveDefault = true
									continue
								}
							}
						}
						good = false
						continue
					}
					if len(cc.List) != 1 {
						good = false
						continue
					}
					name, ok := strLit(cc.List[0])
					if !ok {
						good = false
						continue
					}
					cases = append(cases, fmt.Sprintf("      (%s, [%s])", c10q(name), strings.Join(x.marshalItems(cc.Body, recv, consts), "; ")))
				}
				if good && haveDefault {
					return "(MSwitch [\n" + strings.Join(cases, ";\n") + "])"
				}
				return "(MPlain [" + c10Unrec("switch over SumType without an error default or with a non-literal case") + "])"
			}
		}
	}
	return "(MPlain [" + strings.Join(x.marshalItems(mid, recv, consts), "; ") + "])"
}

// ---- UnmarshalTL

// `err = tl.Unmarshal(r, &X); if err != nil { return err }` ; returns X
func (x *c10x) unmarshalCall(c *c10Cursor, rd string) (ast.Expr, bool) {
	as, ok := c.peek().(*ast.AssignStmt)
	if !ok || len(as.Lhs) != 1 || len(as.Rhs) != 1 || !c10Ident(as.Lhs[0], "err") {
		return nil, false
	}
	args, ok := c10Call(as.Rhs[0], "tl", "Unmarshal")
	if !ok || len(args) != 2 || !c10Ident(args[0], rd) {
		return nil, false
	}
	u, ok := args[1].(*ast.UnaryExpr)
	if !ok || u.Op != token.AND {
		return nil, false
	}
	if c.i+1 >= len(c.ss) || !c10ErrCheck(c.ss[c.i+1], 1) {
		return nil, false
	}
	c.i += 2
	return u.X, true
}

func (x *c10x) unmarshalItems(ss []ast.Stmt, recv, rd string) []string {
	c := &c10Cursor{ss: ss}
	var out []string
	for c.peek() != nil {
		save := c.i
		if tgt, ok := x.unmarshalCall(c, rd); ok {
			if p, ok := c10Path(tgt, recv); ok && len(p) > 0 {
				out = append(out, "Field ("+c10CoqPath(p)+", None)")
				continue
			}
			c.i = save
		}
		if is, ok := c.peek().(*ast.IfStmt); ok && is.Init == nil && is.Else == nil {
			if m, n, ok := c10BitCond(is.Cond, recv); ok {
				if accs, ok := x.tempAccesses(is.Body.List, recv, rd); ok {
					out = append(out, fmt.Sprintf("IfBit %s %d [%s]", c10q(m), n, strings.Join(accs, "; ")))
					c.i++
					continue
				}
			}
		}
		out = append(out, c10Unrec(x.src(c.peek())))
		c.i++
	}
	return out
}

// `var tempF T; err = tl.Unmarshal(r, &tempF); if err != nil {return err}; t.P.F = &tempF | tempF`, repeated
func (x *c10x) tempAccesses(ss []ast.Stmt, recv, rd string) ([]string, bool) {
	var accs []string
	c := &c10Cursor{ss: ss}
	for c.peek() != nil {
		ds, ok := c.peek().(*ast.DeclStmt)
		if !ok {
			return nil, false
		}
		gd, ok := ds.Decl.(*ast.GenDecl)
		if !ok || gd.Tok != token.VAR || len(gd.Specs) != 1 {
			return nil, false
		}
		vs := gd.Specs[0].(*ast.ValueSpec)
		if len(vs.Names) != 1 || len(vs.Values) != 0 || vs.Type == nil {
			return nil, false
		}
		tmp := vs.Names[0].Name
		c.i++
		tgt, ok := x.unmarshalCall(c, rd)
		if !ok || !c10Ident(tgt, tmp) {
			return nil, false
		}
		as, ok := c.peek().(*ast.AssignStmt)
		if !ok || as.Tok != token.ASSIGN || len(as.Lhs) != 1 || len(as.Rhs) != 1 {
			return nil, false
		}
		p, ok := c10Path(as.Lhs[0], recv)
		if !ok || len(p) == 0 {
			return nil, false
		}
		ptr := "false"
		rhs := as.Rhs[0]
		if u, ok := rhs.(*ast.UnaryExpr); ok && u.Op == token.AND {
			ptr = "true"
			rhs = u.X
		}
		if !c10Ident(rhs, tmp) {
			return nil, false
		}
		c.i++
		accs = append(accs, fmt.Sprintf("(%s, Some (%s, %s))", c10CoqPath(p), x.gty(vs.Type), ptr))
	}
	return accs, true
}

func (x *c10x) unmarshalBody(fd *ast.FuncDecl) string {
	recv := ""
	if len(fd.Recv.List[0].Names) == 1 {
		recv = fd.Recv.List[0].Names[0].Name
	}
	if _, ptr := fd.Recv.List[0].Type.(*ast.StarExpr); !ptr {
		return "(UPlain [" + c10Unrec("UnmarshalTL has a value receiver") + "])"
	}
	rd := ""
	if fd.Type.Params != nil && len(fd.Type.Params.List) == 1 && len(fd.Type.Params.List[0].Names) == 1 {
		rd = fd.Type.Params.List[0].Names[0].Name
	}
	ss := fd.Body.List
	if len(ss) == 0 {
		return "(UPlain [" + c10Unrec("empty body") + "])"
	}
	last, ok := ss[len(ss)-1].(*ast.ReturnStmt)
	if !ok || len(last.Results) != 1 || !c10Ident(last.Results[0], "nil") {
		return "(UPlain [" + c10Unrec("UnmarshalTL does not end with return nil") + "])"
	}
	ss = ss[:len(ss)-1]
	// prelude `var err error`
	if len(ss) > 0 {
		if ds, ok := ss[0].(*ast.DeclStmt); ok {
			if gd, ok := ds.Decl.(*ast.GenDecl); ok && gd.Tok == token.VAR && len(gd.Specs) == 1 {
				vs := gd.Specs[0].(*ast.ValueSpec)
				if len(vs.Names) == 1 && vs.Names[0].Name == "err" && len(vs.Values) == 0 {
					ss = ss[1:]
				}
			}
		}
	}
	if s, ok := x.unmarshalSwitch(ss, recv, rd); ok {
		return s
	}
	if s, ok := x.unmarshalWrapper(ss, recv, rd); ok {
		return s
	}
	return "(UPlain [" + strings.Join(x.unmarshalItems(ss, recv, rd), "; ") + "])"
}

// var b [4]byte; _, err = io.ReadFull(r, b[:]); if err..; tag := int(binary.LittleEndian.Uint32(b[:])); switch tag {...}
func (x *c10x) unmarshalSwitch(ss []ast.Stmt, recv, rd string) (string, bool) {
	if len(ss) != 5 {
		return "", false
	}
	ds, ok := ss[0].(*ast.DeclStmt)
	if !ok {
		return "", false
	}
	gd, ok := ds.Decl.(*ast.GenDecl)
	if !ok || gd.Tok != token.VAR || len(gd.Specs) != 1 {
		return "", false
	}
	vs := gd.Specs[0].(*ast.ValueSpec)
	at, ok := vs.Type.(*ast.ArrayType)
	if !ok || len(vs.Names) != 1 || len(vs.Values) != 0 || !c10Ident(at.Elt, "byte") {
		return "", false
	}
	if n, ok := intLit(at.Len); !ok || n != 4 {
		return "", false
	}
	bn := vs.Names[0].Name
	isSliceOfB := func(e ast.Expr) bool {
		se, ok := e.(*ast.SliceExpr)
		return ok && c10Ident(se.X, bn) && se.Low == nil && se.High == nil && se.Max == nil
	}
	as, ok := ss[1].(*ast.AssignStmt)
	if !ok || len(as.Lhs) != 2 || len(as.Rhs) != 1 || !c10Ident(as.Lhs[0], "_") || !c10Ident(as.Lhs[1], "err") {
		return "", false
	}
	args, ok := c10Call(as.Rhs[0], "io", "ReadFull")
	if !ok || len(args) != 2 || !c10Ident(args[0], rd) || !isSliceOfB(args[1]) {
		return "", false
	}
	if !c10ErrCheck(ss[2], 1) {
		return "", false
	}
	ts, ok := ss[3].(*ast.AssignStmt)
	if !ok || ts.Tok != token.DEFINE || len(ts.Lhs) != 1 || len(ts.Rhs) != 1 {
		return "", false
	}
	tagName, ok := ts.Lhs[0].(*ast.Ident)
	if !ok {
		return "", false
	}
	conv, ok := ts.Rhs[0].(*ast.CallExpr)
	if !ok || !c10Ident(conv.Fun, "int") || len(conv.Args) != 1 {
		return "", false
	}
	le, ok := conv.Args[0].(*ast.CallExpr)
	if !ok || len(le.Args) != 1 || !isSliceOfB(le.Args[0]) {
		return "", false
	}
	sel, ok := le.Fun.(*ast.SelectorExpr)
	if !ok || sel.Sel.Name != "Uint32" || !c10Sel(sel.X, "binary", "LittleEndian") {
		return "", false
	}
	sw, ok := ss[4].(*ast.SwitchStmt)
	if !ok || sw.Init != nil || !c10Ident(sw.Tag, tagName.Name) {
		return "", false
	}
	var cases []string
	haveDefault := false
	for _, cl := range sw.Body.List {
		cc := cl.(*ast.CaseClause)
		if cc.List == nil {
			if len(cc.Body) == 1 {
				if rs, ok := cc.Body[0].(*ast.ReturnStmt); ok && len(rs.Results) == 1 {
					if _, ok := c10Call(rs.Results[0], "fmt", "Errorf"); ok {
						haveDefault = true
						continue
					}
				}
			}
			return "(UPlain [" + c10Unrec("switch default is not an error return") + "])", true
		}
		if len(cc.List) != 1 {
			return "(UPlain [" + c10Unrec("case with several values") + "])", true
		}
		id, ok := intLit(cc.List[0])
		if !ok || len(cc.Body) == 0 {
			return "(UPlain [" + c10Unrec("case "+x.src(cc.List[0])) + "])", true
		}
		// t.SumType = "C"
		set, ok := cc.Body[0].(*ast.AssignStmt)
		name := ""
		if ok && set.Tok == token.ASSIGN && len(set.Lhs) == 1 && len(set.Rhs) == 1 {
			if p, ok := c10Path(set.Lhs[0], recv); ok && len(p) == 1 && p[0] == "SumType" {
				name, _ = strLit(set.Rhs[0])
			}
		}
		if name == "" {
			return "(UPlain [" + c10Unrec("case does not start with t.SumType = literal") + "])", true
		}
		cases = append(cases, fmt.Sprintf("      (%d, %s, [%s])", id, c10q(name), strings.Join(x.unmarshalItems(cc.Body[1:], recv, rd), "; ")))
	}
	if !haveDefault {
		return "(UPlain [" + c10Unrec("switch over the tag without an error default") + "])", true
	}
	return "(USwitch [\n" + strings.Join(cases, ";\n") + "])", true
}

// var ( res T; tag uint32 ); err := tl.Unmarshal(r, &tag); if err..; if tag != ID { return error };
// err = tl.Unmarshal(r, &res); if err..; *t = W(res)
func (x *c10x) unmarshalWrapper(ss []ast.Stmt, recv, rd string) (string, bool) {
	if len(ss) != 7 {
		return "", false
	}
	ds, ok := ss[0].(*ast.DeclStmt)
	if !ok {
		return "", false
	}
	gd, ok := ds.Decl.(*ast.GenDecl)
	if !ok || gd.Tok != token.VAR {
		return "", false
	}
	resName, resTy, tagName := "", "", ""
	for _, sp := range gd.Specs {
		vs := sp.(*ast.ValueSpec)
		if len(vs.Names) != 1 || len(vs.Values) != 0 {
			return "", false
		}
		if c10Ident(vs.Type, "uint32") {
			tagName = vs.Names[0].Name
		} else if id, ok := vs.Type.(*ast.Ident); ok {
			resName, resTy = vs.Names[0].Name, id.Name
		} else {
			return "", false
		}
	}
	if resName == "" || tagName == "" {
		return "", false
	}
	c := &c10Cursor{ss: ss, i: 1}
	tgt, ok := x.unmarshalCall(c, rd)
	if !ok || !c10Ident(tgt, tagName) {
		return "", false
	}
	is, ok := c.peek().(*ast.IfStmt)
	if !ok || is.Init != nil || is.Else != nil || len(is.Body.List) != 1 {
		return "", false
	}
	be, ok := is.Cond.(*ast.BinaryExpr)
	if !ok || be.Op != token.NEQ || !c10Ident(be.X, tagName) {
		return "", false
	}
	id, ok := intLit(be.Y)
	if !ok {
		return "", false
	}
	rs, ok := is.Body.List[0].(*ast.ReturnStmt)
	if !ok || len(rs.Results) != 1 {
		return "", false
	}
	if _, ok := c10Call(rs.Results[0], "fmt", "Errorf"); !ok {
		return "", false
	}
	c.i++
	tgt, ok = x.unmarshalCall(c, rd)
	if !ok || !c10Ident(tgt, resName) {
		return "", false
	}
	as, ok := c.peek().(*ast.AssignStmt)
	if !ok || as.Tok != token.ASSIGN || len(as.Lhs) != 1 || len(as.Rhs) != 1 {
		return "", false
	}
	st, ok := as.Lhs[0].(*ast.StarExpr)
	if !ok || !c10Ident(st.X, recv) {
		return "", false
	}
	conv, ok := as.Rhs[0].(*ast.CallExpr)
	if !ok || len(conv.Args) != 1 || !c10Ident(conv.Args[0], resName) {
		return "", false
	}
	if _, ok := conv.Fun.(*ast.Ident); !ok {
		return "", false
	}
	return fmt.Sprintf("(UPlain [ReadTag %d; Self %s])", id, c10q(resTy)), true
}

// ---- request methods of *Client

type c10Method struct {
	name, req, respTy string
	reqID, errID      uint64
	respIDs           []uint64
	shape             bool
}

// `if tag == ID { ... }` -> ID, body
func c10TagIf(s ast.Stmt) (uint64, []ast.Stmt, bool) {
	is, ok := s.(*ast.IfStmt)
	if !ok || is.Init != nil || is.Else != nil {
		return 0, nil, false
	}
	be, ok := is.Cond.(*ast.BinaryExpr)
	if !ok || be.Op != token.EQL || !c10Ident(be.X, "tag") {
		return 0, nil, false
	}
	id, ok := intLit(be.Y)
	if !ok {
		return 0, nil, false
	}
	return id, is.Body.List, true
}

// `tl.Unmarshal(bytes.NewReader(resp[4:]), &X)` -> X
func c10RespUnmarshal(e ast.Expr) (string, bool) {
	args, ok := c10Call(e, "tl", "Unmarshal")
	if !ok || len(args) != 2 {
		return "", false
	}
	nr, ok := c10Call(args[0], "bytes", "NewReader")
	if !ok || len(nr) != 1 {
		return "", false
	}
	se, ok := nr[0].(*ast.SliceExpr)
	if !ok || !c10Ident(se.X, "resp") || se.High != nil || se.Max != nil {
		return "", false
	}
	if v, ok := intLit(se.Low); !ok || v != 4 {
		return "", false
	}
	u, ok := args[1].(*ast.UnaryExpr)
	if !ok || u.Op != token.AND {
		return "", false
	}
	id, ok := u.X.(*ast.Ident)
	if !ok {
		return "", false
	}
	return id.Name, true
}

func (x *c10x) method(fd *ast.FuncDecl) c10Method {
	m := c10Method{name: fd.Name.Name}
	ps := fd.Type.Params.List
	if len(ps) == 2 && len(ps[1].Names) == 1 && ps[1].Names[0].Name == "request" {
		if id, ok := ps[1].Type.(*ast.Ident); ok {
			m.req = id.Name
		}
	}
	if fd.Type.Results != nil && len(fd.Type.Results.List) == 2 && len(fd.Type.Results.List[0].Names) == 1 &&
		fd.Type.Results.List[0].Names[0].Name == "res" {
		if id, ok := fd.Type.Results.List[0].Type.(*ast.Ident); ok {
			m.respTy = id.Name
		}
	}
	ss := fd.Body.List
	i := 0
	fail := func() c10Method { m.shape = false; return m }
	if len(ps) == 1 {
		// payload := make([]byte, 4); binary.LittleEndian.PutUint32(payload, ID)
		if len(ss) < 2 {
			return fail()
		}
		as, ok := ss[0].(*ast.AssignStmt)
		if !ok || as.Tok != token.DEFINE || len(as.Lhs) != 1 || !c10Ident(as.Lhs[0], "payload") || len(as.Rhs) != 1 {
			return fail()
		}
		mk, ok := as.Rhs[0].(*ast.CallExpr)
		if !ok || !c10Ident(mk.Fun, "make") || len(mk.Args) != 2 {
			return fail()
		}
		if at, ok := mk.Args[0].(*ast.ArrayType); !ok || at.Len != nil || !c10Ident(at.Elt, "byte") {
			return fail()
		}
		if v, ok := intLit(mk.Args[1]); !ok || v != 4 {
			return fail()
		}
		es, ok := ss[1].(*ast.ExprStmt)
		if !ok {
			return fail()
		}
		call, ok := es.X.(*ast.CallExpr)
		if !ok || len(call.Args) != 2 || !c10Ident(call.Args[0], "payload") {
			return fail()
		}
		sel, ok := call.Fun.(*ast.SelectorExpr)
		if !ok || sel.Sel.Name != "PutUint32" || !c10Sel(sel.X, "binary", "LittleEndian") {
			return fail()
		}
		id, ok := intLit(call.Args[1])
		if !ok {
			return fail()
		}
		m.reqID = id
		i = 2
	} else {
		// payload, err := tl.Marshal(struct{ tl.SumType; Req T `tlSumType:"hex"` }{SumType: "Req", Req: request}); if err..
		if len(ss) < 2 || m.req == "" {
			return fail()
		}
		as, ok := ss[0].(*ast.AssignStmt)
		if !ok || as.Tok != token.DEFINE || len(as.Lhs) != 2 || !c10Ident(as.Lhs[0], "payload") || !c10Ident(as.Lhs[1], "err") || len(as.Rhs) != 1 {
			return fail()
		}
		args, ok := c10Call(as.Rhs[0], "tl", "Marshal")
		if !ok || len(args) != 1 {
			return fail()
		}
		cl, ok := args[0].(*ast.CompositeLit)
		if !ok {
			return fail()
		}
		st, ok := cl.Type.(*ast.StructType)
		if !ok || len(st.Fields.List) != 2 {
			return fail()
		}
		f0, f1 := st.Fields.List[0], st.Fields.List[1]
		if len(f0.Names) != 0 || !c10Sel(f0.Type, "tl", "SumType") {
			return fail()
		}
		if len(f1.Names) != 1 || !c10Ident(f1.Type, m.req) || f1.Tag == nil {
			return fail()
		}
		fieldName := f1.Names[0].Name
		tag, err := strconv.Unquote(f1.Tag.Value)
		if err != nil {
			return fail()
		}
		hexid := reflect.StructTag(tag).Get("tlSumType")
		id, err := strconv.ParseUint(hexid, 16, 32)
		if err != nil || len(hexid) != 8 {
			return fail()
		}
		m.reqID = id
		if len(cl.Elts) != 2 {
			return fail()
		}
		okSum, okReq := false, false
		for _, el := range cl.Elts {
			kv, ok := el.(*ast.KeyValueExpr)
			if !ok {
				return fail()
			}
			if c10Ident(kv.Key, "SumType") {
				s, ok := strLit(kv.Value)
				okSum = ok && s == fieldName
			} else if c10Ident(kv.Key, fieldName) {
				okReq = c10Ident(kv.Value, "request")
			}
		}
		if !okSum || !okReq || !c10ErrCheck(ss[1], 2) {
			return fail()
		}
		i = 2
	}
	// resp, err := c.liteServerRequest(ctx, payload); if err..
	if i+3 >= len(ss) {
		return fail()
	}
	as, ok := ss[i].(*ast.AssignStmt)
	if !ok || len(as.Lhs) != 2 || !c10Ident(as.Lhs[0], "resp") || !c10Ident(as.Lhs[1], "err") || len(as.Rhs) != 1 {
		return fail()
	}
	args, ok := c10Call(as.Rhs[0], "c", "liteServerRequest")
	if !ok || len(args) != 2 || !c10Ident(args[0], "ctx") || !c10Ident(args[1], "payload") {
		return fail()
	}
	if !c10ErrCheck(ss[i+1], 2) {
		return fail()
	}
	// if len(resp) < 4 { return res, error }
	is, ok := ss[i+2].(*ast.IfStmt)
	if !ok || is.Else != nil || is.Init != nil {
		return fail()
	}
	be, ok := is.Cond.(*ast.BinaryExpr)
	if !ok || be.Op != token.LSS {
		return fail()
	}
	if v, ok := intLit(be.Y); !ok || v != 4 {
		return fail()
	}
	if lc, ok := be.X.(*ast.CallExpr); !ok || !c10Ident(lc.Fun, "len") || len(lc.Args) != 1 || !c10Ident(lc.Args[0], "resp") {
		return fail()
	}
	if len(is.Body.List) != 1 {
		return fail()
	}
	if rs, ok := is.Body.List[0].(*ast.ReturnStmt); !ok || len(rs.Results) != 2 || !c10Ident(rs.Results[0], "res") {
		return fail()
	}
	// tag := binary.LittleEndian.Uint32(resp[:4])
	ts, ok := ss[i+3].(*ast.AssignStmt)
	if !ok || ts.Tok != token.DEFINE || len(ts.Lhs) != 1 || !c10Ident(ts.Lhs[0], "tag") || len(ts.Rhs) != 1 {
		return fail()
	}
	le, ok := ts.Rhs[0].(*ast.CallExpr)
	if !ok || len(le.Args) != 1 {
		return fail()
	}
	if sel, ok := le.Fun.(*ast.SelectorExpr); !ok || sel.Sel.Name != "Uint32" || !c10Sel(sel.X, "binary", "LittleEndian") {
		return fail()
	}
	se, ok := le.Args[0].(*ast.SliceExpr)
	if !ok || !c10Ident(se.X, "resp") || se.Low != nil || se.Max != nil {
		return fail()
	}
	if v, ok := intLit(se.High); !ok || v != 4 {
		return fail()
	}
	i += 4
	// error branch
	if i >= len(ss) {
		return fail()
	}
	id, body, ok := c10TagIf(ss[i])
	if !ok || len(body) != 4 {
		return fail()
	}
	m.errID = id
	{
		ds, ok := body[0].(*ast.DeclStmt)
		if !ok {
			return fail()
		}
		gd := ds.Decl.(*ast.GenDecl)
		if gd.Tok != token.VAR || len(gd.Specs) != 1 {
			return fail()
		}
		vs := gd.Specs[0].(*ast.ValueSpec)
		if len(vs.Names) != 1 || vs.Names[0].Name != "errRes" || !c10Ident(vs.Type, "LiteServerErrorC") {
			return fail()
		}
		as, ok := body[1].(*ast.AssignStmt)
		if !ok || len(as.Lhs) != 1 || !c10Ident(as.Lhs[0], "err") || len(as.Rhs) != 1 {
			return fail()
		}
		if tgt, ok := c10RespUnmarshal(as.Rhs[0]); !ok || tgt != "errRes" {
			return fail()
		}
		if !c10ErrCheck(body[2], 2) {
			return fail()
		}
		rs, ok := body[3].(*ast.ReturnStmt)
		if !ok || len(rs.Results) != 2 || !c10Ident(rs.Results[0], "res") || !c10Ident(rs.Results[1], "errRes") {
			return fail()
		}
	}
	i++
	// result branches
	for i < len(ss)-1 {
		id, body, ok := c10TagIf(ss[i])
		if !ok || len(body) != 2 {
			return fail()
		}
		as, ok := body[0].(*ast.AssignStmt)
		if !ok || len(as.Lhs) != 1 || !c10Ident(as.Lhs[0], "err") || len(as.Rhs) != 1 {
			return fail()
		}
		if tgt, ok := c10RespUnmarshal(as.Rhs[0]); !ok || tgt != "res" {
			return fail()
		}
		rs, ok := body[1].(*ast.ReturnStmt)
		if !ok || len(rs.Results) != 2 || !c10Ident(rs.Results[0], "res") || !c10Ident(rs.Results[1], "err") {
			return fail()
		}
		m.respIDs = append(m.respIDs, id)
		i++
	}
	// return res, fmt.Errorf("invalid tag")
	rs, ok := ss[len(ss)-1].(*ast.ReturnStmt)
	if !ok || len(rs.Results) != 2 || !c10Ident(rs.Results[0], "res") {
		return fail()
	}
	if _, ok := c10Call(rs.Results[1], "fmt", "Errorf"); !ok {
		return fail()
	}
	m.shape = m.respTy != ""
	return m
}

// ---- driver

func c10RecvIdent(fd *ast.FuncDecl) (string, bool) {
	if fd.Recv == nil || len(fd.Recv.List) != 1 {
		return "", false
	}
	t := fd.Recv.List[0].Type
	ptr := false
	if s, ok := t.(*ast.StarExpr); ok {
		t = s.X
		ptr = true
	}
	if id, ok := t.(*ast.Ident); ok {
		return id.Name, ptr
	}
	return "", false
}

func genTlBindings(repo, out string) {
	saved := *repoFlagPtr()
	*repoFlagPtr() = repo
	defer func() { *repoFlagPtr() = saved }()

	files := []string{"liteclient/generated.go", "liteclient/extensions.go"}
	type tdecl struct {
		name string
		ty   ast.Expr
		x    *c10x
	}
	var types []tdecl
	marshal := map[string]*ast.FuncDecl{}
	unmarshal := map[string]*ast.FuncDecl{}
	xs := map[*ast.FuncDecl]*c10x{}
	var methods []c10Method
	var table [][4]string // key, tag, gotype, tlname
	for fi, rel := range files {
		f := parse(rel)
		x := &c10x{fset: f.fset}
		consts := map[string]string{}
		decodeFuncs := map[string][3]string{} // var -> tag, name const, type
		for _, d := range f.f.Decls {
			switch n := d.(type) {
			case *ast.GenDecl:
				for _, s := range n.Specs {
					switch sp := s.(type) {
					case *ast.TypeSpec:
						types = append(types, tdecl{sp.Name.Name, sp.Type, x})
					case *ast.ValueSpec:
						for i, nm := range sp.Names {
							if i >= len(sp.Values) {
								continue
							}
							if s, ok := strLit(sp.Values[i]); ok {
								consts[nm.Name] = s
							}
							if call, ok := sp.Values[i].(*ast.CallExpr); ok && c10Ident(call.Fun, "decodeRequest") && len(call.Args) == 3 {
								tag, ok1 := intLit(call.Args[0])
								cn, ok2 := call.Args[1].(*ast.Ident)
								cl, ok3 := call.Args[2].(*ast.CompositeLit)
								if ok1 && ok2 && ok3 && len(cl.Elts) == 0 {
									if ti, ok := cl.Type.(*ast.Ident); ok {
										decodeFuncs[nm.Name] = [3]string{strconv.FormatUint(tag, 10), cn.Name, ti.Name}
									}
								}
							}
						}
					}
				}
			case *ast.FuncDecl:
				rn, _ := c10RecvIdent(n)
				switch {
				case rn != "" && n.Name.Name == "MarshalTL":
					marshal[rn] = n
					xs[n] = x
				case rn != "" && n.Name.Name == "UnmarshalTL":
					unmarshal[rn] = n
					xs[n] = x
				case rn == "Client" && fi == 0:
					methods = append(methods, x.method(n))
				}
			}
		}
		if fi == 0 {
			if cl, ok := f.topValue("taggedRequestDecodeFunctions").(*ast.CompositeLit); ok {
				for _, el := range cl.Elts {
					kv, ok := el.(*ast.KeyValueExpr)
					if !ok {
						table = append(table, [4]string{"4294967296", "4294967296", "?", "?"})
						continue
					}
					key, ok1 := intLit(kv.Key)
					id, ok2 := kv.Value.(*ast.Ident)
					row := [4]string{strconv.FormatUint(key, 10), "4294967296", "?", "?"}
					if ok1 && ok2 {
						if df, ok := decodeFuncs[id.Name]; ok {
							row[1], row[2] = df[0], df[2]
							if s, ok := consts[df[1]]; ok {
								row[3] = s
							}
						}
					}
					table = append(table, row)
				}
			}
		}
	}

	var b bytes.Buffer
	b.WriteString("(* GENERATED by harness/cmd/translate from /repo/liteclient/generated.go, extensions.go — do not edit *)\n")
	b.WriteString("From Coq Require Import String List NArith.\nFrom Tongo Require Import Spec.TlWire Model.Tl.\nImport ListNotations.\n")
	b.WriteString("Local Open Scope string_scope.\nLocal Open Scope N_scope.\n\n")
	b.WriteString("Definition tl_bindings : bindings := [\n")
	var rows []string
	for _, t := range types {
		mf, hasM := marshal[t.name]
		uf, hasU := unmarshal[t.name]
		if !hasM && !hasU {
			continue
		}
		mb := "(MNone)"
		if hasM {
			mb = xs[mf].marshalBody(mf)
		}
		ub := "(UPlain [" + c10Unrec("no UnmarshalTL method") + "])"
		if hasU {
			ub = xs[uf].unmarshalBody(uf)
		}
		rows = append(rows, fmt.Sprintf("  mkbinding %s\n    %s\n    %s\n    %s", c10q(t.name), t.x.gty(t.ty), mb, ub))
	}
	b.WriteString(strings.Join(rows, ";\n"))
	b.WriteString("\n].\n\nDefinition tl_methods : list method := [\n")
	rows = nil
	for _, m := range methods {
		req := "None"
		if m.req != "" {
			req = "(Some " + c10q(m.req) + ")"
		}
		sh := "false"
		if m.shape {
			sh = "true"
		}
		rows = append(rows, fmt.Sprintf("  mkmethod %s %s %d %d %s %s %s", c10q(m.name), req, m.reqID, m.errID, coqNList(m.respIDs), c10q(m.respTy), sh))
	}
	b.WriteString(strings.Join(rows, ";\n"))
	b.WriteString("\n].\n\nDefinition tl_request_table : list (N * N * string * string) := [\n")
	sort.SliceStable(table, func(i, j int) bool {
		a, _ := strconv.ParseUint(table[i][0], 10, 64)
		c, _ := strconv.ParseUint(table[j][0], 10, 64)
		return a < c
	})
	rows = nil
	for _, r := range table {
		rows = append(rows, fmt.Sprintf("  (%s, %s, %s, %s)", r[0], r[1], c10q(r[2]), c10q(r[3])))
	}
	b.WriteString(strings.Join(rows, ";\n"))
	b.WriteString("\n].\n")
	writeIfChanged(filepath.Join(out, "TlBindings.v"), b.Bytes())
}

func repoFlagPtr() *string { return repo }

// ---------------------------------------------------------------- copies of the primitive codecs

// genTlCopies lists, for the packages that speak TL (tl, liteclient, liteapi,
// liteapi/pool, ton, adnl), every function whose body contains the integer
// literal 254 (the TL length-prefix escape) and every place where one of the
// Bool constructor ids appears in either byte order.  Generated/TlCopies.v:
//
//	tl_length_sites : list (file * function)
//	tl_bool_sites   : list (file * function-or-constant * literal)
//
// Properties/C10_gen.v pins the lists to the sites the harness drives, so that
// a new hand-written copy of a primitive codec cannot appear unnoticed.
func genTlCopies(repo, out string) {
	saved := *repoFlagPtr()
	*repoFlagPtr() = repo
	defer func() { *repoFlagPtr() = saved }()
	boolIDs := map[uint64]bool{0x997275b5: true, 0xbc799737: true, 0xb5757299: true, 0x379779bc: true}
	var lenSites, boolSites []string
	for _, dir := range []string{"tl", "liteclient", "liteapi", "liteapi/pool", "ton", "adnl"} {
		ents, err := os.ReadDir(filepath.Join(repo, dir))
		if err != nil {
			continue
		}
		var names []string
		for _, e := range ents {
			n := e.Name()
			if e.IsDir() || !strings.HasSuffix(n, ".go") || strings.HasSuffix(n, "_test.go") || strings.HasPrefix(n, "verif_hooks") {
				continue
			}
			names = append(names, n)
		}
		sort.Strings(names)
		for _, n := range names {
			rel := dir + "/" + n
			f := parse(rel)
			for _, d := range f.f.Decls {
				switch x := d.(type) {
				case *ast.FuncDecl:
					if x.Body == nil {
						continue
					}
					fn := x.Name.Name
					if rn, _ := c10RecvIdent(x); rn != "" {
						fn = rn + "." + fn
					}
					has254 := false
					ast.Inspect(x.Body, func(nd ast.Node) bool {
						if bl, ok := nd.(*ast.BasicLit); ok && bl.Kind == token.INT {
							if v, ok := intLit(bl); ok {
								if v == 254 {
									has254 = true
								}
								if boolIDs[v] {
									boolSites = append(boolSites, fmt.Sprintf("(%s, %s, %d)", c10q(rel), c10q(fn), v))
								}
							}
						}
						return true
					})
					if has254 {
						lenSites = append(lenSites, fmt.Sprintf("(%s, %s)", c10q(rel), c10q(fn)))
					}
				case *ast.GenDecl:
					for _, sp := range x.Specs {
						vs, ok := sp.(*ast.ValueSpec)
						if !ok {
							continue
						}
						for i, nm := range vs.Names {
							if i >= len(vs.Values) {
								continue
							}
							ast.Inspect(vs.Values[i], func(nd ast.Node) bool {
								if bl, ok := nd.(*ast.BasicLit); ok && bl.Kind == token.INT {
									if v, ok := intLit(bl); ok && boolIDs[v] {
										boolSites = append(boolSites, fmt.Sprintf("(%s, %s, %d)", c10q(rel), c10q(nm.Name), v))
									}
								}
								return true
							})
						}
					}
				}
			}
		}
	}
	var b bytes.Buffer
	b.WriteString("(* GENERATED by harness/cmd/translate from /repo (tl, liteclient, liteapi, ton) — do not edit *)\n")
	b.WriteString("From Coq Require Import String List NArith.\nImport ListNotations.\n")
	b.WriteString("Local Open Scope string_scope.\nLocal Open Scope N_scope.\n\n")
	b.WriteString("Definition tl_length_sites : list (string * string) := [\n  " + strings.Join(lenSites, ";\n  ") + "\n].\n\n")
	b.WriteString("Definition tl_bool_sites : list (string * string * N) := [\n  " + strings.Join(boolSites, ";\n  ") + "\n].\n")
	writeIfChanged(filepath.Join(out, "TlCopies.v"), b.Bytes())
}

// genC10 writes Generated/TlSchema.v, Generated/TlBindings.v and Generated/TlCopies.v.
func genC10(repo, out string) {
	genTlSchema(repo, out)
	genTlBindings(repo, out)
	genTlCopies(repo, out)
}
