package main

// C05: the dictionary key types of package tlb as data.  For every type that
// implements the (unexported) fixedSize interface — methods FixedSize, Equal,
// Compare — this copies out of tlb/integers.go and tlb/address.go:
//   - the literal returned by FixedSize()
//   - the number of bits its encoder writes: the width literals of the
//     WriteUint/WriteInt calls of MarshalTLB, or, without a MarshalTLB, the
//     widths the reflection encoder derives from the type definition
//     ([N]byte -> 8N, int8 -> 8, ..., named types recursively)
//   - the number of bits its decoder reads (ReadUint/ReadInt/ReadBytes literals
//     of UnmarshalTLB, else from the type definition)
//   - whether an encoder call is WriteInt (a field in two's complement)
//   - whether the underlying Go type is a signed integer (Compare uses the
//     native < of that type)
// and, separately, the names of the key types whose Compare converts a field to
// an unsigned integer type before comparing it (uint32(x.Workchain)).
// No meaning is attached here; Properties/C05_gen.v states the obligations.

import (
	"bytes"
	"fmt"
	"go/ast"
	"go/token"
	"path/filepath"
	"sort"
)

type c05Types struct {
	specs   map[string]ast.Expr
	methods map[string]map[string]*ast.FuncDecl
}

func c05RecvName(fd *ast.FuncDecl) string {
	if fd.Recv == nil || len(fd.Recv.List) != 1 {
		return ""
	}
	t := fd.Recv.List[0].Type
	if s, ok := t.(*ast.StarExpr); ok {
		t = s.X
	}
	if id, ok := t.(*ast.Ident); ok {
		return id.Name
	}
	return ""
}

func c05Collect(rels ...string) *c05Types {
	ct := &c05Types{specs: map[string]ast.Expr{}, methods: map[string]map[string]*ast.FuncDecl{}}
	for _, rel := range rels {
		f := parse(rel)
		for _, d := range f.f.Decls {
			switch x := d.(type) {
			case *ast.GenDecl:
				if x.Tok != token.TYPE {
					continue
				}
				for _, s := range x.Specs {
					if ts, ok := s.(*ast.TypeSpec); ok {
						ct.specs[ts.Name.Name] = ts.Type
					}
				}
			case *ast.FuncDecl:
				if r := c05RecvName(x); r != "" {
					if ct.methods[r] == nil {
						ct.methods[r] = map[string]*ast.FuncDecl{}
					}
					ct.methods[r][x.Name.Name] = x
				}
			}
		}
	}
	return ct
}

// sum of the width literals of calls <recv>.<name>(...) in a body; argIdx is
// the position of the width argument, mul the bits per unit
func c05CallWidths(body ast.Node, names map[string][2]int, sliceBits func(ast.Expr) uint64) (total uint64, ok bool, sawInt bool) {
	ok = true
	found := false
	ast.Inspect(body, func(n ast.Node) bool {
		call, isCall := n.(*ast.CallExpr)
		if !isCall {
			return true
		}
		sel, isSel := call.Fun.(*ast.SelectorExpr)
		if !isSel {
			return true
		}
		spec, known := names[sel.Sel.Name]
		if !known {
			return true
		}
		if spec[0] >= len(call.Args) {
			ok = false
			return true
		}
		v, isLit := intLit(call.Args[spec[0]])
		if !isLit && sel.Sel.Name == "WriteBytes" && sliceBits != nil {
			// WriteBytes(x.Field[:]): all bytes of an array-typed field
			if w := sliceBits(call.Args[spec[0]]); w > 0 {
				found = true
				total += w
				return true
			}
		}
		if !isLit {
			ok = false
			return true
		}
		found = true
		total += v * uint64(spec[1])
		if sel.Sel.Name == "WriteInt" || sel.Sel.Name == "WriteBigInt" {
			sawInt = true
		}
		return true
	})
	return total, ok && found, sawInt
}

var c05Basic = map[string]uint64{"bool": 1, "int8": 8, "uint8": 8, "byte": 8, "int16": 16, "uint16": 16,
	"int32": 32, "uint32": 32, "int64": 64, "uint64": 64}

// bits the reflection codec uses for a type expression (0 = unknown)
func (ct *c05Types) typeWidth(e ast.Expr, enc bool, depth int) uint64 {
	if depth > 8 {
		return 0
	}
	switch t := e.(type) {
	case *ast.Ident:
		if w, ok := c05Basic[t.Name]; ok {
			return w
		}
		if _, ok := ct.specs[t.Name]; ok {
			w, _ := ct.codecWidth(t.Name, enc, depth+1)
			return w
		}
	case *ast.ArrayType:
		if t.Len == nil {
			return 0
		}
		n, ok := intLit(t.Len)
		if id, isId := t.Elt.(*ast.Ident); ok && isId && (id.Name == "byte" || id.Name == "uint8") {
			return 8 * n
		}
	case *ast.StructType:
		var sum uint64
		for _, f := range t.Fields.List {
			w := ct.typeWidth(f.Type, enc, depth+1)
			if w == 0 {
				return 0
			}
			k := len(f.Names)
			if k == 0 {
				k = 1
			}
			sum += w * uint64(k)
		}
		return sum
	}
	return 0
}

func (ct *c05Types) codecWidth(name string, enc bool, depth int) (uint64, bool) {
	m := ct.methods[name]
	if enc {
		if fd, ok := m["MarshalTLB"]; ok && fd.Body != nil {
			// bits of recv.Field[:] where Field is a (named) byte array of the struct
			sliceBits := func(e ast.Expr) uint64 {
				sl, ok := e.(*ast.SliceExpr)
				if !ok || sl.Low != nil || sl.High != nil {
					return 0
				}
				fsel, ok := sl.X.(*ast.SelectorExpr)
				st, isStruct := ct.specs[name].(*ast.StructType)
				if !ok || !isStruct {
					return 0
				}
				for _, f := range st.Fields.List {
					for _, fn := range f.Names {
						if fn.Name == fsel.Sel.Name {
							return ct.typeWidth(f.Type, true, depth+1)
						}
					}
				}
				return 0
			}
			w, ok, signed := c05CallWidths(fd.Body, map[string][2]int{"WriteUint": {1, 1}, "WriteInt": {1, 1},
				"WriteBigUint": {1, 1}, "WriteBigInt": {1, 1}, "WriteBytes": {0, 8}}, sliceBits)
			if !ok {
				return 0, false
			}
			return w, signed
		}
	} else {
		if fd, ok := m["UnmarshalTLB"]; ok && fd.Body != nil {
			w, ok, _ := c05CallWidths(fd.Body, map[string][2]int{"ReadUint": {0, 1}, "ReadInt": {0, 1},
				"ReadBigUint": {0, 1}, "ReadBigInt": {0, 1}, "ReadBytes": {0, 8}}, nil)
			if !ok {
				return 0, false
			}
			return w, false
		}
	}
	return ct.typeWidth(ct.specs[name], enc, depth), false
}

func genC05() {
	ct := c05Collect("tlb/integers.go", "tlb/address.go")
	var names []string
	for name, m := range ct.methods {
		if m["FixedSize"] != nil && m["Equal"] != nil && m["Compare"] != nil {
			names = append(names, name)
		}
	}
	sort.Strings(names)
	var b bytes.Buffer
	b.WriteString("(* GENERATED by harness/cmd/translate from /repo (tlb/integers.go, tlb/address.go) — do not edit *)\n")
	b.WriteString("From Coq Require Import List NArith String.\nImport ListNotations.\nLocal Open Scope N_scope.\nLocal Open Scope string_scope.\n\n")
	b.WriteString("(* (type, (FixedSize(), (bits written by the encoder, (bits read by the decoder,\n   (key is written with WriteInt, underlying Go type is a signed integer))))) *)\n")
	b.WriteString("Definition dict_key_types : list (string * (N * (N * (N * (bool * bool))))) := [\n")
	for i, name := range names {
		var fixed uint64
		if fd := ct.methods[name]["FixedSize"]; fd.Body != nil {
			ast.Inspect(fd.Body, func(n ast.Node) bool {
				if r, ok := n.(*ast.ReturnStmt); ok && len(r.Results) == 1 {
					if v, ok := intLit(r.Results[0]); ok {
						fixed = v
					}
				}
				return true
			})
		}
		enc, signed := ct.codecWidth(name, true, 0)
		dec, _ := ct.codecWidth(name, false, 0)
		sep := ";"
		if i == len(names)-1 {
			sep = ""
		}
		native := false
		if id, ok := ct.specs[name].(*ast.Ident); ok && len(id.Name) > 3 && id.Name[:3] == "int" {
			native = true
		}
		fmt.Fprintf(&b, "  (%q, (%d, (%d, (%d, (%v, %v)))))%s\n", name, fixed, enc, dec, signed, native, sep)
	}
	b.WriteString("].\n\n")
	b.WriteString("(* key types whose Compare converts a field to an unsigned integer type before comparing it *)\n")
	b.WriteString("Definition dict_key_compare_casts_unsigned : list string := [")
	first := true
	for _, name := range names {
		casts := false
		if fd := ct.methods[name]["Compare"]; fd != nil && fd.Body != nil {
			ast.Inspect(fd.Body, func(n ast.Node) bool {
				if call, ok := n.(*ast.CallExpr); ok && len(call.Args) == 1 {
					if id, ok := call.Fun.(*ast.Ident); ok && len(id.Name) > 4 && id.Name[:4] == "uint" {
						if _, isField := call.Args[0].(*ast.SelectorExpr); isField {
							casts = true
						}
					}
				}
				return true
			})
		}
		if casts {
			if !first {
				b.WriteString("; ")
			}
			first = false
			fmt.Fprintf(&b, "%q", name)
		}
	}
	b.WriteString("].\n")
	writeIfChanged(filepath.Join(*out, "DictKeys.v"), b.Bytes())
}
