package main

// C13: the locking structure of liteapi/pool as data (coq/Generated/PoolLocks.v).
// For every method of *ConnPool and *connection: which lock of its receiver it takes
// (r.mu.Lock / r.mu.RLock), which methods of the same receiver it calls at all and
// which of them while it holds that lock, and how many blocking channel sends it
// performs while holding it (a send that is the case of a select with a default
// clause cannot block and is not counted).  "While it holds the lock" is: after the
// Lock/RLock call and, unless the unlock is deferred, before the last Unlock/RUnlock
// call of the body.  Function literals (goroutines, deferred closures) are skipped.
// No meaning is attached here; Properties/C13_gen.v states the obligations (no
// method re-acquires a lock it holds, directly or through callees; the lock kinds
// are those of the model; the only send under a lock is subscribe's send into its
// own fresh channel; every lock is followed at once by its deferred unlock, except
// SetMasterHead's explicit unlocks).

import (
	"bytes"
	"fmt"
	"go/ast"
	"go/token"
	"path/filepath"
	"sort"
)

type c13Method struct {
	recvType  string
	name      string
	kind      int // 0 none, 1 RLock, 2 Lock
	callsAll  []string
	callsHeld []string
	sendsHeld int
	deferNext bool // the statement right after the Lock/RLock statement is the matching deferred unlock
}

func c13RecvOf(fd *ast.FuncDecl) (typ, name string) {
	if fd.Recv == nil || len(fd.Recv.List) != 1 {
		return "", ""
	}
	t := fd.Recv.List[0].Type
	if s, ok := t.(*ast.StarExpr); ok {
		t = s.X
	}
	id, ok := t.(*ast.Ident)
	if !ok {
		return "", ""
	}
	if len(fd.Recv.List[0].Names) == 1 {
		name = fd.Recv.List[0].Names[0].Name
	}
	return id.Name, name
}

// r.mu.<sel>()
func c13MuCall(e ast.Expr, recv string) string {
	call, ok := e.(*ast.CallExpr)
	if !ok {
		return ""
	}
	sel, ok := call.Fun.(*ast.SelectorExpr)
	if !ok {
		return ""
	}
	inner, ok := sel.X.(*ast.SelectorExpr)
	if !ok || inner.Sel.Name != "mu" {
		return ""
	}
	if id, ok := inner.X.(*ast.Ident); !ok || id.Name != recv {
		return ""
	}
	return sel.Sel.Name
}

func c13Analyse(fd *ast.FuncDecl, typ, recv string, methods map[string]bool) c13Method {
	m := c13Method{recvType: typ, name: fd.Name.Name}
	if fd.Body == nil || recv == "" {
		return m
	}
	var lockPos, lastUnlock token.Pos
	deferred := false
	// pass 1: lock / unlock positions
	ast.Inspect(fd.Body, func(n ast.Node) bool {
		switch x := n.(type) {
		case *ast.FuncLit:
			return false
		case *ast.DeferStmt:
			if s := c13MuCall(x.Call, recv); s == "Unlock" || s == "RUnlock" {
				deferred = true
			}
			return false
		case *ast.CallExpr:
			switch c13MuCall(x, recv) {
			case "Lock":
				if m.kind == 0 {
					m.kind, lockPos = 2, x.Pos()
				}
			case "RLock":
				if m.kind == 0 {
					m.kind, lockPos = 1, x.Pos()
				}
			case "Unlock", "RUnlock":
				if x.Pos() > lastUnlock {
					lastUnlock = x.Pos()
				}
			}
		}
		return true
	})
	// lock; defer unlock  as two adjacent top-level statements: released on every path
	for i, st := range fd.Body.List {
		es, ok := st.(*ast.ExprStmt)
		if !ok {
			continue
		}
		lk := c13MuCall(es.X, recv)
		if lk != "Lock" && lk != "RLock" {
			continue
		}
		if i+1 < len(fd.Body.List) {
			if ds, ok := fd.Body.List[i+1].(*ast.DeferStmt); ok {
				ul := c13MuCall(ds.Call, recv)
				m.deferNext = (lk == "Lock" && ul == "Unlock") || (lk == "RLock" && ul == "RUnlock")
			}
		}
		break
	}
	held := func(p token.Pos) bool {
		return m.kind != 0 && p > lockPos && (deferred || p < lastUnlock)
	}
	// pass 2: same-receiver calls and sends
	nonBlocking := map[ast.Stmt]bool{}
	ast.Inspect(fd.Body, func(n ast.Node) bool {
		switch x := n.(type) {
		case *ast.FuncLit:
			return false
		case *ast.SelectStmt:
			hasDefault := false
			for _, c := range x.Body.List {
				if cc, ok := c.(*ast.CommClause); ok && cc.Comm == nil {
					hasDefault = true
				}
			}
			if hasDefault {
				for _, c := range x.Body.List {
					if cc, ok := c.(*ast.CommClause); ok && cc.Comm != nil {
						nonBlocking[cc.Comm] = true
					}
				}
			}
		case *ast.SendStmt:
			if !nonBlocking[x] && held(x.Pos()) {
				m.sendsHeld++
			}
		case *ast.CallExpr:
			if sel, ok := x.Fun.(*ast.SelectorExpr); ok {
				if id, ok := sel.X.(*ast.Ident); ok && id.Name == recv && methods[sel.Sel.Name] {
					m.callsAll = append(m.callsAll, sel.Sel.Name)
					if held(x.Pos()) {
						m.callsHeld = append(m.callsHeld, sel.Sel.Name)
					}
				}
			}
		}
		return true
	})
	return m
}

func c13StrList(xs []string) string {
	var b bytes.Buffer
	b.WriteString("[")
	for i, x := range xs {
		if i > 0 {
			b.WriteString("; ")
		}
		fmt.Fprintf(&b, "%q", x)
	}
	b.WriteString("]")
	return b.String()
}

func genC13() {
	files := []*file{parse("liteapi/pool/conn_pool.go"), parse("liteapi/pool/connection.go")}
	byType := map[string]map[string]bool{}
	for _, f := range files {
		for _, d := range f.f.Decls {
			if fd, ok := d.(*ast.FuncDecl); ok {
				if typ, _ := c13RecvOf(fd); typ == "ConnPool" || typ == "connection" {
					if byType[typ] == nil {
						byType[typ] = map[string]bool{}
					}
					byType[typ][fd.Name.Name] = true
				}
			}
		}
	}
	var ms []c13Method
	for _, f := range files {
		for _, d := range f.f.Decls {
			if fd, ok := d.(*ast.FuncDecl); ok {
				if typ, recv := c13RecvOf(fd); typ == "ConnPool" || typ == "connection" {
					ms = append(ms, c13Analyse(fd, typ, recv, byType[typ]))
				}
			}
		}
	}
	sort.SliceStable(ms, func(i, j int) bool {
		if ms[i].recvType != ms[j].recvType {
			return ms[i].recvType < ms[j].recvType
		}
		return ms[i].name < ms[j].name
	})
	var b bytes.Buffer
	b.WriteString("(* generated by harness/cmd/translate (genC13) from liteapi/pool/conn_pool.go and connection.go; do not edit *)\n")
	b.WriteString("From Coq Require Import List String NArith.\nImport ListNotations.\nLocal Open Scope string_scope.\n\n")
	b.WriteString("(* receiver type, method, lock of the receiver taken (0 none, 1 RLock, 2 Lock), same-receiver methods\n")
	b.WriteString("   called, same-receiver methods called while the lock is held, blocking sends while the lock is held,\n")
	b.WriteString("   the statement right after the Lock/RLock statement is the matching deferred unlock *)\n")
	b.WriteString("Record lock_fact := mkLF { lf_type : string; lf_name : string; lf_kind : N;\n")
	b.WriteString("  lf_calls : list string; lf_calls_held : list string; lf_sends_held : N;\n  lf_defer_next : bool }.\n\n")
	b.WriteString("Definition pool_lock_facts : list lock_fact := [\n")
	for i, m := range ms {
		sep := ";"
		if i == len(ms)-1 {
			sep = ""
		}
		fmt.Fprintf(&b, "  mkLF %q %q %d %s %s %d %v%s\n", m.recvType, m.name, m.kind, c13StrList(m.callsAll), c13StrList(m.callsHeld), m.sendsHeld, m.deferNext, sep)
	}
	b.WriteString("].\n")
	writeIfChanged(filepath.Join(*out, "PoolLocks.v"), b.Bytes())
}
