package main

// C14 — wallet-built messages carry the requested transfers under a valid
// signature.  Implementation side: wallet.New / RawSendV2 with a capturing
// blockchain, CreateMessageBody, VerifySignature, MessageV5VerifySignature,
// Decode*/ExtractRawMessages.  Ed25519 results are handed to the model as
// oracle columns.

import (
	"bytes"
	"context"
	"crypto/ed25519"
	"encoding/base64"
	"encoding/hex"
	"errors"
	"fmt"
	"math/big"
	"math/rand"
	"time"

	"github.com/tonkeeper/tongo/boc"
	"github.com/tonkeeper/tongo/tlb"
	"github.com/tonkeeper/tongo/ton"
	"github.com/tonkeeper/tongo/wallet"

	"verifharness/prng"
	"verifharness/sx"
)

func init() {
	execs["c14.send"] = execC14Send
	execs["c14.body"] = execC14Body
	execs["c14.verify"] = execC14Verify
	execs["c14.v5verify"] = execC14V5Verify
	execs["c14.decode"] = execC14Decode
	execs["c14.expiry"] = execC14Expiry
	execs["c14.entry"] = execC14Entry
	gens["C14"] = genC14
}

// ---- cells <-> sx trees: (special mask bits (child ...))

func cellBits(c *boc.Cell) string {
	bs := c.RawBitString()
	bs.ResetCounter()
	return bitsOf(&bs)
}

func cellToSx(c *boc.Cell) sx.V {
	var kids []sx.V
	for _, r := range c.Refs() {
		kids = append(kids, cellToSx(r))
	}
	return sx.L(sx.B(c.IsExotic()), sx.N(uint64(boc.VerifMask(c))), sx.Bits(cellBits(c)), sx.L(kids...))
}

func cellFromSx(v sx.V) *boc.Cell {
	c := boc.NewCell()
	bits := v.List[2].Bits
	for _, ch := range bits {
		if err := c.WriteBit(ch == '1'); err != nil {
			panic(err)
		}
	}
	if v.List[0].Bool {
		ty := 0
		for j := 0; j < 8 && j < len(bits); j++ {
			ty = ty*2 + int(bits[j]-'0')
		}
		boc.VerifSetTypeMask(c, boc.CellType(ty), uint32(v.List[1].U64()))
	} else {
		boc.VerifSetTypeMask(c, boc.OrdinaryCell, uint32(v.List[1].U64()))
	}
	for _, k := range v.List[3].List {
		if err := c.AddRef(cellFromSx(k)); err != nil {
			panic(err)
		}
	}
	return c
}

// ---- scripted blockchain

type pollAnswer struct {
	seqno uint32
	err   bool
}

type fakeChain struct {
	state    tlb.ShardAccount
	stateErr bool
	sendErr  bool
	payloads [][]byte
	polls    []pollAnswer
	npolls   int
	last     pollAnswer // answer once the script is exhausted
	sentAt   time.Time
	asked    []ton.AccountID
}

func (f *fakeChain) GetSeqno(ctx context.Context, account ton.AccountID) (uint32, error) {
	f.asked = append(f.asked, account)
	a := f.last
	if f.npolls < len(f.polls) {
		a = f.polls[f.npolls]
	}
	f.npolls++
	if a.err {
		return a.seqno, errors.New("scripted error")
	}
	return a.seqno, nil
}

func (f *fakeChain) SendMessage(ctx context.Context, payload []byte) (uint32, error) {
	f.payloads = append(f.payloads, append([]byte{}, payload...))
	f.sentAt = time.Now()
	if f.sendErr {
		return 0, errors.New("scripted send error")
	}
	return 0, nil
}

func (f *fakeChain) GetAccountState(ctx context.Context, accountID ton.AccountID) (tlb.ShardAccount, error) {
	f.asked = append(f.asked, accountID)
	if f.stateErr {
		return tlb.ShardAccount{}, errors.New("scripted state error")
	}
	return f.state, nil
}

// ---- wallet options

type wopts struct {
	wc  *int
	sub *uint32
	net *int32
}

func (o wopts) sx() sx.V {
	e := func(v *sx.V) sx.V {
		if v == nil {
			return sx.L()
		}
		return sx.L(*v)
	}
	var a, b, c *sx.V
	if o.wc != nil {
		v := sx.Z(int64(*o.wc))
		a = &v
	}
	if o.sub != nil {
		v := sx.N(uint64(*o.sub))
		b = &v
	}
	if o.net != nil {
		v := sx.Z(int64(*o.net))
		c = &v
	}
	return sx.L(e(a), e(b), e(c))
}

func woptsFromSx(v sx.V) wopts {
	var o wopts
	if len(v.List[0].List) == 1 {
		x := int(v.List[0].List[0].Int.Int64())
		o.wc = &x
	}
	if len(v.List[1].List) == 1 {
		x := uint32(v.List[1].List[0].U64())
		o.sub = &x
	}
	if len(v.List[2].List) == 1 {
		x := int32(v.List[2].List[0].Int.Int64())
		o.net = &x
	}
	return o
}

func (o wopts) options() []wallet.Option {
	var r []wallet.Option
	if o.wc != nil {
		r = append(r, wallet.WithWorkchain(*o.wc))
	}
	if o.sub != nil {
		r = append(r, wallet.WithSubWalletID(*o.sub))
	}
	if o.net != nil {
		r = append(r, wallet.WithNetworkGlobalID(*o.net))
	}
	return r
}

func randOpts(r *prng.R) wopts {
	var o wopts
	if r.Chance(60) {
		wcs := []int{0, -1, 0, -1, 1, 127, -128, 128, 255, 256, -129, 1 << 31, -(1 << 31) - 1, 1<<32 - 1}
		x := wcs[r.Intn(len(wcs))]
		o.wc = &x
	}
	if r.Chance(50) {
		subs := []uint32{0, 1, 698983191, 698983190, 0xffffffff, 0x80000000, uint32(r.U64())}
		x := subs[r.Intn(len(subs))]
		o.sub = &x
	}
	if r.Chance(50) {
		nets := []int32{-239, -3, 0, 1, -1, 1<<31 - 1, -(1 << 31), int32(r.U64())}
		x := nets[r.Intn(len(nets))]
		o.net = &x
	}
	return o
}

var c14SendVersions = []wallet.Version{wallet.V3R1, wallet.V3R2, wallet.V4R1, wallet.V4R2, wallet.V5Beta, wallet.V5R1, wallet.HighLoadV2R2}

func c14Max(v wallet.Version) int {
	switch v {
	case wallet.V5Beta, wallet.HighLoadV2R2:
		return 254
	case wallet.V5R1:
		return 255
	}
	return 4
}

func sigAppended(v wallet.Version) bool { return v == wallet.V5Beta || v == wallet.V5R1 }

func c14Seed(r *prng.R) []byte {
	switch r.Intn(5) {
	case 0:
		return make([]byte, 32)
	case 1:
		return bytes.Repeat([]byte{0xff}, 32)
	case 2:
		s := make([]byte, 32)
		for i := range s {
			s[i] = byte(i + 1)
		}
		return s
	}
	return r.Bytes(32)
}

// ---- outgoing messages

type rawMsgs []wallet.RawMessage

func (ms rawMsgs) sx() sx.V {
	var l []sx.V
	for _, m := range ms {
		l = append(l, sx.L(cellToSx(m.Message), sx.N(uint64(m.Mode))))
	}
	return sx.L(l...)
}

func rawMsgsFromSx(v sx.V) rawMsgs {
	var ms rawMsgs
	for _, e := range v.List {
		ms = append(ms, wallet.RawMessage{Message: cellFromSx(e.List[0]), Mode: byte(e.List[1].U64())})
	}
	return ms
}

// cells of at most one SHA-256 block each (the extracted model hashes slowly)
func randTinyCell(r *prng.R, depth int) *boc.Cell {
	c := boc.NewCell()
	for _, ch := range randBits(r, r.Intn(90)) {
		_ = c.WriteBit(ch == '1')
	}
	if depth > 0 && r.Chance(30) {
		_ = c.AddRef(randTinyCell(r, depth-1))
	}
	return c
}

func randSmallCell(r *prng.R, depth int) *boc.Cell {
	c := boc.NewCell()
	n := r.Intn(24)
	switch r.Intn(6) {
	case 0:
		n = 0
	case 1:
		n = 8 * r.Intn(20)
	case 2:
		n = 1023 - r.Intn(3)
	}
	for _, ch := range randBits(r, n) {
		_ = c.WriteBit(ch == '1')
	}
	if depth > 0 {
		k := r.Intn(3)
		for i := 0; i < k; i++ {
			_ = c.AddRef(randSmallCell(r, depth-1))
		}
	}
	return c
}

var c14Modes = []byte{0, 1, 2, 3, 64, 128, 130, 255, 32, 160}

// a Sendable description: (kind amount wc addr bounce mode body code data comment)
type sendable struct {
	kind    int // 0 wallet.Message, 1 wallet.SimpleTransfer
	amount  uint64
	wc      int32
	addr    []byte
	bounce  bool
	mode    byte
	body    *boc.Cell
	code    *boc.Cell
	data    *boc.Cell
	comment string
}

func (s sendable) sx() sx.V {
	oc := func(c *boc.Cell) sx.V {
		if c == nil {
			return sx.L()
		}
		return sx.L(cellToSx(c))
	}
	return sx.L(sx.Nat(s.kind), sx.N(s.amount), sx.Z(int64(s.wc)), sx.Bytes(s.addr), sx.B(s.bounce),
		sx.N(uint64(s.mode)), oc(s.body), oc(s.code), oc(s.data), sx.Str(s.comment))
}

func sendableFromSx(v sx.V) sendable {
	oc := func(x sx.V) *boc.Cell {
		if len(x.List) == 0 {
			return nil
		}
		return cellFromSx(x.List[0])
	}
	l := v.List
	return sendable{kind: l[0].I(), amount: l[1].U64(), wc: int32(l[2].Int.Int64()), addr: l[3].Bytes, bounce: l[4].Bool,
		mode: byte(l[5].U64()), body: oc(l[6]), code: oc(l[7]), data: oc(l[8]), comment: string(l[9].Bytes)}
}

func (s sendable) toSendable() wallet.Sendable {
	var a ton.AccountID
	a.Workchain = s.wc
	copy(a.Address[:], s.addr)
	if s.kind == 1 {
		return wallet.SimpleTransfer{Amount: tlb.Grams(s.amount), Address: a, Comment: s.comment, Bounceable: s.bounce}
	}
	if s.kind == 2 {
		// code / data / body in the forms utils.AnyToCell accepts: *boc.Cell, []byte BOC, hex string, base64 string
		form := func(c *boc.Cell, k int) any {
			if c == nil {
				return nil
			}
			b, err := c.ToBoc()
			if err != nil {
				return c
			}
			switch k % 4 {
			case 1:
				return b
			case 2:
				return hex.EncodeToString(b)
			case 3:
				return base64.StdEncoding.EncodeToString(b)
			}
			return c
		}
		k := int(s.mode)
		return wallet.ContractDeploy{Workchain: s.wc, Code: form(s.code, k), Data: form(s.data, k/4), Body: form(s.body, k/16), Amount: tlb.Grams(s.amount)}
	}
	return wallet.Message{Amount: tlb.Grams(s.amount), Address: a, Body: s.body, Code: s.code, Data: s.data, Bounce: s.bounce, Mode: s.mode}
}

func (s sendable) raw() (wallet.RawMessage, error) {
	m, mode, err := s.toSendable().ToInternal()
	if err != nil {
		return wallet.RawMessage{}, err
	}
	c := boc.NewCell()
	if err := tlb.Marshal(c, m); err != nil {
		return wallet.RawMessage{}, err
	}
	return wallet.RawMessage{Message: c, Mode: mode}, nil
}

func randSendable(r *prng.R) sendable {
	amounts := []uint64{0, 1, 255, 256, 1000000000, 1<<32 - 1, 1 << 32, 1<<63 - 1, 1 << 63, 1<<64 - 1, r.U64()}
	s := sendable{kind: r.Intn(2), amount: amounts[r.Intn(len(amounts))], wc: int32([]int{0, -1, 0, 1}[r.Intn(4)]),
		addr: r.Bytes(32), bounce: r.Bool(), mode: c14Modes[r.Intn(len(c14Modes))]}
	if r.Chance(25) { // wallet.ContractDeploy into various workchains; mode selects the forms of code / data / body
		s.kind = 2
		s.wc = int32([]int{0, -1, 1, -1, 5, 127, -128}[r.Intn(7)])
		s.code = randTinyCell(r, 1)
		s.data = randTinyCell(r, 1)
		if r.Chance(60) {
			s.body = randTinyCell(r, 1)
		}
		if r.Chance(6) {
			s.data = nil // "code and data must be set"
		}
		s.mode = byte(r.Intn(64))
		return s
	}
	if s.kind == 1 {
		lens := []int{0, 1, 5, 30, 100, 122, 123, 124, 127, 128, 250, 300, 1000}
		n := lens[r.Intn(len(lens))]
		b := make([]byte, n)
		for i := range b {
			b[i] = byte('a' + r.Intn(26))
		}
		s.comment = string(b)
		return s
	}
	if r.Chance(60) {
		s.body = randSmallCell(r, 2)
	}
	if r.Chance(30) {
		s.code = randSmallCell(r, 1)
		s.data = randSmallCell(r, 1)
	} else if r.Chance(10) {
		s.code = randSmallCell(r, 0) // code without data: init is not attached
	}
	return s
}

// the requested fields read back from the carried internal message with the library's tlb.Message decoder and
// compared with the request, the destination of a deployment being computed here from workchain + state-init hash
func (s sendable) carriedWrong(m wallet.RawMessage) string {
	var msg tlb.Message
	if err := tlb.Unmarshal(cellFromSx(cellToSx(m.Message)), &msg); err != nil || msg.Info.SumType != "IntMsgInfo" {
		return "the carried cell is not an internal message"
	}
	info := msg.Info.IntMsgInfo
	wantAddr, wantBounce, wantMode, wantInit := s.addr, s.bounce, s.mode, s.code != nil && s.data != nil
	switch s.kind {
	case 1:
		wantMode, wantInit = 3, false
	case 2:
		wantAddr = mustHash(cellWith("00110", []*boc.Cell{s.code, s.data}))
		wantBounce, wantMode, wantInit = true, 3, true
	}
	switch {
	case info.Dest.SumType != "AddrStd" || info.Dest.AddrStd.WorkchainId != int8(s.wc) || !bytes.Equal(info.Dest.AddrStd.Address[:], wantAddr):
		return fmt.Sprintf("destination is %d:%x, requested %d:%x", info.Dest.AddrStd.WorkchainId, info.Dest.AddrStd.Address[:], int8(s.wc), wantAddr)
	case uint64(info.Value.Grams) != s.amount:
		return "amount differs"
	case info.Bounce != wantBounce || m.Mode != wantMode:
		return "bounce flag or mode differs"
	case msg.Init.Exists != wantInit:
		return "state-init presence differs"
	}
	if wantInit {
		si := msg.Init.Value.Value
		if !si.Code.Exists || !si.Data.Exists || !bytes.Equal(mustHash(&si.Code.Value.Value), mustHash(s.code)) || !bytes.Equal(mustHash(&si.Data.Value.Value), mustHash(s.data)) {
			return "attached code / data differ"
		}
	}
	return ""
}

// message list of n entries; big lists reuse a few distinct cells
func randRawMsgs(r *prng.R, n int, tiny bool) rawMsgs {
	var pool []*boc.Cell
	ps := 1 + r.Intn(6)
	for i := 0; i < ps; i++ {
		if tiny {
			pool = append(pool, randTinyCell(r, 1))
			continue
		}
		if r.Chance(50) {
			if m, err := randSendable(r).raw(); err == nil {
				pool = append(pool, m.Message)
				continue
			}
		}
		pool = append(pool, randSmallCell(r, 2))
	}
	var ms rawMsgs
	for i := 0; i < n; i++ {
		c := pool[r.Intn(len(pool))]
		if n <= 6 && r.Chance(50) && !tiny {
			c = randSmallCell(r, 2)
		}
		ms = append(ms, wallet.RawMessage{Message: c, Mode: c14Modes[r.Intn(len(c14Modes))]})
	}
	return ms
}

func boundary32(r *prng.R) uint32 {
	xs := []uint32{0, 1, 2, 255, 256, 1 << 16, 1<<31 - 1, 1 << 31, 1<<32 - 2, 1<<32 - 1, uint32(r.U64()), 1700000000}
	return xs[r.Intn(len(xs))]
}

func boundaryUnix(r *prng.R) int64 {
	xs := []int64{0, 1, 1700000000, 1<<31 - 1, 1 << 31, 1<<32 - 1, 1 << 32, 1<<32 + 5, -1, -1 << 31, 1 << 40, int64(uint32(r.U64()))}
	return xs[r.Intn(len(xs))]
}

// ---- c14.send

type sendCase struct {
	ver   wallet.Version
	seed  []byte
	opts  wopts
	seqno uint32
	valid int64
	msgs  rawMsgs
	init  *tlb.StateInit
	rseed int64
}

func stateInitCell(si *tlb.StateInit) *boc.Cell {
	c := boc.NewCell()
	if err := tlb.Marshal(c, *si); err != nil {
		panic(err)
	}
	return c
}

// runs RawSendV2 against a capturing chain; returns the parsed external message
func (sc sendCase) run() (root *boc.Cell, hash ton.Bits256, addr ton.AccountID, err error, sent int) {
	key := ed25519.NewKeyFromSeed(sc.seed)
	chain := &fakeChain{}
	w, err := wallet.New(key, sc.ver, chain, sc.opts.options()...)
	if err != nil {
		return nil, hash, addr, err, 0
	}
	addr = w.GetAddress()
	rand.Seed(sc.rseed)
	hash, err = w.RawSendV2(context.Background(), sc.seqno, time.Unix(sc.valid, 0), sc.msgs, sc.init, 0)
	sent = len(chain.payloads)
	if err != nil {
		return nil, hash, addr, err, sent
	}
	if sent != 1 {
		return nil, hash, addr, fmt.Errorf("payload count %d", sent), sent
	}
	cells, err := boc.DeserializeBoc(chain.payloads[0])
	if err != nil || len(cells) != 1 {
		return nil, hash, addr, fmt.Errorf("payload does not parse"), sent
	}
	return cells[0], hash, addr, nil, sent
}

func lastRef(c *boc.Cell) *boc.Cell {
	rs := c.Refs()
	if len(rs) == 0 {
		return c
	}
	return rs[len(rs)-1]
}

func mustHash(c *boc.Cell) []byte {
	h, err := c.Hash()
	if err != nil {
		panic(err)
	}
	return h
}

func sendOut(root *boc.Cell) sx.V {
	body := lastRef(root)
	return sx.L(sx.Bytes(mustHash(root)), sx.Bits(cellBits(root)), sx.Bits(cellBits(body)), sx.Nat(len(body.Refs())))
}

func sendCaseFromSx(in sx.V) sendCase {
	l := in.List
	sc := sendCase{ver: wallet.Version(l[0].I()), opts: woptsFromSx(l[2]), seqno: uint32(l[3].U64()), valid: l[4].Int.Int64(),
		msgs: rawMsgsFromSx(l[5]), seed: l[10].Bytes, rseed: l[11].Int.Int64()}
	if len(l[6].List) == 1 {
		sc.init = stateInitFromCell(cellFromSx(l[6].List[0]))
	}
	return sc
}

// a StateInit cell of the shape 00 code? data? 0 back to the struct
func stateInitFromCell(c *boc.Cell) *tlb.StateInit {
	var si tlb.StateInit
	if err := tlb.Unmarshal(c, &si); err != nil {
		panic(err)
	}
	return &si
}

func execC14Send(in sx.V) sx.V {
	sc := sendCaseFromSx(in)
	root, _, _, err, _ := sc.run()
	if err != nil {
		return sx.A("err")
	}
	return sendOut(root)
}

// the signed part of a body cell and the signature, cut by position only
func splitBody(body *boc.Cell, appended bool) (sig []byte, part *boc.Cell, ok bool) {
	bits := cellBits(body)
	if len(bits) < 512 {
		return nil, nil, false
	}
	var sb, pb string
	if appended {
		pb, sb = bits[:len(bits)-512], bits[len(bits)-512:]
	} else {
		sb, pb = bits[:512], bits[512:]
	}
	sig = make([]byte, 64)
	for i, ch := range sb {
		if ch == '1' {
			sig[i/8] |= 1 << uint(7-i%8)
		}
	}
	part = boc.NewCell()
	for _, ch := range pb {
		_ = part.WriteBit(ch == '1')
	}
	for _, r := range body.Refs() {
		_ = part.AddRef(r)
	}
	return sig, part, true
}

func (sc sendCase) input(pk []byte, rnd uint32, sig []byte, addr []byte) sx.V {
	init := sx.L()
	if sc.init != nil {
		init = sx.L(cellToSx(stateInitCell(sc.init)))
	}
	return sx.L(sx.Nat(int(sc.ver)), sx.Bytes(pk), sc.opts.sx(), sx.N(uint64(sc.seqno)), sx.Z(sc.valid), sc.msgs.sx(),
		init, sx.N(uint64(rnd)), sx.Bytes(sig), sx.Bytes(addr), sx.Bytes(sc.seed), sx.Z(sc.rseed))
}

func rndOf(seed int64) uint32 {
	rand.Seed(seed)
	return rand.Uint32()
}

func sizeBucket(n, max int) string {
	switch {
	case n == 0:
		return "0"
	case n == 1:
		return "1"
	case n > max:
		return "over"
	case n == max:
		return "max"
	case n <= 4:
		return "few"
	}
	return "many"
}

func sameMsgs(a []wallet.RawMessage, b rawMsgs) bool {
	if len(a) != len(b) {
		return false
	}
	for i := range a {
		if a[i].Mode != b[i].Mode || !bytes.Equal(mustHash(a[i].Message), mustHash(b[i].Message)) {
			return false
		}
	}
	return true
}

func verifyAny(ver wallet.Version, root *boc.Cell, pk ed25519.PublicKey) error {
	if ver == wallet.V5Beta {
		return wallet.MessageV5VerifySignature(*lastRef(root), pk)
	}
	return wallet.VerifySignature(ver, root, pk)
}

// emits one send case; returns the parsed message (nil on refusal)
func emitSend(c *Ctx, sc sendCase, family string) (*boc.Cell, ed25519.PublicKey) {
	key := ed25519.NewKeyFromSeed(sc.seed)
	pk := key.Public().(ed25519.PublicKey)
	// dry run for the oracle columns: signature (cut by position) and address
	root, hash, addr, err, sent := sc.run()
	sig := make([]byte, 64)
	if err == nil {
		s, _, ok := splitBody(lastRef(root), sigAppended(sc.ver))
		if ok {
			sig = s
		}
	}
	in := sc.input(pk, rndOf(sc.rseed), sig, addr.Address[:])
	class := fmt.Sprintf("send|%s|v%d|n=%s|init=%v", family, int(sc.ver), sizeBucket(len(sc.msgs), c14Max(sc.ver)), sc.init != nil)
	if family != "" {
		c.Emit("c14.send", in, class)
	}
	if len(sc.msgs) > c14Max(sc.ver) {
		if err == nil || sent != 0 {
			c.Fail("c14.send", in, "c14-too-many-accepted", "more messages than the version allows were not refused")
		}
		return nil, pk
	}
	if err != nil {
		c.Fail("c14.send", in, "c14-send-refused", "a send within the limits failed: "+err.Error())
		return nil, pk
	}
	// --- property oracles on the implementation
	body := lastRef(root)
	if !bytes.Equal(hash[:], mustHash(root)) {
		c.Fail("c14.send", in, "c14-msghash", "returned message hash is not the hash of the payload")
	}
	s, part, ok := splitBody(body, sigAppended(sc.ver))
	if !ok || !ed25519.Verify(pk, mustHash(part), s) {
		c.Fail("c14.send", in, "c14-sig-invalid", "signature does not verify over the hash of the signed part")
	}
	if e := verifyAny(sc.ver, root, pk); e != nil {
		c.Fail("c14.send", in, "c14-own-key-rejected", "built message rejected under the wallet's key")
	}
	other := ed25519.NewKeyFromSeed(bytes.Repeat([]byte{0x5a}, 32)).Public().(ed25519.PublicKey)
	if e := verifyAny(sc.ver, root, other); !errors.Is(e, wallet.ErrBadSignature) {
		c.Fail("c14.send", in, "c14-other-key-accepted", "built message not rejected under another key")
	}
	got, e := wallet.ExtractRawMessages(sc.ver, root)
	if e != nil || !sameMsgs(got, sc.msgs) {
		c.Fail("c14.send", in, "c14-extract-roundtrip", fmt.Sprintf("ExtractRawMessages does not return the %d requested messages (err=%v)", len(sc.msgs), e))
	}
	d := decodeProj(sc.ver, root)
	if d.K == sx.KL {
		wantValid := uint64(uint32(sc.valid))
		wantSeq := uint64(sc.seqno)
		if sc.ver == wallet.HighLoadV2R2 {
			wantSeq = 0
		}
		if d.List[1].U64() != wantValid || d.List[2].U64() != wantSeq {
			c.Fail("c14.send", in, "c14-decode-fields", "decoded expiry/seqno differ from the requested ones")
		}
	} else {
		c.Fail("c14.send", in, "c14-decode-fields", "own message does not decode")
	}
	// destination = the wallet itself
	eb := cellBits(root)
	if len(eb) < 275 || eb[15:271] != hexBits(addr.Address[:]) {
		c.Fail("c14.send", in, "c14-dest", "external message is not addressed to the wallet")
	}
	return root, pk
}

// the oracles of emitSend without handing the case to the model
func implOnlySend(c *Ctx, sc sendCase) { emitSend(c, sc, "") }

// ---- c14.body (CreateMessageBody with Sendables, any V5 message type, no count check)

func execC14Body(in sx.V) sx.V {
	l := in.List
	ver := wallet.Version(l[0].I())
	key := ed25519.NewKeyFromSeed(l[9].Bytes)
	cfg := wallet.MessageConfig{Seqno: uint32(l[3].U64()), ValidUntil: time.Unix(l[4].Int.Int64(), 0),
		V5MsgType: wallet.V5MsgType(uint32(l[6].U64()))}
	if ver == wallet.V5R1 && len(l[12].List) == 1 {
		// the exported CreateSignedMsgBodyCell of the v5r1 wallet, with extended actions
		o := woptsFromSx(l[2])
		w5 := wallet.NewWalletV5R1(key.Public().(ed25519.PublicKey), wallet.Options{NetworkGlobalID: o.net, Workchain: o.wc, SubWalletID: o.sub})
		exts := wallet.W5ExtendedActions{}
		for _, e := range l[12].List[0].List {
			exts = append(exts, extActFromSx(e).toGo())
		}
		body, err := w5.CreateSignedMsgBodyCell(key, rawMsgsFromSx(l[5]), &exts, cfg)
		if err != nil {
			return sx.A("err")
		}
		return sx.L(sx.Bytes(mustHash(body)), sx.Bits(cellBits(body)), sx.Nat(len(body.Refs())))
	}
	w, err := wallet.New(key, ver, &fakeChain{}, woptsFromSx(l[2]).options()...)
	if err != nil {
		return sx.A("err")
	}
	var ss []wallet.Sendable
	for _, e := range l[11].List {
		ss = append(ss, sendableFromSx(e).toSendable())
	}
	rand.Seed(l[10].Int.Int64())
	body, err := w.CreateMessageBody(cfg, ss...)
	if err != nil {
		return sx.A("err")
	}
	return sx.L(sx.Bytes(mustHash(body)), sx.Bits(cellBits(body)), sx.Nat(len(body.Refs())))
}

// ---- c14.verify / c14.v5verify

func verdictSx(err error, body *boc.Cell, appended bool) sx.V {
	h := sx.A("err")
	if body != nil {
		if _, part, ok := splitBody(body, appended); ok {
			if hh, e := part.Hash(); e == nil {
				h = sx.Bytes(hh)
			}
		}
	}
	switch {
	case err == nil:
		return sx.L(sx.A("ok"), h)
	case errors.Is(err, wallet.ErrBadSignature):
		return sx.L(sx.A("badsig"), h)
	}
	return sx.A("err")
}

// the body of a message whatever its envelope (nil when the envelope does not decode)
func bodyOf(root *boc.Cell) *boc.Cell {
	var m tlb.Message
	if err := tlb.Unmarshal(cellFromSx(cellToSx(root)), &m); err != nil {
		return nil
	}
	b := boc.Cell(m.Body.Value)
	return &b
}

func execC14Verify(in sx.V) sx.V {
	l := in.List
	ver := wallet.Version(l[0].I())
	root := cellFromSx(l[1])
	err := wallet.VerifySignature(ver, root, ed25519.PublicKey(l[2].Bytes))
	return verdictSx(err, bodyOf(root), sigAppended(ver))
}

func execC14V5Verify(in sx.V) sx.V {
	l := in.List
	body := cellFromSx(l[0])
	err := wallet.MessageV5VerifySignature(*body, ed25519.PublicKey(l[1].Bytes))
	return verdictSx(err, cellFromSx(l[0]), true)
}

// oracle table row for (pk, signed part of body, signature of body)
func oracleRow(pk []byte, body *boc.Cell, appended bool) (sx.V, bool) {
	sig, part, ok := splitBody(body, appended)
	if !ok {
		return sx.V{}, false
	}
	h, err := part.Hash()
	if err != nil {
		return sx.V{}, false
	}
	v := len(pk) == 32 && ed25519.Verify(pk, h, sig)
	return sx.L(sx.Bytes(pk), sx.Bytes(h), sx.Bytes(sig), sx.B(v)), true
}

func emitVerify(c *Ctx, ver wallet.Version, root *boc.Cell, pk []byte, class string) sx.V {
	var tbl []sx.V
	if b := bodyOf(root); b != nil {
		if row, ok := oracleRow(pk, b, sigAppended(ver)); ok {
			tbl = append(tbl, row)
		}
	}
	if ver == wallet.V5Beta {
		in := sx.L(cellToSx(lastRef(root)), sx.Bytes(pk), sx.L(tbl...))
		return c.Emit("c14.v5verify", in, class)
	}
	in := sx.L(sx.Nat(int(ver)), cellToSx(root), sx.Bytes(pk), sx.L(tbl...))
	return c.Emit("c14.verify", in, class)
}

// copy of a message with the body replaced
func withBody(root *boc.Cell, body *boc.Cell) *boc.Cell {
	n := boc.NewCell()
	for _, ch := range cellBits(root) {
		_ = n.WriteBit(ch == '1')
	}
	rs := root.Refs()
	for i, r := range rs {
		if i == len(rs)-1 {
			_ = n.AddRef(body)
		} else {
			_ = n.AddRef(r)
		}
	}
	return n
}

func cellWith(bits string, refs []*boc.Cell) *boc.Cell {
	n := boc.NewCell()
	for _, ch := range bits {
		_ = n.WriteBit(ch == '1')
	}
	for _, r := range refs {
		_ = n.AddRef(r)
	}
	return n
}

func flipBit(s string, i int) string {
	b := []byte(s)
	if b[i] == '0' {
		b[i] = '1'
	} else {
		b[i] = '0'
	}
	return string(b)
}

// Oracle on the implementation: EVERY single-bit flip of the signed bits, a
// sample of signature bits and one changed bit in every referenced cell must be
// rejected as badly signed.  A sample of the flips also goes to the model.
func flipOracle(c *Ctx, ver wallet.Version, root *boc.Cell, pk ed25519.PublicKey, emit int) {
	body := lastRef(root)
	bits := cellBits(body)
	n := len(bits)
	lo, hi := 512, n // signed bits
	slo := 0
	if sigAppended(ver) {
		lo, hi, slo = 0, n-512, n-512
	}
	check := func(m *boc.Cell, what string) {
		if e := verifyAny(ver, m, pk); !errors.Is(e, wallet.ErrBadSignature) {
			c.Fail("c14.verify", sx.L(sx.Nat(int(ver)), cellToSx(m)), "c14-flip-accepted", what+" but the message is not rejected as badly signed")
		}
	}
	for i := lo; i < hi; i++ {
		check(withBody(root, cellWith(flipBit(bits, i), body.Refs())), fmt.Sprintf("signed bit %d flipped", i))
	}
	for k := 0; k < 16; k++ {
		i := slo + c.R.Intn(512)
		check(withBody(root, cellWith(flipBit(bits, i), body.Refs())), fmt.Sprintf("signature bit %d flipped", i))
	}
	changeRef := func(k int) *boc.Cell {
		nr := append([]*boc.Cell{}, body.Refs()...)
		old := nr[k]
		ob := cellBits(old)
		if len(ob) > 0 {
			nr[k] = cellWith(flipBit(ob, c.R.Intn(len(ob))), old.Refs())
		} else {
			nr[k] = cellWith("1", old.Refs())
		}
		return withBody(root, cellWith(bits, nr))
	}
	for k := range body.Refs() {
		check(changeRef(k), fmt.Sprintf("referenced cell %d changed", k))
	}
	// sampled for the model
	for k := 0; k < emit && hi > lo; k++ {
		i := []int{lo, hi - 1, lo + c.R.Intn(hi-lo)}[k%3]
		m := withBody(root, cellWith(flipBit(bits, i), body.Refs()))
		emitVerify(c, ver, m, pk, fmt.Sprintf("verify|flip-signed|v%d", int(ver)))
	}
	if emit > 0 {
		m := withBody(root, cellWith(flipBit(bits, slo+c.R.Intn(512)), body.Refs()))
		emitVerify(c, ver, m, pk, fmt.Sprintf("verify|flip-sig|v%d", int(ver)))
		if len(body.Refs()) > 0 {
			emitVerify(c, ver, changeRef(c.R.Intn(len(body.Refs()))), pk, fmt.Sprintf("verify|changed-ref|v%d", int(ver)))
		}
	}
}

// ---- MsgAddress / v5r1 extended actions <-> sx

func anySx(a tlb.Maybe[tlb.Anycast]) sx.V {
	if !a.Exists {
		return sx.L()
	}
	return sx.L(sx.N(uint64(a.Value.Depth)), sx.N(uint64(a.Value.RewritePfx)))
}

func bitStringBits(b boc.BitString) string {
	b.ResetCounter()
	return bitsOf(&b)
}

func msgAddrSx(a tlb.MsgAddress) sx.V {
	switch a.SumType {
	case "AddrExtern":
		return sx.L(sx.A("ext"), sx.Bits(bitStringBits(*a.AddrExtern)))
	case "AddrStd":
		return sx.L(sx.A("std"), anySx(a.AddrStd.Anycast), sx.Z(int64(a.AddrStd.WorkchainId)), sx.Bits(hexBits(a.AddrStd.Address[:])))
	case "AddrVar":
		return sx.L(sx.A("var"), anySx(a.AddrVar.Anycast), sx.Z(int64(a.AddrVar.WorkchainId)), sx.Bits(bitStringBits(a.AddrVar.Address)))
	}
	return sx.A("none")
}

func anyFromSx(v sx.V) tlb.Maybe[tlb.Anycast] {
	var a tlb.Maybe[tlb.Anycast]
	if len(v.List) == 2 {
		a.Exists = true
		a.Value.Depth = uint32(v.List[0].U64())
		a.Value.RewritePfx = uint32(v.List[1].U64())
	}
	return a
}

func msgAddrFromSx(v sx.V) tlb.MsgAddress {
	var a tlb.MsgAddress
	if v.K != sx.KL {
		a.SumType = "AddrNone"
		return a
	}
	switch v.List[0].Atom {
	case "ext":
		bs := bitStringFromBits(v.List[1].Bits)
		a.SumType = "AddrExtern"
		a.AddrExtern = &bs
	case "std":
		a.SumType = "AddrStd"
		a.AddrStd.Anycast = anyFromSx(v.List[1])
		a.AddrStd.WorkchainId = int8(v.List[2].Int.Int64())
		bs := v.List[3].Bits
		for i := 0; i < 256 && i < len(bs); i++ {
			if bs[i] == '1' {
				a.AddrStd.Address[i/8] |= 1 << uint(7-i%8)
			}
		}
	case "var":
		a.SumType = "AddrVar"
		bs := bitStringFromBits(v.List[3].Bits)
		a.AddrVar = &struct {
			Anycast     tlb.Maybe[tlb.Anycast]
			AddrLen     tlb.Uint9
			WorkchainId int32
			Address     boc.BitString
		}{Anycast: anyFromSx(v.List[1]), AddrLen: tlb.Uint9(len(v.List[3].Bits)), WorkchainId: int32(v.List[2].Int.Int64()), Address: bs}
	}
	return a
}

func randAnycast(r *prng.R) tlb.Maybe[tlb.Anycast] {
	var a tlb.Maybe[tlb.Anycast]
	if r.Chance(30) {
		a.Exists = true
		d := []uint32{1, 2, 8, 29, 30}[r.Intn(5)]
		a.Value.Depth = d
		a.Value.RewritePfx = uint32(r.U64()) & (1<<d - 1)
	}
	return a
}

func randMsgAddr(r *prng.R, stdOnly bool) tlb.MsgAddress {
	k := r.Intn(8)
	if stdOnly && k < 2 {
		k = 5
	}
	var v sx.V
	switch k {
	case 0:
		return tlb.MsgAddress{SumType: "AddrNone"}
	case 1:
		v = sx.L(sx.A("ext"), sx.Bits(randBits(r, []int{0, 1, 8, 64, 255, 256, 300}[r.Intn(7)])))
	case 2:
		v = sx.L(sx.A("var"), anySx(randAnycast(r)), sx.Z(int64(int32(r.U64()))), sx.Bits(randBits(r, []int{0, 7, 256, 300}[r.Intn(4)])))
	default:
		v = sx.L(sx.A("std"), anySx(randAnycast(r)), sx.Z(int64([]int{0, -1, 0, 1, 127, -128}[r.Intn(6)])), sx.Bits(randBits(r, 256)))
	}
	return msgAddrFromSx(v)
}

type extAct struct {
	kind    int // 0 add, 1 remove, 2 set signature allowed
	addr    tlb.MsgAddress
	allowed bool
}

func (x extAct) sx() sx.V {
	switch x.kind {
	case 0:
		return sx.L(sx.A("add"), msgAddrSx(x.addr))
	case 1:
		return sx.L(sx.A("remove"), msgAddrSx(x.addr))
	}
	return sx.L(sx.A("sig"), sx.B(x.allowed))
}

func extActFromSx(v sx.V) extAct {
	switch v.List[0].Atom {
	case "add":
		return extAct{kind: 0, addr: msgAddrFromSx(v.List[1])}
	case "remove":
		return extAct{kind: 1, addr: msgAddrFromSx(v.List[1])}
	}
	return extAct{kind: 2, allowed: v.List[1].Bool}
}

func (x extAct) toGo() wallet.W5ExtendedAction {
	switch x.kind {
	case 0:
		return wallet.W5ExtendedAction{SumType: "AddExtension", AddExtension: &struct{ Addr tlb.MsgAddress }{x.addr}}
	case 1:
		return wallet.W5ExtendedAction{SumType: "RemoveExtension", RemoveExtension: &struct{ Addr tlb.MsgAddress }{x.addr}}
	}
	return wallet.W5ExtendedAction{SumType: "SetSignatureAllowed", SetSignatureAllowed: &struct{ Allowed bool }{x.allowed}}
}

func extActOfGo(a wallet.W5ExtendedAction) extAct {
	switch a.SumType {
	case "AddExtension":
		return extAct{kind: 0, addr: a.AddExtension.Addr}
	case "RemoveExtension":
		return extAct{kind: 1, addr: a.RemoveExtension.Addr}
	}
	return extAct{kind: 2, allowed: a.SetSignatureAllowed.Allowed}
}

func extsSx(xs []extAct) sx.V {
	var l []sx.V
	for _, x := range xs {
		l = append(l, x.sx())
	}
	return sx.L(sx.L(l...))
}

func goExtsSx(p *wallet.W5ExtendedActions) sx.V {
	if p == nil {
		return sx.L()
	}
	var xs []extAct
	for _, a := range *p {
		xs = append(xs, extActOfGo(a))
	}
	return extsSx(xs)
}

func randExts(r *prng.R, n int) []extAct {
	var xs []extAct
	for i := 0; i < n; i++ {
		k := r.Intn(3)
		x := extAct{kind: k, allowed: r.Bool()}
		if k < 2 {
			x.addr = randMsgAddr(r, r.Chance(70))
		}
		xs = append(xs, x)
	}
	return xs
}

// ---- envelopes: the same body under other tlb.Message shapes

// variant 0..: dest anycast / src extern / import fee; init inline; init by ref with libraries; body inline;
// internal message; external-out message
func envelopeVariant(r *prng.R, variant int, body *boc.Cell, dest ton.AccountID) (*boc.Cell, error) {
	var m tlb.Message
	std := dest.ToMsgAddress()
	mkInit := func(lib bool) tlb.StateInit {
		var si tlb.StateInit
		if r.Bool() {
			si.SplitDepth.Exists = true
			si.SplitDepth.Value = tlb.Uint5(r.Intn(32))
		}
		if r.Bool() {
			si.Special.Exists = true
			si.Special.Value = tlb.TickTock{Tick: r.Bool(), Tock: r.Bool()}
		}
		if r.Chance(70) {
			si.Code.Exists = true
			si.Code.Value.Value = *randTinyCell(r, 1)
		}
		if r.Chance(70) {
			si.Data.Exists = true
			si.Data.Value.Value = *randTinyCell(r, 1)
		}
		if lib {
			for i := 0; i < 1+r.Intn(3); i++ {
				var k tlb.Bits256
				copy(k[:], r.Bytes(32))
				si.Library.Put(k, tlb.SimpleLib{Public: r.Bool(), Root: *randTinyCell(r, 0)})
			}
		}
		return si
	}
	extIn := func() {
		m.Info.SumType = "ExtInMsgInfo"
		m.Info.ExtInMsgInfo = &struct {
			Src       tlb.MsgAddress
			Dest      tlb.MsgAddress
			ImportFee tlb.VarUInteger16
		}{Src: tlb.MsgAddress{SumType: "AddrNone"}, Dest: std}
	}
	m.Body.IsRight = true
	m.Body.Value = tlb.Any(*body)
	switch variant {
	case 0:
		extIn()
		m.Info.ExtInMsgInfo.Dest.AddrStd.Anycast.Exists = true
		m.Info.ExtInMsgInfo.Dest.AddrStd.Anycast.Value = tlb.Anycast{Depth: 5, RewritePfx: uint32(r.Intn(32))}
		m.Info.ExtInMsgInfo.Src = msgAddrFromSx(sx.L(sx.A("ext"), sx.Bits(randBits(r, r.Intn(70)))))
		m.Info.ExtInMsgInfo.ImportFee = tlb.VarUInteger16(*new(big.Int).SetUint64(r.U64() >> uint(r.Intn(64))))
	case 1:
		extIn()
		m.Init.Exists = true
		m.Init.Value.IsRight = false
		m.Init.Value.Value = mkInit(false)
	case 2:
		extIn()
		m.Init.Exists = true
		m.Init.Value.IsRight = true
		m.Init.Value.Value = mkInit(true)
	case 3:
		extIn()
		m.Init.Exists = true
		m.Init.Value.IsRight = false
		m.Init.Value.Value = mkInit(true)
	case 4:
		extIn()
		m.Info.ExtInMsgInfo.Dest = randMsgAddr(r, false)
		m.Body.IsRight = false
	case 5:
		m.Info.SumType = "IntMsgInfo"
		m.Info.IntMsgInfo = &struct {
			IhrDisabled bool
			Bounce      bool
			Bounced     bool
			Src         tlb.MsgAddress
			Dest        tlb.MsgAddress
			Value       tlb.CurrencyCollection
			IhrFee      tlb.Grams
			FwdFee      tlb.Grams
			CreatedLt   uint64
			CreatedAt   uint32
		}{IhrDisabled: r.Bool(), Bounce: r.Bool(), Bounced: r.Bool(), Src: randMsgAddr(r, false), Dest: std,
			IhrFee: tlb.Grams(r.U64() >> 20), FwdFee: tlb.Grams(r.Intn(1000)), CreatedLt: r.U64(), CreatedAt: uint32(r.U64())}
		m.Info.IntMsgInfo.Value.Grams = tlb.Grams(r.U64() >> uint(r.Intn(64)))
		if r.Bool() {
			m.Info.IntMsgInfo.Value.Other.Dict.Put(tlb.Uint32(r.Intn(1000)), tlb.VarUInteger32(*big.NewInt(int64(r.Intn(1 << 30)))))
		}
	default:
		m.Info.SumType = "ExtOutMsgInfo"
		m.Info.ExtOutMsgInfo = &struct {
			Src       tlb.MsgAddress
			Dest      tlb.MsgAddress
			CreatedLt uint64
			CreatedAt uint32
		}{Src: std, Dest: randMsgAddr(r, false), CreatedLt: r.U64(), CreatedAt: uint32(r.U64())}
	}
	c := boc.NewCell()
	if err := tlb.Marshal(c, m); err != nil {
		return nil, err
	}
	return c, nil
}

// ---- c14.decode

func decodeProj(ver wallet.Version, root *boc.Cell) sx.V {
	msgs := func(ms []wallet.RawMessage) sx.V { return rawMsgs(ms).sx() }
	root = cellFromSx(cellToSx(root)) // fresh read cursors
	switch ver {
	case wallet.V3R1, wallet.V3R2, wallet.V3R2Lockup:
		m, err := wallet.DecodeMessageV3(root)
		if err != nil {
			return sx.A("err")
		}
		return sx.L(sx.N(uint64(m.SubWalletId)), sx.N(uint64(m.ValidUntil)), sx.N(uint64(m.Seqno)), sx.N(0), msgs(m.RawMessages), sx.L())
	case wallet.V4R1, wallet.V4R2:
		m, err := wallet.DecodeMessageV4(root)
		if err != nil {
			return sx.A("err")
		}
		return sx.L(sx.N(uint64(m.SubWalletId)), sx.N(uint64(m.ValidUntil)), sx.N(uint64(m.Seqno)), sx.N(uint64(uint8(m.Op))), msgs(m.RawMessages), sx.L())
	case wallet.V5Beta:
		m, err := wallet.DecodeMessageV5Beta(root)
		if err != nil {
			return sx.A("err")
		}
		s := m.SignedExternal
		if m.SumType == "SignedInternal" {
			s = m.SignedInternal
		}
		id := sx.BigN(new(big.Int).SetBytes(s.WalletId[:]))
		op := uint64(0)
		if s.Op {
			op = 1
		}
		return sx.L(id, sx.N(uint64(s.ValidUntil)), sx.N(uint64(s.Seqno)), sx.N(op), msgs(m.RawMessages()), sx.L())
	case wallet.V5R1:
		m, err := wallet.DecodeMessageV5(root)
		if err != nil {
			return sx.A("err")
		}
		switch m.SumType {
		case "SignedInternal":
			s := m.SignedInternal
			return sx.L(sx.N(uint64(s.WalletId)), sx.N(uint64(s.ValidUntil)), sx.N(uint64(s.Seqno)), sx.N(0), msgs(m.RawMessages()), goExtsSx(s.ExtendedActions))
		case "SignedExternal":
			s := m.SignedExternal
			return sx.L(sx.N(uint64(s.WalletId)), sx.N(uint64(s.ValidUntil)), sx.N(uint64(s.Seqno)), sx.N(0), msgs(m.RawMessages()), goExtsSx(s.ExtendedActions))
		default:
			return sx.L(sx.N(0), sx.N(0), sx.N(0), sx.N(m.ExtensionAction.QueryID), msgs(m.RawMessages()), goExtsSx(m.ExtensionAction.ExtendedActions))
		}
	case wallet.HighLoadV2R2:
		m, err := wallet.DecodeHighloadV2Message(root)
		if err != nil {
			return sx.A("err")
		}
		return sx.L(sx.N(uint64(m.SubWalletId)), sx.N(m.BoundedQueryID>>32), sx.N(0), sx.N(m.BoundedQueryID&0xffffffff), msgs(m.RawMessages), sx.L())
	}
	return sx.A("err")
}

func execC14Decode(in sx.V) sx.V {
	ver := wallet.Version(in.List[0].I())
	root := cellFromSx(in.List[1])
	out := decodeProj(ver, root)
	// ExtractRawMessages must agree with the decoder
	ms, err := wallet.ExtractRawMessages(ver, cellFromSx(in.List[1]))
	if (err != nil) != (out.K != sx.KL) {
		return sx.L(sx.A("harness-error"), sx.A("extract-vs-decode"))
	}
	if err == nil && rawMsgs(ms).sx().String() != out.List[4].String() {
		return sx.L(sx.A("harness-error"), sx.A("extract-vs-decode-msgs"))
	}
	return out
}

func emitDecode(c *Ctx, ver wallet.Version, root *boc.Cell, class string) sx.V {
	return c.Emit("c14.decode", sx.L(sx.Nat(int(ver)), cellToSx(root)), class)
}

// ---- c14.expiry: CreateMessageBody x WithMessageLifetime x explicit / default ValidUntil

func optZsx(p *int64) sx.V {
	if p == nil {
		return sx.L()
	}
	return sx.L(sx.Z(*p))
}

func optZfrom(v sx.V) *int64 {
	if v.K == sx.KL && len(v.List) == 1 && v.List[0].K == sx.KZ {
		x := v.List[0].Int.Int64()
		return &x
	}
	return nil
}

func floorDiv(a, b int64) int64 {
	q := a / b
	if (a%b != 0) && ((a < 0) != (b < 0)) {
		q--
	}
	return q
}

// the expiry a message carries, relative to the clock when no explicit expiry was asked for: the configured
// lifetime in whole seconds when valid_until lies in [before+life, after+life], else the raw distance from `before`
func expiryObserved(valid uint32, explicit bool, lifeNs int64, before, after time.Time) uint64 {
	if explicit {
		return uint64(valid)
	}
	lo, hi := before.Add(time.Duration(lifeNs)).Unix(), after.Add(time.Duration(lifeNs)).Unix()
	for x := lo; x <= hi; x++ {
		if uint32(x) == valid {
			return uint64(uint32(floorDiv(lifeNs, 1000000000)))
		}
	}
	return uint64(valid - uint32(before.Unix()))
}

// (ver pk opts life cfgvalid seqno msgs seed sendables)
func execC14Expiry(in sx.V) sx.V {
	l := in.List
	ver := wallet.Version(l[0].I())
	key := ed25519.NewKeyFromSeed(l[7].Bytes)
	options := woptsFromSx(l[2]).options()
	lifeNs := int64(wallet.DefaultMessageLifetime)
	if p := optZfrom(l[3]); p != nil {
		lifeNs = *p
		options = append(options, wallet.WithMessageLifetime(time.Duration(lifeNs)))
	}
	w, err := wallet.New(key, ver, &fakeChain{}, options...)
	if err != nil {
		return sx.A("err")
	}
	cfg := wallet.MessageConfig{Seqno: uint32(l[5].U64()), V5MsgType: wallet.V5MsgTypeSignedExternal}
	explicit := optZfrom(l[4])
	cfg.ValidUntil = c14TimeRep(explicit, c14RepOf(l, 9)) // c14_r8.go: the representation of the (unset / set) expiry
	var ss []wallet.Sendable
	for _, e := range l[8].List {
		ss = append(ss, sendableFromSx(e).toSendable())
	}
	before := time.Now()
	body, err := w.CreateMessageBody(cfg, ss...)
	after := time.Now()
	if err != nil {
		return sx.A("err")
	}
	em, _ := ton.CreateExternalMessage(w.GetAddress(), body, nil, tlb.VarUInteger16{})
	root := boc.NewCell()
	if tlb.Marshal(root, em) != nil {
		return sx.A("err")
	}
	d := decodeProj(ver, root)
	if d.K != sx.KL {
		return sx.A("err")
	}
	return sx.L(sx.N(expiryObserved(uint32(d.List[1].U64()), explicit != nil, lifeNs, before, after)), d.List[2], sx.Nat(len(d.List[4].List)))
}

// ---- c14.entry: the same Sendables through every sending entry point

var c14Entries = []string{"Send", "SendV2", "RawSend", "RawSendV2", "CreateMessageBody"}

// (ver pk opts entry seqno valid sendables seed) -> (wallet-id seqno ((cell mode) ...) expiry|'default)
func execC14Entry(in sx.V) sx.V {
	l := in.List
	ver := wallet.Version(l[0].I())
	entry := l[3].I()
	chain := &fakeChain{}
	chain.state.Account.SumType = "AccountNone"
	w, err := wallet.New(ed25519.NewKeyFromSeed(l[7].Bytes), ver, chain, woptsFromSx(l[2]).options()...)
	if err != nil {
		return sx.A("err")
	}
	var ss []wallet.Sendable
	var raws []wallet.RawMessage
	for _, e := range l[6].List {
		sd := sendableFromSx(e)
		ss = append(ss, sd.toSendable())
		if entry == 2 || entry == 3 {
			m, err := sd.raw()
			if err != nil {
				return sx.A("err")
			}
			raws = append(raws, m)
		}
	}
	validZ := l[5].Int.Int64()
	seqno, valid := uint32(l[4].U64()), c14TimeRep(&validZ, c14RepOf(l, 8))
	if validZ == -62135596800 && len(l) > 8 {
		valid = c14ZeroRep(c14RepOf(l, 8))
	}
	rand.Seed(1)
	ctx := context.Background()
	var root *boc.Cell
	switch entry {
	case 0:
		err = w.Send(ctx, ss...)
	case 1:
		_, err = w.SendV2(ctx, 0, ss...)
	case 2:
		err = w.RawSend(ctx, seqno, valid, raws, nil)
	case 3:
		_, err = w.RawSendV2(ctx, seqno, valid, raws, nil, 0)
	default:
		var body *boc.Cell
		body, err = w.CreateMessageBody(wallet.MessageConfig{Seqno: seqno, ValidUntil: valid, V5MsgType: wallet.V5MsgTypeSignedExternal}, ss...)
		if err == nil {
			em, _ := ton.CreateExternalMessage(w.GetAddress(), body, nil, tlb.VarUInteger16{})
			root = boc.NewCell()
			if tlb.Marshal(root, em) != nil {
				return sx.A("err")
			}
		}
	}
	if err != nil {
		return sx.A("err")
	}
	if entry < 4 {
		if len(chain.payloads) != 1 {
			return sx.L(sx.A("harness-error"), sx.A("payloads"))
		}
		cells, perr := boc.DeserializeBoc(chain.payloads[0])
		if perr != nil || len(cells) != 1 {
			return sx.L(sx.A("harness-error"), sx.A("payload"))
		}
		root = cells[0]
	}
	d := decodeProj(ver, root)
	if d.K != sx.KL {
		return sx.A("err")
	}
	exp := sx.A("default")
	if entry >= 2 {
		exp = d.List[1]
	}
	return sx.L(d.List[0], d.List[2], d.List[4], exp)
}

var c14Lifetimes = []*int64{nil, i64p(30e9), i64p(1e9), i64p(86400e9), i64p(0), i64p(1500e6), i64p(-5e9), i64p(180e9), i64p(7 * 86400e9)}

func i64p(f float64) *int64 { x := int64(f); return &x }

// ---- generator

type keptMsg struct {
	ver   wallet.Version
	root  *boc.Cell
	pk    ed25519.PublicKey
	small bool
}

func genC14(c *Ctx) {
	r := c.R
	var kept []keptMsg
	mkCase := func(ver wallet.Version, n int, tiny bool) sendCase {
		sc := sendCase{ver: ver, seed: c14Seed(r), opts: randOpts(r), seqno: boundary32(r), valid: boundaryUnix(r),
			msgs: randRawMsgs(r, n, tiny), rseed: int64(r.U64() >> 1)}
		pick := r.Intn(4)
		if tiny && pick == 0 {
			pick = 2 + r.Intn(2) // messages kept for the verification cases carry no wallet code (slow to hash)
		}
		switch pick {
		case 0: // the wallet's own state-init
			w, err := wallet.New(ed25519.NewKeyFromSeed(sc.seed), ver, &fakeChain{}, sc.opts.options()...)
			if err == nil {
				sc.init, _ = w.StateInit()
			}
		case 1: // some other code/data
			var si tlb.StateInit
			si.Code.Exists = true
			si.Code.Value.Value = *randTinyCell(r, 1)
			if r.Bool() {
				si.Data.Exists = true
				si.Data.Value.Value = *randTinyCell(r, 1)
			}
			sc.init = &si
		}
		return sc
	}
	// 1. every version x 0..5 messages (5 is above the limit of v3/v4)
	for _, ver := range c14SendVersions {
		for n := 0; n <= 5; n++ {
			reps := c.Scale(1, 6)
			for k := 0; k < reps; k++ {
				tiny := k == 0
				root, pk := emitSend(c, mkCase(ver, n, tiny), "small")
				if root != nil && tiny {
					kept = append(kept, keptMsg{ver, root, pk, true})
				}
			}
		}
	}
	// 1b. the wallet's own state-init attached
	for _, ver := range c14SendVersions {
		sc := mkCase(ver, r.Intn(3), true)
		if w, err := wallet.New(ed25519.NewKeyFromSeed(sc.seed), ver, &fakeChain{}, sc.opts.options()...); err == nil {
			sc.init, _ = w.StateInit()
		}
		emitSend(c, sc, "own-init")
	}
	// 2. the limits of the big versions.  The implementation is checked at max-1, max, max+1
	// by the oracles of emitSend; the slow model is run on max+1 (refused) for all, and on max
	// for one version per seed (all in the thorough tier).
	bigs := []wallet.Version{wallet.V5Beta, wallet.V5R1, wallet.HighLoadV2R2}
	for bi, ver := range bigs {
		max := c14Max(ver)
		for _, n := range []int{max - 1, max, max + 1, max + 2} {
			sc := mkCase(ver, n, true)
			sc.init = nil
			if n > max || c.Thorough() || (n == max && int(c.Seed%3) == bi) {
				root, _ := emitSend(c, sc, "limit")
				if n == max && root != nil {
					emitDecode(c, ver, root, fmt.Sprintf("decode|limit|v%d", int(ver)))
				}
			} else {
				implOnlySend(c, sc)
			}
		}
		mids := []int{6 + r.Intn(20)}
		if c.Thorough() {
			mids = []int{6, 17, 33, 64, 100, 128, 129}
		}
		for _, n := range mids {
			root, pk := emitSend(c, mkCase(ver, n, true), "mid")
			if root != nil {
				kept = append(kept, keptMsg{ver, root, pk, false})
			}
		}
	}
	// 3. versions that cannot send
	for _, ver := range []wallet.Version{wallet.V3R2Lockup, wallet.HighLoadV1R1, wallet.HighLoadV2, wallet.Version(17), wallet.Version(40)} {
		sc := mkCase(ver, 1, true)
		sc.init = nil
		key := ed25519.NewKeyFromSeed(sc.seed)
		in := sc.input(key.Public().(ed25519.PublicKey), 0, make([]byte, 64), make([]byte, 32))
		c.Emit("c14.send", in, fmt.Sprintf("send|unsupported|v%d", int(ver)))
	}
	// 4. CreateMessageBody with Sendables: all V5 message types, internal messages of every flavour
	nb := c.Scale(40, 500)
	for i := 0; i < nb; i++ {
		ver := c14SendVersions[r.Intn(len(c14SendVersions))]
		n := r.Intn(5)
		if r.Chance(10) {
			n = 5 + r.Intn(4)
		}
		var ms rawMsgs
		var ssx []sx.V
		bad := false
		for k := 0; k < n; k++ {
			s := randSendable(r)
			m, err := s.raw()
			if err != nil {
				if s.kind == 2 && (s.code == nil || s.data == nil) {
					ssx = append(ssx, s.sx()) // "code and data must be set": the whole CreateMessageBody must fail
					continue
				}
				c.Fail("c14.body", s.sx(), "c14-sendable-failed", "ToInternal / Marshal of a valid Sendable failed: "+err.Error())
				bad = true
				break
			}
			if what := s.carriedWrong(m); what != "" {
				c.Fail("c14.body", s.sx(), "c14-transfer-fields", "the carried internal message differs from the requested transfer: "+what)
			}
			ms = append(ms, m)
			ssx = append(ssx, s.sx())
		}
		if bad {
			continue
		}
		seed := c14Seed(r)
		key := ed25519.NewKeyFromSeed(seed)
		pk := key.Public().(ed25519.PublicKey)
		opts := randOpts(r)
		mt := []uint32{0x7369676e, 0x73696e74, 0x6578746e, 0, 0xffffffff}[r.Intn(5)]
		seqno, valid, rseed := boundary32(r), boundaryUnix(r), int64(r.U64()>>1)
		mkIn := func(sig []byte) sx.V {
			return sx.L(sx.Nat(int(ver)), sx.Bytes(pk), opts.sx(), sx.N(uint64(seqno)), sx.Z(valid), ms.sx(), sx.N(uint64(mt)),
				sx.N(uint64(rndOf(rseed))), sx.Bytes(sig), sx.Bytes(seed), sx.Z(rseed), sx.L(ssx...), sx.L())
		}
		// dry run for the signature column
		sig := make([]byte, 64)
		dry := execC14Body(mkIn(sig))
		if dry.K == sx.KL {
			bits := dry.List[1].Bits
			sb := bits[:512]
			if sigAppended(ver) {
				sb = bits[len(bits)-512:]
			}
			for j, ch := range sb {
				if ch == '1' {
					sig[j/8] |= 1 << uint(7-j%8)
				}
			}
		}
		c.Emit("c14.body", mkIn(sig), fmt.Sprintf("body|v%d|n=%s|mt=%x", int(ver), sizeBucket(n, 4), mt))
	}
	// 5. verification: own key, other key, wrong key length, bit flips; decoding
	for i, k := range kept {
		out := emitVerify(c, k.ver, k.root, k.pk, fmt.Sprintf("verify|own|v%d", int(k.ver)))
		if out.Head() != "ok" {
			c.Fail("c14.verify", cellToSx(k.root), "c14-own-key-rejected", "built message rejected under the wallet's key")
		}
		other := ed25519.NewKeyFromSeed(r.Bytes(32)).Public().(ed25519.PublicKey)
		out = emitVerify(c, k.ver, k.root, other, fmt.Sprintf("verify|other|v%d", int(k.ver)))
		if out.Head() != "badsig" {
			c.Fail("c14.verify", cellToSx(k.root), "c14-other-key-accepted", "built message accepted under another key")
		}
		emitDecode(c, k.ver, k.root, fmt.Sprintf("decode|own|v%d", int(k.ver)))
		if !k.small && !c.Thorough() {
			flipOracle(c, k.ver, k.root, k.pk, 0)
			continue
		}
		if i%5 == 0 {
			emitVerify(c, k.ver, k.root, k.pk[:31], fmt.Sprintf("verify|shortkey|v%d", int(k.ver)))
		}
		flipOracle(c, k.ver, k.root, k.pk, c.Scale(2, 12))
		if i%7 == 0 {
			// versions VerifySignature does not support (v5 beta among them) and the lockup wallet (v3 layout)
			for _, uv := range []wallet.Version{wallet.V5Beta, wallet.V1R1, wallet.V3R2Lockup, wallet.HighLoadV2} {
				in := sx.L(sx.Nat(int(uv)), cellToSx(k.root), sx.Bytes(k.pk), sx.L())
				if row, ok := oracleRow(k.pk, lastRef(k.root), false); ok {
					in = sx.L(sx.Nat(int(uv)), cellToSx(k.root), sx.Bytes(k.pk), sx.L(row))
				}
				c.Emit("c14.verify", in, fmt.Sprintf("verify|other-version|v%d", int(uv)))
			}
		}
		// the same message checked as another version
		ov := c14SendVersions[r.Intn(len(c14SendVersions))]
		emitVerify(c, ov, k.root, k.pk, "verify|cross-version")
		emitDecode(c, ov, k.root, "decode|cross-version")
	}
	// 5b. v5r1 with extended actions (add / remove extension, set signature auth): body, message, verification,
	// bit flips, decoding
	for n := 0; n <= 4; n++ {
		for rep := 0; rep < c.Scale(2, 10); rep++ {
			seed := c14Seed(r)
			key := ed25519.NewKeyFromSeed(seed)
			pk := key.Public().(ed25519.PublicKey)
			opts := randOpts(r)
			ms := randRawMsgs(r, r.Intn(4), true)
			xs := randExts(r, n)
			mt := []uint32{0x7369676e, 0x7369676e, 0x73696e74, 0x6578746e}[r.Intn(4)]
			seqno, valid := boundary32(r), boundaryUnix(r)
			mkIn := func(sig []byte) sx.V {
				return sx.L(sx.Nat(int(wallet.V5R1)), sx.Bytes(pk), opts.sx(), sx.N(uint64(seqno)), sx.Z(valid), ms.sx(), sx.N(uint64(mt)),
					sx.N(0), sx.Bytes(sig), sx.Bytes(seed), sx.Z(0), sx.L(), extsSx(xs))
			}
			sig := make([]byte, 64)
			dry := execC14Body(mkIn(sig))
			if dry.K == sx.KL {
				bits := dry.List[1].Bits
				for j, ch := range bits[len(bits)-512:] {
					if ch == '1' {
						sig[j/8] |= 1 << uint(7-j%8)
					}
				}
			}
			in := mkIn(sig)
			out := c.Emit("c14.body", in, fmt.Sprintf("bodyx|ext=%d|mt=%x", n, mt))
			if out.K != sx.KL {
				// a long addr_var / addr_extern may not fit the body cell; anything else is a failure
				continue
			}
			if mt != 0x7369676e {
				continue
			}
			// the message around that body
			w5 := wallet.NewWalletV5R1(pk, wallet.Options{NetworkGlobalID: opts.net, Workchain: opts.wc, SubWalletID: opts.sub})
			exts := wallet.W5ExtendedActions{}
			for _, x := range xs {
				exts = append(exts, x.toGo())
			}
			body, err := w5.CreateSignedMsgBodyCell(key, ms, &exts, wallet.MessageConfig{Seqno: seqno, ValidUntil: time.Unix(valid, 0), V5MsgType: wallet.V5MsgTypeSignedExternal})
			if err != nil {
				continue
			}
			var dest ton.AccountID
			copy(dest.Address[:], r.Bytes(32))
			em, _ := ton.CreateExternalMessage(dest, body, nil, tlb.VarUInteger16{})
			root := boc.NewCell()
			if tlb.Marshal(root, em) != nil {
				continue
			}
			vo := emitVerify(c, wallet.V5R1, root, pk, fmt.Sprintf("verify|ext-actions|n=%d", n))
			if vo.Head() != "ok" {
				c.Fail("c14.verify", in, "c14-own-key-rejected", "v5r1 message with extended actions rejected under its key")
			}
			flipOracle(c, wallet.V5R1, root, pk, c.Scale(1, 4))
			do := emitDecode(c, wallet.V5R1, root, fmt.Sprintf("decode|ext-actions|n=%d", n))
			if n > 0 {
				if do.K != sx.KL || do.List[5].String() != extsSx(xs).String() || do.List[4].String() != ms.sx().String() {
					c.Fail("c14.decode", in, "c14-ext-roundtrip", "decoding does not return the requested extended actions and messages")
				}
			}
		}
	}
	// 5c. the same signed body under other envelopes: anycast / external source / import fee, init inline, init
	// with libraries, body inline, internal message, external-out message
	for i, k := range kept {
		if !k.small || k.ver == wallet.V5Beta || (i%3 != 0 && !c.Thorough()) {
			continue
		}
		body := bodyOf(k.root)
		if body == nil {
			continue
		}
		var dest ton.AccountID
		copy(dest.Address[:], r.Bytes(32))
		want := decodeProj(k.ver, k.root).String()
		for variant := 0; variant <= 6; variant++ {
			if !c.Thorough() && (i/3+variant)%2 == 1 {
				continue
			}
			root, err := envelopeVariant(r, variant, body, dest)
			if err != nil {
				continue // does not fit one cell
			}
			vo := emitVerify(c, k.ver, root, k.pk, fmt.Sprintf("verify|envelope%d|v%d", variant, int(k.ver)))
			if vo.Head() != "ok" {
				c.Fail("c14.verify", cellToSx(root), "c14-envelope-verify", fmt.Sprintf("own body under envelope variant %d is not accepted", variant))
			}
			do := emitDecode(c, k.ver, root, fmt.Sprintf("decode|envelope%d|v%d", variant, int(k.ver)))
			if do.String() != want {
				c.Fail("c14.decode", cellToSx(root), "c14-envelope-decode", fmt.Sprintf("own body under envelope variant %d decodes differently", variant))
			}
		}
	}
	// 5d. the default expiry: CreateMessageBody on wallets created with / without WithMessageLifetime, explicit and
	// zero ValidUntil; and the same wallet object through SendV2: both entry points must use the configured lifetime
	for vi, ver := range c14SendVersions {
		for li, life := range c14Lifetimes {
			if !c.Thorough() && (li+vi)%3 != 0 && li > 1 {
				continue
			}
			for _, explicit := range []bool{false, true} {
				if explicit && li%4 != 0 && !c.Thorough() {
					continue
				}
				seed := c14Seed(r)
				pk := ed25519.NewKeyFromSeed(seed).Public().(ed25519.PublicKey)
				opts := randOpts(r)
				var ms rawMsgs
				var ssx []sx.V
				for k := r.Intn(3); k > 0; k-- {
					sd := randSendable(r)
					if m, err := sd.raw(); err == nil {
						ms = append(ms, m)
						ssx = append(ssx, sd.sx())
					}
				}
				var cfg *int64
				if explicit {
					v := boundaryUnix(r)
					if v == -62135596800 {
						v = 1
					}
					cfg = &v
				}
				in := sx.L(sx.Nat(int(ver)), sx.Bytes(pk), opts.sx(), optZsx(life), optZsx(cfg), sx.N(uint64(boundary32(r))), ms.sx(),
					sx.Bytes(seed), sx.L(ssx...))
				lifeName := "default"
				if life != nil {
					lifeName = fmt.Sprintf("%ds", *life/1000000000)
				}
				out := c.Emit("c14.expiry", in, fmt.Sprintf("expiry|v%d|life=%s|explicit=%v", int(ver), lifeName, explicit))
				lifeNs := int64(wallet.DefaultMessageLifetime)
				if life != nil {
					lifeNs = *life
				}
				if out.K != sx.KL {
					c.Fail("c14.expiry", in, "c14-create-body-failed", "CreateMessageBody failed")
					continue
				}
				want := uint64(uint32(floorDiv(lifeNs, 1000000000)))
				if explicit {
					want = uint64(uint32(*cfg))
				}
				if out.List[0].U64() != want {
					c.Fail("c14.expiry", in, "c14-default-expiry", fmt.Sprintf("CreateMessageBody signs expiry %d (relative to the clock for a default expiry), the wallet's configuration requires %d", out.List[0].U64(), want))
				}
				if explicit {
					continue
				}
				// the same wallet object through SendV2: the other consumer of the lifetime option
				options := opts.options()
				if life != nil {
					options = append(options, wallet.WithMessageLifetime(time.Duration(*life)))
				}
				chain := &fakeChain{}
				chain.state.Account.SumType = "AccountNone"
				w, err := wallet.New(ed25519.NewKeyFromSeed(seed), ver, chain, options...)
				if err != nil {
					continue
				}
				before := time.Now()
				_, err = w.SendV2(context.Background(), 0)
				after := time.Now()
				if err != nil || len(chain.payloads) != 1 {
					c.Fail("c14.expiry", in, "c14-default-expiry", "SendV2 did not send")
					continue
				}
				cells, _ := boc.DeserializeBoc(chain.payloads[0])
				if d := decodeProj(ver, cells[0]); d.K != sx.KL || expiryObserved(uint32(d.List[1].U64()), false, lifeNs, before, after) != want {
					c.Fail("c14.expiry", in, "c14-default-expiry", "SendV2 and CreateMessageBody of one wallet disagree on the default expiry")
				}
			}
		}
	}
	genC14R8(c) // 5d'. the expiry in every representation of the same instant (c14_r8.go)
	// 5e. zero is a value, not "unset": the same Sendables through Send, SendV2, RawSend, RawSendV2 and CreateMessageBody;
	// explicit zeros everywhere (mode 0, amount 0, bounce false, workchain 0, sub-wallet 0, network id 0, seqno 0,
	// valid_until 0) and random mixes; the carried (cell, mode) lists must equal the request and each other
	for vi, ver := range c14SendVersions {
		for rep := 0; rep < c.Scale(2, 8); rep++ {
			seed := c14Seed(r)
			pk := ed25519.NewKeyFromSeed(seed).Public().(ed25519.PublicKey)
			opts := randOpts(r)
			seqno, valid := boundary32(r), boundaryUnix(r)
			var sds []sendable
			n := 1 + r.Intn(3)
			for len(sds) < n {
				sd := randSendable(r)
				if _, err := sd.raw(); err == nil {
					sds = append(sds, sd)
				}
			}
			if rep == 0 { // everything explicitly zero
				z, zu, zn := 0, uint32(0), int32(0)
				opts = wopts{wc: &z, sub: &zu, net: &zn}
				seqno, valid = 0, 0
				sds = []sendable{{kind: 0, amount: 0, wc: 0, addr: make([]byte, 32), bounce: false, mode: 0},
					{kind: 0, amount: 1, wc: 0, addr: r.Bytes(32), bounce: true, mode: 3},
					{kind: 0, amount: 0, wc: -1, addr: r.Bytes(32), bounce: false, mode: 0, body: boc.NewCell()}}
			}
			if valid == -62135596800 {
				valid = 0
			}
			var ssx []sx.V
			var want rawMsgs
			for _, sd := range sds {
				ssx = append(ssx, sd.sx())
				m, _ := sd.raw()
				want = append(want, m)
			}
			var outs []string
			for entry := range c14Entries {
				if !c.Thorough() && rep > 0 && (entry+vi+rep)%2 == 1 {
					continue
				}
				in := sx.L(sx.Nat(int(ver)), sx.Bytes(pk), opts.sx(), sx.Nat(entry), sx.N(uint64(seqno)), sx.Z(valid), sx.L(ssx...), sx.Bytes(seed))
				out := c.Emit("c14.entry", in, fmt.Sprintf("entry|%s|v%d|zero=%v", c14Entries[entry], int(ver), rep == 0))
				if out.K != sx.KL {
					c.Fail("c14.entry", in, "c14-entry-failed", c14Entries[entry]+" failed on valid Sendables")
					continue
				}
				if out.List[2].String() != want.sx().String() {
					c.Fail("c14.entry", in, "c14-entry-modes", c14Entries[entry]+": the carried (message, mode) list differs from the requested one: "+trunc(out.List[2].String(), 200))
				}
				outs = append(outs, out.List[2].String())
			}
			for _, o := range outs {
				if o != outs[0] {
					c.Fail("c14.entry", sx.L(ssx...), "c14-entry-siblings", "the entry points carry different message lists for the same Sendables")
				}
			}
		}
	}
	// 6. malformed bodies under a valid envelope
	for i, k := range kept {
		if (i%5 != 0 || !k.small) && !c.Thorough() {
			continue
		}
		body := lastRef(k.root)
		bits := cellBits(body)
		cuts := []int{0, 31, 511, 512, 513, 607, 608, 640, len(bits) - 1}
		for _, cut := range cuts {
			if cut < 0 || cut > len(bits) {
				continue
			}
			m := withBody(k.root, cellWith(bits[:cut], body.Refs()))
			emitVerify(c, k.ver, m, k.pk, fmt.Sprintf("verify|truncated|v%d", int(k.ver)))
			emitDecode(c, k.ver, m, fmt.Sprintf("decode|truncated|v%d", int(k.ver)))
		}
		// dropped references
		if rs := body.Refs(); len(rs) > 0 {
			m := withBody(k.root, cellWith(bits, rs[:len(rs)-1]))
			emitDecode(c, k.ver, m, fmt.Sprintf("decode|dropped-ref|v%d", int(k.ver)))
			emitVerify(c, k.ver, m, k.pk, fmt.Sprintf("verify|dropped-ref|v%d", int(k.ver)))
		}
		// random body
		m := withBody(k.root, randTinyCell(r, 2))
		emitDecode(c, k.ver, m, fmt.Sprintf("decode|random-body|v%d", int(k.ver)))
		emitVerify(c, k.ver, m, k.pk, fmt.Sprintf("verify|random-body|v%d", int(k.ver)))
	}
}
