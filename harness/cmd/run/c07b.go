package main

// C07, second part: oracles that only the implementation decides (real
// allocation, printing / hashing / re-serialising of the parsed cells) and the
// generator families that aim at them.  Everything that touches untrusted bytes
// runs in the guarded child (address-space limit, timeout); the generator
// process itself never parses, prints or hashes such an input.

import (
	"fmt"
	"os"
	"runtime"
	"strings"
	"time"

	"github.com/tonkeeper/tongo/boc"

	"verifharness/prng"
	"verifharness/sx"
)

// ---------------------------------------------------------------------------
// bounds (measured on the unchanged tree, see bin/props.d/C07.notes.txt)

const (
	// real heap bytes allocated by boc.DeserializeBoc (runtime TotalAlloc
	// delta) must stay below c07AllocPerByte*len(input) + c07AllocSlack.
	// Worst case of the unchanged code: a BOC of n empty cells (2 input bytes
	// each) costs 393 bytes per cell = 197 bytes per input byte (family
	// "empty-cells"); maximum over the other generated inputs 101 bytes per
	// input byte, 4664 bytes for inputs shorter than 64 bytes.  The theorem
	// C07_parse_alloc_linear bounds the modelled make() capacities by 640*len.
	// Factor 5 on the slope, fixed slack (factor 7) for small inputs.
	c07AllocPerByte = 1024
	c07AllocSlack   = 32768
	// Cell.ToString: the documented visit budget is BOCSizeLimit = 65536
	// visited cells; a visited cell prints its own line and starts its (at most
	// 4) children, a child started with an exhausted budget still prints one
	// line: at most 1 + 4*65536 = 262145 lines (C07_print_bounded), and in fact
	// at most budget + 1 + 3 per frame of the recursion stack (65697 lines is
	// the maximum over all generated inputs: the 60-cell 4-fold chain).
	// Bound with a factor 2 on the latter: 2*65536 + 8*cells + 2, where cells
	// is the number of distinct cells under the root (>= depth).
	c07PrintBudget = 65536
	// one printed line is indentation (<= depth <= number of cells of the BOC,
	// itself <= len(input)) + "!x{" + <= 256 hex digits + "_}\n"
	c07PrintLineOverhead = 264
	// Cell.ToBoc of a parsed root: never larger than the input it came from
	// plus a constant header (measured maximum: output = input + 0, the
	// serialiser uses minimal widths and drops index, hashes and CRC)
	c07ReserFactor = 2
	c07ReserSlack  = 64
	// per call limits in the guarded child
	c07AllocTimeout = 20 * time.Second
	c07PrintTimeout = 10 * time.Second
	// c07.lines cases (line count of ToString compared with the Coq model of the
	// budgeted traversal) need `else if is "c07.lines" then H07p.run_lines a` in
	// coq/Harness/Dispatch.v; off until the integrator has added it.
	c07EmitLines = true
	// after this many crashes/timeouts of an oracle kind the remaining calls of
	// that kind are skipped (every one of them would cost a full timeout)
	c07MaxHangs = 3
)

// ---------------------------------------------------------------------------
// exec kinds (oracle only: never Emit-ted, the model does not predict them)

// c07.alloc: bytes -> (heap-bytes-allocated-by-DeserializeBoc 'ok|'err)
func execC07Alloc(in sx.V) sx.V {
	data := in.Bytes
	var m0, m1 runtime.MemStats
	runtime.ReadMemStats(&m0)
	cells, err := boc.DeserializeBoc(data)
	runtime.ReadMemStats(&m1)
	runtime.KeepAlive(cells)
	oc := "ok"
	if err != nil {
		oc = "err"
	}
	return sx.L(sx.N(m1.TotalAlloc-m0.TotalAlloc), sx.A(oc))
}

// c07.print: bytes -> 'err | ((wf cells lines bytes hash boclen reparse) per root)
//
//	wf      'ok | 'malformed-cell | 'nil-ref | 'too-deep
//	cells   number of distinct cells reachable from the root
//	lines   number of lines of ToString(), bytes its length
//	hash    'ok | 'err | 'panic   (Hash of a malformed exotic cell may fail)
//	boclen  length of ToBoc() (0 when hash is not 'ok or ToBoc failed)
//	reparse 'ok | 'fail | 'skip
//
// A panic in ToString propagates (result 'panic).
func execC07Print(in sx.V) sx.V {
	cells, err := boc.DeserializeBoc(in.Bytes)
	if err != nil {
		return sx.A("err")
	}
	var outs []sx.V
	for _, root := range cells {
		wf := "ok"
		seen := map[*boc.Cell]bool{}
		var walk func(x *boc.Cell, depth int) bool
		walk = func(x *boc.Cell, depth int) bool {
			if depth > 70000 {
				wf = "too-deep"
				return false
			}
			if seen[x] {
				return true
			}
			seen[x] = true
			if x.BitSize() > 1023 || x.RefsSize() > 4 {
				wf = "malformed-cell"
				return false
			}
			for _, ch := range x.Refs() {
				if ch == nil {
					wf = "nil-ref"
					return false
				}
				if !walk(ch, depth+1) {
					return false
				}
			}
			return true
		}
		walk(root, 0)
		s := root.ToString()
		lines, size := strings.Count(s, "\n"), len(s)
		s = ""
		hash, boclen, reparse := c07HashAndBoc(root)
		outs = append(outs, sx.L(sx.A(wf), sx.Nat(len(seen)), sx.Nat(lines), sx.Nat(size), sx.A(hash), sx.Nat(boclen), sx.A(reparse)))
	}
	return sx.L(outs...)
}

// c07.lines: bytes -> 'err | (number of lines of ToString() per root); compared
// with the model of the budgeted traversal (coq/Model/CellPrint.v) when
// c07EmitLines is set.
func execC07Lines(in sx.V) sx.V {
	cells, err := boc.DeserializeBoc(in.Bytes)
	if err != nil {
		return sx.A("err")
	}
	var outs []sx.V
	for _, root := range cells {
		outs = append(outs, sx.Nat(strings.Count(root.ToString(), "\n")))
	}
	return sx.L(outs...)
}

// c07Record files a case whose implementation result is already known (it was
// computed in the guarded child by an oracle exec) for comparison with the
// model, without executing it a second time.
func c07Record(c *Ctx, kind string, in, out sx.V, class string) {
	ins, outs := in.String(), out.String()
	fmt.Fprintf(c.cases, "%s %s\n", kind, ins)
	fmt.Fprintf(c.impl, "%s\n", outs)
	k := kind + "|" + class + "|ok"
	c.classes[k]++
	if _, ok := c.samples[k]; !ok && len(ins) < 400 {
		c.samples[k] = kind + " " + ins + " => " + trunc(outs, 200)
	}
	c.n++
}

func c07HashAndBoc(root *boc.Cell) (hash string, boclen int, reparse string) {
	hash, reparse = "ok", "skip"
	defer func() {
		if r := recover(); r != nil {
			// malformed exotic cells may legitimately make Hash fail
			hash, boclen, reparse = "panic", 0, "skip"
		}
	}()
	if _, err := root.Hash(); err != nil {
		return "err", 0, "skip"
	}
	b, err := root.ToBoc()
	if err != nil {
		return "ok", 0, "skip"
	}
	back, err := boc.DeserializeBoc(b)
	if err != nil || len(back) != 1 {
		return "ok", len(b), "fail"
	}
	return "ok", len(b), "ok"
}

// ---------------------------------------------------------------------------
// generator side

type c07Stats struct {
	allocHangs, printHangs, shareHangs int
	// calibration (written to $VERIF_C07_STATS when set)
	maxSlopeNum, maxSlopeLen uint64 // input with the largest alloc/len among len >= 64
	maxSmall                 uint64 // largest alloc among len < 64
	maxLines, maxPrintBytes  int
	maxReserExcess           int
	maxPrintMs, maxAllocMs   int64
	nAlloc, nPrint           int
}

var c07st c07Stats

func isAtom(v sx.V, names ...string) bool {
	for _, n := range names {
		if v.IsA(n) {
			return true
		}
	}
	return false
}

// c07Oracle evaluates the implementation-only oracles for one input whose
// c07.parse outcome (from the guarded child) is out.  An input that crashed,
// hung or panicked there is reported and never executed again.
func c07Oracle(c *Ctx, in sx.V, out sx.V) { c07OracleOpt(c, in, out, true) }

// c07OracleOpt: withAlloc = false skips the allocation measurement (sampling
// of the plain substitution stream in the quick tier).
func c07OracleOpt(c *Ctx, in sx.V, out sx.V, withAlloc bool) {
	switch {
	case isAtom(out, "crash"):
		c.Fail("c07.parse", in, "parse-crash", "boc.DeserializeBoc killed the process (fatal runtime error: out of memory / stack overflow) on this input")
		return
	case isAtom(out, "timeout"):
		c.Fail("c07.parse", in, "parse-timeout", "boc.DeserializeBoc (plus hashing of the roots) did not return within 20 s on this input")
		return
	case isAtom(out, "panic"):
		c.Fail("c07.parse", in, "parse-panic", "boc.DeserializeBoc panicked on this input")
		return
	}
	if withAlloc {
		c07AllocOracle(c, in)
	}
	// the caller's buffer / second parse / other entry points: every input
	// that parses, and (quick tier) one rejected input in four
	c07as.errN++
	if !isAtom(out, "err") || c.Thorough() || c07as.errN%4 == 0 {
		c07AliasOracle(c, in)
	}
	if !isAtom(out, "err") {
		c07PrintOracle(c, in, &c07st.printHangs)
		c07HashOracleH(c, in, 0, &c07hs.genericHangs)
	}
}

func c07AllocOracle(c *Ctx, in sx.V) {
	if c07st.allocHangs >= c07MaxHangs {
		return
	}
	n := uint64(len(in.Bytes))
	bound := c07AllocPerByte*n + c07AllocSlack
	var got uint64
	// measured twice when the first measurement is over the bound: anything the
	// runtime may have allocated on its own in the window must not raise an alarm
	for attempt := 0; attempt < 2; attempt++ {
		t0 := time.Now()
		res := c07Timed("c07.alloc", in, c07AllocTimeout)
		if ms := time.Since(t0).Milliseconds(); ms > c07st.maxAllocMs {
			c07st.maxAllocMs = ms
		}
		if isAtom(res, "crash", "timeout", "panic") {
			c07st.allocHangs++
			c.Fail("c07.alloc", in, "alloc-"+res.Atom, "boc.DeserializeBoc ended with '"+res.Atom+" while its allocation was being measured")
			return
		}
		if res.K != sx.KL || len(res.List) != 2 || res.List[0].K != sx.KN {
			c.Fail("c07.alloc", in, "harness-error", "unexpected answer of the c07.alloc exec: "+trunc(res.String(), 100))
			return
		}
		got = res.List[0].U64()
		if got <= bound {
			break
		}
	}
	c07st.nAlloc++
	if n >= 64 {
		if got*c07st.maxSlopeLen > c07st.maxSlopeNum*n || c07st.maxSlopeLen == 0 {
			c07st.maxSlopeNum, c07st.maxSlopeLen = got, n
		}
	} else if got > c07st.maxSmall {
		c07st.maxSmall = got
	}
	if got > bound {
		c.Fail("c07.alloc", in, "alloc-out-of-proportion",
			fmt.Sprintf("boc.DeserializeBoc allocated %d heap bytes for a %d-byte input (bound %d*len+%d = %d)", got, n, c07AllocPerByte, c07AllocSlack, bound))
	}
}

// c07PrintOracle: ToString / Hash / ToBoc of every parsed root terminate, do
// not crash, and stay within the documented budget.  Returns false when the
// call crashed or hung.
func c07PrintOracle(c *Ctx, in sx.V, hangs *int) bool {
	_, ok := c07PrintOracleLines(c, in, hangs)
	return ok
}

// c07PrintOracleLines additionally returns the number of printed lines per
// root (nil when the input does not parse or the call failed).
func c07PrintOracleLines(c *Ctx, in sx.V, hangs *int) (perRoot []sx.V, ok bool) {
	if *hangs >= c07MaxHangs {
		return nil, false
	}
	t0 := time.Now()
	res := c07Timed("c07.print", in, c07PrintTimeout)
	if ms := time.Since(t0).Milliseconds(); ms > c07st.maxPrintMs {
		c07st.maxPrintMs = ms
	}
	n := len(in.Bytes)
	switch {
	case isAtom(res, "timeout"):
		*hangs++
		c.Fail("c07.print", in, "print-timeout", fmt.Sprintf("ToString/Hash/ToBoc of the cells parsed from this %d-byte BOC did not finish within %v", n, c07PrintTimeout))
		return nil, false
	case isAtom(res, "crash"):
		*hangs++
		c.Fail("c07.print", in, "print-unbounded", fmt.Sprintf("ToString/Hash/ToBoc of the cells parsed from this %d-byte BOC killed the process (out of memory / stack overflow)", n))
		return nil, false
	case isAtom(res, "panic"):
		c.Fail("c07.print", in, "print-panic", "ToString of a parsed cell panicked")
		return nil, false
	case isAtom(res, "err"):
		return nil, true
	}
	if res.K != sx.KL {
		c.Fail("c07.print", in, "harness-error", "unexpected answer of the c07.print exec: "+trunc(res.String(), 100))
		return nil, true
	}
	c07st.nPrint++
	for _, ri := range res.List {
		if ri.K != sx.KL || len(ri.List) != 7 {
			c.Fail("c07.print", in, "harness-error", "unexpected answer of the c07.print exec: "+trunc(res.String(), 100))
			return nil, true
		}
		wf, cells, lines, size := ri.List[0], ri.List[1].I(), ri.List[2].I(), ri.List[3].I()
		boclen, reparse := ri.List[5].I(), ri.List[6]
		switch {
		case wf.IsA("malformed-cell"):
			c.Fail("c07.parse", in, "malformed-cell", "parser returned a cell with more than 1023 bits or 4 refs")
		case wf.IsA("nil-ref"):
			c.Fail("c07.parse", in, "nil-ref", "parser returned a cell with a missing reference")
		case wf.IsA("too-deep"):
			c.Fail("c07.parse", in, "too-deep", "parser returned a cell tree deeper than 70000")
		}
		if lines > c07st.maxLines {
			c07st.maxLines = lines
		}
		if size > c07st.maxPrintBytes {
			c07st.maxPrintBytes = size
		}
		if maxLines := 2*c07PrintBudget + 8*cells + 2; lines > maxLines {
			c.Fail("c07.print", in, "print-unbounded",
				fmt.Sprintf("ToString of a cell parsed from this %d-byte BOC (%d cells) printed %d lines (%d bytes); the visit budget BOCSizeLimit=65536 allows at most 65537 + 3*depth (bound 2*65536+8*cells+2 = %d)", n, cells, lines, size, maxLines))
		} else if size > lines*(cells+c07PrintLineOverhead) {
			c.Fail("c07.print", in, "print-unbounded",
				fmt.Sprintf("ToString of a cell parsed from this %d-byte BOC (%d cells) printed %d bytes in %d lines: more than cells+%d bytes per line", n, cells, size, lines, c07PrintLineOverhead))
		}
		if reparse.IsA("fail") {
			c.Fail("c07.parse", in, "reserialize", "re-serialised output of a parsed cell does not parse")
		}
		if ex := boclen - n; ex > c07st.maxReserExcess {
			c07st.maxReserExcess = ex
		}
		perRoot = append(perRoot, sx.Nat(lines))
		if boclen > c07ReserFactor*n+c07ReserSlack {
			c.Fail("c07.print", in, "reserialize-out-of-proportion",
				fmt.Sprintf("ToBoc of a cell parsed from this %d-byte BOC produced %d bytes (bound %d*len+%d)", n, boclen, c07ReserFactor, c07ReserSlack))
		}
	}
	return perRoot, true
}

func c07DumpStats() {
	p := os.Getenv("VERIF_C07_STATS")
	if p == "" {
		return
	}
	s := c07st
	slope := 0.0
	if s.maxSlopeLen > 0 {
		slope = float64(s.maxSlopeNum) / float64(s.maxSlopeLen)
	}
	_ = os.WriteFile(p, []byte(fmt.Sprintf(
		"alloc calls %d, max alloc/len (len>=64) %.1f (%d bytes / %d), max alloc for len<64 %d, max alloc call %d ms\n"+
			"print calls %d, max lines %d, max printed bytes %d, max (ToBoc len - input len) %d, max print call %d ms\n"+
			"hangs: alloc %d, print %d\n",
		s.nAlloc, slope, s.maxSlopeNum, s.maxSlopeLen, s.maxSmall, s.maxAllocMs,
		s.nPrint, s.maxLines, s.maxPrintBytes, s.maxReserExcess, s.maxPrintMs, s.allocHangs, s.printHangs+s.shareHangs)+c07HashStatsString()+c07AliasStatsString()+c07SpentString()), 0o644)
}

// ---------------------------------------------------------------------------
// family "consistent-huge": header counters that are huge and agree with each
// other (a bound of one unvalidated counter by another one lets them through),
// in front of a tiny body.

func c07ConsistentHuge(c *Ctx, r *prng.R) {
	ks := []uint{8, 16, 20, 24, 31, 32, 40, 48, 55}
	maxOf := func(nbytes int) uint64 {
		if nbytes >= 8 {
			return ^uint64(0)
		}
		return uint64(1)<<(8*uint(nbytes)) - 1
	}
	addU := func(l []uint64, v uint64) []uint64 {
		for _, x := range l {
			if x == v {
				return l
			}
		}
		return append(l, v)
	}
	be := func(v uint64, n int) []byte { return putBE(nil, v, n) }
	variant := 0
	build := func(size, off int, cells, roots, absent, tot uint64, body []byte) []byte {
		variant++
		var b []byte
		switch {
		case variant%16 == 7:
			b = []byte{0x68, 0xff, 0x65, 0xf3, byte(size)} // lean magic: index implied
		case variant%16 == 15:
			b = []byte{0xac, 0xc3, 0xa7, 0x28, byte(size)} // lean magic with CRC
		default:
			fb := byte(size)
			switch variant % 4 {
			case 1:
				fb |= 0x80 // index
			case 2:
				fb |= 0x80 | 0x20 // index with cache bits
			case 3:
				fb |= 0x40 // CRC
			}
			b = []byte{0xb5, 0xee, 0x9c, 0x72, fb}
		}
		b = append(b, byte(off))
		b = append(b, be(cells, size)...)
		b = append(b, be(roots, size)...)
		b = append(b, be(absent, size)...)
		b = append(b, be(tot, off)...)
		return append(b, body...)
	}
	emit := func(b []byte, class string) {
		in := sx.Bytes(b)
		out := c.EmitGuarded("c07.parse", in, class)
		c.Note("c07.alloc", class, in)
		c07Oracle(c, in, out)
	}
	bodies := func() [][]byte {
		// 0..40 body bytes: none, a plausible root index + one empty cell, random
		bs := [][]byte{nil, r.Bytes(1 + r.Intn(40))}
		if c.Thorough() {
			bs = append(bs, []byte{0}, []byte{0, 0, 0}, r.Bytes(40))
		}
		return bs
	}
	for size := 1; size <= 7; size++ {
		maxField := maxOf(size)
		var counts []uint64
		for _, k := range ks {
			if int(k) < 8*size {
				counts = addU(counts, uint64(1)<<k)
			}
		}
		counts = addU(counts, uint64(1)<<uint(8*size-1))
		counts = addU(counts, maxField)
		for off := 1; off <= 8; off++ {
			maxTot := maxOf(off)
			for _, cnt := range counts {
				// tot_cells_size consistent with the count under several heuristics
				var tots []uint64
				for _, t := range []uint64{2 * cnt, 2*cnt + 1, 3 * cnt, cnt} {
					if t >= cnt && t <= maxTot { // fits the field, no wrap-around
						tots = addU(tots, t)
					}
				}
				tots = addU(tots, maxTot)
				for _, tot := range tots {
					for _, body := range bodies() {
						emit(build(size, off, cnt, 1, 0, tot, body), fmt.Sprintf("consistent-huge|cells|size%d", size))
					}
				}
				// huge roots count consistent with the cells count
				tot := 2 * cnt
				if tot < cnt || tot > maxTot {
					tot = maxTot
				}
				for _, body := range bodies() {
					emit(build(size, off, cnt, cnt, 0, tot, body), fmt.Sprintf("consistent-huge|roots|size%d", size))
				}
				emit(build(size, off, maxField, cnt, 0, maxTot, r.Bytes(r.Intn(41))), fmt.Sprintf("consistent-huge|roots|size%d", size))
			}
		}
	}
}

// ---------------------------------------------------------------------------
// family "sharing": valid BOCs whose DAG has few cells and exponentially many
// paths.  Parsing is compared with the model; printing, hashing and
// re-serialising the parsed cells must terminate within the budget.

type c07ShareCase struct {
	name string
	dag  []Node
}

// saturating size of the unfolded tree
func treeSize(dag []Node) uint64 {
	const cap = uint64(1) << 62
	sz := make([]uint64, len(dag))
	for i := len(dag) - 1; i >= 0; i-- {
		s := uint64(1)
		for _, t := range dag[i].Refs {
			s += sz[t]
			if s > cap {
				s = cap
			}
		}
		sz[i] = s
	}
	if len(dag) == 0 {
		return 0
	}
	return sz[0]
}

func c07SharingDags(c *Ctx, r *prng.R) []c07ShareCase {
	var out []c07ShareCase
	payload := func() string { return randBits(r, r.Intn(17)) }
	// chain: every cell references the next one m times
	quickK := map[int]bool{17: true, 18: true, 24: true, 60: true}
	for k := 5; k <= 60; k++ {
		// quick tier: every k around the points where 4^k, 3^k, 2^k cross the
		// budget, and a few large ones (an over-budget case costs ~0.2 s)
		if !c.Thorough() && k > 14 && !quickK[k] {
			continue
		}
		for m := 1; m <= 4; m++ {
			// the deep over-budget prints are the expensive ones (string
			// concatenation: O(depth * output), 0.2 .. 0.6 s each)
			if !c.Thorough() && ((k == 24 && m%2 == 1) || (k == 60 && m != 4 && m != 1)) {
				continue
			}
			dag := make([]Node, k)
			for i := range dag {
				dag[i].Bits = payload()
				if i+1 < k {
					for j := 0; j < m; j++ {
						dag[i].Refs = append(dag[i].Refs, i+1)
					}
				}
			}
			out = append(out, c07ShareCase{fmt.Sprintf("chain%d", m), dag})
		}
	}
	// lattices: cell i references i+1 .. i+w (Fibonacci-like growth)
	for w := 2; w <= 4; w++ {
		for _, k := range []int{8, 12, 16, 20, 24, 26, 28, 32, 40, 48, 60} {
			if !c.Thorough() && k != 8 && k != 16 && k != 26 && k != 60 {
				continue
			}
			dag := make([]Node, k)
			for i := range dag {
				dag[i].Bits = payload()
				for j := 1; j <= w && i+j < k; j++ {
					dag[i].Refs = append(dag[i].Refs, i+j)
				}
			}
			out = append(out, c07ShareCase{fmt.Sprintf("lattice%d", w), dag})
		}
	}
	// layered diamonds: two cells per layer, each references both cells of the
	// next layer twice
	for _, layers := range []int{4, 8, 9, 10, 16, 24, 30} {
		if !c.Thorough() && layers != 4 && layers != 9 && layers != 30 {
			continue
		}
		k := 1 + 2*layers
		dag := make([]Node, k)
		dag[0].Bits = payload()
		dag[0].Refs = []int{1, 2, 1, 2}
		for l := 0; l < layers; l++ {
			for s := 0; s < 2; s++ {
				i := 1 + 2*l + s
				dag[i].Bits = payload()
				if l+1 < layers {
					a := 1 + 2*(l+1)
					dag[i].Refs = []int{a, a + 1, a + 1, a}
				}
			}
		}
		out = append(out, c07ShareCase{"diamond", dag})
	}
	// random multiplicities 1..4 along a chain, with occasional skips
	nMixed := c.Scale(4, 200)
	for i := 0; i < nMixed; i++ {
		k := 5 + r.Intn(56)
		dag := make([]Node, k)
		for i := range dag {
			dag[i].Bits = payload()
			if i+1 < k {
				m := 1 + r.Intn(4)
				for j := 0; j < m; j++ {
					t := i + 1
					if r.Chance(15) {
						t = i + 1 + r.Intn(minInt(k-1-i, 3))
					}
					dag[i].Refs = append(dag[i].Refs, t)
				}
			}
		}
		out = append(out, c07ShareCase{"mixed", dag})
	}
	return out
}

func c07Sharing(c *Ctx, r *prng.R) {
	for _, sc := range c07SharingDags(c, r) {
		hv := HeaderVariant{Idx: r.Bool(), Crc: r.Bool(), Cache: r.Bool()}
		b := refSerialize(sc.dag, []int{0}, hv, r)
		in := sx.Bytes(b)
		budget := "within-budget"
		if treeSize(sc.dag) > 65536 {
			budget = "over-budget"
		}
		class := "sharing|" + sc.name + "|" + budget
		if c07hs.hangs < c07MaxHangs && !c07HashOracle(c, in, len(sc.dag)) {
			continue // hung while hashing: reported, not executed again
		}
		out := c.EmitGuarded("c07.parse", in, class)
		if isAtom(out, "crash", "timeout", "panic") {
			c07Oracle(c, in, out) // reports it
			continue
		}
		if isAtom(out, "err") {
			c.Fail("c07.parse", in, "valid-rejected", "a valid BOC with shared sub-cells ("+sc.name+") was rejected")
			continue
		}
		c07AllocOracle(c, in)
		// own hang budget: the smallest failing member of this family is
		// reported whatever happened in the other streams
		if c07st.shareHangs < c07MaxHangs {
			c.Note("c07.print", class, in)
			lines, ok := c07PrintOracleLines(c, in, &c07st.shareHangs)
			if ok && lines != nil && c07EmitLines {
				c07Record(c, "c07.lines", in, sx.L(lines...), class)
			}
		}
	}
}
