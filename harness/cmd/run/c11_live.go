package main

// C11, Connection layer over wall-clock time: the unmodified NewConnection
// (ping goroutine, reader, reconnect) against a reference server on its own
// loopback listener.
//
//   c11.conn (server_seed ((drop ((gap_ms payload) ...) (marked ...)) ...))
//
// The server runs the sessions one after the other: it sends the packets with
// the given gaps (the first one names the session), answers tcp.ping with
// tcp.pong, waits for the "marked" packets the application sends when it sees
// the session's first packet, then drops the session ('close: closes the
// socket; 'silence: stays silent until the client gives up after
// reconnectTimeout) and accepts the client's next handshake.  The application
// takes Responses() ONCE and reads it for the whole history.
// Observed: number of handshakes, payloads received on that channel, marked
// packets decoded by the server per session.
//
// A scenario takes 12..15 s: it runs in a child process (own crypto/rand.Reader,
// own stdout) started when the generator begins, and is collected at the end.

import (
	"bufio"
	"bytes"
	"context"
	"crypto/cipher"
	"crypto/ed25519"
	"crypto/sha256"
	"encoding/binary"
	"fmt"
	"io"
	"net"
	"os"
	"os/exec"
	"strings"
	"sync"
	"time"

	"github.com/tonkeeper/tongo/liteclient"

	"verifharness/prng"
	"verifharness/sx"
)

func init() {
	execs["c11.conn"] = execC11Conn
	execs["c11.magic"] = func(in sx.V) sx.V {
		p, err := liteclient.NewPacket(append([]byte{}, in.Bytes...))
		if err != nil {
			return sx.A("err")
		}
		return sx.N(uint64(p.MagicType()))
	}
}

// packets a client consumes itself (lite_api.tl / ton_api.tl): tcp.pong random_id:long is
// exactly magic + 8 bytes; tcp.authentificationNonce is recognised by its magic
func c11IsControl(p []byte) bool {
	if len(p) < 4 {
		return false
	}
	m := binary.LittleEndian.Uint32(p)
	return (m == c11MagicPong && len(p) == 12) || m == c11MagicAuthNonce
}

// payloads around the boundary of that filter
func c11FilterBoundary(r *prng.R, withAuth bool) [][]byte {
	mk := func(magic uint32, n int) []byte {
		p := r.Bytes(n)
		if n >= 4 {
			binary.LittleEndian.PutUint32(p, magic)
		} else {
			var m [4]byte
			binary.LittleEndian.PutUint32(m[:], magic)
			copy(p, m[:n])
		}
		return p
	}
	var ps [][]byte
	for _, n := range []int{3, 4, 5, 8, 11, 12, 13, 16, 20, 76} {
		ps = append(ps, mk(c11MagicPong, n))
	}
	ps = append(ps, mk(c11MagicPing, 12), mk(c11MagicPing, 20), mk(0x0fac8416, 24), []byte{}, []byte{0x60}, append([]byte{0x61}, r.Bytes(2)...))
	if withAuth {
		ps = append(ps, mk(c11MagicAuthNonce, 4), mk(c11MagicAuthNonce, 40))
	}
	for i := len(ps) - 1; i > 0; i-- {
		j := r.Intn(i + 1)
		ps[i], ps[j] = ps[j], ps[i]
	}
	return ps
}

type c11Future struct {
	done chan struct{}
	out  sx.V
}

var c11ConnMu sync.Mutex
var c11ConnFutures = map[string]*c11Future{}

func c11ConnStart(in sx.V) *c11Future {
	key := in.String()
	c11ConnMu.Lock()
	defer c11ConnMu.Unlock()
	if f, ok := c11ConnFutures[key]; ok {
		return f
	}
	f := &c11Future{done: make(chan struct{})}
	c11ConnFutures[key] = f
	go func() {
		f.out = c11RunChild("c11.conn "+key, 75*time.Second)
		close(f.done)
	}()
	return f
}

func execC11Conn(in sx.V) sx.V {
	if os.Getenv("VERIF_C11_CHILD") == "1" {
		return c11ConnScenario(in)
	}
	f := c11ConnStart(in)
	<-f.done
	return f.out
}

// c11RunChild runs one case in a second copy of this binary ("exec" mode);
// 'timeout when it does not answer in time (hang), 'crash when it dies.
func c11RunChild(line string, limit time.Duration) sx.V {
	cmd := exec.Command(os.Args[0], "exec")
	cmd.Env = append(os.Environ(), "VERIF_C11_CHILD=1")
	cmd.Stdin = strings.NewReader(line + "\n")
	stdout, err := cmd.StdoutPipe()
	if err != nil {
		return sx.A("crash")
	}
	if err := cmd.Start(); err != nil {
		return sx.A("crash")
	}
	res := make(chan sx.V, 1)
	go func() {
		out := sx.A("crash")
		rd := bufio.NewReaderSize(stdout, 1<<20)
		for {
			l, err := rd.ReadString('\n')
			l = strings.TrimRight(l, "\n")
			// the library prints diagnostics to stdout; results are s-expressions
			if strings.HasPrefix(l, "(") || strings.HasPrefix(l, "'") {
				if v, perr := sx.Parse(l); perr == nil {
					out = v
				}
			}
			if err != nil {
				break
			}
		}
		res <- out
	}()
	select {
	case v := <-res:
		_ = cmd.Wait()
		return v
	case <-time.After(limit):
		_ = cmd.Process.Kill()
		_ = cmd.Wait()
		return sx.A("timeout")
	}
}

// ---------- the scenario (runs in the child) ----------

const (
	c11MagicPing      = 0x4d082b9a
	c11MagicPong      = 0xdc69fb03
	c11MagicAuthNonce = 0xe35d4ab6
)

func c11ReadFrame(r io.Reader, rx cipher.Stream) ([]byte, error) {
	hdr := make([]byte, 4)
	if _, err := io.ReadFull(r, hdr); err != nil {
		return nil, err
	}
	rx.XORKeyStream(hdr, hdr)
	n := binary.LittleEndian.Uint32(hdr)
	if n < 64 || n > 8<<20 {
		return nil, fmt.Errorf("bad frame length %d", n)
	}
	body := make([]byte, n)
	if _, err := io.ReadFull(r, body); err != nil {
		return nil, err
	}
	rx.XORKeyStream(body, body)
	sum := sha256.Sum256(body[:n-32])
	if !bytes.Equal(sum[:], body[n-32:]) {
		return nil, fmt.Errorf("bad checksum")
	}
	return body[32 : n-32], nil
}

type c11LiveSession struct {
	conn   net.Conn
	mu     sync.Mutex // tx stream + writes
	tx     cipher.Stream
	silent bool
	marked [][]byte
	nonces *prng.R
}

func (s *c11LiveSession) send(payload []byte) error {
	s.mu.Lock()
	defer s.mu.Unlock()
	f := c11RefFrame(s.nonces.Bytes(32), payload)
	s.tx.XORKeyStream(f, f)
	_, err := s.conn.Write(f)
	return err
}

func (s *c11LiveSession) serve(rx cipher.Stream) {
	for {
		p, err := c11ReadFrame(s.conn, rx)
		if err != nil {
			return
		}
		switch {
		case len(p) == 12 && binary.LittleEndian.Uint32(p) == c11MagicPing:
			s.mu.Lock()
			silent := s.silent
			s.mu.Unlock()
			if !silent {
				pong := make([]byte, 12)
				binary.LittleEndian.PutUint32(pong, c11MagicPong)
				copy(pong[4:], p[4:])
				_ = s.send(pong)
			}
		case len(p) > 0 && p[0] == 0xA5:
			s.mu.Lock()
			s.marked = append(s.marked, p)
			s.mu.Unlock()
		}
	}
}

func (s *c11LiveSession) markedCount() int {
	s.mu.Lock()
	defer s.mu.Unlock()
	return len(s.marked)
}

func c11ConnScenario(in sx.V) sx.V {
	sseed := in.List[0].Bytes
	spriv := ed25519.NewKeyFromSeed(sseed)
	spub := []byte(spriv.Public().(ed25519.PublicKey))
	type sess struct {
		drop   string
		gaps   []int
		pays   [][]byte
		marked [][]byte
	}
	var sessions []sess
	for _, v := range in.List[1].List {
		s := sess{drop: v.List[0].Atom}
		for _, p := range v.List[1].List {
			s.gaps = append(s.gaps, p.List[0].I())
			s.pays = append(s.pays, p.List[1].Bytes)
		}
		for _, m := range v.List[2].List {
			s.marked = append(s.marked, m.Bytes)
		}
		sessions = append(sessions, s)
	}
	l, err := net.Listen("tcp", "127.0.0.1:0")
	if err != nil {
		return sx.L(sx.A("harness-error"), sx.A("listen"))
	}
	defer l.Close()
	nonces := prng.New(7)
	var mu sync.Mutex
	handshakes := 0
	ephemeral, ephemeralFresh := map[string]bool{}, true
	accept := func(limit time.Duration) *c11LiveSession {
		_ = l.(*net.TCPListener).SetDeadline(time.Now().Add(limit))
		conn, err := l.Accept()
		if err != nil {
			return nil
		}
		hs := make([]byte, 256)
		_ = conn.SetReadDeadline(time.Now().Add(5 * time.Second))
		if _, err := io.ReadFull(conn, hs); err != nil {
			conn.Close()
			return nil
		}
		_ = conn.SetReadDeadline(time.Time{})
		p, ok := c11RefAccept(spriv, hs)
		if !ok {
			conn.Close()
			return nil
		}
		mu.Lock()
		handshakes++
		if ephemeral[string(hs[32:64])] {
			ephemeralFresh = false
		}
		ephemeral[string(hs[32:64])] = true
		mu.Unlock()
		s := &c11LiveSession{conn: conn, tx: c11AesCTR(p[0:32], p[64:80]), nonces: nonces}
		go s.serve(c11AesCTR(p[32:64], p[80:96]))
		// the handshake reply: an empty packet, delivered in two TCP segments
		// (cut after 4 / 36 / 67 / 1 bytes in turn)
		f := c11RefFrame(nonces.Bytes(32), nil)
		s.tx.XORKeyStream(f, f)
		mu.Lock()
		cut := []int{4, 36, 67, 1}[(handshakes-1)%4]
		mu.Unlock()
		_, _ = conn.Write(f[:cut])
		time.Sleep(12 * time.Millisecond)
		_, _ = conn.Write(f[cut:])
		return s
	}
	results := make([][][]byte, len(sessions))
	serverDone := make(chan struct{})
	go func() {
		defer close(serverDone)
		for k, se := range sessions {
			s := accept(25 * time.Second)
			if s == nil {
				return
			}
			failed := false
			for i, p := range se.pays {
				time.Sleep(time.Duration(se.gaps[i]) * time.Millisecond)
				if err := s.send(p); err != nil {
					failed = true
					break
				}
			}
			for t := 0; !failed && t < 160 && s.markedCount() < len(se.marked); t++ {
				time.Sleep(50 * time.Millisecond)
			}
			s.mu.Lock()
			results[k] = append([][]byte{}, s.marked...)
			if se.drop == "silence" {
				s.silent = true
			}
			s.mu.Unlock()
			if se.drop == "close" {
				s.conn.Close()
			}
		}
		// further handshakes are not part of the history: count them
		for {
			if s := accept(700 * time.Millisecond); s == nil {
				return
			}
		}
	}()

	ctx, cancel := context.WithTimeout(context.Background(), 10*time.Second)
	defer cancel()
	c, err := liteclient.NewConnection(ctx, spub, l.Addr().String())
	if err != nil {
		return sx.L(sx.A("err"))
	}
	incoming := c.Responses() // taken once, as liteclient.Client.reader does
	var rmu sync.Mutex
	var received []sx.V
	stop := make(chan struct{})
	go func() {
		for {
			select {
			case p := <-incoming:
				rmu.Lock()
				received = append(received, sx.Bytes(p.Payload))
				rmu.Unlock()
				if len(p.Payload) >= 2 && p.Payload[0] == 0x51 && int(p.Payload[1]) < len(sessions) {
					for _, m := range sessions[p.Payload[1]].marked {
						for try := 0; try < 40; try++ {
							pk, err := liteclient.NewPacket(append([]byte{}, m...))
							if err == nil && c.Send(pk) == nil {
								break
							}
							time.Sleep(25 * time.Millisecond)
						}
					}
				}
			case <-stop:
				return
			}
		}
	}()
	go func() { // background traffic of the application; a failed write is what makes the client reconnect
		filler := append([]byte{0xF0}, bytes.Repeat([]byte{1}, 20)...)
		for {
			select {
			case <-stop:
				return
			case <-time.After(100 * time.Millisecond):
				if pk, err := liteclient.NewPacket(filler); err == nil {
					_ = c.Send(pk)
				}
			}
		}
	}()
	select {
	case <-serverDone:
	case <-time.After(60 * time.Second):
	}
	time.Sleep(200 * time.Millisecond)
	close(stop)
	rmu.Lock()
	defer rmu.Unlock()
	mu.Lock()
	defer mu.Unlock()
	var ms []sx.V
	for _, r := range results {
		var vs []sx.V
		for _, m := range r {
			vs = append(vs, sx.Bytes(m))
		}
		ms = append(ms, sx.L(vs...))
	}
	rtt := sx.A("na")
	total := 0
	for _, se := range sessions {
		for _, g := range se.gaps {
			total += g
		}
	}
	if len(sessions) == 1 && total >= 6000 {
		rtt = sx.B(c.AverageRoundTrip() > 0) // pings were answered
	}
	return sx.L(sx.Nat(handshakes), sx.L(received...), sx.L(ms...), sx.Nat(int(c.Status())), rtt, sx.B(ephemeralFresh))
}

// ---------- generator ----------

type c11ConnCase struct {
	in    sx.V
	class string
	want  [][]byte
	n     int
}

func c11ConnSession(r *prng.R, k int, drop string, gaps []int, nMarked int, boundary [][]byte) (sx.V, [][]byte) {
	var pk []sx.V
	var data [][]byte
	for i, g := range gaps {
		p := append([]byte{0x52, byte(k), byte(i)}, r.Bytes(c11Size(r, 200))...)
		switch {
		case i == 0:
			p[0] = 0x51 // names the session
		case i >= 2 && i-2 < len(boundary): // payloads around the reader's pong / auth-nonce filter
			p = boundary[i-2]
		case r.Chance(8): // a tcp.pong with an unknown id: consumed by Connection.reader
			p = make([]byte, 12)
			binary.LittleEndian.PutUint32(p, c11MagicPong)
			copy(p[4:], r.Bytes(8))
		}
		if !c11IsControl(p) {
			data = append(data, p)
		}
		pk = append(pk, sx.L(sx.Nat(g), sx.Bytes(p)))
	}
	var marked []sx.V
	for i := 0; i < nMarked; i++ {
		marked = append(marked, sx.Bytes(append([]byte{0xA5, byte(k), byte(i)}, r.Bytes(c11Size(r, 300))...)))
	}
	return sx.L(sx.A(drop), sx.L(pk...), sx.L(marked...)), data
}

// steady traffic for more than reconnectTimeout on one session
func c11ConnSteady(r *prng.R, maxGap int) c11ConnCase {
	var gaps []int
	total := 0
	for total < 12600 {
		g := 250 + r.Intn(500)
		if maxGap > 1000 && r.Chance(25) {
			g = 1000 + r.Intn(maxGap-1000)
		}
		gaps = append(gaps, g)
		total += g
	}
	boundary := c11FilterBoundary(r, true)
	for len(gaps) < len(boundary)+3 {
		gaps = append(gaps, 250+r.Intn(200))
	}
	s, data := c11ConnSession(r, 0, "end", gaps, 2, boundary)
	return c11ConnCase{in: sx.L(sx.Bytes(r.Bytes(32)), sx.L(s)), class: fmt.Sprintf("conn|steady13s|maxgap%d", maxGap), want: data, n: 1}
}

// drop -> reconnect -> traffic on the new session, read through the same channel
func c11ConnReconnect(r *prng.R, drops []string) c11ConnCase {
	var ss []sx.V
	var want [][]byte
	for k, d := range drops {
		var gaps []int
		for i := 0; i < 3+r.Intn(3); i++ {
			gaps = append(gaps, 40+r.Intn(150))
		}
		s, data := c11ConnSession(r, k, d, gaps, 1+r.Intn(2), c11FilterBoundary(r, false)[:1+r.Intn(2)])
		ss = append(ss, s)
		want = append(want, data...)
	}
	return c11ConnCase{in: sx.L(sx.Bytes(r.Bytes(32)), sx.L(ss...)), class: "conn|" + strings.Join(drops, "-"), want: want, n: len(drops)}
}

// a session is dropped early and its successor carries steady traffic for more
// than reconnectTimeout: nothing left over from the dead session (its reader,
// its timers) may touch the new one
func c11ConnDropThenSteady(r *prng.R, drops []string) c11ConnCase {
	var ss []sx.V
	var want [][]byte
	for k, d := range drops {
		s, data := c11ConnSession(r, k, d, []int{60, 80 + r.Intn(100), 100}, 1, nil)
		ss = append(ss, s)
		want = append(want, data...)
	}
	var gaps []int
	total := 0
	for total < 11800 {
		g := 250 + r.Intn(500)
		gaps = append(gaps, g)
		total += g
	}
	s, data := c11ConnSession(r, len(drops), "end", gaps, 2, c11FilterBoundary(r, false)[:4])
	ss = append(ss, s)
	want = append(want, data...)
	return c11ConnCase{in: sx.L(sx.Bytes(r.Bytes(32)), sx.L(ss...)), class: "conn|" + strings.Join(drops, "-") + "-steady12s", want: want, n: len(drops) + 1}
}

func c11ConnCases(c *Ctx) []c11ConnCase {
	r := c.R
	cs := []c11ConnCase{c11ConnSteady(r, 1000), c11ConnReconnect(r, []string{"close", "silence", "end"}),
		c11ConnDropThenSteady(r, []string{"close"})}
	if c.Thorough() {
		cs = append(cs, c11ConnSteady(r, 6000), c11ConnDropThenSteady(r, []string{"close", "close"}),
			c11ConnDropThenSteady(r, []string{"silence"}), c11ConnReconnect(r, []string{"silence", "close", "close", "end"}),
			c11ConnReconnect(r, []string{"close", "close", "close", "close", "end"}))
	}
	for _, k := range cs {
		c11ConnStart(k.in)
	}
	return cs
}

func c11ConnCollect(c *Ctx, cs []c11ConnCase) {
	for _, k := range cs {
		out := c.Emit("c11.conn", k.in, k.class)
		ok := out.K == sx.KL && len(out.List) == 6 && out.List[5].Bool && out.List[0].K == sx.KN && out.List[0].I() == k.n &&
			len(out.List[1].List) == len(k.want) && out.List[3].String() == "n1" && !out.List[4].IsA("f") && out.List[4].String() != "f"
		for i := 0; ok && i < len(k.want); i++ {
			ok = bytes.Equal(out.List[1].List[i].Bytes, k.want[i])
		}
		if ok {
			for j, s := range k.in.List[1].List {
				ok = ok && out.List[2].List[j].String() == s.List[2].String()
			}
		}
		if !ok {
			got := trunc(out.String(), 40)
			if out.K == sx.KL && len(out.List) == 6 && out.List[0].K == sx.KN {
				got = fmt.Sprintf("%d handshakes (history has %d sessions), %d of %d packets received, status %s, round trip measured %s, ephemeral keys fresh "+out.List[5].String()+"", out.List[0].I(), k.n, len(out.List[1].List), len(k.want), out.List[3].String(), out.List[4].String())
				for i := 0; i < len(k.want) && i < len(out.List[1].List); i++ {
					if !bytes.Equal(out.List[1].List[i].Bytes, k.want[i]) {
						got += fmt.Sprintf("; first difference at packet %d: sent %d bytes %x.., received %d bytes", i, len(k.want[i]), k.want[i][:c11Min(len(k.want[i]), 8)], len(out.List[1].List[i].Bytes))
						break
					}
				}
			}
			c.Fail("c11.conn", k.in, "c11-connection-lifetime",
				"NewConnection against the reference server over wall-clock time ("+k.class+"): expected exactly the scheduled sessions, every packet of every session received in order on the channel taken once from Responses(), every marked packet decoded by the server; got "+got)
		}
	}
}

func c11Min(a, b int) int {
	if a < b {
		return a
	}
	return b
}

// Packet.MagicType on short payloads and known magics
func genC11Magic(c *Ctx) {
	r := c.R
	for n := 0; n <= 6; n++ {
		p := r.Bytes(n)
		c.Emit("c11.magic", sx.Bytes(p), fmt.Sprintf("magic|len%d", n))
	}
	for _, m := range []uint32{c11MagicPing, c11MagicPong, c11MagicAuthNonce, 0, 0xffffffff} {
		for _, n := range []int{4, 12, 13} {
			p := r.Bytes(n)
			binary.LittleEndian.PutUint32(p, m)
			out := c.Emit("c11.magic", sx.Bytes(p), "magic|known")
			if out.K != sx.KN || out.Int.Uint64() != uint64(m) {
				c.Fail("c11.magic", sx.Bytes(p), "c11-magic-type", "Packet.MagicType is not the little-endian first word of the payload")
			}
		}
	}
}
