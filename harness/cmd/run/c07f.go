package main

// Round 8: family "short-exotic".  Tiny bags (1..3 cells) in which ONE cell is
// exotic-typed with every level mask 0..7 and a payload of every interesting
// length around what its type and mask announce (type byte only, two bytes,
// one hash short, one byte short, exact, one byte long, not byte aligned), at
// every position: the root itself, a child of an ordinary root, a grand-child,
// and the child of another exotic cell.  The hashing loop of the parent reads
// the child's stored hashes and depths at offsets derived from the mask alone,
// so a cell whose data are shorter than its mask announces is where hashing,
// printing or re-serialising a parsed (accepted) bag can index past the data.
// Every case goes through the hash oracle (guarded, with Hasher reuse), the
// guarded parse compared with the model, and the print / re-serialise oracle.

import (
	"fmt"

	"verifharness/prng"
	"verifharness/sx"
)

func c07ShortExotic(c *Ctx, r *prng.R) {
	type place struct {
		name string
		mk   func(ex Node) []Node
	}
	ord := func(refs ...int) Node { return Node{Bits: randBits(r, r.Intn(17)), Refs: refs} }
	places := []place{
		{"root", func(ex Node) []Node { return []Node{ex} }},
		{"child", func(ex Node) []Node { return []Node{ord(1), ex} }},
		{"grandchild", func(ex Node) []Node { return []Node{ord(1, 1), ord(2), ex} }},
		{"twice", func(ex Node) []Node { return []Node{ord(1, 2, 1), ex, ord(1)} }},
		{"under-exotic", func(ex Node) []Node {
			top := ex
			top.Refs = []int{1}
			return []Node{top, ex}
		}},
	}
	hangs := 0
	n := 0
	for _, et := range c07ExoticTypes {
		for mask := uint8(0); mask <= 7; mask++ {
			valid := c07ExoticValidBits(et.typ, mask)
			lens := []int{8, 16, 24, valid - 34*8, valid - 16, valid - 8, valid, valid + 8, valid - 5, 8 + 32*8, 8 + 33*8}
			if !c.Thorough() {
				if et.typ != 0x01 {
					// the other types: the stored-hash reads exist only for Merkle cells
					if mask != 0 && mask != uint8(1+n%7) {
						continue
					}
					lens = []int{8, valid - 8, valid}
				} else {
					lens = []int{8, 16, valid - 34*8, valid - 8, valid, valid - 5}
				}
			}
			seen := map[int]bool{}
			for _, bits := range lens {
				if bits < 8 || bits > 1023 || seen[bits] {
					continue
				}
				seen[bits] = true
				for pi, pl := range places {
					if !c.Thorough() && et.typ != 0x01 && pi != 1 && pi != 0 {
						continue
					}
					if !c.Thorough() && et.typ == 0x01 && (n+pi)%2 == 0 && pi != 1 {
						continue
					}
					n++
					body := randBits(r, bits-8)
					if et.typ == 0x01 && bits >= 16 && r.Chance(60) {
						body = byteBits(mask) + body[8:]
					}
					ex := Node{Special: true, Mask: mask, Bits: byteBits(et.typ) + body}
					dag := pl.mk(ex)
					hv := HeaderVariant{Idx: r.Bool(), Crc: r.Bool(), Cache: r.Bool()}
					in := sx.Bytes(refSerialize(dag, []int{0}, hv, r))
					class := fmt.Sprintf("short-exotic|%s|%s", et.name, pl.name)
					if c07hs.hangs >= c07MaxHangs {
						return
					}
					c.Note("c07.hash", class, in)
					if !c07HashOracle(c, in, len(dag)) {
						continue
					}
					out := c.EmitGuarded("c07.parse", in, class)
					if isAtom(out, "crash", "timeout", "panic") {
						c07Oracle(c, in, out)
						continue
					}
					if isAtom(out, "err") {
						continue
					}
					if hangs < c07MaxHangs {
						c07PrintOracle(c, in, &hangs)
					}
				}
			}
		}
	}
}
