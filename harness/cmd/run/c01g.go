package main

// Round 8: family "exact-bytes".  Chains whose serialised cell data total
// exactly T bytes for T around the powers of 256 (the width of off_bytes /
// tot_cells_size changes there, independently of the cell count): 255, 256,
// 257 through the byte-exact serialiser model, 65535, 65536, 65537 by the
// round-trip oracle on the implementation (like the exact-count family).

import (
	"fmt"
	"strings"

	"verifharness/sx"
)

// exactBytesDag: a chain of n cells (cell i references cell i+1) whose
// serialised size 2n + (n-1)*refSize + sum(data bytes) is exactly total; every
// cell starts with its own index so that nothing is de-duplicated.
func exactBytesDag(total int) []Node {
	for n := 2; n < 70000; n++ {
		rs := 1
		if n > 255 {
			rs = 2
		}
		data := total - 2*n - (n-1)*rs
		if data < 3*n {
			return nil
		}
		if data > 127*n {
			continue
		}
		dag := make([]Node, n)
		left := data
		for i := 0; i < n; i++ {
			d := left / (n - i) // spread evenly; the remainder goes to the last cells
			if i == n-1 {
				d = left
			}
			left -= d
			b := make([]byte, d)
			b[0], b[1], b[2] = byte(i>>16), byte(i>>8), byte(i)
			for j := 3; j < d; j++ {
				b[j] = byte(37*i + 11*j)
			}
			var sb strings.Builder
			for _, x := range b {
				fmt.Fprintf(&sb, "%08b", x)
			}
			dag[i].Bits = sb.String()
			if i+1 < n {
				dag[i].Refs = []int{i + 1}
			}
		}
		return dag
	}
	return nil
}

func c01ExactBytes(c *Ctx) []func() {
	var out []func()
	for _, t := range []int{255, 256, 257} {
		opts := []int{0, 7, 2, 5}
		if !c.Thorough() {
			if t == 256 {
				opts = []int{0, 7}
			} else {
				opts = []int{t % 8}
			}
		}
		dag := exactBytesDag(t)
		for _, o := range opts {
			t, o := t, o
			out = append(out, func() { c01EmitSer(c, dag, o, fmt.Sprintf("exactbytes%d|opt%d", t, o)) })
		}
	}
	for _, t := range []int{65535, 65536, 65537} {
		if !c.Thorough() && t != 65536 {
			continue
		}
		t := t
		out = append(out, func() {
			dag := exactBytesDag(t)
			for _, o := range []int{0, 7} {
				in := sx.L(sx.Nat(t), sx.Nat(o))
				if what := c01BigRoundTrip(dag, o); what != "" {
					c.Fail("c01.big", in, "roundtrip-bytes", fmt.Sprintf("chain whose cell data total exactly %d bytes, options %d: %s", t, o, what))
				}
				c.Note("c01.big", fmt.Sprintf("bigbytes%d|opt%d", t, o), in)
			}
		})
	}
	return out
}
