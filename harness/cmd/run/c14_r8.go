package main

// C14, round 8: option values that are semantically equal but representationally different.
//
// A time.Time is (wall, ext, *Location): the same instant exists with a nil location (UTC), the Local location, any
// fixed zone, with or without a monotonic reading, decoded from JSON / text / binary; `==` distinguishes them, IsZero /
// Equal / Unix do not.  The expiry a wallet signs may depend only on the instant (whole seconds) and on whether it is
// the zero instant ("not set" for MessageConfig.ValidUntil), never on the representation.  The families below hand
// every expiry-taking entry point (CreateMessageBody, RawSend, RawSendV2, the v5 CreateSignedMsgBodyCell) of every
// version the unset expiry in every representation of the zero time and set expiries in several representations:
// the result is compared with the model (kinds c14.expiry / c14.entry, whose input carries the representation as a
// trailing field the model does not look at: its expiry is an `option Z`) and, as an oracle on the implementation, with
// the result for the canonical representation.  The same for the other options with several spellings: nil / empty
// message lists, Sendables by value / by pointer, a nil / empty option list.

import (
	"context"
	"crypto/ed25519"
	"encoding/json"
	"fmt"
	"time"

	"github.com/tonkeeper/tongo/boc"
	"github.com/tonkeeper/tongo/tlb"
	"github.com/tonkeeper/tongo/ton"
	"github.com/tonkeeper/tongo/wallet"

	"verifharness/sx"
)

// representations of the zero instant (all IsZero()); index 0 is the canonical one
var c14ZeroReps = []string{"Time{}", "UTC()", "Local()", "In(+1h)", "In(-11h30)", "In(zone named UTC, offset 0)", "JSON+01:00", "JSON Z",
	"Unix(-62135596800,0)", "Unix(...).UTC()", "Date(1,1,1,UTC)", "Date(1,1,1,1h,+1h)", "text+05:45", "binary", "Add(0)", "Round(0) of Local()",
	"Local().In(UTC)"}

func c14ZeroRep(rep int) time.Time {
	const zeroUnix = -62135596800
	switch rep {
	case 1:
		return time.Time{}.UTC()
	case 2:
		return time.Time{}.Local()
	case 3:
		return time.Time{}.In(time.FixedZone("CET", 3600))
	case 4:
		return time.Time{}.In(time.FixedZone("", -11*3600-1800))
	case 5:
		return time.Time{}.In(time.FixedZone("UTC", 0))
	case 6, 7:
		var v struct{ ValidUntil time.Time }
		s := `{"ValidUntil":"0001-01-01T01:00:00+01:00"}`
		if rep == 7 {
			s = `{"ValidUntil":"0001-01-01T00:00:00Z"}`
		}
		if json.Unmarshal([]byte(s), &v) != nil {
			return time.Time{}
		}
		return v.ValidUntil
	case 8:
		return time.Unix(zeroUnix, 0)
	case 9:
		return time.Unix(zeroUnix, 0).UTC()
	case 10:
		return time.Date(1, 1, 1, 0, 0, 0, 0, time.UTC)
	case 11:
		return time.Date(1, 1, 1, 1, 0, 0, 0, time.FixedZone("", 3600))
	case 12:
		var t time.Time
		if t.UnmarshalText([]byte("0001-01-01T05:45:00+05:45")) != nil {
			return time.Time{}
		}
		return t
	case 13:
		b, err := time.Time{}.In(time.FixedZone("", 7200)).MarshalBinary()
		var t time.Time
		if err != nil || t.UnmarshalBinary(b) != nil {
			return time.Time{}
		}
		return t
	case 14:
		return time.Time{}.Local().Add(0)
	case 15:
		return time.Time{}.Local().Round(0)
	case 16:
		return time.Time{}.Local().In(time.UTC)
	}
	return time.Time{}
}

// representations of the instant z seconds after the epoch; index 0 is the one every other family uses
var c14SetReps = []string{"Unix(z,0)", "UTC()", "In(+3h)", "In(-11h30)", "Local()", "monotonic reading", "JSON round trip", "+999999999ns",
	"Date(...) in +14h", "binary round trip"}

func c14SetRep(z int64, rep int) time.Time {
	t := time.Unix(z, 0)
	switch rep {
	case 1:
		return t.UTC()
	case 2:
		return t.In(time.FixedZone("MSK", 3*3600))
	case 3:
		return t.In(time.FixedZone("", -11*3600-1800))
	case 4:
		return t.UTC().Local()
	case 5:
		// the same instant reached from the clock: carries a monotonic reading (unless out of the range of a Duration)
		now := time.Now()
		if m := now.Add(t.Sub(now)); m.Unix() == z && m.Nanosecond() == 0 {
			return m
		}
		return t
	case 6:
		b, err := json.Marshal(t.In(time.FixedZone("", -4*3600)))
		var u time.Time
		if err != nil || json.Unmarshal(b, &u) != nil || u.Unix() != z {
			return t
		}
		return u
	case 7:
		return time.Unix(z, 999999999)
	case 8:
		zone := time.FixedZone("", 14*3600)
		u := t.In(zone)
		if d := time.Date(u.Year(), u.Month(), u.Day(), u.Hour(), u.Minute(), u.Second(), 0, zone); d.Unix() == z {
			return d
		}
		return t
	case 9:
		b, err := t.In(time.FixedZone("", 19800)).MarshalBinary()
		var u time.Time
		if err != nil || u.UnmarshalBinary(b) != nil || u.Unix() != z {
			return t
		}
		return u
	}
	return t
}

// the representation index an input carries at position i (absent: 0, the canonical one)
func c14RepOf(l []sx.V, i int) int {
	if len(l) > i && l[i].K == sx.KL && len(l[i].List) == 1 {
		return l[i].List[0].I()
	}
	return 0
}

// the time.Time of an optional expiry (nil: not set) in representation rep
func c14TimeRep(z *int64, rep int) time.Time {
	if z == nil {
		return c14ZeroRep(rep)
	}
	return c14SetRep(*z, rep)
}

func c14Stride(c *Ctx, i, quick int) bool { return c.Thorough() || i%quick == 0 }

func genC14R8(c *Ctx) {
	r := c.R
	// sanity of the generator itself: every representation denotes the instant it claims
	for rep := range c14ZeroReps {
		if t := c14ZeroRep(rep); !t.IsZero() || !t.Equal(time.Time{}) {
			c.Fail("c14.expiry", sx.Nat(rep), "c14-harness", "zero representation "+c14ZeroReps[rep]+" is not the zero instant")
		}
	}
	for _, z := range []int64{0, 1, 1 << 31, 1<<32 - 1, 1700000000, -1} {
		for rep := range c14SetReps {
			if t := c14SetRep(z, rep); t.Unix() != z || t.IsZero() {
				c.Fail("c14.expiry", sx.L(sx.Z(z), sx.Nat(rep)), "c14-harness", "representation "+c14SetReps[rep]+" changes the second")
			}
		}
	}
	setValues := func() []int64 {
		vs := []int64{0, 1<<32 - 1, 1 << 31, int64(uint32(r.U64())), 1600000000 + int64(r.Intn(1<<29)), 1, 1<<31 - 1, -1, 1 << 32, -(1 << 31)}
		return vs[:c.Scale(4, len(vs))]
	}
	someSendables := func() (rawMsgs, []sx.V) {
		var ms rawMsgs
		var ssx []sx.V
		for k := r.Intn(2); k > 0; k-- {
			sd := sendable{kind: r.Intn(2), amount: r.U64() >> uint(r.Intn(64)), wc: int32(r.Intn(2)) - 1, addr: r.Bytes(32), bounce: r.Chance(50), mode: byte(r.Intn(256))}
			if m, err := sd.raw(); err == nil {
				ms = append(ms, m)
				ssx = append(ssx, sd.sx())
			}
		}
		return ms, ssx
	}
	// 1. Wallet.CreateMessageBody (kind c14.expiry): every version x lifetime option x every representation of "not set",
	// and set expiries in every representation
	for vi, ver := range c14SendVersions {
		lifes := []*int64{nil, c14Lifetimes[1+(vi+int(c.Seed&0xff))%(len(c14Lifetimes)-1)]}
		if c.Thorough() {
			lifes = c14Lifetimes
		}
		for li, life := range lifes {
			seed := c14Seed(r)
			pk := ed25519.NewKeyFromSeed(seed).Public().(ed25519.PublicKey)
			opts := randOpts(r)
			seqno := boundary32(r)
			ms, ssx := someSendables()
			lifeNs, lifeName := int64(wallet.DefaultMessageLifetime), "default"
			if life != nil {
				lifeNs, lifeName = *life, fmt.Sprintf("%ds", *life/1000000000)
			}
			mk := func(cfg *int64, rep int) sx.V {
				return sx.L(sx.Nat(int(ver)), sx.Bytes(pk), opts.sx(), optZsx(life), optZsx(cfg), sx.N(uint64(seqno)), ms.sx(),
					sx.Bytes(seed), sx.L(ssx...), sx.L(sx.Nat(rep)))
			}
			want := uint64(uint32(floorDiv(lifeNs, 1000000000)))
			canon := ""
			for rep := range c14ZeroReps {
				in := mk(nil, rep)
				out := c.Emit("c14.expiry", in, fmt.Sprintf("expiry-rep|unset|%s|life=%v", c14ZeroReps[rep], life != nil))
				if rep == 0 {
					canon = out.String()
				}
				if out.K != sx.KL {
					c.Fail("c14.expiry", in, "c14-create-body-failed", "CreateMessageBody failed")
					continue
				}
				if out.List[0].U64() != want {
					c.Fail("c14.expiry", in, "c14-expiry-representation", fmt.Sprintf("ValidUntil = the zero instant given as %s (life %s): CreateMessageBody signs expiry %d (relative to the clock for a default expiry), 'not set' requires now + lifetime = %d",
						c14ZeroReps[rep], lifeName, out.List[0].U64(), want))
				} else if out.String() != canon {
					c.Fail("c14.expiry", in, "c14-expiry-representation", "the zero instant given as "+c14ZeroReps[rep]+" and as time.Time{} give different bodies")
				}
			}
			for zi, z := range setValues() {
				z := z
				canon := ""
				if li > 0 && (!c.Thorough() || li > 1) {
					break
				}
				for rep := range c14SetReps {
					if rep > 0 && !c14Stride(c, rep+zi+vi, 2) {
						continue
					}
					in := mk(&z, rep)
					out := c.Emit("c14.expiry", in, fmt.Sprintf("expiry-rep|set|%s", c14SetReps[rep]))
					if rep == 0 {
						canon = out.String()
					}
					if out.K != sx.KL {
						c.Fail("c14.expiry", in, "c14-create-body-failed", "CreateMessageBody failed")
						continue
					}
					if out.List[0].U64() != uint64(uint32(z)) || out.String() != canon {
						c.Fail("c14.expiry", in, "c14-expiry-representation", fmt.Sprintf("ValidUntil = second %d given as %s: CreateMessageBody signs expiry %d", z, c14SetReps[rep], out.List[0].U64()))
					}
				}
			}
		}
	}
	// 2. the entry points that take the expiry as an argument (kind c14.entry: RawSend, RawSendV2, CreateMessageBody):
	// the same second in every representation; for RawSend / RawSendV2 also the zero instant, which they sign as it is
	for vi, ver := range c14SendVersions {
		seed := c14Seed(r)
		pk := ed25519.NewKeyFromSeed(seed).Public().(ed25519.PublicKey)
		opts := randOpts(r)
		seqno := boundary32(r)
		_, ssx := someSendables()
		for zi, z := range append(setValues()[:c.Scale(2, 5)], -62135596800) {
			for entry := 2; entry <= 4; entry++ {
				reps := len(c14SetReps)
				if z == -62135596800 {
					if entry == 4 {
						continue // "not set" for CreateMessageBody: family 1
					}
					reps = len(c14ZeroReps)
				}
				canon := ""
				for rep := 0; rep < reps; rep++ {
					if rep > 0 && !c14Stride(c, rep+zi+vi+entry, 4) {
						continue
					}
					name := c14SetReps[rep%len(c14SetReps)]
					if z == -62135596800 {
						name = "zero:" + c14ZeroReps[rep]
					}
					in := sx.L(sx.Nat(int(ver)), sx.Bytes(pk), opts.sx(), sx.Nat(entry), sx.N(uint64(seqno)), sx.Z(z), sx.L(ssx...), sx.Bytes(seed), sx.L(sx.Nat(rep)))
					out := c.Emit("c14.entry", in, fmt.Sprintf("entry-rep|%s|%s", c14Entries[entry], name))
					if rep == 0 {
						canon = out.String()
					}
					if out.K != sx.KL {
						c.Fail("c14.entry", in, "c14-entry-failed", c14Entries[entry]+" failed on valid Sendables")
						continue
					}
					if out.String() != canon || out.List[3].String() != sx.N(uint64(uint32(z))).String() {
						c.Fail("c14.entry", in, "c14-expiry-representation", fmt.Sprintf("%s with valid_until = second %d given as %s carries expiry %s", c14Entries[entry], z, name, out.List[3].String()))
					}
				}
			}
		}
	}
	// 3. oracle only: the whole signed body (not only the decoded projection) is independent of the representation, for the
	// v5r1 CreateSignedMsgBodyCell with extended actions too; and of the spelling of the other options: nil / empty
	// Sendable list, Sendables by value / by pointer, nil / empty option list
	bodyBits := func(b *boc.Cell, err error) string {
		if err != nil || b == nil {
			return "err"
		}
		h, herr := b.HashString()
		if herr != nil {
			return "err"
		}
		return h
	}
	for _, ver := range c14SendVersions {
		if ver == wallet.HighLoadV2R2 {
			continue // the query id carries a random number: no byte-exact comparison
		}
		seed := c14Seed(r)
		key := ed25519.NewKeyFromSeed(seed)
		opts := randOpts(r)
		w, err := wallet.New(key, ver, &fakeChain{}, opts.options()...)
		if err != nil {
			continue
		}
		seqno := boundary32(r)
		var dst ton.AccountID
		copy(dst.Address[:], r.Bytes(32))
		st := wallet.SimpleTransfer{Amount: tlb.Grams(r.U64() >> 20), Address: dst, Comment: "x"}
		msg := wallet.Message{Amount: 5, Address: dst, Mode: 3}
		for _, z := range setValues() {
			in := sx.L(sx.Nat(int(ver)), sx.Bytes(seed), opts.sx(), sx.N(uint64(seqno)), sx.Z(z))
			c.Note("c14.expiry", fmt.Sprintf("body-rep|v%d", int(ver)), in)
			cfg := func(rep int) wallet.MessageConfig {
				return wallet.MessageConfig{Seqno: seqno, ValidUntil: c14SetRep(z, rep), V5MsgType: wallet.V5MsgTypeSignedExternal}
			}
			canon := bodyBits(w.CreateMessageBody(cfg(0), st, msg))
			if canon == "err" {
				c.Fail("c14.expiry", in, "c14-create-body-failed", "CreateMessageBody failed")
				continue
			}
			for rep := range c14SetReps {
				if got := bodyBits(w.CreateMessageBody(cfg(rep), st, msg)); got != canon {
					c.Fail("c14.expiry", in, "c14-expiry-representation", "the signed body depends on the representation of the expiry ("+c14SetReps[rep]+")")
				}
			}
			if got := bodyBits(w.CreateMessageBody(cfg(0), &st, &msg)); got != canon {
				c.Fail("c14.expiry", in, "c14-option-representation", "Sendables given by pointer give another body than by value")
			}
			empty := bodyBits(w.CreateMessageBody(cfg(0)))
			if got := bodyBits(w.CreateMessageBody(cfg(1), []wallet.Sendable{}...)); got != empty || empty == "err" {
				c.Fail("c14.expiry", in, "c14-option-representation", "an empty and an absent Sendable list give different bodies")
			}
			if w2, err := wallet.New(key, ver, &fakeChain{}, append([]wallet.Option{}, opts.options()...)...); err != nil ||
				bodyBits(w2.CreateMessageBody(cfg(2), st, msg)) != canon {
				c.Fail("c14.expiry", in, "c14-option-representation", "an equal option list gives another body")
			}
			if ver == wallet.V5R1 {
				w5 := wallet.NewWalletV5R1(key.Public().(ed25519.PublicKey), wallet.Options{NetworkGlobalID: opts.net, Workchain: opts.wc, SubWalletID: opts.sub})
				raw, _ := sendable{kind: 0, amount: 7, addr: dst.Address[:], mode: 1}.raw()
				exts := wallet.W5ExtendedActions{}
				for _, x := range randExts(r, 1+r.Intn(2)) {
					exts = append(exts, x.toGo())
				}
				canon5 := bodyBits(w5.CreateSignedMsgBodyCell(key, []wallet.RawMessage{raw}, &exts, cfg(0)))
				for rep := range c14SetReps {
					if got := bodyBits(w5.CreateSignedMsgBodyCell(key, []wallet.RawMessage{raw}, &exts, cfg(rep))); got != canon5 || got == "err" {
						c.Fail("c14.expiry", in, "c14-expiry-representation", "v5r1 CreateSignedMsgBodyCell: the body depends on the representation of the expiry ("+c14SetReps[rep]+")")
					}
				}
			}
		}
		// RawSendV2: every representation of an expiry (the zero instant too) sends the same payload
		for _, zr := range []struct {
			zero bool
			z    int64
		}{{true, 0}, {false, int64(uint32(r.U64()))}} {
			n := len(c14SetReps)
			if zr.zero {
				n = len(c14ZeroReps)
			}
			in := sx.L(sx.Nat(int(ver)), sx.Bytes(seed), opts.sx(), sx.N(uint64(seqno)), sx.B(zr.zero), sx.Z(zr.z))
			c.Note("c14.entry", fmt.Sprintf("payload-rep|v%d|zero=%v", int(ver), zr.zero), in)
			raw, _ := sendable{kind: 0, amount: 7, addr: dst.Address[:], mode: 1}.raw()
			canon := ""
			for rep := 0; rep < n; rep++ {
				t := c14SetRep(zr.z, rep)
				if zr.zero {
					t = c14ZeroRep(rep)
				}
				chain := &fakeChain{}
				wr, err := wallet.New(key, ver, chain, opts.options()...)
				if err != nil {
					break
				}
				var msgs []wallet.RawMessage
				if rep%2 == 1 {
					msgs = []wallet.RawMessage{} // nil and empty lists are the same request
				}
				_, err = wr.RawSendV2(context.Background(), seqno, t, append(msgs, raw), nil, 0)
				got := "err"
				if err == nil && len(chain.payloads) == 1 {
					got = string(chain.payloads[0])
				}
				if rep == 0 {
					canon = got
				}
				if got != canon || got == "err" {
					c.Fail("c14.entry", in, "c14-expiry-representation", "RawSendV2: the payload depends on the representation of the expiry")
				}
			}
		}
	}
}
