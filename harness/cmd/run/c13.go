package main

// C13 — connection pool: selection rule (exhaustive grid through the
// VerifUpdateBest hook, compared with the Coq model and with the property
// statement itself) and the wait-list protocol (step-wise walks on the real
// subscribe / notifySubscribers / unsubscribe / updateBest / SetMasterHead
// compared with the LTS model; the real WaitMasterchainSeqno under the real Run
// loop; regression oracles for the four repaired defects).

import (
	"context"
	"fmt"
	"time"

	"github.com/tonkeeper/tongo/liteapi/pool"
	"github.com/tonkeeper/tongo/liteclient"
	"github.com/tonkeeper/tongo/ton"

	"verifharness/prng"
	"verifharness/sx"
)

func init() {
	execs["c13.ub"] = execC13UB
	execs["c13.ubx"] = execC13UBX
	execs["c13.walk"] = execC13Walk
	execs["c13.wait"] = execC13Wait
	execs["c13.add"] = execC13Add
	execs["c13.entry"] = execC13Entry
	execs["c13.repro"] = execC13Repro
	gens["C13"] = genC13
}

// ---- mock connection (implements the pool's unexported conn interface) ----

type mconn struct {
	idx    int
	alive  bool
	seqno  uint32
	seqno2 uint32 // what MasterHead() answers from its second call on: a head that rises while a refresh runs
	reads  int
	rtt    time.Duration
}

func (m *mconn) ID() int { return m.idx }
func (m *mconn) MasterHead() ton.BlockIDExt {
	m.reads++
	sq := m.seqno
	if m.reads > 1 {
		sq = m.seqno2
	}
	return ton.BlockIDExt{BlockID: ton.BlockID{Workchain: -1, Seqno: sq}}
}
func (m *mconn) SetMasterHead(ton.BlockIDExt)         {}
func (m *mconn) IsOK() bool                           { return m.alive }
func (m *mconn) Client() *liteclient.Client           { return nil }
func (m *mconn) Run(ctx context.Context, detect bool) {}
func (m *mconn) IsArchiveNode() bool                  { return false }
func (m *mconn) AverageRoundTrip() time.Duration      { return m.rtt }
func (m *mconn) Status() pool.ConnStatus              { return pool.ConnStatus{} }

var _ pool.VerifConn = &mconn{}

type mc struct {
	alive  bool
	seqno  uint32
	rtt    int64
	rising bool   // the head rises to seqno2 between the two reads of updateBest
	seqno2 uint32 // only if rising
}

func (c mc) second() uint32 {
	if c.rising {
		return c.seqno2
	}
	return c.seqno
}

func mcSx(c mc) sx.V {
	if c.rising {
		return sx.L(sx.B(c.alive), sx.N(uint64(c.seqno)), sx.N(uint64(c.seqno2)), sx.Z(c.rtt))
	}
	return sx.L(sx.B(c.alive), sx.N(uint64(c.seqno)), sx.Z(c.rtt))
}

func mcsSx(cs []mc) sx.V {
	vs := make([]sx.V, len(cs))
	for i, c := range cs {
		vs[i] = mcSx(c)
	}
	return sx.L(vs...)
}

func prevSx(prev int) sx.V {
	if prev < 0 {
		return sx.A("none")
	}
	return sx.Nat(prev)
}

var stratNames = []pool.Strategy{pool.BestPingStrategy, pool.FirstWorkingConnection, "round-robin"}

// implUpdateBest runs the real updateBest; prev/result are indices, -1 = nil.
func implUpdateBest(strat int, cs []mc, prev int) int {
	conns := make([]pool.VerifConn, len(cs))
	for i, c := range cs {
		conns[i] = &mconn{idx: i, alive: c.alive, seqno: c.seqno, seqno2: c.second(), rtt: time.Duration(c.rtt)}
	}
	var best pool.VerifConn
	if prev >= 0 && prev < len(conns) {
		best = conns[prev]
	}
	p := pool.VerifNewPool(stratNames[strat], conns, best)
	res := p.VerifUpdateBest()
	if res == nil {
		return -1
	}
	return res.(*mconn).idx
}

// specUpdateBest is the property statement: among the alive connections at most
// one block behind the newest head known to the pool, the lowest round-trip
// time (first among equals) under best-ping, the first one under first-working;
// otherwise the previous choice.
func specUpdateBest(strat int, cs []mc, prev int) int {
	if strat > 1 || len(cs) == 0 {
		return prev
	}
	// the newest head known when the refresh starts; a head that rises while the refresh
	// runs (second()) keeps its connection current
	var newest uint64
	for _, c := range cs {
		if uint64(c.seqno) > newest {
			newest = uint64(c.seqno)
		}
	}
	choice := -1
	for i, c := range cs {
		if !c.alive || uint64(c.second())+1 < newest {
			continue
		}
		if choice < 0 {
			choice = i
			if strat == 1 {
				break
			}
			continue
		}
		if c.rtt < cs[choice].rtt {
			choice = i
		}
	}
	if choice < 0 {
		return prev
	}
	return choice
}

func parseMcs(v sx.V) []mc {
	cs := make([]mc, len(v.List))
	for i, x := range v.List {
		if len(x.List) == 4 {
			cs[i] = mc{alive: x.List[0].Bool, seqno: uint32(x.List[1].U64()), rising: true, seqno2: uint32(x.List[2].U64()), rtt: x.List[3].Int.Int64()}
		} else {
			cs[i] = mc{alive: x.List[0].Bool, seqno: uint32(x.List[1].U64()), rtt: x.List[2].Int.Int64()}
		}
	}
	return cs
}

func choiceSx(i int) sx.V {
	if i < 0 {
		return sx.A("none")
	}
	return sx.Nat(i)
}

// c13.ub: (strategy prev (conn ...)) -> index | 'none
func execC13UB(in sx.V) sx.V {
	strat := in.List[0].I()
	prev := -1
	if in.List[1].K == sx.KN {
		prev = in.List[1].I()
	}
	return choiceSx(implUpdateBest(strat, parseMcs(in.List[2]), prev))
}

var gridSeqnos = []uint32{0, 1, 2, 3, 0xfffffffe, 0xffffffff}
var gridRtts = []int64{1, 2, 3}

func gridConns() []mc {
	var out []mc
	for _, al := range []bool{true, false} {
		for _, sq := range gridSeqnos {
			for _, r := range gridRtts {
				out = append(out, mc{alive: al, seqno: sq, rtt: r})
			}
		}
	}
	return out
}

// c13.ubx: (strategy (prefix ...)) -> results for every last connection of the
// grid x every previous choice
func execC13UBX(in sx.V) sx.V {
	strat := in.List[0].I()
	pre := parseMcs(in.List[1])
	var outs []sx.V
	for _, last := range gridConns() {
		cs := append(append([]mc{}, pre...), last)
		for prev := -1; prev < len(cs); prev++ {
			outs = append(outs, choiceSx(implUpdateBest(strat, cs, prev)))
		}
	}
	return sx.L(outs...)
}

type c13Fails struct {
	c    *Ctx
	seen map[string]int
}

func (f *c13Fails) fail(kind string, in sx.V, key, what string) {
	f.seen[key]++
	if f.seen[key] == 1 {
		f.c.Fail(kind, in, key, what)
	}
}

// oracle: the implementation against the property statement
func (f *c13Fails) oracleUB(strat int, cs []mc, prev int) {
	got := implUpdateBest(strat, cs, prev)
	want := specUpdateBest(strat, cs, prev)
	if got == want {
		return
	}
	in := sx.L(sx.Nat(strat), prevSx(prev), mcsSx(cs))
	f.fail("c13.ub", in, "updatebest-spec",
		fmt.Sprintf("updateBest chose %d, property demands %d", got, want))
}

func ubClass(strat int, cs []mc) string {
	var newest uint64
	for _, c := range cs {
		if uint64(c.seqno) > newest {
			newest = uint64(c.seqno)
		}
	}
	elig, ties := 0, 0
	var minr int64 = 1 << 62
	for _, c := range cs {
		if c.alive && newest-uint64(c.seqno) <= 1 {
			elig++
			if c.rtt < minr {
				minr, ties = c.rtt, 1
			} else if c.rtt == minr {
				ties++
			}
		}
	}
	eb := "0"
	if elig == 1 {
		eb = "1"
	} else if elig > 1 {
		eb = "2+"
		if ties > 1 {
			eb = "2+tie"
		}
	}
	hi := "low"
	if newest >= 0xfffffffe {
		hi = "hi"
	}
	kind := "ub"
	for _, c := range cs {
		if c.rising && c.seqno2 > c.seqno {
			kind = "ub-rising"
			if uint64(c.seqno2) > newest {
				kind = "ub-rising-above-max"
			}
		}
	}
	return fmt.Sprintf("%s|n%d|s%d|elig%s|%s", kind, minInt(len(cs), 5), strat, eb, hi)
}

func (f *c13Fails) emitUB(strat int, cs []mc, prev int) {
	f.oracleUB(strat, cs, prev)
	f.c.Emit("c13.ub", sx.L(sx.Nat(strat), prevSx(prev), mcsSx(cs)), ubClass(strat, cs))
}

func genC13UB(c *Ctx, f *c13Fails) {
	r := c.R
	grid := gridConns()
	// the witness of the repaired seqno-wrap defect first (so that it is the recorded input
	// should the defect come back)
	f.emitUB(0, []mc{{alive: true, seqno: 0xffffffff, rtt: 1}}, -1)
	f.emitUB(1, []mc{{alive: true, seqno: 0xffffffff, rtt: 1}}, -1)
	// empty pool
	for strat := 0; strat < 3; strat++ {
		f.emitUB(strat, nil, -1)
	}
	// exhaustive n = 1, 2 (all strategies, all previous choices)
	for strat := 0; strat < 3; strat++ {
		for _, a := range grid {
			for prev := -1; prev < 1; prev++ {
				f.emitUB(strat, []mc{a}, prev)
			}
			if strat == 2 {
				continue
			}
			for _, b := range grid {
				for prev := -1; prev < 2; prev++ {
					f.emitUB(strat, []mc{a, b}, prev)
				}
			}
		}
	}
	// sampled n = 3, 4 from the grid
	nS := c.Scale(16000, 60000)
	for i := 0; i < nS; i++ {
		n := 3 + r.Intn(2)
		cs := make([]mc, n)
		for j := range cs {
			cs[j] = grid[r.Intn(len(grid))]
		}
		f.emitUB(r.Intn(2), cs, r.Intn(n+1)-1)
	}
	// beyond the grid: up to 8 connections, heads around an arbitrary newest head,
	// arbitrary (also equal, zero, negative) round-trip times
	nR := c.Scale(3000, 40000)
	for i := 0; i < nR; i++ {
		n := 1 + r.Intn(8)
		var base uint32
		switch r.Intn(4) {
		case 0:
			base = uint32(r.Intn(6))
		case 1:
			base = 0xffffffff - uint32(r.Intn(4))
		default:
			base = uint32(r.U64())
		}
		cs := make([]mc, n)
		for j := range cs {
			d := uint32(r.Intn(4))
			sq := base
			if sq >= d {
				sq -= d
			}
			cs[j] = mc{alive: r.Chance(70), seqno: sq, rtt: int64(r.Intn(5)) - 1}
			if r.Chance(10) {
				cs[j].rtt = int64(r.U64() >> 1)
			}
		}
		f.emitUB(r.Intn(3), cs, r.Intn(n+1)-1)
	}
	// heads that rise while the refresh runs (updateBest reads every head twice holding only the
	// pool lock): the mock's MasterHead() answers seqno on the first call and a higher one later.
	// exhaustive n = 1, 2 over alive x seqno {0,1,2,fffffffe} x rise {0,1,2} x rtt {1,2}, sampled n = 3, 4
	rises := func(c mc, d uint32) mc {
		c.rising, c.seqno2 = true, c.seqno+d
		if c.seqno2 < c.seqno { // no head beyond 2^32-1
			c.seqno2 = 0xffffffff
		}
		return c
	}
	var rgrid []mc
	for _, al := range []bool{true, false} {
		for _, sq := range []uint32{0, 1, 2, 0xfffffffe} {
			for _, d := range []uint32{0, 1, 2} {
				for _, rt := range []int64{1, 2} {
					rgrid = append(rgrid, rises(mc{alive: al, seqno: sq, rtt: rt}, d))
				}
			}
		}
	}
	// the witness first: dead previous choice, the only alive connection gets the next block
	f.emitUB(0, []mc{{alive: false, seqno: 100, rtt: 1}, rises(mc{alive: true, seqno: 100, rtt: 2}, 1)}, 0)
	f.emitUB(1, []mc{{alive: false, seqno: 100, rtt: 1}, rises(mc{alive: true, seqno: 100, rtt: 2}, 1)}, 0)
	f.emitUB(0, []mc{{alive: true, seqno: 100, rtt: 30}, rises(mc{alive: true, seqno: 100, rtt: 2}, 1), {alive: true, seqno: 100, rtt: 20}}, 0)
	for strat := 0; strat < 2; strat++ {
		for _, a := range rgrid {
			for prev := -1; prev < 1; prev++ {
				f.emitUB(strat, []mc{a}, prev)
			}
		}
	}
	nR2 := c.Scale(2500, 30000)
	for i := 0; i < nR2; i++ {
		n := 2 + r.Intn(3)
		cs := make([]mc, n)
		for j := range cs {
			cs[j] = rgrid[r.Intn(len(rgrid))]
			if r.Chance(40) {
				cs[j].rising, cs[j].seqno2 = false, 0
			}
		}
		f.emitUB(r.Intn(2), cs, r.Intn(n+1)-1)
	}
	if !c.Thorough() {
		return
	}
	// thorough: rising heads, n = 2 exhaustively
	for strat := 0; strat < 2; strat++ {
		for _, a := range rgrid {
			for _, b := range rgrid {
				for prev := -1; prev < 2; prev++ {
					f.emitUB(strat, []mc{a, b}, prev)
				}
			}
		}
	}
	// thorough: the whole grid, n = 1..4, both strategies, every previous choice
	var rec func(pre []mc, depth int)
	rec = func(pre []mc, depth int) {
		for strat := 0; strat < 2; strat++ {
			for _, last := range grid {
				cs := append(append([]mc{}, pre...), last)
				for prev := -1; prev < len(cs); prev++ {
					f.oracleUB(strat, cs, prev)
				}
			}
			c.Emit("c13.ubx", sx.L(sx.Nat(strat), mcsSx(pre)), fmt.Sprintf("ubx|n%d|s%d", len(pre)+1, strat))
		}
		if depth == 0 {
			return
		}
		for _, a := range grid {
			rec(append(append([]mc{}, pre...), a), depth-1)
		}
	}
	rec(nil, 3)
}

func genC13(c *Ctx) {
	f := &c13Fails{c: c, seen: map[string]int{}}
	defer genC13r8(c, f)() // round 8: wall-clock scenarios start here in the background, verdicts are collected at the end
	genC13UB(c, f)
	genC13Add(c, f)
	genC13Repro(c, f)
	genC13Walks(c, f)
	genC13Waits(c, f)
	genC13Waits2(c, f)
	genC13Entries(c, f)
}

var _ = prng.New

// ---- pools built through the real addConnection, in every arrival order ----

func hostOf(id int) string { return fmt.Sprintf("host-%02d", id) }

// c13.add: (strategy (arrival id ...) ((alive seqno rtt) per id)) ->
// ((pool order as listed by Status()) bestConn after initialisation, choice after updateBest), as ids
func execC13Add(in sx.V) sx.V {
	strat := in.List[0].I()
	obs := parseMcs(in.List[2])
	p := pool.New(stratNames[strat])
	for _, a := range in.List[1].List {
		id := a.I()
		rc := p.VerifAddConnection(id, hostOf(id))
		if id < len(obs) {
			rc.SetMasterHead(obs[id].seqno)
		}
		for {
			if _, ok := p.VerifTakeUpdate(); !ok {
				break
			}
		}
	}
	idOfHost := map[string]int{}
	for id := 0; id < 64; id++ {
		idOfHost[hostOf(id)] = id
	}
	var order []sx.V
	for _, st := range p.Status().Connections {
		order = append(order, sx.Nat(idOfHost[st.ServerHost]))
	}
	idSx := func(c pool.VerifConn) sx.V {
		if c == nil {
			return sx.A("none")
		}
		return sx.Nat(c.ID())
	}
	best0 := idSx(p.VerifBest())
	p.VerifWrapConns(func(c pool.VerifConn) pool.VerifConn {
		w := &wconn{inner: c, idx: c.ID()}
		if c.ID() < len(obs) {
			w.alive.Store(obs[c.ID()].alive)
			w.rtt.Store(obs[c.ID()].rtt)
		}
		return w
	})
	return sx.L(sx.L(order...), best0, idSx(p.VerifUpdateBest()))
}

func permutations(xs []int) [][]int {
	if len(xs) <= 1 {
		return [][]int{append([]int{}, xs...)}
	}
	var out [][]int
	for i := range xs {
		rest := append(append([]int{}, xs[:i]...), xs[i+1:]...)
		for _, p := range permutations(rest) {
			out = append(out, append([]int{xs[i]}, p...))
		}
	}
	return out
}

func genC13Add(c *Ctx, f *c13Fails) {
	r := c.R
	grid := gridConns()
	emit := func(strat int, arrival []int, obs []mc) {
		as := make([]sx.V, len(arrival))
		for i, a := range arrival {
			as[i] = sx.Nat(a)
		}
		in := sx.L(sx.Nat(strat), sx.L(as...), mcsSx(obs))
		inOrder := "ordered"
		for i := 1; i < len(arrival); i++ {
			if arrival[i] < arrival[i-1] {
				inOrder = "shuffled"
			}
		}
		res := c.Emit("c13.add", in, fmt.Sprintf("add|n%d|s%d|%s", len(arrival), strat, inOrder))
		// oracle: the pool is in configuration order; the first arrival is bestConn; the choice is
		// the property's choice on the configuration-ordered pool
		ids := append([]int{}, arrival...)
		sortInts(ids)
		okOrder := len(res.List) == 3 && len(res.List[0].List) == len(ids)
		for i := 0; okOrder && i < len(ids); i++ {
			okOrder = res.List[0].List[i].K == sx.KN && res.List[0].List[i].I() == ids[i]
		}
		if !okOrder {
			f.fail("c13.add", in, "pool-not-in-configuration-order",
				fmt.Sprintf("after addConnection in arrival order %v Status() lists the connections as %s", arrival, res.List[0].String()))
			if len(res.List) != 3 {
				return
			}
		}
		cs := make([]mc, len(ids))
		prev := -1
		for i, id := range ids {
			cs[i] = obs[id]
			if id == arrival[0] {
				prev = i
			}
		}
		want := specUpdateBest(strat, cs, prev)
		got := -2
		if res.List[2].K == sx.KN {
			for i, id := range ids {
				if id == res.List[2].I() {
					got = i
				}
			}
		}
		if got != want {
			f.fail("c13.add", in, "updatebest-arrival-order",
				fmt.Sprintf("pool registered in arrival order %v: updateBest chose %s, the property demands the connection at configuration position %d of %v", arrival, res.List[2].String(), want, ids))
		}
	}
	all := []int{0, 1, 2, 3}
	k := c.Scale(3, 40)
	for mask := 1; mask < 16; mask++ {
		var sub []int
		for _, id := range all {
			if mask&(1<<id) != 0 {
				sub = append(sub, id)
			}
		}
		for _, arrival := range permutations(sub) {
			for strat := 0; strat < 2; strat++ {
				// everybody alive and at the newest head
				obs := []mc{{alive: true, seqno: 100, rtt: 4}, {alive: true, seqno: 100, rtt: 3}, {alive: true, seqno: 100, rtt: 2}, {alive: true, seqno: 100, rtt: 1}}
				emit(strat, arrival, obs)
				for j := 0; j < k; j++ {
					obs := make([]mc, 4)
					for i := range obs {
						obs[i] = grid[r.Intn(len(grid))]
						if r.Chance(60) {
							obs[i].alive = true
						}
					}
					emit(strat, arrival, obs)
				}
			}
		}
	}
	// larger pools, sparse ids
	n := c.Scale(60, 1500)
	for i := 0; i < n; i++ {
		m := 2 + r.Intn(7)
		arrival := randPerm(r, 12)[:m]
		obs := make([]mc, 12)
		base := uint32(r.Intn(6))
		for j := range obs {
			obs[j] = mc{alive: r.Chance(70), seqno: base + uint32(r.Intn(3)), rtt: int64(1 + r.Intn(4))}
		}
		emit(r.Intn(3), arrival, obs)
	}
}

func sortInts(xs []int) {
	for i := 1; i < len(xs); i++ {
		for j := i; j > 0 && xs[j] < xs[j-1]; j-- {
			xs[j], xs[j-1] = xs[j-1], xs[j]
		}
	}
}

func randPerm(r *prng.R, n int) []int {
	xs := make([]int, n)
	for i := range xs {
		xs[i] = i
	}
	for i := n - 1; i > 0; i-- {
		j := r.Intn(i + 1)
		xs[i], xs[j] = xs[j], xs[i]
	}
	return xs
}
