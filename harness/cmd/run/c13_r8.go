package main

// C13 (round 8): two families of wall-clock scenarios on the real pool code, run in
// background goroutines that overlap the other C13 cases (oracle on the implementation
// only; the step-by-step LTS of Model/PoolWait.v has no clock and no preemption inside
// SetMasterHead, so nothing is sent to the model).
//
// c13.refresh  periodic work that must happen regardless of other traffic: the real Run
//   loop with a short refresh interval, real connection objects, a steady stream of head
//   updates whose gaps are a fraction (1/10) of the interval - from every live connection
//   or only from connections other than the current choice.  While the stream runs the
//   chosen connection dies (twice in a row) or falls behind by more and more blocks while
//   staying alive; every time the pool must have left it for a live, current connection
//   within refreshBound.  The refresh of the choice is owed every updateBestInterval,
//   whether or not head updates arrive in between.
//
// c13.sethead  check-then-act on the head of ONE connection: several goroutines report
//   different new heads to the same connection at the same instant (in production:
//   connection.Run and the callers of MasterchainInfoClient); whatever the interleaving
//   the connection must end at the highest head reported, and a concurrent reader of
//   MasterHead() must never see the head go backwards (updateBest's "at most one block
//   behind" and subscribe's "already reached" tests read it).

import (
	"context"
	"fmt"
	"runtime"
	"sync"
	"sync/atomic"
	"time"

	"github.com/tonkeeper/tongo/liteapi/pool"

	"verifharness/sx"
)

const (
	r8Interval     = 100 * time.Millisecond // updateBestInterval of the scenario pools
	r8Gap          = 10 * time.Millisecond  // gap between two head updates: interval / 10
	r8RefreshBound = 10 * r8Interval        // the choice must have been refreshed by then (owed after 1 interval)
)

// r8RefreshScenario: strategy strat; fromBest = the current choice publishes heads too (while it is alive and current).
func r8RefreshScenario(strat int, fromBest bool) (bool, string) {
	p, conns, wraps := newWalkPool(strat, 3)
	p.VerifSetUpdateInterval(r8Interval)
	for i := range conns {
		wraps[i].alive.Store(true)
		wraps[i].rtt.Store(int64(1 + 4*i))
	}
	ctx, cancel := context.WithCancel(context.Background())
	go p.Run(ctx)
	for i := range conns {
		conns[i].SetMasterHead(100)
	}
	// frozen[i]: connection i receives no new heads (dead, or alive but lagging)
	var frozen [3]atomic.Bool
	var stop atomic.Bool
	var head atomic.Uint32
	head.Store(100)
	var longestGap atomic.Int64
	pubDone := goStep(func() {
		last := time.Now()
		for !stop.Load() {
			h := head.Add(1)
			best := -1
			if b := p.VerifBest(); b != nil {
				best = b.ID()
			}
			for i := range conns {
				if frozen[i].Load() || (!fromBest && i == best) {
					continue
				}
				conns[i].SetMasterHead(h)
			}
			time.Sleep(r8Gap)
			now := time.Now()
			if g := int64(now.Sub(last)); g > longestGap.Load() {
				longestGap.Store(g)
			}
			last = now
		}
	})
	finish := func() {
		stop.Store(true)
		finished(pubDone, 5*time.Second)
		cancel()
	}
	bestID := func() int {
		if b := p.VerifBest(); b != nil {
			return b.ID()
		}
		return -1
	}
	// waitBest: the choice satisfies ok within the bound
	waitBest := func(ok func(int) bool) (int, time.Duration, bool) {
		begin := time.Now()
		for time.Since(begin) < r8RefreshBound {
			if b := bestID(); ok(b) {
				return b, time.Since(begin), true
			}
			time.Sleep(2 * time.Millisecond)
		}
		return bestID(), time.Since(begin), false
	}
	describe := func(phase string, got int) string {
		return fmt.Sprintf("strategy %s, head updates every %v (from %s) and a refresh interval of %v: %s, but %v later the pool still uses connection #%d (alive=%v, head %d; newest head of the pool %d; longest gap between two updates %v): the periodic refresh of the choice does not happen while head updates keep arriving",
			stratNames[strat], r8Gap, map[bool]string{true: "every live connection", false: "the connections other than the choice"}[fromBest],
			r8Interval, phase, r8RefreshBound, got, got >= 0 && wraps[got].alive.Load(), headOf(wraps, got), head.Load(), time.Duration(longestGap.Load()))
	}
	if b := bestID(); b != 0 {
		finish()
		return true, fmt.Sprintf("a fresh pool's choice is #%d, not the first connection", b)
	}
	// phase 1: the choice dies
	frozen[0].Store(true)
	wraps[0].alive.Store(false)
	if got, _, ok := waitBest(func(b int) bool { return b == 1 }); !ok {
		finish()
		return true, describe("the chosen connection #0 died, #1 is alive and current (lowest round trip / first of the live ones)", got)
	}
	// phase 2: the next choice dies too (the refresh is periodic, not one-shot)
	frozen[1].Store(true)
	wraps[1].alive.Store(false)
	if got, _, ok := waitBest(func(b int) bool { return b == 2 }); !ok {
		finish()
		return true, describe("the chosen connection #1 died as well, #2 is alive and current", got)
	}
	// phase 3: #0 comes back (current again, best round trip / first) and must be chosen again
	conns[0].SetMasterHead(head.Load())
	wraps[0].alive.Store(true)
	frozen[0].Store(false)
	if got, _, ok := waitBest(func(b int) bool { return b == 0 }); !ok {
		finish()
		return true, describe("connection #0 is alive and current again (lowest round trip / first of the live ones)", got)
	}
	// phase 4: the choice stays alive but receives no more blocks: once it is 2+ blocks behind it must be left
	frozen[0].Store(true)
	if got, _, ok := waitBest(func(b int) bool { return b == 2 }); !ok {
		finish()
		return true, describe("the chosen connection #0 stays alive but no longer advances (2+ blocks behind), #2 is alive and current", got)
	}
	finish()
	return false, ""
}

// r8SetHeadStress: rounds of `workers` concurrent SetMasterHead calls on one real connection.
func r8SetHeadStress(workers, rounds int) (bool, string) {
	if runtime.GOMAXPROCS(0) < 2 {
		return false, ""
	}
	p := pool.New(pool.BestPingStrategy)
	rc := p.VerifAddConnection(0, hostOf(0))
	ctx, cancel := context.WithCancel(context.Background())
	defer cancel()
	go p.Run(ctx) // drains the update buffer
	var stop atomic.Bool
	var backwards atomic.Uint64 // (from << 32) | to
	readerDone := goStep(func() {
		last := uint32(0)
		for !stop.Load() {
			h := rc.Conn().MasterHead().Seqno
			if h < last && backwards.Load() == 0 {
				backwards.Store(uint64(last)<<32 | uint64(h))
			}
			last = h
		}
	})
	defer func() { stop.Store(true); finished(readerDone, time.Second) }()
	base := uint32(10)
	for r := 0; r < rounds; r++ {
		var wg sync.WaitGroup
		start := make(chan struct{})
		for w := 1; w <= workers; w++ {
			wg.Add(1)
			go func(seqno uint32) {
				defer wg.Done()
				<-start
				rc.SetMasterHead(seqno)
			}(base + uint32(w))
		}
		close(start)
		wg.Wait()
		want := base + uint32(workers)
		if got := rc.Conn().MasterHead().Seqno; got != want {
			return true, fmt.Sprintf("round %d: the heads %d..%d were reported to one connection by %d goroutines at the same time (SetMasterHead), the connection ended at head %d: its head went backwards from %d",
				r, base+1, want, workers, got, want)
		}
		if bw := backwards.Load(); bw != 0 {
			return true, fmt.Sprintf("round %d: a reader of MasterHead() saw the head of one connection go from %d back to %d while %d goroutines reported the heads %d..%d",
				r, bw>>32, bw&0xffffffff, workers, base+1, want)
		}
		base = want
	}
	return false, ""
}

type r8Verdict struct {
	kind, class, key string
	in               sx.V
	bad              bool
	what             string
}

// genC13r8 starts the scenarios in the background and returns the function that collects
// the verdicts (call it after the other C13 families have run).
func genC13r8(c *Ctx, f *c13Fails) func() {
	var mu sync.Mutex
	var wg sync.WaitGroup
	var verdicts []r8Verdict
	launch := func(kind, class, key string, in sx.V, run func() (bool, string)) {
		wg.Add(1)
		idx := len(verdicts)
		verdicts = append(verdicts, r8Verdict{kind: kind, class: class, key: key, in: in})
		go func() {
			defer wg.Done()
			bad, what := false, ""
			func() {
				defer func() {
					if r := recover(); r != nil {
						bad, what = true, fmt.Sprintf("panic: %v", r)
					}
				}()
				bad, what = run()
			}()
			mu.Lock()
			verdicts[idx].bad, verdicts[idx].what = bad, what
			mu.Unlock()
		}()
	}
	for strat := 0; strat < 2; strat++ {
		for _, fromBest := range []bool{true, false} {
			strat, fromBest := strat, fromBest
			src := "all"
			if !fromBest {
				src = "others"
			}
			launch("c13.refresh", fmt.Sprintf("steady-updates|%s|from-%s", stratNames[strat], src), "refresh-starved-by-updates",
				sx.L(sx.Nat(strat), sx.B(fromBest), sx.Nat(int(r8Interval/time.Millisecond)), sx.Nat(int(r8Gap/time.Millisecond))),
				func() (bool, string) { return r8RefreshScenario(strat, fromBest) })
		}
	}
	for _, workers := range []int{2, 4} {
		workers := workers
		rounds := c.Scale(40000, 200000)
		launch("c13.sethead", fmt.Sprintf("concurrent|%d-writers", workers), "sethead-not-atomic",
			sx.L(sx.Nat(workers), sx.Nat(rounds)),
			func() (bool, string) { return r8SetHeadStress(workers, rounds) })
	}
	return func() {
		wg.Wait()
		for _, v := range verdicts {
			c.Note(v.kind, v.class, v.in)
			if v.bad {
				f.fail(v.kind, v.in, v.key, v.what)
			}
		}
	}
}
