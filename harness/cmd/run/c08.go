package main

// C08: TL-B and TL decoders are total on untrusted input.
//
// Correspondence kinds (implementation vs extracted model, outcome class and the
// amount of input left unread):
//   c08.tl       tl.Unmarshal of every generated lite-server type / basic kind
//   c08.tlb      tlb.Unmarshal of descriptor-described TL-B types on cell trees
//                with exotic cells
//   c08.declen / c08.answer / c08.packet   ADNL framing helpers
//   c08.vmstack / c08.methods / c08.accproof   indexing of parsed BOC roots
// Go-side oracles: never panic / crash / timeout; memory bounded by the
// constants of Properties/C08_gen.v.
// Exploration support only (no model, Go no-panic oracle): TL-B types with
// hand-written decoders (hashmaps, VmStack, messages, transactions, blocks).

import (
	"bufio"
	"bytes"
	"context"
	"crypto/ed25519"
	"encoding/binary"
	"encoding/json"
	"fmt"
	"math/big"
	"net"
	"os"
	"path/filepath"
	"reflect"
	"regexp"
	"runtime"
	"sort"
	"strconv"
	"strings"
	"sync"
	"time"
	"unsafe"

	"github.com/tonkeeper/tongo/boc"
	"github.com/tonkeeper/tongo/code"
	"github.com/tonkeeper/tongo/liteapi"
	"github.com/tonkeeper/tongo/liteapi/pool"
	"github.com/tonkeeper/tongo/liteclient"
	"github.com/tonkeeper/tongo/tl"
	"github.com/tonkeeper/tongo/tlb"
	"github.com/tonkeeper/tongo/ton"

	"verifharness/prng"
	"verifharness/sx"
)

func init() {
	execs["c08.tl"] = execC08Tl
	execs["c08.tlb"] = execC08Tlb
	execs["c08.declen"] = execC08Declen
	execs["c08.answer"] = execC08Answer
	execs["c08.answer2"] = execC08Answer2
	execs["c08.mapint"] = execC08MapInt
	execs["c08.reader"] = execC08Reader
	execs["c08.reuse"] = execC08Reuse
	execs["c08.reqdec"] = execC08ReqDec
	execs["c08.bocgo"] = execC08BocGo
	execs["c08.client"] = execC08Client
	execs["c08.pktalloc"] = execC08PktAlloc
	execs["c08.limit"] = execC08Limit
	execs["c08.packet"] = execC08Packet
	execs["c08.vmstack"] = execC08Vmstack
	execs["c08.methods"] = execC08Methods
	execs["c08.accproof"] = execC08Accproof
	execs["c08.tlbgo"] = execC08TlbGo
	execs["c08.vmtlgo"] = execC08VmTlGo
	gens["C08"] = genC08
	for _, t := range c08TlbTypes {
		if d := c08DeriveTop(t); d != nil {
			c08TlbByDesc[d.sx().String()] = t
		}
	}
}

// ---------------------------------------------------------------- TL

var c08Basic = map[string]reflect.Type{
	"#u32":        reflect.TypeOf(uint32(0)),
	"#u64":        reflect.TypeOf(uint64(0)),
	"#bool":       reflect.TypeOf(false),
	"#bytes":      reflect.TypeOf([]byte{}),
	"#string":     reflect.TypeOf(""),
	"#int256":     reflect.TypeOf(tl.Int256{}),
	"#vec_u32":    reflect.TypeOf([]uint32{}),
	"#vec_u64":    reflect.TypeOf([]uint64{}),
	"#vec_int256": reflect.TypeOf([]tl.Int256{}),
	"#vec_bytes":  reflect.TypeOf([][]byte{}),
}

func c08TypeOf(name string) (reflect.Type, bool) {
	if t, ok := c08Basic[name]; ok {
		return t, true
	}
	t, ok := c08Types[name]
	return t, ok
}

func execC08Tl(in sx.V) sx.V {
	t, ok := c08TypeOf(in.List[0].Atom)
	if !ok {
		return sx.L(sx.A("harness-error"), sx.A("type"))
	}
	v := reflect.New(t)
	r := bytes.NewReader(in.List[1].Bytes)
	if err := tl.Unmarshal(r, v.Interface()); err != nil {
		return sx.A("err")
	}
	return sx.L(sx.A("ok"), sx.Nat(r.Len()))
}

// constants of Properties/C08_gen.v
const c08Slope = 901
const c08Intercept = 2446529

// in-process allocation measurement of one decode
func c08MeasureTl(name string, bs []byte) (alloc uint64, panicked bool) {
	defer func() {
		if r := recover(); r != nil {
			panicked = true
		}
	}()
	t, _ := c08TypeOf(name)
	var m0, m1 runtime.MemStats
	runtime.ReadMemStats(&m0)
	v := reflect.New(t)
	_ = tl.Unmarshal(bytes.NewReader(bs), v.Interface())
	runtime.ReadMemStats(&m1)
	return m1.TotalAlloc - m0.TotalAlloc, false
}

// random value of a generated type, filled by reflection
func c08Fill(r *prng.R, v reflect.Value, depth int) {
	switch v.Kind() {
	case reflect.Uint32:
		if r.Chance(50) {
			v.SetUint(uint64(r.Intn(64)))
		} else {
			v.SetUint(r.U64() & 0xffffffff)
		}
	case reflect.Uint64, reflect.Int64:
		if v.Kind() == reflect.Uint64 {
			v.SetUint(r.U64())
		} else {
			v.SetInt(int64(r.U64()))
		}
	case reflect.Int32:
		v.SetInt(int64(int32(r.U64())))
	case reflect.Bool:
		v.SetBool(r.Bool())
	case reflect.String:
		v.SetString(string(r.Bytes(r.Pick([]int{0, 1, 3, 4, 7, 253, 254, 255, 300}))))
	case reflect.Array:
		for i := 0; i < v.Len(); i++ {
			v.Index(i).SetUint(r.U64() & 0xff)
		}
	case reflect.Slice:
		if v.Type().Elem().Kind() == reflect.Uint8 {
			v.SetBytes(r.Bytes(r.Pick([]int{0, 1, 2, 3, 4, 5, 8, 100, 252, 253, 254, 255, 256, 257, 1000, 4095, 4096, 4097, 5000})))
			return
		}
		n := r.Pick([]int{0, 0, 1, 2, 3, 5})
		if depth > 3 {
			n = 0
		}
		s := reflect.MakeSlice(v.Type(), n, n)
		for i := 0; i < n; i++ {
			c08Fill(r, s.Index(i), depth+1)
		}
		v.Set(s)
	case reflect.Pointer:
		p := reflect.New(v.Type().Elem())
		c08Fill(r, p.Elem(), depth+1)
		v.Set(p)
	case reflect.Struct:
		if _, ok := v.Type().FieldByName("SumType"); ok {
			var alts []int
			for i := 0; i < v.NumField(); i++ {
				if v.Type().Field(i).Name != "SumType" {
					alts = append(alts, i)
				}
			}
			if len(alts) == 0 {
				return
			}
			k := alts[r.Intn(len(alts))]
			v.FieldByName("SumType").SetString(v.Type().Field(k).Name)
			c08Fill(r, v.Field(k), depth+1)
			return
		}
		for i := 0; i < v.NumField(); i++ {
			if v.Field(i).CanSet() {
				c08Fill(r, v.Field(i), depth+1)
			}
		}
	}
}

func c08Marshal(v any) (b []byte, ok bool) {
	defer func() {
		if r := recover(); r != nil {
			ok = false
		}
	}()
	b, err := tl.Marshal(v)
	return b, err == nil
}

var c08Attacks = [][]byte{
	{0xff, 0xff, 0xff, 0x7f}, {0xff, 0xff, 0xff, 0xff}, {0xfe, 0xff, 0xff, 0xff}, {0xff, 0xff, 0xff, 0x00},
	{0x00, 0x10, 0x00, 0x00}, {0x01, 0x10, 0x00, 0x00}, {0xfe, 0x00, 0x10, 0x00}, {0xfe, 0x01, 0x10, 0x00},
	{0xfe, 0x00, 0x00, 0x00}, {0xfd, 0x00, 0x00, 0x00}, {0xff, 0x00, 0x00, 0x00}, {0x00, 0x00, 0x00, 0x80},
}

func c08TlCase(c *Ctx, name string, bs []byte, class string, guarded bool) {
	in := sx.L(sx.A(name), sx.Bytes(bs))
	var out sx.V
	if guarded {
		out = c.EmitGuarded("c08.tl", in, class)
	} else {
		out = c.Emit("c08.tl", in, class)
	}
	s := out.String()
	if strings.Contains(s, "'panic") {
		c.Fail("c08.tl", in, "tl-panic", "tl.Unmarshal panicked")
	} else if strings.Contains(s, "'crash") || strings.Contains(s, "'timeout") {
		c.Fail("c08.tl", in, "tl-crash", "tl.Unmarshal exhausted memory or time: "+s)
	} else if guarded {
		// the child survived: measure the allocation in-process
		a, p := c08MeasureTl(name, bs)
		if p {
			c.Fail("c08.tl", in, "tl-panic", "tl.Unmarshal panicked")
		} else if a > uint64(c08Slope*len(bs)+c08Intercept) {
			c.Fail("c08.tl", in, "tl-alloc", fmt.Sprintf("allocated %d bytes for %d bytes of input", a, len(bs)))
		}
	}
}

func genC08TL(c *Ctx) {
	var names []string
	for n := range c08Types {
		names = append(names, n)
	}
	for n := range c08Basic {
		names = append(names, n)
	}
	sort.Strings(names)
	perType := c.Scale(2, 12)
	for ti, name := range names {
		r := c.R.Fork(uint64(1000 + ti))
		t, _ := c08TypeOf(name)
		fam := "gen"
		if strings.HasPrefix(name, "#") {
			fam = "basic"
		}
		for k := 0; k < perType; k++ {
			v := reflect.New(t)
			c08Fill(r, v.Elem(), 0)
			enc, ok := c08Marshal(v.Elem().Interface())
			if !ok {
				enc = r.Bytes(r.Intn(40))
			}
			c08TlCase(c, name, enc, fam+"|valid", false)
			// truncation at every offset (sampled for long encodings)
			step := 1
			if len(enc) > c.Scale(24, 120) {
				step = len(enc)/c.Scale(24, 120) + 1
			}
			for off := 0; off < len(enc); off += step {
				c08TlCase(c, name, enc[:off], fam+"|trunc", false)
			}
			// single byte substitutions
			for j := 0; j < c.Scale(3, 12) && len(enc) > 0; j++ {
				m := append([]byte{}, enc...)
				m[r.Intn(len(m))] = byte(r.U64())
				c08TlCase(c, name, m, fam+"|subst", true)
			}
			// trailing garbage
			c08TlCase(c, name, append(append([]byte{}, enc...), r.Bytes(1+r.Intn(8))...), fam+"|extra", false)
			// length / count attacks at 4-aligned offsets, in the guarded child
			for j := 0; j < c.Scale(4, 16); j++ {
				m := append([]byte{}, enc...)
				a := c08Attacks[r.Intn(len(c08Attacks))]
				off := 0
				if len(m) >= 8 {
					off = 4 * r.Intn(len(m)/4)
				}
				if off+4 > len(m) {
					m = append(m[:off], a...)
				} else {
					copy(m[off:], a)
				}
				if r.Chance(30) && off+4 <= len(m) {
					m = m[:off+4] // nothing behind the announced length
				}
				c08TlCase(c, name, m, fam+"|attack", true)
			}
		}
		// random bytes
		for k := 0; k < c.Scale(2, 8); k++ {
			c08TlCase(c, name, r.Bytes(r.Intn(64)), fam+"|random", true)
		}
	}
	// directed: the F12 witnesses and the pre-allocation boundaries
	w := func(name string, hexs ...[]byte) {
		for _, b := range hexs {
			c08TlCase(c, name, b, "directed", true)
		}
	}
	big := func(count uint32, elems int, esz int) []byte {
		b := make([]byte, 4, 4+elems*esz)
		binary.LittleEndian.PutUint32(b, count)
		return append(b, make([]byte, elems*esz)...)
	}
	w("#vec_u64", []byte{0xff, 0xff, 0xff, 0x7f, 0, 0, 0, 0}, big(4095, 4095, 8), big(4096, 4096, 8), big(4097, 4097, 8),
		big(4097, 4096, 8), big(0xffffffff, 3, 8), big(5000, 5000, 8))
	w("#vec_int256", big(0x7fffffff, 1, 32), big(4097, 4097, 32))
	w("LiteServerTransactionListC", []byte{0xff, 0xff, 0xff, 0x00}, []byte{0xff, 0xff, 0xff, 0x7f, 0, 0, 0, 0})
	w("LiteServerBlockTransactionsC", big(0x00ffffff, 0, 0))
	long := func(n int, have int) []byte {
		b := []byte{0xfe, byte(n), byte(n >> 8), byte(n >> 16)}
		b = append(b, make([]byte, have)...)
		for len(b)%4 != 0 && have == n {
			b = append(b, 0)
		}
		return b
	}
	w("#bytes", []byte{0xfe, 0xff, 0xff, 0xff}, long(4095, 4095), long(4096, 4096), long(4097, 4097), long(4097, 4096),
		long(70000, 70000), long(70000, 69999), long(0xffffff, 100), long(0, 0), long(3, 3), long(253, 253), long(254, 254))
	w("#string", []byte{0xfe, 0xff, 0xff, 0xff}, long(5000, 5000))
	w("#vec_bytes", big(3, 3, 4), big(0x7fffffff, 2, 4))
}

// ---------------------------------------------------------------- TL-B

type c08Desc struct {
	Len  int    // peek: width of the field looked at
	K    string // u i bu bi bool bits var unary magic maybe either eref ref mref struct sum any cell addr
	W    int
	Val  uint64
	Sub  []*c08Desc
	Alts []c08Alt
}
type c08Alt struct {
	Len int
	Val uint64
	T   *c08Desc
}

func (d *c08Desc) sx() sx.V {
	switch d.K {
	case "bool", "unary", "any", "cell", "addr", "grams", "snake", "bytes", "ftext", "vmstack", "vmvalue", "vmtuple", "cslice", "fail", "rawcell", "text":
		return sx.A(d.K)
	case "bintree":
		return sx.L(sx.A("bintree"), sx.N(d.Val), d.Sub[0].sx())
	case "peek":
		return sx.L(sx.A("peek"), sx.Nat(d.W), sx.Nat(d.Len), sx.N(d.Val), d.Sub[0].sx(), d.Sub[1].sx())
	case "hm":
		return sx.L(sx.A("hm"), sx.Nat(d.W), sx.N(d.Val), d.Sub[0].sx())
	case "hmaug":
		return sx.L(sx.A("hmaug"), sx.Nat(d.W), sx.N(d.Val), d.Sub[0].sx(), d.Sub[1].sx())
	case "u", "i", "bu", "bi", "bits", "var":
		return sx.L(sx.A(d.K), sx.Nat(d.W))
	case "magic":
		return sx.L(sx.A("magic"), sx.Nat(d.W), sx.N(d.Val))
	case "sum":
		vs := []sx.V{sx.A("sum")}
		for _, a := range d.Alts {
			vs = append(vs, sx.L(sx.Nat(a.Len), sx.N(a.Val), a.T.sx()))
		}
		return sx.L(vs...)
	default:
		vs := []sx.V{sx.A(d.K)}
		for _, s := range d.Sub {
			vs = append(vs, s.sx())
		}
		return sx.L(vs...)
	}
}

func (d *c08Desc) hasAny() bool {
	if d.K == "any" {
		return true
	}
	for _, s := range d.Sub {
		if s.hasAny() {
			return true
		}
	}
	for _, a := range d.Alts {
		if a.T.hasAny() {
			return true
		}
	}
	return false
}

func (d *c08Desc) hasHashed() bool {
	if d.K == "hashed" {
		return true
	}
	for _, s := range d.Sub {
		if s.hasHashed() {
			return true
		}
	}
	for _, a := range d.Alts {
		if a.T.hasHashed() {
			return true
		}
	}
	return false
}

// the oracle column of the hash-first decoders: paths (reference indices) of the
// cells on which boc.Cell.Hash() fails
func c08HashFailPaths(t *c08Tree) sx.V {
	var out []sx.V
	var walk func(n *c08Tree, path []sx.V)
	walk = func(n *c08Tree, path []sx.V) {
		failed := func() (bad bool) {
			defer func() {
				if r := recover(); r != nil {
					bad = true
				}
			}()
			_, err := n.cell().Hash()
			return err != nil
		}()
		if failed {
			out = append(out, sx.L(append([]sx.V{}, path...)...))
		}
		for i, r := range n.Refs {
			walk(r, append(append([]sx.V{}, path...), sx.Nat(i)))
		}
	}
	walk(t, nil)
	return sx.L(out...)
}

func c08TlbInput(d *c08Desc, tree *c08Tree) sx.V {
	if d.hasHashed() {
		return sx.L(sx.B(!d.hasAny()), d.sx(), tree.sx(), c08HashFailPaths(tree))
	}
	return sx.L(sx.B(!d.hasAny()), d.sx(), tree.sx())
}

// hasLoop: the decoder follows the data (dictionary, stack list, tuple, snake)
func (d *c08Desc) hasLoop() bool {
	switch d.K {
	case "hm", "hmaug", "vmstack", "vmvalue", "vmtuple", "snake", "bytes", "cslice", "text", "bintree", "hashed":
		return true
	}
	for _, s := range d.Sub {
		if s.hasLoop() {
			return true
		}
	}
	for _, a := range d.Alts {
		if a.T.hasLoop() {
			return true
		}
	}
	return false
}

func c08KeyBits(k reflect.Type) (int, bool) {
	fs, ok := reflect.New(k).Elem().Interface().(interface{ FixedSize() int })
	if !ok {
		return 0, false
	}
	n := fs.FixedSize()
	dk := c08Derive(k, "")
	if dk == nil || dk.W != n {
		return 0, false
	}
	switch dk.K {
	case "u", "i", "bu", "bi", "bits":
		return n, true
	}
	return 0, false
}

// Hashmap[K,V] / HashmapAug[K,V,E]
func c08DeriveMap(t reflect.Type, aug bool) *c08Desc {
	kf, ok1 := t.FieldByName("keys")
	vf, ok2 := t.FieldByName("values")
	if !ok1 || !ok2 {
		return nil
	}
	k, v := kf.Type.Elem(), vf.Type.Elem()
	n, ok := c08KeyBits(k)
	dv := c08Derive(v, "")
	if !ok || dv == nil {
		return nil
	}
	if !aug {
		return &c08Desc{K: "hm", W: n, Val: uint64(k.Size() + v.Size()), Sub: []*c08Desc{dv}}
	}
	ef, ok := t.FieldByName("extra")
	if !ok {
		return nil
	}
	df, ok := ef.Type.FieldByName("Data")
	if !ok {
		return nil
	}
	de := c08Derive(df.Type, "")
	if de == nil {
		return nil
	}
	return &c08Desc{K: "hmaug", W: n, Val: uint64(k.Size() + v.Size() + ef.Type.Size()), Sub: []*c08Desc{dv, de}}
}

var (
	c08ReUint = regexp.MustCompile(`^Uint(\d+)$`)
	c08ReInt  = regexp.MustCompile(`^Int(\d+)$`)
	c08ReBits = regexp.MustCompile(`^Bits(\d+)$`)
	c08ReVar  = regexp.MustCompile(`^VarUInteger(\d+)$`)
)

var c08CellType = reflect.TypeOf(boc.Cell{})

// c08Derive maps a Go type to its descriptor; nil when some part is decoded by
// a hand-written UnmarshalTLB outside the descriptor language.
// c08AtStart: the type being derived is decoded at the start of a cell (top
// level or directly behind a reference), where ResetCounters is the identity
var c08AtStart bool

func c08DeriveStart(t reflect.Type, tag string, start bool) *c08Desc {
	old := c08AtStart
	c08AtStart = start
	defer func() { c08AtStart = old }()
	return c08DeriveInner(t, tag)
}

// a "^" / "maybe^" tag rejects a library cell whatever the target is and whether or
// not a resolver is configured (only Ref[T] resolves it / lets an Any target keep it)
func c08NoLib(in *c08Desc) *c08Desc {
	return &c08Desc{K: "nolib", Sub: []*c08Desc{in}}
}

// c08Derive: a position inside a cell
func c08Derive(t reflect.Type, tag string) *c08Desc { return c08DeriveStart(t, tag, false) }

// c08DeriveTop: tlb.Unmarshal(cell, &x)
func c08DeriveTop(t reflect.Type) *c08Desc { return c08DeriveStart(t, "", true) }

// the fields Message.UnmarshalTLB decodes after hashing the cell
type c08MsgBody struct {
	Info tlb.CommonMsgInfo
	Init tlb.Maybe[tlb.EitherRef[tlb.StateInit]]
	Body tlb.EitherRef[tlb.Any]
}

func c08DeriveInner(t reflect.Type, tag string) *c08Desc {
	start := c08AtStart
	if strings.HasPrefix(tag, "maybe^") {
		if t.Kind() != reflect.Pointer {
			return nil
		}
		in := c08DeriveStart(t.Elem(), "", true)
		if in == nil {
			return nil
		}
		return &c08Desc{K: "mref", Sub: []*c08Desc{c08NoLib(in)}}
	}
	if strings.HasPrefix(tag, "maybe") {
		in := c08Derive(t, tag[len("maybe"):])
		if in == nil {
			return nil
		}
		return &c08Desc{K: "maybe", Sub: []*c08Desc{in}}
	}
	if strings.HasPrefix(tag, "^") {
		if t == c08CellType {
			return &c08Desc{K: "cell"}
		}
		in := c08DeriveStart(t, "", true)
		if in == nil {
			return nil
		}
		return &c08Desc{K: "ref", Sub: []*c08Desc{c08NoLib(in)}}
	}
	if t.PkgPath() == "github.com/tonkeeper/tongo/tlb" {
		n := t.Name()
		num := func(re *regexp.Regexp) (int, bool) {
			m := re.FindStringSubmatch(n)
			if m == nil {
				return 0, false
			}
			v, _ := strconv.Atoi(m[1])
			return v, true
		}
		if w, ok := num(c08ReUint); ok {
			if w <= 64 {
				return &c08Desc{K: "u", W: w}
			}
			return &c08Desc{K: "bu", W: w}
		}
		if w, ok := num(c08ReInt); ok {
			if w <= 64 {
				return &c08Desc{K: "i", W: w}
			}
			return &c08Desc{K: "bi", W: w}
		}
		if w, ok := num(c08ReBits); ok {
			return &c08Desc{K: "bits", W: w}
		}
		if w, ok := num(c08ReVar); ok {
			return &c08Desc{K: "var", W: w}
		}
		switch {
		case n == "Magic":
			tg, err := tlb.ParseTag(tag)
			if err != nil {
				return nil
			}
			return &c08Desc{K: "magic", W: tg.Len, Val: tg.Val}
		case n == "Unary":
			return &c08Desc{K: "unary"}
		case n == "Any":
			return &c08Desc{K: "any"}
		case n == "MsgAddress":
			return &c08Desc{K: "addr"}
		case n == "Message" || n == "Transaction":
			// hash-first decoders: modelled only where the rewind is the identity
			if !start {
				return nil
			}
			var body *c08Desc
			if n == "Message" {
				body = c08Derive(reflect.TypeOf(c08MsgBody{}), "")
			} else {
				// transaction$0111 and the fields in order; "^" fields are read with
				// c.NextRef() + decoder.Unmarshal: no pruned-branch shortcut
				st := &c08Desc{K: "struct"}
				for i := 1; i < t.NumField(); i++ {
					f := t.Field(i)
					if !f.IsExported() {
						continue
					}
					var fd *c08Desc
					if f.Tag.Get("tlb") == "^" {
						if in := c08DeriveStart(f.Type, "", true); in != nil {
							fd = &c08Desc{K: "refraw", Sub: []*c08Desc{in}}
						}
					} else {
						fd = c08Derive(f.Type, f.Tag.Get("tlb"))
					}
					if fd == nil {
						return nil
					}
					st.Sub = append(st.Sub, fd)
				}
				body = &c08Desc{K: "sum", Alts: []c08Alt{{4, 7, st}}}
			}
			if body == nil {
				return nil
			}
			return &c08Desc{K: "hashed", Sub: []*c08Desc{body}}
		case n == "BlockInfo":
			// block_info#9bc7a987: four flag bits of the fixed part (read before anything
			// else) select the optional fields; offsets are from the start of the tag
			part := c08Derive(reflect.TypeOf(tlb.BlockInfoPart{}), "")
			gv := c08Derive(reflect.TypeOf(tlb.GlobalVersion{}), "")
			mi := c08DeriveStart(reflect.TypeOf(tlb.BlkMasterInfo{}), "", true)
			ext := c08DeriveStart(reflect.TypeOf(tlb.ExtBlkRef{}), "", true)
			if part == nil || gv == nil || mi == nil || ext == nil {
				return nil
			}
			refraw := func(x *c08Desc) *c08Desc { return &c08Desc{K: "refraw", Sub: []*c08Desc{x}} }
			// BlkPrevInfo.UnmarshalTLB is called directly on the referenced cell (no library check on it)
			prev := func(merge bool) *c08Desc {
				if merge {
					return refraw(&c08Desc{K: "ostruct", Sub: []*c08Desc{refraw(ext), refraw(ext)}})
				}
				return refraw(&c08Desc{K: "ostruct", Sub: []*c08Desc{ext}})
			}
			layout := func(notMaster, afterMerge, vert, flag0 bool) *c08Desc {
				st := &c08Desc{K: "struct", Sub: []*c08Desc{{K: "magic", W: 32, Val: 0x9bc7a987}, part}}
				if flag0 {
					st.Sub = append(st.Sub, gv)
				}
				if notMaster {
					st.Sub = append(st.Sub, refraw(mi))
				}
				st.Sub = append(st.Sub, prev(afterMerge))
				if vert {
					st.Sub = append(st.Sub, prev(false))
				}
				return st
			}
			peek := func(off int, a, b *c08Desc) *c08Desc {
				return &c08Desc{K: "peek", W: off, Len: 1, Val: 1, Sub: []*c08Desc{a, b}}
			}
			// tag 0..31, version 32..63, not_master 64, after_merge 65, ..., vert_seqno_incr 71, flags 72..79
			f0 := func(nm, am, v bool) *c08Desc { return peek(79, layout(nm, am, v, false), layout(nm, am, v, true)) }
			fv := func(nm, am bool) *c08Desc { return peek(71, f0(nm, am, false), f0(nm, am, true)) }
			fa := func(nm bool) *c08Desc { return peek(65, fv(nm, false), fv(nm, true)) }
			return peek(64, fa(false), fa(true))
		case n == "CryptoSignature":
			// ed25519_signature#5 | chained_signature#f signed_cert:^SignedCertificate temp_key_signature:...
			// the certificate carries a CryptoSignature again: unrolled to three links (no generated or
			// recorded chain is longer; a longer one would be an error in the model only)
			data := c08Derive(reflect.TypeOf(tlb.CryptoSignatureSimpleData{}), "")
			simple := c08Derive(reflect.TypeOf(tlb.CryptoSignatureSimple{}), "")
			cert := c08DeriveStart(reflect.TypeOf(tlb.Certificate{}), "", true)
			if data == nil || simple == nil || cert == nil {
				return nil
			}
			sig := &c08Desc{K: "sum", Alts: []c08Alt{{4, 5, data}}}
			for i := 0; i < 3; i++ {
				chained := &c08Desc{K: "struct", Sub: []*c08Desc{{K: "refraw", Sub: []*c08Desc{{K: "struct", Sub: []*c08Desc{cert, sig}}}}, simple}}
				sig = &c08Desc{K: "sum", Alts: []c08Alt{{4, 5, data}, {4, 0xf, chained}}}
			}
			return sig
		case n == "ValueFlow":
			// value_flow#b8e48dfb / value_flow_v2#3ebf98b7: two groups of four behind references,
			// fees_collected (and burned in v2) in the cell itself
			cc := c08Derive(reflect.TypeOf(tlb.CurrencyCollection{}), "")
			if cc == nil {
				return nil
			}
			group := &c08Desc{K: "refraw", Sub: []*c08Desc{{K: "struct", Sub: []*c08Desc{cc, cc, cc, cc}}}}
			v1 := &c08Desc{K: "struct", Sub: []*c08Desc{group, cc, group}}
			v2 := &c08Desc{K: "struct", Sub: []*c08Desc{group, cc, cc, group}}
			return &c08Desc{K: "sum", Alts: []c08Alt{{32, 0xb8e48dfb, v1}, {32, 0x3ebf98b7, v2}}}
		case n == "McStateExtraOther":
			// flags:(## 16) ... block_create_stats:(flags = 1)?BlockCreateStats
			without, with := &c08Desc{K: "struct"}, &c08Desc{K: "struct"}
			for i := 0; i < t.NumField(); i++ {
				fd := c08Derive(t.Field(i).Type, t.Field(i).Tag.Get("tlb"))
				if fd == nil {
					return nil
				}
				with.Sub = append(with.Sub, fd)
				if t.Field(i).Name != "BlockCreateStats" {
					without.Sub = append(without.Sub, fd)
				}
			}
			return &c08Desc{K: "peek", W: 0, Len: 16, Val: 1, Sub: []*c08Desc{without, with}}
		case n == "ShardState":
			// split_state#5f327da5 left:^ right:^ (a pruned branch is skipped) | shard_state#9023afe2 ...
			su := c08DeriveStart(reflect.TypeOf(tlb.ShardStateUnsplit{}), "", true)
			data := c08Derive(reflect.TypeOf(tlb.ShardStateUnsplitData{}), "")
			if su == nil || data == nil {
				return nil
			}
			ref := &c08Desc{K: "ref", Sub: []*c08Desc{su}}
			return &c08Desc{K: "sum", Alts: []c08Alt{{32, 0x5f327da5, &c08Desc{K: "struct", Sub: []*c08Desc{ref, ref}}}, {32, 0x9023afe2, data}}}
		case n == "McBlockExtra":
			// masterchain_block_extra#cca5 key_block:(## 1) ... ^[...] (optional) config:key_block?ConfigParams
			var fs []*c08Desc
			for _, fn := range []string{"KeyBlock", "ShardHashes", "ShardFees"} {
				f, _ := t.FieldByName(fn)
				fd := c08Derive(f.Type, "")
				if fd == nil {
					return nil
				}
				fs = append(fs, fd)
			}
			of, _ := t.FieldByName("McExtraOther")
			other := c08DeriveStart(of.Type, "", true)
			cf, _ := t.FieldByName("Config")
			cfg := c08Derive(cf.Type, "")
			if other == nil || cfg == nil {
				return nil
			}
			fs = append(fs, &c08Desc{K: "refrawopt", Sub: []*c08Desc{other}})
			plain := &c08Desc{K: "struct", Sub: fs}
			key := &c08Desc{K: "struct", Sub: append(append([]*c08Desc{}, fs...), cfg)}
			body := &c08Desc{K: "peek", W: 0, Len: 1, Val: 1, Sub: []*c08Desc{plain, key}}
			return &c08Desc{K: "sum", Alts: []c08Alt{{16, 0xcca5, body}}}
		case n == "AccountStatus":
			return &c08Desc{K: "u", W: 2}
		case n == "AddressWithWorkchain": // a 32-bit workchain (kept as int8) and 256 bits
			return &c08Desc{K: "struct", Sub: []*c08Desc{{K: "i", W: 32}, {K: "bits", W: 256}}}
		case n == "AccStatusChange": // acst_unchanged$0 acst_frozen$10 acst_deleted$11
			e := &c08Desc{K: "struct"}
			return &c08Desc{K: "sum", Alts: []c08Alt{{1, 0, e}, {2, 2, e}, {2, 3, e}}}
		case n == "ComputeSkipReason": // $00 $01 $10 $110; $111 is an error
			e := &c08Desc{K: "struct"}
			return &c08Desc{K: "sum", Alts: []c08Alt{{2, 0, e}, {2, 1, e}, {2, 2, e}, {3, 6, e}}}
		case n == "Grams":
			return &c08Desc{K: "grams"}
		case n == "SnakeData":
			return &c08Desc{K: "snake"}
		case n == "Bytes":
			return &c08Desc{K: "bytes"}
		case n == "Text":
			return &c08Desc{K: "text"}
		case strings.HasPrefix(n, "BinTree["):
			vf, ok := t.FieldByName("Values")
			if !ok {
				return nil
			}
			dv := c08Derive(vf.Type.Elem(), "")
			if dv == nil {
				return nil
			}
			return &c08Desc{K: "bintree", Val: uint64(vf.Type.Elem().Size()), Sub: []*c08Desc{dv}}
		case n == "FixedLengthText":
			return &c08Desc{K: "ftext"}
		case n == "VmStack":
			return &c08Desc{K: "vmstack"}
		case n == "VmStackValue":
			return &c08Desc{K: "vmvalue"}
		case n == "VmStkTuple":
			return &c08Desc{K: "vmtuple"}
		case n == "VmCellSlice":
			return &c08Desc{K: "cslice"}
		case n == "VmCont":
			return &c08Desc{K: "fail"}
		case strings.HasPrefix(n, "HashmapAugE["):
			mf, ok1 := t.FieldByName("m")
			ef, ok2 := t.FieldByName("extra")
			if !ok1 || !ok2 {
				return nil
			}
			dm, de := c08DeriveMap(mf.Type, true), c08Derive(ef.Type, "")
			if dm == nil || de == nil {
				return nil
			}
			return &c08Desc{K: "struct", Sub: []*c08Desc{{K: "maybe", Sub: []*c08Desc{{K: "ref", Sub: []*c08Desc{dm}}}}, de}}
		case strings.HasPrefix(n, "HashmapAug["):
			return c08DeriveMap(t, true)
		case strings.HasPrefix(n, "HashmapE["):
			mf, ok := t.FieldByName("m")
			if !ok {
				return nil
			}
			dm := c08DeriveMap(mf.Type, false)
			if dm == nil {
				return nil
			}
			return &c08Desc{K: "maybe", Sub: []*c08Desc{{K: "ref", Sub: []*c08Desc{dm}}}}
		case strings.HasPrefix(n, "Hashmap["):
			return c08DeriveMap(t, false)
		case strings.HasPrefix(n, "Maybe["), strings.HasPrefix(n, "EitherRef["), strings.HasPrefix(n, "Ref["):
			f, _ := t.FieldByName("Value")
			in := c08DeriveStart(f.Type, "", strings.HasPrefix(n, "Ref["))
			if in == nil {
				return nil
			}
			k := "maybe"
			if strings.HasPrefix(n, "EitherRef[") {
				k = "eref"
			} else if strings.HasPrefix(n, "Ref[") {
				k = "ref"
			}
			return &c08Desc{K: k, Sub: []*c08Desc{in}}
		case strings.HasPrefix(n, "Either["):
			l, _ := t.FieldByName("Left")
			r, _ := t.FieldByName("Right")
			dl, dr := c08Derive(l.Type, ""), c08Derive(r.Type, "")
			if dl == nil || dr == nil {
				return nil
			}
			return &c08Desc{K: "either", Sub: []*c08Desc{dl, dr}}
		}
	}
	if _, ok := reflect.New(t).Interface().(tlb.UnmarshalerTLB); ok {
		return nil // hand-written decoder
	}
	switch t.Kind() {
	case reflect.Uint8, reflect.Uint16, reflect.Uint32, reflect.Uint64:
		return &c08Desc{K: "u", W: t.Bits()}
	case reflect.Int8, reflect.Int16, reflect.Int32, reflect.Int64:
		return &c08Desc{K: "i", W: t.Bits()}
	case reflect.Bool:
		return &c08Desc{K: "bool"}
	case reflect.Array:
		if t.Elem().Kind() == reflect.Uint8 {
			return &c08Desc{K: "bits", W: 8 * t.Len()}
		}
		return nil
	case reflect.Pointer:
		return c08Derive(t.Elem(), "")
	case reflect.Struct:
		if t == c08CellType {
			return &c08Desc{K: "rawcell"} // decodeCell: the whole cell, nothing consumed, any kind
		}
		if _, ok := t.FieldByName("SumType"); ok {
			d := &c08Desc{K: "sum"}
			for i := 0; i < t.NumField(); i++ {
				f := t.Field(i)
				if f.Type.Name() == "SumType" {
					continue
				}
				tg, err := tlb.ParseTag(f.Tag.Get("tlbSumType"))
				if err != nil || !f.IsExported() {
					return nil
				}
				in := c08Derive(f.Type, "")
				if in == nil {
					return nil
				}
				d.Alts = append(d.Alts, c08Alt{Len: tg.Len, Val: tg.Val, T: in})
			}
			return d
		}
		d := &c08Desc{K: "struct"}
		for i := 0; i < t.NumField(); i++ {
			f := t.Field(i)
			if !f.IsExported() {
				return nil
			}
			in := c08Derive(f.Type, f.Tag.Get("tlb"))
			if in == nil {
				return nil
			}
			d.Sub = append(d.Sub, in)
		}
		return d
	}
	return nil
}

// local types that exercise every constructor of the descriptor language
type C08Small struct {
	A uint8
	B tlb.Uint5
}
type C08Leafs struct {
	M  tlb.Magic `tlb:"m#5a"`
	A  uint16
	B  int32
	C  bool
	D  [3]byte
	E  tlb.Uint19
	F  tlb.Int9
	G  tlb.Bits96
	H  tlb.VarUInteger16
	U  tlb.Unary
	Z  tlb.Magic `tlb:"z#00"`
	I  int64
	X  tlb.Uint256
	Y  tlb.Int257
	Ad tlb.MsgAddress
}
type C08Sum struct {
	tlb.SumType
	X struct{ V uint16 }              `tlbSumType:"x#a1"`
	Y struct{ R tlb.Ref[C08Small] }   `tlbSumType:"y$01"`
	Z struct{}                        `tlbSumType:"z$001"`
	W struct{ M tlb.Maybe[C08Small] } `tlbSumType:"w$0001"`
}
type C08Refs struct {
	M  tlb.Maybe[uint32]
	E  tlb.Either[uint8, C08Small]
	ER tlb.EitherRef[C08Small]
	R  tlb.Ref[C08Sum]
	P  *C08Small `tlb:"maybe^"`
	Q  C08Small  `tlb:"^"`
	C  boc.Cell  `tlb:"^"`
}
type C08Tail struct {
	S    C08Sum
	O    *C08Small `tlb:"maybe"`
	Rest tlb.Any
}
type C08Nest struct {
	A tlb.Ref[tlb.Ref[C08Small]]
	B tlb.Maybe[tlb.Ref[C08Refs]]
	C tlb.EitherRef[tlb.Maybe[tlb.Ref[C08Small]]]
}

var c08TlbTypes = []reflect.Type{
	reflect.TypeOf(C08Small{}), reflect.TypeOf(C08Leafs{}), reflect.TypeOf(C08Sum{}), reflect.TypeOf(C08Refs{}),
	reflect.TypeOf(C08Tail{}), reflect.TypeOf(C08Nest{}),
	reflect.TypeOf(tlb.TickTock{}), reflect.TypeOf(tlb.StorageUsed{}), reflect.TypeOf(tlb.MsgAddress{}),
	reflect.TypeOf(tlb.StorageInfo{}), reflect.TypeOf(tlb.SimpleLib{}), reflect.TypeOf(tlb.AccStatusChange("")),
	reflect.TypeOf(tlb.TrStoragePhase{}), reflect.TypeOf(tlb.TrCreditPhase{}), reflect.TypeOf(tlb.TrComputePhase{}),
	reflect.TypeOf(tlb.TrActionPhase{}), reflect.TypeOf(tlb.TrBouncePhase{}), reflect.TypeOf(tlb.StateInit{}),
	reflect.TypeOf(tlb.CommonMsgInfo{}), reflect.TypeOf(tlb.Message{}), reflect.TypeOf(tlb.Transaction{}),
	reflect.TypeOf(tlb.Account{}), reflect.TypeOf(tlb.ShardAccount{}), reflect.TypeOf(tlb.VmStack{}),
	reflect.TypeOf(tlb.VmStackValue{}), reflect.TypeOf(tlb.BlockInfo{}), reflect.TypeOf(tlb.Block{}),
	reflect.TypeOf(tlb.ConfigParams{}), reflect.TypeOf(tlb.ShardStateUnsplit{}), reflect.TypeOf(tlb.ValueFlow{}),
	reflect.TypeOf(tlb.CurrencyCollection{}), reflect.TypeOf(tlb.HashmapE[tlb.Uint32, tlb.Ref[C08Small]]{}),
	reflect.TypeOf(tlb.Hashmap[tlb.Uint19, boc.Cell]{}), reflect.TypeOf(tlb.MerkleProof[C08Small]{}),
	reflect.TypeOf(tlb.MerkleUpdate[C08Small]{}), reflect.TypeOf(tlb.BinTree[tlb.Uint8]{}),
	reflect.TypeOf(tlb.HashmapAugE[tlb.Bits256, tlb.Uint8, tlb.Uint8]{}), reflect.TypeOf(tlb.McStateExtra{}),
	reflect.TypeOf(tlb.Grams(0)), reflect.TypeOf(tlb.VarUInteger32{}), reflect.TypeOf(tlb.SnakeData{}), reflect.TypeOf(tlb.Text("")),
	reflect.TypeOf(tlb.Bytes{}), reflect.TypeOf(tlb.FixedLengthText("")), reflect.TypeOf(tlb.VmCont{}), reflect.TypeOf(tlb.VmStkTuple{}),
	reflect.TypeOf(tlb.VarUInteger16{}), reflect.TypeOf(tlb.VmCellSlice{}),
	reflect.TypeOf(tlb.BlockHeader{}), reflect.TypeOf(tlb.MerkleProof[tlb.BlockHeader]{}), reflect.TypeOf(tlb.GlobalVersion{}),
	reflect.TypeOf(tlb.BlkMasterInfo{}), reflect.TypeOf(tlb.ExtBlkRef{}), reflect.TypeOf(tlb.ShardIdent{}),
	reflect.TypeOf(tlb.ShardState{}), reflect.TypeOf(tlb.McBlockExtra{}), reflect.TypeOf(tlb.BlockExtra{}), reflect.TypeOf(tlb.McStateExtraOther{}),
	reflect.TypeOf(tlb.MerkleUpdate[tlb.ShardState]{}), reflect.TypeOf(tlb.ShardStateUnsplitOther{}), reflect.TypeOf(tlb.ValidatorInfo{}),
	reflect.TypeOf(tlb.BlockCreateStats{}), reflect.TypeOf(tlb.ShardFees{}), reflect.TypeOf(tlb.OutMsgQueueInfo{}), reflect.TypeOf(tlb.InMsg{}),
	reflect.TypeOf(tlb.AccountBlock{}), reflect.TypeOf(tlb.CryptoSignaturePair{}), reflect.TypeOf(tlb.TransactionDescr{}), reflect.TypeOf(tlb.HashUpdate{}),
	reflect.TypeOf(tlb.MerkleProof[tlb.ShardStateUnsplit]{}), reflect.TypeOf(tlb.MerkleProof[tlb.ShardState]{}), reflect.TypeOf(tlb.AllShardsInfo{}),
	reflect.TypeOf(tlb.DNSRecord{}), reflect.TypeOf(tlb.DNSText("")), reflect.TypeOf(tlb.DNSRecordSet{}), reflect.TypeOf(tlb.SignedCoins(0)),
	reflect.TypeOf(tlb.ChunkedData{}), reflect.TypeOf(tlb.AddressWithWorkchain{}),
}

// a cell tree as data
type c08Tree struct {
	Kind int
	Bits []bool
	Refs []*c08Tree
}

func (t *c08Tree) sx() sx.V {
	var rs []sx.V
	for _, r := range t.Refs {
		rs = append(rs, r.sx())
	}
	return sx.L(sx.Nat(t.Kind), sx.BoolBits(t.Bits), sx.L(rs...))
}

func (t *c08Tree) cell() *boc.Cell {
	var c *boc.Cell
	if t.Kind == 0 {
		c = boc.NewCell()
	} else {
		c = boc.NewCellExotic(boc.CellType(t.Kind))
	}
	for _, b := range t.Bits {
		_ = c.WriteBit(b)
	}
	for _, r := range t.Refs {
		_ = c.AddRef(r.cell())
	}
	return c
}

func c08TreeOfSx(v sx.V) *c08Tree {
	t := &c08Tree{Kind: v.List[0].I()}
	for _, ch := range v.List[1].Bits {
		t.Bits = append(t.Bits, ch == '1')
	}
	for _, r := range v.List[2].List {
		t.Refs = append(t.Refs, c08TreeOfSx(r))
	}
	return t
}

func c08Resolver(pairs sx.V) func(hash tlb.Bits256) (*boc.Cell, error) {
	type entry struct {
		hash [32]byte
		val  *c08Tree
	}
	var tab []entry
	for _, p := range pairs.List {
		h, err := c08TreeOfSx(p.List[0]).cell().Hash256()
		if err == nil {
			tab = append(tab, entry{h, c08TreeOfSx(p.List[1])})
		}
	}
	return func(hash tlb.Bits256) (*boc.Cell, error) {
		for _, e := range tab {
			if e.hash == [32]byte(hash) {
				return e.val.cell(), nil
			}
		}
		return nil, fmt.Errorf("unknown library")
	}
}

var c08TlbByDesc = map[string]reflect.Type{}

func execC08Tlb(in sx.V) sx.V {
	t, ok := c08TlbByDesc[in.List[1].String()]
	if !ok {
		return sx.L(sx.A("harness-error"), sx.A("desc"))
	}
	cell := c08TreeOfSx(in.List[2]).cell()
	v := reflect.New(t)
	var err error
	if len(in.List) >= 5 {
		// Decoder with a hasher and a library resolver given as (library cell, answer) pairs;
		// every answer is a fresh cell; an unknown hash is an error
		err = tlb.NewDecoder().WithLibraryResolver(c08Resolver(in.List[4])).Unmarshal(cell, v.Interface())
	} else {
		err = tlb.Unmarshal(cell, v.Interface())
	}
	if err != nil {
		return sx.A("err")
	}
	if in.List[0].Bool {
		return sx.L(sx.A("ok"), sx.Nat(cell.BitsAvailableForRead()), sx.Nat(cell.RefsAvailableForRead()))
	}
	return sx.A("ok")
}

func c08RandBits(r *prng.R, n int) []bool {
	b := make([]bool, n)
	for i := range b {
		b[i] = r.Bool()
	}
	return b
}

func c08BitsOf(v uint64, w int) []bool {
	b := make([]bool, w)
	for i := 0; i < w; i++ {
		b[w-1-i] = v>>uint(i)&1 == 1
	}
	return b
}

// descriptor-guided generation of a (mostly) valid encoding
// generation can be steered: a choice node of the descriptor (maybe / either / eref / mref / peek /
// refrawopt / sum) listed in c08Forced takes that branch; for a sum the value len(Alts) means a tag
// that matches no alternative, followed by the fields of a random alternative.
var c08Forced map[*c08Desc]int

// field boundaries of the tree being generated (cell, number of bits before the field)
type c08Mark struct {
	node *c08Tree
	pos  int
}

var c08Marks []c08Mark
var c08MarkOn bool

// sizes of the dictionaries of the tree being generated, by order of generation (nil: random);
// with c08AllPresent every optional part is generated
var c08MapSizes func(i int) int
var c08MapSeq int
var c08AllPresent bool

func c08Choose(r *prng.R, d *c08Desc, n int) int {
	if v, ok := c08Forced[d]; ok {
		return v
	}
	if c08AllPresent && (d.K == "maybe" || d.K == "mref" || d.K == "refrawopt") {
		return 1
	}
	return r.Intn(n)
}

func c08GenValid(r *prng.R, d *c08Desc, t *c08Tree, depth int) {
	if c08MarkOn {
		c08Marks = append(c08Marks, c08Mark{t, len(t.Bits)})
	}
	sub := func(x *c08Desc) *c08Tree {
		n := &c08Tree{}
		c08GenValid(r, x, n, depth+1)
		t.Refs = append(t.Refs, n)
		return n
	}
	switch d.K {
	case "u", "i", "bu", "bi", "bits":
		t.Bits = append(t.Bits, c08RandBits(r, d.W)...)
	case "bool":
		t.Bits = append(t.Bits, r.Bool())
	case "var":
		w := 0
		for (1 << uint(w)) < d.W {
			w++
		}
		n := r.Intn(d.W)
		if r.Chance(60) {
			n = r.Intn(3)
		}
		t.Bits = append(t.Bits, c08BitsOf(uint64(n), w)...)
		t.Bits = append(t.Bits, c08RandBits(r, 8*n)...)
	case "unary":
		for i := r.Intn(5); i > 0; i-- {
			t.Bits = append(t.Bits, true)
		}
		t.Bits = append(t.Bits, false)
	case "magic":
		t.Bits = append(t.Bits, c08BitsOf(d.Val, d.W)...)
	case "maybe":
		if c08Choose(r, d, 2) == 1 {
			t.Bits = append(t.Bits, true)
			c08GenValid(r, d.Sub[0], t, depth)
		} else {
			t.Bits = append(t.Bits, false)
		}
	case "either":
		if c08Choose(r, d, 2) == 1 {
			t.Bits = append(t.Bits, true)
			c08GenValid(r, d.Sub[1], t, depth)
		} else {
			t.Bits = append(t.Bits, false)
			c08GenValid(r, d.Sub[0], t, depth)
		}
	case "eref":
		if c08Choose(r, d, 2) == 1 {
			t.Bits = append(t.Bits, true)
			sub(d.Sub[0])
		} else {
			t.Bits = append(t.Bits, false)
			c08GenValid(r, d.Sub[0], t, depth)
		}
	case "ref", "refraw":
		sub(d.Sub[0])
	case "refrawopt":
		if _, forced := c08Forced[d]; len(t.Refs) < 4 && ((forced && c08Forced[d] == 1) || (!forced && r.Chance(85))) {
			sub(d.Sub[0])
		}
	case "hashed", "nolib":
		c08GenValid(r, d.Sub[0], t, depth)
	case "ostruct":
		for _, s := range d.Sub {
			c08GenValid(r, s, t, depth)
		}
	case "peek":
		// generate the chosen continuation, then make the field that selects it agree
		p0 := len(t.Bits)
		b := c08Choose(r, d, 2) == 1
		if b {
			c08GenValid(r, d.Sub[1], t, depth)
		} else {
			c08GenValid(r, d.Sub[0], t, depth)
		}
		if p0+d.W+d.Len <= len(t.Bits) {
			v := d.Val
			if !b {
				if d.Len == 1 {
					v = 1 - d.Val
				} else {
					v = uint64(r.Pick([]int{0, 2, 3, 256, 257, 0x8001, 0xffff})) & (1<<uint(d.Len) - 1)
				}
			}
			copy(t.Bits[p0+d.W:], c08BitsOf(v, d.Len))
		}
	case "mref":
		if c08Choose(r, d, 2) == 1 {
			t.Bits = append(t.Bits, true)
			sub(d.Sub[0])
		} else {
			t.Bits = append(t.Bits, false)
		}
	case "struct":
		for _, s := range d.Sub {
			c08GenValid(r, s, t, depth)
		}
	case "sum":
		if len(d.Alts) > 0 {
			i := c08Choose(r, d, len(d.Alts))
			if i >= len(d.Alts) {
				// a tag no alternative accepts
				a := d.Alts[r.Intn(len(d.Alts))]
				w := 0
				for _, x := range d.Alts {
					if x.Len > w {
						w = x.Len
					}
				}
				var tag []bool
				for try := 0; try < 64; try++ {
					tag = c08RandBits(r, w)
					hit := false
					for _, x := range d.Alts {
						if reflect.DeepEqual(tag[:x.Len], c08BitsOf(x.Val, x.Len)) {
							hit = true
						}
					}
					if !hit {
						break
					}
				}
				t.Bits = append(t.Bits, tag...)
				c08GenValid(r, a.T, t, depth)
				break
			}
			a := d.Alts[i]
			t.Bits = append(t.Bits, c08BitsOf(a.Val, a.Len)...)
			c08GenValid(r, a.T, t, depth)
		}
	case "any":
		t.Bits = append(t.Bits, c08RandBits(r, r.Intn(20))...)
	case "cell":
		t.Refs = append(t.Refs, c08RandTree(r, 1))
	case "grams":
		n := r.Pick([]int{0, 1, 2, 8, 8, 3})
		t.Bits = append(t.Bits, c08BitsOf(uint64(n), 4)...)
		t.Bits = append(t.Bits, c08RandBits(r, 8*n)...)
	case "ftext":
		n := r.Intn(12)
		t.Bits = append(t.Bits, c08BitsOf(uint64(n), 8)...)
		t.Bits = append(t.Bits, c08RandBits(r, 8*n)...)
	case "snake", "bytes":
		cur := t
		for k := r.Intn(4); ; k-- {
			room := 1023 - len(cur.Bits)
			if room > 64 {
				room = 64
			}
			cur.Bits = append(cur.Bits, c08RandBits(r, 8*r.Intn(room/8+1))...)
			if k <= 0 {
				break
			}
			nx := &c08Tree{}
			cur.Refs = append(cur.Refs, nx)
			cur = nx
		}
	case "text":
		// mostly valid UTF-8 (1..4 byte forms), sometimes damaged, split over a snake chain
		var data []byte
		for i := r.Intn(12); i > 0; i-- {
			data = append(data, []byte(string(rune(r.Pick([]int{0x41, 0x7f, 0x80, 0x7ff, 0x800, 0xd7ff, 0xe000, 0xffff, 0x10000, 0x10ffff, 0x20ac, 0x1f600}))))...)
		}
		if r.Chance(30) && len(data) > 0 {
			data[r.Intn(len(data))] = byte(r.Pick([]int{0x80, 0xbf, 0xc0, 0xc1, 0xe0, 0xed, 0xf4, 0xf5, 0xff, 0xa0, 0x90}))
		}
		if r.Chance(10) {
			data = append(data, 0xed, 0xa0, 0x80) // a surrogate
		}
		cur := t
		for len(data) > 0 {
			n := 1 + r.Intn(len(data))
			for _, by := range data[:n] {
				cur.Bits = append(cur.Bits, c08BitsOf(uint64(by), 8)...)
			}
			data = data[n:]
			if len(data) > 0 {
				nx := &c08Tree{}
				cur.Refs = append(cur.Refs, nx)
				cur = nx
			}
		}
	case "bintree":
		var gen func(t *c08Tree, dp int)
		gen = func(t *c08Tree, dp int) {
			if dp < 3 && r.Chance(45) {
				t.Bits = append(t.Bits, true)
				for i := 0; i < 2; i++ {
					ch := &c08Tree{}
					gen(ch, dp+1)
					t.Refs = append(t.Refs, ch)
				}
				return
			}
			t.Bits = append(t.Bits, false)
			c08GenValid(r, d.Sub[0], t, depth+1)
		}
		gen(t, 0)
	case "rawcell", "fail":
	case "cslice":
		c08GenCellSlice(r, t)
	case "vmvalue":
		c08GenVmValue(r, t, depth)
	case "vmtuple":
		n := r.Intn(5)
		t.Bits = append(t.Bits, c08BitsOf(uint64(n), 16)...)
		c08GenTupleRefs(r, n, t, depth)
	case "vmstack":
		n := r.Intn(5)
		t.Bits = append(t.Bits, c08BitsOf(uint64(n), 24)...)
		cur := t
		for i := 0; i < n; i++ {
			nx := &c08Tree{}
			cur.Refs = append(cur.Refs, nx) // rest first, then the value's own refs
			c08GenVmValue(r, cur, depth+1)
			cur = nx
		}
	case "hm", "hmaug":
		want := 0
		if c08MapSizes != nil {
			want = c08MapSizes(c08MapSeq)
			c08MapSeq++
		}
		c08GenMap(r, d, t, d.W, depth, want)
	case "addr":
		switch r.Intn(4) {
		case 0:
			t.Bits = append(t.Bits, false, false)
		case 1:
			n := r.Intn(40)
			t.Bits = append(t.Bits, false, true)
			t.Bits = append(t.Bits, c08BitsOf(uint64(n), 9)...)
			t.Bits = append(t.Bits, c08RandBits(r, n)...)
		case 2:
			t.Bits = append(t.Bits, true, false)
			if r.Chance(30) {
				dp := 1 + r.Intn(30)
				t.Bits = append(t.Bits, true)
				t.Bits = append(t.Bits, c08BitsOf(uint64(dp), 5)...)
				t.Bits = append(t.Bits, c08RandBits(r, dp)...)
			} else {
				t.Bits = append(t.Bits, false)
			}
			t.Bits = append(t.Bits, c08RandBits(r, 8+256)...)
		default:
			n := r.Intn(64)
			t.Bits = append(t.Bits, true, true, false)
			t.Bits = append(t.Bits, c08BitsOf(uint64(n), 9)...)
			t.Bits = append(t.Bits, c08RandBits(r, 32+n)...)
		}
	}
}

func c08GenCellSlice(r *prng.R, t *c08Tree) {
	cell := c08RandTree(r, 2)
	cell.Kind = 0
	t.Refs = append(t.Refs, cell)
	eb := r.Intn(len(cell.Bits) + 1)
	sb := r.Intn(eb + 1)
	er := r.Intn(len(cell.Refs) + 1)
	sr := r.Intn(er + 1)
	if r.Chance(10) {
		eb = len(cell.Bits) + 1
	}
	t.Bits = append(t.Bits, c08BitsOf(uint64(sb), 10)...)
	t.Bits = append(t.Bits, c08BitsOf(uint64(eb&1023), 10)...)
	t.Bits = append(t.Bits, c08BitsOf(uint64(sr), 3)...)
	t.Bits = append(t.Bits, c08BitsOf(uint64(er), 3)...)
}

// vmTupleInner(n, c): the references it walks
func c08GenTupleRefs(r *prng.R, n int, t *c08Tree, depth int) {
	if n == 0 {
		return
	}
	val := func() *c08Tree {
		v := &c08Tree{}
		c08GenVmValue(r, v, depth+1)
		return v
	}
	m := n - 1
	if m == 1 {
		t.Refs = append(t.Refs, val())
	} else if m > 1 {
		c1 := &c08Tree{}
		c08GenTupleRefs(r, m, c1, depth+1)
		t.Refs = append(t.Refs, c1)
	}
	t.Refs = append(t.Refs, val())
}

func c08GenVmValue(r *prng.R, t *c08Tree, depth int) {
	k := r.Intn(10)
	if depth > 3 && k == 9 {
		k = 0
	}
	switch k {
	case 0:
		t.Bits = append(t.Bits, c08BitsOf(0, 8)...)
	case 1, 2:
		t.Bits = append(t.Bits, c08BitsOf(1, 8)...)
		t.Bits = append(t.Bits, c08RandBits(r, 64)...)
	case 3:
		t.Bits = append(t.Bits, c08BitsOf(0x0200>>1, 15)...)
		t.Bits = append(t.Bits, c08RandBits(r, 257)...)
	case 4:
		t.Bits = append(t.Bits, c08BitsOf(0x02ff, 16)...)
	case 5:
		t.Bits = append(t.Bits, c08BitsOf(uint64(r.Pick([]int{3, 5})), 8)...)
		t.Refs = append(t.Refs, c08RandTree(r, 2))
	case 6, 7:
		t.Bits = append(t.Bits, c08BitsOf(4, 8)...)
		c08GenCellSlice(r, t)
	case 8:
		t.Bits = append(t.Bits, c08BitsOf(uint64(r.Pick([]int{6, 8, 2, 255})), 8)...)
		t.Bits = append(t.Bits, c08RandBits(r, r.Intn(12))...)
	default:
		n := r.Intn(5)
		t.Bits = append(t.Bits, c08BitsOf(7, 8)...)
		t.Bits = append(t.Bits, c08BitsOf(uint64(n), 16)...)
		if len(t.Refs)+2 <= 4 {
			c08GenTupleRefs(r, n, t, depth)
		}
	}
}

func c08LimWidth(m int) int {
	w := 0
	for (1 << uint(w)) <= m {
		w++
	}
	return w
}

// a dictionary node with `left` key bits still to be fixed
// want: number of entries (0: random)
func c08GenMap(r *prng.R, d *c08Desc, t *c08Tree, left int, depth int, want int) {
	l := left
	if left > 0 && depth < 4 && r.Chance(45) {
		l = r.Intn(left)
	}
	if want == 1 {
		l = left
	} else if want > 1 && left > 0 {
		l = r.Intn(left)
		if r.Chance(50) {
			l = 0
		}
	}
	lbl := c08RandBits(r, l)
	switch r.Intn(3) {
	case 0:
		if l < 40 {
			t.Bits = append(t.Bits, false)
			for i := 0; i < l; i++ {
				t.Bits = append(t.Bits, true)
			}
			t.Bits = append(t.Bits, false)
			t.Bits = append(t.Bits, lbl...)
			break
		}
		fallthrough
	case 1:
		t.Bits = append(t.Bits, true, false)
		t.Bits = append(t.Bits, c08BitsOf(uint64(l), c08LimWidth(left))...)
		t.Bits = append(t.Bits, lbl...)
	default:
		t.Bits = append(t.Bits, true, true, r.Bool())
		t.Bits = append(t.Bits, c08BitsOf(uint64(l), c08LimWidth(left))...)
	}
	if l < left {
		for i := 0; i < 2; i++ {
			ch := &c08Tree{}
			w := 0
			if want > 1 {
				w = want / 2
				if i == 1 {
					w = want - want/2
				}
			}
			c08GenMap(r, d, ch, left-l-1, depth+1, w)
			t.Refs = append(t.Refs, ch)
		}
		if d.K == "hmaug" {
			c08GenValid(r, d.Sub[1], t, depth+1)
		}
		return
	}
	if d.K == "hmaug" {
		c08GenValid(r, d.Sub[1], t, depth+1)
	}
	c08GenValid(r, d.Sub[0], t, depth+1)
}

func c08RandTree(r *prng.R, depth int) *c08Tree {
	t := &c08Tree{}
	if r.Chance(15) {
		t.Kind = 1 + r.Intn(4)
	}
	t.Bits = c08RandBits(r, r.Pick([]int{0, 1, 2, 7, 8, 9, 16, 33, 64, 100, 267, 500, 1023}))
	if depth < 3 {
		for i := r.Intn(5); i > 0; i-- {
			t.Refs = append(t.Refs, c08RandTree(r, depth+1))
		}
	}
	return t
}

func (t *c08Tree) clone() *c08Tree {
	n := &c08Tree{Kind: t.Kind, Bits: append([]bool{}, t.Bits...)}
	for _, r := range t.Refs {
		n.Refs = append(n.Refs, r.clone())
	}
	return n
}

func (t *c08Tree) all(acc *[]*c08Tree) {
	*acc = append(*acc, t)
	for _, r := range t.Refs {
		r.all(acc)
	}
}

func (t *c08Tree) fits() bool {
	if len(t.Bits) > 1023 || len(t.Refs) > 4 {
		return false
	}
	for _, r := range t.Refs {
		if !r.fits() {
			return false
		}
	}
	return true
}

// ---- exploration of the hand-written TL-B decoders (no model): run in the
// guarded child; oracles: no panic / crash / timeout, allocation linear in the
// size of the input tree.

// weight of a tree in bytes: data plus a fixed share per cell
func (t *c08Tree) height() int {
	h := 0
	for _, r := range t.Refs {
		if x := r.height(); x > h {
			h = x
		}
	}
	return h + 1
}

func (t *c08Tree) weight() int {
	w := 64 + (len(t.Bits)+7)/8
	for _, r := range t.Refs {
		w += r.weight()
	}
	return w
}

// measured on the unchanged tree (thorough tier seeds 1 and 2, all families incl.
// directed): at most 13064 bytes for inputs of weight <= 256 and at most 13.2
// bytes per byte of weight for inputs of weight >= 1024 (VmStack: after
// subtracting the per-level copy); the bound keeps a safety factor > 4 on both
const c08TlbSlope = 64
const c08TlbIntercept = 65536

func c08MemDelta(f func() error) (class string, alloc uint64) {
	var m0, m1 runtime.MemStats
	runtime.ReadMemStats(&m0)
	err := f()
	runtime.ReadMemStats(&m1)
	class = "ok"
	if err != nil {
		class = "err"
	}
	return class, m1.TotalAlloc - m0.TotalAlloc
}

// ---- use oracle: a value that a decoder returned without error must not make
// its own accessors / consumers panic.

type c08UseDest1 struct{ A int64 }
type c08UseDest2 struct{ A tlb.MsgAddress }
type c08UseDest3 struct{ A boc.Cell }
type c08UseDest4 struct {
	A tlb.Int257
	B tlb.MsgAddress
	C boc.Cell
}
type c08UseDest5 struct{ A C08Small }

type c08UseDest6 struct {
	A tlb.Bits256
	B bool
}
type c08UseDest7 struct {
	A uint8
	B *tlb.Int257
	C *big.Int
}

func c08UseDests() []any {
	ds := []any{&c08UseDest1{}, &c08UseDest2{}, &c08UseDest3{}, &c08UseDest4{}, &c08UseDest5{}, &c08UseDest6{}, &c08UseDest7{},
		new(tlb.MsgAddress), new(C08Small), new(boc.Cell), new([]tlb.VmStackValue), new([]int64), new(tlb.Maybe[int64])}
	var names []string
	for n := range c08MapDests {
		names = append(names, n)
	}
	sort.Strings(names)
	for _, n := range names {
		d, _ := c08MapDests[n]()
		ds = append(ds, d)
	}
	return ds
}

type c08User struct {
	first string
	calls int
}

func (u *c08User) call(desc string, f func()) {
	if u.first != "" || u.calls > 400 {
		return
	}
	u.calls++
	defer func() {
		if r := recover(); r != nil {
			msg := fmt.Sprint(r)
			// type-guarded accessors panic by contract when asked for another variant
			if strings.Contains(msg, "stack value is not") {
				return
			}
			u.first = desc + ": " + msg
		}
	}()
	f()
}

var c08ErrorType = reflect.TypeOf((*error)(nil)).Elem()

func c08ObservationClass(use string) string {
	if strings.Contains(use, "Account.Status") {
		return "status-on-pruned-account"
	}
	if i := strings.Index(use, ":"); i > 0 {
		use = use[:i]
	}
	return strings.NewReplacer("*", "", " ", "", "|", "/").Replace(use)
}

// receivers whose one-argument helpers are called: the decoded proof / state types, not the
// cell and bit-string primitives of package boc (their cursor API is another property's subject)
func c08HelperPkg(t reflect.Type) bool {
	if t.Kind() == reflect.Pointer {
		t = t.Elem()
	}
	p := t.PkgPath()
	return strings.HasSuffix(p, "/tlb") || strings.HasSuffix(p, "/ton") || strings.HasSuffix(p, "/liteapi") || p == "main"
}

func (u *c08User) methods(v reflect.Value) {
	if !v.CanInterface() {
		return
	}
	recv := v
	if v.CanAddr() {
		recv = v.Addr()
	}
	t := recv.Type()
	for i := 0; i < t.NumMethod(); i++ {
		m := t.Method(i)
		name := m.Name
		fn := recv.Method(i)
		ft := fn.Type()
		full := t.String() + "." + name
		switch {
		case strings.HasPrefix(name, "Unmarshal") && ft.NumIn() == 1 && ft.In(0).Kind() == reflect.Interface && name != "UnmarshalTLB" && name != "UnmarshalTL" && name != "UnmarshalJSON":
			for _, d := range c08UseDests() {
				d := d
				// VmStack.Unmarshal documents a pointer to a struct as its destination
				if strings.HasSuffix(t.String(), "VmStack") && !strings.HasPrefix(reflect.TypeOf(d).Elem().Name(), "c08UseDest") {
					continue
				}
				u.call(full, func() { fn.Call([]reflect.Value{reflect.ValueOf(d)}) })
			}
		case name == "Get" && ft.NumIn() == 1:
			u.call(full, func() { fn.Call([]reflect.Value{reflect.Zero(ft.In(0))}) })
		case ft.NumIn() == 1 && c08HelperPkg(t) && !strings.HasPrefix(name, "Put") && !strings.HasPrefix(name, "Set") && !strings.HasPrefix(name, "Unmarshal") &&
			!strings.HasPrefix(name, "Marshal") && !strings.HasPrefix(name, "With"):
			// helpers with one argument of a simple kind: Message.Hash(bool), VmTuple.RecursiveToSlice(int),
			// ConfigParams.CloneKeepingSubsetOfKeys([]uint32), Compare / Equal(any) ...
			var args []reflect.Value
			switch a := ft.In(0); {
			case a.Kind() == reflect.Bool:
				args = []reflect.Value{reflect.ValueOf(false), reflect.ValueOf(true)}
			case a.Kind() == reflect.Int:
				for _, x := range []int{-1, 0, 1, 2, 255, 1 << 20} {
					args = append(args, reflect.ValueOf(x))
				}
			case a.Kind() == reflect.Slice && a.Elem().Kind() == reflect.Uint32:
				args = []reflect.Value{reflect.Zero(a), reflect.ValueOf([]uint32{0, 4, 34, 0xffffffff}).Convert(a)}
			case a.Kind() == reflect.Interface && a.NumMethod() == 0:
				args = []reflect.Value{reflect.Zero(a), v.Convert(v.Type())}
			}
			for _, x := range args {
				x := x
				if !x.IsValid() || !x.Type().AssignableTo(ft.In(0)) {
					if x.IsValid() && ft.In(0).Kind() == reflect.Interface {
						y := reflect.New(ft.In(0)).Elem()
						y.Set(x)
						x = y
					} else {
						continue
					}
				}
				u.call(full, func() { fn.Call([]reflect.Value{x}) })
			}
		case ft.NumIn() == 0 && !strings.HasPrefix(name, "Put") && !strings.HasPrefix(name, "Set") && !strings.HasPrefix(name, "Reset") && name != "MarshalTL":
			u.call(full, func() { fn.Call(nil) })
		}
	}
}

func (u *c08User) walk(v reflect.Value, depth int) {
	if !v.IsValid() || depth > 8 || u.first != "" {
		return
	}
	switch v.Kind() {
	case reflect.Pointer, reflect.Interface:
		if v.IsNil() {
			return
		}
		u.walk(v.Elem(), depth+1)
		return
	case reflect.Slice:
		u.methods(v)
		if v.Type().Elem().Kind() == reflect.Uint8 {
			return
		}
		for i := 0; i < v.Len() && i < 40; i++ {
			u.walk(v.Index(i), depth+1)
		}
		return
	case reflect.Struct:
		u.methods(v)
		t := v.Type()
		if t == c08CellType {
			return
		}
		name := t.Name()
		if f := v.FieldByName("SumType"); f.IsValid() && f.Kind() == reflect.String {
			if a := v.FieldByName(f.String()); a.IsValid() {
				u.walk(a, depth+1)
			}
			return
		}
		if strings.HasPrefix(name, "Maybe[") {
			if v.FieldByName("Exists").Bool() {
				u.walk(v.FieldByName("Value"), depth+1)
			}
			return
		}
		if strings.HasPrefix(name, "Either[") {
			if v.FieldByName("IsRight").Bool() {
				u.walk(v.FieldByName("Right"), depth+1)
			} else {
				u.walk(v.FieldByName("Left"), depth+1)
			}
			return
		}
		for i := 0; i < v.NumField(); i++ {
			if t.Field(i).IsExported() {
				u.walk(v.Field(i), depth+1)
			}
		}
		return
	default:
		if v.Type().NumMethod() > 0 || (v.CanAddr() && v.Addr().Type().NumMethod() > 0) {
			u.methods(v)
		}
	}
}

// ---- soundness of a decoded value: the invariants the decoders are supposed
// to establish (a violated one makes an accessor panic a property failure; a
// panic on a sound value is an observation about the accessor's contract)

func c08Peek(f reflect.Value) reflect.Value {
	if f.CanInterface() || !f.CanAddr() {
		return f
	}
	return reflect.NewAt(f.Type(), unsafe.Pointer(f.UnsafeAddr())).Elem()
}

type c08Sound struct{ bad string }

func (k *c08Sound) fail(msg string) {
	if k.bad == "" {
		k.bad = msg
	}
}

func (k *c08Sound) stackValue(v reflect.Value, where string) {
	if v.FieldByName("SumType").String() == "" {
		k.fail(where + ": stack value without a constructor")
	}
}

func (k *c08Sound) walk(v reflect.Value, depth int) {
	if !v.IsValid() || depth > 10 || k.bad != "" {
		return
	}
	switch v.Kind() {
	case reflect.Pointer, reflect.Interface:
		if !v.IsNil() {
			k.walk(v.Elem(), depth+1)
		}
	case reflect.Slice:
		if v.Type().Elem().Kind() == reflect.Uint8 {
			return
		}
		for i := 0; i < v.Len() && i < 60; i++ {
			if v.Type().Elem().Name() == "VmStackValue" {
				k.stackValue(v.Index(i), "VmStack item")
			}
			k.walk(v.Index(i), depth+1)
		}
	case reflect.Struct:
		t := v.Type()
		name := t.Name()
		switch {
		case t == c08CellType:
			return
		case name == "VmCellSlice":
			cell, _ := c08Peek(v.FieldByName("cell")).Interface().(*boc.Cell)
			sb, eb := c08Peek(v.FieldByName("stBits")).Int(), c08Peek(v.FieldByName("endBits")).Int()
			sr, er := c08Peek(v.FieldByName("stRef")).Int(), c08Peek(v.FieldByName("endRef")).Int()
			switch {
			case cell == nil:
				k.fail("VmCellSlice without a cell")
			case sb < 0 || sb > eb || eb > int64(cell.BitSize()):
				k.fail(fmt.Sprintf("VmCellSlice bit window %d..%d outside a cell of %d bits", sb, eb, cell.BitSize()))
			case sr < 0 || sr > er || er > int64(cell.RefsSize()):
				k.fail(fmt.Sprintf("VmCellSlice ref window %d..%d outside a cell of %d refs", sr, er, cell.RefsSize()))
			}
			return
		case name == "VmStkTuple":
			if v.FieldByName("Len").Uint() > 0 && v.FieldByName("Data").IsNil() {
				k.fail("VmStkTuple with a length and no data")
			}
		case name == "VmTuple":
			k.stackValue(v.FieldByName("Tail"), "tuple tail")
		case name == "VmTupleRef":
			if e := v.FieldByName("Entry"); !e.IsNil() {
				k.stackValue(e.Elem(), "tuple entry")
			}
		case strings.HasPrefix(name, "Hashmap[") || strings.HasPrefix(name, "HashmapAug["):
			if kf, vf := v.FieldByName("keys"), v.FieldByName("values"); kf.IsValid() && vf.IsValid() && kf.Len() != vf.Len() {
				k.fail(fmt.Sprintf("%d keys for %d values", kf.Len(), vf.Len()))
			}
		}
		if f := v.FieldByName("SumType"); f.IsValid() && f.Kind() == reflect.String {
			if a := v.FieldByName(f.String()); a.IsValid() {
				k.walk(a, depth+1)
			}
			return
		}
		if strings.HasPrefix(name, "Maybe[") {
			if v.FieldByName("Exists").Bool() {
				k.walk(v.FieldByName("Value"), depth+1)
			}
			return
		}
		if strings.HasPrefix(name, "Either[") {
			if v.FieldByName("IsRight").Bool() {
				k.walk(v.FieldByName("Right"), depth+1)
			} else {
				k.walk(v.FieldByName("Left"), depth+1)
			}
			return
		}
		for i := 0; i < v.NumField(); i++ {
			k.walk(c08Peek(v.Field(i)), depth+1)
		}
	}
}

// c08Unsound returns the first violated invariant of the decoded value, or ""
func c08Unsound(v reflect.Value) (out string) {
	defer func() {
		if r := recover(); r != nil {
			out = ""
		}
	}()
	k := &c08Sound{}
	k.walk(v, 0)
	return k.bad
}

// c08UseValue exercises the decoded value; "" or "Type.Method: panic message"
func c08UseValue(v reflect.Value) (out string) {
	defer func() {
		if r := recover(); r != nil {
			out = "harness walk: " + fmt.Sprint(r)
		}
	}()
	// accessors must not be able to write into the protocol stream of the child
	if null, err := os.OpenFile(os.DevNull, os.O_WRONLY, 0); err == nil {
		old := os.Stdout
		os.Stdout = null
		defer func() { os.Stdout = old; null.Close() }()
	}
	u := &c08User{}
	u.walk(v, 0)
	u.call("encoding/json.Marshal", func() { _, _ = json.Marshal(v.Interface()) })
	return u.first
}

// c08.tlbgo: (type-index tree) -> ('ok|'err alloc), child only
func execC08TlbGo(in sx.V) sx.V {
	t := c08TlbTypes[in.List[0].I()]
	cell := c08TreeOfSx(in.List[1]).cell()
	v := reflect.New(t)
	class, a := c08MemDelta(func() error { return tlb.Unmarshal(cell, v.Interface()) })
	if class == "ok" {
		unsound := c08Unsound(v)
		if use := c08UseValue(v); use != "" || unsound != "" {
			return sx.L(sx.A("usepanic"), sx.N(a), sx.Str(use), sx.Str(unsound))
		}
	}
	return sx.L(sx.A(class), sx.N(a))
}

// c08.vmtlgo: BOC bytes -> VmStack.UnmarshalTL(tl bytes) ('ok|'err alloc), child only
func execC08VmTlGo(in sx.V) sx.V {
	enc, _ := tl.Marshal(in.Bytes)
	var s tlb.VmStack
	class, a := c08MemDelta(func() error { return s.UnmarshalTL(bytes.NewReader(enc)) })
	return sx.L(sx.A(class), sx.N(a))
}

var c08GoOnly int
var c08Calib = map[string]float64{}
var c08CalibSmall, c08CalibSlope float64

// VmStack only: getStackListItems copies the tail of the list at every level,
// 304 bytes per item (observation recorded with the property: quadratic in the
// length of the chain of rest references, independent of the announced depth)
func c08VmStackCopy(height int) int { return 320 * height * height }

// once a decoder has produced this many failing inputs it is not explored
// further (each failing case may cost a gigabyte allocation in the child)
const c08MaxFailsPerType = 3

var c08ExploreFails = map[string]int{}

func c08Explore(c *Ctx, kind string, in sx.V, typeName string, weight int, extra int) {
	if c08ExploreFails[typeName] >= c08MaxFailsPerType {
		return
	}
	nf := len(c.fails)
	defer func() {
		if len(c.fails) > nf {
			c08ExploreFails[typeName]++
		}
	}()
	c08GoOnly++
	out := guardedExec(kind, in, 10*time.Second)
	s := out.String()
	switch {
	case strings.Contains(s, "'panic"):
		c.Fail(kind, in, "tlb-panic-"+typeName, "decoding into "+typeName+" panicked")
	case strings.Contains(s, "'timeout"):
		c.Fail(kind, in, "tlb-hang-"+typeName, "decoding into "+typeName+" does not return: "+s)
	case strings.Contains(s, "'crash"):
		c.Fail(kind, in, "tlb-alloc-"+typeName, "decoding into "+typeName+" exhausted memory or time: "+s)
	case out.K == sx.KL && len(out.List) == 4 && out.List[0].IsA("usepanic"):
		use, unsound := string(out.List[2].Bytes), string(out.List[3].Bytes)
		switch {
		case unsound != "" && use != "":
			c.Fail(kind, in, "tlb-use-panic-"+typeName, "decoded without error but unsound ("+unsound+"); its accessor panics: "+use)
		case unsound != "":
			c.Fail(kind, in, "tlb-unsound-"+typeName, "decoded without error but unsound: "+unsound)
		case strings.Contains(use, ".Unmarshal") || strings.Contains(use, "UnmarshalToTlbStruct"):
			// the stack -> Go value mapping is part of decoding an answer: a panic there is a failure
			c.Fail(kind, in, "tlb-map-panic-"+typeName, "mapping a soundly decoded value to a Go destination panics: "+use)
		case kind == "c08.tlbgo" && !c08SxExotic(in.List[1]):
			// every cell of the input is an ordinary cell and the decoder accepted it: the value is what a
			// caller gets for well-formed data, and an exported helper method of it panics
			c.Fail(kind, in, "tlb-helper-panic-"+typeName, "an exported helper method panics on a value decoded from a tree of ordinary cells: "+use)
		default:
			// the value is sound (e.g. the zero value left by a skipped pruned branch):
			// what the accessor does with it is an API contract, counted as an observation
			c.Note(kind, "observation:"+c08ObservationClass(use), in)
		}
	case out.K == sx.KL && len(out.List) == 2 && out.List[1].K == sx.KN:
		a := out.List[1].U64()
		if ratio := float64(a) / float64(weight); ratio > c08Calib[typeName] {
			c08Calib[typeName] = ratio
		}
		if net := float64(a) - float64(extra); net > 0 {
			if weight <= 256 && net > c08CalibSmall {
				c08CalibSmall = net
			}
			if weight >= 1024 && net/float64(weight) > c08CalibSlope {
				c08CalibSlope = net / float64(weight)
			}
		}
		if a > uint64(c08TlbSlope*weight+c08TlbIntercept+extra) {
			c.Fail(kind, in, "tlb-alloc-"+typeName, fmt.Sprintf("decoding into %s allocated %d bytes for an input of weight %d bytes", typeName, a, weight))
		}
		if kind == "c08.bocgo" {
			c.Note(kind, typeName+"|"+out.List[0].String(), in)
		}
	default:
		c.Fail(kind, in, "tlb-harness-"+typeName, "unexpected child answer "+s)
	}
}

func c08SxExotic(v sx.V) bool {
	if v.List[0].I() != 0 {
		return true
	}
	for _, r := range v.List[2].List {
		if c08SxExotic(r) {
			return true
		}
	}
	return false
}

func c08ExploreTlb(c *Ctx, ti int, tree *c08Tree) {
	if !tree.fits() {
		return
	}
	extra := 0
	if n := c08ShortName(c08TlbTypes[ti]); n == "VmStack" {
		extra = c08VmStackCopy(tree.height())
	}
	c08Explore(c, "c08.tlbgo", sx.L(sx.Nat(ti), tree.sx()), c08ShortName(c08TlbTypes[ti]), tree.weight(), extra)
}

func c08ExploreVmTl(c *Ctx, tree *c08Tree) {
	if !tree.fits() || tree.Kind != 0 {
		return
	}
	b, err := tree.cell().ToBoc()
	if err != nil {
		return
	}
	c08Explore(c, "c08.vmtlgo", sx.Bytes(b), "VmStackTL", len(b), c08VmStackCopy(tree.height()))
}

func c08Chain(head []bool, item []bool, n int) *c08Tree {
	// n cells after the root, each: item bits and a reference to the next
	var next *c08Tree
	for i := 0; i < n; i++ {
		cl := &c08Tree{Bits: append([]bool{}, item...)}
		if next != nil {
			cl.Refs = []*c08Tree{next}
		}
		next = cl
	}
	root := &c08Tree{Bits: append(append([]bool{}, head...), item...)}
	if next != nil {
		root.Refs = []*c08Tree{next}
	}
	return root
}

var c08RePkg = regexp.MustCompile(`[A-Za-z0-9_.\-]+/`)

// type name without package paths: Hashmap[tlb.Uint19,boc.Cell]
func c08ShortName(t reflect.Type) string { return c08RePkg.ReplaceAllString(t.Name(), "") }

// index of the first registered type whose short name is name or starts with name + "["
func c08TypeIndex(name string) int {
	for i, t := range c08TlbTypes {
		if n := c08ShortName(t); n == name || strings.HasPrefix(n, name+"[") {
			return i
		}
	}
	return -1
}

// length / count / depth prefixes at their maximum with a short remainder
// a directed input: compared with the model when the type is described,
// always under the allocation oracle
func c08DirectedCase(c *Ctx, ti int, tree *c08Tree) {
	if ti < 0 || !tree.fits() {
		return
	}
	if d := c08DeriveTop(c08TlbTypes[ti]); d != nil {
		in := c08TlbInput(d, tree)
		out := c.EmitGuarded("c08.tlb", in, c08ShortName(c08TlbTypes[ti])+"|malformed")
		if o := out.String(); strings.Contains(o, "'panic") || strings.Contains(o, "'crash") || strings.Contains(o, "'timeout") {
			c.Fail("c08.tlb", in, "tlb-panic", "tlb.Unmarshal panicked / crashed: "+o)
		}
	}
	c08ExploreTlb(c, ti, tree)
}

func genC08Directed(c *Ctx) {
	r := c.R.Fork(7000)
	null := c08BitsOf(0, 8)                               // vm_stk_null#00
	tiny := append(c08BitsOf(1, 8), c08BitsOf(42, 64)...) // vm_stk_tinyint#01
	vs, vv := c08TypeIndex("VmStack"), c08TypeIndex("VmStackValue")
	for _, depth := range []uint64{0, 1, 2, 3, 4, 255, 256, 65535, 65536, 200000, 0xFFFFFE, 0xFFFFFF} {
		for chain := 0; chain <= 4; chain++ {
			for _, item := range [][]bool{null, tiny, nil} {
				t := c08Chain(c08BitsOf(depth, 24), item, chain)
				c08DirectedCase(c, vs, t)
				c08ExploreVmTl(c, t)
			}
		}
	}
	// honest stacks of growing length (the per-level copy is quadratic in the length)
	for _, n := range []int{1, 2, 8, 32, 128, c.Scale(256, 1000)} {
		t := c08Chain(c08BitsOf(uint64(n), 24), tiny, n)
		c08DirectedCase(c, vs, t)
		c08ExploreVmTl(c, t)
	}
	// tuples: vm_stk_tuple#07 len:(## 16) with few or no refs
	for _, ln := range []uint64{0, 1, 2, 3, 255, 65535} {
		for refs := 0; refs <= 2; refs++ {
			t := &c08Tree{Bits: append(c08BitsOf(7, 8), c08BitsOf(ln, 16)...)}
			for i := 0; i < refs; i++ {
				t.Refs = append(t.Refs, &c08Tree{Bits: null})
			}
			c08DirectedCase(c, vv, t)
		}
	}
	// cell slices: st/end bits and refs around the real size of the cell, all orders
	cs := c08TypeIndex("VmCellSlice")
	for _, nb := range []int{0, 10} {
		for _, nr := range []int{0, 2} {
			cell := &c08Tree{Bits: c08RandBits(r, nb)}
			for i := 0; i < nr; i++ {
				cell.Refs = append(cell.Refs, &c08Tree{Bits: null})
			}
			around := func(x int) []int { return []int{0, x - 1, x, x + 1} }
			for _, sb := range around(nb) {
				for _, eb := range around(nb) {
					for _, sr := range around(nr) {
						for _, er := range around(nr) {
							if sb < 0 || eb < 0 || sr < 0 || er < 0 {
								continue
							}
							bits := append(c08BitsOf(uint64(sb), 10), c08BitsOf(uint64(eb), 10)...)
							bits = append(bits, c08BitsOf(uint64(sr), 3)...)
							bits = append(bits, c08BitsOf(uint64(er), 3)...)
							c08DirectedCase(c, cs, &c08Tree{Bits: bits, Refs: []*c08Tree{cell.clone()}})
							val := &c08Tree{Bits: append(c08BitsOf(4, 8), bits...), Refs: []*c08Tree{cell.clone()}}
							c08DirectedCase(c, vv, val)
							st := &c08Tree{Bits: append(c08BitsOf(1, 24), val.Bits...), Refs: []*c08Tree{{}, cell.clone()}}
							c08DirectedCase(c, vs, st)
						}
					}
				}
			}
		}
	}
	// hash-first decoders: cell trees around the depth at which boc.Cell.Hash() gives up
	for _, name := range []string{"Message", "Transaction"} {
		ti := c08TypeIndex(name)
		d := c08DeriveTop(c08TlbTypes[ti])
		if ti < 0 || d == nil {
			continue
		}
		for _, n := range []int{5, 1021, 1022, 1023, 1024, 1025, 1026} {
			base := &c08Tree{}
			c08GenValid(r, d, base, 0)
			if len(base.Refs) >= 4 {
				continue
			}
			var chain *c08Tree
			for i := 0; i < n; i++ {
				cl := &c08Tree{Bits: []bool{i%2 == 0}}
				if chain != nil {
					cl.Refs = []*c08Tree{chain}
				}
				chain = cl
			}
			base.Refs = append(base.Refs, chain)
			c08DirectedCase(c, ti, base)
		}
	}
	// hashmaps: labels announcing more bits than the cell holds
	labels := func(keyBits int) [][]bool {
		w := 0
		for (1 << uint(w)) <= keyBits {
			w++
		}
		var out [][]bool
		for _, n := range []int{keyBits, keyBits - 1, keyBits + 1, (1 << uint(w)) - 1, 0, 1} {
			if n < 0 {
				continue
			}
			long := append([]bool{true, false}, c08BitsOf(uint64(n), w)...)
			same := append([]bool{true, true, true}, c08BitsOf(uint64(n), w)...)
			short := []bool{false}
			for i := 0; i < n && i < 1000; i++ {
				short = append(short, true)
			}
			short = append(short, false)
			for _, l := range [][]bool{long, same, short} {
				for _, have := range []int{0, 1, n / 2, n} {
					out = append(out, append(append([]bool{}, l...), c08RandBits(r, have)...))
				}
			}
		}
		return out
	}
	for _, hm := range []struct {
		name string
		key  int
		e    bool
	}{{"Hashmap", 19, false}, {"HashmapE", 32, true}, {"HashmapAugE", 256, true}} {
		ti := c08TypeIndex(hm.name)
		if ti < 0 {
			continue
		}
		for _, l := range labels(hm.key) {
			for refs := 0; refs <= 2; refs++ {
				node := &c08Tree{Bits: l}
				for i := 0; i < refs; i++ {
					node.Refs = append(node.Refs, &c08Tree{Bits: c08RandBits(r, r.Intn(24))})
				}
				t := node
				if hm.e {
					t = &c08Tree{Bits: []bool{true}, Refs: []*c08Tree{node}}
				}
				c08DirectedCase(c, ti, t)
			}
		}
	}
	// VarUInteger / snake / text lengths at their maximum with a short remainder
	for _, name := range []string{"Grams", "CurrencyCollection", "VarUInteger16", "VarUInteger32", "SnakeData", "Text", "Bytes", "FixedLengthText", "Message", "Account", "Transaction", "StateInit", "VmCont", "VmStkTuple"} {
		ti := c08TypeIndex(name)
		if ti < 0 {
			continue
		}
		for _, pre := range [][]bool{c08BitsOf(15, 4), c08BitsOf(31, 5), c08BitsOf(255, 8), c08BitsOf(0xffff, 16), c08BitsOf(0xffffff, 24), c08BitsOf(0xffffffff, 32), nil} {
			for _, have := range []int{0, 1, 8, 64, 1023 - len(pre)} {
				for chain := 0; chain <= 3; chain += 3 {
					t := c08Chain(pre, c08RandBits(r, have/2), chain)
					t.Bits = append(append([]bool{}, pre...), c08RandBits(r, have)...)
					c08DirectedCase(c, ti, t)
				}
			}
		}
	}
}

// every (choice node, branch) of a descriptor, breadth first, each with the choices that lead to it
func c08ChoicePaths(root *c08Desc, limit int) []map[*c08Desc]int {
	type item struct {
		d    *c08Desc
		path map[*c08Desc]int
	}
	var out []map[*c08Desc]int
	seen := map[*c08Desc]bool{}
	queue := []item{{root, map[*c08Desc]int{}}}
	for len(queue) > 0 && len(out) < limit {
		it := queue[0]
		queue = queue[1:]
		d := it.d
		if d == nil || seen[d] {
			continue
		}
		seen[d] = true
		with := func(v int) map[*c08Desc]int {
			m := make(map[*c08Desc]int, len(it.path)+1)
			for k, x := range it.path {
				m[k] = x
			}
			m[d] = v
			return m
		}
		switch d.K {
		case "maybe", "mref", "refrawopt":
			out = append(out, with(0), with(1))
			queue = append(queue, item{d.Sub[0], with(1)})
		case "either", "peek":
			out = append(out, with(0), with(1))
			queue = append(queue, item{d.Sub[0], with(0)}, item{d.Sub[1], with(1)})
		case "eref":
			out = append(out, with(0), with(1))
			queue = append(queue, item{d.Sub[0], with(1)})
		case "sum":
			for i := range d.Alts {
				out = append(out, with(i))
				queue = append(queue, item{d.Alts[i].T, with(i)})
			}
			if len(d.Alts) > 0 {
				out = append(out, with(len(d.Alts)))
			}
		default:
			for _, x := range d.Sub {
				queue = append(queue, item{x, it.path})
			}
		}
	}
	if len(out) > limit {
		out = out[:limit]
	}
	return out
}

// generation grammars of the registered types whose hand-written decoders have no descriptor in the
// model (guarded Go oracles only): they say how a well-formed value of every constructor looks, and
// also name the ill-formed continuations worth trying (unknown protocol / capability, flags 3)
func c08Grammar(t reflect.Type) *c08Desc {
	st := func(sub ...*c08Desc) *c08Desc { return &c08Desc{K: "struct", Sub: sub} }
	bits := func(n int) *c08Desc { return &c08Desc{K: "bits", W: n} }
	alt := func(l int, v uint64, d *c08Desc) c08Alt { return c08Alt{Len: l, Val: v, T: d} }
	sum := func(a ...c08Alt) *c08Desc { return &c08Desc{K: "sum", Alts: a} }
	ftext := &c08Desc{K: "ftext"}
	ref := func(d *c08Desc) *c08Desc { return &c08Desc{K: "ref", Sub: []*c08Desc{d}} }
	dnsText := func() *c08Desc {
		return sum(alt(8, 0, st()), alt(8, 1, ftext), alt(8, 2, st(ftext, ref(ftext))), alt(8, 3, st(ftext, ref(st(ftext, ref(ftext))))),
			alt(8, 2, ftext), alt(8, 255, st(ftext, ref(ftext))))
	}
	var list func(item func() *c08Desc, n int) *c08Desc
	list = func(item func() *c08Desc, n int) *c08Desc {
		if n == 0 {
			return &c08Desc{K: "magic", W: 1, Val: 0}
		}
		return &c08Desc{K: "maybe", Sub: []*c08Desc{st(item(), list(item, n-1))}}
	}
	flagged := func(item func() *c08Desc) *c08Desc {
		return sum(alt(8, 0, st()), alt(8, 1, list(item, 3)), alt(8, 2, list(item, 3)), alt(8, 3, list(item, 1)))
	}
	proto := func() *c08Desc { return sum(alt(16, 0x4854, st()), alt(16, 0x1234, st())) }
	capability := func() *c08Desc {
		return sum(alt(16, 0x5371, st()), alt(16, 0x71f4, st()), alt(16, 0x2177, st()), alt(8, 0xff, dnsText()), alt(16, 0x1234, st()))
	}
	dnsRecord := func() *c08Desc {
		return sum(alt(16, 0x1eda, dnsText()), alt(16, 0xba93, &c08Desc{K: "addr"}), alt(16, 0xad01, st(bits(256), flagged(proto))),
			alt(16, 0x9fd3, st(&c08Desc{K: "addr"}, flagged(capability))), alt(16, 0x7473, bits(256)), alt(16, 0x0001, bits(40)))
	}
	switch c08ShortName(t) {
	case "DNSRecord":
		return dnsRecord()
	case "DNSText":
		return dnsText()
	case "DNSRecordSet":
		return &c08Desc{K: "hm", W: 256, Val: 64, Sub: []*c08Desc{ref(dnsRecord())}}
	case "SignedCoins":
		var alts []c08Alt
		for n := 0; n <= 9; n++ {
			alts = append(alts, alt(4, uint64(n), bits(8*n)))
		}
		return st(&c08Desc{K: "bool"}, sum(alts...))
	case "ChunkedData":
		return &c08Desc{K: "maybe", Sub: []*c08Desc{ref(&c08Desc{K: "hm", W: 32, Val: 8, Sub: []*c08Desc{ref(&c08Desc{K: "snake"})}})}}
	}
	return nil
}

// every constructor, then what follows it damaged: for every (choice node, branch) of the descriptor or
// grammar a tree that takes that branch (and the branches leading to it), then: references cut to
// 0..n-1 on the cells of the first levels, cells truncated at field boundaries and one bit after them
func genC08Constructors(c *Ctx, r *prng.R, g *c08Desc, heavy bool, run func(tree *c08Tree, class string), name string) {
	limit, nodeCap, truncCap := c.Scale(24, 160), 10, c.Scale(24, 80)
	if heavy {
		limit, nodeCap, truncCap = c.Scale(4, 24), 3, c.Scale(2, 10)
	}
	for _, path := range c08ChoicePaths(g, limit) {
		c08Forced, c08MarkOn, c08Marks = path, true, nil
		base := &c08Tree{}
		c08GenValid(r, g, base, 0)
		marks := c08Marks
		c08Forced, c08MarkOn, c08Marks = nil, false, nil
		if !base.fits() {
			continue
		}
		run(base, name+"|ctor")
		index := map[*c08Tree]int{}
		var nodes []*c08Tree
		base.all(&nodes)
		for i, x := range nodes {
			index[x] = i
		}
		// missing references
		var level []*c08Tree
		level = append(level, base)
		level = append(level, base.Refs...)
		if !heavy {
			for _, x := range base.Refs {
				level = append(level, x.Refs...)
			}
		}
		if len(level) > nodeCap {
			level = level[:nodeCap]
		}
		for _, x := range level {
			for k := 0; k < len(x.Refs); k++ {
				m := base.clone()
				var ns []*c08Tree
				m.all(&ns)
				ns[index[x]].Refs = ns[index[x]].Refs[:k]
				run(m, name+"|ctor-refs")
			}
		}
		// truncation at field boundaries
		type cut struct{ node, pos int }
		done := map[cut]bool{}
		var cuts []cut
		for _, mk := range marks {
			i, ok := index[mk.node]
			if !ok {
				continue
			}
			for _, p := range []int{mk.pos, mk.pos + 1} {
				if p < len(mk.node.Bits) && !done[cut{i, p}] {
					done[cut{i, p}] = true
					cuts = append(cuts, cut{i, p})
				}
			}
		}
		for len(cuts) > truncCap {
			i := r.Intn(len(cuts))
			cuts = append(cuts[:i], cuts[i+1:]...)
		}
		for _, ct := range cuts {
			m := base.clone()
			var ns []*c08Tree
			m.all(&ns)
			ns[ct.node].Bits = ns[ct.node].Bits[:ct.pos]
			run(m, name+"|ctor-trunc")
		}
	}
}

// sibling collections of different sizes: every optional part present, and the dictionaries of one value
// with 1..3 entries, growing / shrinking / equal in the order in which the decoder meets them (helpers
// that walk one dictionary and index the parallel slice of another depend on the relation of the sizes)
func genC08Sizes(c *Ctx, r *prng.R, g *c08Desc, heavy bool, run func(tree *c08Tree, class string), name string) {
	if !g.hasKind("hm", "hmaug") {
		return
	}
	limit := c.Scale(6, 24)
	if heavy {
		limit = c.Scale(3, 10)
	}
	paths := append([]map[*c08Desc]int{{}}, c08ChoicePaths(g, limit)...)
	for pi, path := range paths {
		gen := func(sizes func(int) int) (*c08Tree, int) {
			c08Forced, c08AllPresent, c08MapSizes, c08MapSeq = path, true, sizes, 0
			t := &c08Tree{}
			c08GenValid(r.Fork(uint64(7000+pi)), g, t, 0)
			n := c08MapSeq
			c08Forced, c08AllPresent, c08MapSizes, c08MapSeq = nil, false, nil, 0
			return t, n
		}
		_, total := gen(func(int) int { return 1 })
		if total == 0 {
			continue
		}
		up := func(i int) int {
			if total < 2 {
				return 2
			}
			if i >= total {
				i = total - 1
			}
			return 1 + 2*i/(total-1)
		}
		up2 := func(i int) int { return (up(i) + 2) / 2 } // 1, 2, 2
		for k, sizes := range []func(int) int{up, func(i int) int { return 4 - up(i) }, func(int) int { return 2 }, up2, func(i int) int { return 3 - up2(i) }} {
			t, _ := gen(sizes)
			if t.fits() {
				run(t, name+"|"+[]string{"sizes-up", "sizes-down", "sizes-equal", "sizes-up", "sizes-down"}[k])
			}
		}
	}
}

func genC08TLB(c *Ctx) {
	for ti, t := range c08TlbTypes {
		r := c.R.Fork(uint64(5000 + ti))
		d := c08DeriveTop(t)
		loop := d != nil && d.hasLoop()
		run := func(tree *c08Tree, class string) {
			if !tree.fits() {
				return
			}
			// coverage class: type x {valid, exotic, malformed}
			if i := strings.LastIndex(class, "|"); i >= 0 {
				switch fam := class[i+1:]; {
				case fam == "valid", fam == "ctor":
				case strings.HasPrefix(fam, "sizes"):
					class = class[:i] + "|sizes"
				case strings.HasPrefix(fam, "exotic"):
					class = class[:i] + "|exotic"
				default:
					class = class[:i] + "|malformed"
				}
			}
			if d == nil {
				// hand-written decoder: exploration support only, in the guarded child
				c08ExploreTlb(c, ti, tree)
				if t.Name() == "VmStack" {
					c08ExploreVmTl(c, tree)
				}
				return
			}
			in := c08TlbInput(d, tree)
			var out sx.V
			if loop {
				// the decoder follows the data: run it in the guarded child and
				// put the allocation oracle on it as well
				out = c.EmitGuarded("c08.tlb", in, class)
				c08ExploreTlb(c, ti, tree)
			} else {
				out = c.Emit("c08.tlb", in, class)
				if strings.HasSuffix(class, "|valid") || strings.HasSuffix(class, "|ctor") || strings.HasSuffix(class, "|sizes") {
					// the exported helper methods of a decoded value (use oracle) for the fixed-layout types too
					c08ExploreTlb(c, ti, tree)
				}
			}
			if o := out.String(); strings.Contains(o, "'panic") || strings.Contains(o, "'crash") || strings.Contains(o, "'timeout") {
				c.Fail("c08.tlb", in, "tlb-panic", "tlb.Unmarshal panicked / crashed: "+o)
			}
		}
		name := c08ShortName(t)
		if d != nil {
			c08TlbByDesc[d.sx().String()] = t
		}
		n := c.Scale(12, 80)
		if d == nil {
			n = c.Scale(12, 250)
		}
		// block-level types have descriptors of tens of kilobytes and valid trees of dozens
		// of cells: fewer bases, and a sample of the reference positions for the exotic cells
		heavy := d != nil && len(d.sx().String()) > 2500
		if heavy {
			n = c.Scale(2, 12)
		}
		g := d
		if g == nil {
			g = c08Grammar(t)
		}
		if g != nil {
			genC08Constructors(c, r, g, heavy, run, name)
			genC08Sizes(c, r, g, heavy, run, name)
		}
		for k := 0; k < n; k++ {
			var base *c08Tree
			if g != nil && (d != nil || k%4 != 3) {
				base = &c08Tree{}
				c08GenValid(r, g, base, 0)
			} else {
				base = c08RandTree(r, 0)
			}
			run(base, name+"|valid")
			var nodes []*c08Tree
			// truncated cells
			m := base.clone()
			nodes = nil
			m.all(&nodes)
			x := nodes[r.Intn(len(nodes))]
			if len(x.Bits) > 0 {
				x.Bits = x.Bits[:r.Intn(len(x.Bits))]
			}
			run(m, name+"|trunc-bits")
			// dropped reference
			m = base.clone()
			nodes = nil
			m.all(&nodes)
			x = nodes[r.Intn(len(nodes))]
			if len(x.Refs) > 0 {
				i := r.Intn(len(x.Refs))
				x.Refs = append(x.Refs[:i:i], x.Refs[i+1:]...)
				run(m, name+"|drop-ref")
			}
			// flipped bit
			m = base.clone()
			nodes = nil
			m.all(&nodes)
			x = nodes[r.Intn(len(nodes))]
			if len(x.Bits) > 0 {
				i := r.Intn(len(x.Bits))
				if r.Chance(50) && len(x.Bits) > 8 {
					i = r.Intn(8)
				}
				x.Bits[i] = !x.Bits[i]
				run(m, name+"|flip")
			}
			// exotic cell in every reference position (and at the root)
			nodes = nil
			base.all(&nodes)
			maxPos := len(nodes)
			if limit := c.Scale(8, 30); maxPos > limit {
				maxPos = limit
			}
			if heavy && maxPos > c.Scale(4, 12) {
				maxPos = c.Scale(4, 12)
			}
			for pi := 0; pi < maxPos; pi++ {
				i := pi
				if maxPos < len(nodes) {
					i = r.Intn(len(nodes))
				}
				for _, kind := range []int{1, 2, 3} {
					if kind == 3 && !r.Chance(20) {
						continue
					}
					m = base.clone()
					var ns []*c08Tree
					m.all(&ns)
					ns[i].Kind = kind
					if r.Chance(50) {
						// what a real pruned branch / library cell looks like
						ns[i].Refs = nil
						ns[i].Bits = append(c08BitsOf(uint64(kind), 8), c08RandBits(r, 8+256+16)...)
					}
					run(m, name+"|exotic"+strconv.Itoa(kind))
				}
			}
		}
		if d != nil {
			for k := 0; k < c.Scale(6, 60); k++ {
				run(c08RandTree(r, 0), name+"|random")
			}
		}
	}
}

// ---------------------------------------------------------------- framing

func execC08Declen(in sx.V) sx.V {
	b := append([]byte{}, in.Bytes...)
	n, rest, err := liteclient.VerifDecodeLength(b)
	if err != nil {
		return sx.A("err")
	}
	return sx.L(sx.A("ok"), sx.Nat(n), sx.Nat(len(rest)))
}

func execC08Answer(in sx.V) sx.V {
	d, err := liteclient.VerifProcessQueryAnswer(append([]byte{}, in.List[1].Bytes...), in.List[0].Bool)
	if err != nil {
		return sx.A("err")
	}
	return sx.L(sx.A("ok"), sx.Bytes(d))
}

// the same answer twice for a query registered once: the reader must not hang
func execC08Answer2(in sx.V) sx.V {
	errs, hung := liteclient.VerifProcessQueryAnswerRepeat(append([]byte{}, in.Bytes...), 2, 2*time.Second)
	if hung {
		return sx.A("hang")
	}
	cl := func(e bool) sx.V {
		if e {
			return sx.A("err")
		}
		return sx.A("ok")
	}
	return sx.L(cl(errs[0]), cl(errs[1]))
}

// VmStackValue.Unmarshal of an integer stack entry into one destination kind
var c08MapDests = map[string]func() (any, string){
	"int8": func() (any, string) { return new(int8), "int" }, "int16": func() (any, string) { return new(int16), "int" },
	"int32": func() (any, string) { return new(int32), "int" }, "int64": func() (any, string) { return new(int64), "int" },
	"intn":  func() (any, string) { return new(int), "int" },
	"uint8": func() (any, string) { return new(uint8), "uint" }, "uint16": func() (any, string) { return new(uint16), "uint" },
	"uint32": func() (any, string) { return new(uint32), "uint" }, "uint64": func() (any, string) { return new(uint64), "uint" },
	"uintn":    func() (any, string) { return new(uint), "uint" },
	"bool":     func() (any, string) { return new(bool), "bool" },
	"bits256":  func() (any, string) { return new(tlb.Bits256), "bits256" },
	"int257":   func() (any, string) { return new(tlb.Int257), "int257" },
	"bigint":   func() (any, string) { return new(big.Int), "bigint" },
	"string":   func() (any, string) { return new(string), "other" },
	"struct":   func() (any, string) { return new(C08Small), "other" },
	"pbits256": func() (any, string) { return new(*tlb.Bits256), "pbits256" },
	"pint257":  func() (any, string) { return new(*tlb.Int257), "pint257" },
	"pint64":   func() (any, string) { return new(*int64), "pother" },
}

// c08.mapint: (tiny? z 'kind 'dest) -> 'ok | 'err
func execC08MapInt(in sx.V) sx.V {
	z := in.List[1].Int
	var v tlb.VmStackValue
	if in.List[0].Bool {
		v = tlb.VmStackValue{SumType: "VmStkTinyInt", VmStkTinyInt: z.Int64()}
	} else {
		v = tlb.VmStackValue{SumType: "VmStkInt", VmStkInt: tlb.Int257(*new(big.Int).Set(z))}
	}
	dest, _ := c08MapDests[in.List[3].Atom]()
	if err := v.Unmarshal(dest); err != nil {
		return sx.A("err")
	}
	return sx.A("ok")
}

// c08.reuse: (type-index treeA treeB): decode A, then B into the SAME receiver; B into a
// fresh receiver; same outcome class and (when both succeed) the same JSON rendering.
// Child only, no model.
func execC08Reuse(in sx.V) sx.V {
	t := c08TlbTypes[in.List[0].I()]
	a, b := c08TreeOfSx(in.List[1]), c08TreeOfSx(in.List[2])
	used := reflect.New(t)
	_ = tlb.Unmarshal(a.cell(), used.Interface())
	errUsed := tlb.Unmarshal(b.cell(), used.Interface())
	fresh := reflect.New(t)
	errFresh := tlb.Unmarshal(b.cell(), fresh.Interface())
	if (errUsed == nil) != (errFresh == nil) {
		return sx.A("class-differs")
	}
	if errFresh != nil {
		return sx.A("err")
	}
	ju, e1 := json.Marshal(used.Interface())
	jf, e2 := json.Marshal(fresh.Interface())
	if e1 != nil || e2 != nil {
		if (e1 == nil) != (e2 == nil) {
			return sx.A("json-class-differs")
		}
		return sx.A("ok")
	}
	if !bytes.Equal(ju, jf) {
		// the renderings differ: does the value differ as a TL-B value (its re-encoding), or only in
		// fields that the active variant / absent Maybe does not read (stale data of the previous use)?
		cu, cf := boc.NewCell(), boc.NewCell()
		mu, mf := tlb.Marshal(cu, used.Interface()), tlb.Marshal(cf, fresh.Interface())
		if mf != nil {
			// the freshly decoded value has no re-encoding (e.g. a flag-gated field left empty): nothing to compare with
			return sx.A("stale")
		}
		if mu != nil {
			return sx.L(sx.A("differs"), sx.Str(fmt.Sprintf("re-encoding fails for one of them only: used %v, fresh %v", mu, mf)), sx.Str(string(ju)), sx.Str(string(jf)))
		}
		if mu == nil {
			hu, e1 := cu.HashString()
			hf, e2 := cf.HashString()
			if e1 != nil || e2 != nil || hu != hf {
				return sx.L(sx.A("differs"), sx.Str(string(ju)), sx.Str(string(jf)))
			}
		}
		return sx.A("stale")
	}
	return sx.A("ok")
}

// c08.reqdec: LiteapiRequestDecoder(bytes) -> 'short | 'unknown | ('req TypeName)
func execC08ReqDec(in sx.V) sx.V {
	_, name, body, err := liteclient.LiteapiRequestDecoder(append([]byte{}, in.Bytes...))
	if err != nil {
		return sx.A("short")
	}
	if name == nil || body == nil {
		return sx.A("unknown")
	}
	return sx.L(sx.A("req"), sx.A(reflect.TypeOf(body).Name()))
}

// c08.bocgo: ('sendmsg|'config bytes): helpers that parse a BOC and decode its root (no model, child only)
func execC08BocGo(in sx.V) sx.V {
	var err error
	class, a := c08MemDelta(func() error {
		switch in.List[0].Atom {
		case "sendmsg":
			err = liteapi.VerifySendMessagePayload(in.List[1].Bytes)
		default:
			_, err = ton.DecodeConfigParams(in.List[1].Bytes)
		}
		return err
	})
	return sx.L(sx.A(class), sx.N(a))
}

// c08.pktalloc: a stream that is little more than a size field -> (outcome 'announced|'small):
// did ParsePacket allocate the announced length (reported for lengths of at least 256 KiB)
func execC08PktAlloc(in sx.V) sx.V {
	stream := in.Bytes
	var err error
	runtime.GC()
	var m0, m1 runtime.MemStats
	runtime.ReadMemStats(&m0)
	_, err = liteclient.ParsePacket(bytes.NewReader(stream), c08Identity{})
	runtime.ReadMemStats(&m1)
	class := "ok"
	if err != nil {
		class = "err"
	}
	alloc := "small"
	if len(stream) >= 4 {
		if n := uint64(binary.LittleEndian.Uint32(stream)); n >= 262144 && m1.TotalAlloc-m0.TotalAlloc >= n {
			alloc = "announced"
		}
	}
	return sx.L(sx.A(class), sx.A(alloc))
}

// c08.limit: the numeric limits that the implementation compares untrusted lengths with, read from
// its source text (the file is found through the program counter of a function of the package)
var c08LimitSources = map[string]struct {
	fn   any
	file string
	re   string
}{
	"packet-min":       {liteclient.ParsePacket, "adnl.go", `length < ([0-9<]+) \|\| length > [0-9<]+`},
	"packet-max":       {liteclient.ParsePacket, "adnl.go", `length < [0-9<]+ \|\| length > ([0-9<]+)`},
	"server-nonce-max": {liteclient.ParsePacket, "connection.go", `MaxServerNonceSize\s*=\s*([0-9<]+)`},
	"tl-prealloc-max":  {tl.EncodeLength, "decoder.go", `const maxPrealloc\s*=\s*([0-9<]+)`},
}

func execC08Limit(in sx.V) sx.V {
	src, ok := c08LimitSources[in.Atom]
	if !ok {
		return sx.A("unknown-limit")
	}
	f := runtime.FuncForPC(reflect.ValueOf(src.fn).Pointer())
	if f == nil {
		return sx.A("no-source")
	}
	file, _ := f.FileLine(f.Entry())
	text, err := os.ReadFile(filepath.Join(filepath.Dir(file), src.file))
	if err != nil {
		return sx.A("no-source")
	}
	ms := regexp.MustCompile(src.re).FindAllSubmatch(text, -1)
	if len(ms) != 1 {
		return sx.L(sx.A("pattern-matches"), sx.Nat(len(ms)))
	}
	// a literal or a shift of literals
	parts := strings.Split(string(ms[0][1]), "<<")
	v, err := strconv.ParseUint(parts[0], 10, 64)
	if err != nil {
		return sx.A("not-a-literal")
	}
	for _, p := range parts[1:] {
		k, err := strconv.ParseUint(p, 10, 64)
		if err != nil {
			return sx.A("not-a-literal")
		}
		v <<= k
	}
	return sx.N(v)
}

// limit-1, limit, limit+1 and the midpoint to the next power of two, for every limit; the announced
// lengths go to ParsePacket as a size field with little data behind it
func genC08Limits(c *Ctx) {
	r := c.R.Fork(9990)
	var names []string
	for n := range c08LimitSources {
		names = append(names, n)
	}
	sort.Strings(names)
	var probes []uint64
	for _, n := range names {
		out := c.Emit("c08.limit", sx.A(n), "limit|"+n)
		if out.K != sx.KN {
			c.Fail("c08.limit", sx.A(n), "limit-unreadable-"+n, "the limit cannot be read from the source: "+out.String())
			continue
		}
		l := out.U64()
		p2 := uint64(1)
		for p2 <= l {
			p2 <<= 1
		}
		probes = append(probes, l-1, l, l+1, l+(p2-l)/2, p2-1, p2, p2+1, l/2, 2*l, 3*l/2)
	}
	probes = append(probes, 0, 1, 63, 65, 262143, 262144, 262145, 1<<20, 1<<24, 1<<31-1, 1<<31, 1<<32-1)
	for k := 0; k < c.Scale(16, 200); k++ {
		probes = append(probes, uint64(r.Intn(16<<20)))
	}
	for _, n := range probes {
		if n >= 1<<32 {
			continue
		}
		for _, extra := range []int{0, 3, 64} {
			st := binary.LittleEndian.AppendUint32(nil, uint32(n))
			st = append(st, r.Bytes(extra)...)
			in := sx.Bytes(st)
			out := c.EmitGuarded("c08.pktalloc", in, "pktalloc")
			if o := out.String(); strings.Contains(o, "'panic") || strings.Contains(o, "'crash") || strings.Contains(o, "'timeout") {
				c.Fail("c08.pktalloc", in, "packet-alloc", "ParsePacket panicked / exhausted memory on a size field: "+o)
			}
		}
	}
}

// ---- liteapi.Client methods on lite-server answers: a fake lite server over net.Pipe answers
// every query with the given bytes (child only, no model)
type c08PoolConn struct{ cl *liteclient.Client }

func (c *c08PoolConn) ID() int { return 0 }
func (c *c08PoolConn) MasterHead() ton.BlockIDExt {
	return ton.BlockIDExt{BlockID: ton.BlockID{Workchain: -1, Shard: 0x8000000000000000, Seqno: 7}}
}
func (c *c08PoolConn) SetMasterHead(ton.BlockIDExt)        {}
func (c *c08PoolConn) IsOK() bool                          { return true }
func (c *c08PoolConn) Client() *liteclient.Client          { return c.cl }
func (c *c08PoolConn) Run(context.Context, bool)           {}
func (c *c08PoolConn) IsArchiveNode() bool                 { return true }
func (c *c08PoolConn) AverageRoundTrip() time.Duration     { return time.Millisecond }
func (c *c08PoolConn) Status() pool.ConnStatus             { return pool.ConnStatus{Connected: true} }

var c08ClientMethods = []string{"GetBlock", "GetBlockFast", "GetBlockHeader", "LookupBlock", "RunSmcMethodByID", "GetAccountState",
	"GetAllShardsInfo", "GetOneTransactionFromBlock", "GetTransactions", "GetLastTransactions", "GetConfigAll", "GetConfigParams",
	"GetRootDNS", "GetValidatorStats", "GetLibraries", "GetJettonWallet", "GetJettonData", "GetJettonBalance", "DnsResolve", "GetSeqno",
	"GetMasterchainInfo", "GetShardInfo", "ListBlockTransactions", "GetBlockProof", "GetState", "GetShardBlockProof", "GetOutMsgQueueSizes", "GetTime", "GetVersion"}

func c08CallClient(api *liteapi.Client, method string) error {
	ctx, cancel := context.WithTimeout(context.Background(), 4*time.Second)
	defer cancel()
	var acc ton.AccountID
	acc.Address[3] = 9
	blk := ton.BlockIDExt{BlockID: ton.BlockID{Workchain: -1, Shard: 0x8000000000000000, Seqno: 5}}
	var err error
	switch method {
	case "GetBlock", "GetBlockFast":
		_, err = api.GetBlock(ctx, blk)
	case "GetBlockHeader":
		_, err = api.GetBlockHeader(ctx, blk, 0)
	case "LookupBlock":
		_, _, err = api.LookupBlock(ctx, blk.BlockID, 1, nil, nil)
	case "RunSmcMethodByID":
		_, _, err = api.RunSmcMethodByID(ctx, acc, 85143, tlb.VmStack{})
	case "GetAccountState":
		_, err = api.GetAccountState(ctx, acc)
	case "GetAllShardsInfo":
		_, err = api.GetAllShardsInfo(ctx, blk)
	case "GetOneTransactionFromBlock":
		_, err = api.GetOneTransactionFromBlock(ctx, acc, blk, 1)
	case "GetTransactions":
		_, err = api.GetTransactions(ctx, 3, acc, 1, ton.Bits256{})
	case "GetLastTransactions":
		_, err = api.GetLastTransactions(ctx, acc, 5)
	case "GetConfigAll":
		_, err = api.GetConfigAll(ctx, 0)
	case "GetConfigParams":
		_, err = api.GetConfigParams(ctx, 0, []uint32{4})
	case "GetRootDNS":
		_, err = api.GetRootDNS(ctx)
	case "GetValidatorStats":
		_, err = api.GetValidatorStats(ctx, 0, 1, nil, nil)
	case "GetLibraries":
		_, err = api.GetLibraries(ctx, []ton.Bits256{{1}})
	case "GetJettonWallet":
		_, err = api.GetJettonWallet(ctx, acc, acc)
	case "GetJettonData":
		_, err = api.GetJettonData(ctx, acc)
	case "GetJettonBalance":
		_, err = api.GetJettonBalance(ctx, acc)
	case "DnsResolve":
		_, _, err = api.DnsResolve(ctx, acc, "ton", big.NewInt(0))
	case "GetSeqno":
		_, err = api.GetSeqno(ctx, acc)
	case "GetMasterchainInfo":
		_, err = api.GetMasterchainInfo(ctx)
	case "GetShardInfo":
		_, err = api.GetShardInfo(ctx, blk, 0, 0x8000000000000000, false)
	case "ListBlockTransactions":
		_, _, err = api.ListBlockTransactions(ctx, blk, 7, 10, nil)
	case "GetBlockProof":
		_, err = api.GetBlockProof(ctx, blk, nil)
	case "GetState":
		_, _, _, err = api.GetState(ctx, blk)
	case "GetShardBlockProof":
		_, err = api.GetShardBlockProof(ctx)
	case "GetOutMsgQueueSizes":
		_, err = api.GetOutMsgQueueSizes(ctx)
	case "GetTime":
		_, err = api.GetTime(ctx)
	case "GetVersion":
		_, err = api.GetVersion(ctx)
	default:
		err = fmt.Errorf("harness: no such method")
	}
	return err
}

// c08.client: ('Method answer) -> 'ok | 'err | 'stuck
func execC08Client(in sx.V) sx.V {
	c08Quiet()
	method, answer := in.List[0].Atom, in.List[1].Bytes
	cl, sv := net.Pipe()
	defer cl.Close()
	defer sv.Close()
	conn := liteclient.VerifNewConnection(cl, c08Identity{}, c08Identity{})
	client := liteclient.VerifNewClient([]*liteclient.Connection{conn}, 4*time.Second)
	go func() {
		rd := bufio.NewReader(sv)
		for {
			p, err := liteclient.ParsePacket(rd, c08Identity{})
			if err != nil {
				return
			}
			if len(p.Payload) >= 36 {
				ans := []byte{0x16, 0x84, 0xac, 0x0f}
				ans = append(ans, p.Payload[4:36]...)
				body := append(tl.EncodeLength(len(answer)), answer...)
				for len(body)%4 != 0 {
					body = append(body, 0)
				}
				ans = append(ans, body...)
				_, _ = sv.Write(c08Frame(ans))
			}
		}
	}()
	pc := &c08PoolConn{cl: client}
	policy := liteapi.ProofPolicyUnsafe
	if method == "GetBlockFast" {
		policy = liteapi.ProofPolicyFast
	}
	api := liteapi.VerifNewClientOverPool(pool.VerifNewPool(pool.BestPingStrategy, []pool.VerifConn{pc}, pc), policy)
	done := make(chan error, 1)
	go func() {
		defer func() {
			if r := recover(); r != nil {
				done <- fmt.Errorf("c08-panic: %v", r)
			}
		}()
		done <- c08CallClient(api, method)
	}()
	select {
	case err := <-done:
		switch {
		case err == nil:
			return sx.A("ok")
		case strings.HasPrefix(err.Error(), "c08-panic"):
			return sx.L(sx.A("panic"), sx.Str(err.Error()))
		case strings.HasPrefix(err.Error(), "harness:"):
			return sx.A("harness-error")
		}
		return sx.L(sx.A("err"), sx.Str(trunc(err.Error(), 120)))
	case <-time.After(6 * time.Second):
		return sx.A("stuck")
	}
}

// ---- the goroutines behind ParsePacket, driven with framed packets over net.Pipe

var c08QuietOnce sync.Once

// the readers print diagnostics with fmt.Printf; the child's stdout is the protocol stream
func c08Quiet() {
	c08QuietOnce.Do(func() {
		if null, err := os.OpenFile(os.DevNull, os.O_WRONLY, 0); err == nil {
			os.Stdout = null
		}
	})
}

func c08Frame(payload []byte) []byte {
	p, _ := liteclient.NewPacket(append([]byte{}, payload...))
	return liteclient.VerifMarshalPacket(p)
}

// c08.reader: ('conn|'client|'auth payload).  The process dies when a reader goroutine
// panics: run in the guarded child only.
func execC08Reader(in sx.V) sx.V {
	c08Quiet()
	mode, payload := in.List[0].Atom, in.List[1].Bytes
	cl, sv := net.Pipe()
	defer cl.Close()
	defer sv.Close()
	sentinel := append([]byte{0x5e, 0x17, 0x1e, 0x01}, []byte("c08 sentinel")...)
	watchdog := time.After(5 * time.Second)
	switch mode {
	case "conn":
		conn := liteclient.VerifNewConnection(cl, c08Identity{}, c08Identity{})
		go func() {
			_, _ = sv.Write(c08Frame(payload))
			_, _ = sv.Write(c08Frame(sentinel))
		}()
		forwarded := false
		for {
			select {
			case p := <-conn.Responses():
				if bytes.Equal(p.Payload, sentinel) {
					if forwarded {
						return sx.A("forward")
					}
					return sx.A("consumed")
				}
				forwarded = true
			case <-watchdog:
				return sx.A("stuck")
			}
		}
	case "client":
		conn := liteclient.VerifNewConnection(cl, c08Identity{}, c08Identity{})
		client := liteclient.VerifNewClient([]*liteclient.Connection{conn}, 4*time.Second)
		// the server: the test packet first, then it answers the client's query
		go func() {
			_, _ = sv.Write(c08Frame(payload))
			rd := bufio.NewReader(sv)
			for {
				p, err := liteclient.ParsePacket(rd, c08Identity{})
				if err != nil {
					return
				}
				if len(p.Payload) >= 36 {
					ans := []byte{0x16, 0x84, 0xac, 0x0f}
					ans = append(ans, p.Payload[4:36]...)
					ans = append(ans, 4, 'p', 'o', 'n', 'g', 0, 0, 0)
					_, _ = sv.Write(c08Frame(ans))
				}
			}
		}()
		done := make(chan error, 1)
		go func() { _, err := client.Request(context.Background(), []byte("ping")); done <- err }()
		select {
		case err := <-done:
			if err != nil {
				return sx.A("dead")
			}
			return sx.A("alive")
		case <-watchdog:
			return sx.A("stuck")
		}
	default: // "auth"
		_, key, _ := ed25519.GenerateKey(nil)
		_, res := liteclient.VerifNewConnectionAuth(cl, c08Identity{}, c08Identity{}, key, bytes.Repeat([]byte{7}, 32))
		go func() {
			_, _ = sv.Write(c08Frame(payload))
			// drain what the client sends (tcp.authentificationComplete)
			buf := make([]byte, 4096)
			for {
				if _, err := sv.Read(buf); err != nil {
					return
				}
			}
		}()
		select {
		case err := <-res:
			if err != nil {
				return sx.A("autherr")
			}
			return sx.A("authok")
		case <-watchdog:
			return sx.A("other")
		}
	}
}

type c08Identity struct{}

func (c08Identity) XORKeyStream(dst, src []byte) { copy(dst, src) }

func execC08Packet(in sx.V) sx.V {
	r := bytes.NewReader(in.Bytes)
	p, err := liteclient.ParsePacket(r, c08Identity{})
	if err != nil {
		return sx.A("err")
	}
	_ = p.MagicType()
	return sx.L(sx.A("ok"), sx.Bytes(p.Payload), sx.Nat(r.Len()))
}

// 'err when the BOC does not parse or (rootsNeeded) has too few roots;
// otherwise the indexing succeeded and the root was handed to the TL-B decoder
func c08RootClass(b []byte, rootsNeeded int, call func() error) sx.V {
	err := call()
	cells, perr := boc.DeserializeBoc(b)
	if perr != nil || len(cells) < rootsNeeded {
		if err == nil {
			return sx.A("unexpected-ok")
		}
		return sx.A("err")
	}
	return sx.A("root")
}

func execC08Vmstack(in sx.V) sx.V {
	b := in.Bytes
	if len(b) == 0 {
		return sx.A("skip")
	}
	enc, _ := tl.Marshal(b)
	return c08RootClass(b, 1, func() error {
		var s tlb.VmStack
		return s.UnmarshalTL(bytes.NewReader(enc))
	})
}

func execC08Methods(in sx.V) sx.V {
	b := in.Bytes
	var err error
	call := func() error { _, err = code.ParseContractMethods(b); return err }
	out := c08RootClass(b, 1, call)
	if out.IsA("root") {
		cells, _ := boc.DeserializeBoc(b)
		if cells[0].RefsSize() == 0 {
			if err == nil {
				return sx.A("unexpected-ok")
			}
			return sx.A("err")
		}
	}
	return out
}

func execC08Accproof(in sx.V) sx.V {
	b := in.Bytes
	return c08RootClass(b, 2, func() error {
		_, _, err := liteapi.VerifDecodeAccountDataFromProof(b, ton.AccountID{})
		return err
	})
}

// a BOC of simple shape: every cell has whole data bytes and forward references
type c08Cell struct {
	Data []byte
	Refs []int
}

func c08Boc(cells []c08Cell, roots []int) []byte {
	var data []byte
	for _, c := range cells {
		data = append(data, byte(len(c.Refs)), byte(2*len(c.Data)))
		data = append(data, c.Data...)
		for _, r := range c.Refs {
			data = append(data, byte(r))
		}
	}
	b := []byte{0xb5, 0xee, 0x9c, 0x72, 0x01, 0x02, byte(len(cells)), byte(len(roots)), 0x00, byte(len(data) >> 8), byte(len(data))}
	for _, r := range roots {
		b = append(b, byte(r))
	}
	return append(b, data...)
}

func c08BoundaryInts() []*big.Int {
	p := func(e uint) *big.Int { return new(big.Int).Lsh(big.NewInt(1), e) }
	sub1 := func(x *big.Int) *big.Int { return new(big.Int).Sub(x, big.NewInt(1)) }
	neg := func(x *big.Int) *big.Int { return new(big.Int).Neg(x) }
	return []*big.Int{big.NewInt(0), big.NewInt(1), big.NewInt(-1), big.NewInt(255), big.NewInt(256), big.NewInt(-128), big.NewInt(-129),
		sub1(p(63)), p(63), neg(p(63)), sub1(neg(p(63))), sub1(p(64)), p(64), p(255), sub1(p(255)), neg(p(255)), sub1(neg(p(255))),
		sub1(p(256)), neg(sub1(p(256))), neg(p(256)), p(248), sub1(p(248)), neg(p(248))}
}

// the stack -> Go value mapping of integer entries, compared with Model/VmMap.v
func genC08MapInt(c *Ctx) {
	var dests []string
	for n := range c08MapDests {
		dests = append(dests, n)
	}
	sort.Strings(dests)
	r := c.R.Fork(9500)
	zs := c08BoundaryInts()
	for i := 0; i < c.Scale(10, 200); i++ {
		z := new(big.Int).SetBytes(r.Bytes(1 + r.Intn(32)))
		if r.Bool() {
			z.Neg(z)
		}
		zs = append(zs, z)
	}
	for _, z := range zs {
		for _, dn := range dests {
			_, kind := c08MapDests[dn]()
			for _, tiny := range []bool{false, true} {
				if tiny && !z.IsInt64() {
					continue
				}
				in := sx.L(sx.B(tiny), sx.BigZ(z), sx.A(kind), sx.A(dn))
				out := c.Emit("c08.mapint", in, "mapint|"+kind)
				if out.IsA("panic") {
					c.Fail("c08.mapint", in, "tlb-map-panic-VmStackValue", "VmStackValue.Unmarshal panics for stack integer "+z.String()+" and destination "+dn)
				}
			}
		}
	}
	// the same integers through the decoder, then the use oracle with every destination
	vv, vs := c08TypeIndex("VmStackValue"), c08TypeIndex("VmStack")
	for _, z := range c08BoundaryInts() {
		m := new(big.Int).Set(z)
		if m.Sign() < 0 {
			m.Add(m, new(big.Int).Lsh(big.NewInt(1), 257)) // two's complement in 257 bits
		}
		bits := c08BitsOf(0x0200>>1, 15)
		for i := 256; i >= 0; i-- {
			bits = append(bits, m.Bit(i) == 1)
		}
		c08DirectedCase(c, vv, &c08Tree{Bits: bits})
		c08DirectedCase(c, vs, &c08Tree{Bits: append(c08BitsOf(1, 24), bits...), Refs: []*c08Tree{{}}})
		if z.IsInt64() {
			tb := append(c08BitsOf(1, 8), c08BitsOf(uint64(z.Int64()), 64)...)
			c08DirectedCase(c, vv, &c08Tree{Bits: tb})
		}
	}
	c08DirectedCase(c, vv, &c08Tree{Bits: c08BitsOf(0x02ff, 16)}) // NaN
}

// a library cell (kind 2) as it looks on chain: type byte and a 256-bit hash
func c08LibCell(r *prng.R) *c08Tree {
	return &c08Tree{Kind: 2, Bits: append(c08BitsOf(2, 8), c08RandBits(r, 256)...)}
}

func (d *c08Desc) hasKind(ks ...string) bool {
	for _, k := range ks {
		if d.K == k {
			return true
		}
	}
	for _, s := range d.Sub {
		if s.hasKind(ks...) {
			return true
		}
	}
	for _, a := range d.Alts {
		if a.T.hasKind(ks...) {
			return true
		}
	}
	return false
}

// Decoder configurations: a hasher and a library resolver that answers with an
// ordinary cell / an error / a library cell again (the same, another one, a
// 2-cycle) / a pruned branch / a huge cell.  A decode that does not return is
// tlb-hang-<Type>.
func genC08Resolver(c *Ctx) {
	r := c.R.Fork(9600)
	hung := map[string]int{}
	for ti, t := range c08TlbTypes {
		d := c08DeriveTop(t)
		if d == nil {
			continue
		}
		name := c08ShortName(t)
		// when the resolver answers with a library cell again, every nested decode() call
		// resolves anew, keyed by the hash of the WHOLE cell it is reading; the model keeps
		// only what is left unread of a cell, so those configurations are compared with the
		// model for descriptors that never call decode() in the middle of a cell's bits
		// (plain structs of fixed-width kinds) and run under the hang / panic oracle for the rest
		plain := !d.hasKind("sum", "maybe", "either", "eref", "ref", "mref", "refraw", "var", "unary", "magic", "any", "cell", "addr",
			"grams", "snake", "bytes", "text", "ftext", "hm", "hmaug", "bintree", "vmstack", "vmvalue", "vmtuple", "cslice", "fail", "rawcell", "hashed", "peek", "ostruct", "nolib", "refrawopt")
		if _, hand := reflect.PointerTo(t).MethodByName("UnmarshalTLB"); hand {
			plain = false // its own decoder reads the resolved cell directly, without nested decode() calls
		}
		run := func(tree *c08Tree, pairs [][2]*c08Tree, class string) {
			if !tree.fits() || hung[name] >= 2 || len(hung) >= 3 {
				return
			}
			libAgain := false
			for _, p := range pairs {
				if p[1].Kind == 2 {
					libAgain = true
				}
			}
			var ps []sx.V
			for _, p := range pairs {
				if !p[1].fits() {
					return
				}
				ps = append(ps, sx.L(p[0].sx(), p[1].sx()))
			}
			in := sx.L(sx.B(!d.hasAny()), d.sx(), tree.sx(), c08HashFailPaths(tree), sx.L(ps...))
			// a short probe first: a decoder that keeps resolving must not cost a full timeout per case
			if probe := guardedExec("c08.tlb", in, 3*time.Second); probe.IsA("timeout") || probe.IsA("crash") {
				hung[name]++
				c.Fail("c08.tlb", in, "tlb-hang-"+name, "Decoder.Unmarshal with a library resolver does not return ("+probe.String()+")")
				return
			}
			if libAgain && !plain {
				if probe := guardedExec("c08.tlb", in, 3*time.Second); probe.IsA("panic") {
					c.Fail("c08.tlb", in, "tlb-panic", "Decoder.Unmarshal panicked")
				}
				c.Note("c08.tlb", "resolver-"+class, in)
				return
			}
			out := c.EmitGuarded("c08.tlb", in, "resolver-"+class)
			if o := out.String(); strings.Contains(o, "'panic") || strings.Contains(o, "'crash") || strings.Contains(o, "'timeout") {
				c.Fail("c08.tlb", in, "tlb-panic", "Decoder.Unmarshal panicked / crashed: "+o)
			}
		}
		iters := c.Scale(1, 6)
		if len(d.sx().String()) > 2500 {
			iters = 1
		}
		for k := 0; k < iters; k++ {
			valid := &c08Tree{}
			c08GenValid(r, d, valid, 0)
			lib, lib2 := c08LibCell(r), c08LibCell(r)
			huge := c08RandTree(r, 0)
			huge.Kind, huge.Bits = 0, c08RandBits(r, 1023)
			pruned := &c08Tree{Kind: 1, Bits: append(c08BitsOf(1, 8), c08RandBits(r, 8+256+16)...)}
			run(lib, [][2]*c08Tree{{lib, valid}}, "ordinary")
			run(lib, nil, "error")
			run(lib, [][2]*c08Tree{{lib, lib}}, "same")
			run(lib, [][2]*c08Tree{{lib, lib2}, {lib2, lib}}, "cycle")
			run(lib, [][2]*c08Tree{{lib, lib2}}, "chain")
			run(lib, [][2]*c08Tree{{lib, pruned}}, "pruned")
			run(lib, [][2]*c08Tree{{lib, huge}}, "huge")
			run(valid, [][2]*c08Tree{{lib, valid}}, "unused")
			// a library cell behind a reference (not inside dictionaries / bin-trees, whose nodes are read before the check)
			if !d.hasKind("hm", "hmaug", "bintree", "vmstack", "vmvalue", "vmtuple", "snake", "bytes", "text") {
				m := valid.clone()
				var nodes []*c08Tree
				m.all(&nodes)
				if len(nodes) > 1 {
					i := 1 + r.Intn(len(nodes)-1)
					orig := nodes[i].clone()
					*nodes[i] = *c08LibCell(r)
					run(m, [][2]*c08Tree{{nodes[i].clone(), orig}}, "child")
					run(m, [][2]*c08Tree{{nodes[i].clone(), nodes[i].clone()}}, "child-same")
				}
			}
		}
		_ = ti
	}
}

// framed packets of every payload length 0..16 (and the ADNL answer sizes) for every
// recognised constructor id, through Connection.reader, Client.reader behind it, and
// Connection.reader while authenticating
func genC08Readers(c *Ctx) {
	r := c.R.Fork(9700)
	magics := []uint32{0x4d082b9a, 0xdc69fb03, 0x445bab12, 0xe35d4ab6, 0xf7ad9ea6, 0x4813b4c6, 0xb48bf97a, 0x0fac8416, 0x798c06df, 0xbaeab892, 0, uint32(r.U64())}
	lens := []int{0, 1, 2, 3, 4, 5, 6, 7, 8, 9, 10, 11, 12, 13, 14, 15, 16, 35, 36, 37, 38, 40, 41, 100, 300, 600}
	emit := func(mode string, p []byte) {
		in := sx.L(sx.A(mode), sx.Bytes(p))
		out := c.EmitGuarded("c08.reader", in, "reader-"+mode+"|"+strconv.Itoa(min(len(p), 17)))
		if o := out.String(); strings.Contains(o, "'crash") || strings.Contains(o, "'panic") || strings.Contains(o, "'timeout") || strings.Contains(o, "'stuck") || strings.Contains(o, "'dead") {
			c.Fail("c08.reader", in, "reader-"+mode, "a framed packet kills or blocks the reader goroutine: "+o)
		}
	}
	for mi, m := range magics {
		for _, n := range lens {
			if n > 16 && c.Tier != "thorough" && mi%2 == 1 && m != 0x0fac8416 && m != 0xe35d4ab6 {
				continue
			}
			p := make([]byte, 4)
			binary.LittleEndian.PutUint32(p, m)
			if n < 4 {
				p = p[:n]
			} else {
				body := r.Bytes(n - 4)
				if n > 36 && r.Chance(70) {
					// a length prefix that fits what follows
					body[32] = byte(r.Pick([]int{0, 1, n - 37, n - 36, 253, 254, 255}))
				}
				p = append(p, body...)
			}
			emit("conn", p)
			emit("client", p)
			if m == 0xe35d4ab6 && n >= 4 {
				emit("auth", p)
			}
		}
	}
	// well-formed server nonces of several sizes
	for _, k := range []int{0, 1, 32, 253, 254, 512, 513} {
		q := append([]byte{0xb6, 0x4a, 0x5d, 0xe3}, tl.EncodeLength(k)...)
		q = append(q, r.Bytes(k)...)
		for len(q) < 37 {
			q = append(q, 0)
		}
		emit("auth", q)
	}
}

// decoding into a receiver that already holds another value, for every modelled type
func genC08Reuse(c *Ctx) {
	r := c.R.Fork(9800)
	for ti, t := range c08TlbTypes {
		d := c08DeriveTop(t)
		if d == nil {
			continue
		}
		name := c08ShortName(t)
		n := c.Scale(6, 30)
		if len(d.sx().String()) > 2500 {
			n = c.Scale(1, 4)
		}
		for k := 0; k < n; k++ {
			a, b := &c08Tree{}, &c08Tree{}
			c08GenValid(r, d, a, 0)
			c08GenValid(r, d, b, 0)
			if name == "VmStack" && k == 0 {
				b = &c08Tree{Bits: make([]bool, 24)} // the empty stack after a non-empty one
			}
			if r.Chance(25) {
				var nodes []*c08Tree
				b.all(&nodes)
				x := nodes[r.Intn(len(nodes))]
				if len(x.Bits) > 0 {
					x.Bits = x.Bits[:r.Intn(len(x.Bits))]
				}
			}
			if !a.fits() || !b.fits() {
				continue
			}
			in := sx.L(sx.Nat(ti), a.sx(), b.sx())
			out := guardedExec("c08.reuse", in, 10*time.Second)
			c08GoOnly++
			switch o := out.String(); {
			case strings.Contains(o, "'panic"), strings.Contains(o, "'crash"), strings.Contains(o, "'timeout"):
				c.Fail("c08.reuse", in, "tlb-reuse-panic-"+name, "decoding into a receiver that already holds a value panics / crashes: "+o)
			case strings.Contains(o, "class-differs"):
				c.Fail("c08.reuse", in, "tlb-reuse-class-"+name, "a used receiver changes the outcome of decoding: "+o)
			case out.Head() == "differs":
				c.Fail("c08.reuse", in, "tlb-reuse-value-"+name, "a used receiver changes the decoded value: "+trunc(o, 300))
			case o == "'stale":
				// same TL-B value, but fields not read by the active variant keep data of the previous use
				c.Note("c08.reuse", "observation:reuse-keeps-inactive-fields|"+name, in)
			default:
				c.Note("c08.reuse", "reuse|"+o, in)
			}
		}
	}
}

// LiteapiRequestDecoder on mutated encodings of every request
func genC08ReqDec(c *Ctx) {
	r := c.R.Fork(9900)
	var names []string
	for n := range c08Types {
		if strings.HasSuffix(n, "Request") {
			names = append(names, n)
		}
	}
	sort.Strings(names)
	emit := func(b []byte, class string) {
		in := sx.Bytes(b)
		out := c.EmitGuarded("c08.reqdec", in, "reqdec|"+class)
		if o := out.String(); strings.Contains(o, "'panic") || strings.Contains(o, "'crash") || strings.Contains(o, "'timeout") {
			c.Fail("c08.reqdec", in, "reqdec-panic", "LiteapiRequestDecoder panicked / crashed: "+o)
		}
	}
	for _, name := range names {
		t := c08Types[name]
		for k := 0; k < c.Scale(1, 6); k++ {
			v := reflect.New(t)
			c08Fill(r, v.Elem(), 0)
			body, ok := c08Marshal(v.Elem().Interface())
			if !ok {
				continue
			}
			tag, ok := c08RequestTags[name]
			if !ok {
				continue
			}
			enc := binary.LittleEndian.AppendUint32(nil, tag)
			enc = append(enc, body...)
			emit(enc, "valid")
			emit(enc[:r.Intn(len(enc)+1)], "trunc")
			m := append([]byte{}, enc...)
			m[r.Intn(len(m))] = byte(r.U64())
			emit(m, "subst")
			if len(enc) >= 8 {
				m = append([]byte{}, enc...)
				copy(m[4*(1+r.Intn(len(m)/4-1)):], c08Attacks[r.Intn(len(c08Attacks))])
				emit(m, "attack")
			}
		}
	}
	for k := 0; k < c.Scale(20, 200); k++ {
		emit(r.Bytes(r.Intn(24)), "random")
	}
}

// helpers that parse a BOC and decode its root: liteapi.VerifySendMessagePayload,
// ton.DecodeConfigParams (guarded, no model): BOCs of descriptor-valid trees, damaged
func genC08BocHelpers(c *Ctx) {
	r := c.R.Fork(9950)
	run := func(kind string, ti int) {
		if ti < 0 {
			return
		}
		d := c08DeriveTop(c08TlbTypes[ti])
		if d == nil {
			return
		}
		for k := 0; k < c.Scale(8, 80); k++ {
			tree := &c08Tree{}
			c08GenValid(r, d, tree, 0)
			tree.wellFormedExotics(r)
			if kind == "sendmsg" && len(tree.Bits) >= 2 && r.Chance(70) {
				tree.Bits[0], tree.Bits[1] = true, false // ext_in_msg_info$10 keeps most of them on the success path
			}
			if !tree.fits() {
				continue
			}
			b, err := tree.cell().ToBoc()
			if err != nil {
				continue
			}
			for v := 0; v < 3; v++ {
				m := append([]byte{}, b...)
				switch v {
				case 1:
					m = m[:r.Intn(len(m)+1)]
				case 2:
					m[r.Intn(len(m))] = byte(r.U64())
				}
				in := sx.L(sx.A(kind), sx.Bytes(m))
				c08Explore(c, "c08.bocgo", in, kind, len(m), 0)
			}
		}
	}
	run("sendmsg", c08TypeIndex("Message"))
	run("config", c08TypeIndex("MerkleProof[tlb.ShardStateUnsplit]"))
}

// exotic cells of a generated tree get the bit layout a BOC needs (the tree comparison only looks at the kind)
func (t *c08Tree) wellFormedExotics(r *prng.R) {
	switch t.Kind {
	case 1:
		t.Bits = append(c08BitsOf(0x0101, 16), c08RandBits(r, 256+16)...)
		t.Refs = nil
	case 2:
		t.Bits = append(c08BitsOf(0x02, 8), c08RandBits(r, 256)...)
		t.Refs = nil
	case 3, 4:
		if len(t.Bits) < 8 {
			t.Kind = 0
		} else {
			copy(t.Bits, c08BitsOf(uint64(t.Kind), 8))
		}
	}
	for _, x := range t.Refs {
		x.wellFormedExotics(r)
	}
}

func c08DirectedStacks(r *prng.R, n int) []tlb.VmStack {
	var acc ton.AccountID
	acc.Address[5] = 1
	slice, _ := tlb.TlbStructToVmCellSlice(acc.ToMsgAddress())
	content := boc.NewCell()
	_ = content.WriteUint(0, 9) // onchain#00, empty dictionary
	pool := []tlb.VmStackValue{
		{SumType: "VmStkTinyInt", VmStkTinyInt: 7},
		{SumType: "VmStkInt", VmStkInt: tlb.Int257(*big.NewInt(1 << 40))},
		slice,
		{SumType: "VmStkCell", VmStkCell: tlb.Ref[boc.Cell]{Value: *content}},
		{SumType: "VmStkNull"},
		{SumType: "VmStkNan"},
	}
	ti, in, sl, ce, nu := pool[0], pool[1], pool[2], pool[3], pool[4]
	out := []tlb.VmStack{
		{}, {ti}, {sl}, {ti, ce}, {ti, nu}, {ti, sl, sl, ce}, {in, sl, sl, ce}, {ti, ti, sl, ce, ce}, {in, ti, sl, ce, ce},
		{nu}, {ce}, {sl, ti}, {ti, ti}, {ti, sl, sl, sl}, {ti, ti, sl, ce, nu}, {ti, ti, sl, nu, ce},
	}
	for _, st := range append([]tlb.VmStack{}, out...) {
		if len(st) > 1 {
			rev := make(tlb.VmStack, len(st))
			for i := range st {
				rev[len(st)-1-i] = st[i]
			}
			out = append(out, rev)
		}
	}
	for k := 0; k < n; k++ {
		var st tlb.VmStack
		for j := r.Intn(7); j > 0; j-- {
			st = append(st, pool[r.Intn(len(pool))])
		}
		out = append(out, st)
	}
	return out
}

// every liteapi.Client method that decodes a lite-server answer, driven through a fake server:
// the answer carries BOCs of descriptor-valid trees of the type the method decodes, then damaged
func genC08Client(c *Ctx) {
	r := c.R.Fork(9970)
	type spec struct {
		method, resp string
		bocs         map[string]string // field of the answer -> TL-B type of the BOC root
	}
	stack := map[string]string{"Result": "VmStack"}
	cfg := map[string]string{"ConfigProof": "MerkleProof[tlb.ShardStateUnsplit]"}
	hdr := map[string]string{"HeaderProof": "MerkleProof[tlb.BlockHeader]"}
	specs := []spec{
		{"GetBlock", "LiteServerBlockDataC", map[string]string{"Data": "Block"}},
		{"GetBlockFast", "LiteServerBlockDataC", map[string]string{"Data": "Block"}},
		{"GetBlockHeader", "LiteServerBlockHeaderC", hdr},
		{"LookupBlock", "LiteServerBlockHeaderC", hdr},
		{"RunSmcMethodByID", "LiteServerRunMethodResultC", stack},
		{"GetJettonWallet", "LiteServerRunMethodResultC", stack},
		{"GetJettonData", "LiteServerRunMethodResultC", stack},
		{"GetJettonBalance", "LiteServerRunMethodResultC", stack},
		{"DnsResolve", "LiteServerRunMethodResultC", stack},
		{"GetSeqno", "LiteServerRunMethodResultC", stack},
		{"GetAccountState", "LiteServerAccountStateC", map[string]string{"State": "Account", "Proof": "ShardStateUnsplit"}},
		{"GetLastTransactions", "LiteServerAccountStateC", map[string]string{"State": "Account", "Proof": "ShardStateUnsplit"}},
		{"GetAllShardsInfo", "LiteServerAllShardsInfoC", map[string]string{"Data": "AllShardsInfo"}},
		{"GetOneTransactionFromBlock", "LiteServerTransactionInfoC", map[string]string{"Transaction": "Transaction"}},
		{"GetTransactions", "LiteServerTransactionListC", map[string]string{"Transactions": "Transaction"}},
		{"GetLastTransactions", "LiteServerTransactionListC", map[string]string{"Transactions": "Transaction"}},
		{"GetConfigAll", "LiteServerConfigInfoC", cfg},
		{"GetConfigParams", "LiteServerConfigInfoC", cfg},
		{"GetRootDNS", "LiteServerConfigInfoC", cfg},
		{"GetValidatorStats", "LiteServerValidatorStatsC", map[string]string{"DataProof": "MerkleProof[tlb.ShardState]"}},
		{"GetLibraries", "LiteServerLibraryResultC", nil},
		{"GetMasterchainInfo", "LiteServerMasterchainInfoC", nil},
		{"GetShardInfo", "LiteServerShardInfoC", nil},
		{"ListBlockTransactions", "LiteServerBlockTransactionsC", nil},
		{"GetBlockProof", "LiteServerPartialBlockProofC", nil},
		{"GetState", "LiteServerBlockStateC", nil},
		{"GetShardBlockProof", "LiteServerShardBlockProofC", nil},
		{"GetOutMsgQueueSizes", "LiteServerOutMsgQueueSizesC", nil},
		{"GetTime", "LiteServerCurrentTimeC", nil},
		{"GetVersion", "LiteServerVersionC", nil},
	}
	fails := map[string]int{}
	emit := func(sp spec, answer []byte, class string) {
		if fails[sp.method] >= 2 {
			return
		}
		in := sx.L(sx.A(sp.method), sx.Bytes(answer))
		out := guardedExec("c08.client", in, 12*time.Second)
		c08GoOnly++
		o := out.String()
		switch {
		case strings.Contains(o, "'panic"), strings.Contains(o, "'crash"):
			fails[sp.method]++
			c.Fail("c08.client", in, "client-panic-"+sp.method, "liteapi.Client."+sp.method+" panics on a lite-server answer: "+trunc(o, 200))
		case strings.Contains(o, "'stuck"), strings.Contains(o, "'timeout"):
			fails[sp.method]++
			c.Fail("c08.client", in, "client-hang-"+sp.method, "liteapi.Client."+sp.method+" does not return on a lite-server answer: "+o)
		case strings.Contains(o, "harness-error"):
			c.Fail("c08.client", in, "client-harness-"+sp.method, "harness does not know the method")
		default:
			if os.Getenv("C08_DEBUG") != "" && (class == "valid" || class == os.Getenv("C08_DEBUG")) {
				fmt.Fprintln(os.Stderr, sp.method, class, trunc(o, 200))
			}
			h := out.Head()
			if out.K == sx.KA {
				h = out.Atom
			}
			c.Note("c08.client", sp.method+"|"+class+"|'"+h, in)
		}
	}
	for _, sp := range specs {
		t, ok := c08Types[sp.resp]
		tag, ok2 := c08ResponseTags[sp.resp]
		if !ok || !ok2 {
			c.Fail("c08.client", sx.A(sp.resp), "client-harness-"+sp.method, "answer type not registered")
			continue
		}
		n := c.Scale(6, 36)
		for k := 0; k < n; k++ {
			v := reflect.New(t)
			c08Fill(r, v.Elem(), 0)
			variant := k % 6
			for f, ty := range sp.bocs {
				ti := c08TypeIndex(ty)
				if ti < 0 {
					c.Fail("c08.client", sx.A(ty), "client-harness-"+sp.method, "TL-B type not registered")
					continue
				}
				d := c08DeriveTop(c08TlbTypes[ti])
				tree := &c08Tree{}
				if d != nil {
					c08GenValid(r, d, tree, 0)
				} else {
					tree = c08RandTree(r, 2)
				}
				tree.wellFormedExotics(r)
				if variant == 3 { // damaged tree
					var nodes []*c08Tree
					tree.all(&nodes)
					x := nodes[r.Intn(len(nodes))]
					switch {
					case len(x.Refs) > 0 && r.Chance(50):
						x.Refs = x.Refs[:len(x.Refs)-1]
					case len(x.Bits) > 0:
						x.Bits = x.Bits[:r.Intn(len(x.Bits))]
					}
				}
				if !tree.fits() {
					tree = &c08Tree{}
				}
				b, err := tree.cell().ToBoc()
				if err != nil {
					b = nil
				}
				switch variant {
				case 1:
					if len(b) > 0 {
						b = b[:r.Intn(len(b))]
					}
				case 2:
					if len(b) > 0 {
						b[r.Intn(len(b))] = byte(r.U64())
					}
				}
				if fv := v.Elem().FieldByName(f); fv.IsValid() {
					fv.SetBytes(b)
				}
			}
			// keep the answers on the decoding path
			if fv := v.Elem().FieldByName("Mode"); fv.IsValid() && sp.resp == "LiteServerRunMethodResultC" {
				fv.SetUint(4)
				if r.Chance(80) {
					v.Elem().FieldByName("ExitCode").SetUint(uint64(r.Intn(2)))
				}
			}
			if fv := v.Elem().FieldByName("Ids"); fv.IsValid() && sp.resp == "LiteServerTransactionListC" && k%2 == 0 {
				fv.Set(reflect.Zero(fv.Type())) // more transactions than block ids
			}
			body, ok := c08Marshal(v.Elem().Interface())
			if !ok {
				continue
			}
			answer := append(binary.LittleEndian.AppendUint32(nil, tag), body...)
			class := []string{"valid", "boc-trunc", "boc-subst", "tree-damaged", "answer-trunc", "answer-subst"}[variant]
			switch variant {
			case 4:
				answer = answer[:r.Intn(len(answer))]
			case 5:
				answer[r.Intn(len(answer))] = byte(r.U64())
			}
			emit(sp, answer, class)
		}
		// smart-contract answers: stacks of every length 0..6 over the kinds the helpers look at,
		// among them the shapes the helpers accept
		if sp.resp == "LiteServerRunMethodResultC" {
			for _, st := range c08DirectedStacks(r, c.Scale(10, 60)) {
				cell := boc.NewCell()
				if err := tlb.Marshal(cell, st); err != nil {
					continue
				}
				b, err := cell.ToBoc()
				if err != nil {
					continue
				}
				res := liteclient.LiteServerRunMethodResultC{Mode: 4, ExitCode: uint32(r.Intn(2)), Result: b}
				if r.Chance(10) {
					res.ExitCode = 0xFFFFFF00
				}
				body, ok := c08Marshal(res)
				if !ok {
					continue
				}
				emit(sp, append(binary.LittleEndian.AppendUint32(nil, tag), body...), "stack")
			}
		}
		if sp.resp == "LiteServerTransactionListC" {
			// a valid transaction with and without block ids
			if ti := c08TypeIndex("Transaction"); ti >= 0 {
				for k := 0; k < c.Scale(2, 10); k++ {
					tree := &c08Tree{}
					c08GenValid(r, c08DeriveTop(c08TlbTypes[ti]), tree, 0)
					if !tree.fits() {
						continue
					}
					b, err := tree.cell().ToBoc()
					if err != nil {
						continue
					}
					res := liteclient.LiteServerTransactionListC{Transactions: b}
					if k%2 == 0 {
						res.Ids = append(res.Ids, liteclient.TonNodeBlockIdExtC{Seqno: 3})
					}
					if body, ok := c08Marshal(res); ok {
						emit(sp, append(binary.LittleEndian.AppendUint32(nil, tag), body...), []string{"tx-with-id", "tx-without-id"}[k%2])
					}
				}
			}
		}
		if sp.resp == "LiteServerAccountStateC" {
			if body, ok := c08Marshal(liteclient.LiteServerAccountStateC{}); ok {
				emit(sp, append(binary.LittleEndian.AppendUint32(nil, tag), body...), "no-state")
			}
		}
		// a lite-server error, an unknown tag, nothing
		emit(sp, append([]byte{0x48, 0xe1, 0xa9, 0xbb, 0x05, 0, 0, 0}, 3, 'e', 'r', 'r'), "error-answer")
		emit(sp, []byte{1, 2, 3, 4, 5, 6, 7, 8}, "bad-tag")
		emit(sp, nil, "empty")
	}
}

func genC08Framing(c *Ctx) {
	r := c.R.Fork(9000)
	fail := func(kind string, in sx.V, out sx.V) {
		s := out.String()
		if strings.Contains(s, "'panic") || strings.Contains(s, "'crash") || strings.Contains(s, "'timeout") {
			c.Fail(kind, in, kind+"-panic", "panicked / crashed: "+s)
		}
		if strings.Contains(s, "unexpected-ok") {
			c.Fail(kind, in, kind+"-accepted", "accepted a BOC without the required roots")
		}
	}
	// decodeLength
	for k := 0; k < c.Scale(150, 1500); k++ {
		var b []byte
		switch r.Intn(5) {
		case 0:
			b = r.Bytes(r.Intn(8))
		case 1:
			b = append([]byte{byte(r.Pick([]int{0, 1, 253, 254, 255}))}, r.Bytes(r.Intn(6))...)
		case 2:
			b = append([]byte{254}, r.Bytes(r.Intn(4))...)
		case 3:
			b = append([]byte{254}, r.Bytes(3+r.Intn(300))...)
		default:
			b = append([]byte{byte(r.Intn(254))}, r.Bytes(r.Intn(300))...)
		}
		in := sx.Bytes(b)
		fail("c08.declen", in, c.Emit("c08.declen", in, "declen|"+strconv.Itoa(min(len(b), 5))))
	}
	// processQueryAnswer
	for k := 0; k < c.Scale(150, 1500); k++ {
		p := r.Bytes(36)
		n := r.Pick([]int{0, 1, 5, 253, 254, 255, 300, 1000})
		have := n
		switch r.Intn(4) {
		case 0:
			have = r.Intn(n + 1)
		case 1:
			have = n + r.Intn(5)
		}
		p = append(p, tl.EncodeLength(n)...)
		p = append(p, r.Bytes(have)...)
		switch r.Intn(6) {
		case 0:
			p = p[:r.Intn(len(p)+1)]
		case 1:
			p[36] = byte(r.Pick([]int{253, 254, 255, 0}))
		}
		in := sx.L(sx.B(r.Chance(85)), sx.Bytes(p))
		fail("c08.answer", in, c.Emit("c08.answer", in, "answer|"+strconv.Itoa(min(len(p)/16, 4))))
		if k%5 == 0 {
			in2 := sx.Bytes(p)
			if out := c.Emit("c08.answer2", in2, "answer2|"+strconv.Itoa(min(len(p)/16, 4))); out.IsA("hang") {
				c.Fail("c08.answer2", in2, "answer-repeat-hang", "a repeated answer for the same query id blocks the reader")
			}
		}
	}
	// ParsePacket: valid packets, mutated sizes, truncations
	for k := 0; k < c.Scale(40, 300); k++ {
		pk, _ := liteclient.NewPacket(r.Bytes(r.Pick([]int{0, 1, 3, 4, 5, 36, 37, 100})))
		b := liteclient.VerifMarshalPacket(pk)
		class := "packet|valid"
		switch r.Intn(6) {
		case 0:
			b = b[:r.Intn(len(b))]
			class = "packet|trunc"
		case 1:
			binary.LittleEndian.PutUint32(b, uint32(r.Pick([]int{0, 1, 63, 64, 65, 8 << 20, 8<<20 + 1, 0x7fffffff, 0xffffffff})))
			class = "packet|size"
		case 2:
			b[4+r.Intn(len(b)-4)] ^= 1 << uint(r.Intn(8))
			class = "packet|flip"
		case 3:
			b = append(b, r.Bytes(r.Intn(8))...)
			class = "packet|extra"
		}
		in := sx.Bytes(b)
		fail("c08.packet", in, c.EmitGuarded("c08.packet", in, class))
	}
	// users of DeserializeBoc: root counts 0..3, cells with and without refs, damaged BOCs
	for k := 0; k < c.Scale(60, 500); k++ {
		n := r.Intn(5)
		var cells []c08Cell
		for i := 0; i < n; i++ {
			cl := c08Cell{Data: r.Bytes(r.Intn(6))}
			for j := i + 1; j < n && len(cl.Refs) < 4; j++ {
				if r.Chance(40) {
					cl.Refs = append(cl.Refs, j)
				}
			}
			cells = append(cells, cl)
		}
		var roots []int
		for i := r.Intn(4); i > 0 && n > 0; i-- {
			roots = append(roots, r.Intn(n))
		}
		b := c08Boc(cells, roots)
		class := "roots" + strconv.Itoa(len(roots))
		switch r.Intn(8) {
		case 0:
			b = b[:r.Intn(len(b)+1)]
			class = "damaged"
		case 1:
			b[r.Intn(len(b))] = byte(r.U64())
			class = "damaged"
		}
		in := sx.Bytes(b)
		fail("c08.vmstack", in, c.EmitGuarded("c08.vmstack", in, "vmstack|"+class))
		fail("c08.methods", in, c.EmitGuarded("c08.methods", in, "methods|"+class))
		fail("c08.accproof", in, c.EmitGuarded("c08.accproof", in, "accproof|"+class))
	}
	for _, b := range [][]byte{{}, {0xb5, 0xee, 0x9c, 0x72, 0x01, 0x01, 0, 0, 0, 0}, c08Boc(nil, nil), c08Boc([]c08Cell{{}}, []int{0}), c08Boc([]c08Cell{{Refs: []int{1}}, {}}, []int{0})} {
		in := sx.Bytes(b)
		fail("c08.vmstack", in, c.EmitGuarded("c08.vmstack", in, "vmstack|directed"))
		if len(b) > 0 {
			fail("c08.methods", in, c.EmitGuarded("c08.methods", in, "methods|directed"))
			fail("c08.accproof", in, c.EmitGuarded("c08.accproof", in, "accproof|directed"))
		}
	}
}

func min(a, b int) int {
	if a < b {
		return a
	}
	return b
}

func genC08(c *Ctx) {
	genC08Directed(c) // first: the smallest witnesses are reported before the per-type cap is reached
	genC08MapInt(c)
	genC08Reuse(c)
	genC08ReqDec(c)
	genC08BocHelpers(c)
	genC08Client(c)
	genC08Limits(c)
	genC08R8(c) // round 8: announced lengths at every magnitude, constant census (c08_r8.go)
	genC08Readers(c)
	genC08Resolver(c)
	genC08TL(c)
	genC08TLB(c)
	genC08Framing(c)
	if dir := os.Getenv("VERIF_C08_NOTE"); dir != "" {
		note := strconv.Itoa(c08GoOnly) + fmt.Sprintf("\nmax alloc (weight<=256) %.0f  max alloc/weight (weight>=1024) %.1f\n", c08CalibSmall, c08CalibSlope)
		var ks []string
		for k := range c08Calib {
			ks = append(ks, k)
		}
		sort.Strings(ks)
		for _, k := range ks {
			note += fmt.Sprintf("%s %.1f\n", k, c08Calib[k])
		}
		_ = os.WriteFile(filepath.Join(dir, "c08_go_only.txt"), []byte(note), 0o644)
	}
}
