package main

// C06, reference half of boc.Cell (kind "c06.refs"): AddRef / NewRef / NextRef /
// ResetCounters / RefsSize / RefsAvailableForRead / Refs / CopyRemaining over a heap of
// cells named by their allocation index (cells are pointers: NextRef resets the CHILD's
// counters, a child may hang under several parents or twice under one).  Compared with the
// model coq/Model/CellRefs.v and, here, with the ideal semantics kept by the generator:
// AddRef fails exactly on a full cell, NextRef returns the references in insertion order
// and then ErrNotEnoughRefs (never a panic, however often it is repeated), CopyRemaining
// holds the unread bits and references and leaves both cursors of the source alone.
// Trees built in memory and the same trees after ToBoc + DeserializeBoc.

import (
	"fmt"
	"strings"

	"github.com/tonkeeper/tongo/boc"

	"verifharness/prng"
	"verifharness/sx"
)

func init() {
	execs["c06.refs"] = execC06Refs
}

type renv struct {
	cells []*boc.Cell
	idx   map[*boc.Cell]int
}

func (e *renv) add(c *boc.Cell) int {
	id := len(e.cells)
	e.cells = append(e.cells, c)
	e.idx[c] = id
	return id
}

// everything reachable from a parsed root, depth-first preorder, each pointer once
func (e *renv) register(c *boc.Cell) int {
	if id, ok := e.idx[c]; ok {
		return id
	}
	id := e.add(c)
	for _, r := range c.Refs() {
		e.register(r)
	}
	return id
}

func c06ROp(e *renv, o sx.V) (out sx.V) {
	defer func() {
		if r := recover(); r != nil {
			out = sx.A("panic")
		}
	}()
	a := o.List[1:]
	ok := sx.A("ok")
	cell := func(k int) *boc.Cell {
		i := a[k].I()
		if i < 0 || i >= len(e.cells) {
			panic("harness: cell index")
		}
		return e.cells[i]
	}
	idOf := func(c *boc.Cell) sx.V {
		id, ok := e.idx[c]
		if !ok {
			return harnessErr("unknown-cell")
		}
		return sx.Nat(id)
	}
	switch o.Head() {
	case "new":
		return sx.Nat(e.add(boc.NewCell()))
	case "newref":
		n, err := cell(0).NewRef()
		return sx.L(sx.Nat(e.add(n)), errOr(err, ok))
	case "addref":
		return errOr(cell(0).AddRef(cell(1)), ok)
	case "nextref":
		r, err := cell(0).NextRef()
		if err != nil {
			return sx.A("err")
		}
		return idOf(r)
	case "reset":
		cell(0).ResetCounters()
		return ok
	case "refs":
		var ids []sx.V
		for _, r := range cell(0).Refs() {
			ids = append(ids, idOf(r))
		}
		return sx.L(ids...)
	case "rstate":
		return sx.L(sx.Nat(cell(0).RefsSize()), sx.Nat(cell(0).RefsAvailableForRead()))
	case "copyrem":
		return sx.Nat(e.add(cell(0).CopyRemaining()))
	case "viaboc":
		b, err := cell(0).ToBoc()
		if err != nil {
			return sx.A("err")
		}
		roots, err := boc.DeserializeBoc(b)
		if err != nil || len(roots) != 1 {
			return sx.A("err")
		}
		return sx.Nat(e.register(roots[0]))
	case "on":
		return c06CellOp(cell(0), a[1])
	}
	return harnessErr("badrop")
}

func execC06Refs(in sx.V) sx.V {
	e := &renv{idx: map[*boc.Cell]int{}}
	outs := make([]sx.V, 0, len(in.List))
	for _, o := range in.List {
		outs = append(outs, c06ROp(e, o))
	}
	return sx.L(outs...)
}

// ---------------------------------------------------------------- ideal side

type icell struct {
	bits string
	rcur int
	cap  int
	refs []int
	rc   int
	uniq bool // its bits differ from those of every other cell (16-bit tag)
}

type rscript struct {
	r     *prng.R
	ops   []sx.V
	want  []string
	cells []icell
	tags  map[string]bool
}

func (d *rscript) add(o sx.V, want string) {
	d.ops = append(d.ops, o)
	d.want = append(d.want, want)
}

// a fresh cell with a unique 16-bit tag and a few more bits
func (d *rscript) tagCell(id int) {
	tag := uintBits(uint64(id), 16)
	d.cells[id].bits = tag
	d.add(op("on", sx.Nat(id), op("wuint", sx.Nat(id), sx.Nat(16))), "'ok")
	if d.r.Chance(50) {
		extra := biasedBits(d.r, d.r.Intn(20), 30)
		d.cells[id].bits += extra
		d.add(op("on", sx.Nat(id), op("wbits", sx.Bits(extra))), "'ok")
	}
}

func (d *rscript) newCell() int {
	id := len(d.cells)
	d.cells = append(d.cells, icell{cap: 1023, uniq: true})
	d.add(op("new"), sx.Nat(id).String())
	d.tagCell(id)
	return id
}

func (d *rscript) newRef(i int) int {
	id := len(d.cells)
	d.cells = append(d.cells, icell{cap: 1023, uniq: true})
	res := "'ok"
	if len(d.cells[i].refs) >= 4 {
		res = "'err"
		d.tags["overflow"] = true
	} else {
		d.cells[i].refs = append(d.cells[i].refs, id)
	}
	d.add(op("newref", sx.Nat(i)), "("+sx.Nat(id).String()+" "+res+")")
	d.tagCell(id)
	return id
}

func (d *rscript) addRef(i, j int) {
	if len(d.cells[i].refs) >= 4 {
		d.add(op("addref", sx.Nat(i), sx.Nat(j)), "'err")
		d.tags["overflow"] = true
		return
	}
	d.cells[i].refs = append(d.cells[i].refs, j)
	d.add(op("addref", sx.Nat(i), sx.Nat(j)), "'ok")
}

// ideal NextRef: (id, true) or (_, false); the child's counters are reset AFTER the cursor moved
func (d *rscript) idealNext(i int) (int, bool) {
	g := &d.cells[i]
	if g.rc >= len(g.refs) {
		return 0, false
	}
	r := g.refs[g.rc]
	g.rc++
	d.cells[r].rc = 0
	d.cells[r].rcur = 0
	return r, true
}

func (d *rscript) nextRef(i int) (int, bool) {
	r, ok := d.idealNext(i)
	if !ok {
		d.add(op("nextref", sx.Nat(i)), "'err")
		if len(d.cells[i].refs) == 4 {
			d.tags["full-past-end"] = true
		}
		return 0, false
	}
	d.add(op("nextref", sx.Nat(i)), sx.Nat(r).String())
	return r, true
}

func (d *rscript) reset(i int) {
	d.cells[i].rc, d.cells[i].rcur = 0, 0
	d.add(op("reset", sx.Nat(i)), "'ok")
}

func (d *rscript) observe(i int) {
	g := d.cells[i]
	switch d.r.Intn(3) {
	case 0:
		ids := make([]sx.V, len(g.refs))
		for k, r := range g.refs {
			ids[k] = sx.Nat(r)
		}
		d.add(op("refs", sx.Nat(i)), sx.L(ids...).String())
	case 1:
		st := sx.L(sx.Nat(len(g.bits)), sx.Nat(len(g.bits)-g.rcur), sx.Nat(g.cap-len(g.bits)), sx.Bits(g.bits))
		d.add(op("on", sx.Nat(i), op("state")), st.String())
	}
	d.add(op("rstate", sx.Nat(i)), sx.L(sx.Nat(len(g.refs)), sx.Nat(len(g.refs)-g.rc)).String())
}

func (d *rscript) skipBits(i, n int) {
	g := &d.cells[i]
	if g.rcur+n <= len(g.bits) {
		g.rcur += n
		d.add(op("on", sx.Nat(i), op("skip", sx.Nat(n))), "'ok")
	} else {
		d.add(op("on", sx.Nat(i), op("skip", sx.Nat(n))), "'err")
	}
}

// write l into cell i: all of it, or the part that fits and an error
func (d *rscript) writeCell(i int, l string) {
	g := &d.cells[i]
	want := "'ok"
	if room := g.cap - len(g.bits); len(l) > room {
		g.bits += l[:room]
		want = "'err"
	} else {
		g.bits += l
	}
	d.add(op("on", sx.Nat(i), op("wbits", sx.Bits(l))), want)
}

func (d *rscript) copyRemaining(i int) int {
	g := &d.cells[i]
	rem := g.bits[g.rcur:]
	savedRc := g.rc
	n := len(g.refs) - g.rc
	var rs []int
	for k := 0; k < n; k++ {
		r, ok := d.idealNext(i)
		if !ok {
			panic("generator: copyRemaining on an inconsistent cell")
		}
		rs = append(rs, r)
	}
	d.cells[i].rc = savedRc
	id := len(d.cells)
	d.cells = append(d.cells, icell{bits: rem, cap: len(rem), refs: rs})
	d.add(op("copyrem", sx.Nat(i)), sx.Nat(id).String())
	d.tags["copyrem"] = true
	return id
}

// can the tree under i go through a BOC with sharing-by-hash == sharing-by-identity?
func (d *rscript) bocable(i int, onPath map[int]bool, depth int) bool {
	if onPath[i] || !d.cells[i].uniq || depth > 6 {
		return false
	}
	onPath[i] = true
	defer delete(onPath, i)
	for _, r := range d.cells[i].refs {
		if !d.bocable(r, onPath, depth+1) {
			return false
		}
	}
	return true
}

func (d *rscript) cloneIdeal(i int, memo map[int]int) int {
	if j, ok := memo[i]; ok {
		return j
	}
	j := len(d.cells)
	d.cells = append(d.cells, icell{bits: d.cells[i].bits, cap: 1023})
	memo[i] = j
	var rs []int
	for _, r := range d.cells[i].refs {
		rs = append(rs, d.cloneIdeal(r, memo))
	}
	d.cells[j].refs = rs
	return j
}

func (d *rscript) viaBoc(i int) (int, bool) {
	if !d.bocable(i, map[int]bool{}, 0) {
		return 0, false
	}
	j := len(d.cells)
	d.cloneIdeal(i, map[int]int{})
	d.add(op("viaboc", sx.Nat(i)), sx.Nat(j).String())
	d.tags["boc"] = true
	return j, true
}

// read all references of i and go on past the end
func (d *rscript) readAll(i int) {
	extra := 1 + d.r.Intn(3)
	for k := 0; k < 8; k++ {
		r, ok := d.nextRef(i)
		if ok {
			if d.r.Chance(35) {
				d.observe(r) // the child's counters were reset
			}
			continue
		}
		if d.r.Chance(40) {
			d.observe(i) // a failed NextRef leaves the cursor where it was
		}
		extra--
		if extra == 0 {
			break
		}
	}
}

func buildRefs(r *prng.R) *rscript {
	d := &rscript{r: r, tags: map[string]bool{}}
	p := d.newCell()
	k := 4
	switch x := r.Intn(20); {
	case x < 9:
	case x < 12:
		k = 3
	case x < 16:
		k = r.Intn(3)
	default:
		k = 5 + r.Intn(2) // more than fits: the last AddRef calls fail, the cell stays as it was
	}
	var kids []int
	for j := 0; j < k; j++ {
		switch {
		case r.Chance(45):
			kids = append(kids, d.newRef(p))
		case len(kids) > 0 && r.Chance(15):
			d.addRef(p, kids[r.Intn(len(kids))]) // the same child twice
			d.tags["shared"] = true
		case r.Chance(3):
			d.addRef(p, p) // a cell may reference itself
			d.tags["self"] = true
		default:
			c := d.newCell()
			kids = append(kids, c)
			d.addRef(p, c)
		}
	}
	// grandchildren, a second parent sharing a child, cursors of the children moved
	for _, c := range kids {
		if r.Chance(25) {
			g := d.newRef(c)
			if r.Chance(30) {
				d.newRef(g)
			}
		}
		if r.Chance(40) {
			d.skipBits(c, 1+r.Intn(16))
		}
		if r.Chance(20) && len(d.cells[c].refs) > 0 {
			d.nextRef(c)
		}
	}
	if len(kids) > 0 && r.Chance(20) {
		q := d.newCell()
		d.addRef(q, kids[r.Intn(len(kids))])
		d.addRef(q, p)
		d.tags["shared"] = true
		d.readAll(q)
	}
	d.tags[fmt.Sprintf("k%d", len(d.cells[p].refs))] = true
	d.observe(p)
	// read everything, past the end, again after a reset
	d.readAll(p)
	if r.Chance(50) {
		d.reset(p)
		d.readAll(p)
	}
	// CopyRemaining at a random position of both cursors
	if r.Chance(70) {
		d.reset(p)
		adv := 0
		switch r.Intn(4) {
		case 0:
		case 1:
			adv = len(d.cells[p].refs)
		default:
			adv = r.Intn(len(d.cells[p].refs) + 1)
		}
		for j := 0; j < adv; j++ {
			d.nextRef(p)
		}
		if r.Chance(60) {
			d.skipBits(p, r.Intn(len(d.cells[p].bits)+1))
		}
		c2 := d.copyRemaining(p)
		d.observe(p) // cursors of the source are back
		d.observe(c2)
		if r.Chance(60) {
			// the copy owns its bits: writes on either side, in either order, stay on that side
			first, second := p, c2
			if r.Bool() {
				first, second = c2, p
			}
			d.writeCell(first, biasedBits(r, 1+r.Intn(12), 30))
			d.add(op("on", sx.Nat(second), op("state")), sx.L(sx.Nat(len(d.cells[second].bits)),
				sx.Nat(len(d.cells[second].bits)-d.cells[second].rcur), sx.Nat(d.cells[second].cap-len(d.cells[second].bits)),
				sx.Bits(d.cells[second].bits)).String())
			d.writeCell(second, biasedBits(r, 1+r.Intn(12), 30))
			d.add(op("on", sx.Nat(first), op("state")), sx.L(sx.Nat(len(d.cells[first].bits)),
				sx.Nat(len(d.cells[first].bits)-d.cells[first].rcur), sx.Nat(d.cells[first].cap-len(d.cells[first].bits)),
				sx.Bits(d.cells[first].bits)).String())
		}
		d.add(op("on", sx.Nat(c2), op("state")), sx.L(sx.Nat(len(d.cells[c2].bits)), sx.Nat(len(d.cells[c2].bits)),
			sx.Nat(0), sx.Bits(d.cells[c2].bits)).String())
		d.readAll(c2)
		if r.Chance(30) {
			d.addRef(c2, p) // room only if fewer than 4 were copied
			d.observe(c2)
		}
		if r.Chance(30) {
			d.reset(c2)
			c3 := d.copyRemaining(c2)
			d.readAll(c3)
		}
		d.readAll(p) // the source continues where it was
	}
	// the same tree after serialisation
	if r.Chance(45) {
		if j, ok := d.viaBoc(p); ok {
			d.observe(j)
			d.readAll(j)
			if r.Chance(40) {
				d.reset(j)
				c4 := d.copyRemaining(j)
				d.readAll(c4)
			}
			if len(d.cells[j].refs) < 4 && r.Chance(50) {
				d.newRef(j) // a parsed cell accepts further references
				d.observe(j)
			}
			if r.Chance(40) {
				d.addRef(j, p)
				d.reset(j)
				d.readAll(j)
			}
		}
	}
	return d
}

func genC06Refs(c *Ctx) {
	r := c.R
	n := c.Scale(900, 60000)
	for i := 0; i < n; i++ {
		d := buildRefs(r)
		in := sx.L(d.ops...)
		var tg []string
		for _, k := range []string{"k0", "k1", "k2", "k3", "k4", "overflow", "copyrem", "boc", "full-past-end"} {
			if d.tags[k] {
				tg = append(tg, k)
			}
		}
		out := c.Emit("c06.refs", in, "refs|"+strings.Join(tg, "+"))
		if out.K != sx.KL || len(out.List) != len(d.ops) {
			c.Fail("c06.refs", in, "refs-shape", "result is not one value per operation")
			continue
		}
		for j, o := range out.List {
			if d.want[j] == "" || o.String() == d.want[j] {
				continue
			}
			head := d.ops[j].Head()
			if head == "on" {
				head = d.ops[j].List[2].Head()
			}
			c.Fail("c06.refs", in, "refs-"+head,
				fmt.Sprintf("op %d %s returned %s, the ideal cell gives %s", j, d.ops[j], trunc(o.String(), 120), trunc(d.want[j], 120)))
			break
		}
	}
}

// text / byte forms of a bit string that no case kind calls directly: MarshalJSON,
// UnmarshalJSON, MustBitStringFromFiftHex, GetTopUppedArray -> SetTopUppedArray.  Oracles on
// the implementation only (the model speaks about ToFiftHex / BitStringFromFiftHex).
func c06TextOracles(c *Ctx, s string, txt string) {
	fail := func(key, what string) { c.Fail("c06.tofift", sx.Bits(s), key, what) }
	defer func() {
		if r := recover(); r != nil {
			fail("text-panic", fmt.Sprint("panic: ", r))
		}
	}()
	b := bitStringFromBits(s)
	js, err := b.MarshalJSON()
	if err != nil || string(js) != `"`+b.ToFiftHex()+`"` {
		fail("json-marshal", "MarshalJSON is not the quoted Fift hex")
	}
	var u boc.BitString
	if err := u.UnmarshalJSON([]byte(`"` + txt + `"`)); err != nil || bitsOf(&u) != s {
		fail("json-unmarshal", "UnmarshalJSON of the Fift hex does not give the same bits")
	}
	if m := boc.MustBitStringFromFiftHex(txt); bitsOf(m) != s {
		fail("fift-must", "MustBitStringFromFiftHex differs from the bits")
	}
	// topped-up bytes and back (a Copy with room for the completion tag)
	g := b.Copy()
	g.Grow(8)
	arr, err := g.GetTopUppedArray()
	if err != nil {
		fail("topup-err", "GetTopUppedArray failed on a string with room")
		return
	}
	var back boc.BitString
	if err := back.SetTopUppedArray(arr, len(s)%8 == 0); err != nil || bitsOf(&back) != s {
		fail("topup-roundtrip", "SetTopUppedArray(GetTopUppedArray()) does not give the same bits")
	}
}
