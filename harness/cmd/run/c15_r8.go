package main

// C15, round 8: values the library hands out (the code cell of GetCodeByVer, the StateInit of GenerateStateInit /
// Wallet.StateInit(), the Init of NextMessageParams) belong to the caller.  Whatever the caller does to them IN DEPTH
// (every cell reachable from the value: the root, the children and grand-children of the code and of the data) must
// change neither a later answer of the library (address through every API, state-init, code hash, the init attached
// to the first message) nor a value handed out earlier through another call.
//
// Family "deep": per version (all versions that have a published code) x source API x depth target, a history
//   record answers -> obtain a value -> (move cursors in every cell; check) -> (write into / add references to the
//   cells of the target depth; check) -> c15.addr case compared with the model (address = hash(code, data)).
// Oracle-only (c.Fail) except for the closing c15.addr cases.

import (
	"context"
	"crypto/ed25519"
	"crypto/sha256"
	"encoding/hex"
	"fmt"
	"strings"

	"github.com/tonkeeper/tongo/boc"
	"github.com/tonkeeper/tongo/tlb"
	"github.com/tonkeeper/tongo/wallet"

	"verifharness/prng"
	"verifharness/sx"
)

// every version with a published code (models.go: codes)
var c15CodeVersions = []wallet.Version{wallet.V1R1, wallet.V1R2, wallet.V1R3, wallet.V2R1, wallet.V2R2, wallet.V3R1, wallet.V3R2,
	wallet.V3R2Lockup, wallet.V4R1, wallet.V4R2, wallet.V5Beta, wallet.V5R1,
	wallet.HighLoadV1R1, wallet.HighLoadV1R2, wallet.HighLoadV2, wallet.HighLoadV2R1, wallet.HighLoadV2R2}

var c15DeepSources = []string{"GetCodeByVer", "GenerateStateInit", "Wallet.StateInit", "copy-of-Wallet.StateInit", "NextMessageParams.Init", "SendV2-after-StateInit"}

// the cells reachable from root by depth (0 = root), each cell once; cursors are not touched
func c15Levels(root *boc.Cell) [][]*boc.Cell {
	seen := map[*boc.Cell]bool{root: true}
	levels := [][]*boc.Cell{{root}}
	for {
		var next []*boc.Cell
		for _, c := range levels[len(levels)-1] {
			for _, k := range c.Refs() {
				if !seen[k] {
					seen[k] = true
					next = append(next, k)
				}
			}
		}
		if len(next) == 0 || len(levels) > 64 {
			return levels
		}
		levels = append(levels, next)
	}
}

// what a caller that reads the value does: cursors of every cell move
func c15ReadCell(c *boc.Cell, r *prng.R) {
	switch r.Intn(3) {
	case 0:
		_, _ = c.ReadBit()
		_, _ = c.NextRef()
	case 1:
		if n := c.BitsAvailableForRead(); n > 0 {
			_ = c.Skip(1 + r.Intn(n))
		}
		for {
			if _, err := c.NextRef(); err != nil {
				break
			}
		}
	default:
		c.ReadRemainingBits()
	}
}

// what a caller that derives another contract from the value does: the cell's content changes
func c15WriteCell(c *boc.Cell, r *prng.R) {
	k := r.Intn(3)
	if c.IsExotic() || c.BitsAvailableForWrite() < 8 {
		k = 1
	}
	if k == 1 && c.RefsSize() >= 4 {
		k = 0
	}
	switch k {
	case 0:
		_ = c.WriteBit(true)
	case 1:
		n := boc.NewCell()
		_ = n.WriteUint(r.U64(), 1+r.Intn(40))
		_ = c.AddRef(n)
	default:
		c.ResetCounters()
		_ = c.WriteUint(r.U64()&0xff, 8)
	}
}

func c15VerName(ver wallet.Version) (out string) {
	defer func() {
		if rec := recover(); rec != nil {
			out = fmt.Sprintf("version %d", int(ver))
		}
	}()
	return ver.ToString()
}

func c15Digest(b []byte) string {
	d := sha256.Sum256(b)
	return fmt.Sprintf("%d bytes, sha256 %x", len(b), d[:8])
}

func c15HashHex(c *boc.Cell) (out string) {
	defer func() {
		if rec := recover(); rec != nil {
			out = "panic"
		}
	}()
	h, err := c.Hash()
	if err != nil {
		return "err"
	}
	return hex.EncodeToString(h)
}

func c15InitHex(si *tlb.StateInit, err error) (out string) {
	defer func() {
		if rec := recover(); rec != nil {
			out = "panic"
		}
	}()
	if err != nil {
		return "err"
	}
	if si == nil {
		return "nil"
	}
	c := boc.NewCell()
	if e := tlb.Marshal(c, *si); e != nil {
		return "marshal-err"
	}
	return c15HashHex(c)
}

type c15Answer struct{ what, val string }

// the first message of a not yet deployed wallet: destination and the hash of the attached init
func c15FirstMessage(w *wallet.Wallet, chain *fakeChain) (out string) {
	defer func() {
		if rec := recover(); rec != nil {
			out = "panic"
		}
	}()
	chain.payloads = nil
	chain.state = tlb.ShardAccount{}
	chain.state.Account.SumType = "AccountNone"
	if _, err := w.SendV2(context.Background(), 0); err != nil {
		return "err"
	}
	if len(chain.payloads) != 1 {
		return "not-sent"
	}
	cells, err := boc.DeserializeBoc(chain.payloads[0])
	if err != nil || len(cells) != 1 {
		return "payload"
	}
	var m tlb.Message
	if err := tlb.Unmarshal(cells[0], &m); err != nil {
		return "undecodable"
	}
	dest := "?"
	if m.Info.SumType == "ExtInMsgInfo" && m.Info.ExtInMsgInfo != nil && m.Info.ExtInMsgInfo.Dest.SumType == "AddrStd" {
		d := m.Info.ExtInMsgInfo.Dest.AddrStd
		dest = fmt.Sprintf("%x", d.Address[:]) // the workchain of the message is the low byte only
	}
	init := "none"
	if m.Init.Exists {
		si := m.Init.Value.Value
		init = c15InitHex(&si, nil)
	}
	return "dest=" + dest + " init=" + init
}

// every answer of the library about (ver, key, options); old is a wallet object made before anything was handed out
func c15Answers(ver wallet.Version, seed []byte, o wopts, old *wallet.Wallet, oldChain *fakeChain) []c15Answer {
	var as []c15Answer
	add := func(what string, f func() string) {
		v := func() (out string) {
			defer func() {
				if rec := recover(); rec != nil {
					out = "panic"
				}
			}()
			return f()
		}()
		as = append(as, c15Answer{what, v})
	}
	key := ed25519.NewKeyFromSeed(seed)
	pk := key.Public().(ed25519.PublicKey)
	wc := derefInt(o.wc)
	add("GetCodeHashByVer", func() string { h := wallet.GetCodeHashByVer(ver); return hex.EncodeToString(h[:]) })
	add("hash(GetCodeByVer)", func() string { return c15HashHex(wallet.GetCodeByVer(ver)) })
	add("BOC(GetCodeByVer)", func() string {
		b, err := wallet.GetCodeByVer(ver).ToBoc()
		if err != nil {
			return "err"
		}
		return c15Digest(b)
	})
	add(c15CursorAnswer, func() string {
		s := ""
		for _, l := range c15Levels(wallet.GetCodeByVer(ver)) {
			for _, c := range l {
				s += fmt.Sprintf("%d/%d.%d/%d ", c.BitsAvailableForRead(), c.BitSize(), c.RefsAvailableForRead(), c.RefsSize())
			}
		}
		return trunc(s, 120)
	})
	add("GetVerByCodeHash(GetCodeHashByVer)", func() string {
		v, ok := wallet.GetVerByCodeHash(wallet.GetCodeHashByVer(ver))
		return fmt.Sprint(int(v), ok)
	})
	add("GenerateWalletAddress", func() string {
		a, err := wallet.GenerateWalletAddress(pk, ver, o.net, wc, o.sub)
		if err != nil {
			return "err"
		}
		return a.ToRaw()
	})
	add("hash(GenerateStateInit)", func() string {
		si, err := wallet.GenerateStateInit(pk, ver, o.net, wc, o.sub)
		return c15InitHex(&si, err)
	})
	add("GetWalletVersion(active account with GenerateStateInit's code)", func() string {
		si, err := wallet.GenerateStateInit(pk, ver, o.net, wc, o.sub)
		if err != nil {
			return "err"
		}
		var st tlb.ShardAccount
		st.Account.SumType = "Account"
		st.Account.Account.Storage.State.SumType = "AccountActive"
		st.Account.Account.Storage.State.AccountActive.StateInit = si
		v, ok, e := wallet.GetWalletVersion(st, tlb.Message{})
		return fmt.Sprint(int(v), ok, e != nil)
	})
	freshChain := &fakeChain{}
	fresh, ferr := wallet.New(key, ver, freshChain, o.options()...)
	var none tlb.ShardAccount
	none.Account.SumType = "AccountNone"
	for _, ww := range []struct {
		name  string
		w     *wallet.Wallet
		chain *fakeChain
	}{{"New(...)", &fresh, freshChain}, {"the wallet made earlier", old, oldChain}} {
		ww := ww
		if ww.w == nil || (ww.w == &fresh && ferr != nil) {
			as = append(as, c15Answer{ww.name, "err"})
			continue
		}
		add(ww.name+".GetAddress", func() string { return ww.w.GetAddress().ToRaw() })
		add("hash("+ww.name+".StateInit())", func() string { return c15InitHex(ww.w.StateInit()) })
		if int(ver) >= int(wallet.V3R1) {
			add("hash(NextMessageParams(none).Init) of "+ww.name, func() string {
				p, err := wallet.VerifNextMessageParams(ww.w, none)
				return fmt.Sprint(p.Seqno, " ") + c15InitHex(p.Init, err)
			})
			add("first message (SendV2, account none) of "+ww.name, func() string { return c15FirstMessage(ww.w, ww.chain) })
		}
	}
	return as
}

// consistency of one set of answers, independent of any earlier one: every API yields hash(state-init) as the address and
// the first message carries the init that hashes to its destination
func c15AnswersCoherent(as []c15Answer) string {
	m := map[string]string{}
	for _, a := range as {
		m[a.what] = a.val
	}
	ga, ok := m["GenerateWalletAddress"]
	if !ok || ga == "err" || len(ga) < 64 {
		return ""
	}
	h := ga[len(ga)-64:]
	for _, a := range as {
		switch {
		case a.val == "err" || a.val == "panic":
		case len(a.what) > 5 && a.what[:5] == "hash(" && a.what != "hash(GetCodeByVer)":
			if len(a.val) < 64 || a.val[len(a.val)-64:] != h {
				return a.what + " = " + a.val + " is not the address " + ga
			}
		case len(a.what) > 13 && a.what[:13] == "first message":
			if a.val != "dest="+h+" init="+h {
				return a.what + " = " + a.val + ": destination / attached init are not the address " + ga
			}
		case len(a.what) > 11 && a.what[len(a.what)-11:] == ".GetAddress":
			if a.val != ga {
				return a.what + " = " + a.val + ", GenerateWalletAddress = " + ga
			}
		}
	}
	if m["hash(GetCodeByVer)"] != m["GetCodeHashByVer"] {
		return "GetCodeHashByVer is not the hash of GetCodeByVer's cell"
	}
	return ""
}

// the value roots (code, data, library cells) a caller can reach in what it was handed
type c15Handed struct {
	api   string
	roots []*boc.Cell
	si    *tlb.StateInit // nil for a bare code cell
}

func c15HandedOf(api string, si *tlb.StateInit) c15Handed {
	h := c15Handed{api: api, si: si}
	if si.Code.Exists {
		h.roots = append(h.roots, &si.Code.Value.Value)
	}
	if si.Data.Exists {
		h.roots = append(h.roots, &si.Data.Value.Value)
	}
	return h
}

func (h c15Handed) hash() string {
	if h.si != nil {
		return c15InitHex(h.si, nil)
	}
	return c15HashHex(h.roots[0])
}

// obtains a value through the source API; nil when the version does not support it
func c15Obtain(src int, ver wallet.Version, seed []byte, o wopts, w *wallet.Wallet, chain *fakeChain) *c15Handed {
	key := ed25519.NewKeyFromSeed(seed)
	pk := key.Public().(ed25519.PublicKey)
	var h c15Handed
	switch src {
	case 0:
		h = c15Handed{api: "GetCodeByVer", roots: []*boc.Cell{wallet.GetCodeByVer(ver)}}
	case 1:
		si, err := wallet.GenerateStateInit(pk, ver, o.net, derefInt(o.wc), o.sub)
		if err != nil || !si.Code.Exists {
			return nil
		}
		h = c15HandedOf("GenerateStateInit", &si)
	case 2, 3, 5:
		if w == nil {
			return nil
		}
		si, err := w.StateInit()
		if err != nil || si == nil {
			return nil
		}
		if src == 3 { // the application's own copy of the struct (what the demo of the class does)
			mine := *si
			si = &mine
		}
		if src == 5 { // a message was sent in between
			if int(ver) < int(wallet.V3R1) {
				return nil
			}
			c15FirstMessage(w, chain)
		}
		h = c15HandedOf(c15DeepSources[src], si)
	case 4:
		if w == nil || int(ver) < int(wallet.V3R1) {
			return nil
		}
		var none tlb.ShardAccount
		none.Account.SumType = "AccountNone"
		p, err := wallet.VerifNextMessageParams(w, none)
		if err != nil || p.Init == nil {
			return nil
		}
		h = c15HandedOf("NextMessageParams.Init", p.Init)
	}
	return &h
}

const c15CursorAnswer = "read cursors of GetCodeByVer's cells"

// the first answer that changed; cursors selects the answer about read cursors (reported under its own key) or all others
func c15Diff(before, after []c15Answer, cursors bool) string {
	var ds []string
	var order []int // what the property speaks about first: addresses, state-inits, the first message; then the code
	for pass := 0; pass < 2; pass++ {
		for i := range before {
			if strings.Contains(before[i].what, "Code") == (pass == 1) {
				order = append(order, i)
			}
		}
	}
	for _, i := range order {
		if (before[i].what == c15CursorAnswer) != cursors {
			continue
		}
		if i >= len(after) || before[i] != after[i] {
			got := "missing"
			if i < len(after) {
				got = after[i].val
			}
			if len(ds) == 3 {
				ds = append(ds, "...")
				break
			}
			ds = append(ds, fmt.Sprintf("%s = %s, was %s", before[i].what, trunc(got, 140), trunc(before[i].val, 140)))
		}
	}
	return strings.Join(ds, "; ")
}

func genC15R8(c *Ctx) {
	r := c.R
	targets := []string{"children", "deepest", "all", "one-cell", "grand-children", "root"}
	reps := c.Scale(1, 4)
	for vi, ver := range c15CodeVersions {
		var lastIn sx.V
		for rep := 0; rep < reps; rep++ {
			for src := range c15DeepSources {
				seed := c14Seed(r)
				o := randOpts(r)
				if src%2 == 0 && rep == 0 {
					o = wopts{}
				}
				pk := ed25519.NewKeyFromSeed(seed).Public().(ed25519.PublicKey)
				target := targets[(vi+src+rep+int(c.Seed))%len(targets)]
				if rep == 0 && src == 3 {
					target = "children" // the plain scenario: one write into a child of the code of the application's copy
				}
				in := sx.L(sx.Nat(int(ver)), sx.Bytes(pk), o.sx(), sx.Bytes(seed), sx.L(sx.A("deep"), sx.A(c15DeepSources[src]), sx.A(target)))
				lastIn = sx.L(sx.Nat(int(ver)), sx.Bytes(pk), o.sx(), sx.Bytes(seed))
				oldChain := &fakeChain{}
				var old *wallet.Wallet
				if w, err := wallet.New(ed25519.NewKeyFromSeed(seed), ver, oldChain, o.options()...); err == nil {
					old = &w
				}
				before := c15Answers(ver, seed, o, old, oldChain)
				if why := c15AnswersCoherent(before); why != "" {
					c.Fail("c15.history", in, "c15-deep-incoherent", "before anything was modified: "+why)
				}
				// values handed out earlier through every API: they must not change when ANOTHER value is modified
				var witnesses []*c15Handed
				var witnessHash []string
				for s := range c15DeepSources {
					if s == 5 {
						continue
					}
					if h := c15Obtain(s, ver, seed, o, old, oldChain); h != nil {
						witnesses = append(witnesses, h)
						witnessHash = append(witnessHash, h.hash())
					}
				}
				got := c15Obtain(src, ver, seed, o, old, oldChain)
				if got == nil {
					continue
				}
				c.Note("c15.history", fmt.Sprintf("deep|v%d|%s", int(ver), c15DeepSources[src]), in)
				cursorReported := false
				check := func(step string) bool {
					after := c15Answers(ver, seed, o, old, oldChain)
					if d := c15Diff(before, after, true); d != "" && !cursorReported {
						cursorReported = true
						c.Fail("c15.history", in, "c15-deep-cursors", fmt.Sprintf("after the caller %s the value it got from %s (%s), a code cell handed out later is not positioned at its start: %s", step, got.api, c15VerName(ver), d))
					}
					if d := c15Diff(before, after, false); d != "" {
						c.Fail("c15.history", in, "c15-deep-aliasing", fmt.Sprintf("after the caller %s the value it got from %s (%s): %s", step, got.api, c15VerName(ver), d))
						return false
					}
					if why := c15AnswersCoherent(after); why != "" {
						c.Fail("c15.history", in, "c15-deep-incoherent", fmt.Sprintf("after the caller %s the value it got from %s: %s", step, got.api, why))
						return false
					}
					for i, wv := range witnesses {
						if wv.hash() != witnessHash[i] {
							c.Fail("c15.history", in, "c15-deep-aliasing", fmt.Sprintf("after the caller %s the value it got from %s, a value handed out earlier by %s changed (%s)", step, got.api, wv.api, c15VerName(ver)))
							return false
						}
					}
					return true
				}
				// step 1: reading (cursors of every reachable cell move)
				for _, root := range got.roots {
					for _, l := range c15Levels(root) {
						for _, cell := range l {
							c15ReadCell(cell, r)
						}
					}
				}
				if !check("read through") {
					continue
				}
				// step 2: writing at the target depth
				for _, root := range got.roots {
					ls := c15Levels(root)
					var cells []*boc.Cell
					switch target {
					case "root":
						cells = ls[0]
					case "children":
						if len(ls) > 1 {
							cells = ls[1]
						}
					case "grand-children":
						if len(ls) > 2 {
							cells = ls[2]
						} else {
							cells = ls[len(ls)-1]
						}
					case "deepest":
						cells = ls[len(ls)-1]
					case "one-cell":
						var flat []*boc.Cell
						for _, l := range ls[1:] {
							flat = append(flat, l...)
						}
						if len(flat) > 0 {
							cells = []*boc.Cell{flat[r.Intn(len(flat))]}
						}
					default:
						for _, l := range ls {
							cells = append(cells, l...)
						}
					}
					for _, cell := range cells {
						c15WriteCell(cell, r)
					}
				}
				check("wrote into cells (" + target + ") of")
			}
		}
		// the same question to the model after everything above: address = hash(code of the version, data)
		if lastIn.K == sx.KL && (int(ver) <= int(wallet.HighLoadV1R1) || ver == wallet.HighLoadV2R2) {
			c.Emit("c15.addr", lastIn, fmt.Sprintf("addr|after-deep-modification|v%d", int(ver)))
		}
	}
}
