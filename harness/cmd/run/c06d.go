package main

// C06, derived bit strings (kind "c06.derived"): the operations continue on the
// BitStrings RETURNED by ReadBits / ReadRemainingBits / Copy / Cell.RawBitString.
// The byte-aligned fast path of ReadBits(n) copies whole bytes, so for n%8 != 0
// the result's buffer holds the source's following bits after its length; every
// later write of zero bits into such a string (WriteBit(false), WriteUint(0,k),
// Append, WriteBitString, the completion tag + padding of ToFiftHex and
// GetTopUppedArray) has to clear them.  Each observable is compared with the
// byte-faithful model (coq/Model/BitStringD.v) and, here, with the ideal bit list.

import (
	"fmt"
	"math/big"
	"strings"

	"github.com/tonkeeper/tongo/boc"

	"verifharness/prng"
	"verifharness/sx"
)

func init() {
	execs["c06.derived"] = execC06Derived
}

const c06NRegs = 6

// a register is a BitString or a Cell (whose bits are reached through the Cell methods)
type dreg struct {
	bs   *boc.BitString
	cell *boc.Cell
	dead bool // its buffer is now shared with another register (raw): never touched again
}

func harnessErr(what string) sx.V { return sx.L(sx.A("harness-error"), sx.A(what)) }

// value of the register as a BitString (for a cell: RawBitString, a struct copy)
func (d *dreg) value() boc.BitString {
	if d.cell != nil {
		return d.cell.RawBitString()
	}
	return *d.bs
}

type bitsSource interface {
	ReadBits(n int) (boc.BitString, error)
	ReadRemainingBits() boc.BitString
	WriteBitString(s boc.BitString) error
}

func (d *dreg) api() bitsSource {
	if d.cell != nil {
		return d.cell
	}
	return d.bs
}

// the c06.seq operations through the methods of boc.Cell
func c06CellOp(c *boc.Cell, o sx.V) (out sx.V) {
	defer func() {
		if r := recover(); r != nil {
			out = sx.A("panic")
		}
	}()
	a := o.List[1:]
	ok := sx.A("ok")
	switch o.Head() {
	case "wbit":
		return errOr(c.WriteBit(a[0].Bool), ok)
	case "wuint":
		return errOr(c.WriteUint(a[0].U64(), a[1].I()), ok)
	case "wint":
		return errOr(c.WriteInt(a[0].Int.Int64(), a[1].I()), ok)
	case "wbiguint":
		return errOr(c.WriteBigUint(new(big.Int).Set(a[0].Int), a[1].I()), ok)
	case "wbigint":
		return errOr(c.WriteBigInt(new(big.Int).Set(a[0].Int), a[1].I()), ok)
	case "wbytes":
		return errOr(c.WriteBytes(a[0].Bytes), ok)
	case "wbits":
		return errOr(c.WriteBitString(bitStringFromBits(a[0].Bits)), ok)
	case "wunary":
		return errOr(c.WriteUnary(uint(a[0].U64())), ok)
	case "wlim":
		return errOr(c.WriteLimUint(a[0].I(), a[1].I()), ok)
	case "rbit":
		v, err := c.ReadBit()
		return errOr(err, sx.B(v))
	case "ruint":
		v, err := c.ReadUint(a[0].I())
		return errOr(err, sx.N(v))
	case "puint":
		v, err := c.PickUint(a[0].I())
		return errOr(err, sx.N(v))
	case "rint":
		v, err := c.ReadInt(a[0].I())
		return errOr(err, sx.Z(v))
	case "rbiguint":
		v, err := c.ReadBigUint(a[0].I())
		if err != nil {
			return sx.A("err")
		}
		return scribbleBig(sx.BigN(v), v)
	case "rbigint":
		v, err := c.ReadBigInt(a[0].I())
		if err != nil {
			return sx.A("err")
		}
		return scribbleBig(sx.BigZ(v), v)
	case "rbytes":
		v, err := c.ReadBytes(a[0].I())
		return errOr(err, sx.Bytes(v))
	case "rbits":
		v, err := c.ReadBits(a[0].I())
		if err != nil {
			return sx.A("err")
		}
		if v.GetWriteCursor() != a[0].I() {
			return harnessErr("rbits-len")
		}
		out := sx.Bits(bitsOf(&v))
		scribbleBits(&v)
		return out
	case "runary":
		v, err := c.ReadUnary()
		return errOr(err, sx.N(uint64(v)))
	case "rlim":
		v, err := c.ReadLimUint(a[0].I())
		return errOr(err, sx.N(uint64(v)))
	case "skip":
		return errOr(c.Skip(a[0].I()), ok)
	case "reset":
		c.ResetCounters()
		return ok
	case "state":
		raw := c.RawBitString()
		return sx.L(sx.Nat(c.BitSize()), sx.Nat(c.BitsAvailableForRead()), sx.Nat(c.BitsAvailableForWrite()), sx.Bits(bitsOf(&raw)))
	}
	return harnessErr("badcellop")
}

func c06DOp(regs []*dreg, o sx.V) (out sx.V) {
	defer func() {
		if r := recover(); r != nil {
			out = sx.A("panic")
		}
	}()
	a := o.List[1:]
	ok := sx.A("ok")
	reg := func(k int) *dreg {
		i := a[k].I()
		if i < 0 || i >= len(regs) {
			panic("harness: register index")
		}
		return regs[i]
	}
	set := func(k int, b boc.BitString) { regs[a[k].I()] = &dreg{bs: &b} }
	ri := reg(0)
	if ri.dead {
		return harnessErr("dead-register")
	}
	switch o.Head() {
	case "new":
		set(0, boc.NewBitString(a[1].I()))
		return ok
	case "cell":
		regs[a[0].I()] = &dreg{cell: boc.NewCell()}
		return ok
	case "grow":
		if ri.bs == nil {
			return harnessErr("grow-cell")
		}
		ri.bs.Grow(a[1].I())
		return ok
	case "setbit":
		if ri.bs == nil {
			return harnessErr("setbit-cell")
		}
		if a[2].Bool {
			return errOr(ri.bs.On(a[1].I()), ok)
		}
		return errOr(ri.bs.Off(a[1].I()), ok)
	case "fift":
		v := ri.value()
		return fiftToSx(v.ToFiftHex())
	case "bin":
		v := ri.value()
		return sx.Bits(v.BinaryString())
	case "topup":
		v := ri.value()
		b, err := v.GetTopUppedArray()
		out := errOr(err, sx.Bytes(b)) // sx.Bytes copies
		scribbleBytes(b)               // the returned array is the caller's
		return out
	case "hash":
		// implementation-only oracle: a cell wrapped around the register hashes like a cell into
		// which the same bits were written (the model answers 'ok)
		v := ri.value()
		h1, err1 := boc.NewCellWithBits(v).HashString()
		fresh := boc.NewCell()
		err2 := fresh.WriteBitString(bitStringFromBits(bitsOf(&v)))
		h2, err3 := fresh.HashString()
		if err1 != nil || err2 != nil || err3 != nil {
			return sx.A("err")
		}
		if h1 != h2 {
			return sx.L(sx.A("hash-differs"), sx.Str(h1), sx.Str(h2))
		}
		return ok
	case "rrem":
		set(1, ri.api().ReadRemainingBits())
		return ok
	case "copy":
		v := ri.value()
		set(1, v.Copy())
		return ok
	case "raw":
		// Cell.RawBitString: a struct copy that SHARES the buffer; the source is retired
		v := ri.value()
		ri.dead = true
		set(1, v)
		return ok
	case "append":
		rj := reg(1)
		if ri.bs == nil || rj.dead {
			return harnessErr("append-args")
		}
		ri.bs.Append(rj.value())
		return ok
	case "wbs":
		rj := reg(1)
		if rj.dead {
			return harnessErr("dead-register")
		}
		return errOr(ri.api().WriteBitString(rj.value()), ok)
	case "rbits":
		v, err := ri.api().ReadBits(a[2].I())
		if err != nil {
			return sx.A("err")
		}
		set(1, v)
		return ok
	case "on":
		if ri.cell != nil {
			return c06CellOp(ri.cell, a[1])
		}
		return c06Op(ri.bs, a[1])
	}
	return harnessErr("baddop")
}

func execC06Derived(in sx.V) sx.V {
	regs := make([]*dreg, c06NRegs)
	for i := range regs {
		b := boc.NewBitString(0)
		regs[i] = &dreg{bs: &b}
	}
	outs := make([]sx.V, 0, len(in.List))
	for _, o := range in.List {
		outs = append(outs, c06DOp(regs, o))
	}
	return sx.L(outs...)
}

// ---------------------------------------------------------------- ideal side

// ideal register: the bit list, the read cursor, the capacity
type ireg struct {
	bits string
	rcur int
	cap  int
	cell bool
}

func idealFift(bits string) sx.V {
	under := len(bits)%4 != 0
	if under {
		bits += "1"
		for len(bits)%4 != 0 {
			bits += "0"
		}
	}
	var ds []sx.V
	for i := 0; i < len(bits); i += 4 {
		d := 0
		for _, c := range bits[i : i+4] {
			d = d*2 + int(c-'0')
		}
		ds = append(ds, sx.Nat(d))
	}
	return sx.L(sx.L(ds...), sx.B(under))
}

func bitsToBytes(bits string) []byte {
	out := make([]byte, len(bits)/8)
	for i := range out {
		for _, c := range bits[8*i : 8*i+8] {
			out[i] = out[i]<<1 | byte(c-'0')
		}
	}
	return out
}

// GetTopUppedArray writes the tag into a Copy without growing it
func idealTopUp(g ireg) sx.V {
	tu := (8 - len(g.bits)%8) % 8
	if tu == 0 {
		return sx.Bytes(bitsToBytes(g.bits))
	}
	if len(g.bits)+tu > g.cap {
		return sx.A("err")
	}
	return sx.Bytes(bitsToBytes(g.bits + "1" + strings.Repeat("0", tu-1)))
}

func uintBits(v uint64, w int) string {
	var sb strings.Builder
	for i := w - 1; i >= 0; i-- {
		if i < 64 && (v>>uint(i))&1 == 1 {
			sb.WriteByte('1')
		} else {
			sb.WriteByte('0')
		}
	}
	return sb.String()
}

// a script under construction: operations, and for each the output the ideal
// bit list predicts ("" = not predicted)
type dscript struct {
	r    *prng.R
	ops  []sx.V
	want []string
	g    [c06NRegs]ireg
	tags map[string]bool
	// no On() junk behind the ideal list: the raw buffer enters the hash of a cell wrapped around it
	nojunk bool
}

func (d *dscript) add(o sx.V, want string) {
	d.ops = append(d.ops, o)
	d.want = append(d.want, want)
}

func (d *dscript) on(i int, o sx.V, want string) { d.add(op("on", sx.Nat(i), o), want) }

func (d *dscript) newReg(i, capBits int) {
	d.g[i] = ireg{cap: capBits}
	d.add(op("new", sx.Nat(i), sx.Nat(capBits)), "'ok")
}

func (d *dscript) newCell(i int) {
	d.g[i] = ireg{cap: 1023, cell: true}
	d.add(op("cell", sx.Nat(i)), "'ok")
}

// ideal effect of writing l: all of it, or the part that fits and an error
func (d *dscript) idealWrite(i int, l string) string {
	g := &d.g[i]
	room := g.cap - len(g.bits)
	if len(l) <= room {
		g.bits += l
		return "'ok"
	}
	g.bits += l[:room]
	return "'err"
}

// write the bit list l into register i through a randomly chosen writer
func (d *dscript) write(i int, l string) {
	r := d.r
	switch {
	case len(l) == 1 && r.Chance(60):
		d.on(i, op("wbit", sx.B(l == "1")), d.idealWrite(i, l))
	case len(l) <= 64 && r.Chance(50):
		v := new(big.Int)
		if len(l) > 0 {
			v.SetString(l, 2)
		}
		d.on(i, op("wuint", sx.N(v.Uint64()), sx.Nat(len(l))), d.idealWrite(i, l))
	case len(l)%8 == 0 && len(l) > 0 && r.Chance(40):
		d.on(i, op("wbytes", sx.Bytes(bitsToBytes(l))), d.idealWrite(i, l))
	default:
		d.on(i, op("wbits", sx.Bits(l)), d.idealWrite(i, l))
	}
}

// write l in chunks
func (d *dscript) writeChunks(i int, l string) {
	for len(l) > 0 {
		k := 1 + d.r.Intn(40)
		if k > len(l) || d.r.Chance(30) {
			k = len(l)
		}
		d.write(i, l[:k])
		l = l[k:]
	}
}

func (d *dscript) skip(i, n int) {
	g := &d.g[i]
	if g.rcur+n <= len(g.bits) {
		g.rcur += n
		d.on(i, op("skip", sx.Nat(n)), "'ok")
	} else {
		d.on(i, op("skip", sx.Nat(n)), "'err")
	}
}

func (d *dscript) readBits(i, j, n int) bool {
	g := &d.g[i]
	o := op("rbits", sx.Nat(i), sx.Nat(j), sx.Nat(n))
	if g.rcur+n > len(g.bits) {
		d.add(o, "'err")
		return false
	}
	res := ireg{bits: g.bits[g.rcur : g.rcur+n], cap: n}
	g.rcur += n
	d.g[j] = res
	d.add(o, "'ok")
	return true
}

func (d *dscript) readRemaining(i, j int) {
	g := &d.g[i]
	res := ireg{bits: g.bits[g.rcur:], cap: len(g.bits) - g.rcur}
	g.rcur = len(g.bits)
	d.g[j] = res
	d.add(op("rrem", sx.Nat(i), sx.Nat(j)), "'ok")
}

func (d *dscript) copyReg(i, j int) {
	d.g[j] = ireg{bits: d.g[i].bits, cap: d.g[i].cap}
	d.add(op("copy", sx.Nat(i), sx.Nat(j)), "'ok")
}

func (d *dscript) rawReg(i, j int) {
	d.g[j] = ireg{bits: d.g[i].bits, cap: d.g[i].cap, rcur: d.g[i].rcur}
	d.add(op("raw", sx.Nat(i), sx.Nat(j)), "'ok")
}

func (d *dscript) grow(i, n int) {
	d.g[i].cap += n
	d.add(op("grow", sx.Nat(i), sx.Nat(n)), "'ok")
	if !d.nojunk && d.r.Chance(60) {
		d.junk(i)
	}
}

// On(n) / Off(n): any position below cap, the length does not move; below the length the
// ideal bit changes, at or after it only the buffer behind the ideal list does
func (d *dscript) setBit(i, n int, v bool) {
	g := &d.g[i]
	want := "'ok"
	switch {
	case n >= g.cap:
		want = "'err"
	case n < len(g.bits):
		b := []byte(g.bits)
		b[n] = '0'
		if v {
			b[n] = '1'
		}
		g.bits = string(b)
	}
	d.add(op("setbit", sx.Nat(i), sx.Nat(n), sx.B(v)), want)
}

// put 1-bits into the buffer behind the ideal list (positions len..cap-1) through the exported
// On: whatever is written there later must not depend on them
func (d *dscript) junk(i int) {
	g := &d.g[i]
	if g.cell {
		return // boc.Cell has no On/Off
	}
	room := g.cap - len(g.bits)
	if room > 0 {
		d.tags["junk"] = true
		if room > 24 {
			room = 24
		}
		if d.r.Chance(55) {
			for k := 0; k < room; k++ {
				d.setBit(i, len(g.bits)+k, true)
			}
		} else {
			for k := 0; k < 1+d.r.Intn(4); k++ {
				d.setBit(i, len(g.bits)+d.r.Intn(room), d.r.Chance(85))
			}
		}
	}
	if d.r.Chance(15) {
		d.setBit(i, g.cap+d.r.Intn(3), true) // at or past the capacity: Overflow
	}
	if len(g.bits) > 0 && d.r.Chance(15) {
		d.setBit(i, d.r.Intn(len(g.bits)), d.r.Bool()) // a written bit: the ideal list changes there
	}
}

func (d *dscript) appendReg(i, j int) {
	g := &d.g[i]
	need := len(d.g[j].bits) - (g.cap - len(g.bits))
	if need > 0 {
		g.cap += need
	}
	g.bits += d.g[j].bits
	d.add(op("append", sx.Nat(i), sx.Nat(j)), "'ok")
}

func (d *dscript) writeBitString(i, j int) {
	d.add(op("wbs", sx.Nat(i), sx.Nat(j)), d.idealWrite(i, d.g[j].bits))
}

// observables of register i, each with the ideal prediction
func (d *dscript) observe(i int, which int) {
	g := d.g[i]
	switch which {
	case 0:
		st := sx.L(sx.Nat(len(g.bits)), sx.Nat(len(g.bits)-g.rcur), sx.Nat(g.cap-len(g.bits)), sx.Bits(g.bits))
		d.on(i, op("state"), st.String())
	case 1:
		d.add(op("fift", sx.Nat(i)), idealFift(g.bits).String())
	case 2:
		d.add(op("bin", sx.Nat(i)), sx.Bits(g.bits).String())
	case 3:
		d.add(op("topup", sx.Nat(i)), idealTopUp(g).String())
	case 4:
		d.add(op("hash", sx.Nat(i)), "'ok")
	}
}

// advance the read cursor of register j by 0..available bits (nothing, everything, or a random
// part) through randomly chosen readers: a nested bit string that has been read from before it is
// written must still be written as a whole
func (d *dscript) advance(j int) {
	g := &d.g[j]
	avail := len(g.bits) - g.rcur
	a := 0
	switch d.r.Intn(5) {
	case 0:
	case 1:
		a = avail
	default:
		if avail > 0 {
			a = d.r.Intn(avail + 1)
		}
	}
	for a > 0 {
		k := 1 + d.r.Intn(a)
		if k > 64 {
			k = 64
		}
		chunk := g.bits[g.rcur : g.rcur+k]
		switch d.r.Intn(5) {
		case 0:
			k, chunk = 1, chunk[:1]
			d.on(j, op("rbit"), sx.B(chunk == "1").String())
			g.rcur++
		case 1:
			d.skip(j, k)
		case 2:
			v := new(big.Int)
			v.SetString(chunk, 2)
			d.on(j, op("ruint", sx.Nat(k)), sx.BigN(v).String())
			g.rcur += k
		case 3:
			d.on(j, op("rbits", sx.Nat(k)), sx.Bits(chunk).String())
			g.rcur += k
		default:
			if k >= 8 {
				k = 8
				v := new(big.Int)
				v.SetString(chunk[:8], 2)
				d.on(j, op("rbyte"), sx.BigN(v).String())
				g.rcur += 8
			} else {
				d.skip(j, k)
			}
		}
		a -= k
	}
	if g.rcur > 0 {
		d.tags["argcur"] = true
	}
}

// read everything back from the start with the integer / bit readers
func (d *dscript) readBack(i int) {
	g := &d.g[i]
	g.rcur = 0
	d.on(i, op("reset"), "'ok")
	if d.r.Chance(25) {
		n := len(g.bits)
		d.on(i, op("rbits", sx.Nat(n)), sx.Bits(g.bits).String())
		g.rcur = n
	} else {
		for g.rcur < len(g.bits) {
			w := 1 + d.r.Intn(64)
			if d.r.Chance(40) {
				w = edgeWidths[1+d.r.Intn(len(edgeWidths)-1)]
			}
			if g.rcur+w > len(g.bits) {
				w = len(g.bits) - g.rcur
			}
			v := new(big.Int)
			v.SetString(g.bits[g.rcur:g.rcur+w], 2)
			d.on(i, op("ruint", sx.Nat(w)), sx.BigN(v).String())
			g.rcur += w
		}
	}
	// nothing left: every reader must fail instead of inventing data
	probes := []sx.V{op("rbit"), op("rint", sx.Nat(1)), op("ruint", sx.Nat(1)), op("rint", sx.Nat(2)),
		op("rbits", sx.Nat(1)), op("rbyte"), op("rbytes", sx.Nat(1)), op("rbiguint", sx.Nat(1)),
		op("rbigint", sx.Nat(1)), op("rbigint", sx.Nat(9)), op("runary"), op("skip", sx.Nat(1)), op("puint", sx.Nat(1)),
		op("rint", sx.Nat(1+d.r.Intn(64))), op("ruint", sx.Nat(1+d.r.Intn(64)))}
	pr := probes[d.r.Intn(len(probes))]
	if g.cell && pr.Head() == "rbyte" { // boc.Cell has no ReadByte
		pr = op("rbytes", sx.Nat(1))
	}
	d.on(i, pr, "'err")
	if d.r.Chance(50) {
		d.on(i, op("rint", sx.Nat(1)), "'err")
	}
	// and a failed read leaves the state where it was
	st := sx.L(sx.Nat(len(g.bits)), sx.Nat(0), sx.Nat(g.cap-len(g.bits)), sx.Bits(g.bits))
	d.on(i, op("state"), st.String())
}

var c06OddWindows = []int{1, 2, 3, 4, 5, 6, 7, 9, 10, 11, 12, 13, 15, 17, 20, 23, 25, 31, 33, 47, 63, 65, 100, 257}

func biasedBits(r *prng.R, n int, onesPct int) string {
	switch {
	case r.Chance(onesPct):
		return strings.Repeat("1", n)
	case r.Chance(25):
		return strings.Repeat("0", n)
	}
	var sb strings.Builder
	for i := 0; i < n; i++ {
		if r.Bool() {
			sb.WriteByte('1')
		} else {
			sb.WriteByte('0')
		}
	}
	return sb.String()
}

// one scenario: source -> derived string(s) -> writes into the derived string -> observation
func buildDerived(r *prng.R) *dscript {
	d := &dscript{r: r, tags: map[string]bool{}}
	for i := range d.g {
		d.g[i] = ireg{}
	}
	// source in register 0: prefix | window | tail
	p := 8 * r.Intn(5)
	if r.Chance(25) {
		p = r.Intn(30)
	}
	n := c06OddWindows[r.Intn(len(c06OddWindows))]
	if r.Chance(25) {
		n = r.Intn(41)
	}
	t := 1 + r.Intn(24)
	if r.Chance(10) {
		t = 0
	}
	content := biasedBits(r, p, 20) + biasedBits(r, n, 30) + biasedBits(r, t, 65)
	if r.Chance(35) {
		d.newCell(0)
		d.tags["cell"] = true
	} else {
		d.newReg(0, len(content)+[]int{0, 0, 1, 8, 100}[r.Intn(5)])
	}
	d.writeChunks(0, content)
	if d.r.Chance(50) {
		d.junk(0) // Copy keeps it; ReadBits / ReadRemainingBits must not carry it over
	}
	d.skip(0, p)
	if p%8 == 0 {
		d.tags["aligned"] = true
	}
	// first derivation -> register 1
	how := r.Intn(10)
	switch {
	case how < 6:
		if r.Chance(4) {
			d.readBits(0, 1, n+t+1+r.Intn(8)) // beyond the written length: an error, register 1 stays empty
		}
		d.readBits(0, 1, n)
		d.tags["rbits"] = true
		if n%8 != 0 {
			d.tags["odd"] = true
		}
	case how < 7:
		d.readRemaining(0, 1)
		d.tags["rrem"] = true
	case how < 9 || !d.g[0].cell:
		d.copyReg(0, 1)
		d.tags["copy"] = true
	default:
		d.rawReg(0, 1)
		d.tags["raw"] = true
	}
	tgt := 1
	// optional second derivation from register 1 -> register 2 (keeps or re-cuts the stale tail)
	if r.Chance(40) {
		avail := len(d.g[1].bits) - d.g[1].rcur
		switch r.Intn(4) {
		case 0:
			d.copyReg(1, 2)
		case 1:
			k := 0
			if avail > 0 {
				k = r.Intn(avail + 1)
				if r.Chance(60) {
					k = k / 8 * 8
				}
			}
			d.skip(1, k)
			d.readRemaining(1, 2)
		default:
			m := 0
			if avail > 0 {
				m = r.Intn(avail + 1)
			}
			d.readBits(1, 2, m)
		}
		d.tags["chain"] = true
		tgt = 2
	}
	// observation before any write (ToFiftHex / GetTopUppedArray write into a Copy)
	for k := 0; k < 4; k++ {
		if r.Chance(50) {
			d.observe(tgt, k)
		}
	}
	// writes into the derived string
	nw := 1 + r.Intn(3)
	for k := 0; k < nw; k++ {
		w := 1 + r.Intn(12)
		if r.Chance(15) {
			w = 1 + r.Intn(70)
		}
		l := biasedBits(r, w, 10)
		if r.Chance(55) {
			l = strings.Repeat("0", w)
			d.tags["zeros"] = true
		}
		switch r.Intn(12) {
		case 8:
			// the argument is the destination itself, read from before
			d.advance(tgt)
			if r.Bool() {
				d.appendReg(tgt, tgt)
			} else {
				if r.Chance(80) {
					d.grow(tgt, len(d.g[tgt].bits)+r.Intn(3))
				}
				d.writeBitString(tgt, tgt)
			}
			d.observe(tgt, 0)
			d.tags["self"] = true
		case 9:
			// the argument is the source (BitString or Cell), whose cursor stands after the window
			if d.tags["raw"] {
				d.write(tgt, l)
				break
			}
			if r.Bool() {
				d.appendReg(tgt, 0)
			} else {
				d.grow(tgt, len(d.g[0].bits))
				d.writeBitString(tgt, 0)
			}
			d.observe(tgt, 0)
			d.observe(0, 0)
			if d.g[0].rcur > 0 {
				d.tags["argcur"] = true
			}
		case 10, 11:
			// Cell.WriteBitString: destination register 4 is a cell (or, 1 in 4, a plain bit string);
			// the argument is a fresh string read from before, or the derived string itself
			if r.Chance(75) {
				d.newCell(4)
			} else {
				d.newReg(4, 200)
			}
			d.writeChunks(4, biasedBits(r, r.Intn(20), 20))
			arg := 3
			if r.Chance(35) {
				arg = tgt
			} else {
				d.newReg(3, w)
				d.writeChunks(3, l)
			}
			d.advance(arg)
			d.writeBitString(4, arg)
			d.observe(4, 0)
			d.observe(4, 1)
			d.observe(arg, 0)
			if r.Bool() {
				// and once more after a further read of the argument
				d.advance(arg)
				d.writeBitString(4, arg)
				d.observe(4, 0)
			}
			d.readBack(4)
			d.tags["celldst"] = true
		case 0, 1, 2:
			// Append(other)
			d.newReg(3, w+r.Intn(3))
			d.writeChunks(3, l)
			if r.Chance(65) {
				d.advance(3)
			}
			d.appendReg(tgt, 3)
			d.observe(tgt, 0)
			if r.Chance(60) {
				d.observe(3, 0) // the argument keeps its bits and its cursor
			}
			d.tags["append"] = true
		case 3:
			// WriteBitString(other) after Grow, or without (overflow, prefix intact)
			d.newReg(3, w)
			d.writeChunks(3, l)
			if r.Chance(75) {
				gk := w + r.Intn(9) - r.Intn(3) // sometimes one or two bits short: overflow, prefix intact
				if gk < 0 {
					gk = 0
				}
				d.grow(tgt, gk)
			}
			if r.Chance(65) {
				d.advance(3)
			}
			d.writeBitString(tgt, 3)
			d.observe(tgt, 0)
			if r.Chance(60) {
				d.observe(3, 0)
			}
			d.tags["wbs"] = true
		case 4:
			// no room: the derived string has cap == len unless it was a Copy of a larger one
			d.write(tgt, l)
		default:
			d.grow(tgt, w+r.Intn(9))
			if r.Bool() {
				d.write(tgt, l)
			} else {
				d.writeChunks(tgt, l)
			}
			d.tags["grow-write"] = true
		}
		if r.Chance(30) {
			d.observe(tgt, r.Intn(4))
		}
	}
	// final observation: everything
	for k := 0; k < 4; k++ {
		d.observe(tgt, k)
	}
	d.readBack(tgt)
	if !d.tags["raw"] && r.Chance(40) {
		// the source is unchanged by whatever was written into the derived strings
		d.observe(0, 0)
	}
	return d
}

// Ownership: whatever a copy-like operation returns (Copy, ReadBits, ReadRemainingBits) is
// independent of its source and of its siblings.  A source — EMPTY with spare capacity in
// 45% — gets 2..3 derived strings; then source and derived strings are written in a random
// order (every order of "copy first / source first / sibling first" occurs), each with its own
// pattern, twice; after every write some other register is observed, at the end all of them:
// state, Fift hex, topped-up bytes, hash of a cell wrapped around them, full read-back.
func buildOwnership(r *prng.R) *dscript {
	d := &dscript{r: r, tags: map[string]bool{}, nojunk: true}
	L := 0
	if r.Chance(55) {
		L = 1 + r.Intn(40)
	} else {
		d.tags["empty"] = true
	}
	d.newReg(0, L+8+r.Intn(57))
	d.writeChunks(0, biasedBits(r, L, 25))
	if L > 0 && r.Chance(50) {
		d.skip(0, r.Intn(L+1))
	}
	regs := []int{0}
	nd := 2 + r.Intn(2)
	for j := 1; j <= nd; j++ {
		src := 0
		if j > 1 && r.Chance(25) {
			src = 1 + r.Intn(j-1) // a copy of a copy
		}
		avail := len(d.g[src].bits) - d.g[src].rcur
		switch x := r.Intn(10); {
		case x < 6:
			d.copyReg(src, j)
			d.tags["copy"] = true
		case x < 8:
			d.readBits(src, j, r.Intn(avail+1))
			d.tags["rbits"] = true
		default:
			d.readRemaining(src, j)
			d.tags["rrem"] = true
		}
		regs = append(regs, j)
	}
	for round := 0; round < 2; round++ {
		order := append([]int{}, regs...)
		for k := len(order) - 1; k > 0; k-- {
			m := r.Intn(k + 1)
			order[k], order[m] = order[m], order[k]
		}
		for _, i := range order {
			if r.Chance(15) {
				continue
			}
			w := 4 + r.Intn(20)
			l := biasedBits(r, w, 30)
			g := d.g[i]
			switch {
			case g.cap-len(g.bits) < w && r.Chance(85):
				d.grow(i, w-(g.cap-len(g.bits))+r.Intn(4))
				d.write(i, l)
			case r.Chance(30):
				d.newReg(5, w)
				d.writeChunks(5, l)
				d.appendReg(i, 5)
			default:
				d.write(i, l) // may not fit: Overflow, the prefix stays
			}
			other := regs[r.Intn(len(regs))]
			d.observe(other, r.Intn(5))
		}
	}
	for _, i := range regs {
		for k := 0; k < 5; k++ {
			d.observe(i, k)
		}
	}
	for _, i := range regs {
		d.readBack(i)
	}
	for _, i := range regs {
		d.observe(i, 0) // reading one back (which scribbles over what ReadBits returned) changed no other
	}
	return d
}

func genC06Derived(c *Ctx) {
	r := c.R
	nOwn := c.Scale(500, 30000)
	for i := 0; i < nOwn; i++ {
		d := buildOwnership(r)
		in := sx.L(d.ops...)
		var tg []string
		for _, k := range []string{"empty", "copy", "rbits", "rrem"} {
			if d.tags[k] {
				tg = append(tg, k)
			}
		}
		out := c.Emit("c06.derived", in, "own|"+strings.Join(tg, "+"))
		c06CheckScript(c, d, in, out, "own-")
	}
	n := c.Scale(1600, 120000)
	for i := 0; i < n; i++ {
		d := buildDerived(r)
		in := sx.L(d.ops...)
		var tg []string
		for _, k := range []string{"cell", "rbits", "rrem", "copy", "raw", "chain", "zeros", "argcur", "junk"} {
			if d.tags[k] {
				tg = append(tg, k)
			}
		}
		out := c.Emit("c06.derived", in, "derived|"+strings.Join(tg, "+"))
		c06CheckScript(c, d, in, out, "derived-")
	}
}

// compare every predicted output of a script with the implementation's
func c06CheckScript(c *Ctx, d *dscript, in sx.V, out sx.V, keyPrefix string) {
	if out.K != sx.KL || len(out.List) != len(d.ops) {
		c.Fail("c06.derived", in, keyPrefix+"shape", "result is not one value per operation")
		return
	}
	for j, o := range out.List {
		if d.want[j] == "" || o.String() == d.want[j] {
			continue
		}
		head := d.ops[j].Head()
		if head == "on" {
			head = d.ops[j].List[2].Head()
		}
		c.Fail("c06.derived", in, keyPrefix+head,
			fmt.Sprintf("op %d %s returned %s, the ideal bit list gives %s", j, d.ops[j], trunc(o.String(), 120), trunc(d.want[j], 120)))
		return
	}
}
