package main

// C12, c12.auth: connections made by the unmodified NewConnection, with or
// without an authentication key, driven through the public entry points
// (Request, a generated method, WaitMasterchainSeqno), every call under a caller
// context whose own deadline is later than the client timeout; drops and
// recoveries.  Runs in the guarded child: a panic in one of the client's
// goroutines must not take the generator down.

import (
	"context"
	"crypto/ed25519"
	"crypto/sha256"
	"encoding/binary"
	"fmt"
	"runtime"
	"strings"
	"time"

	"github.com/tonkeeper/tongo/liteclient"

	"verifharness/prng"
	"verifharness/sx"
)

const c12AuthD = 300 * time.Millisecond

// (nconn auth (act ...)) -> ((result ...) transport-connections authentications);
// repeated with a longer client timeout when an answered call missed its deadline
// (a stalled machine, not the client: a real loss persists)
func execC12Auth(in sx.V) sx.V {
	D := c12AuthD
	var out sx.V
	for try := 0; try < 4; try++ {
		var slow bool
		out, slow = runC12Auth(in, D)
		if !slow {
			break
		}
		D *= 2
	}
	return out
}

func runC12Auth(in sx.V, c12AuthD time.Duration) (result sx.V, slow bool) {
	c12Quiet()
	nconn, auth, acts := in.List[0].I(), in.List[1].I() != 0, in.List[2].List
	bad := func(what string) (sx.V, bool) { return sx.L(sx.A("harness-error"), sx.Str(what)), false }
	srv, err := newC12Server(nconn)
	if err != nil {
		return bad(err.Error())
	}
	srv.autoPong = true
	seed := sha256.Sum256([]byte("c12 auth key"))
	authKey := ed25519.NewKeyFromSeed(seed[:])
	var conns []*liteclient.Connection
	for k := 0; k < nconn; k++ {
		ctx, cancel := context.WithTimeout(context.Background(), 5*time.Second)
		var conn *liteclient.Connection
		if auth {
			conn, err = liteclient.NewConnection(ctx, srv.pub, srv.lns[k].ln.Addr().String(), authKey)
		} else {
			conn, err = liteclient.NewConnection(ctx, srv.pub, srv.lns[k].ln.Addr().String())
		}
		cancel()
		if err != nil {
			return bad("NewConnection: " + err.Error())
		}
		conns = append(conns, conn)
	}
	var cl *liteclient.Client
	if nconn == 1 {
		cl = liteclient.NewClient(conns[0], liteclient.OptionTimeout(c12AuthD))
	} else {
		cl = liteclient.VerifNewClient(conns, c12AuthD)
	}
	gens := make([]int, nconn)
	healthy := make([]bool, nconn)
	for k := range gens {
		if !c12Wait(2*time.Second, func() bool { _, g := srv.lns[k].current(); return g >= 1 }) {
			return bad("handshake not completed")
		}
		_, gens[k] = srv.lns[k].current()
		healthy[k] = true
	}
	nq := func() int { srv.mu.Lock(); defer srv.mu.Unlock(); return srv.nq }
	n := 0
	// one call under a caller deadline of an hour; answer (if any) built from the query
	size := 0
	call := func(m int, answer bool) sx.V {
		n++
		ctx, cancel := context.WithTimeout(context.Background(), time.Hour)
		defer cancel()
		before := nq()
		undec := srv.undecodable.Load()
		done := make(chan struct{})
		var cerr error
		okRes := false
		start := time.Now()
		go func() {
			defer close(done)
			switch m {
			case 1:
				res, err := cl.LiteServerGetTime(ctx)
				cerr, okRes = err, err == nil && res.Now == uint32(0x5eed0000+n)
			case 2:
				cerr = cl.WaitMasterchainSeqno(ctx, 5, 100)
				okRes = cerr == nil
			case 3: // a raw query of exactly `size` bytes, answered with as many bytes derived from it
				q := c12Stream([]byte(fmt.Sprintf("query %d %d", n, size)), size)
				res, err := cl.Request(ctx, q)
				d := sha256.Sum256(q)
				cerr, okRes = err, err == nil && string(res) == string(c12Stream(d[:], size))
			default:
				key := make([]byte, 16)
				copy(key, fmt.Sprintf("auth%012d", n))
				res, err := cl.Request(ctx, key)
				want := sha256.Sum256(key)
				cerr, okRes = err, err == nil && string(res) == string(want[:])
			}
		}()
		returned := func() bool {
			select {
			case <-done:
				return true
			default:
				return false
			}
		}
		answered := false
		if c12Wait(5*time.Second, func() bool { return nq() > before || returned() }) && nq() > before && answer {
			srv.mu.Lock()
			lk := srv.last.k
			srv.mu.Unlock()
			if fc, _ := srv.lns[lk].current(); fc != nil && fc.mute {
				answer = false // the server of this connection has fallen silent
			}
		}
		if answer && nq() > before {
			answered = true
			srv.mu.Lock()
			q, raw := srv.last, srv.lastRaw
			srv.mu.Unlock()
			var data []byte
			switch m {
			case 1: // liteServer.currentTime now:int
				data = binary.LittleEndian.AppendUint32(binary.LittleEndian.AppendUint32(nil, 0xe953000d), uint32(0x5eed0000+n))
			case 2: // liteServer.error code:int message:string, code 0
				data = append(binary.LittleEndian.AppendUint32(binary.LittleEndian.AppendUint32(nil, 0xbba9e148), 0), 0, 0, 0, 0)
			case 3:
				d := sha256.Sum256(raw)
				data = c12Stream(d[:], len(raw))
			default:
				sum := sha256.Sum256(raw[:16])
				data = sum[:]
			}
			srv.emit(q.k, c12Answer(q.id, data))
		}
		select {
		case <-done:
		case <-time.After(time.Until(start.Add(c12AuthD + c12Hang))):
			return sx.A("hang")
		}
		dur := time.Since(start)
		switch {
		case srv.undecodable.Load() > undec:
			return sx.A("query-undecodable") // the server could not read the query: no answer for it
		case cerr == nil && okRes:
			return sx.L(sx.A("ok"), sx.N(0))
		case cerr == nil:
			return sx.A("wrong-result")
		case strings.HasPrefix(cerr.Error(), "request timeout"):
			if dur < c12AuthD-5*time.Millisecond {
				return sx.L(sx.A("expired"), sx.A("early"))
			}
			if answered {
				slow = true
			}
			return sx.L(sx.A("expired"), sx.A("client"))
		case liteclient.IsNotConnectedYet(cerr) || strings.HasPrefix(cerr.Error(), "net.Conn.send() failed"):
			return sx.A("err")
		}
		return sx.L(sx.A("other"), sx.Str(cerr.Error()))
	}
	allHealthy := func() bool {
		for _, h := range healthy {
			if !h {
				return false
			}
		}
		return true
	}
	var outs []sx.V
	deaf := false
	for _, a := range acts {
		if deaf {
			break // nothing ends the calls on a deaf connection but their deadlines
		}
		switch a.Head() {
		case "call":
			outs = append(outs, call(a.List[1].I(), true))
		case "sized":
			size = a.List[1].I()
			outs = append(outs, call(3, true))
		case "silent":
			outs = append(outs, call(0, false))
		case "drop":
			k := a.List[1].I()
			srv.drop(k, a.List[2].I() == 1)
			healthy[k] = false
			time.Sleep(2 * time.Millisecond)
		case "blackhole":
			// connection k is reset; its reconnect falls into a hole: 1 TCP accept only,
			// 2 ten bytes of the handshake answer, 3 handshake answered, then silence
			k, ph := a.List[1].I(), a.List[2].I()
			srv.lns[k].hs.Store(int32(ph))
			srv.drop(k, true)
			healthy[k] = false
			time.Sleep(2 * time.Millisecond)
			started := false
			for tries := 0; tries < 6*nconn+6; tries++ {
				if o := call(0, true); o.IsA("err") {
					started = true
					break
				} else if o.IsA("hang") {
					break
				}
			}
			if !started {
				outs = append(outs, sx.A("no-send-error"))
			} else if ph == 3 {
				// the handshake succeeds: Connected, to a server that never says anything
				c12Wait(5*time.Second, func() bool {
					_, g := srv.lns[k].current()
					if g <= gens[k] {
						return false
					}
					st, answered := c12Status(conns[k])
					return answered && st == liteclient.Connected
				})
				_, gens[k] = srv.lns[k].current()
			}
		case "probe":
			g0 := runtime.NumGoroutine()
			o := call(0, true)
			outs = append(outs, o)
			if g1 := runtime.NumGoroutine(); g1 > g0+2 {
				outs = append(outs, sx.A("goroutine-growth"))
			}
		case "dialhole":
			ln := srv.lns[0]
			ln.hs.Store(int32(a.List[1].I()))
			ctx, cancel := context.WithTimeout(context.Background(), 400*time.Millisecond)
			done := make(chan error, 1)
			go func() {
				_, err := liteclient.NewConnection(ctx, srv.pub, ln.ln.Addr().String())
				done <- err
			}()
			select {
			case err := <-done:
				if err != nil {
					outs = append(outs, sx.A("err"))
				} else {
					outs = append(outs, sx.A("connected"))
				}
			case <-time.After(400*time.Millisecond + c12Hang):
				outs = append(outs, sx.A("hang"))
			}
			cancel()
			ln.hs.Store(0)
		case "corrupt":
			// a frame the client cannot parse: the stream is out of step, the client has to
			// give the connection up (visible to the server as the end of the connection)
			k := a.List[1].I()
			fc, _ := srv.lns[k].current()
			fc.sendBroken(a.List[2].I())
			if c12Wait(3*time.Second, func() bool { return fc.closed.Load() }) {
				outs = append(outs, sx.A("closed"))
			} else {
				outs = append(outs, sx.A("deaf"))
				deaf = true
			}
			healthy[k] = false
		case "recover":
			res := sx.A("up")
			for tries := 0; !allHealthy(); tries++ {
				if tries > 6*nconn+6 {
					res = sx.A("noreconnect")
					break
				}
				if o := call(0, true); o.IsA("err") {
					// the failed send has started reconnect(): handshake and, with a key, authentication
					for k := range healthy {
						if healthy[k] {
							continue
						}
						want := srv.auths.Load()
						ok := c12Wait(5*time.Second, func() bool {
							_, g := srv.lns[k].current()
							if g <= gens[k] {
								return false
							}
							st, answered := c12Status(conns[k])
							return answered && st == liteclient.Connected
						})
						if !ok {
							res = sx.A("noreconnect")
							break
						}
						_ = want
						_, gens[k] = srv.lns[k].current()
						healthy[k] = true
					}
					if res.IsA("noreconnect") {
						break
					}
				} else if o.IsA("hang") {
					res = o
					break
				}
			}
			outs = append(outs, res)
		default:
			return bad("act " + a.Head())
		}
	}
	total := 0
	for k := range gens {
		_, g := srv.lns[k].current()
		total += g
	}
	// with a key the server has verified one signature per transport connection
	if auth {
		c12Wait(time.Second, func() bool { return int(srv.auths.Load()) >= total })
	}
	return sx.L(sx.L(outs...), sx.Nat(total), sx.Nat(int(srv.auths.Load()))), slow
}

func c12GenAuth(r *prng.R, n int) sx.V {
	nconn := 1 + r.Intn(2)
	auth := n%4 != 3 // mostly with a key
	var acts []sx.V
	calls := func(k int) {
		for ; k > 0; k-- {
			acts = append(acts, c12Op("call", uint64(r.Intn(3))))
		}
	}
	calls(1 + r.Intn(3))
	if r.Chance(50) {
		acts = append(acts, c12Op("silent"))
	}
	for rounds := 1 + r.Intn(2); rounds > 0; rounds-- {
		acts = append(acts, c12Op("drop", uint64(r.Intn(nconn)), uint64(r.Intn(2))), c12Op("recover"))
		calls(1 + r.Intn(3))
	}
	if r.Chance(50) {
		acts = append(acts, c12Op("silent"))
	}
	if r.Chance(40) {
		acts = append(acts, c12Op("corrupt", uint64(r.Intn(nconn)), uint64(r.Intn(3))), c12Op("recover"))
		calls(1 + r.Intn(2))
	}
	if !auth || n%4 == 1 {
		// a keyless client ends in a black hole: the calls issued meanwhile
		auth = false
		if r.Chance(50) {
			acts = append(acts, c12Op("dialhole", uint64(1+r.Intn(2))))
		}
		acts = append(acts, c12Op("blackhole", uint64(r.Intn(nconn)), uint64(1+r.Intn(3))))
		for k := 3 + r.Intn(2*nconn+2); k > 0; k-- {
			acts = append(acts, c12Op("probe"))
		}
	}
	a := uint64(0)
	if auth {
		a = 1
	}
	return sx.L(sx.Nat(nconn), sx.N(a), sx.L(acts...))
}

// c12Stream expands a seed to n bytes (SHA-256 in counter mode)
func c12Stream(seed []byte, n int) []byte {
	out := make([]byte, 0, n+32)
	for ctr := uint32(0); len(out) < n; ctr++ {
		h := sha256.Sum256(binary.LittleEndian.AppendUint32(append([]byte{}, seed...), ctr))
		out = append(out, h[:]...)
	}
	return out[:n]
}

// query (and answer) sizes around every boundary of the length prefix and of the framing
var c12Sizes4 = []int{0, 1, 2, 3, 4, 5, 6, 7, 8, 250, 251, 252, 253, 254, 255, 256, 257, 258, 259, 260, 1000, 4095, 4096, 4097, 65535, 65536, 65537}

func c12GenSizes(r *prng.R, n int, thorough bool) sx.V {
	nconn := 1 + n%2
	var acts []sx.V
	if n == 0 || thorough && n%5 == 0 {
		for _, sz := range c12Sizes4 {
			acts = append(acts, c12Op("sized", uint64(sz)))
		}
		if thorough {
			acts = append(acts, c12Op("sized", 1<<20), c12Op("sized", (8<<20)-256))
		}
	} else {
		for k := 8 + r.Intn(8); k > 0; k-- {
			sz := c12Sizes4[r.Intn(len(c12Sizes4))]
			if r.Chance(30) {
				sz = r.Intn(70000)
			}
			acts = append(acts, c12Op("sized", uint64(sz)))
		}
	}
	return sx.L(sx.Nat(nconn), sx.N(uint64(n%2)), sx.L(acts...))
}
