package main

// C02, round 8: histories over the ONE-SHOT entry points (Cell.Hash, Hash256,
// HashString, Sign, ToBoc — no Hasher object the caller could blame) on cells
// that are WRITTEN TO between the calls.  The class of slips: state left behind
// by an earlier public call — in particular by one that FAILED (depth above
// 1024) — influencing the answer of a later one.  Every request is compared
// with (a) a fresh boc.Hasher on the same live cell and (b) a fresh boc.Hasher
// on an independently rebuilt cell of the same present content (other
// pointers), in either order.  Oracle on the implementation only.
//
// Shapes: real chains deeper than 1024 with side branches; the same boundary
// reached cheaply by a pruned branch storing a depth near the limit under a
// short chain (alone or as a sub-branch of a small DAG); two trees within the
// limit that an AddRef joins into one above it (succeeding calls become
// failing ones in the middle of the history).

import (
	"bytes"
	"crypto/ed25519"
	"encoding/hex"
	"fmt"

	"github.com/tonkeeper/tongo/boc"

	"verifharness/prng"
	"verifharness/sx"
)

func init() {
	execs["c02.oneshot"] = execC02OneShot
}

// requests: 0 Hash, 1 Hash256, 2 HashString, 3 Sign, 4 ToBoc
// writes:   10 WriteUint(a, b bits), 11 WriteBit(a), 12 WriteBytes(b times byte a),
//           13 AddRef(new leaf holding byte a), 14 AddRef(existing cell a)
// reads:    15 ReadUint(b), 16 NextRef, 17 ResetCounters
const (
	c02osHash = iota
	c02osHash256
	c02osHashString
	c02osSign
	c02osToBoc
)

var c02osKey = ed25519.NewKeyFromSeed(bytes.Repeat([]byte{0x5a}, 32))

func c02osCall(cell *boc.Cell, k int) (out string) {
	defer func() {
		if r := recover(); r != nil {
			out = "panic"
		}
	}()
	switch k {
	case c02osHash:
		b, err := cell.Hash()
		if err != nil {
			return "err"
		}
		return hex.EncodeToString(b)
	case c02osHash256:
		b, err := cell.Hash256()
		if err != nil {
			return "err"
		}
		return hex.EncodeToString(b[:])
	case c02osHashString:
		s, err := cell.HashString()
		if err != nil {
			return "err"
		}
		return s
	case c02osSign:
		sig, err := cell.Sign(c02osKey)
		if err != nil {
			return "err"
		}
		return "sig:" + hex.EncodeToString(sig)
	default:
		b, err := cell.ToBocCustom(false, false, false, 0)
		if err != nil {
			return "err"
		}
		return "boc:" + hex.EncodeToString(b)
	}
}

// the expected answer of request k from a cell nobody but a fresh Hasher touches
func c02osWant(cell *boc.Cell, k int) (out string) {
	defer func() {
		if r := recover(); r != nil {
			out = "want-panic"
		}
	}()
	if k == c02osToBoc {
		b, err := cell.ToBocCustomWithHasher(boc.NewHasher(), false, false, false, 0)
		if err != nil {
			return "err"
		}
		return "boc:" + hex.EncodeToString(b)
	}
	b, err := boc.NewHasher().Hash(cell)
	if err != nil {
		return "err"
	}
	if k == c02osSign {
		return "sig:" + hex.EncodeToString(ed25519.Sign(c02osKey, b))
	}
	return hex.EncodeToString(b)
}

// c02.oneshot: (dag ((k i a b) ...)) -> 'ok | ('differs j k i got want-live want-rebuilt) | 'err
func execC02OneShot(in sx.V) sx.V {
	shadow := dagFromSx(in.List[0])
	live, err := buildGo(shadow)
	if err != nil {
		return sx.A("err")
	}
	for j, op := range in.List[1].List {
		k, i := int(op.List[0].U64()), op.List[1].I()
		a, b := op.List[2].U64(), int(op.List[3].U64())
		if i >= len(live) {
			return sx.L(sx.A("harness-error"), sx.Nat(j))
		}
		cell := live[i]
		switch k {
		case 10:
			if cell.WriteUint(a, b) == nil {
				shadow[i].Bits += fmt.Sprintf("%0*b", b, a)
			}
		case 11:
			if cell.WriteBit(a == 1) == nil {
				shadow[i].Bits += string('0' + byte(a&1))
			}
		case 12:
			if cell.WriteBytes(bytes.Repeat([]byte{byte(a)}, b)) == nil {
				shadow[i].Bits += hexBits(bytes.Repeat([]byte{byte(a)}, b))
			}
		case 13:
			leaf := boc.NewCell()
			_ = leaf.WriteUint(a, 8)
			if cell.AddRef(leaf) == nil {
				live = append(live, leaf)
				shadow = append(shadow, Node{Bits: hexBits([]byte{byte(a)})})
				shadow[i].Refs = append(shadow[i].Refs, len(shadow)-1)
			}
		case 14:
			if int(a) > i && int(a) < len(live) && cell.AddRef(live[a]) == nil {
				shadow[i].Refs = append(shadow[i].Refs, int(a))
			}
		case 15:
			_, _ = cell.ReadUint(minInt(cell.BitsAvailableForRead(), b))
		case 16:
			_, _ = cell.NextRef()
		case 17:
			cell.ResetCounters()
		default:
			wants := func() (string, string) {
				wl := c02osWant(cell, k)
				sub, idx := reachable(shadow, i)
				rb, err := buildGo(sub)
				if err != nil {
					return wl, "rebuild-failed"
				}
				return wl, c02osWant(rb[idx], k)
			}
			var got, wl, wr string
			if b%2 == 1 { // the references first
				wl, wr = wants()
				got = c02osCall(cell, k)
			} else {
				got = c02osCall(cell, k)
				wl, wr = wants()
			}
			if got != wl || got != wr {
				return sx.L(sx.A("differs"), sx.Nat(j), sx.Nat(k), sx.Nat(i), sx.Bytes([]byte(trunc(got, 80))), sx.Bytes([]byte(trunc(wl, 80))), sx.Bytes([]byte(trunc(wr, 80))))
			}
		}
	}
	return sx.A("ok")
}

// ------------------------------------------------------------- generator

// what the generator knows about a tree: a spine (path from the top down),
// split into the cells whose hash is expected to fail (too deep) and the
// ordinary cells below them that can be hashed and written to
type c02osTree struct {
	dag   []Node
	spine []int // top .. bottom, ordinary cells only
	nfail int   // the first nfail cells of the spine are too deep
	bits  map[int]int
}

func (t *c02osTree) room(i int) int {
	if _, ok := t.bits[i]; !ok {
		t.bits[i] = len(t.dag[i].Bits)
	}
	return 1023 - t.bits[i]
}

func c02osOp(k, i int, a uint64, b int) sx.V {
	return sx.L(sx.Nat(k), sx.Nat(i), sx.Nat(int(a)), sx.Nat(b))
}

func (t *c02osTree) request(r *prng.R, i int) sx.V {
	k := r.Intn(3)
	if r.Chance(12) {
		k = c02osSign
	}
	if r.Chance(6) {
		k = c02osToBoc
	}
	return c02osOp(k, i, 0, r.Intn(2))
}

// a write (or, rarely, a read) on cell i
func (t *c02osTree) write(r *prng.R, i int) sx.V {
	room := t.room(i)
	switch x := r.Intn(100); {
	case x < 40 && room >= 1:
		w := 1 + r.Intn(minInt(room, 32))
		if r.Chance(40) && room >= 8 {
			w = 8
		}
		t.bits[i] += w
		return c02osOp(10, i, r.U64()&(1<<uint(w)-1), w)
	case x < 55 && room >= 1:
		t.bits[i]++
		return c02osOp(11, i, uint64(r.Intn(2)), 0)
	case x < 65 && room >= 8:
		n := 1 + r.Intn(minInt(room/8, 4))
		t.bits[i] += 8 * n
		return c02osOp(12, i, uint64(r.Intn(256)), n)
	case x < 90 && len(t.dag[i].Refs) < 4:
		t.dag[i].Refs = append(t.dag[i].Refs, -1) // only the count matters here
		return c02osOp(13, i, uint64(r.Intn(256)), 0)
	case x < 94:
		return c02osOp(15, i, 0, r.Intn(20))
	case x < 97:
		return c02osOp(16, i, 0, 0)
	}
	return c02osOp(17, i, 0, 0)
}

// episodes: [a failing request | two | a succeeding one | none], writes into
// cells below the failing depth (boundary, bottom, anywhere), requests for the
// written cell / an enclosing subtree within the limit / a too deep one
func (t *c02osTree) episodes(r *prng.R, count int) []sx.V {
	var ops []sx.V
	ok := t.spine[t.nfail:]
	fail := t.spine[:t.nfail]
	pickOK := func() int { // position in ok
		switch r.Intn(5) {
		case 0:
			return 0 // the topmost cell that still has a hash
		case 1:
			return len(ok) - 1 // the bottom
		case 2:
			return minInt(len(ok)-1, r.Intn(3))
		}
		return r.Intn(len(ok))
	}
	for e := 0; e < count; e++ {
		if len(ok) == 0 {
			break
		}
		switch x := r.Intn(100); {
		case x < 50 && len(fail) > 0:
			ops = append(ops, t.request(r, fail[r.Intn(len(fail))]))
		case x < 65 && len(fail) > 0:
			ops = append(ops, t.request(r, fail[len(fail)-1]), t.request(r, fail[r.Intn(len(fail))]))
		case x < 85:
			ops = append(ops, t.request(r, ok[pickOK()]))
		}
		w := pickOK()
		for n := 1 + r.Intn(3); n > 0; n-- {
			if r.Chance(30) {
				w = pickOK()
			}
			if r.Chance(8) && len(fail) > 0 {
				ops = append(ops, t.write(r, fail[r.Intn(len(fail))]))
				continue
			}
			ops = append(ops, t.write(r, ok[w]))
		}
		for n := 1 + r.Intn(3); n > 0; n-- {
			switch x := r.Intn(100); {
			case x < 40:
				ops = append(ops, t.request(r, ok[w]))
			case x < 75: // an enclosing subtree that is within the limit
				p := r.Intn(w + 1)
				if r.Chance(30) {
					p = 0
				}
				ops = append(ops, t.request(r, ok[p]))
			case x < 85:
				ops = append(ops, t.request(r, ok[w+r.Intn(len(ok)-w)]))
			case len(fail) > 0:
				ops = append(ops, t.request(r, fail[r.Intn(len(fail))]))
			default:
				ops = append(ops, t.request(r, ok[pickOK()]))
			}
		}
	}
	return ops
}

func c02osSpineTree(dag []Node, spine []int, nfail int) *c02osTree {
	cp := make([]Node, len(dag))
	for i, nd := range dag {
		cp[i] = nd
		cp[i].Refs = append([]int(nil), nd.Refs...)
	}
	return &c02osTree{dag: cp, spine: spine, nfail: nfail, bits: map[int]int{}}
}

func seqInts(from, to int) []int {
	var s []int
	for i := from; i < to; i++ {
		s = append(s, i)
	}
	return s
}

func c02osRun(c *Ctx, dag []Node, ops []sx.V, class string) {
	in := sx.L(dagSx(dag), sx.L(ops...))
	out := safeExec("c02.oneshot", in)
	c.Note("c02.oneshot", class, in)
	if out.String() == "'ok" {
		return
	}
	what := "a history of one-shot requests (Cell.Hash / Hash256 / HashString / Sign / ToBoc) and writes: " + trunc(out.String(), 400)
	if out.K == sx.KL && len(out.List) == 7 {
		j, k, i := out.List[1].I(), out.List[2].I(), out.List[3].I()
		name := []string{"Hash", "Hash256", "HashString", "Sign", "ToBoc"}[k%5]
		what = fmt.Sprintf("step %d: Cell.%s of cell %d answers %s; a fresh Hasher on the same cell answers %s, on an independently rebuilt identical cell %s (steps before: %s)",
			j, name, i, out.List[4].Bytes, out.List[5].Bytes, out.List[6].Bytes, trunc(sx.L(ops[:j]...).String(), 300))
		if j < len(ops) {
			what = trunc(what, 900)
		}
	}
	c.Fail("c02.oneshot", in, "oneshot-history", what)
}

func genC02OneShot(c *Ctx) {
	r := c.R.Fork(0x0208) // own stream: the other families keep their cases
	// A. real chains deeper than 1024 (with side branches)
	for i := 0; i < c.Scale(6, 80); i++ {
		n := 1026 + r.Intn(5)
		if r.Chance(40) {
			n = 1031 + r.Intn(60)
		}
		dag := chainDag(r, n, true)
		t := c02osSpineTree(dag, seqInts(0, n), n-1025)
		c02osRun(c, dag, t.episodes(r, 2+r.Intn(4)), "deep-chain")
	}
	// B. the limit reached by a pruned branch storing a depth near 1024 under
	// a short chain, alone or hung into a small DAG
	for i := 0; i < c.Scale(80, 2500); i++ {
		k := 2 + r.Intn(8)
		top := 1025 + r.Intn(4) // depth of the top of the tail: fails
		if r.Chance(15) {
			top = 1022 + r.Intn(3) // nothing fails
		}
		d := top - k
		tail := deepTail(r, k, d)
		// cell j of the tail has depth d + (k - j): it fails iff that is > 1024
		nfail := 0
		for j := 0; j < k; j++ {
			if d+k-j > 1024 {
				nfail++
			}
		}
		if i%3 != 0 {
			ruleMasks(tail)
			t := c02osSpineTree(tail, seqInts(0, k), nfail)
			c02osRun(c, tail, t.episodes(r, 1+r.Intn(4)), fmt.Sprintf("deep-pruned|top%s", depthBucket(top)))
			continue
		}
		dag := randDag(r, 1+r.Intn(6))
		var cand []int
		for j, nd := range dag {
			if len(nd.Refs) < 3 && len(nd.Bits) < 900 {
				cand = append(cand, j)
			}
		}
		if len(cand) == 0 {
			continue
		}
		at := cand[r.Intn(len(cand))]
		base := len(dag)
		dag = attach(dag, at, tail)
		ruleMasks(dag)
		// spine: the cells from `at` (too deep as well) down the tail
		spine := append([]int{at}, seqInts(base, base+k)...)
		t := c02osSpineTree(dag, spine, nfail+1)
		if d+k+1 <= 1024 {
			t.nfail = 0
		}
		c02osRun(c, dag, t.episodes(r, 1+r.Intn(4)), fmt.Sprintf("sub-branch|top%s", depthBucket(top+1)))
	}
	// C. two chains within the limit; an AddRef in the middle of the history
	// joins them into a tree above it
	for i := 0; i < c.Scale(4, 60); i++ {
		na := 500 + r.Intn(500)
		nb := 1030 - na + r.Intn(40)
		if nb < 2 {
			nb = 2
		}
		dag := chainDag(r, na, false)
		b := chainDag(r, nb, false)
		for _, nd := range b {
			cp := Node{Bits: nd.Bits}
			for _, x := range nd.Refs {
				cp.Refs = append(cp.Refs, x+na)
			}
			dag = append(dag, cp)
		}
		// before: both trees answer
		ta := c02osSpineTree(dag, seqInts(0, na), 0)
		tb := c02osSpineTree(dag, seqInts(na, na+nb), 0)
		ops := ta.episodes(r, 1+r.Intn(2))
		ops = append(ops, tb.episodes(r, 1)...)
		x := na - 1 - r.Intn(3) // where B is hung
		ops = append(ops, c02osOp(14, x, uint64(na), 0))
		// after: spine 0..x, then B; cell j of A (j <= x) has depth (x - j) + nb
		spine := append(seqInts(0, x+1), seqInts(na, na+nb)...)
		nfail := 0
		for j := 0; j <= x; j++ {
			if x-j+nb > 1024 {
				nfail++
			}
		}
		tj := c02osSpineTree(dag, spine, nfail)
		tj.bits = map[int]int{}
		for k2, v := range ta.bits {
			tj.bits[k2] = v
		}
		for k2, v := range tb.bits {
			tj.bits[k2] = v
		}
		for j := range dag { // reference counts as the two earlier phases left them
			if len(ta.dag[j].Refs) > len(tj.dag[j].Refs) {
				tj.dag[j].Refs = ta.dag[j].Refs
			}
			if len(tb.dag[j].Refs) > len(tj.dag[j].Refs) {
				tj.dag[j].Refs = tb.dag[j].Refs
			}
		}
		tj.dag[x].Refs = append(tj.dag[x].Refs, -1)
		ops = append(ops, tj.episodes(r, 2+r.Intn(3))...)
		c02osRun(c, dag, ops, "joined-chains")
	}
}
