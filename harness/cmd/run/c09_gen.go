package main

// C09: the generator (one PRNG: c.R and forks of it).

import (
	"bytes"
	"fmt"
	"go/format"
	"os"
	"os/exec"
	"path/filepath"
	"sort"
	"strings"
	"sync"
	"time"

	"github.com/tonkeeper/tongo/utils"

	tlbparser "github.com/tonkeeper/tongo/tlb/parser"

	"verifharness/prng"
	"verifharness/sx"
	"verifharness/tlx"
)

func c09Camel(s string) string { return utils.ToCamelCase(s) }

// ('bare x<c>) -> CamelC, ('boxed x<T>) -> Camel, ('args x<f>) -> CamelRequest
func c09TargetGoType(t sx.V) string {
	if t.K != sx.KL || len(t.List) != 2 || t.List[1].K != sx.KBytes {
		return "?"
	}
	n := c09Camel(string(t.List[1].Bytes))
	switch t.List[0].Atom {
	case "bare":
		return n + "C"
	case "boxed":
		return n
	case "args":
		return n + "Request"
	}
	return "?"
}

func c09TlAnswer(v sx.V) sx.V { return v }

// ---------------------------------------------------------------- sub-schemas (what a case carries)

func tlRefs(t tlTy, acc map[string]bool) {
	switch t.k {
	case "vector":
		tlRefs(*t.elem, acc)
	case "bare", "boxed":
		acc[t.k+" "+t.ref] = true
	}
}

// closure: indices of the type declarations reachable from the given fields (and result types)
func (s *tlSchema) closure(fields []tlField, results []string) map[int]bool {
	keep := map[int]bool{}
	var work []tlField
	work = append(work, fields...)
	addRes := func(res string) {
		for i, d := range s.types {
			if d.res == res && !keep[i] {
				keep[i] = true
				work = append(work, d.fields...)
			}
		}
	}
	for _, r := range results {
		addRes(r)
	}
	for len(work) > 0 {
		f := work[0]
		work = work[1:]
		acc := map[string]bool{}
		tlRefs(f.ty, acc)
		for k := range acc {
			parts := strings.SplitN(k, " ", 2)
			if parts[0] == "boxed" {
				addRes(parts[1])
			} else if d := s.ctor(parts[1]); d != nil {
				addRes(d.res)
			}
		}
	}
	return keep
}

func c09DeclsOf(text string) (types, funcs []tlx.Decl) { return tlx.ParseSchema(text) }

// ---------------------------------------------------------------- classes

func tlFieldClass(fs []tlField) string {
	var c []string
	has := map[string]bool{}
	for _, f := range fs {
		if f.hasCond {
			switch {
			case f.bit == 0:
				has["bit0"] = true
			case f.bit == 31:
				has["bit31"] = true
			default:
				has["bitN"] = true
			}
			if f.ty.k == "true" {
				has["true"] = true
			}
		}
		switch f.ty.k {
		case "vector":
			has["vec"] = true
		case "bare", "boxed":
			has["nested"] = true
		case "bytes", "string":
			has["bytes"] = true
		}
	}
	for _, k := range []string{"bit0", "bit31", "bitN", "true", "vec", "nested", "bytes"} {
		if has[k] {
			c = append(c, k)
		}
	}
	if len(fs) == 0 {
		return "empty"
	}
	if len(c) == 0 {
		return "plain"
	}
	if len(c) > 3 {
		c = c[:3]
	}
	return strings.Join(c, "+")
}

// ---------------------------------------------------------------- the generator

func genC09(c *Ctx) {
	out := c09OutDir()
	if out == "" {
		out = os.TempDir()
	}
	nTl, nTlb := c.Scale(10, 100), c.Scale(10, 100)
	nExp := c.Scale(6, 40)
	mark := func(what string) sx.V { return sx.L(sx.A("c09"), sx.Str(what)) }

	s, err := c09NewSession()
	if err != nil {
		c.Fail("c09.build", mark("scratch"), "c09-scratch", "no scratch directory: "+err.Error())
		return
	}
	defer s.close()

	// 1. schemas
	sizes := []int{1, 2, 3, 5, 8, 12, 20, 30, 40}
	for i := 0; i < nTl; i++ {
		size := sizes[c.R.Intn(len(sizes))]
		if i == 0 {
			size = 40
		} else if i == 1 {
			size = 1
		}
		if !c.Thorough() && i > 1 && size > 20 {
			size = 12
		}
		sc := genTlSchema(c.R.Fork(uint64(1000+i)), size)
		s.progs = append(s.progs, &c09Prog{kind: "tl", pkg: fmt.Sprintf("tl%d", i), text: sc.text(), tl: sc})
	}
	ab := genTlAllBits()
	s.progs = append(s.progs, &c09Prog{kind: "tl", pkg: "tlbits", text: ab.text(), tl: ab})
	th := genTlThresholds()
	s.progs = append(s.progs, &c09Prog{kind: "tl", pkg: "tlvec", text: th.text(), tl: th})
	for i := 0; i < nExp; i++ {
		sc := genTlExplore(c.R.Fork(uint64(5000+i)), 2+c.R.Intn(6))
		s.progs = append(s.progs, &c09Prog{kind: "tl", pkg: fmt.Sprintf("tlx%d", i), text: sc.text(), tl: sc, explore: sc.explore})
	}
	for i := 0; i < nTlb; i++ {
		size := 1 + c.R.Intn(8)
		sc := genTlbSchema(c.R.Fork(uint64(9000+i)), size)
		s.progs = append(s.progs, &c09Prog{kind: "tlb", pkg: fmt.Sprintf("tlb%d", i), text: sc.text(), tlb: sc,
			descs: map[string][2]string{}, opaque: map[string]string{}, refines: map[string]bool{}, parts: map[string]string{}})
	}
	fo := genTlbForms()
	s.progs = append(s.progs, &c09Prog{kind: "tlb", pkg: "tlbforms", text: fo.text(), tlb: fo,
		descs: map[string][2]string{}, opaque: map[string]string{}, refines: map[string]bool{}, parts: map[string]string{}})
	pr := genTlbPrims()
	s.progs = append(s.progs, &c09Prog{kind: "tlb", pkg: "tlbprims", text: pr.text(), tlb: pr,
		descs: map[string][2]string{}, opaque: map[string]string{}, refines: map[string]bool{}, parts: map[string]string{}})
	for i := 0; i < nExp; i++ {
		sc := genTlbExplore(c.R.Fork(uint64(13000+i)), 1+c.R.Intn(3))
		s.progs = append(s.progs, &c09Prog{kind: "tlb", pkg: fmt.Sprintf("tlbx%d", i), text: sc.text(), tlb: sc, explore: sc.explore,
			descs: map[string][2]string{}, opaque: map[string]string{}, refines: map[string]bool{}, parts: map[string]string{}})
	}

	c09R8Progs(c, s) // schema shapes of round 8: dictionaries x value modifiers, the whole lexical class of TL identifiers

	c09Builtin(c)
	tools := c09Tools()
	defer func() {
		for _, r := range <-tools {
			in := sx.L(sx.A("tool"), sx.Str(r.tool))
			if r.fail != "" {
				c.Fail("c09.save", in, "c09-tool-"+strings.ReplaceAll(r.tool, "/", "-"), "command-line emitter "+r.tool+": "+r.fail)
			} else {
				c.Note("c09.save", "tool|"+r.tool+"|over-longer-file-equals-fresh-directory", in)
			}
		}
	}()

	// 2. generators (three runs each), scratch module, build
	for _, p := range s.progs {
		p.generate()
	}
	sequentialOK := true
	for _, p := range s.progs {
		sequentialOK = sequentialOK && !(p.nondet && p.explore == "")
	}
	if sequentialOK { // a shared table written concurrently would kill the process before the schema is named
		c09Concurrent(s.progs, 8)
	}
	if err := s.build(); err != nil {
		c.Fail("c09.build", mark("build"), "c09-scratch-build", err.Error())
		return
	}
	observe := func(p *c09Prog, outcome string) {
		c.Note("c09.explore", p.kind+"|"+p.explore+"|"+outcome, sx.Str(p.text))
	}
	for _, p := range s.progs {
		in := sx.L(sx.A(p.kind), sx.Str(p.text))
		switch {
		case p.explore != "" && p.genErr != "":
			observe(p, "generator-error")
		case p.explore != "" && p.bldErr != "":
			observe(p, "compile-error")
		case p.genErr != "":
			c.Fail("c09.generate", in, "c09-"+p.kind+"-generate", "the generator fails on a schema of the supported subset: "+p.genErr)
		case p.bldErr != "":
			c.Fail("c09.build", in, "c09-"+p.kind+"-compile", "generated code does not compile: "+trunc(p.bldErr, 500))
		}
		// a fresh process (the compiled scratch driver links the same generators) must produce the same text
		if p.ok() && !p.nondet {
			a := s.ask(sx.L(sx.A("gen"), sx.A(p.kind), sx.A(p.pkg), sx.Str(p.text)))
			if a.K != sx.KBytes || string(a.Bytes) != p.body {
				p.nondet, p.nondetHow = true, "a fresh process generates different output: "+trunc(a.String(), 120)
			}
		}
		if p.saveErr != "" {
			if p.explore != "" {
				observe(p, "file-save-differs")
			} else {
				c.Fail("c09.save", in, "c09-tlb-file-save", "tlb/parser.File.Save: the file is not the rendering of the last schema alone: "+p.saveErr)
			}
		} else if p.kind == "tlb" && p.ok() && p.explore == "" {
			c.Note("c09.save", "tlb|File.Save|"+p.saveHistory+"|equals-fresh-path-save-and-compiles", in)
		}
		if p.nondet {
			if p.explore != "" {
				observe(p, "nondeterministic-output")
			} else {
				c.Fail("c09.determinism", in, "c09-"+p.kind+"-nondeterministic", "the generator's output for this schema is not a function of the schema: "+p.nondetHow)
			}
		} else if p.genErr == "" && p.explore == "" {
			c.Note("c09.determinism", p.kind+"|same-output-interleaved-concurrent-fresh-process", in)
		}
	}

	// 3. structure: TL by go/ast, TL-B by reflection in the driver
	for _, p := range s.progs {
		if !p.ok() {
			continue
		}
		if p.kind == "tl" {
			p.types, p.funcs = c09DeclsOf(p.text)
			coq, ms, err := tlx.Extract([]string{filepath.Join(s.dir, p.pkg, "generated.go")}, p.pkg)
			if err != nil {
				p.xErr = err.Error()
				continue
			}
			p.coq, p.methods = coq, ms
			continue
		}
		for _, n := range p.names {
			d := s.ask(sx.L(sx.A("tlb.d"), sx.A(p.pkg), sx.A(n)))
			switch {
			case d.Head() == "opaque":
				p.opaque[n] = string(d.List[1].Bytes)
			case d.K == sx.KL && len(d.List) == 2 && d.List[1].K == sx.KBytes:
				p.descs[n] = [2]string{d.List[0].String(), string(d.List[1].Bytes)}
			default:
				p.opaque[n] = "driver: " + trunc(d.String(), 100)
			}
		}
	}

	// 4. Coq: the checkers, by vm_compute, on every program
	var tlProgs, tlbProgs []*c09Prog
	for _, p := range s.progs {
		if !p.ok() || p.xErr != "" {
			continue
		}
		if p.kind == "tl" {
			tlProgs = append(tlProgs, p)
		} else if len(p.descs) > 0 {
			tlbProgs = append(tlbProgs, p)
		}
	}
	var coqFails []string
	var wg sync.WaitGroup
	var mu sync.Mutex
	batch := func(stem string, ps []*c09Prog, size int) {
		for i := 0; i < len(ps); i += size {
			j := i + size
			if j > len(ps) {
				j = len(ps)
			}
			wg.Add(1)
			go func(k int, part []*c09Prog) {
				defer wg.Done()
				var f []string
				c09RunCoq(out, fmt.Sprintf("%s%d", stem, k), part, &f)
				mu.Lock()
				coqFails = append(coqFails, f...)
				mu.Unlock()
			}(i/size, ps[i:j])
		}
	}
	batch("C09Tl", tlProgs, 10)
	batch("C09Tlb", tlbProgs, 25)
	wg.Wait()
	sort.Strings(coqFails)

	tlParts := []string{"ids_distinct", "decls_ok", "matches_all", "types_served", "no_stray", "methods_ok", "table_ok", "error_declared"}
	for _, p := range s.progs {
		if !p.ok() {
			continue
		}
		in := sx.L(sx.A(p.kind), sx.Str(p.text))
		if p.kind == "tl" {
			switch {
			case p.xErr != "":
				if p.explore != "" {
					observe(p, "extractor-error")
				} else {
					c.Fail("c09.check", in, "c09-tl-extract", "generated code does not parse: "+p.xErr)
				}
			case !p.checked:
				if p.explore != "" {
					observe(p, "checker-did-not-run")
				} else {
					c.Fail("c09.check", in, "c09-tl-coqc", "coqc gave no verdict for this program: "+strings.Join(coqFails, " ; "))
				}
			default:
				var bad []string
				for i, b := range p.check {
					if !b && i < len(tlParts) {
						bad = append(bad, tlParts[i])
					}
				}
				switch {
				case p.explore != "" && len(bad) == 0:
					observe(p, "compiles-checker-accepts")
				case p.explore != "":
					observe(p, "compiles-checker-rejects:"+strings.Join(bad, ","))
				case len(bad) > 0:
					c.Fail("c09.check", in, "c09-tl-checker", "the code generated for this schema does not pass the proved checker (tl_check): "+strings.Join(bad, ", ")+" = false")
				default:
					c.Note("c09.check", fmt.Sprintf("tl|decls-%s|checked", c09Bucket(len(p.tl.types)+len(p.tl.funcs))), in)
				}
			}
			continue
		}
		// TL-B: every generated type
		for _, n := range p.names {
			tin := sx.L(sx.A("tlb"), sx.A(n), sx.Str(p.text))
			d := p.tlb.byGo(n)
			if why, isOpaque := p.opaque[n]; isOpaque {
				if p.explore != "" || d == nil {
					observe(p, "no-descriptor")
				} else {
					c.Fail("c09.check", tin, "c09-tlb-opaque", "no descriptor for generated type "+n+": "+why)
				}
				continue
			}
			if d == nil {
				if p.explore != "" && strings.HasPrefix(n, "Exp") {
					observe(p, "compiles")
				}
				continue
			}
			r, ok := p.refines[n]
			switch {
			case !ok:
				if p.explore != "" {
					observe(p, "checker-did-not-run")
				} else {
					c.Fail("c09.check", tin, "c09-tlb-coqc", "coqc gave no verdict for "+n+": "+strings.Join(coqFails, " ; "))
				}
			case p.explore != "":
				if d == p.tlb.exp {
					observe(p, "compiles-"+strings.ReplaceAll(p.parts[n], " ", "-"))
				}
			case !r:
				c.Fail("c09.check", tin, "c09-tlb-checker", "the Go type generated for "+n+" does not pass tlb_check ("+p.parts[n]+"): descriptor "+p.descs[n][1]+" / schema "+p.tlb.specDecl(d).coq)
			default:
				c.Note("c09.check", "tlb|"+c09TlbClass(d)+"|checked", tin)
			}
		}
	}

	defer c09R8Dicts(c, s, out)() // dictionary value types against the schema (coqc overlaps step 5)

	// 5. differential execution behind the checkers
	for pi, p := range s.progs {
		if !p.ok() || p.explore != "" {
			continue
		}
		r := c.R.Fork(uint64(20000 + pi))
		if p.kind == "tl" {
			c09TlValues(c, s, p, r)
			if p.pkg == "tlvec" {
				t0 := time.Now()
				c09TlThresholds(c, s, p, r)
				if os.Getenv("VERIF_C09_DEBUG") != "" {
					fmt.Fprintf(os.Stderr, "thresholds: %v\n", time.Since(t0))
				}
			}
		} else {
			c09TlbValues(c, s, p, r.U64())
		}
	}
}

func c09Bucket(n int) string {
	switch {
	case n <= 1:
		return "1"
	case n <= 5:
		return "2-5"
	case n <= 12:
		return "6-12"
	case n <= 25:
		return "13-25"
	}
	return "26-40"
}

func c09TlbClass(d *bD) string {
	has := map[string]bool{}
	var walk func(t *bT)
	walk = func(t *bT) {
		if t == nil {
			return
		}
		for _, f := range t.fields {
			if f.unnamed {
				has["unnamed"] = true
			}
		}
		switch t.k {
		case "uint", "int", "nn":
			if t.n > 64 {
				has["bigint"] = true
			} else {
				has["int"] = true
			}
		case "named":
			has["nested"] = true
		default:
			has[t.k] = true
		}
		if t.a != nil {
			walk(t.a)
		}
		if t.b != nil {
			walk(t.b)
		}
		for _, f := range t.fields {
			walk(f.t)
		}
	}
	for i := range d.ctors {
		for _, f := range d.ctors[i].fields {
			if f.unnamed {
				has["unnamed"] = true
			}
			if f.implicit != "" {
				has["implicit"] = true
			}
			walk(f.t)
		}
	}
	var ks []string
	for _, k := range []string{"unnamed", "implicit", "anon", "maybe", "mayberef", "either", "eitherref", "ref", "refanon", "dict", "var", "bits", "cell", "nested"} {
		if has[k] {
			ks = append(ks, k)
		}
	}
	if len(ks) > 2 {
		ks = ks[:2]
	}
	shape := "single"
	if len(d.ctors) > 1 {
		shape = "sum"
	} else if d.msg {
		shape = "msg"
	} else if d.ctors[0].prefix != "" {
		shape = "tagged"
	}
	if len(ks) == 0 {
		return shape + "|prims"
	}
	return shape + "|" + strings.Join(ks, "+")
}

// ---------------------------------------------------------------- TL values

func c09SubSchema(p *c09Prog, keep map[int]bool) (sx.V, []tlx.Decl) {
	var ds []tlx.Decl
	for i, d := range p.types {
		if keep[i] {
			ds = append(ds, d)
		}
	}
	return tlx.DeclsSx(ds), ds
}

func c09TlValues(c *Ctx, s *c09Session, p *c09Prog, r *prng.R) {
	sc := p.tl
	if len(p.types) != len(sc.types) || len(p.funcs) != len(sc.funcs) {
		c.Fail("c09.tl", sx.Str(p.text), "c09-harness-schema-parser", "the line parser and the schema generator disagree on the number of declarations")
		return
	}
	g := &tlValGen{r: r, s: sc, big: 12, maxV: c.Scale(8, 30)}
	per := c.Scale(5, 8)
	if len(sc.types) > 20 {
		per = c.Scale(3, 5)
	}
	emit := func(kind string, in sx.V, req sx.V, class string, value sx.V) {
		ans := s.ask(req)
		c09Cache[kind+" "+in.String()] = ans
		c.Emit(kind, in, class)
		delete(c09Cache, kind+" "+in.String())
		// property oracle, directly on the compiled code: decode inverts encode
		if kind == "c09.tl" && ans.K == sx.KL && len(ans.List) == 3 {
			if ans.List[1].String() != value.String() {
				c.Fail(kind, in, "c09-tl-roundtrip", "UnmarshalTL(MarshalTL(v)) differs from v: "+trunc(ans.List[1].String(), 200))
			}
		} else if kind == "c09.tl" && !ans.IsA("err") {
			c.Fail(kind, in, "c09-tl-driver", "the compiled code answered "+trunc(ans.String(), 200))
		}
	}
	seen := map[string]bool{}
	for _, d := range sc.types {
		if seen[d.res] {
			continue
		}
		seen[d.res] = true
		cs := sc.ctorsOf(d.res)
		var target sx.V
		var ty tlTy
		class := ""
		if len(cs) == 1 {
			target, ty = sx.L(sx.A("bare"), sx.Str(d.name)), tlTy{k: "bare", ref: d.name}
			class = "single|" + tlFieldClass(d.fields)
		} else {
			target, ty = sx.L(sx.A("boxed"), sx.Str(d.res)), tlTy{k: "boxed", ref: d.res}
			class = fmt.Sprintf("sum%d", len(cs))
		}
		keep := sc.closure(nil, []string{d.res})
		types, _ := c09SubSchema(p, keep)
		nvals := per
		if len(cs) > nvals {
			nvals = len(cs)
		}
		for i := 0; i < nvals; i++ {
			v := g.value(ty, 0)
			if len(cs) > 1 { // every constructor of the type in turn (chosen from the schema)
				k := cs[i%len(cs)]
				v = g.record(utils.ToCamelCase(k.name), k.fields, 0)
			}
			junk := []byte{}
			if i%2 == 1 {
				junk = r.Bytes(1 + r.Intn(9))
			}
			in := sx.L(types, sx.L(), target, v, sx.Bytes(junk))
			emit("c09.tl", in, sx.L(sx.A("tl.m"), sx.A(p.pkg), sx.A(c09TargetGoType(target)), v, sx.Bytes(junk)), "tl|"+class, v)
		}
	}
	errDecl := sc.ctor("liteServer.error")
	for fi, f := range sc.funcs {
		keep := sc.closure(f.fields, []string{f.res, "liteServer.Error"})
		types, _ := c09SubSchema(p, keep)
		funcs := sx.L(tlx.DeclSx(p.funcs[fi]))
		rcs := sc.ctorsOf(f.res)
		resClass := "single-result"
		if len(rcs) > 1 {
			resClass = "sum-result"
		}
		// request arguments on their own
		if len(f.fields) > 0 {
			for i := 0; i < c.Scale(2, 4); i++ {
				v := g.record("_", f.fields, 0)
				target := sx.L(sx.A("args"), sx.Str(f.name))
				in := sx.L(types, funcs, target, v, sx.Bytes(nil))
				emit("c09.tl", in, sx.L(sx.A("tl.m"), sx.A(p.pkg), sx.A(c09TargetGoType(target)), v, sx.Bytes(nil)), "tl|args|"+tlFieldClass(f.fields), v)
			}
		}
		// the request method against canned responses
		respTy := tlTy{k: "boxed", ref: f.res}
		for i := 0; i < c.Scale(4, 8); i++ {
			var rv sx.V = sx.A("none")
			if len(f.fields) > 0 {
				rv = g.record("_", f.fields, 0)
			}
			var resp []byte
			rclass := ""
			boxed := func(d *tlDecl, v sx.V) []byte {
				a := s.ask(sx.L(sx.A("tl.m"), sx.A(p.pkg), sx.A(c09GoTypeOf(sc, d)), v, sx.Bytes(nil)))
				if a.K != sx.KL || len(a.List) != 3 || a.List[0].K != sx.KBytes {
					return nil
				}
				if len(sc.ctorsOf(d.res)) > 1 {
					return a.List[0].Bytes // a sum writes its own id
				}
				id := []byte{byte(d.id), byte(d.id >> 8), byte(d.id >> 16), byte(d.id >> 24)}
				return append(id, a.List[0].Bytes...)
			}
			switch i % 4 {
			case 0, 1:
				rclass = "result"
				resp = boxed(&rcs[0], g.value(respTy, 1))
			case 2:
				rclass = "lserror"
				resp = boxed(errDecl, g.value(tlTy{k: "bare", ref: "liteServer.error"}, 1))
			default:
				full := boxed(&rcs[0], g.value(respTy, 1))
				switch r.Intn(4) {
				case 0:
					rclass, resp = "short", full[:r.Intn(4)]
				case 1:
					rclass = "truncated"
					if len(full) > 4 {
						resp = full[:4+r.Intn(len(full)-4)]
					} else {
						resp = full[:2]
					}
				case 2:
					rclass = "foreign-tag"
					resp = append([]byte{0x01, 0x02, 0x03, 0x04}, full...)
				default:
					rclass = "trailing"
					resp = append(append([]byte{}, full...), r.Bytes(1+r.Intn(8))...)
				}
			}
			in := sx.L(types, funcs, sx.Str(f.name), rv, sx.Bytes(resp))
			req := sx.L(sx.A("tl.req"), sx.A(p.pkg), sx.A(c09Camel(f.name)), rv, sx.Bytes(resp))
			ans := s.ask(req)
			c09Cache["c09.tlreq "+in.String()] = ans
			c.Emit("c09.tlreq", in, "tlreq|"+resClass+"|"+rclass)
			delete(c09Cache, "c09.tlreq "+in.String())
			if ans.K == sx.KL && len(ans.List) == 3 && ans.List[2].K == sx.KB && !ans.List[2].Bool {
				c.Fail("c09.tlreq", in, "c09-tl-request-decoder", "taggedRequestDecodeFunctions does not decode the payload of "+f.name+" back to the request")
			}
		}
	}
}

// Go type under which a constructor is marshalled on its own
func c09GoTypeOf(sc *tlSchema, d *tlDecl) string {
	if len(sc.ctorsOf(d.res)) == 1 {
		return c09Camel(d.name) + "C"
	}
	return c09Camel(d.res)
}

// ---------------------------------------------------------------- TL-B values

func c09TlbValues(c *Ctx, s *c09Session, p *c09Prog, seed uint64) {
	per := c.Scale(6, 12)
	for _, n := range p.tlbItems() {
		d := p.tlb.byGo(n)
		if d == nil || !p.refines[n] {
			continue
		}
		spec := p.tlb.specDecl(d)
		desc, err := sx.Parse(p.descs[n][0])
		if err != nil {
			continue
		}
		// the values are built inside the compiled driver (tlbdesc.Rand on the Go type); which
		// alternatives they select is decided here from the schema: more batches are drawn until
		// every Maybe was absent and present, every Either left and right, every constructor chosen
		want, got := map[string]bool{}, map[string]bool{}
		p.tlb.walkDecl(d, nil, "", want)
		for k := range want { // alternatives below three nested choices multiply beyond any value budget
			if strings.Count(k, "?")+strings.Count(k, "|")+strings.Count(k, "#") > 3 {
				delete(want, k)
			}
		}
		vals := sx.L()
		covered := false
		for batch := 0; batch < 8 && !covered; batch++ {
			more := s.ask(sx.L(sx.A("tlb.r"), sx.A(p.pkg), sx.A(n), sx.N((seed+uint64(batch)*0x9e3779b9)&0xffffffffffff), sx.Nat(per)))
			if more.K != sx.KL {
				vals = more
				break
			}
			for i := range more.List {
				before := len(got)
				p.tlb.walkDecl(d, &more.List[i], "", got)
				if batch == 0 || len(got) > before {
					vals.List = append(vals.List, more.List[i])
				}
			}
			covered = true
			for k := range want {
				covered = covered && got[k]
			}
		}
		if vals.K == sx.KL {
			if covered {
				c.Note("c09.coverage", "tlb|every-alternative-to-depth-3-selected", sx.L(sx.A("tlb"), sx.A(n), sx.Str(p.text)))
			} else {
				c.Note("c09.coverage", "tlb|some-alternative-to-depth-3-not-selected-in-8-batches", sx.L(sx.A("tlb"), sx.A(n), sx.Str(p.text)))
				if os.Getenv("VERIF_C09_DEBUG") != "" {
					var miss []string
					for k := range want {
						if !got[k] {
							miss = append(miss, k)
						}
					}
					sort.Strings(miss)
					fmt.Fprintf(os.Stderr, "uncovered %s.%s: %v\n   %s\n", p.pkg, n, miss, p.tlb.byGo(n).text())
				}
			}
		}
		class := "tlb|" + c09TlbClass(d)
		for _, v := range vals.List {
			in := sx.L(sx.Str(p.text), sx.A(n), spec.sx, desc, v)
			ans := s.ask(sx.L(sx.A("tlb.e"), sx.A(p.pkg), sx.A(n), v))
			c09Cache["c09.tlb "+in.String()] = ans
			c.Emit("c09.tlb", in, class)
			delete(c09Cache, "c09.tlb "+in.String())
			if ans.K == sx.KL && len(ans.List) == 2 {
				if ans.List[1].String() != v.String() {
					c.Fail("c09.tlb", in, "c09-tlb-roundtrip", "tlb.Unmarshal(tlb.Marshal(v)) differs from v: "+trunc(ans.List[1].String(), 200))
				}
			} else if !ans.IsA("err") {
				c.Fail("c09.tlb", in, "c09-tlb-driver", "the compiled code answered "+trunc(ans.String(), 200))
			}
		}
	}
}

// c09Builtin: tlb/generator.go through the library: the four builtin generators
// are deterministic and tlb/integers.go (the UintN / IntN / VarUIntegerN / BitsN
// the generated structs are made of) is what they produce today.
func c09Builtin(c *Ctx) {
	mark := sx.L(sx.A("regenerate"), sx.Str("tlb/integers.go"))
	gen := func() (out string, ok bool) {
		defer func() {
			if r := recover(); r != nil {
				ok = false
			}
		}()
		tlx.Quiet(func() {
			out = tlbparser.GenerateVarUintTypes(32) + tlbparser.GenerateConstantInts(64) +
				tlbparser.GenerateConstantBigInts([]int{128, 256, 257}) + tlbparser.GenerateBitsTypes([]int{80, 96, 128, 256, 264, 320, 352, 512})
		})
		return out, true
	}
	a, ok1 := gen()
	b, ok2 := gen()
	if !ok1 || !ok2 {
		c.Fail("c09.builtin", mark, "c09-tlb-builtin-panic", "the builtin type generators panic")
		return
	}
	if a != b {
		c.Fail("c09.determinism", mark, "c09-tlb-builtin-nondeterministic", "two runs of the builtin type generators differ")
		return
	}
	const header = "package tlb\n// Code autogenerated. DO NOT EDIT. \n\nimport (\n\t\"bytes\"\n\t\"encoding/hex\"\n\t\"fmt\"\n\t\"math/big\"\n\t\"strconv\"\n\t\"strings\"\n\n\t\"github.com/tonkeeper/tongo/boc\"\n)\n"
	got, err := format.Source([]byte(header + a))
	want, err2 := os.ReadFile(filepath.Join(c09Repo(), "tlb", "integers.go"))
	if err != nil || err2 != nil || !bytes.Equal(got, want) {
		c.Fail("c09.builtin", mark, "c09-tlb-builtin-artifact", "tlb/integers.go is not what the builtin generators of tlb/parser produce")
		return
	}
	c.Note("c09.builtin", "tlb|integers.go-reproduced", mark)
}

// c09Tools: the three command-line emitters of the generators (the only other
// places that write generated code to disk): liteclient/generator.go
// (generated.go), tlb/generator.go (integers.go), tlb/generator-config.go
// (config.go, through File.Save).  Each is run in a scratch module twice: into
// an empty directory, and into a directory where a LONGER file of that name
// already exists.  Oracle: both runs leave the same file.  Started at the
// beginning of the run, collected at the end (overlaps everything else).
type c09ToolResult struct{ tool, fail string }

func c09Tools() chan []c09ToolResult {
	ch := make(chan []c09ToolResult, 1)
	go func() {
		repo := c09Repo()
		tools := []struct{ dir, src, input, output string }{
			{"liteclient", "generator.go", "lite_api.tl", "generated.go"},
			{"tlb", "generator.go", "", "integers.go"},
			{"tlb", "generator-config.go", "config.tlb", "config.go"},
		}
		var mu sync.Mutex
		var out []c09ToolResult
		var wg sync.WaitGroup
		for _, t := range tools {
			wg.Add(1)
			go func(dir, src, input, output string) {
				defer wg.Done()
				name := dir + "/" + src
				res := c09ToolResult{tool: name}
				defer func() { mu.Lock(); out = append(out, res); mu.Unlock() }()
				run := func(prefill bool) ([]byte, string) {
					tmp, err := os.MkdirTemp("", "c09tool")
					if err != nil {
						return nil, "no scratch directory"
					}
					defer os.RemoveAll(tmp)
					cp := func(from, to string) bool {
						b, err := os.ReadFile(from)
						return err == nil && os.WriteFile(to, b, 0o644) == nil
					}
					gomod := "module c09tool\n\ngo 1.19\n\nrequire github.com/tonkeeper/tongo v0.0.0\n\nreplace github.com/tonkeeper/tongo => " + repo + "\n"
					if os.WriteFile(filepath.Join(tmp, "go.mod"), []byte(gomod), 0o644) != nil ||
						!cp(filepath.Join(repo, "go.sum"), filepath.Join(tmp, "go.sum")) ||
						!cp(filepath.Join(repo, dir, src), filepath.Join(tmp, src)) ||
						(input != "" && !cp(filepath.Join(repo, dir, input), filepath.Join(tmp, input))) {
						return nil, "tool sources not found"
					}
					if prefill {
						old, _ := os.ReadFile(filepath.Join(repo, dir, output))
						old = append(old, []byte(strings.Repeat("\n// left over from an earlier, longer output\ntype C09Stale struct{}\n", 200))...)
						if os.WriteFile(filepath.Join(tmp, output), old, 0o644) != nil {
							return nil, "cannot pre-fill the output"
						}
					}
					cmd := exec.Command("go", "run", src)
					cmd.Dir = tmp
					cmd.Env = c09GoEnv()
					if o, err := cmd.CombinedOutput(); err != nil {
						return nil, "go run " + src + " failed: " + trunc(string(o), 300)
					}
					b, err := os.ReadFile(filepath.Join(tmp, output))
					if err != nil {
						return nil, "the tool wrote no " + output
					}
					return b, ""
				}
				var a, b []byte
				var ea, eb string
				var w2 sync.WaitGroup
				w2.Add(2)
				go func() { defer w2.Done(); a, ea = run(false) }()
				go func() { defer w2.Done(); b, eb = run(true) }()
				w2.Wait()
				switch {
				case ea != "":
					res.fail = ea
				case eb != "":
					res.fail = eb
				case !bytes.Equal(a, b):
					res.fail = fmt.Sprintf("run over an existing longer %s leaves %d bytes, run into an empty directory %d bytes", output, len(b), len(a))
				}
			}(t.dir, t.src, t.input, t.output)
		}
		wg.Wait()
		ch <- out
	}()
	return ch
}

// c09TlThresholds: values across the runtime's thresholds through the compiled
// program `tlvec` (see genTlThresholds) and through the wire-format spec.
func c09TlThresholds(c *Ctx, s *c09Session, p *c09Prog, r *prng.R) {
	sc := p.tl
	g := &tlValGen{r: r, s: sc, big: 0, maxV: 3}
	counts := []int{4095, 4096, 4097, 4098 + r.Intn(3000), 8192, 8193}
	lens := []int{253, 254, 255, 4095, 4096, 4097, 4098 + r.Intn(4000), 65535, 65536}
	pick := func(all []int, k, quick int) []int {
		if c.Thorough() {
			return all
		}
		// quick: one value just above the threshold per kind (what crosses it), further ones rotating
		out := []int{all[2+(int(c.Seed)+k)%2]}
		for i := 1; i < quick; i++ {
			out = append(out, all[(int(c.Seed)+k+i)%len(all)])
		}
		return out
	}
	emit := func(target sx.V, types sx.V, funcs sx.V, v sx.V, junk []byte, class string) sx.V {
		in := sx.L(types, funcs, target, v, sx.Bytes(junk))
		ans := s.ask(sx.L(sx.A("tl.m"), sx.A(p.pkg), sx.A(c09TargetGoType(target)), v, sx.Bytes(junk)))
		c09Cache["c09.tl "+in.String()] = ans
		c.Emit("c09.tl", in, class)
		delete(c09Cache, "c09.tl "+in.String())
		if ans.K == sx.KL && len(ans.List) == 3 {
			if ans.List[1].String() != v.String() || ans.List[2].K != sx.KN || ans.List[2].I() != len(junk) {
				c.Fail("c09.tl", in, "c09-tl-roundtrip", "UnmarshalTL(MarshalTL(v) ++ junk) does not return v and leave the junk: "+trunc(ans.List[1].String(), 120))
			}
		} else {
			c.Fail("c09.tl", in, "c09-tl-driver", "the compiled code answered "+trunc(ans.String(), 200))
		}
		return ans
	}
	rec := func(fs ...sx.V) sx.V { return sx.L(append([]sx.V{sx.A("r"), sx.A("_")}, fs...)...) }
	fld := func(n string, v sx.V) sx.V { return sx.L(sx.A(n), v) }
	typesOf := func(res string) sx.V {
		t, _ := c09SubSchema(p, sc.closure(nil, []string{res, "liteServer.Error"}))
		return t
	}
	// 1. vectors of every element kind
	big := map[string]sx.V{}
	for k, vk := range c09VecKinds {
		res := "x1.Vec" + vk.name
		cs := counts
		if vk.ty.k == "bytes" || vk.ty.k == "string" {
			cs = []int{4095, 4096, 4097, 4098 + r.Intn(50)}
		}
		for _, n := range pick(cs, k, 1) {
			v := rec(fld("V", g.bigVector(vk.ty, n)), fld("Tail", sx.N(0xdeadbeef)))
			emit(sx.L(sx.A("bare"), sx.Str("x1.vec"+vk.name)), typesOf(res), sx.L(), v, r.Bytes(1+r.Intn(7)), fmt.Sprintf("tl|threshold|vector-%s|%s", strings.ToLower(vk.name), c09CountClass(n)))
			big[res] = v
		}
	}
	for _, n := range pick(counts, 3, 1) {
		v := rec(fld("Mode", sx.N(8)), fld("V", g.bigVector(c09VecKinds[1].ty, n)), fld("Tail", sx.N(7)))
		emit(sx.L(sx.A("bare"), sx.Str("x1.vecOpt")), typesOf("x1.VecOpt"), sx.L(), v, []byte{1, 2, 3}, "tl|threshold|optional-vector|"+c09CountClass(n))
	}
	// 2. byte strings
	for _, n := range pick(lens, 3, 2) {
		v := rec(fld("Data", sx.Bytes(r.Bytes(n))), fld("S", sx.Bytes(r.Bytes(lens[(n+1)%len(lens)]))), fld("Tail", sx.N(0x01020304)))
		emit(sx.L(sx.A("bare"), sx.Str("x1.blob")), typesOf("x1.Blob"), sx.L(), v, r.Bytes(1+r.Intn(5)), "tl|threshold|bytes|"+c09CountClass(n))
		big["x1.Blob"] = v
	}
	// 3. nesting
	{
		v := rec(fld("A", sx.N(1)))
		for i := 1; i < c09ChainDepth; i++ {
			v = rec(fld("C", v), fld("T", sx.N(uint64(i))))
		}
		last := fmt.Sprintf("x1.n%d", c09ChainDepth-1)
		emit(sx.L(sx.A("bare"), sx.Str(last)), typesOf(fmt.Sprintf("x1.N%d", c09ChainDepth-1)), sx.L(), v, []byte{9}, fmt.Sprintf("tl|threshold|nesting-%d", c09ChainDepth))
	}
	// 4. requests carrying such values, responses made of them: whole, and cut inside the data
	for fi, f := range sc.funcs {
		keep := sc.closure(f.fields, []string{f.res, "liteServer.Error"})
		types, _ := c09SubSchema(p, keep)
		funcs := sx.L(tlx.DeclSx(p.funcs[fi]))
		var rv sx.V = sx.A("none")
		switch f.name {
		case "x1.getVecLeaf":
			rv = rec(fld("N", sx.N(5)))
		case "x1.sendVec":
			rv = rec(fld("V", g.bigVector(c09VecKinds[1].ty, counts[2])), fld("Tail", sx.N(3)))
		case "x1.sendBlob":
			rv = rec(fld("Data", sx.Bytes(r.Bytes(lens[5]))), fld("Tail", sx.N(3)))
		}
		resV, ok := big[f.res]
		if !ok {
			resV = rec(fld("A", sx.N(1)))
		}
		d := sc.ctorsOf(f.res)[0]
		a := s.ask(sx.L(sx.A("tl.m"), sx.A(p.pkg), sx.A(c09GoTypeOf(sc, &d)), resV, sx.Bytes(nil)))
		if a.K != sx.KL || len(a.List) != 3 || a.List[0].K != sx.KBytes {
			continue
		}
		full := append([]byte{byte(d.id), byte(d.id >> 8), byte(d.id >> 16), byte(d.id >> 24)}, a.List[0].Bytes...)
		resps := map[string][]byte{"whole": full}
		if len(full) > 5000 {
			resps["cut-after-4096-items-or-bytes"] = full[:len(full)-(len(full)-4500)/3]
			if c.Thorough() {
				resps["cut-short"] = full[:4200]
			}
		}
		for rc, resp := range resps {
			in := sx.L(types, funcs, sx.Str(f.name), rv, sx.Bytes(resp))
			ans := s.ask(sx.L(sx.A("tl.req"), sx.A(p.pkg), sx.A(c09Camel(f.name)), rv, sx.Bytes(resp)))
			c09Cache["c09.tlreq "+in.String()] = ans
			c.Emit("c09.tlreq", in, "tlreq|threshold|"+strings.TrimPrefix(f.name, "x1.")+"|"+rc)
			delete(c09Cache, "c09.tlreq "+in.String())
			if ans.K == sx.KL && len(ans.List) == 3 && ans.List[2].K == sx.KB && !ans.List[2].Bool {
				c.Fail("c09.tlreq", in, "c09-tl-request-decoder", "taggedRequestDecodeFunctions does not decode the payload of "+f.name+" back to the request")
			}
		}
	}
}

func c09CountClass(n int) string {
	switch {
	case n < 4095:
		return fmt.Sprint(n)
	case n <= 4097:
		return fmt.Sprint(n)
	case n < 8192:
		return "4098..8191"
	case n <= 8193:
		return fmt.Sprint(n)
	}
	return ">8193"
}
