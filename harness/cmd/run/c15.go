package main

// C15 — wallet address and send parameters follow from key, version and chain
// state.  Implementation side: wallet.New / GenerateWalletAddress /
// GenerateStateInit, NextMessageParams (hook), SendV2 against a scripted
// blockchain interface (account state, GetSeqno answers, short real deadlines).

import (
	"bytes"
	"context"
	"crypto/ed25519"
	"crypto/hmac"
	"crypto/sha512"
	"encoding/binary"
	"fmt"
	"math/big"
	"sort"
	"strings"
	"time"

	"github.com/tonkeeper/tongo/boc"
	"github.com/tonkeeper/tongo/tlb"
	"github.com/tonkeeper/tongo/ton"
	"github.com/tonkeeper/tongo/wallet"

	"verifharness/prng"
	"verifharness/sx"
)

func init() {
	execs["c15.addr"] = execC15Addr
	execs["c15.next"] = execC15Next
	execs["c15.send"] = execC15Send
	execs["c15.history"] = execC15History
	gens["C15"] = genC15
}

var c15AddrVersions = []wallet.Version{wallet.V1R1, wallet.V1R2, wallet.V1R3, wallet.V2R1, wallet.V2R2, wallet.V3R1, wallet.V3R2,
	wallet.V4R1, wallet.V4R2, wallet.V5Beta, wallet.V5R1, wallet.HighLoadV2R2}

func addrSx(a ton.AccountID, err error) sx.V {
	if err != nil {
		return sx.A("err")
	}
	return sx.L(sx.Z(int64(a.Workchain)), sx.Bytes(a.Address[:]))
}

// (ver pk opts seed): pk is what the Generate* functions get; New gets the
// private key of seed when seed is present (then pk = its public key)
func execC15Addr(in sx.V) sx.V {
	l := in.List
	ver := wallet.Version(l[0].I())
	pk := ed25519.PublicKey(l[1].Bytes)
	o := woptsFromSx(l[2])
	var r1 sx.V
	if len(l) >= 5 {
		// (mnemonic version-byte): the library derives the key itself
		w, err := wallet.DefaultWalletFromSeed(string(l[4].List[0].Bytes), &fakeChain{})
		if err != nil {
			r1 = sx.A("err")
		} else {
			r1 = addrSx(w.GetAddress(), nil)
		}
	} else if len(l[3].Bytes) == 32 {
		w, err := wallet.New(ed25519.NewKeyFromSeed(l[3].Bytes), ver, &fakeChain{}, o.options()...)
		if err != nil {
			r1 = sx.A("err")
		} else {
			r1 = addrSx(w.GetAddress(), nil)
		}
	} else {
		r1 = sx.A("skipped")
	}
	wc := 0
	if o.wc != nil {
		wc = *o.wc
	}
	r2 := addrSx(wallet.GenerateWalletAddress(pk, ver, o.net, wc, o.sub))
	var r3 sx.V
	si, err := wallet.GenerateStateInit(pk, ver, o.net, wc, o.sub)
	if err != nil {
		r3 = sx.A("err")
	} else {
		r3 = sx.Bytes(mustHash(stateInitCell(&si)))
	}
	if o.wc != nil || o.sub != nil || o.net != nil {
		return sx.L(r1, r2, r3, sx.A("skip"))
	}
	return sx.L(r1, r2, r3, codeHashSx(ver))
}

// GetCodeHashByVer (panics for a version without code)
func codeHashSx(ver wallet.Version) (out sx.V) {
	defer func() {
		if rec := recover(); rec != nil {
			out = sx.A("none")
		}
	}()
	h := wallet.GetCodeHashByVer(ver)
	return sx.Bytes(h[:])
}

// ---- account states: 'none 'uninit 'frozen ('active data-cell)

func shardAccount(v sx.V) tlb.ShardAccount {
	var s tlb.ShardAccount
	if v.K == sx.KA {
		switch v.Atom {
		case "none":
			s.Account.SumType = "AccountNone"
		case "uninit":
			s.Account.SumType = "Account"
			s.Account.Account.Storage.State.SumType = "AccountUninit"
		case "frozen":
			s.Account.SumType = "Account"
			s.Account.Account.Storage.State.SumType = "AccountFrozen"
		}
		return s
	}
	s.Account.SumType = "Account"
	s.Account.Account.Storage.State.SumType = "AccountActive"
	d := cellFromSx(v.List[1])
	s.Account.Account.Storage.State.AccountActive.StateInit.Data.Exists = true
	s.Account.Account.Storage.State.AccountActive.StateInit.Data.Value.Value = *d
	return s
}

// The account record as an application gets it: the serialised Account decoded by tlb.Unmarshal into a variable
// that is REUSED across polls.  prior are the records of the earlier polls, in order.
func accountCell(v sx.V) *boc.Cell {
	a := shardAccount(v).Account
	if a.SumType == "Account" {
		a.Account.Addr.SumType = "AddrStd"
		a.Account.StorageStat.StorageExtra.SumType = "StorageExtraNone"
	}
	c := boc.NewCell()
	if err := tlb.Marshal(c, a); err != nil {
		panic(err)
	}
	return c
}

func polledAccount(prior []sx.V, cur sx.V) tlb.ShardAccount {
	var polled tlb.ShardAccount
	for _, v := range append(append([]sx.V{}, prior...), cur) {
		if err := tlb.Unmarshal(accountCell(v), &polled.Account); err != nil {
			panic(err)
		}
	}
	return polled
}

// an earlier poll that found the wallet active with seqno 7 (data of the version's own layout)
func staleActive(ver wallet.Version) sx.V {
	r := prng.New(uint64(ver) + 77)
	return sx.L(sx.A("active"), cellToSx(c15WellFormed(r, ver, 7, 0).cell))
}

func c15Wallet(l []sx.V, chain *fakeChain) (wallet.Wallet, error) {
	ver := wallet.Version(l[0].I())
	seed := l[len(l)-1].Bytes
	return wallet.New(ed25519.NewKeyFromSeed(seed), ver, chain, woptsFromSx(l[2]).options()...)
}

func bitsOfBytes(b []byte) sx.V { return sx.Bits(hexBits(b)) }

// the library's own decoding of the data cell of an active account:
// (seqno id pk flag extra (key ...)) | 'err
func c15DecodeData(ver wallet.Version, st sx.V) sx.V {
	if st.K != sx.KL {
		return sx.L()
	}
	cell := cellFromSx(st.List[1])
	keys := func(ks [][]byte) sx.V {
		var l []sx.V
		for _, k := range ks {
			l = append(l, bitsOfBytes(k))
		}
		return sx.L(l...)
	}
	switch ver {
	case wallet.V3R1, wallet.V3R2:
		var d wallet.DataV3
		if tlb.Unmarshal(cell, &d) != nil {
			return sx.A("err")
		}
		return sx.L(sx.N(uint64(d.Seqno)), sx.N(uint64(d.SubWalletId)), bitsOfBytes(d.PublicKey[:]), sx.B(false), sx.N(0), sx.L())
	case wallet.V4R1, wallet.V4R2:
		var d wallet.DataV4
		if tlb.Unmarshal(cell, &d) != nil {
			return sx.A("err")
		}
		var ks [][]byte
		for _, k := range d.PluginDict.Keys() {
			k := k
			ks = append(ks, k[:])
		}
		return sx.L(sx.N(uint64(d.Seqno)), sx.N(uint64(d.SubWalletId)), bitsOfBytes(d.PublicKey[:]), sx.B(false), sx.N(0), keys(ks))
	case wallet.V5Beta:
		var d wallet.DataV5Beta
		if tlb.Unmarshal(cell, &d) != nil {
			return sx.A("err")
		}
		id := new(big.Int).SetUint64(uint64(d.WalletID.NetworkGlobalID))
		id.Lsh(id, 8).Or(id, big.NewInt(int64(d.WalletID.Workchain)))
		id.Lsh(id, 8).Or(id, big.NewInt(int64(d.WalletID.WalletVersion)))
		id.Lsh(id, 32).Or(id, new(big.Int).SetUint64(uint64(d.WalletID.SubWalletID)))
		var ks [][]byte
		for _, k := range d.Extensions.Keys() {
			k := k
			ks = append(ks, k[:])
		}
		return sx.L(sx.N(uint64(d.Seqno)), sx.BigN(id), bitsOfBytes(d.PublicKey[:]), sx.B(false), sx.N(0), keys(ks))
	case wallet.V5R1:
		var d wallet.DataV5R1
		if tlb.Unmarshal(cell, &d) != nil {
			return sx.A("err")
		}
		var ks [][]byte
		for _, k := range d.Extensions.Keys() {
			k := k
			ks = append(ks, k[:])
		}
		return sx.L(sx.N(uint64(d.Seqno)), sx.N(uint64(d.WalletID)), bitsOfBytes(d.PublicKey[:]), sx.B(d.IsSignatureAllowed), sx.N(0), keys(ks))
	case wallet.HighLoadV2R2:
		var d wallet.DataHighloadV2
		if tlb.Unmarshal(cell, &d) != nil {
			return sx.A("err")
		}
		var ks [][]byte
		for _, k := range d.Queries.Keys() {
			var b [8]byte
			binary.BigEndian.PutUint64(b[:], uint64(k))
			ks = append(ks, b[:])
		}
		return sx.L(sx.N(0), sx.N(uint64(d.SubWalletId)), bitsOfBytes(d.PublicKey[:]), sx.B(false), sx.N(d.LastCleanedTime), keys(ks))
	}
	return sx.A("err")
}

// (ver pk opts acct seed)
func execC15Next(in sx.V) sx.V {
	l := in.List
	w, err := c15Wallet(l, &fakeChain{})
	if err != nil {
		return sx.A("err")
	}
	// the state comes out of a variable that earlier polls (active with seqno 7, then frozen) were decoded into
	ver0 := wallet.Version(l[0].I())
	p, err := wallet.VerifNextMessageParams(&w, polledAccount([]sx.V{staleActive(ver0), sx.A("frozen"), staleActive(ver0)}, l[3]))
	if err != nil {
		return sx.A("err")
	}
	init := sx.L()
	if p.Init != nil {
		init = sx.L(sx.Bytes(mustHash(stateInitCell(p.Init))))
	}
	return sx.L(sx.N(uint64(p.Seqno)), init, c15DecodeData(wallet.Version(l[0].I()), l[3]))
}

// seqno field of a body, by position
func bodySeqno(ver wallet.Version, body *boc.Cell) uint64 {
	b := cellBits(body)
	off := -1
	switch ver {
	case wallet.V3R1, wallet.V3R2, wallet.V4R1, wallet.V4R2:
		off = 512 + 64
	case wallet.V5Beta:
		off = 32 + 80 + 32
	case wallet.V5R1:
		off = 96
	case wallet.HighLoadV2R2:
		return 0
	}
	if off < 0 || len(b) < off+32 {
		return 1 << 40
	}
	var v uint64
	for _, ch := range b[off : off+32] {
		v = v*2 + uint64(ch-'0')
	}
	return v
}

const c15WaitUnit = time.Millisecond

// (ver pk opts acct msgs wait send_err script last sendables seed)
func execC15Send(in sx.V) sx.V {
	l := in.List
	chain := &fakeChain{sendErr: l[6].Bool}
	if l[3].IsA("staterr") {
		chain.stateErr = true
	} else {
		chain.state = polledAccount([]sx.V{sx.A("uninit"), staleActive(wallet.Version(l[0].I()))}, l[3])
	}
	for _, p := range l[7].List {
		if len(p.List) == 1 {
			chain.polls = append(chain.polls, pollAnswer{seqno: uint32(p.List[0].U64())})
		} else {
			chain.polls = append(chain.polls, pollAnswer{err: true})
		}
	}
	if len(l[8].List) == 1 {
		chain.last = pollAnswer{seqno: uint32(l[8].List[0].U64())}
	} else {
		chain.last = pollAnswer{err: true}
	}
	lifeNs := int64(wallet.DefaultMessageLifetime)
	options := woptsFromSx(l[2]).options()
	if len(l) >= 12 {
		if p := optZfrom(l[10]); p != nil {
			lifeNs = *p
			options = append(options, wallet.WithMessageLifetime(time.Duration(lifeNs)))
		}
	}
	w, err := wallet.New(ed25519.NewKeyFromSeed(l[len(l)-1].Bytes), wallet.Version(l[0].I()), chain, options...)
	if err != nil {
		return sx.L(sx.A("err"), sx.L())
	}
	ver := wallet.Version(l[0].I())
	var ss []wallet.Sendable
	for _, e := range l[9].List {
		ss = append(ss, sendableFromSx(e).toSendable())
	}
	wait := time.Duration(l[5].Int.Int64()) * c15WaitUnit
	before := time.Now()
	_, err = w.SendV2(context.Background(), wait, ss...)
	res := "ok"
	if err != nil {
		res = "err"
	}
	proj := sx.L()
	if len(chain.payloads) == 1 {
		cells, perr := boc.DeserializeBoc(chain.payloads[0])
		if perr != nil || len(cells) != 1 {
			return sx.L(sx.A("harness-error"), sx.A("payload"))
		}
		root := cells[0]
		eb := cellBits(root)
		if len(eb) < 277 {
			return sx.L(sx.A("harness-error"), sx.A("short-ext"))
		}
		var wc uint64
		for _, ch := range eb[7:15] {
			wc = wc*2 + uint64(ch-'0')
		}
		init := sx.L()
		if eb[275] == '1' {
			init = sx.L(sx.Bytes(mustHash(root.Refs()[0])))
		}
		n := -1
		if ms, e := wallet.ExtractRawMessages(ver, root); e == nil {
			n = len(ms)
		}
		// expiry relative to the clock: the configured lifetime when valid_until lies in [before+life, sent+life]
		obs := uint64(1) << 40
		if d := decodeProj(ver, root); d.K == sx.KL {
			obs = expiryObserved(uint32(d.List[1].U64()), false, lifeNs, before, chain.sentAt)
		}
		proj = sx.L(sx.N(wc), sx.Bits(eb[15:271]), init, sx.N(bodySeqno(ver, lastRef(root))), sx.Nat(n), sx.N(obs))
	} else if len(chain.payloads) > 1 {
		return sx.L(sx.A("harness-error"), sx.A("sent-twice"))
	}
	// with a sleep of wait/10 between polls at most ten polls fit before the deadline (C15_confirm_ten_polls)
	if chain.npolls > 10 {
		return sx.L(sx.A("harness-error"), sx.A("more-than-ten-polls"))
	}
	// every question to the chain is about the wallet itself
	for _, a := range chain.asked {
		if a != w.GetAddress() {
			return sx.L(sx.A("harness-error"), sx.A("asked-other-account"))
		}
	}
	return sx.L(sx.A(res), proj)
}

// ---- c15.history: one Wallet object, a sequence of calls with the caller modifying what it got back

// (ver pk opts seed (op ...)); op: 'stateinit | ('mutate kind cell) | 'address | ('next acct)
func historyRun(ver wallet.Version, seed []byte, o wopts, ops []sx.V, fresh bool) sx.V {
	mk := func() (wallet.Wallet, error) {
		return wallet.New(ed25519.NewKeyFromSeed(seed), ver, &fakeChain{}, o.options()...)
	}
	// the private key lives in a buffer the CALLER owns and may reuse after New
	buf := append(ed25519.PrivateKey{}, ed25519.NewKeyFromSeed(seed)...)
	orig := append([]byte{}, buf...)
	rekeyed := false
	w, err := wallet.New(buf, ver, &fakeChain{}, o.options()...)
	if err != nil {
		return sx.A("err")
	}
	defer func() { _ = orig }()
	var last *tlb.StateInit
	var polled tlb.ShardAccount // the application's variable for the polled account record
	var answers []sx.V
	for _, op := range ops {
		if fresh { // reference run: a new wallet (and nothing to mutate) for every call
			if w, err = mk(); err != nil {
				return sx.A("err")
			}
			last = nil
		}
		ans := func() (out sx.V) {
			defer func() {
				if rec := recover(); rec != nil {
					out = sx.A("panic")
				}
			}()
			switch {
			case op.IsA("stateinit"):
				si, err := w.StateInit()
				if err != nil {
					return sx.A("err")
				}
				last = si
				return sx.Bytes(mustHash(stateInitCell(si)))
			case op.IsA("address"):
				a := w.GetAddress()
				out := addrSx(a, nil)
				a.Address[0] ^= 0xff // the caller's copy
				a.Workchain++
				return out
			case op.Head() == "rekey":
				// the caller refills its key buffer (next wallet of a loop, or wiping); the library must not have
				// written to it before
				if !rekeyed && !fresh && !bytes.Equal(buf, orig) {
					return sx.A("key-buffer-modified-by-library")
				}
				if !fresh {
					copy(buf, op.List[3].Bytes)
					rekeyed = true
				}
				return sx.A("ok")
			case op.Head() == "mutate":
				if last != nil {
					c := cellFromSx(op.List[2])
					switch op.List[1].I() {
					case 0:
						last.Data.Exists = true
						last.Data.Value.Value = *c
					case 1:
						last.Special.Exists = true
						last.Special.Value.Tick = true
					case 2:
						last.Code.Exists = false
					case 3:
						var k tlb.Bits256
						k[0] = 1
						last.Library.Put(k, tlb.SimpleLib{Public: true, Root: *c})
					default:
						*last = tlb.StateInit{}
					}
				}
				return sx.A("ok")
			default: // ('next acct): a fresh literal; ('poll acct): the record decoded into the reused variable
				st := shardAccount(op.List[1])
				if op.Head() == "poll" {
					if fresh {
						polled = tlb.ShardAccount{}
					}
					if err := tlb.Unmarshal(accountCell(op.List[1]), &polled.Account); err != nil {
						return sx.A("harness-error")
					}
					st = polled
				}
				p, err := wallet.VerifNextMessageParams(&w, st)
				if err != nil {
					return sx.A("err")
				}
				init := sx.L()
				if p.Init != nil {
					init = sx.L(sx.Bytes(mustHash(stateInitCell(p.Init))))
					last = p.Init
				}
				return sx.L(sx.N(uint64(p.Seqno)), init)
			}
		}()
		answers = append(answers, ans)
	}
	return sx.L(answers...)
}

func execC15History(in sx.V) sx.V {
	l := in.List
	return historyRun(wallet.Version(l[0].I()), l[3].Bytes, woptsFromSx(l[2]), l[4].List, false)
}

// ---- generator

func c15DataCell(r *prng.R, ver wallet.Version, seqno uint64, flavour int) *boc.Cell {
	c := boc.NewCell()
	pk := r.Bytes(32)
	switch ver {
	case wallet.V3R1, wallet.V3R2:
		_ = c.WriteUint(seqno, 32)
		_ = c.WriteUint(r.U64(), 32)
		_ = c.WriteBytes(pk)
	case wallet.V4R1, wallet.V4R2:
		_ = c.WriteUint(seqno, 32)
		_ = c.WriteUint(r.U64(), 32)
		_ = c.WriteBytes(pk)
		_ = c.WriteBit(false)
	case wallet.V5Beta:
		_ = c.WriteUint(seqno, 33)
		_ = c.WriteBytes(r.Bytes(10))
		_ = c.WriteBytes(pk)
		_ = c.WriteBit(false)
	case wallet.V5R1:
		_ = c.WriteBit(r.Bool())
		_ = c.WriteUint(seqno, 32)
		_ = c.WriteUint(r.U64(), 32)
		_ = c.WriteBytes(pk)
		_ = c.WriteBit(false)
	case wallet.HighLoadV2R2:
		_ = c.WriteUint(r.U64(), 32)
		_ = c.WriteUint(r.U64(), 64)
		_ = c.WriteBytes(pk)
		_ = c.WriteBit(false)
	default:
		_ = c.WriteUint(seqno, 32)
		_ = c.WriteBytes(pk)
	}
	switch flavour {
	case 1: // truncated
		bits := cellBits(c)
		cut := r.Intn(len(bits))
		return cellWith(bits[:cut], nil)
	case 2: // trailing junk
		for _, ch := range randBits(r, 1+r.Intn(20)) {
			_ = c.WriteBit(ch == '1')
		}
	case 3: // a non-empty dictionary with one entry (label = whole key)
		bits := cellBits(c)
		if bits[len(bits)-1] == '0' && ver != wallet.V3R1 && ver != wallet.V3R2 {
			kw, vw := 256, 8
			switch ver {
			case wallet.V4R1, wallet.V4R2:
				kw, vw = 264, 0
			case wallet.V5R1:
				vw = 1
			case wallet.HighLoadV2R2:
				kw, vw = 64, 5
			}
			leaf := "10" + fmt.Sprintf("%0*b", limBits(kw), kw) + randBits(r, kw) + randBits(r, vw)
			return cellWith(bits[:len(bits)-1]+"1", []*boc.Cell{cellWith(leaf, nil)})
		}
	case 4: // dictionary bit set, reference missing
		bits := cellBits(c)
		if bits[len(bits)-1] == '0' {
			return cellWith(bits[:len(bits)-1]+"1", nil)
		}
	}
	return c
}

// a dictionary serialised from the TL-B schema of Hashmap (independently of tongo's encoder):
// keys sorted, distinct, all of one width; vals are the value bits; label form random per edge
func c15Dict(keys, vals []string, done int, r *prng.R) *boc.Cell {
	n := len(keys[0])
	m := n - done
	first, last := keys[0], keys[len(keys)-1]
	l := 0
	for done+l < n && first[done+l] == last[done+l] {
		l++
	}
	bits := encLabel(first[done:done+l], m, r.Intn(3))
	if len(keys) == 1 {
		return cellWith(bits+vals[0], nil)
	}
	split := sort.Search(len(keys), func(i int) bool { return keys[i][done+l] == '1' })
	left := c15Dict(keys[:split], vals[:split], done+l+1, r)
	right := c15Dict(keys[split:], vals[split:], done+l+1, r)
	return cellWith(bits, []*boc.Cell{left, right})
}

type c15Data struct {
	seqno uint64
	id    *big.Int
	pk    []byte
	flag  bool
	extra uint64
	keys  []string // ascending
	cell  *boc.Cell
}

// well-formed on-chain data of a version as the CONTRACT lays it out: any seqno, ids, key, flag and n
// dictionary entries (v4 plugins: 264-bit keys, empty values; v5 beta extensions: 256 -> 8 bits;
// v5r1 extensions: 256 -> 1 bit; highload old queries: 64 -> empty)
func c15WellFormed(r *prng.R, ver wallet.Version, seqno uint64, n int) c15Data {
	d := c15Data{seqno: seqno, pk: r.Bytes(32), id: new(big.Int)}
	subs := []uint64{698983191, 698983190, 0, 1, 0xffffffff, 0x80000000, uint64(uint32(r.U64()))}
	sub := subs[r.Intn(len(subs))]
	kw, vw := 0, 0
	var pre string
	switch ver {
	case wallet.V3R1, wallet.V3R2:
		pre = fmt.Sprintf("%032b%032b", seqno, sub) + hexBits(d.pk)
		d.id.SetUint64(sub)
		d.cell = cellWith(pre, nil)
		return d
	case wallet.V4R1, wallet.V4R2:
		pre = fmt.Sprintf("%032b%032b", seqno, sub) + hexBits(d.pk)
		d.id.SetUint64(sub)
		kw, vw = 264, 0
	case wallet.V5Beta:
		wid := r.Bytes(10)
		pre = fmt.Sprintf("%033b", seqno) + hexBits(wid) + hexBits(d.pk)
		d.id.SetBytes(wid)
		kw, vw = 256, 8
	case wallet.V5R1:
		d.flag = r.Bool()
		f := "0"
		if d.flag {
			f = "1"
		}
		pre = f + fmt.Sprintf("%032b%032b", seqno, sub) + hexBits(d.pk)
		d.id.SetUint64(sub)
		kw, vw = 256, 1
	case wallet.HighLoadV2R2:
		d.seqno = 0
		d.extra = r.U64()
		pre = fmt.Sprintf("%032b%064b", sub, d.extra) + hexBits(d.pk)
		d.id.SetUint64(sub)
		kw, vw = 64, 0
	}
	if n == 0 {
		d.cell = cellWith(pre+"0", nil)
		return d
	}
	set := map[string]bool{}
	base := randBits(r, kw)
	for len(set) < n {
		k := randBits(r, kw)
		if r.Chance(40) { // long common prefix with another key
			p := kw - 1 - r.Intn(12)
			k = base[:p] + randBits(r, kw-p)
		}
		set[k] = true
	}
	for k := range set {
		d.keys = append(d.keys, k)
	}
	sort.Strings(d.keys)
	var vals []string
	for range d.keys {
		v := randBits(r, vw)
		if vw == 1 {
			v = "1" // the contract stores int1 -1
		}
		vals = append(vals, v)
	}
	d.cell = cellWith(pre+"1", []*boc.Cell{c15Dict(d.keys, vals, 0, r)})
	return d
}

func (d c15Data) fields() sx.V {
	var ks []sx.V
	for _, k := range d.keys {
		ks = append(ks, sx.Bits(k))
	}
	return sx.L(sx.N(d.seqno), sx.BigN(d.id), bitsOfBytes(d.pk), sx.B(d.flag), sx.N(d.extra), sx.L(ks...))
}

func c15Seqnos(r *prng.R, ver wallet.Version) uint64 {
	seqs := []uint64{0, 1, 2, 1<<31 - 1, 1 << 31, 1<<32 - 2, 1<<32 - 1, uint64(uint32(r.U64()))}
	return seqs[r.Intn(len(seqs))]
}

func acctSx(r *prng.R, ver wallet.Version, kind int) (sx.V, string) {
	if kind == 3 && int(ver) >= int(wallet.V3R1) && r.Chance(50) {
		n := r.Intn(4)
		d := c15WellFormed(r, ver, c15Seqnos(r, ver), n)
		return sx.L(sx.A("active"), cellToSx(d.cell)), fmt.Sprintf("active-wf%d", n)
	}
	switch kind {
	case 0:
		return sx.A("none"), "none"
	case 1:
		return sx.A("uninit"), "uninit"
	case 2:
		return sx.A("frozen"), "frozen"
	}
	seqs := []uint64{0, 1, 2, 1<<32 - 2, 1<<32 - 1, uint64(uint32(r.U64())), 1 << 32, 1<<32 + 7, 1<<33 - 1}
	s := seqs[r.Intn(len(seqs))]
	if ver != wallet.V5Beta {
		s &= 0xffffffff
	}
	fl := 0
	if r.Chance(35) {
		fl = 1 + r.Intn(4)
	}
	return sx.L(sx.A("active"), cellToSx(c15DataCell(r, ver, s, fl))), fmt.Sprintf("active%d", fl)
}

func genC15(c *Ctx) {
	r := c.R
	genC15R8(c) // 0. first, so that every later case is answered after callers modified in depth what they were handed (c15_r8.go)
	genC15R8b(c) // 0b. the grid account status x stored seqno for every version through every API that yields send parameters (c15_r8b.go)
	// 1. addresses: every version x options x keys; the three APIs
	seen := map[string]string{}
	na := c.Scale(3, 20)
	for _, ver := range append(append([]wallet.Version{}, c15AddrVersions...), wallet.V3R2Lockup, wallet.HighLoadV1R1, wallet.Version(17)) {
		for k := 0; k < na; k++ {
			seed := c14Seed(r)
			pk := ed25519.NewKeyFromSeed(seed).Public().(ed25519.PublicKey)
			o := randOpts(r)
			if k == 0 {
				o = wopts{}
			}
			in := sx.L(sx.Nat(int(ver)), sx.Bytes(pk), o.sx(), sx.Bytes(seed))
			out := c.Emit("c15.addr", in, fmt.Sprintf("addr|v%d|nopts=%d", int(ver), c15b2i(o.wc != nil)+c15b2i(o.sub != nil)+c15b2i(o.net != nil)))
			if out.K != sx.KL || len(out.List) != 4 {
				continue
			}
			// oracle: the code hash identifies the version (GetVerByCodeHash, GetWalletVersion on an active account
			// running that code and on an uninitialised one deployed by a message carrying it)
			if out.List[3].K == sx.KBytes {
				var h tlb.Bits256
				copy(h[:], out.List[3].Bytes)
				if v, ok := wallet.GetVerByCodeHash(h); !ok || v != ver {
					c.Fail("c15.addr", in, "c15-code-hash", "GetVerByCodeHash does not give the version back")
				}
				var st tlb.ShardAccount
				st.Account.SumType = "Account"
				st.Account.Account.Storage.State.SumType = "AccountActive"
				st.Account.Account.Storage.State.AccountActive.StateInit.Code.Exists = true
				st.Account.Account.Storage.State.AccountActive.StateInit.Code.Value.Value = *wallet.GetCodeByVer(ver)
				if v, ok, err := wallet.GetWalletVersion(st, tlb.Message{}); err != nil || !ok || v != ver {
					c.Fail("c15.addr", in, "c15-code-hash", "GetWalletVersion does not recognise an active account running the version's code")
				}
				var un tlb.ShardAccount
				un.Account.SumType = "AccountNone"
				var dm tlb.Message
				dm.Init.Exists = true
				dm.Init.Value.Value.Code.Exists = true
				dm.Init.Value.Value.Code.Value.Value = *wallet.GetCodeByVer(ver)
				if v, ok, err := wallet.GetWalletVersion(un, dm); err != nil || !ok || v != ver {
					c.Fail("c15.addr", in, "c15-code-hash", "GetWalletVersion does not recognise the code in a deploying message")
				}
			}
			// oracle: the three APIs give the same address = (workchain, hash of the state-init)
			if out.List[0].String() != out.List[1].String() {
				c.Fail("c15.addr", in, "c15-apis-differ", "New and GenerateWalletAddress give different addresses")
			}
			if out.List[0].K == sx.KL {
				if !bytes.Equal(out.List[0].List[1].Bytes, out.List[2].Bytes) {
					c.Fail("c15.addr", in, "c15-address-not-hash", "address is not the hash of GenerateStateInit's cell")
				}
				wantWc := int64(0)
				if o.wc != nil {
					wantWc = int64(int32(*o.wc))
				}
				if out.List[0].List[0].Int.Int64() != wantWc {
					c.Fail("c15.addr", in, "c15-workchain", "address workchain is not the requested one")
				}
				// oracle: injectivity over the resolved parameters
				key := fmt.Sprintf("%d|%x|%d|%s", int(ver), []byte(pk), wantWc, resolvedIDs(ver, o))
				ad := out.List[0].String()
				if prev, ok := seen[ad]; ok && prev != key {
					c.Fail("c15.addr", in, "c15-address-collision", "two different (version, key, workchain, ids) share an address: "+prev+" / "+key)
				}
				seen[ad] = key
			}
		}
	}
	// mnemonic -> key -> address: the key is derived by an independent implementation of the TON derivation and handed
	// to the model; the model decides acceptance (>= 12 words, version byte 0) and builds the v4r2 address
	for i, mn := range c15Mnemonics {
		if i > 0 && !c.Thorough() {
			break
		}
		emitMnemonic(c, mn, "24-valid", true)
	}
	emitMnemonic(c, validPhrase(r, 12), "12-valid", true)
	emitMnemonic(c, validPhrase(r, 11), "11-version-ok", false)
	for { // 11 words and a trailing space: strings.Split counts 12 parts, so it is accepted when the version byte is 0
		p := randPhrase(r, 11) + " "
		if tonVersionByte(p) == 0 {
			emitMnemonic(c, p, "11-trailing-space", true)
			break
		}
	}
	p24 := randPhrase(r, 24)
	emitMnemonic(c, p24, "24-random", tonVersionByte(p24) == 0)
	emitMnemonic(c, "", "empty", false)
	emitMnemonic(c, randPhrase(r, 5)+"  "+randPhrase(r, 5), "double-space-11", false)
	if c.Thorough() {
		emitMnemonic(c, validPhrase(r, 13), "13-valid", true)
		emitMnemonic(c, validPhrase(r, 24), "24-valid-searched", true)
		for k := 0; k < 6; k++ {
			p := randPhrase(r, 12+r.Intn(14))
			emitMnemonic(c, p, "random", tonVersionByte(p) == 0)
		}
	}
	// keys of other lengths through the Generate* functions (publicKeyToBits copies)
	for _, n := range []int{0, 1, 31, 33, 64} {
		ver := c15AddrVersions[r.Intn(len(c15AddrVersions))]
		in := sx.L(sx.Nat(int(ver)), sx.Bytes(r.Bytes(n)), randOpts(r).sx(), sx.Bytes(nil))
		c.Emit("c15.addr", in, fmt.Sprintf("addr|keylen=%d", n))
	}
	// pairs differing in exactly one option: the addresses must differ
	for k := 0; k < c.Scale(12, 80); k++ {
		ver := c15AddrVersions[5+r.Intn(7)]
		seed := c14Seed(r)
		pk := ed25519.NewKeyFromSeed(seed).Public().(ed25519.PublicKey)
		o1 := randOpts(r)
		o2 := o1
		what := r.Intn(3)
		switch what {
		case 0:
			x := 1
			if o1.wc != nil && *o1.wc == 1 {
				x = 0
			}
			o2.wc = &x
		case 1:
			x := uint32(r.U64())
			o2.sub = &x
		case 2:
			x := int32(r.U64())
			o2.net = &x
		}
		a1, e1 := wallet.GenerateWalletAddress(pk, ver, o1.net, derefInt(o1.wc), o1.sub)
		a2, e2 := wallet.GenerateWalletAddress(pk, ver, o2.net, derefInt(o2.wc), o2.sub)
		if e1 != nil || e2 != nil {
			continue
		}
		k1 := fmt.Sprintf("%d|%s", int32(derefInt(o1.wc)), resolvedIDs(ver, o1))
		k2 := fmt.Sprintf("%d|%s", int32(derefInt(o2.wc)), resolvedIDs(ver, o2))
		in := sx.L(sx.Nat(int(ver)), sx.Bytes(pk), o2.sx(), sx.Bytes(seed))
		c.Emit("c15.addr", in, fmt.Sprintf("addr|pair|v%d|diff=%d", int(ver), what))
		if (k1 == k2) != (a1 == a2) {
			c.Fail("c15.addr", in, "c15-address-collision", fmt.Sprintf("addresses equal=%v but resolved parameters equal=%v (%s / %s)", a1 == a2, k1 == k2, k1, k2))
		}
	}
	// 2. NextMessageParams: every version x every account status
	for _, ver := range c15AddrVersions {
		for kind := 0; kind < 4; kind++ {
			reps := 1
			if kind == 3 {
				reps = c.Scale(4, 30)
			}
			for k := 0; k < reps; k++ {
				seed := c14Seed(r)
				pk := ed25519.NewKeyFromSeed(seed).Public().(ed25519.PublicKey)
				o := randOpts(r)
				st, label := acctSx(r, ver, kind)
				in := sx.L(sx.Nat(int(ver)), sx.Bytes(pk), o.sx(), st, sx.Bytes(seed))
				out := c.Emit("c15.next", in, fmt.Sprintf("next|v%d|%s", int(ver), label))
				if int(ver) < int(wallet.V3R1) {
					continue
				}
				// oracle: active => no init; none/uninit => init = own state-init, seqno 0
				if out.K == sx.KL {
					hasInit := len(out.List[1].List) == 1
					switch kind {
					case 3:
						if hasInit {
							c.Fail("c15.next", in, "c15-init-on-active", "state-init attached for an active account")
						}
					case 0, 1:
						si, _ := wallet.GenerateStateInit(pk, ver, o.net, derefInt(o.wc), o.sub)
						if !hasInit || out.List[0].U64() != 0 || !bytes.Equal(out.List[1].List[0].Bytes, mustHash(stateInitCell(&si))) {
							c.Fail("c15.next", in, "c15-init-missing", "no (or a wrong) state-init / non-zero seqno for a non-existent or uninitialised account")
						}
					}
				} else if kind != 3 {
					c.Fail("c15.next", in, "c15-next-failed", "NextMessageParams failed for a non-active account")
				}
			}
		}
	}
	// 2b. active accounts holding everything the contract can legitimately store: per version x 0..3 dictionary
	// entries x seqno boundaries; NextMessageParams must return the stored seqno and no state-init, and the
	// library's decoding of the data must give back the fields
	for _, ver := range c14SendVersions {
		for n := 0; n <= 3; n++ {
			for rep := 0; rep < c.Scale(2, 10); rep++ {
				if n > 0 && (ver == wallet.V3R1 || ver == wallet.V3R2) && rep > 0 {
					continue
				}
				seed := c14Seed(r)
				pk := ed25519.NewKeyFromSeed(seed).Public().(ed25519.PublicKey)
				d := c15WellFormed(r, ver, c15Seqnos(r, ver), n)
				in := sx.L(sx.Nat(int(ver)), sx.Bytes(pk), randOpts(r).sx(), sx.L(sx.A("active"), cellToSx(d.cell)), sx.Bytes(seed))
				out := c.Emit("c15.next", in, fmt.Sprintf("next|v%d|wellformed|entries=%d", int(ver), n))
				if out.K != sx.KL || len(out.List) != 3 {
					c.Fail("c15.next", in, "c15-active-data-rejected", fmt.Sprintf("NextMessageParams fails on well-formed data of an active account with %d dictionary entries", n))
					continue
				}
				if out.List[0].U64() != d.seqno || len(out.List[1].List) != 0 {
					c.Fail("c15.next", in, "c15-active-seqno", "NextMessageParams does not return the stored seqno without state-init for an active account")
				}
				if ver == wallet.V5R1 {
					// GetW5R1ExtensionsList reads the same dictionary
					ext, err := wallet.GetW5R1ExtensionsList(shardAccount(sx.L(sx.A("active"), cellToSx(d.cell))), -1)
					okList := err == nil && len(ext) == len(d.keys)
					for _, k := range d.keys {
						var a ton.AccountID
						a.Workchain = -1
						for i := 0; i < 256; i++ {
							if k[i] == '1' {
								a.Address[i/8] |= 1 << uint(7-i%8)
							}
						}
						if _, ok := ext[a]; !ok {
							okList = false
						}
					}
					if !okList {
						c.Fail("c15.next", in, "c15-extensions-list", "GetW5R1ExtensionsList does not list exactly the installed extensions")
					}
				}
				if out.List[2].String() != d.fields().String() {
					c.Fail("c15.next", in, "c15-data-fields", "the decoded data struct differs from the stored fields: "+out.List[2].String()+" / "+d.fields().String())
				}
			}
		}
	}
	// 2c. histories on ONE wallet object: calls interleaved with the caller overwriting the values it was handed
	// (returned *StateInit, the Init of NextMsgParams, its copy of the address); every answer must be the answer of a
	// fresh wallet
	for _, ver := range c15AddrVersions {
		for rep := 0; rep < c.Scale(3, 12); rep++ {
			seed := c14Seed(r)
			pk := ed25519.NewKeyFromSeed(seed).Public().(ed25519.PublicKey)
			o := randOpts(r)
			var ops []sx.V
			n := 4 + r.Intn(6)
			for i := 0; i < n; i++ {
				switch k := r.Intn(10); {
				case k < 3 || i == 0:
					ops = append(ops, sx.A("stateinit"))
				case k < 6:
					ops = append(ops, sx.L(sx.A("mutate"), sx.Nat(r.Intn(5)), cellToSx(randTinyCell(r, 1))))
				case k < 7:
					ops = append(ops, sx.A("address"))
				case k < 8:
					nk := ed25519.NewKeyFromSeed(r.Bytes(32))
					if r.Chance(30) {
						nk = make([]byte, 64) // wiped
					}
					ops = append(ops, sx.L(sx.A("rekey"), sx.Nat(0), sx.L(), sx.Bytes(nk)))
				default:
					st, _ := acctSx(r, ver, r.Intn(4))
					ops = append(ops, sx.L(sx.A([]string{"next", "poll", "poll"}[r.Intn(3)]), st))
				}
			}
			if rep == 0 { // the plain scenario: get, overwrite, get again, send to a non-existent account
				ops = []sx.V{sx.A("stateinit"), sx.L(sx.A("mutate"), sx.Nat(0), cellToSx(randTinyCell(r, 1))), sx.A("stateinit"),
					sx.L(sx.A("next"), sx.A("none")), sx.L(sx.A("mutate"), sx.Nat(4), cellToSx(randTinyCell(r, 0))), sx.L(sx.A("next"), sx.A("uninit")),
					sx.A("address"), sx.A("stateinit")}
			}
			if rep == 2 && int(ver) >= int(wallet.V3R1) {
				// polls into one variable: active, deleted, active again, uninitialised, frozen, deleted
				act := func(seq uint64) sx.V {
					return sx.L(sx.A("active"), cellToSx(c15WellFormed(r, ver, seq, r.Intn(2)).cell))
				}
				ops = []sx.V{sx.L(sx.A("poll"), act(7)), sx.L(sx.A("poll"), sx.A("none")), sx.L(sx.A("poll"), act(9)), sx.L(sx.A("poll"), sx.A("uninit")),
					sx.L(sx.A("poll"), sx.A("frozen")), sx.L(sx.A("poll"), sx.A("none")), sx.L(sx.A("poll"), act(1<<32-1)), sx.L(sx.A("poll"), sx.A("none"))}
			}
			if rep == 1 { // a key buffer reused for the next wallet: the first wallet must keep its identity
				ops = []sx.V{sx.A("stateinit"), sx.L(sx.A("rekey"), sx.Nat(0), sx.L(), sx.Bytes(ed25519.NewKeyFromSeed(r.Bytes(32)))), sx.A("stateinit"),
					sx.A("address"), sx.L(sx.A("next"), sx.A("none")), sx.L(sx.A("next"), sx.A("uninit"))}
			}
			in := sx.L(sx.Nat(int(ver)), sx.Bytes(pk), o.sx(), sx.Bytes(seed), sx.L(ops...))
			out := c.Emit("c15.history", in, fmt.Sprintf("history|v%d|len=%d", int(ver), len(ops)/3))
			if ref := historyRun(ver, seed, o, ops, true); out.String() != ref.String() {
				c.Fail("c15.history", in, "c15-history-dependence", "an answer of a reused wallet object differs from the answer of a fresh wallet: "+trunc(out.String(), 300)+" / "+trunc(ref.String(), 300))
			}
		}
	}
	// 3. SendV2 against scripted histories
	type hist struct {
		polls []int64 // >=0 seqno answer, -1 error
		last  int64
		name  string
	}
	mkHists := func(sent uint64) []hist {
		s := int64(sent)
		return []hist{
			{nil, s + 1, "first-poll"},
			{[]int64{s, s + 1}, s + 1, "second-poll"},
			{[]int64{-1, s, s + 1}, s + 1, "errors-then-advance"},
			{[]int64{s, s - 1, s + 5}, 0, "jump"},
			{nil, s, "never-advances"},
			{nil, -1, "always-error"},
			{[]int64{-1, s, 0}, s, "lower-then-equal"},
		}
	}
	ns := c.Scale(2, 8)
	for _, ver := range c14SendVersions {
		for kind := 0; kind < 5; kind++ {
			for rep := 0; rep < ns; rep++ {
				seed := c14Seed(r)
				pk := ed25519.NewKeyFromSeed(seed).Public().(ed25519.PublicKey)
				o := randOpts(r)
				var st sx.V
				label := "staterr"
				sent := uint64(0)
				if kind == 4 {
					st = sx.A("staterr")
				} else {
					st, label = acctSx(r, ver, kind)
				}
				if kind == 3 && st.K == sx.KL {
					// the seqno the model/implementation will use is in the data; recover it for the script
					w, err := wallet.New(ed25519.NewKeyFromSeed(seed), ver, &fakeChain{}, o.options()...)
					if err == nil {
						if p, e := wallet.VerifNextMessageParams(&w, shardAccount(st)); e == nil {
							sent = uint64(p.Seqno)
						}
					}
				}
				n := r.Intn(4)
				if r.Chance(8) {
					n = c14Max(ver) + 1
				}
				var ms rawMsgs
				var ssx []sx.V
				for len(ms) < n {
					sd := randSendable(r)
					m, err := sd.raw()
					if err != nil {
						continue // a ContractDeploy without data
					}
					ms = append(ms, m)
					ssx = append(ssx, sd.sx())
				}
				hs := mkHists(sent)
				h := hs[(int(ver)+kind+rep+int(c.Seed))%len(hs)]
				wait := int64(0)
				if r.Chance(75) {
					wait = 200
				}
				var script []sx.V
				for _, p := range h.polls {
					if p < 0 || p > 0xffffffff {
						if p > 0xffffffff {
							script = append(script, sx.L(sx.N(uint64(p)&0xffffffff)))
						} else {
							script = append(script, sx.L())
						}
					} else {
						script = append(script, sx.L(sx.N(uint64(p))))
					}
				}
				last := sx.L()
				if h.last >= 0 {
					last = sx.L(sx.N(uint64(h.last) & 0xffffffff))
				}
				life := c14Lifetimes[(int(ver)+kind+rep+int(c.Seed))%len(c14Lifetimes)]
				in := sx.L(sx.Nat(int(ver)), sx.Bytes(pk), o.sx(), st, ms.sx(), sx.Z(wait), sx.B(r.Chance(8)), sx.L(script...), last, sx.L(ssx...), optZsx(life), sx.Bytes(seed))
				sendErr := in.List[6].Bool
				out := c.Emit("c15.send", in, fmt.Sprintf("send|v%d|%s|wait=%d|%s", int(ver), c15Coarse(label), wait, c15HistBucket(h.name)))
				// oracle: the verdict of a send that reached SendMessage, from the script alone
				// (scripts advance at poll <= 2, i.e. 40 ms into a 200 ms deadline, or never, so scheduling cannot change the verdict)
				if out.K == sx.KL && len(out.List) == 2 && out.List[1].K == sx.KL && len(out.List[1].List) == 6 {
					want := "err"
					switch {
					case sendErr:
					case wait == 0:
						want = "ok"
					case ver == wallet.HighLoadV2R2:
					default:
						for i := 0; i < 10; i++ {
							a := h.last
							if i < len(h.polls) {
								a = h.polls[i]
							}
							if a >= 0 && uint64(uint32(a)) > sent {
								want = "ok"
								break
							}
						}
					}
					if !out.List[0].IsA(want) {
						c.Fail("c15.send", in, "c15-confirmation", fmt.Sprintf("send returned %s, the poll history (%s) requires %s", out.List[0].String(), h.name, want))
					}
					// expiry = now + the lifetime the wallet was configured with
					wantLife := int64(wallet.DefaultMessageLifetime)
					if life != nil {
						wantLife = *life
					}
					if out.List[1].List[5].U64() != uint64(uint32(floorDiv(wantLife, 1000000000))) {
						c.Fail("c15.send", in, "c15-send-expiry", "the sent message does not expire at now + the configured lifetime")
					}
					// the seqno in the message is the one stored in the account data (0 when not active)
					if ver != wallet.HighLoadV2R2 && out.List[1].List[3].U64() != sent {
						c.Fail("c15.send", in, "c15-seqno", "the message does not carry the seqno of the account data")
					}
					hasInit := len(out.List[1].List[2].List) == 1
					if (kind == 3) == hasInit && ver != wallet.HighLoadV2R2 {
						c.Fail("c15.send", in, "c15-init-choice", "state-init attached for an active account or missing for a non-active one")
					}
				}
			}
		}
	}
}

// TON mnemonic -> key, written from the specification (HMAC-SHA512 of the phrase with an empty message as the
// entropy; PBKDF2-HMAC-SHA512 with salt "TON seed version", floor(100000/256) iterations, first byte must be 0;
// PBKDF2 with salt "TON default seed", 100000 iterations, 32 bytes = Ed25519 seed), independent of wallet/seed.go
// and of x/crypto/pbkdf2
func pbkdf2Sha512Block1(password, salt []byte, iter int) []byte {
	mac := hmac.New(sha512.New, password)
	mac.Write(salt)
	mac.Write([]byte{0, 0, 0, 1})
	u := mac.Sum(nil)
	t := append([]byte{}, u...)
	for i := 1; i < iter; i++ {
		mac.Reset()
		mac.Write(u)
		u = mac.Sum(nil)
		for j := range t {
			t[j] ^= u[j]
		}
	}
	return t
}

func tonEntropy(mnemonic string) []byte {
	mac := hmac.New(sha512.New, []byte(mnemonic))
	return mac.Sum(nil)
}

func tonVersionByte(mnemonic string) byte {
	return pbkdf2Sha512Block1(tonEntropy(mnemonic), []byte("TON seed version"), 100000/256)[0]
}

func tonSeed(mnemonic string) []byte {
	return pbkdf2Sha512Block1(tonEntropy(mnemonic), []byte("TON default seed"), 100000)[:32]
}

var c15Words = []string{"abandon", "ability", "able", "about", "above", "absent", "absorb", "abstract", "zoo", "zone", "zero", "youth",
	"wolf", "window", "velvet", "uncle", "table", "quantum", "ocean", "lemon", "kitten", "jungle", "ivory", "harvest", "x", "Word", "ÿ"}

func randPhrase(r *prng.R, n int) string {
	ws := make([]string, n)
	for i := range ws {
		ws[i] = c15Words[r.Intn(len(c15Words))]
	}
	return strings.Join(ws, " ")
}

// a phrase of n words whose version byte is 0 (about 256 tries)
func validPhrase(r *prng.R, n int) string {
	for {
		p := randPhrase(r, n)
		if tonVersionByte(p) == 0 {
			return p
		}
	}
}

func emitMnemonic(c *Ctx, mn, family string, wantOK bool) {
	seed := tonSeed(mn)
	pk := ed25519.NewKeyFromSeed(seed).Public().(ed25519.PublicKey)
	in := sx.L(sx.Nat(int(wallet.V4R2)), sx.Bytes(pk), wopts{}.sx(), sx.Bytes(seed), sx.L(sx.Str(mn), sx.N(uint64(tonVersionByte(mn)))))
	out := c.Emit("c15.addr", in, "addr|mnemonic|"+family)
	if out.K != sx.KL {
		return
	}
	gotOK := out.List[0].K == sx.KL
	if gotOK != wantOK {
		c.Fail("c15.addr", in, "c15-mnemonic", fmt.Sprintf("mnemonic (%s) accepted=%v, expected %v", family, gotOK, wantOK))
	}
	if gotOK && out.List[0].String() != out.List[1].String() {
		c.Fail("c15.addr", in, "c15-mnemonic", "the wallet of a mnemonic is not the v4r2 wallet of the key the specification derives from it")
	}
	if priv, err := wallet.SeedToPrivateKey(mn); (err == nil) != wantOK || (err == nil && !bytes.Equal(priv.Seed(), seed)) {
		c.Fail("c15.addr", in, "c15-mnemonic", "SeedToPrivateKey disagrees with the specified derivation")
	}
}

var c15Mnemonics = []string{
	"kind frog range layer call dad mention hole whip civil merit enable ancient onion install stone honey camp turtle length wine tattoo quote grid",
	"mouse tank green candy relief table ecology waste boost round usage link corn ghost unaware cute cannon cannon hold primary true dove mix dilemma",
	"salt okay mystery scatter grain monitor alley cactus view token cancel paddle direct stick among render tooth vessel book when behave faith fitness pen",
}

func c15b2i(b bool) int {
	if b {
		return 1
	}
	return 0
}

func c15Coarse(label string) string {
	if len(label) > 9 && label[:9] == "active-wf" {
		if label == "active-wf0" {
			return "active0"
		}
		return "active-dict"
	}
	if len(label) > 6 && label[:6] == "active" && label != "active0" {
		return "active-odd"
	}
	return label
}

func c15HistBucket(name string) string {
	switch name {
	case "never-advances", "always-error", "lower-then-equal":
		return "never"
	}
	return "advances"
}

func derefInt(p *int) int {
	if p == nil {
		return 0
	}
	return *p
}

// the identifiers that enter the initial data, as the code resolves them
func resolvedIDs(ver wallet.Version, o wopts) string {
	wc := derefInt(o.wc)
	switch ver {
	case wallet.V3R1, wallet.V3R2, wallet.V4R1, wallet.V4R2, wallet.HighLoadV2R2:
		sub := uint32(698983191 + wc)
		if o.sub != nil {
			sub = *o.sub
		}
		return fmt.Sprintf("sub=%d", sub)
	case wallet.V5Beta:
		sub := uint32(0)
		if o.sub != nil {
			sub = *o.sub
		}
		net := int32(-239)
		if o.net != nil {
			net = *o.net
		}
		return fmt.Sprintf("net=%d wc8=%d sub=%d", net, uint8(wc), sub)
	case wallet.V5R1:
		net := int32(-239)
		if o.net != nil {
			net = *o.net
		}
		ctx := uint32(1)<<31 | uint32(uint8(wc))<<23
		return fmt.Sprintf("wid=%d", ctx^uint32(net))
	}
	return ""
}
