package main

// C02, round 8 (b): PROOF-BUILDING OPERATIONS ONLY READ THEIR SOURCE.
//
// The class of slips: an operation that must only read the tree it is given
// (NewMerkleProver, Cursor / Prune / CreateProof, pruneCells,
// tlb.ProveKeyInHashmap) writing into it — typically through a slice that is a
// window into a source cell's buffer — so that the hash of a cell afterwards
// depends on what has been done with the tree before.
//
// One case = a source DAG and a program of proof-building steps on it (several
// proofs from ONE prover, a new prover on the same live tree, the in-memory
// pruneCells, ProveKeyInHashmap).  Before the first step the source is
// recorded at EVERY cell: data bits, type, mask, (hash, depth) at levels 0..3
// by newImmutableCell with a fresh cache, Cell.Hash(), a fresh Hasher, and the
// BOC bytes of the root.  After EVERY step everything is computed again and
// compared.  In addition every proof a step returns must be byte-identical
// with the proof a new prover makes from an independently rebuilt copy of the
// source that no operation has touched, and its body must have the level-0
// hash of the source root.
//
// Sources: trees that themselves contain pruned branches of EVERY mask 1..7
// (two or three stored hashes for 3, 5, 6, 7: bodies of proofs of Merkle
// updates), library cells, and exotic DAGs with Merkle cells (the builder
// refuses them: a failing step must leave the source alone as well);
// dictionaries in which sub-dictionaries are replaced by such pruned branches.
// Programs prune exactly the positions of those pruned branches, their
// parents, their siblings, the root, and random positions.
// Oracle on the implementation only.

import (
	"bytes"
	"encoding/hex"
	"fmt"

	"github.com/tonkeeper/tongo/boc"
	"github.com/tonkeeper/tongo/tlb"

	"verifharness/prng"
	"verifharness/sx"
)

func init() {
	execs["c02.srcintact"] = execC02SrcIntact
}

// steps: (0 paths) CreateProof on the case's prover, (1 paths) pruneCells on it,
// (2 keybits) tlb.ProveKeyInHashmap on it, (3 paths) CreateProof on a NEW
// prover of the same live tree
const (
	c02siProof = iota
	c02siPrune
	c02siKey
	c02siNewProver
)

var c02siFields = []string{"data bits", "type/mask/refs", "(hash depth) at level 0", "(hash depth) at level 1",
	"(hash depth) at level 2", "(hash depth) at level 3", "Cell.Hash()", "NewHasher().Hash()", "BOC bytes"}

func c02siHex(b []byte, err error) string {
	if err != nil {
		return "err"
	}
	return hex.EncodeToString(b)
}

// everything the property speaks about, for every cell of the source
func c02siSnap(cells []*boc.Cell) [][]string {
	rows := make([][]string, len(cells))
	for i, q := range cells {
		rows[i] = c02siRow(q, i == 0)
	}
	return rows
}

func c02siRow(q *boc.Cell, withBoc bool) (row []string) {
	defer func() {
		if r := recover(); r != nil {
			row = append(row, fmt.Sprintf("panic: %v", r))
		}
	}()
	rb := q.RawBitString()
	row = append(row, bitsOf(&rb))
	row = append(row, fmt.Sprintf("type %d mask %d refs %d level %d", q.CellType(), boc.VerifMask(q), q.RefsSize(), q.Level()))
	for l := 0; l <= 3; l++ {
		row = append(row, levelInfo(q, l).String())
	}
	row = append(row, c02siHex(q.Hash()))
	row = append(row, c02siHex(boc.NewHasher().Hash(q)))
	if withBoc {
		row = append(row, c02siHex(q.ToBocCustom(false, false, false, 0)))
	}
	return row
}

func c02siDiff(before, after [][]string) (cell int, what string, differs bool) {
	// the deepest cell first: the cell that was written to, not its ancestors
	for i := len(before) - 1; i >= 0; i-- {
		for f := range before[i] {
			a := "(missing)"
			if f < len(after[i]) {
				a = after[i][f]
			}
			if a != before[i][f] {
				name := "?"
				if f < len(c02siFields) {
					name = c02siFields[f]
				}
				return i, fmt.Sprintf("%s: before %s, after %s", name, c02siCut(before[i][f], a), c02siCut(a, before[i][f])), true
			}
		}
	}
	return 0, "", false
}

// the part of s around the first position where it differs from t
func c02siCut(s, t string) string {
	k := 0
	for k < len(s) && k < len(t) && s[k] == t[k] {
		k++
	}
	from := k - 12
	if from < 0 {
		from = 0
	}
	to := minInt(len(s), k+36)
	return fmt.Sprintf("...[%d]%s...", from, s[from:to])
}

func c02siPaths(v sx.V) [][]int {
	var ps [][]int
	for _, p := range v.List {
		var q []int
		for _, k := range p.List {
			q = append(q, k.I())
		}
		ps = append(ps, q)
	}
	return ps
}

// one step; returns the proof bytes if the step produced one
func c02siStep(prover *boc.MerkleProver, root *boc.Cell, op sx.V) (proof []byte, made bool) {
	defer func() {
		if r := recover(); r != nil {
			proof, made = nil, false
		}
	}()
	switch op.List[0].I() {
	case c02siProof:
		p, err := prover.CreateProof(c02Cursor(prover, op.List[1]))
		return p, err == nil
	case c02siPrune:
		_, _ = boc.VerifPruneCells(prover, c02Cursor(prover, op.List[1]))
		return nil, false
	case c02siKey:
		root.ResetCounters()
		_, p, err := tlb.ProveKeyInHashmap[tlb.Uint32](prover, root, bitStringOf(op.List[1].Bits))
		return p, err == nil
	default:
		np, err := boc.NewMerkleProver(root)
		if err != nil {
			return nil, false
		}
		p, err := np.CreateProof(c02Cursor(np, op.List[1]))
		return p, err == nil
	}
}

// c02.srcintact: (dag (step ...)) -> 'ok | 'err | ('modified j cell what) | ('proof j what)
// j = number of the step (0 = NewMerkleProver itself)
func execC02SrcIntact(in sx.V) sx.V {
	dag := dagFromSx(in.List[0])
	cells, err := buildGo(dag)
	if err != nil {
		return sx.A("err")
	}
	before := c02siSnap(cells)
	check := func(j int) (sx.V, bool) {
		if i, what, bad := c02siDiff(before, c02siSnap(cells)); bad {
			return sx.L(sx.A("modified"), sx.Nat(j), sx.Nat(i), sx.Bytes([]byte(what))), true
		}
		return sx.V{}, false
	}
	prover, err := boc.NewMerkleProver(cells[0])
	if out, bad := check(0); bad {
		return out
	}
	if err != nil {
		return sx.A("err")
	}
	for j, op := range in.List[1].List {
		proof, made := c02siStep(prover, cells[0], op)
		if out, bad := check(j + 1); bad {
			return out
		}
		if !made {
			continue
		}
		// the same step on a copy of the source nothing has been done with
		fresh, err := buildGo(dag)
		if err != nil {
			return sx.A("err")
		}
		fp, err := boc.NewMerkleProver(fresh[0])
		if err != nil {
			return sx.L(sx.A("proof"), sx.Nat(j+1), sx.Bytes([]byte("a new prover on a rebuilt copy of the source fails")))
		}
		want, ok := c02siStep(fp, fresh[0], op)
		if !ok || !bytes.Equal(want, proof) {
			return sx.L(sx.A("proof"), sx.Nat(j+1), sx.Bytes([]byte(fmt.Sprintf("the proof differs from the proof a new prover makes from a rebuilt, untouched copy of the source: %s, untouched %s",
				c02siCut(hex.EncodeToString(proof), hex.EncodeToString(want)), c02siCut(hex.EncodeToString(want), hex.EncodeToString(proof))))))
		}
		// Merkle invariant: the body has the level-0 hash and depth of the source root
		parsed, err := boc.DeserializeBoc(proof)
		if err != nil || len(parsed) != 1 || parsed[0].RefsSize() != 1 {
			return sx.L(sx.A("proof"), sx.Nat(j+1), sx.Bytes([]byte("the proof is not a single-root bag with one reference")))
		}
		if got, want := levelInfo(parsed[0].Refs()[0], 0).String(), before[0][2]; got != want {
			return sx.L(sx.A("proof"), sx.Nat(j+1), sx.Bytes([]byte(fmt.Sprintf("level-0 (hash depth) of the proof body %s, of the source root %s", trunc(got, 90), trunc(want, 90)))))
		}
		pb := parsed[0].RawBitString()
		if stored := bitsOf(&pb); len(stored) != 280 || stored[8:264] != hexBits(mustHex(before[0][2])) {
			return sx.L(sx.A("proof"), sx.Nat(j+1), sx.Bytes([]byte("the hash stored in the Merkle-proof cell is not the level-0 hash of the source root")))
		}
	}
	return sx.A("ok")
}

// the hash of a levelInfo string "( x<hex> n.. )"
func mustHex(li string) []byte {
	for i := 0; i < len(li); i++ {
		if li[i] == 'x' {
			j := i + 1
			for j < len(li) && li[j] != ' ' && li[j] != ')' {
				j++
			}
			b, _ := hex.DecodeString(li[i+1 : j])
			return b
		}
	}
	return nil
}

// ------------------------------------------------------------- generator

// a pruned branch of mask m with independent hashes and depths per level
func c02siPruned(r *prng.R, m uint8) Node {
	k := popcount8(m)
	depths := make([]int, k)
	for j := range depths {
		depths[j] = r.Intn(900)
		if r.Chance(10) {
			depths[j] = r.Intn(3)
		}
	}
	return prunedDepths(r, m, depths)
}

// masks of pruned branches in sources: two or three stored hashes most of the time
func c02siMask(r *prng.R) uint8 {
	if r.Chance(75) {
		return []uint8{3, 5, 6, 7}[r.Intn(4)]
	}
	return uint8(1 + r.Intn(7))
}

// source trees: ordinary cells, library cells, pruned branches of masks 1..7;
// at least one pruned branch below the root; masks by the rule.
// Returns the DAG and the indices of its pruned branches.
func c02siSrcDag(r *prng.R, size int) ([]Node, []int) {
	dag := randDag(r, size)
	for i := len(dag) - 1; i >= 1; i-- {
		if len(dag[i].Bits) > 160 {
			dag[i].Bits = dag[i].Bits[:r.Intn(160)]
		}
		switch k := r.Intn(20); {
		case k == 0:
			dag[i] = Node{Special: true, Bits: hexBits(append([]byte{2}, r.Bytes(32)...))}
		case k <= 4:
			dag[i] = c02siPruned(r, c02siMask(r))
		}
	}
	if len(dag[0].Refs) > 0 { // one for certain, reachable: a direct or a later cell
		at := dag[0].Refs[r.Intn(len(dag[0].Refs))]
		if r.Chance(60) {
			at = 1 + r.Intn(len(dag)-1)
		}
		dag[at] = c02siPruned(r, c02siMask(r))
	}
	dag = compactDag(dag)
	ruleMasks(dag)
	var hot []int
	for i, nd := range dag {
		if i > 0 && nodeType(nd) == 1 {
			hot = append(hot, i)
		}
	}
	return dag, hot
}

// prune sets aimed at the pruned branches of the source: the position itself,
// its parent, a sibling, the root, anything
func c02siPrunes(r *prng.R, dag []Node, hot []int) [][]int {
	to := pathsTo(dag)
	var any [][]int
	for j := range dag {
		if p, ok := to[j]; ok {
			any = append(any, p)
		}
	}
	var paths [][]int
	for k := 1 + r.Intn(3); k > 0; k-- {
		x := r.Intn(100)
		switch {
		case x < 60 && len(hot) > 0:
			paths = append(paths, to[hot[r.Intn(len(hot))]])
		case x < 70 && len(hot) > 0: // the parent
			p := to[hot[r.Intn(len(hot))]]
			paths = append(paths, p[:len(p)-1])
		case x < 80 && len(hot) > 0: // a sibling
			p := append([]int{}, to[hot[r.Intn(len(hot))]]...)
			par := 0
			for _, s := range p[:len(p)-1] {
				par = dag[par].Refs[s]
			}
			p[len(p)-1] = r.Intn(len(dag[par].Refs))
			paths = append(paths, p)
		case x < 83:
			paths = append(paths, []int{})
		default:
			paths = append(paths, any[r.Intn(len(any))])
		}
	}
	return paths
}

func c02siRun(c *Ctx, dag []Node, steps []sx.V, class string) {
	in := sx.L(dagSx(dag), sx.L(steps...))
	out := safeExec("c02.srcintact", in)
	c.Note("c02.srcintact", class, in)
	if out.String() == "'ok" || out.String() == "'err" {
		return
	}
	stepName := func(j int) string {
		if j == 0 {
			return "NewMerkleProver"
		}
		op := steps[j-1]
		name := []string{"CreateProof", "pruneCells", "tlb.ProveKeyInHashmap", "CreateProof of a new prover on the same tree"}[op.List[0].I()%4]
		return fmt.Sprintf("step %d, %s %s", j, name, trunc(op.List[1].String(), 120))
	}
	if out.K == sx.KL && len(out.List) == 4 && out.List[0].IsA("modified") {
		i := out.List[2].I()
		c.Fail("c02.srcintact", in, "source-modified", trunc(fmt.Sprintf("the source tree is not what it was after %s: cell %d (type %d, mask %d, %d refs) %s",
			stepName(out.List[1].I()), i, nodeType(dag[i]), dag[i].Mask, len(dag[i].Refs), out.List[3].Bytes), 900))
		return
	}
	if out.K == sx.KL && len(out.List) == 3 && out.List[0].IsA("proof") {
		c.Fail("c02.srcintact", in, "proof-of-used-source", trunc(fmt.Sprintf("%s: %s", stepName(out.List[1].I()), out.List[2].Bytes), 900))
		return
	}
	c.Fail("c02.srcintact", in, "source-panic", "examining the source tree after the proof-building steps: "+trunc(out.String(), 300))
}

func genC02SourceIntact(c *Ctx) {
	r := c.R.Fork(0x0209) // own stream: the other families keep their cases
	// A. cursor programs on trees holding pruned branches of masks 1..7
	for i := 0; i < c.Scale(160, 5000); i++ {
		var dag []Node
		var hot []int
		fam := "levels"
		if i%6 == 5 { // Merkle cells inside: the builder refuses; nothing may change either
			dag = smallTree(60, func() []Node { return exoticDag(r, 3+r.Intn(10)) })
			for j, nd := range dag {
				if j > 0 && nodeType(nd) == 1 {
					hot = append(hot, j)
				}
			}
			to := pathsTo(dag)
			kept := hot[:0]
			for _, h := range hot {
				if _, ok := to[h]; ok {
					kept = append(kept, h)
				}
			}
			hot = kept
			fam = "exotic"
		} else {
			for {
				dag, hot = c02siSrcDag(r, 3+r.Intn(12))
				if unfoldedSize(dag) <= 60 {
					break
				}
			}
		}
		multi := 0
		for _, h := range hot {
			if popcount8(dag[h].Mask) >= 2 {
				multi++
			}
		}
		var steps []sx.V
		rounds := 1 + r.Intn(3)
		for k := 0; k < rounds; k++ {
			kind := c02siProof
			switch x := r.Intn(10); {
			case x < 2:
				kind = c02siPrune
			case x < 4:
				kind = c02siNewProver
			}
			paths := c02siPrunes(r, dag, hot)
			if k == 0 && fam == "levels" && i%5 == 0 {
				// the proof made from such a source also against the extracted model of
				// pruneCells / CreateProof (stored-hash extraction of the replaced pruned
				// branch at level 0).  Not through c02BuiltOracle: for sources of level
				// 2 or 3 the builder keeps the source cells' masks and gives the proof cell
				// mask 0, which the TON-rule oracles of that family would report.
				kind = c02siProof
				bin := sx.L(dagSx(dag), sx.Nat(0), pathsSx(paths))
				c.Emit("c02.built", bin, fmt.Sprintf("cursor-levels-src|multi-hash-pruned%d|prunes%d", minInt(multi, 3), len(paths)))
			}
			steps = append(steps, sx.L(sx.Nat(kind), pathsSx(paths)))
		}
		c02siRun(c, dag, steps, fmt.Sprintf("cursor-%s|multi-hash-pruned%d|steps%d", fam, minInt(multi, 3), rounds))
	}
	// B. tlb.ProveKeyInHashmap on dictionaries in which sub-dictionaries / leaves
	// are pruned branches of masks 1..7 (the siblings along the key's path are pruned)
	for i := 0; i < c.Scale(60, 2000); i++ {
		width := 2 + r.Intn(12)
		dag, keys, _ := randDict(r, width, 2+r.Intn(9))
		if unfoldedSize(dag) > 60 || len(dag) < 3 {
			continue
		}
		repl := 1 + r.Intn(2)
		for k := 0; k < repl; k++ {
			dag[1+r.Intn(len(dag)-1)] = c02siPruned(r, c02siMask(r))
		}
		dag = compactDag(dag)
		ruleMasks(dag)
		var steps []sx.V
		nk := 1 + r.Intn(3)
		for k := 0; k < nk; k++ {
			steps = append(steps, sx.L(sx.Nat(c02siKey), sx.Bits(keys[r.Intn(len(keys))])))
		}
		if r.Chance(30) { // then a cursor proof from the same prover
			var hot []int
			for j, nd := range dag {
				if j > 0 && nodeType(nd) == 1 {
					hot = append(hot, j)
				}
			}
			steps = append(steps, sx.L(sx.Nat(c02siProof), pathsSx(c02siPrunes(r, dag, hot))))
		}
		c02siRun(c, dag, steps, fmt.Sprintf("key|width%d|keys%d", minInt(width, 8), nk))
	}
}
