package main

// C20 — JSON forms of chain values parse back to the same value.
//
// Case kinds (value and document encodings are described in coq/Harness/H20.v):
//
//	c20.print  (fam arg value) -> text | 'err     json.Marshal(value)
//	c20.parse  (fam arg doc)   -> value | 'err    json.Unmarshal(doc, &x)
//	c20.method (fam arg bytes) -> value | 'err    x.UnmarshalJSON(bytes)

import (
	"bytes"
	"encoding/hex"
	"encoding/json"
	"fmt"
	"math/big"
	"strings"
	"time"

	"github.com/tonkeeper/tongo/boc"
	"github.com/tonkeeper/tongo/tl"
	"github.com/tonkeeper/tongo/tlb"
	"github.com/tonkeeper/tongo/ton"

	"verifharness/prng"
	"verifharness/sx"
)

type ops20 struct {
	marshal    func(val sx.V) ([]byte, error)
	unmarshal  func(doc []byte, direct bool) (sx.V, error)
	mMarshal   func(val sx.V) ([]byte, error) // tlb.Maybe[T]; val = 'none | (some v)
	mUnmarshal func(doc []byte, direct bool) (sx.V, error)
	// reuse: Unmarshal into a receiver that already holds the value prev
	reuse func(prev sx.V, doc []byte, direct bool) (sx.V, error)
	// after: decode doc1, then decode doc2 into another receiver, then look at the first value
	after func(doc1, doc2 []byte) (sx.V, error)
}

type jsonPtr20[T any] interface {
	*T
	json.Unmarshaler
}

func mkOps20[T any, P jsonPtr20[T]](from func(sx.V) T, to func(*T) sx.V) ops20 {
	return ops20{
		marshal: func(v sx.V) ([]byte, error) {
			// through the value and through a pointer to it: the same text
			x := from(v)
			b1, err1 := json.Marshal(x)
			b2, err2 := json.Marshal(&x)
			if (err1 == nil) != (err2 == nil) || !bytes.Equal(b1, b2) {
				return nil, fmt.Errorf("json.Marshal(v) and json.Marshal(&v) differ: %s / %s", b1, b2)
			}
			return b1, err1
		},
		unmarshal: func(doc []byte, direct bool) (sx.V, error) {
			var x T
			var err error
			d := append([]byte{}, doc...)
			if direct {
				err = P(&x).UnmarshalJSON(d)
			} else {
				err = json.Unmarshal(d, &x)
			}
			if err != nil {
				return sx.V{}, err
			}
			// the decoded value must not alias the caller's buffer
			for i := range d {
				d[i] = 'X'
			}
			return to(&x), nil
		},
		after: func(doc1, doc2 []byte) (sx.V, error) {
			// a result kept by the caller and inspected after a later call
			var x1, x2 T
			if err := json.Unmarshal(doc1, &x1); err != nil {
				return sx.V{}, err
			}
			if err := json.Unmarshal(doc2, &x2); err != nil {
				return sx.V{}, err
			}
			_, _ = json.Marshal(x2)
			return to(&x1), nil
		},
		reuse: func(prev sx.V, doc []byte, direct bool) (sx.V, error) {
			x := from(prev)
			var err error
			if direct {
				err = P(&x).UnmarshalJSON(doc)
			} else {
				err = json.Unmarshal(doc, &x)
			}
			if err != nil {
				return sx.V{}, err
			}
			return to(&x), nil
		},
		mMarshal: func(v sx.V) ([]byte, error) {
			var m tlb.Maybe[T]
			if v.K == sx.KL {
				m.Exists = true
				m.Value = from(v.List[1])
			}
			return json.Marshal(m)
		},
		mUnmarshal: func(doc []byte, direct bool) (sx.V, error) {
			var m tlb.Maybe[T]
			var err error
			if direct {
				err = m.UnmarshalJSON(doc)
			} else {
				err = json.Unmarshal(doc, &m)
			}
			if err != nil {
				return sx.V{}, err
			}
			if !m.Exists {
				return sx.A("none"), nil
			}
			return sx.L(sx.A("some"), to(&m.Value)), nil
		},
	}
}

var (
	c20UintOps = map[int]ops20{}
	c20IntOps  = map[int]ops20{}
	c20BigOps  = map[int]ops20{}
	c20BigName = map[int]string{}
	c20BitsOps = map[int]ops20{}
	c20Single  = map[string]ops20{}
)

func regU20[T ~uint8 | ~uint16 | ~uint32 | ~uint64, P jsonPtr20[T]](w int) {
	c20UintOps[w] = mkOps20[T, P](func(v sx.V) T { return T(v.U64()) }, func(x *T) sx.V { return sx.N(uint64(*x)) })
}

func regI20[T ~int8 | ~int16 | ~int32 | ~int64, P jsonPtr20[T]](w int) {
	c20IntOps[w] = mkOps20[T, P](func(v sx.V) T { return T(v.Int.Int64()) }, func(x *T) sx.V { return sx.Z(int64(*x)) })
}

func regBig20[T bigT20, P jsonPtr20[T]](idx int, name string) {
	c20BigName[idx] = name
	c20BigOps[idx] = mkOps20[T, P](
		func(v sx.V) T { return T(*new(big.Int).Set(v.Int)) },
		func(x *T) sx.V { b := big.Int(*x); return sx.BigZ(&b) })
}

type addrVar20 = struct {
	Anycast     tlb.Maybe[tlb.Anycast]
	AddrLen     tlb.Uint9
	WorkchainId int32
	Address     boc.BitString
}

func anyFromSx20(v sx.V) tlb.Maybe[tlb.Anycast] {
	if v.K != sx.KL {
		return tlb.Maybe[tlb.Anycast]{}
	}
	return tlb.Maybe[tlb.Anycast]{Exists: true, Value: tlb.Anycast{Depth: uint32(v.List[0].U64()), RewritePfx: uint32(v.List[1].U64())}}
}

func anyToSx20(m tlb.Maybe[tlb.Anycast]) sx.V {
	if !m.Exists {
		return sx.A("no")
	}
	return sx.L(sx.N(uint64(m.Value.Depth)), sx.N(uint64(m.Value.RewritePfx)))
}

// writerBitString20 builds a bit string the way applications do: a buffer of
// len+slack bits filled through the public writers (WriteBytes for whole
// bytes, WriteUint for the next chunk, WriteBit for the rest).
func writerBitString20(bits string, slack int) boc.BitString {
	b := boc.NewBitString(len(bits) + slack)
	i := 0
	if len(bits)%3 != 0 {
		nb := len(bits) / 8
		if nb > 0 {
			buf := make([]byte, nb)
			for j := 0; j < nb*8; j++ {
				if bits[j] == '1' {
					buf[j/8] |= 0x80 >> uint(j%8)
				}
			}
			if err := b.WriteBytes(buf); err != nil {
				panic("c20: WriteBytes failed while building a value")
			}
			i = nb * 8
		}
		if rest := len(bits) - i; rest > 1 {
			w := rest - 1
			var v uint64
			for j := 0; j < w; j++ {
				v = v<<1 | uint64(bits[i+j]-'0')
			}
			if err := b.WriteUint(v, w); err != nil {
				panic("c20: WriteUint failed while building a value")
			}
			i += w
		}
	}
	for ; i < len(bits); i++ {
		if err := b.WriteBit(bits[i] == '1'); err != nil {
			panic("c20: WriteBit failed while building a value")
		}
	}
	return b
}

func addrFromSx20(v sx.V) tlb.MsgAddress { return addrFromSxSlack20(v, 0) }

func addrFromSxSlack20(v sx.V, slack int) tlb.MsgAddress {
	return addrFromSxWith20(v, func(bits string) boc.BitString { return writerBitString20(bits, slack) })
}

func addrFromSxWith20(v sx.V, mk func(bits string) boc.BitString) tlb.MsgAddress {
	var a tlb.MsgAddress
	switch v.Head() {
	case "none":
		a.SumType = "AddrNone"
	case "ext":
		bs := mk(v.List[1].Bits)
		a.SumType = "AddrExtern"
		a.AddrExtern = &bs
	case "std":
		a.SumType = "AddrStd"
		a.AddrStd.Anycast = anyFromSx20(v.List[1])
		a.AddrStd.WorkchainId = int8(v.List[2].Int.Int64())
		copy(a.AddrStd.Address[:], v.List[3].Bytes)
	case "var":
		a.SumType = "AddrVar"
		a.AddrVar = &addrVar20{
			Anycast:     anyFromSx20(v.List[1]),
			AddrLen:     tlb.Uint9(v.List[2].U64()),
			WorkchainId: int32(v.List[3].Int.Int64()),
			Address:     mk(v.List[4].Bits),
		}
	}
	return a
}

func addrToSx20(a *tlb.MsgAddress) sx.V {
	switch a.SumType {
	case "AddrNone":
		return sx.L(sx.A("none"))
	case "AddrExtern":
		return sx.L(sx.A("ext"), sx.Bits(bitsOf(a.AddrExtern)))
	case "AddrStd":
		return sx.L(sx.A("std"), anyToSx20(a.AddrStd.Anycast), sx.Z(int64(a.AddrStd.WorkchainId)), sx.Bytes(a.AddrStd.Address[:]))
	case "AddrVar":
		return sx.L(sx.A("var"), anyToSx20(a.AddrVar.Anycast), sx.N(uint64(a.AddrVar.AddrLen)), sx.Z(int64(a.AddrVar.WorkchainId)), sx.Bits(bitsOf(&a.AddrVar.Address)))
	}
	return sx.L(sx.A("harness-error"), sx.A("sumtype"))
}

// errBadBoc20 is raised (and turned into the outcome 'err) when the bytes the
// serialiser produced for a generated cell do not parse back to one root
type errBadBoc20 struct{}

func cellFromSx20(v sx.V) boc.Cell {
	cells, err := boc.DeserializeBoc(v.Bytes)
	if err != nil || len(cells) != 1 {
		panic(errBadBoc20{})
	}
	return *cells[0]
}

func cellToSx20(c *boc.Cell) sx.V {
	bs := c.RawBitString()
	return sx.L(sx.Bits(bitsOf(&bs)), sx.Nat(c.RefsSize()), sx.B(c.IsExotic()))
}

func init() {
	c20Single["grams"] = mkOps20(func(v sx.V) tlb.Grams { return tlb.Grams(v.U64()) }, func(x *tlb.Grams) sx.V { return sx.N(uint64(*x)) })
	c20Single["coins"] = mkOps20(func(v sx.V) tlb.SignedCoins { return tlb.SignedCoins(v.Int.Int64()) }, func(x *tlb.SignedCoins) sx.V { return sx.Z(int64(*x)) })
	c20Single["magic"] = mkOps20(func(v sx.V) tlb.Magic { return tlb.Magic(v.U64()) }, func(x *tlb.Magic) sx.V { return sx.N(uint64(*x)) })
	c20Single["cell"] = mkOps20(cellFromSx20, cellToSx20)
	c20Single["any"] = mkOps20(func(v sx.V) tlb.Any { return tlb.Any(cellFromSx20(v)) }, func(x *tlb.Any) sx.V { return cellToSx20((*boc.Cell)(x)) })
	c20Single["bitstring"] = mkOps20(func(v sx.V) boc.BitString { return bitStringFromBits(v.Bits) }, func(x *boc.BitString) sx.V { return sx.Bits(bitsOf(x)) })
	c20Single["addr"] = mkOps20(addrFromSx20, addrToSx20)
	c20Single["tonbits"] = mkOps20(func(v sx.V) ton.Bits256 { var x ton.Bits256; copy(x[:], v.Bytes); return x }, func(x *ton.Bits256) sx.V { return sx.Bytes(x[:]) })
	c20Single["tlint"] = mkOps20(func(v sx.V) tl.Int256 { var x tl.Int256; copy(x[:], v.Bytes); return x }, func(x *tl.Int256) sx.V { return sx.Bytes(x[:]) })
	c20Single["acct"] = mkOps20(
		func(v sx.V) ton.AccountID {
			var x ton.AccountID
			x.Workchain = int32(v.List[0].Int.Int64())
			copy(x.Address[:], v.List[1].Bytes)
			return x
		},
		func(x *ton.AccountID) sx.V { return sx.L(sx.Z(int64(x.Workchain)), sx.Bytes(x.Address[:])) })

	execs["c20.valid"] = func(in sx.V) sx.V { return sx.B(json.Valid(in.Bytes)) }
	execs["c20.unquote"] = func(in sx.V) sx.V {
		var s string
		if err := json.Unmarshal(in.Bytes, &s); err != nil {
			return sx.A("err")
		}
		return sx.Str(s)
	}
	execs["c20.print"] = execC20Print
	execs["c20.parse"] = func(in sx.V) sx.V { return execC20Parse(in, false) }
	execs["c20.method"] = func(in sx.V) sx.V { return execC20Parse(in, true) }
	gens["C20"] = genC20
}

func lookup20(fam string, arg sx.V) (ops20, bool) {
	var o ops20
	var ok bool
	switch fam {
	case "uint":
		o, ok = c20UintOps[arg.I()]
	case "int":
		o, ok = c20IntOps[arg.I()]
	case "big":
		o, ok = c20BigOps[arg.I()]
	case "bits":
		o, ok = c20BitsOps[arg.I()]
	case "cell":
		// the two Go types with the cell form share the model family
		if arg.I() == 1 {
			o, ok = c20Single["any"]
		} else {
			o, ok = c20Single["cell"]
		}
	case "bitstring":
		// arg = free bits left in the write buffer (capacity - length), or
		// (pre tail): the value is read with ReadBits out of pre ++ value ++ tail
		mk := bitStringMaker20(arg)
		o, ok = mkOps20(func(v sx.V) boc.BitString { return mk(v.Bits) }, func(x *boc.BitString) sx.V { return sx.Bits(bitsOf(x)) }), true
	case "addr":
		mk := bitStringMaker20(arg)
		o, ok = mkOps20(func(v sx.V) tlb.MsgAddress { return addrFromSxWith20(v, mk) }, addrToSx20), true
	default:
		o, ok = c20Single[fam]
	}
	return o, ok
}

// every Marshal / Unmarshal runs under a watchdog: an encoder or decoder that
// does not return becomes the outcome 'timeout (reported as json-hang-<family>)
var c20Timeout = 5 * time.Second
var c20Hangs int

func watchdog20(f func() sx.V) sx.V {
	ch := make(chan sx.V, 1)
	go func() {
		defer func() {
			if r := recover(); r != nil {
				if _, ok := r.(errBadBoc20); ok {
					ch <- sx.A("err")
					return
				}
				ch <- sx.A("panic")
			}
		}()
		ch <- f()
	}()
	select {
	case v := <-ch:
		return v
	case <-time.After(c20Timeout):
		c20Hangs++
		return sx.A("timeout")
	}
}

func watchdogFor20(limit time.Duration, f func() sx.V) sx.V {
	old := c20Timeout
	c20Timeout = limit
	defer func() { c20Timeout = old }()
	return watchdog20(f)
}

func execC20Print(in sx.V) sx.V { return watchdog20(func() sx.V { return execC20Print0(in) }) }

func execC20Parse(in sx.V, direct bool) sx.V {
	return watchdog20(func() sx.V { return execC20Parse0(in, direct) })
}

func execC20Print0(in sx.V) sx.V {
	fam, arg, val := in.List[0].Atom, in.List[1], in.List[2]
	var b []byte
	var err error
	if fam == "maybe" {
		o, ok := lookup20(arg.List[0].Atom, arg.List[1])
		if !ok {
			return sx.L(sx.A("harness-error"), sx.A("family"))
		}
		b, err = o.mMarshal(val)
	} else {
		o, ok := lookup20(fam, arg)
		if !ok {
			return sx.L(sx.A("harness-error"), sx.A("family"))
		}
		b, err = o.marshal(val)
	}
	if err != nil {
		return sx.A("err")
	}
	return sx.Bytes(b)
}

func execC20Parse0(in sx.V, direct bool) sx.V {
	fam, arg, doc := in.List[0].Atom, in.List[1], in.List[2].Bytes
	var v sx.V
	var err error
	if fam == "maybe" {
		o, ok := lookup20(arg.List[0].Atom, arg.List[1])
		if !ok {
			return sx.L(sx.A("harness-error"), sx.A("family"))
		}
		v, err = o.mUnmarshal(doc, direct)
	} else {
		o, ok := lookup20(fam, arg)
		if !ok {
			return sx.L(sx.A("harness-error"), sx.A("family"))
		}
		v, err = o.unmarshal(doc, direct)
	}
	if err != nil {
		return sx.A("err")
	}
	return v
}

// ---------------------------------------------------------------- generators

type case20 struct {
	fam   string
	arg   sx.V
	val   sx.V
	class string
	// excluded: the property's excluded case (variable-length address whose
	// text is that of a standard one): compared with the model, not an oracle failure
	excluded bool
	// finding: stable key of a known finding this value is expected to hit
	finding string
}

// after a few hangs the remaining cases are skipped: each one costs the
// watchdog timeout and leaves a spinning goroutine behind
func tooManyHangs20() bool { return c20Hangs >= 3 }

func hang20(c *Ctx, kind string, in sx.V, fam string, out sx.V) bool {
	if out.IsA("timeout") {
		c.Fail(kind, in, "json-hang-"+fam, "the call did not return within "+c20Timeout.String())
		return true
	}
	return false
}

func (k case20) in(payload sx.V) sx.V { return sx.L(sx.A(k.fam), k.arg, payload) }

var mutChars20 = []string{"\"", "-", "+", "_", ":", " ", "\n", "\t", "\r", "0", "1", "9", "a", "f", "g", "F", "G", "x", "X", "\\", "/", ",", "(", ")", ".", "e", "E", "n", "[", "]", "{", "}", "\x00", "\x1f", "\x7f", "\x80", "\xff", "\xc4\xb0", "\xc2\x85", "\xc2\xa0", "\xe2\x80\xa8", "\xe3\x80\x80", "\xed\xa0\x80", "\xf0\x9f\x98\x80", "\xc3\xb0", "\\u0030", "\\u0130", "\\ud83d\\ude00", "\\ud800", "\\n", "\\\"", "&", "<", "A", "Anycast(", "null"}

func mutate20(r *prng.R, doc []byte) []byte {
	d := append([]byte{}, doc...)
	pick := func() []byte { return []byte(mutChars20[r.Intn(len(mutChars20))]) }
	pos := func(n int) int {
		if n <= 0 {
			return 0
		}
		switch r.Intn(4) {
		case 0:
			return r.Intn(minInt(n, 3))
		case 1:
			return n - 1 - r.Intn(minInt(n, 3))
		}
		return r.Intn(n)
	}
	splice := func(at, del int, ins []byte) []byte {
		out := append([]byte{}, d[:at]...)
		out = append(out, ins...)
		return append(out, d[at+del:]...)
	}
	switch r.Intn(12) {
	case 0: // truncate
		if len(d) > 0 {
			return d[:pos(len(d))]
		}
	case 1: // drop a prefix
		if len(d) > 0 {
			return d[1+pos(len(d)-1):]
		}
	case 2, 3: // substitute
		if len(d) > 0 {
			return splice(pos(len(d)), 1, pick())
		}
	case 4, 5: // insert
		return splice(pos(len(d)+1), 0, pick())
	case 6: // delete
		if len(d) > 0 {
			return splice(pos(len(d)), 1, nil)
		}
	case 7: // duplicate a slice
		if len(d) > 1 {
			a := pos(len(d))
			b := a + 1 + r.Intn(len(d)-a)
			return splice(b, 0, d[a:b])
		}
	case 8: // wrap
		switch r.Intn(8) {
		case 0:
			return []byte(" " + string(d) + " ")
		case 1:
			return []byte("\n\t" + string(d) + "\r\n")
		case 2:
			return []byte("\"" + string(d) + "\"")
		case 3:
			return []byte("[" + string(d) + "]")
		case 4:
			return []byte("{\"a\":" + string(d) + "}")
		case 5:
			return []byte(string(d) + string(d))
		case 6:
			return []byte(string(d) + "," + string(d))
		case 7:
			return []byte(strings.Trim(string(d), "\""))
		}
	case 9: // flip a bit
		if len(d) > 0 {
			i := pos(len(d))
			d[i] ^= 1 << uint(r.Intn(8))
			return d
		}
	case 10: // change case
		if r.Bool() {
			return []byte(strings.ToUpper(string(d)))
		}
		return []byte(strings.ToLower(string(d)))
	case 11: // escape one character the JSON way
		if len(d) > 2 {
			i := 1 + r.Intn(len(d)-2)
			return splice(i, 1, []byte(fmt.Sprintf("\\u%04x", d[i])))
		}
	}
	return splice(pos(len(d)+1), 0, pick())
}

func lenBucket20(n int) string {
	switch {
	case n == 0:
		return "0"
	case n < 8:
		return "lt8"
	case n < 64:
		return "lt64"
	case n < 256:
		return "lt256"
	case n == 256:
		return "256"
	case n < 1023:
		return "lt1023"
	}
	return "1023"
}

// one structured value: print, parse back (document and method level), oracle,
// then mutated documents
func (k case20) run(c *Ctx, nMut int) {
	r := c.R
	if tooManyHangs20() {
		return
	}
	in := k.in(k.val)
	out := c.Emit("c20.print", in, k.class+"|print")
	if hang20(c, "c20.print", in, k.fam, out) {
		return
	}
	if out.K != sx.KBytes {
		c.Fail("c20.print", in, "marshal-error-"+k.fam, "json.Marshal failed on a value of the domain: "+out.String())
		return
	}
	doc := out.Bytes
	if !json.Valid(doc) {
		c.Fail("c20.print", in, "invalid-json-"+k.fam, "MarshalJSON output is not valid JSON")
	}
	for _, kind := range []string{"c20.parse", "c20.method"} {
		pin := k.in(sx.Bytes(doc))
		back := c.Emit(kind, pin, k.fam+"|back")
		if hang20(c, kind, pin, k.fam, back) {
			return
		}
		if back.String() != k.val.String() && !k.excluded {
			key := "roundtrip-" + k.fam
			if k.finding != "" {
				key = k.finding
			}
			c.Fail(kind, pin, key, fmt.Sprintf("value %s printed as %s parses back as %s", k.val, doc, back))
		}
	}
	k.reuse(c, doc)
	for i := 0; i < nMut; i++ {
		m := mutate20(r, doc)
		if r.Chance(25) {
			m = mutate20(r, m)
		}
		kind := "c20.parse"
		if r.Chance(40) {
			kind = "c20.method"
		}
		k.mal(c, kind, m, "mut")
	}
}

// a malformed / hand-written document: no panic is the oracle
func (k case20) mal(c *Ctx, kind string, doc []byte, src string) {
	pin := k.in(sx.Bytes(doc))
	v := src + "-inv"
	if json.Valid(doc) {
		v = src + "-valid"
	}
	if tooManyHangs20() {
		return
	}
	res := c.Emit(kind, pin, k.fam+"|"+v)
	hang20(c, kind, pin, k.fam, res)
	if res.IsA("panic") {
		c.Fail(kind, pin, "panic-"+k.fam, "UnmarshalJSON panicked")
	}
}

func (k case20) hand(c *Ctx, docs ...string) {
	for _, d := range docs {
		k.mal(c, "c20.parse", []byte(d), "hand")
		k.mal(c, "c20.method", []byte(d), "hand")
	}
}

func pow2(n uint) *big.Int { return new(big.Int).Lsh(big.NewInt(1), n) }

func randBytes20(r *prng.R, n int) []byte {
	switch r.Intn(5) {
	case 0:
		return make([]byte, n)
	case 1:
		b := make([]byte, n)
		for i := range b {
			b[i] = 0xff
		}
		return b
	}
	return r.Bytes(n)
}

func randBig20(r *prng.R, bits uint, signed bool) *big.Int {
	v := new(big.Int).SetBytes(r.Bytes(int(bits+7) / 8))
	v.Mod(v, pow2(bits))
	switch r.Intn(6) {
	case 0:
		v.SetInt64(0)
	case 1:
		v.Sub(pow2(bits), big.NewInt(1))
	case 2:
		v.SetInt64(1)
	}
	if signed && r.Bool() {
		v.Neg(v)
	}
	return v
}

var commonDocs20 = []string{"", " ", "null", " null", "nul", "true", "false", "[]", "{}", "[1]", "{\"a\":1}", "\"", "\"\"", "\"\"\"", "0", "-0", "+0", "00", "01", "\"00\"", "\"01\"", "1e2", "1.0", "1.", ".1", "-", "\"-\"", "\"+\"", "\"+1\"", "\"-0\"", " 1 ", "\" 1\"", "\"1 \"", "\"1\\n\"", "\"\\u0031\"", "\"1_0\"", "0x10", "\"0x10\"", "\"\xd9\xa1\"", "1 2", "\"a", "a\"", "\"\\\"", "\"\\u12\"", "\"\\ud800\"", "\"\xff\"", "\"\\/\"", "18446744073709551616", "\"18446744073709551616\"", "\"-9223372036854775809\"", "\"99999999999999999999999999999999999999999999999999999999999999999999999999999999\"", "\"-99999999999999999999999999999999999999999999999999999999999999999999999999999999\""}

func genC20(c *Ctx) {
	r := c.R
	nMut := c.Scale(5, 12)
	reps := c.Scale(1, 12)

	// ---- fixed-width integers: every width, both signs, boundary values
	for rep := 0; rep < reps; rep++ {
		for w := 1; w <= 64; w++ {
			arg := sx.Nat(w)
			max := new(big.Int).Sub(pow2(uint(w)), big.NewInt(1))
			uvals := []*big.Int{big.NewInt(0), max, randBig20(r, uint(w), false)}
			if rep > 0 {
				uvals = []*big.Int{big.NewInt(1), new(big.Int).Rsh(max, 1), randBig20(r, uint(w), false)}
			}
			wb := fmt.Sprintf("w%d", w)
			switch {
			case w > 1 && w < 8:
				wb = "w2-7"
			case w > 8 && w < 56:
				wb = "w9-55"
			case w > 57 && w < 64:
				wb = "w58-63"
			}
			for _, v := range uvals {
				case20{fam: "uint", arg: arg, val: sx.BigN(v), class: "uint|" + wb}.run(c, nMut)
			}
			ku := case20{fam: "uint", arg: arg, class: "uint|" + wb}
			ku.hand(c, pow2(uint(w)).String(), "\""+pow2(uint(w)).String()+"\"", "\""+max.String()+"\"", "00"+max.String(), "\"00"+max.String()+"\"", "-1", "\"-0\"", "\"+"+max.String()+"\"")
			smax := new(big.Int).Sub(pow2(uint(w-1)), big.NewInt(1))
			smin := new(big.Int).Neg(pow2(uint(w - 1)))
			ivals := []*big.Int{smin, smax, big.NewInt(0), randBig20(r, uint(w-1), true)}
			if rep > 0 {
				ivals = []*big.Int{new(big.Int).Add(smin, big.NewInt(1)), big.NewInt(-1), randBig20(r, uint(w-1), true)}
			}
			for _, v := range ivals {
				if v.Cmp(smin) < 0 || v.Cmp(smax) > 0 {
					continue
				}
				case20{fam: "int", arg: arg, val: sx.BigZ(v), class: "int|" + wb}.run(c, nMut)
			}
			ki := case20{fam: "int", arg: arg, class: "int|" + wb}
			ki.hand(c, pow2(uint(w-1)).String(), "\""+pow2(uint(w-1)).String()+"\"", new(big.Int).Sub(smin, big.NewInt(1)).String(), "\""+new(big.Int).Sub(smin, big.NewInt(1)).String()+"\"", "\"+"+smax.String()+"\"", "\"-0\"", "-0", "\"-00"+pow2(uint(w-1)).String()+"\"", "\"--1\"", "\"+-1\"")
			if rep == 0 && (w == 1 || w == 8 || w == 56 || w == 57 || w == 64) {
				ku.hand(c, commonDocs20...)
				ki.hand(c, commonDocs20...)
			}
		}
	}

	// ---- big.Int based types
	for idx := 0; idx < len(c20BigOps); idx++ {
		name := c20BigName[idx]
		cls := "big|fixed"
		if strings.HasPrefix(name, "VarUInteger") {
			cls = "big|VarUInteger"
		}
		bits := uint(257)
		var vals []*big.Int
		switch {
		case strings.HasPrefix(name, "VarUInteger"):
			var n int
			fmt.Sscanf(name, "VarUInteger%d", &n)
			bits = uint(8 * (n - 1))
			vals = []*big.Int{big.NewInt(0), new(big.Int).Sub(pow2(bits), big.NewInt(1)), randBig20(r, bits, false)}
		case strings.HasPrefix(name, "Uint"):
			fmt.Sscanf(name, "Uint%d", &bits)
			vals = []*big.Int{big.NewInt(0), new(big.Int).Sub(pow2(bits), big.NewInt(1)), pow2(bits - 1), randBig20(r, bits, false)}
		default:
			fmt.Sscanf(name, "Int%d", &bits)
			vals = []*big.Int{big.NewInt(0), big.NewInt(-1), new(big.Int).Neg(pow2(bits - 1)), new(big.Int).Sub(pow2(bits-1), big.NewInt(1)), randBig20(r, bits-1, true)}
		}
		for rep := 0; rep < reps; rep++ {
			for _, v := range vals {
				case20{fam: "big", arg: sx.Nat(idx), val: sx.BigZ(v), class: cls}.run(c, nMut)
			}
			vals = []*big.Int{randBig20(r, bits, false), randBig20(r, bits/2+1, false)}
		}
		if idx < 2 || idx == 6 || idx == 21 {
			case20{fam: "big", arg: sx.Nat(idx), class: cls}.hand(c, commonDocs20...)
		}
	}

	// ---- BitsN, ton.Bits256, tl.Int256
	hexDocs := func(n int) []string {
		h := hex.EncodeToString(r.Bytes(n))
		return []string{"\"" + h + "\"", "\"" + strings.ToUpper(h) + "\"", "\"" + h[1:] + "\"", "\"" + h[2:] + "\"", "\"" + h + "00\"", "\"" + h + "0\"", "\" " + h + "\"", "\"" + h + " \"", "\"\\t" + h + "\"", "\"\xc2\xa0" + h + "\"", "\"" + h, h + "\"", h, "\"" + h[:len(h)-1] + "g\"", "\"" + h[:len(h)-2] + "\\u0030\\u0030\"", "\"" + h + "\"x", "\"\"" + h + "\"\"", "\"0x" + h + "\"", "[\"" + h + "\"]", "\"" + h[:10] + " " + h[10:] + "\""}
	}
	for rep := 0; rep < 2*reps; rep++ {
		for n := range c20BitsOps {
			_ = n
		}
		for _, n := range []int{10, 12, 16, 32, 33, 40, 44, 64} {
			k := case20{fam: "bits", arg: sx.Nat(n), val: sx.Bytes(randBytes20(r, n)), class: "bits"}
			k.run(c, nMut)
			if rep == 0 {
				k.hand(c, hexDocs(n)...)
				k.hand(c, commonDocs20[:16]...)
			}
		}
		for _, fam := range []string{"tonbits", "tlint"} {
			k := case20{fam: fam, arg: sx.Nat(0), val: sx.Bytes(randBytes20(r, 32)), class: fam}
			k.run(c, 2*nMut)
			if rep < 2 {
				k.hand(c, hexDocs(32)...)
			}
			if rep == 0 {
				k.hand(c, commonDocs20...)
			}
		}
	}

	// ---- Grams, SignedCoins, Magic
	for rep := 0; rep < 2*reps; rep++ {
		for _, v := range []*big.Int{big.NewInt(0), big.NewInt(1), new(big.Int).Sub(pow2(63), big.NewInt(1)), pow2(63), new(big.Int).Sub(pow2(64), big.NewInt(1)), randBig20(r, 64, false), randBig20(r, 30, false)} {
			case20{fam: "grams", arg: sx.Nat(0), val: sx.BigN(v), class: "grams"}.run(c, nMut)
		}
		for _, v := range []*big.Int{big.NewInt(0), big.NewInt(-1), big.NewInt(1), new(big.Int).Sub(pow2(63), big.NewInt(1)), new(big.Int).Neg(pow2(63)), randBig20(r, 63, true), randBig20(r, 30, true)} {
			case20{fam: "coins", arg: sx.Nat(0), val: sx.BigZ(v), class: "coins"}.run(c, nMut)
		}
		for _, v := range []uint64{0, 1, 15, 16, 0xffffffff, 0x80000000, uint64(uint32(r.U64())), uint64(uint32(r.U64())) >> uint(r.Intn(32))} {
			case20{fam: "magic", arg: sx.Nat(0), val: sx.N(v), class: "magic"}.run(c, nMut)
		}
	}
	case20{fam: "grams", arg: sx.Nat(0), class: "grams"}.hand(c, append([]string{"\" 5\"", "\"5 \"", " \"5\" ", "\"\n5\"", "\"\\n5\"", "\" \"5\" \"", "5", "\"-5\"", "\"-0\""}, commonDocs20...)...)
	case20{fam: "coins", arg: sx.Nat(0), class: "coins"}.hand(c, append([]string{"\" -5\"", "\"-5 \"", "-5", "\"- 5\"", "\"9223372036854775808\"", "\"-9223372036854775808\"", "\"+9223372036854775807\""}, commonDocs20...)...)
	case20{fam: "magic", arg: sx.Nat(0), class: "magic"}.hand(c, append([]string{"\"0x\"", "\"0X1\"", "\"1ffffffff\"", "\"0x1ffffffff\"", "\"0x0000000001\"", "12", "\"0xffffffffffffffff\"", "\"0x10000000000000000\"", "\"0x0x1\"", "\"0xG\"", "\"0xAbC\"", "\"x1\"", "\"0x-1\"", "\"0x+1\"", "\"0x1_0\""}, commonDocs20...)...)

	// ---- bit strings: every length class incl. empty and 1023 bits
	bitLens := []int{0, 1, 2, 3, 4, 5, 7, 8, 9, 12, 255, 256, 257, 511, 1020, 1021, 1022, 1023}
	for rep := 0; rep < reps; rep++ {
		for _, n := range bitLens {
			case20{fam: "bitstring", arg: sx.Nat(0), val: sx.Bits(randBits(r, n)), class: "bitstring|" + lenBucket20(n)}.run(c, nMut)
		}
		for i := 0; i < 20; i++ {
			n := r.Intn(1024)
			case20{fam: "bitstring", arg: sx.Nat(r.Intn(10)), val: sx.Bits(randBits(r, n)), class: "bitstring|" + lenBucket20(n)}.run(c, nMut)
		}
	}
	// writer-built strings: capacity > length (the argument is the number of free
	// bits), every (length mod 4, free bits) combination, and the cell capacity
	// 1023 with lengths 1015..1023
	freeCls := func(free int) string {
		if free > 3 {
			return "free4+"
		}
		return fmt.Sprintf("free%d", free)
	}
	for rep := 0; rep < reps; rep++ {
		for _, n := range []int{1, 2, 3, 5, 6, 7, 9, 10, 11, 13, 254, 255, 257, 509, 510, 511, 1001, 1002, 1003} {
			for free := 0; free <= 9; free++ {
				case20{fam: "bitstring", arg: sx.Nat(free), val: sx.Bits(randBits(r, n)), class: "bitstring|writer|" + freeCls(free)}.run(c, 1)
			}
		}
		for n := 1015; n <= 1023; n++ {
			case20{fam: "bitstring", arg: sx.Nat(1023 - n), val: sx.Bits(randBits(r, n)), class: "bitstring|writer|" + freeCls(1023-n)}.run(c, 1)
		}
		for _, n := range []int{0, 1, 5, 100, 500} {
			case20{fam: "bitstring", arg: sx.Nat(1023 - n), val: sx.Bits(randBits(r, n)), class: "bitstring|writer|" + freeCls(1023-n)}.run(c, 1)
		}
	}
	fiftDocs := []string{"\"_\"", "\"0_\"", "\"8_\"", "\"4_\"", "\"c_\"", "\"C_\"", "\"A8_\"", "\"a1_\"", "\"__\"", "\"4__\"", "\"_4\"", "\"\xc4\xb0\"", "\"\xc4\xb04_\"", "\"\\u0130\"", "\"\xc4\xb0_\"", "\"4\xc4\xb0_\"", "\"\xe4\xb8\xb0\"", "\"ff\xff\"", "\"fF\"", "\"g\"", "\" f\"", "\"f \"", "f", "\"f", "\"\"f\"\"", "\"\\u0066\""}
	case20{fam: "bitstring", arg: sx.Nat(0), class: "bitstring"}.hand(c, append(fiftDocs, commonDocs20...)...)

	// ---- message addresses
	anys := func() sx.V {
		switch r.Intn(6) {
		case 0, 1, 2:
			return sx.A("no")
		case 3:
			d := 1 + r.Intn(30)
			return sx.L(sx.Nat(d), sx.N(r.U64()&((1<<uint(d))-1)))
		case 4:
			return sx.L(sx.N(0xffffffff), sx.N(0xffffffff))
		}
		return sx.L(sx.N(uint64(uint32(r.U64()))>>uint(r.Intn(32))), sx.N(uint64(uint32(r.U64()))>>uint(r.Intn(32))))
	}
	anyCls := func(a sx.V) string {
		if a.K == sx.KL {
			return "anycast"
		}
		return "plain"
	}
	int8s := []int64{-128, -127, -1, 0, 1, 126, 127}
	wcVar := []int64{-2147483648, -2147483647, -129, -128, -1, 0, 1, 127, 128, 255, 256, 2147483647}
	for rep := 0; rep < 2*reps; rep++ {
		case20{fam: "addr", arg: sx.Nat(0), val: sx.L(sx.A("none")), class: "addr|none"}.run(c, nMut)
		for _, n := range []int{0, 1, 3, 4, 8, 255, 256, 257, 511, r.Intn(512)} {
			k := case20{fam: "addr", arg: sx.Nat(r.Intn(5)), val: sx.L(sx.A("ext"), sx.Bits(randBits(r, n))), class: "addr|ext|" + lenBucket20(n)}
			if n == 0 {
				k.finding = "addr-extern-empty"
			}
			k.run(c, nMut)
		}
		for _, wc := range int8s {
			a := anys()
			case20{fam: "addr", arg: sx.Nat(0), val: sx.L(sx.A("std"), a, sx.Z(wc), sx.Bytes(randBytes20(r, 32))), class: "addr|std|" + anyCls(a)}.run(c, nMut)
		}
		for _, n := range []int{0, 1, 4, 7, 8, 252, 255, 256, 256, 256, 257, 260, 511, r.Intn(512)} {
			wc := wcVar[r.Intn(len(wcVar))]
			a := anys()
			k := case20{fam: "addr", arg: sx.Nat(r.Intn(5)), val: sx.L(sx.A("var"), a, sx.Nat(n), sx.Z(wc), sx.Bits(randBits(r, n))), class: "addr|var|" + lenBucket20(n)}
			if n == 256 && wc >= -128 && wc <= 127 {
				k.excluded = true
				k.class = "addr|var|excluded-std-text"
			}
			k.run(c, nMut)
		}
	}
	// addresses holding writer-built bit strings with free bits left
	for rep := 0; rep < reps; rep++ {
		for _, n := range []int{1, 2, 3, 5, 6, 7, 9, 255, 257, 509, 510, 511} {
			for free := 0; free <= 4; free++ {
				case20{fam: "addr", arg: sx.Nat(free), val: sx.L(sx.A("ext"), sx.Bits(randBits(r, n))), class: "addr|ext|writer"}.run(c, 1)
				wc := wcVar[r.Intn(len(wcVar))]
				case20{fam: "addr", arg: sx.Nat(free), val: sx.L(sx.A("var"), anys(), sx.Nat(n), sx.Z(wc), sx.Bits(randBits(r, n))), class: "addr|var|writer"}.run(c, 1)
			}
		}
	}
	h64 := hex.EncodeToString(r.Bytes(32))
	addrDocs := []string{"\"0:" + h64 + "\"", "\"0:" + strings.ToUpper(h64) + "\"", "\"-1:" + h64 + "\"", "\"+1:" + h64 + "\"", "\"-0:" + h64 + "\"", "\"00:" + h64 + "\"", "\"127:" + h64 + "\"", "\"128:" + h64 + "\"", "\"-128:" + h64 + "\"", "\"-129:" + h64 + "\"", "\"2147483647:" + h64 + "\"", "\"2147483648:" + h64 + "\"", "\"0:" + h64[:63] + "_\"", "\"0:" + h64[:62] + "4_\"", "\"0:" + h64[:63] + "g\"", "\"0:" + h64 + "0\"", "\"0:" + h64[:63] + "\"", "\":" + h64 + "\"", "\"0:\"", "\":\"", "\"::\"", "\":::\"", "\"0:" + h64 + ":\"", "\"0:" + h64 + ":Anycast(1,1)\"", "\"0:" + h64 + ":Anycast(1,1)x\"", "\"0:" + h64 + ":Anycast()\"", "\"0:" + h64 + ":Anycast(\"", "\"0:" + h64 + ":Anycast(1)\"", "\"0:" + h64 + ":Anycast(1,)\"", "\"0:" + h64 + ":Anycast(,1)\"", "\"0:" + h64 + ":Anycast( 1, 2)\"", "\"0:" + h64 + ":Anycast(1 ,2)\"", "\"0:" + h64 + ":Anycast(1,2 )\"", "\"0:" + h64 + ":Anycast(1,2x)\"", "\"0:" + h64 + ":Anycast(+1,2)\"", "\"0:" + h64 + ":Anycast(-1,2)\"", "\"0:" + h64 + ":Anycast(4294967295,4294967295)\"", "\"0:" + h64 + ":Anycast(4294967296,1)\"", "\"0:" + h64 + ":Anycast(1,4294967296)\"", "\"0:" + h64 + ":Anycast(18446744073709551616,1)\"", "\"0:" + h64 + ":Anycast(01,002)\"", "\"0:" + h64 + ":Anycast(1_0,2)\"", "\"0:" + h64 + ":Anycast(1,\\n2)\"", "\"0:" + h64 + ":Anycast(1,\xc2\xa02)\"", "\"0:" + h64 + ":Anycast(\\t1,\\r2)\"", "\"0:" + h64 + ":anycast(1,2)\"", "\"0:" + h64 + ":Anycast(1,2):\"", "\"0:" + h64 + ":Anycast(1,2):x\"", "\"5:f:Anycast(3,4)\"", "\"5::Anycast(3,4)\"", "\"f\"", "\"_\"", "\"4_\"", "\"\xc4\xb0\"", "\"0:\xc4\xb0\"", "\"0:" + h64[:62] + "\xc4\xb0\"", "\"\"", "\"\"\"\"", "\" \"", "\"0 :ff\"", "\" 0:ff\""}
	case20{fam: "addr", arg: sx.Nat(0), class: "addr"}.hand(c, append(addrDocs, commonDocs20...)...)

	// ---- account ids
	wc32 := []int64{-2147483648, -129, -128, -1, 0, 1, 127, 128, 2147483647}
	for rep := 0; rep < 2*reps; rep++ {
		for _, wc := range wc32 {
			case20{fam: "acct", arg: sx.Nat(0), val: sx.L(sx.Z(wc), sx.Bytes(randBytes20(r, 32))), class: "acct"}.run(c, nMut)
		}
	}
	for i := 0; i < c.Scale(6, 60); i++ {
		id := ton.AccountID{Workchain: int32(int8s[r.Intn(len(int8s))])}
		copy(id.Address[:], randBytes20(r, 32))
		hum := id.ToHuman(r.Bool(), r.Bool())
		std := strings.NewReplacer("-", "+", "_", "/").Replace(hum)
		k := case20{fam: "acct", arg: sx.Nat(0), class: "acct|human"}
		k.hand(c, "\""+hum+"\"", "\""+std+"\"", "\""+hum[:47]+"\"", "\""+hum+"=\"", "\""+hum[:20]+"\\n"+hum[20:]+"\"", "\""+hum[:20]+"\\u00"+fmt.Sprintf("%02x", hum[20])+hum[21:]+"\"")
		for j := 0; j < nMut; j++ {
			k.mal(c, "c20.parse", mutate20(r, []byte("\""+hum+"\"")), "mut")
		}
	}
	case20{fam: "acct", arg: sx.Nat(0), class: "acct"}.hand(c, append([]string{"\"0:1\"", "\"-1:\"", "\":\"", "\"0:" + h64 + "\"", "\"0:" + strings.ToUpper(h64) + "\"", "\"+0:" + h64 + "\"", "\"0:" + h64 + "00\"", "\"0:" + h64[1:] + "\"", "\"\\u0030:" + h64 + "\"", "\"0\\u003a" + h64 + "\"", "\"0:" + h64 + "\\n\"", "\"2147483648:" + h64 + "\"", "\"0:" + h64 + ":\"", "\"0::" + h64[2:] + "\"", "\"0:g\""}, commonDocs20...)...)

	// ---- cells (with references), as boc.Cell and as tlb.Any
	for i := 0; i < c.Scale(40, 600); i++ {
		n := 1 + r.Intn(6)
		if r.Chance(10) {
			n = 1 + r.Intn(40)
		}
		dag := randDag(r, n)
		cells, err := buildGo(dag)
		if err != nil {
			continue
		}
		b, err := cells[0].ToBoc()
		if err != nil {
			continue
		}
		refs := len(dag[0].Refs)
		k := case20{fam: "cell", arg: sx.Nat(i % 2), val: sx.Bytes(b), class: fmt.Sprintf("cell|refs%d", refs)}
		// the value compared after the round trip is the projection of the root
		k.runCell(c, nMut, cells[0])
		if i < 6 {
			// other header variants and several roots
			for _, crc := range []bool{false, true} {
				if alt, err := cells[0].ToBocCustom(i%2 == 0, crc, false, 0); err == nil {
					k.hand(c, "\""+hex.EncodeToString(alt)+"\"", "\""+strings.ToUpper(hex.EncodeToString(alt))+"\"")
				}
			}
			two := refSerialize(dag, []int{0, len(dag) - 1}, HeaderVariant{}, r)
			k.hand(c, "\""+hex.EncodeToString(two)+"\"")
			one := refSerialize(dag, []int{0}, HeaderVariant{Magic: i % 3, Idx: i%2 == 1, SizeExtra: i % 2}, r)
			k.hand(c, "\""+hex.EncodeToString(one)+"\"")
		}
	}
	// cells written through the public writers, lengths 1010..1023 of the 1023 available
	for rep := 0; rep < reps; rep++ {
		for n := 1010; n <= 1023; n++ {
			cell := boc.NewCell()
			bits := randBits(r, n)
			nb := n / 8
			if nb > 0 && rep%2 == 0 {
				buf := make([]byte, nb)
				for j := 0; j < nb*8; j++ {
					if bits[j] == '1' {
						buf[j/8] |= 0x80 >> uint(j%8)
					}
				}
				_ = cell.WriteBytes(buf)
			} else {
				nb = 0
			}
			for j := nb * 8; j < n; {
				w := minInt(1+r.Intn(64), n-j)
				var v uint64
				for t := 0; t < w; t++ {
					v = v<<1 | uint64(bits[j+t]-'0')
				}
				_ = cell.WriteUint(v, w)
				j += w
			}
			if r.Bool() {
				ch := boc.NewCell()
				_ = ch.WriteUint(r.U64(), 1+r.Intn(64))
				_ = cell.AddRef(ch)
			}
			b, err := cell.ToBoc()
			if err != nil || cell.BitSize() != n {
				continue
			}
			case20{fam: "cell", arg: sx.Nat(n % 2), val: sx.Bytes(b), class: "cell|writer"}.runCell(c, 1, cell)
		}
	}
	genC20CellSizes(c, nMut)
	genC20BocDocs(c)
	genC20BocCuts(c)
	genC20Spellings(c)
	case20{fam: "cell", arg: sx.Nat(0), class: "cell"}.hand(c, append([]string{"\"b5ee9c72\"", "\"b5ee9c7201\"", "\"b5ee9c72010101010002000000\"", "\"B5EE9C72010101010002000000\"", "\"b5ee9c7201010101000200000\"", "\"b5ee9c720101010100020000000\"", "\"b5ee9c72010102010002000000\"", "b5ee9c72010101010002000000"}, commonDocs20...)...)

	// ---- Maybe[T] over several inner families
	type inner struct {
		fam string
		arg sx.V
		val func() sx.V
	}
	inners := []inner{
		{"uint", sx.Nat(8), func() sx.V { return sx.N(r.U64() & 0xff) }},
		{"uint", sx.Nat(64), func() sx.V { return sx.N(r.U64()) }},
		{"int", sx.Nat(57), func() sx.V { return sx.BigZ(randBig20(r, 56, true)) }},
		{"big", sx.Nat(21), func() sx.V { return sx.BigZ(randBig20(r, 120, false)) }},
		{"grams", sx.Nat(0), func() sx.V { return sx.N(r.U64()) }},
		{"coins", sx.Nat(0), func() sx.V { return sx.BigZ(randBig20(r, 63, true)) }},
		{"bits", sx.Nat(32), func() sx.V { return sx.Bytes(randBytes20(r, 32)) }},
		{"bitstring", sx.Nat(0), func() sx.V { return sx.Bits(randBits(r, r.Intn(300))) }},
		{"bitstring", sx.Nat(2), func() sx.V { return sx.Bits(randBits(r, 1+4*r.Intn(60))) }},
		{"addr", sx.Nat(1), func() sx.V { return sx.L(sx.A("ext"), sx.Bits(randBits(r, 2+4*r.Intn(60)))) }},
		{"addr", sx.Nat(0), func() sx.V {
			return sx.L(sx.A("std"), anys(), sx.Z(int8s[r.Intn(len(int8s))]), sx.Bytes(randBytes20(r, 32)))
		}},
		{"tlint", sx.Nat(0), func() sx.V { return sx.Bytes(randBytes20(r, 32)) }},
		{"acct", sx.Nat(0), func() sx.V { return sx.L(sx.Z(wc32[r.Intn(len(wc32))]), sx.Bytes(randBytes20(r, 32))) }},
	}
	for rep := 0; rep < 2*reps; rep++ {
		for _, in := range inners {
			marg := sx.L(sx.A(in.fam), in.arg)
			case20{fam: "maybe", arg: marg, val: sx.A("none"), class: "maybe|" + in.fam}.run(c, nMut)
			case20{fam: "maybe", arg: marg, val: sx.L(sx.A("some"), in.val()), class: "maybe|" + in.fam}.run(c, nMut)
			if rep == 0 {
				case20{fam: "maybe", arg: marg, class: "maybe|" + in.fam}.hand(c, "null", " null", "null ", "\nnull\t", "nul", "nulll", "\"null\"", "[null]", "", "7", "\"7\"", " 7 ", "\"\"")
			}
		}
	}
	genC20Envelopes(c)
	genC20R4(c)
	genC20Scanner(c)
	// an empty external address under Maybe is the same known finding
	{
		marg := sx.L(sx.A("addr"), sx.Nat(0))
		case20{fam: "maybe", arg: marg, val: sx.L(sx.A("some"), sx.L(sx.A("ext"), sx.Bits(""))), class: "maybe|addr|ext0", finding: "addr-extern-empty"}.run(c, nMut)
	}
}

// runCell is run for the cell family: the printed form is compared with the
// model as text, the value after the round trip is the projection of the root,
// and the Go-side oracle compares representation hashes.
func (k case20) runCell(c *Ctx, nMut int, root *boc.Cell) {
	r := c.R
	if tooManyHangs20() {
		return
	}
	in := k.in(k.val)
	// the property on the implementation alone: the JSON of the cell as built parses back
	own := watchdog20(func() sx.V {
		b, err := json.Marshal(*root)
		if err != nil {
			return sx.A("err")
		}
		var again boc.Cell
		if err := json.Unmarshal(b, &again); err != nil {
			return sx.L(sx.A("rejected"), sx.Str(err.Error()))
		}
		return sx.Bytes(b)
	})
	if !hang20(c, "c20.print", in, "cell", own) && own.K != sx.KBytes {
		c.Fail("c20.print", in, "roundtrip-cell", "json.Marshal of the cell does not parse back: "+own.String())
	}
	out := c.Emit("c20.print", in, k.class+"|print")
	if hang20(c, "c20.print", in, "cell", out) {
		return
	}
	if out.K != sx.KBytes {
		c.Fail("c20.print", in, "marshal-error-cell", "json.Marshal failed on a cell: "+out.String())
		return
	}
	doc := out.Bytes
	if !json.Valid(doc) {
		c.Fail("c20.print", in, "invalid-json-cell", "MarshalJSON output is not valid JSON")
	}
	// the cell as the application built it (not the re-parsed one) prints the same text
	direct := watchdog20(func() sx.V {
		b, err := json.Marshal(*root)
		if err != nil {
			return sx.A("err")
		}
		return sx.Bytes(b)
	})
	if !hang20(c, "c20.print", in, "cell", direct) && direct.String() != out.String() {
		c.Fail("c20.print", in, "roundtrip-cell", "the writer-built cell and its re-parsed copy marshal differently")
	}
	want := cellToSx20(root)
	for _, kind := range []string{"c20.parse", "c20.method"} {
		pin := k.in(sx.Bytes(doc))
		back := c.Emit(kind, pin, k.fam+"|back")
		if back.String() != want.String() {
			c.Fail(kind, pin, "roundtrip-cell", fmt.Sprintf("root parses back as %s, want %s", back, want))
		}
	}
	var again boc.Cell
	if err := json.Unmarshal(doc, &again); err != nil {
		c.Fail("c20.parse", k.in(sx.Bytes(doc)), "roundtrip-cell", "own output rejected: "+err.Error())
	} else {
		h1, e1 := root.HashString()
		h2, e2 := again.HashString()
		if e1 != nil || e2 != nil || h1 != h2 {
			c.Fail("c20.parse", k.in(sx.Bytes(doc)), "roundtrip-cell", "representation hash changed by the JSON round trip")
		}
	}
	for i := 0; i < nMut; i++ {
		m := mutate20(r, doc)
		kind := "c20.parse"
		if r.Chance(40) {
			kind = "c20.method"
		}
		k.mal(c, kind, m, "mut")
	}
}

// ---- the re-implemented part of encoding/json on its own: random JSON
// documents and their mutations through json.Valid and json.Unmarshal(&string)

func randJSONString20(r *prng.R) string {
	var sb strings.Builder
	sb.WriteByte('"')
	n := r.Intn(8)
	pieces := []string{"a", "0", " ", "\\n", "\\\"", "\\\\", "\\/", "\\b", "\\f", "\\r", "\\t", "\\u0041", "\\u00e9", "\\u20AC", "\\ud83d\\ude00", "\\ud83d", "\\ude00", "\\ud83dx", "\\ud83d\\u0041", "\\uDBFF\\uDFFF", "\xc3\xa9", "\xe2\x82\xac", "\xf0\x9f\x98\x80", "\xff", "\xc3", "\xe2\x82", "\xed\xa0\x80", "\xf4\x90\x80\x80", "\xc0\xaf", "\x7f", ":", "<", "&", "\u2028"}
	for i := 0; i < n; i++ {
		sb.WriteString(pieces[r.Intn(len(pieces))])
	}
	sb.WriteByte('"')
	return sb.String()
}

func randJSON20(r *prng.R, depth int) string {
	ws := func() string { return []string{"", "", "", " ", "\n", "\t", "\r\n", "  "}[r.Intn(8)] }
	k := r.Intn(10)
	if depth <= 0 && k >= 7 {
		k = r.Intn(7)
	}
	switch k {
	case 0:
		return []string{"0", "-0", "1", "-1", "12", "1234567890123456789012345678901234567890", "0.5", "-0.0", "1e5", "1E+5", "1e-5", "1.5e10", "0e0", "-1.25E-3"}[r.Intn(14)]
	case 1, 2:
		return randJSONString20(r)
	case 3:
		return "true"
	case 4:
		return "false"
	case 5, 6:
		return "null"
	case 7, 8:
		n := r.Intn(4)
		var parts []string
		for i := 0; i < n; i++ {
			parts = append(parts, ws()+randJSON20(r, depth-1)+ws())
		}
		return "[" + ws() + strings.Join(parts, ",") + "]"
	}
	n := r.Intn(4)
	var parts []string
	for i := 0; i < n; i++ {
		parts = append(parts, ws()+randJSONString20(r)+ws()+":"+ws()+randJSON20(r, depth-1)+ws())
	}
	return "{" + ws() + strings.Join(parts, ",") + "}"
}

func genC20Scanner(c *Ctx) {
	r := c.R
	emit := func(doc []byte, src string) {
		v := c.Emit("c20.valid", sx.Bytes(doc), "scanner|"+src)
		u := c.Emit("c20.unquote", sx.Bytes(doc), "unquote|"+src)
		if v.IsA("panic") || u.IsA("panic") {
			c.Fail("c20.valid", sx.Bytes(doc), "panic-json", "encoding/json panicked")
		}
	}
	for i := 0; i < c.Scale(600, 20000); i++ {
		doc := []byte(randJSON20(r, 3))
		if r.Chance(30) {
			doc = []byte(" " + string(doc) + "\n")
		}
		emit(doc, "gen")
		for j := 0; j < 2; j++ {
			emit(mutate20(r, doc), "mut")
		}
		s := []byte(randJSONString20(r))
		emit(s, "string")
		emit(mutate20(r, s), "string-mut")
	}
	for _, d := range commonDocs20 {
		emit([]byte(d), "hand")
	}
	for _, d := range []string{"[[[[[[[[[[]]]]]]]]]]", "[[[[[[[[[[]]]]]]]]]", "{\"a\":{\"b\":[1,2,{\"c\":null}]}}", "{\"a\":1,}", "{,}", "[,]", "[1,]", "{\"a\"}", "{\"a\":}", "{a:1}", "{\"a\":1 \"b\":2}", "tru", "truee", "nulL", "-", "-a", "1.e1", "1e", "1e+", "0123", "0.", "\"\\u12g4\"", "\"\\x\"", "\"\\'\"", "\"\t\"", "\"\\ud83d\\ude0\""} {
		emit([]byte(d), "hand")
	}
	// nesting limit of the scanner (10000): validity only
	for _, d := range []string{strings.Repeat("[", 10001), strings.Repeat("[", 10000) + strings.Repeat("]", 10000), strings.Repeat("[", 10001) + strings.Repeat("]", 10001), strings.Repeat("[", 9999) + "1" + strings.Repeat("]", 9999), strings.Repeat("{\"a\":", 10000) + "1" + strings.Repeat("}", 10000), strings.Repeat("{\"a\":", 10001) + "1" + strings.Repeat("}", 10001)} {
		c.Emit("c20.valid", sx.Bytes([]byte(d)), "scanner|depth")
	}
}

// ---- cells at the sizes where the BOC header changes width, and hand-built
// BOC documents from the header grammar through every cell-bearing JSON target

// distinctDag20: n pairwise different cells (each starts with its index), all
// reachable from cell 0, extra references for sharing
func distinctDag20(r *prng.R, n int) []Node {
	dag := make([]Node, n)
	for i := 0; i < n; i++ {
		var sb strings.Builder
		for b := 23; b >= 0; b-- {
			sb.WriteByte('0' + byte((i>>uint(b))&1))
		}
		nd := Node{Bits: sb.String() + randBits(r, r.Intn(24))}
		if n > 1000 {
			// shallow 4-ary heap: the library limits the depth of a tree
			for ch := 4*i + 1; ch <= 4*i+4 && ch < n; ch++ {
				nd.Refs = append(nd.Refs, ch)
			}
		} else if i < n-1 {
			nd.Refs = append(nd.Refs, i+1)
			for k := r.Intn(4); k > 0; k-- {
				nd.Refs = append(nd.Refs, i+1+r.Intn(n-1-i))
			}
		}
		dag[i] = nd
	}
	return dag
}

func dagBoc20(dag []Node) []byte {
	cells, err := buildGo(dag)
	if err != nil {
		panic("c20: buildGo failed")
	}
	b, err := cells[0].ToBoc()
	if err != nil {
		panic("c20: ToBoc failed")
	}
	return b
}

func genC20CellSizes(c *Ctx, nMut int) {
	r := c.R
	sizes := []int{1, 2, 254, 255, 256, 257, 258}
	if c.Thorough() {
		sizes = append(sizes, 300, 511, 512, 513)
	}
	for rep := 0; rep < c.Scale(1, 3); rep++ {
		for _, n := range sizes {
			dag := distinctDag20(r, n)
			cells, err := buildGo(dag)
			if err != nil {
				continue
			}
			b, err := cells[0].ToBoc()
			if err != nil {
				c.Fail("c20.print", sx.Nat(n), "marshal-error-cell", "ToBoc failed on a generated tree: "+err.Error())
				continue
			}
			case20{fam: "cell", arg: sx.Nat((n + rep) % 2), val: sx.Bytes(b), class: distinctCls20(n)}.runCell(c, 1, cells[0])
		}
	}
	// 65535 / 65536 / 65537 distinct cells (the next header width): implementation
	// side only, the extracted model is too slow on documents of this size
	if c.Thorough() {
		for _, n := range []int{65535, 65536, 65537} {
			dag := distinctDag20(r, n)
			cells, err := buildGo(dag)
			if err != nil {
				continue
			}
			root := cells[0]
			res := watchdogFor20(60*time.Second, func() sx.V {
				b, err := json.Marshal(*root)
				if err != nil {
					return sx.A("err")
				}
				var again boc.Cell
				if err := json.Unmarshal(b, &again); err != nil {
					return sx.L(sx.A("rejected"), sx.Str(err.Error()))
				}
				h1, _ := root.HashString()
				h2, _ := again.HashString()
				if h1 != h2 {
					return sx.A("hash")
				}
				return sx.A("ok")
			})
			if !res.IsA("ok") {
				c.Fail("c20.print", sx.L(sx.A("distinct-cells"), sx.Nat(n)), "roundtrip-cell", fmt.Sprintf("a tree of %d distinct cells does not survive the JSON round trip: %s", n, res))
			}
		}
	}
}

type cellHolder20 struct {
	C boc.Cell
	A tlb.Any
	M tlb.Maybe[tlb.Any]
	P *boc.Cell
}

// fieldOutcome20: json.Unmarshal of {"<field>": doc} into a struct with cell fields
func fieldOutcome20(field string, doc []byte) sx.V {
	return watchdog20(func() sx.V {
		var h cellHolder20
		if err := json.Unmarshal([]byte("{\""+field+"\":"+string(doc)+"}"), &h); err != nil {
			return sx.A("err")
		}
		return sx.A("ok")
	})
}

func init() {
	// replay entry (oracle only): (field-name-bytes doc) -> 'ok | 'err | 'panic | 'timeout
	execs["c20.field"] = func(in sx.V) sx.V { return fieldOutcome20(string(in.List[0].Bytes), in.List[1].Bytes) }
}

// bocDoc20 sends one hex BOC document through every JSON target that holds a cell
func bocDoc20(c *Ctx, bocBytes []byte, class string) {
	doc := []byte("\"" + hex.EncodeToString(bocBytes) + "\"")
	var direct sx.V
	for arg := 0; arg < 2; arg++ { // boc.Cell, tlb.Any
		k := case20{fam: "cell", arg: sx.Nat(arg), class: class}
		for _, kind := range []string{"c20.parse", "c20.method"} {
			pin := k.in(sx.Bytes(doc))
			res := c.Emit(kind, pin, class)
			hang20(c, kind, pin, "cell", res)
			if res.IsA("panic") {
				c.Fail(kind, pin, "panic-cell", "UnmarshalJSON panicked on a well-formed hex BOC document")
			}
			if arg == 0 && kind == "c20.parse" {
				direct = res
			}
		}
	}
	km := case20{fam: "maybe", arg: sx.L(sx.A("cell"), sx.Nat(1)), class: class}
	for _, kind := range []string{"c20.parse", "c20.method"} {
		pin := km.in(sx.Bytes(doc))
		res := c.Emit(kind, pin, class)
		hang20(c, kind, pin, "maybe", res)
		if res.IsA("panic") {
			c.Fail(kind, pin, "panic-maybe", "Maybe[Any].UnmarshalJSON panicked on a well-formed hex BOC document")
		}
	}
	// struct fields: same outcome class as the direct target, never a panic
	want := "ok"
	if direct.IsA("err") {
		want = "err"
	}
	for _, field := range []string{"C", "A", "M", "P"} {
		res := fieldOutcome20(field, doc)
		in := sx.L(sx.Str(field), sx.Bytes(doc))
		if hang20(c, "c20.field", in, "cell", res) {
			continue
		}
		if res.IsA("panic") {
			c.Fail("c20.field", in, "panic-cell", "json.Unmarshal into a struct with a cell field panicked")
		} else if !direct.IsA("panic") && !direct.IsA("timeout") && !res.IsA(want) {
			c.Fail("c20.field", in, "field-differs-cell", fmt.Sprintf("field %s: %s, direct target: %s", field, res, want))
		}
	}
}

func genC20BocDocs(c *Ctx) {
	r := c.R
	// documents named in the format description: no cells / one cell, no roots
	for _, h := range []string{"b5ee9c72010100000000", "b5ee9c720101010000020000", "b5ee9c7201010101000200010000", "b5ee9c72010101020002000000000000", "68ff65f3010100000000", "acc3a72801010000000000000000"} {
		b, _ := hex.DecodeString(h)
		bocDoc20(c, b, "cell|bocdoc|named")
	}
	variants := []HeaderVariant{{}, {Idx: true}, {Crc: true}, {Idx: true, Crc: true}, {Idx: true, Cache: true}, {Magic: 1}, {Magic: 2}, {SizeExtra: 1}, {OffExtra: 1}, {SizeExtra: 1, OffExtra: 2, Crc: true}, {WithHashes: true}}
	sizes := []int{0, 1, 2, 3, 255, 256, 257}
	for _, n := range sizes {
		dag := distinctDag20(r, n)
		rootSets := [][]int{{}, {0}, {0, 0}, {n}, {0, n}}
		if n > 1 {
			rootSets = append(rootSets, []int{0, n - 1}, []int{n - 1}, []int{n - 1, 0, 1})
		}
		for ri, roots := range rootSets {
			ok := true
			for _, rt := range roots {
				if n == 0 && rt == 0 && len(roots) > 0 {
					ok = true // root index 0 with no cells: out of range, still a document
				}
				_ = rt
			}
			if !ok {
				continue
			}
			for vi, hv := range variants {
				// the big documents only with a few header variants in the quick tier
				if n >= 255 && !c.Thorough() && vi%4 != ri%4 {
					continue
				}
				cls := fmt.Sprintf("cell|bocdoc|roots%d", minInt(len(roots), 2))
				if n >= 255 {
					cls += "|big"
				}
				bocDoc20(c, refSerialize(dag, roots, hv, r), cls)
			}
		}
	}
}

func distinctCls20(n int) string {
	switch {
	case n < 254:
		return "cell|distinct|small"
	case n <= 258:
		return "cell|distinct|254-258"
	}
	return "cell|distinct|large"
}
