package main

import (
	"encoding/binary"
	"hash/crc32"
	"strings"

	"github.com/tonkeeper/tongo/boc"

	"verifharness/prng"
	"verifharness/sx"
)

// Node is a cell of a DAG in BOC order: Refs index later cells only.
type Node struct {
	Special bool
	Mask    uint8
	Bits    string // over '0','1'; for special cells the first 8 bits are the type
	Refs    []int
}

func (n Node) sx() sx.V {
	var refs []sx.V
	for _, r := range n.Refs {
		refs = append(refs, sx.Nat(r))
	}
	return sx.L(sx.B(n.Special), sx.N(uint64(n.Mask)), sx.Bits(n.Bits), sx.L(refs...))
}

func dagSx(d []Node) sx.V {
	var vs []sx.V
	for _, n := range d {
		vs = append(vs, n.sx())
	}
	return sx.L(vs...)
}

func bitsToBytesTagged(bits string) ([]byte, byte) {
	// data bytes with completion tag, and d2
	n := len(bits)
	d2 := byte((n+7)/8 + n/8)
	s := bits
	if n%8 != 0 {
		s += "1"
		for len(s)%8 != 0 {
			s += "0"
		}
	}
	out := make([]byte, len(s)/8)
	for i, c := range s {
		if c == '1' {
			out[i/8] |= 1 << uint(7-i%8)
		}
	}
	return out, d2
}

// HeaderVariant describes how the independent reference serialiser lays a BOC
// out (everything the format leaves to the producer).
type HeaderVariant struct {
	Magic      int // 0 generic b5ee9c72, 1 lean 68ff65f3, 2 lean+crc acc3a728
	Idx        bool
	Crc        bool
	Cache      bool
	SizeExtra  int  // extra bytes on top of the minimal ref size
	OffExtra   int  // extra bytes on top of the minimal offset size
	WithHashes bool // store 34 junk bytes per hash slot after the descriptors (d1 bit 4)
}

func minBytes(v uint64) int {
	n := 1
	for v >= 256 {
		v >>= 8
		n++
	}
	return n
}

func putBE(dst []byte, v uint64, n int) []byte {
	var b [8]byte
	binary.BigEndian.PutUint64(b[:], v)
	return append(dst, b[8-n:]...)
}

// refSerialize is written from the TON BOC format description, independently
// of tongo's serialiser.  dag is in BOC order; roots are indices.
func refSerialize(dag []Node, roots []int, hv HeaderVariant, r *prng.R) []byte {
	size := minBytes(uint64(len(dag))) + hv.SizeExtra
	if size > 4 && hv.Magic == 0 {
		size = 4
	}
	var cells [][]byte
	total := 0
	for _, n := range dag {
		data, d2 := bitsToBytesTagged(n.Bits)
		d1 := byte(len(n.Refs)) + 32*n.Mask
		if n.Special {
			d1 += 8
		}
		if hv.WithHashes {
			d1 += 16
		}
		c := []byte{d1, d2}
		if hv.WithHashes {
			slots := 1
			for m := n.Mask; m > 0; m >>= 1 {
				slots += int(m & 1)
			}
			c = append(c, r.Bytes(slots*34)...)
		}
		c = append(c, data...)
		for _, ref := range n.Refs {
			c = putBE(c, uint64(ref), size)
		}
		cells = append(cells, c)
		total += len(c)
	}
	off := minBytes(uint64(total)*2) + hv.OffExtra
	if off > 8 {
		off = 8
	}
	var out []byte
	switch hv.Magic {
	case 0:
		out = []byte{0xb5, 0xee, 0x9c, 0x72}
		fb := byte(size)
		if hv.Idx {
			fb |= 128
		}
		if hv.Crc {
			fb |= 64
		}
		if hv.Cache {
			fb |= 32
		}
		out = append(out, fb)
	case 1:
		out = []byte{0x68, 0xff, 0x65, 0xf3, byte(size)}
	case 2:
		out = []byte{0xac, 0xc3, 0xa7, 0x28, byte(size)}
	}
	out = append(out, byte(off))
	out = putBE(out, uint64(len(dag)), size)
	out = putBE(out, uint64(len(roots)), size)
	out = putBE(out, 0, size)
	out = putBE(out, uint64(total), off)
	for _, rt := range roots {
		out = putBE(out, uint64(rt), size)
	}
	hasIdx := hv.Idx || hv.Magic != 0
	if hasIdx {
		acc := 0
		for _, c := range cells {
			acc += len(c)
			v := uint64(acc)
			if hv.Cache && hv.Magic == 0 {
				v = v * 2
			}
			out = putBE(out, v, off)
		}
	}
	for _, c := range cells {
		out = append(out, c...)
	}
	if (hv.Magic == 0 && hv.Crc) || hv.Magic == 2 {
		var cs [4]byte
		binary.LittleEndian.PutUint32(cs[:], crc32.Checksum(out, crc32.MakeTable(crc32.Castagnoli)))
		out = append(out, cs[:]...)
	}
	return out
}

// buildGo builds tongo cells for a DAG (pointer sharing exactly as the indices
// share) using the verif hook for type/mask.
func buildGo(dag []Node) ([]*boc.Cell, error) {
	cells := make([]*boc.Cell, len(dag))
	for i := len(dag) - 1; i >= 0; i-- {
		n := dag[i]
		c := boc.NewCell()
		for _, ch := range n.Bits {
			if err := c.WriteBit(ch == '1'); err != nil {
				return nil, err
			}
		}
		if n.Special {
			ty := 0
			for j := 0; j < 8 && j < len(n.Bits); j++ {
				ty = ty*2 + int(n.Bits[j]-'0')
			}
			boc.VerifSetTypeMask(c, boc.CellType(ty), uint32(n.Mask))
		} else {
			boc.VerifSetTypeMask(c, boc.OrdinaryCell, uint32(n.Mask))
		}
		for _, r := range n.Refs {
			if err := c.AddRef(cells[r]); err != nil {
				return nil, err
			}
		}
		cells[i] = c
	}
	return cells, nil
}

// randDag builds a random DAG of ordinary cells in BOC order.
func randDag(r *prng.R, n int) []Node {
	dag := make([]Node, n)
	shape := r.Intn(4) // 0 random, 1 chain-ish, 2 wide, 3 heavy sharing
	for i := n - 1; i >= 0; i-- {
		var nd Node
		bl := r.Intn(40)
		switch r.Intn(8) {
		case 0:
			bl = 0
		case 1:
			bl = 8 * r.Intn(128)
		case 2:
			bl = 1023 - r.Intn(9)
		case 3:
			bl = r.Intn(1024)
		}
		nd.Bits = randBits(r, bl)
		avail := n - 1 - i
		if avail > 0 {
			k := r.Intn(5)
			switch shape {
			case 1:
				k = 1
				if r.Chance(10) {
					k = 2
				}
			case 2:
				k = 4
			}
			for j := 0; j < k; j++ {
				var t int
				switch shape {
				case 1:
					t = i + 1
					if r.Chance(10) {
						t = i + 1 + r.Intn(avail)
					}
				case 3:
					t = n - 1 - r.Intn(minInt(avail, 3))
				default:
					if r.Chance(60) {
						t = i + 1 + r.Intn(minInt(avail, 4))
					} else {
						t = i + 1 + r.Intn(avail)
					}
				}
				nd.Refs = append(nd.Refs, t)
			}
		}
		dag[i] = nd
	}
	return dag
}

func minInt(a, b int) int {
	if a < b {
		return a
	}
	return b
}

func hexBits(b []byte) string {
	var sb strings.Builder
	for _, x := range b {
		for i := 7; i >= 0; i-- {
			if x&(1<<uint(i)) != 0 {
				sb.WriteByte('1')
			} else {
				sb.WriteByte('0')
			}
		}
	}
	return sb.String()
}
