package main

// C13, wait-list protocol on the real code: walks (every step replayed on the
// real subscribe / notifySubscribers / unsubscribe / updateBest / SetMasterHead
// and compared with the LTS model), the real WaitMasterchainSeqno under the real
// Run loop (compared with the model's verdict, latency checked by an oracle), and
// regression oracles for the repaired defects (c13.repro).

import (
	"context"
	"fmt"
	"sort"
	"sync/atomic"
	"time"

	"github.com/tonkeeper/tongo/liteapi/pool"
	"github.com/tonkeeper/tongo/liteclient"
	"github.com/tonkeeper/tongo/ton"

	"verifharness/sx"
)

// goStep runs f in its own goroutine; the channel is closed when f returned.
func goStep(f func()) chan struct{} {
	d := make(chan struct{})
	go func() {
		defer close(d)
		f()
	}()
	return d
}

func finished(d chan struct{}, wait time.Duration) bool {
	select {
	case <-d:
		return true
	case <-time.After(wait):
		return false
	}
}

// wconn wraps a real pool connection: heads, ids and SetMasterHead are the real
// ones; IsOK and AverageRoundTrip (network facts) are set by the harness.
type wconn struct {
	inner pool.VerifConn
	idx   int
	alive atomic.Bool
	rtt   atomic.Int64
	// afterHead, if armed, runs once right after the next MasterHead() has read the head and
	// before it returns: a schedule point at the connection interface ("the next block arrives
	// exactly now")
	afterHead atomic.Pointer[func()]
}

func (w *wconn) ID() int { return w.inner.ID() }
func (w *wconn) MasterHead() ton.BlockIDExt {
	h := w.inner.MasterHead()
	if f := w.afterHead.Swap(nil); f != nil {
		(*f)()
	}
	return h
}
func (w *wconn) SetMasterHead(h ton.BlockIDExt)       { w.inner.SetMasterHead(h) }
func (w *wconn) IsOK() bool                           { return w.alive.Load() }
func (w *wconn) Client() *liteclient.Client           { return w.inner.Client() }
func (w *wconn) Run(ctx context.Context, detect bool) {}
func (w *wconn) IsArchiveNode() bool                  { return false }
func (w *wconn) AverageRoundTrip() time.Duration      { return time.Duration(w.rtt.Load()) }
func (w *wconn) Status() pool.ConnStatus              { return pool.ConnStatus{} }

var _ pool.VerifConn = &wconn{}

// newWalkPool builds a pool of n real connection objects (no network) wrapped in
// wconn; connection 0 is the best one, nobody is alive yet.
func newWalkPool(strat int, n int) (*pool.ConnPool, []*pool.VerifRealConn, []*wconn) {
	p := pool.New(stratNames[strat])
	conns := make([]*pool.VerifRealConn, n)
	for i := range conns {
		conns[i] = p.VerifAddConnection(i, hostOf(i))
	}
	wraps := make([]*wconn, n)
	p.VerifWrapConns(func(c pool.VerifConn) pool.VerifConn {
		w := &wconn{inner: c, idx: c.ID()}
		wraps[c.ID()] = w
		return w
	})
	return p, conns, wraps
}

func bestSx(p *pool.ConnPool) sx.V {
	b := p.VerifBest()
	if b == nil {
		return sx.A("none")
	}
	return sx.Nat(b.(*wconn).idx)
}

// ---- walks ----

const (
	walkBlockAfter = 250 * time.Millisecond // an operation that has not returned by then is 'blocked
	walkSettle     = 25 * time.Millisecond  // time given to pending operations after each step
)

type wpend struct {
	op    int
	agent string
	done  chan struct{}
	res   func() sx.V
}

type wwaiter struct {
	state int         // 0 new, 1 subscribing/subscribed+waiting, 2 leaving, 3 done
	ready atomic.Bool // subscribe has returned
	id    uint64
	ch    chan ton.BlockIDExt
	tgt   uint32
}

// c13.walk: (strategy nconns (tgt ...) (op ...))
func execC13Walk(in sx.V) sx.V {
	strat := in.List[0].I()
	nconns := in.List[1].I()
	p, conns, wraps := newWalkPool(strat, nconns)
	ws := make([]*wwaiter, len(in.List[2].List))
	for i, t := range in.List[2].List {
		ws[i] = &wwaiter{tgt: uint32(t.U64())}
	}
	var pending []*wpend
	busy := func(agent string) bool {
		for _, q := range pending {
			if q.agent == agent {
				return true
			}
		}
		return false
	}
	done := sx.A("done")
	// launch runs f as its own goroutine and classifies it
	launch := func(op int, agent string, f func(), res func() sx.V) sx.V {
		d := goStep(f)
		if finished(d, walkBlockAfter) {
			return res()
		}
		pending = append(pending, &wpend{op: op, agent: agent, done: d, res: res})
		return sx.A("blocked")
	}
	var outs []sx.V
	for i, o := range in.List[3].List {
		name := o.List[0].Atom
		var r sx.V
		switch name {
		case "sethead":
			c, h := o.List[1].I(), uint32(o.List[2].U64())
			ag := fmt.Sprintf("c%d", c)
			if busy(ag) {
				r = sx.A("busy")
			} else {
				r = launch(i, ag, func() { conns[c].SetMasterHead(h) }, func() sx.V { return done })
			}
		case "conn":
			c := o.List[1].I()
			if c < len(wraps) {
				wraps[c].alive.Store(o.List[2].Bool)
				wraps[c].rtt.Store(o.List[3].Int.Int64())
			}
			r = done
		case "notify":
			if busy("run") {
				r = sx.A("busy")
			} else if u, ok := p.VerifTakeUpdate(); !ok {
				r = sx.A("empty")
			} else {
				rr := launch(i, "run", func() { p.VerifNotify(u) }, func() sx.V { return done })
				r = sx.L(rr, sx.Nat(u.ConnID()), sx.N(uint64(u.Seqno())))
			}
		case "status", "count":
			// the other exported methods that take the pool lock
			var n int
			call := func() { n = len(p.Status().Connections) }
			if name == "count" {
				call = func() { n = p.ConnectionsNumber() }
			}
			r = launch(i, "m"+name, call, func() sx.V { return sx.L(sx.A(name), sx.Nat(n)) })
		case "info":
			var ok bool
			r = launch(i, "minfo", func() { ok = p.BestMasterchainInfoClient() != nil }, func() sx.V {
				if ok {
					return done
				}
				return sx.A("nil-client")
			})
		case "drain":
			// the real Run loop, left alone until the update buffer is empty and every publisher
			// that was waiting for room has got in; then it is stopped (after its current iteration)
			if busy("run") {
				r = sx.A("busy")
			} else {
				rctx, rcancel := context.WithCancel(context.Background())
				d := goStep(func() { p.Run(rctx) })
				deadline := time.Now().Add(5 * time.Second)
				for time.Now().Before(deadline) {
					publishing := false
					for _, q := range pending {
						if q.agent[0] == 'c' && !finished(q.done, 0) {
							publishing = true
						}
					}
					if !publishing && p.VerifUpdateBufferLen() == 0 {
						break
					}
					time.Sleep(200 * time.Microsecond)
				}
				rcancel()
				if finished(d, 5*time.Second) {
					r = done
				} else {
					r = sx.A("hang")
				}
			}
		case "tick":
			if busy("run") {
				r = sx.A("busy")
			} else {
				r = launch(i, "run", func() { p.VerifUpdateBest() }, func() sx.V { return sx.L(sx.A("best"), bestSx(p)) })
			}
		case "sub":
			w := ws[o.List[1].I()]
			ag := fmt.Sprintf("w%d", o.List[1].I())
			if busy(ag) {
				r = sx.A("busy")
			} else if w.state != 0 {
				r = sx.A("bad")
			} else {
				w.state = 1
				r = launch(i, ag, func() { w.id, w.ch = p.VerifSubscribe(w.tgt); w.ready.Store(true) },
					func() sx.V { return sx.L(sx.A("sub"), sx.B(len(w.ch) == 1 && w.id == 0)) })
			}
		case "recv":
			w := ws[o.List[1].I()]
			ag := fmt.Sprintf("w%d", o.List[1].I())
			if busy(ag) || w.state != 1 {
				r = sx.A("bad")
			} else {
				select {
				case h := <-w.ch:
					// the loop body of WaitMasterchainSeqno
					if h.Seqno >= w.tgt {
						w.state = 2
					}
					r = sx.L(sx.A("head"), sx.N(uint64(h.Seqno)))
				default:
					r = sx.A("empty")
				}
			}
		case "unsub":
			w := ws[o.List[1].I()]
			ag := fmt.Sprintf("w%d", o.List[1].I())
			if busy(ag) {
				r = sx.A("busy")
			} else if w.state != 1 && w.state != 2 {
				r = sx.A("bad")
			} else {
				w.state = 3
				r = launch(i, ag, func() { p.VerifUnsubscribe(w.id) }, func() sx.V { return done })
			}
		case "state":
			wl := p.VerifWaitListLen()
			wlv := sx.A("locked")
			if wl >= 0 {
				wlv = sx.Nat(wl)
			}
			chs := make([]sx.V, len(ws))
			for k, w := range ws {
				chs[k] = sx.B(w.ready.Load() && len(w.ch) == 1)
			}
			bv := sx.A("locked")
			if wl >= 0 {
				bv = bestSx(p)
			}
			r = sx.L(sx.Nat(p.VerifUpdateBufferLen()), wlv, sx.L(chs...), bv)
		default:
			r = sx.L(sx.A("model-shape-error"), sx.A("op"))
		}
		// settle: pending operations that returned meanwhile
		var comps []sx.V
		if len(pending) > 0 {
			deadline := time.Now().Add(walkSettle)
			for {
				var still []*wpend
				progress := false
				for _, q := range pending {
					select {
					case <-q.done:
						comps = append(comps, sx.L(sx.Nat(q.op), q.res()))
						progress = true
					default:
						still = append(still, q)
					}
				}
				pending = still
				if len(pending) == 0 || (!progress && time.Now().After(deadline)) {
					break
				}
				if progress {
					deadline = time.Now().Add(walkSettle)
				}
				time.Sleep(time.Millisecond)
			}
			sort.Slice(comps, func(a, b int) bool { return comps[a].List[0].I() < comps[b].List[0].I() })
		}
		outs = append(outs, sx.L(r, sx.L(comps...)))
	}
	// release whatever is still blocked so that goroutines do not pile up
	for k := 0; k < 64 && len(pending) > 0; k++ {
		p.VerifTakeUpdate()
		for _, w := range ws {
			if w.ready.Load() {
				select {
				case <-w.ch:
				default:
				}
			}
		}
		var still []*wpend
		for _, q := range pending {
			if !finished(q.done, 2*time.Millisecond) {
				still = append(still, q)
			}
		}
		pending = still
	}
	return sx.L(outs...)
}

func op0(name string) sx.V           { return sx.L(sx.A(name)) }
func op1(name string, a int) sx.V    { return sx.L(sx.A(name), sx.Nat(a)) }
func op2(name string, a, b int) sx.V { return sx.L(sx.A(name), sx.Nat(a), sx.Nat(b)) }
func opConn(c int, alive bool, rtt int64) sx.V {
	return sx.L(sx.A("conn"), sx.Nat(c), sx.B(alive), sx.Z(rtt))
}
func walkSx(strat, nconns int, tgts []int, ops []sx.V) sx.V {
	ts := make([]sx.V, len(tgts))
	for i, t := range tgts {
		ts[i] = sx.Nat(t)
	}
	return sx.L(sx.Nat(strat), sx.Nat(nconns), sx.L(ts...), sx.L(ops...))
}

func setheads(c, from, n int) []sx.V {
	var out []sx.V
	for i := 0; i < n; i++ {
		out = append(out, op2("sethead", c, from+i))
	}
	return out
}

// the witnesses of the repaired deadlocks as walks (also in /verif/corpus/C13)
func walkF14() sx.V {
	return walkSx(0, 1, []int{10, 1}, []sx.V{op2("sethead", 0, 5), op0("notify"), op1("sub", 0), op2("sethead", 0, 6), op0("notify"),
		op2("sethead", 0, 7), op0("notify"), op0("state"), op1("unsub", 0), op0("state"), op0("tick"), op1("sub", 1), op1("recv", 1), op1("recv", 0)})
}
func walkF14bUpdateBest() sx.V {
	return walkSx(0, 1, []int{100}, append(append([]sx.V{}, setheads(0, 1, 11)...), op0("state"), op0("tick"), op0("state"),
		op0("notify"), op0("state"), op0("tick")))
}
func walkF14bSubscribe() sx.V {
	ops := []sx.V{op2("sethead", 0, 1)}
	ops = append(ops, setheads(0, 2, 11)...)
	ops = append(ops, op0("state"), op1("sub", 0), op0("state"), op0("notify"), op0("state"), op1("recv", 0), op1("unsub", 0), op0("state"))
	return walkSx(0, 1, []int{100}, ops)
}

// the first registered waiter of a pool (tgt 7 at head 5) survives two callers that are
// satisfied at once (tgt 5, 3) and then receives head 7
func walkFirstWaiter() sx.V {
	return walkSx(0, 1, []int{7, 5, 3}, []sx.V{op2("sethead", 0, 5), op0("notify"), op1("sub", 0), op0("state"),
		op1("sub", 1), op1("recv", 1), op1("unsub", 1), op0("state"), op1("sub", 2), op1("recv", 2), op1("unsub", 2), op0("state"),
		op2("sethead", 0, 7), op0("notify"), op0("state"), op1("recv", 0), op1("unsub", 0), op0("state")})
}

func genC13Walks(c *Ctx, f *c13Fails) {
	r := c.R
	// hand-written scenarios
	fixed := []struct {
		class string
		in    sx.V
	}{
		{"walk|success", walkSx(0, 1, []int{10}, []sx.V{op1("sub", 0), op0("state"), op2("sethead", 0, 12), op0("notify"), op0("state"),
			op1("recv", 0), op1("unsub", 0), op0("state")})},
		{"walk|preloaded", walkSx(0, 1, []int{3}, []sx.V{op2("sethead", 0, 5), op0("notify"), op1("sub", 0), op0("state"), op1("recv", 0), op1("unsub", 0), op0("state")})},
		{"walk|stale-heads", walkSx(0, 1, []int{10}, []sx.V{op1("sub", 0), op2("sethead", 0, 3), op0("notify"), op1("recv", 0), op2("sethead", 0, 2),
			op0("notify"), op2("sethead", 0, 9), op0("notify"), op1("recv", 0), op2("sethead", 0, 10), op0("notify"), op1("recv", 0), op1("unsub", 0), op0("state")})},
		{"walk|other-conn-ignored", walkSx(0, 2, []int{5}, []sx.V{op1("sub", 0), op2("sethead", 1, 50), op0("notify"), op0("state"), op1("recv", 0),
			op2("sethead", 0, 7), op0("notify"), op1("recv", 0), op1("unsub", 0)})},
		{"walk|full-channel-replaced", walkSx(0, 1, []int{100}, []sx.V{op1("sub", 0), op2("sethead", 0, 1), op0("notify"), op2("sethead", 0, 2), op0("notify"),
			op0("state"), op0("tick"), op1("recv", 0), op0("state"), op1("recv", 0), op0("tick"), op1("unsub", 0), op0("state")})},
		{"walk|f14-notify-while-leaving", walkF14()},
		{"walk|f14b-updatebest-full-buffer", walkF14bUpdateBest()},
		{"walk|f14b-subscribe-full-buffer", walkF14bSubscribe()},
		{"walk|empty-notify-tick", walkSx(0, 2, []int{1, 2}, []sx.V{op0("notify"), op0("tick"), op0("state"), op1("recv", 0), op1("unsub", 1)})},
		{"walk|three-waiters", walkSx(0, 1, []int{2, 4, 1}, []sx.V{op2("sethead", 0, 1), op0("notify"), op1("sub", 0), op1("sub", 1), op1("sub", 2), op0("state"),
			op2("sethead", 0, 3), op0("notify"), op1("recv", 0), op1("recv", 1), op1("recv", 2), op0("state"), op1("unsub", 0), op1("unsub", 2),
			op2("sethead", 0, 4), op0("notify"), op1("recv", 1), op1("unsub", 1), op0("state")})},
		// the best connection switches from 0 to 1 while a sufficient head of 0 is still in the
		// channel; a lower head of 1 must not replace it
		{"walk|switch-keeps-newer", walkSx(0, 2, []int{10}, []sx.V{opConn(0, true, 5), opConn(1, true, 9), op2("sethead", 0, 1), op2("sethead", 1, 1), op0("notify"), op0("notify"),
			op1("sub", 0), op2("sethead", 0, 10), op0("notify"), op0("state"), op2("sethead", 1, 9), opConn(1, true, 1), op0("tick"), op0("state"), op0("notify"),
			op1("recv", 0), op0("state"), op1("unsub", 0), op0("state")})},
		{"walk|switch-lower-then-higher", walkSx(0, 2, []int{50}, []sx.V{opConn(0, true, 5), opConn(1, true, 1), op1("sub", 0), op2("sethead", 0, 7), op0("notify"),
			op2("sethead", 1, 6), op0("tick"), op0("notify"), op0("state"), op1("recv", 0), op2("sethead", 1, 8), op0("notify"), op1("recv", 0), op0("state")})},
		{"walk|first-working-switch", walkSx(1, 3, []int{4}, []sx.V{opConn(2, true, 1), opConn(1, true, 9), op0("tick"), op2("sethead", 2, 3), op0("tick"), op0("notify"),
			op1("sub", 0), opConn(1, false, 9), op0("tick"), op2("sethead", 2, 4), op0("notify"), op1("recv", 0), op1("unsub", 0), op0("state")})},
		{"walk|unknown-strategy", walkSx(2, 2, []int{1}, []sx.V{opConn(1, true, 1), op2("sethead", 1, 5), op0("tick"), op0("notify"), op0("state")})},
	}
	for _, s := range fixed {
		c.Emit("c13.walk", s.in, s.class)
	}
	// the first waiter of a pool's lifetime keeps waiting while callers that are satisfied at
	// once come and go (each runs the deferred unsubscribe with the id subscribe gave it: 0)
	c.Emit("c13.walk", walkFirstWaiter(), "walk|first-waiter|fixed")
	c.Emit("c13.walk", walkSx(0, 1, []int{1, 0}, []sx.V{op1("sub", 0), op1("sub", 1), op1("recv", 1), op1("unsub", 1), op0("state"),
		op2("sethead", 0, 1), op0("notify"), op0("state"), op1("recv", 0), op1("unsub", 0), op0("state")}), "walk|first-waiter|fresh-pool")
	nfw := c.Scale(40, 600)
	for i := 0; i < nfw; i++ {
		nconns := 1 + r.Intn(2)
		h0 := r.Intn(4)
		nb := 1 + r.Intn(2)
		tgtA := h0 + 1 + r.Intn(2)
		tgts := []int{tgtA}
		for k := 0; k < nb; k++ {
			tgts = append(tgts, r.Intn(h0+1))
		}
		var ops []sx.V
		if h0 > 0 {
			ops = append(ops, op2("sethead", 0, h0))
			if r.Chance(70) {
				ops = append(ops, op0("notify"))
			}
		}
		if r.Chance(20) {
			ops = append(ops, op0("tick"))
		}
		ops = append(ops, op1("sub", 0))
		for k := 1; k <= nb; k++ {
			ops = append(ops, op1("sub", k), op1("recv", k), op1("unsub", k))
			if r.Chance(50) {
				ops = append(ops, op0("state"))
			}
		}
		ops = append(ops, op0("notify"), op0("state"), op2("sethead", 0, tgtA+r.Intn(2)), op0("notify"), op0("state"), op1("recv", 0), op1("unsub", 0), op0("state"))
		c.Emit("c13.walk", walkSx(r.Intn(2), nconns, tgts, ops), fmt.Sprintf("walk|first-waiter|h%d|b%d", minInt(h0, 1), nb))
	}
	// the other exported methods (Status, ConnectionsNumber, BestMasterchainInfoClient) interleaved with the protocol,
	// on pools with 0, 1 and 3 connections
	c.Emit("c13.walk", walkSx(0, 0, nil, []sx.V{op0("status"), op0("count"), op0("tick"), op0("status"), op0("notify"), op0("count"), op0("state")}), "walk|methods|c0")
	c.Emit("c13.walk", walkSx(0, 1, []int{3}, []sx.V{op0("status"), op1("sub", 0), op0("count"), op2("sethead", 0, 3), op0("status"), op0("info"), op0("drain"), op0("count"),
		op1("recv", 0), op0("status"), op1("unsub", 0), op0("count"), op0("state")}), "walk|methods|c1")
	c.Emit("c13.walk", walkSx(1, 3, []int{2, 4}, []sx.V{op0("count"), op1("sub", 0), op0("status"), op1("sub", 1), op2("sethead", 1, 5), op0("info"), op0("tick"), op0("status"),
		op0("drain"), op0("count"), op1("recv", 0), op1("unsub", 0), op0("status"), op1("unsub", 1), op0("state")}), "walk|methods|c3")
	// bursts of head updates against the 10-slot buffer
	for _, k := range []int{9, 10, 11} {
		for _, j := range []int{1, 3} {
			ops := []sx.V{op1("sub", 0)}
			ops = append(ops, setheads(0, 1, k)...)
			ops = append(ops, op0("state"))
			for x := 0; x < j; x++ {
				ops = append(ops, op0("notify"), op1("recv", 0))
			}
			ops = append(ops, op0("state"), op0("tick"), op1("sub", 1), op0("state"))
			for x := 0; x < 12; x++ {
				ops = append(ops, op0("notify"))
				if x%3 == 0 {
					ops = append(ops, op1("recv", 0), op1("recv", 1))
				}
			}
			ops = append(ops, op1("recv", 0), op1("recv", 1), op1("unsub", 0), op1("unsub", 1), op0("state"))
			c.Emit("c13.walk", walkSx(0, 1, []int{100, 5}, ops), fmt.Sprintf("walk|burst|k%d", k))
		}
	}
	// several updates are queued while Run is not scheduled; then the real Run loop handles them
	queued := []struct {
		class string
		in    sx.V
	}{
		{"walk|queued|best-then-same-of-other", walkSx(0, 2, []int{7}, []sx.V{op2("sethead", 0, 5), op0("drain"), op1("sub", 0), op2("sethead", 0, 7), op2("sethead", 1, 7),
			op0("state"), op0("drain"), op0("state"), op1("recv", 0), op1("unsub", 0), op0("state")})},
		{"walk|queued|best-then-newer-of-other", walkSx(0, 2, []int{7}, []sx.V{op2("sethead", 0, 5), op0("drain"), op1("sub", 0), op2("sethead", 0, 7), op2("sethead", 1, 8),
			op0("drain"), op0("state"), op1("recv", 0), op1("unsub", 0), op0("state")})},
		{"walk|queued|newer-of-other-then-best", walkSx(1, 2, []int{7}, []sx.V{op2("sethead", 0, 5), op0("drain"), op1("sub", 0), op2("sethead", 1, 8), op2("sethead", 0, 7),
			op0("drain"), op0("state"), op1("recv", 0), op1("unsub", 0), op0("state")})},
		{"walk|queued|first-heads", walkSx(0, 3, []int{1, 1}, []sx.V{op1("sub", 0), op1("sub", 1), op2("sethead", 0, 1), op2("sethead", 1, 1), op2("sethead", 2, 2),
			op0("drain"), op0("state"), op1("recv", 0), op1("recv", 1), op1("unsub", 0), op1("unsub", 1), op0("state")})},
		{"walk|queued|full-buffer", walkSx(0, 2, []int{9, 4}, append(append([]sx.V{op1("sub", 0), op1("sub", 1)}, append(setheads(0, 1, 6), setheads(1, 3, 5)...)...),
			op0("state"), op0("drain"), op0("state"), op1("recv", 0), op1("recv", 1), op0("drain"), op0("state")))},
	}
	for _, q := range queued {
		c.Emit("c13.walk", q.in, q.class)
	}
	nq := c.Scale(60, 900)
	for i := 0; i < nq; i++ {
		nconns := 2 + r.Intn(2)
		nw := 1 + r.Intn(2)
		strat := r.Intn(2)
		heads := make([]int, nconns)
		base := r.Intn(4)
		var ops []sx.V
		if base > 0 {
			for cn := 0; cn < nconns; cn++ {
				if r.Chance(70) {
					heads[cn] = base
					ops = append(ops, op2("sethead", cn, base))
				}
			}
			ops = append(ops, op0("drain"))
		}
		if r.Chance(30) {
			b := r.Intn(nconns)
			ops = append(ops, opConn(b, true, 1), op0("tick"))
		}
		tgts := make([]int, nw)
		for w := range tgts {
			tgts[w] = base + 1 + r.Intn(3)
			ops = append(ops, op1("sub", w))
		}
		for round := 1 + r.Intn(2); round > 0; round-- {
			// one new block reaches the servers within the same millisecond
			queuedNow := 0
			for _, cn := range randPerm(r, nconns) {
				if r.Chance(80) && queuedNow < 9 {
					heads[cn] = maxInt(heads[cn], base) + 1 + r.Intn(2)
					if r.Chance(40) {
						heads[cn] = maxOf(heads) // exactly the same block as the others
					}
					ops = append(ops, op2("sethead", cn, heads[cn]))
					queuedNow++
				}
			}
			if r.Chance(30) {
				ops = append(ops, op0("state"))
			}
			ops = append(ops, op0("drain"), op0("state"))
			for w := 0; w < nw; w++ {
				ops = append(ops, op1("recv", w))
			}
			base = maxOf(heads)
		}
		for w := 0; w < nw; w++ {
			ops = append(ops, op1("recv", w), op1("unsub", w))
		}
		ops = append(ops, op0("state"))
		c.Emit("c13.walk", walkSx(strat, nconns, tgts, ops), fmt.Sprintf("walk|queued|random|c%d|w%d", nconns, nw))
	}
	// the best connection switches while an unconsumed head of the old one is in the channels
	nsw := c.Scale(24, 400)
	for i := 0; i < nsw; i++ {
		strat := r.Intn(2)
		a, b := 0, 1
		if r.Chance(50) {
			a, b = 1, 0
		}
		hA := 5 + r.Intn(10)
		hB := hA - 1 + r.Intn(3) // one behind, equal, one ahead: both connections stay eligible
		tgts := []int{hA - r.Intn(2), hB + r.Intn(2)}
		ops := []sx.V{opConn(a, true, 1), opConn(b, true, 2), op0("tick"), op1("sub", 0), op1("sub", 1),
			op2("sethead", a, hA), op0("notify"), op0("state")}
		if r.Chance(30) {
			ops = append(ops, op1("recv", r.Intn(2)))
		}
		// b becomes the choice: a dies (or gets slower under best-ping)
		if strat == 0 && r.Chance(50) {
			ops = append(ops, opConn(a, true, 3))
		} else {
			ops = append(ops, opConn(a, false, 1))
		}
		ops = append(ops, op2("sethead", b, hB), op0("tick"), op0("notify"), op0("state"),
			op1("recv", 0), op1("recv", 1), op1("recv", 0), op1("unsub", 0), op1("unsub", 1), op0("state"))
		c.Emit("c13.walk", walkSx(strat, 2, tgts, ops), fmt.Sprintf("walk|switch|s%d|d%d", strat, hB-hA+1))
	}
	// random walks: any interleaving of head updates, notifications, refreshes of the
	// best connection, subscriptions, receives and unsubscriptions (also with full
	// channels); at most one publisher is blocked on the full buffer at a time and
	// only in the |mayblock walks (each blocked observation costs walkBlockAfter)
	n := c.Scale(300, 4000)
	for i := 0; i < n; i++ {
		nconns := 1 + r.Intn(3)
		nw := 1 + r.Intn(3)
		strat := r.Intn(2)
		if r.Chance(5) {
			strat = 2
		}
		tgts := make([]int, nw)
		for k := range tgts {
			tgts[k] = 1 + r.Intn(12)
		}
		mayBlock := i%12 == 0
		var ops []sx.V
		heads := make([]int, nconns)
		unconsumed := 0 // publishes minus notifies (upper bound of the buffer fill)
		blocked := false
		steps := 8 + r.Intn(18)
		for s := 0; s < steps; s++ {
			switch k := r.Intn(12); {
			case k < 3: // a head arrives
				cn := r.Intn(nconns)
				if r.Chance(85) {
					heads[cn] += 1 + r.Intn(3)
				}
				h := heads[cn]
				if r.Chance(10) && h > 1 {
					h -= 1 + r.Intn(h-1) // a stale head: ignored by SetMasterHead
				}
				if unconsumed >= 10 && !(mayBlock && !blocked) {
					ops = append(ops, op0("notify"))
					if unconsumed > 0 {
						unconsumed--
					}
					blocked = false
				}
				if unconsumed >= 10 {
					blocked = true
				}
				ops = append(ops, op2("sethead", cn, h))
				unconsumed++
			case k < 6: // Run consumes one update, or is scheduled for long enough to handle everything queued
				if r.Chance(30) {
					ops = append(ops, op0("drain"))
					unconsumed = 0
				} else {
					ops = append(ops, op0("notify"))
					if unconsumed > 0 {
						unconsumed--
					}
				}
				if unconsumed < 10 {
					blocked = false
				}
			case k < 7:
				ops = append(ops, op0("tick"))
				if r.Chance(40) {
					ops = append(ops, op0([]string{"status", "count", "info"}[r.Intn(3)]))
				}
			case k < 8:
				ops = append(ops, opConn(r.Intn(nconns), r.Chance(70), int64(1+r.Intn(3))))
				if r.Chance(50) {
					ops = append(ops, op0("tick"))
				}
			case k < 9:
				w := r.Intn(nw)
				ops = append(ops, op1("sub", w))
				// a caller that is (probably) satisfied at once receives and returns right away
				if tgts[w] <= heads[0] && r.Chance(60) {
					ops = append(ops, op1("recv", w), op1("unsub", w))
				}
			case k < 11:
				ops = append(ops, op1("recv", r.Intn(nw)))
			default:
				ops = append(ops, op1("unsub", r.Intn(nw)))
			}
			if r.Chance(25) {
				ops = append(ops, op0("state"))
			}
		}
		// drain so that the walk ends quiescent
		for k := 0; k < 12 && unconsumed > 0; k++ {
			ops = append(ops, op0("notify"))
			unconsumed--
		}
		for w := 0; w < nw; w++ {
			ops = append(ops, op1("recv", w), op1("unsub", w))
		}
		ops = append(ops, op0("notify"), op0("state"))
		class := fmt.Sprintf("walk|random|s%d|c%d|w%d", strat, nconns, nw)
		if mayBlock {
			class += "|mayblock"
		}
		c.Emit("c13.walk", walkSx(strat, nconns, tgts, ops), class)
	}
}

// ---- the real WaitMasterchainSeqno under the real Run loop ----

const (
	waitLong      = 3 * time.Second       // timeout of a wait that must succeed
	waitShort     = 50 * time.Millisecond // timeout of a wait that must fail
	waitLateAfter = 1000 * time.Millisecond
)

// c13.wait: (tgt h0 ((conn head) ...) cancel?) -> 'nil | 'timeout | 'cancel
// Two connections, 0 is the best one and starts at head h0.  The heads are
// published one by one (each is given time to travel through Run to the waiter).
// If one of them suffices the wait must return nil; otherwise lower heads of the
// best connection keep arriving until the caller has returned (timeout after
// waitShort, or cancellation).
func execC13Wait(in sx.V) sx.V {
	if len(in.List) == 6 {
		res, took := runWaitCtx(in)
		lastWaitTook = took
		return res
	}
	if len(in.List) == 4 && in.List[2].K == sx.KN {
		return execC13Wait2(in) // the two-caller shape (tgt0 tgt1 h0 heads)
	}
	res, took := runWait(in)
	lastWaitTook = took
	return res
}

var lastWaitTook time.Duration

func runWait(in sx.V) (sx.V, time.Duration) {
	tgt := uint32(in.List[0].U64())
	h0 := uint32(in.List[1].U64())
	cancelIt := in.List[3].Bool
	// batch shape (tgt h0 heads cancel 'batch): all heads are published while the Run
	// goroutine is not scheduled (here: not started yet), then Run handles the queue
	batch := len(in.List) == 5
	p, conns, _ := newWalkPool(0, 2)
	ctx, stop := context.WithCancel(context.Background())
	defer stop()
	if !batch {
		go p.Run(ctx)
	}
	if h0 > 0 {
		conns[0].SetMasterHead(h0)
	}
	if batch {
		if u, ok := p.VerifTakeUpdate(); ok {
			p.VerifNotify(u)
		}
	}
	for k := 0; k < 200 && p.VerifUpdateBufferLen() > 0; k++ {
		time.Sleep(time.Millisecond)
	}
	time.Sleep(2 * time.Millisecond)
	sufficient := h0 >= tgt
	cur := []uint32{h0, 0}
	for _, ch := range in.List[2].List {
		c, h := ch.List[0].I(), uint32(ch.List[1].U64())
		if c == 0 && h >= tgt {
			sufficient = true
		}
		_ = cur
	}
	timeout := waitShort
	if sufficient || cancelIt {
		timeout = waitLong
	}
	wctx, wcancel := context.WithCancel(context.Background())
	defer wcancel()
	var err error
	start := time.Now()
	var took time.Duration
	d := goStep(func() {
		err = p.WaitMasterchainSeqno(wctx, tgt, timeout)
		took = time.Since(start)
	})
	if batch {
		// the caller is inside (registered, or back already) before anything is queued
		for k := 0; k < 4000 && p.VerifWaitListLen() != 1 && !finished(d, 0); k++ {
			time.Sleep(500 * time.Microsecond)
		}
		for i, ch := range in.List[2].List {
			if i >= 10 {
				break // the update buffer has 10 slots
			}
			c, h := ch.List[0].I(), uint32(ch.List[1].U64())
			conns[c].SetMasterHead(h)
			if h > cur[c] {
				cur[c] = h
			}
		}
		go p.Run(ctx)
		finished(d, 20*time.Millisecond)
	} else {
		time.Sleep(3 * time.Millisecond) // let it subscribe
		for _, ch := range in.List[2].List {
			c, h := ch.List[0].I(), uint32(ch.List[1].U64())
			conns[c].SetMasterHead(h)
			if h > cur[c] {
				cur[c] = h
			}
			if finished(d, 3*time.Millisecond) {
				break
			}
		}
	}
	if !sufficient {
		if cancelIt {
			wcancel()
		}
		// insufficient heads keep arriving (stale ones: the head of the connection
		// does not change, but the caller's loop must not be kept alive by anything)
		deadline := time.Now().Add(2500 * time.Millisecond)
		for !finished(d, 10*time.Millisecond) && time.Now().Before(deadline) {
			if cur[0]+1 < tgt {
				cur[0]++
				conns[0].SetMasterHead(cur[0])
			}
		}
	}
	if !finished(d, waitLong+time.Second) {
		return sx.A("hang"), 0
	}
	switch {
	case err == nil:
		return sx.A("nil"), took
	case err == context.Canceled:
		return sx.A("cancel"), took
	default:
		return sx.A("timeout"), took
	}
}

// c13.wait, deadline shape: (tgt h0 head arrival-ms timeout-ms deadline-ms) -> 'nil | 'timeout | 'deadline
// WaitMasterchainSeqno(ctx, tgt, timeout) with a caller context that carries its own deadline; the best
// connection (head h0) reports `head` at the given time after the call.  The wait ends at
// min(timeout, deadline).
func runWaitCtx(in sx.V) (sx.V, time.Duration) {
	tgt, h0, h := uint32(in.List[0].U64()), uint32(in.List[1].U64()), uint32(in.List[2].U64())
	arrival := time.Duration(in.List[3].U64()) * time.Millisecond
	timeout := time.Duration(in.List[4].U64()) * time.Millisecond
	deadline := time.Duration(in.List[5].U64()) * time.Millisecond
	p, conns, _ := newWalkPool(0, 1)
	ctx, stop := context.WithCancel(context.Background())
	defer stop()
	go p.Run(ctx)
	if h0 > 0 {
		conns[0].SetMasterHead(h0)
	}
	for k := 0; k < 400 && p.VerifUpdateBufferLen() > 0; k++ {
		time.Sleep(500 * time.Microsecond)
	}
	time.Sleep(2 * time.Millisecond)
	start := time.Now()
	wctx, wcancel := context.WithDeadline(context.Background(), start.Add(deadline))
	defer wcancel()
	var err error
	var took time.Duration
	d := goStep(func() {
		err = p.WaitMasterchainSeqno(wctx, tgt, timeout)
		took = time.Since(start)
	})
	if !finished(d, arrival-time.Since(start)) {
		conns[0].SetMasterHead(h)
	}
	if !finished(d, 5*time.Second) {
		return sx.A("hang"), 0
	}
	switch {
	case err == nil:
		return sx.A("nil"), took
	case err == context.DeadlineExceeded:
		return sx.A("deadline"), took
	default:
		return sx.A("timeout"), took
	}
}

func waitSx(tgt, h0 int, heads [][2]int, cancel bool) sx.V {
	hs := make([]sx.V, len(heads))
	for i, h := range heads {
		hs[i] = sx.L(sx.Nat(h[0]), sx.Nat(h[1]))
	}
	return sx.L(sx.Nat(tgt), sx.Nat(h0), sx.L(hs...), sx.B(cancel))
}

func waitBatchSx(tgt, h0 int, heads [][2]int, cancel bool) sx.V {
	v := waitSx(tgt, h0, heads, cancel)
	return sx.L(append(append([]sx.V{}, v.List...), sx.A("batch"))...)
}

func genC13Waits(c *Ctx, f *c13Fails) {
	r := c.R
	emit := func(in sx.V, class string) {
		res := c.Emit("c13.wait", in, class)
		took := lastWaitTook
		// latency oracle: success well before the timeout; failure after the timeout
		// has elapsed and not much later (the timer must not restart at every head)
		switch res.Atom {
		case "nil":
			if took > waitLong/2 {
				f.fail("c13.wait", in, "wait-success-late", fmt.Sprintf("WaitMasterchainSeqno returned nil only after %v", took))
			}
		case "timeout":
			suff := in.List[1].I() >= in.List[0].I()
			for _, ch := range in.List[2].List {
				if ch.List[0].I() == 0 && ch.List[1].I() >= in.List[0].I() {
					suff = true
				}
			}
			if suff {
				f.fail("c13.wait", in, "wait-lost-head", fmt.Sprintf("WaitMasterchainSeqno(%d) returned timeout after %v although the best connection reported a head at or beyond it in time (published, consumed by Run)", in.List[0].I(), took.Round(time.Millisecond)))
				break
			}
			if took < waitShort {
				f.fail("c13.wait", in, "wait-timeout-early", fmt.Sprintf("WaitMasterchainSeqno(timeout %v) returned an error after %v", waitShort, took))
			}
			if took > waitShort+waitLateAfter {
				f.fail("c13.wait", in, "wait-timeout-restarts", fmt.Sprintf("WaitMasterchainSeqno(timeout %v) with insufficient heads arriving every 10 ms returned only after %v", waitShort, took))
			}
		case "cancel":
			if took > time.Second {
				f.fail("c13.wait", in, "wait-cancel-late", fmt.Sprintf("WaitMasterchainSeqno returned %v after cancellation", took))
			}
		default:
			f.fail("c13.wait", in, "wait-hang", "WaitMasterchainSeqno did not return")
		}
	}
	// caller contexts with their own deadline, earlier and later than the timeout argument; the head
	// arrives before both / between them / after both.  The wait ends at min(timeout, deadline).
	for _, td := range [][2]int{{80, 900}, {900, 80}, {80, 80 + 400}} {
		for _, arr := range []int{10, 300, 2000} {
			for _, h := range []int{9, 3} {
				in := sx.L(sx.Nat(9), sx.Nat(2), sx.Nat(h), sx.Nat(arr), sx.Nat(td[0]), sx.Nat(td[1]))
				res := c.Emit("c13.wait", in, fmt.Sprintf("wait|ctx|t%d|d%d|a%d|h%d", td[0], td[1], arr, h))
				took := lastWaitTook
				end := time.Duration(minInt(td[0], td[1])) * time.Millisecond
				if res.Atom == "timeout" || res.Atom == "deadline" {
					if took < end-5*time.Millisecond || took > end+300*time.Millisecond {
						f.fail("c13.wait", in, "wait-ends-at-min-timeout-deadline", fmt.Sprintf("WaitMasterchainSeqno(timeout %dms) under a context with deadline %dms returned its error after %v, not at min(timeout, deadline) = %v", td[0], td[1], took.Round(time.Millisecond), end))
					}
				}
				if res.Atom == "hang" {
					f.fail("c13.wait", in, "wait-hang", "WaitMasterchainSeqno did not return")
				}
			}
		}
	}
	emit(waitSx(5, 7, nil, false), "wait|already-there")
	emit(waitSx(5, 5, nil, false), "wait|already-there-equal")
	emit(waitSx(5, 2, [][2]int{{0, 3}, {0, 4}, {0, 5}}, false), "wait|arrives")
	emit(waitSx(5, 2, [][2]int{{1, 9}, {0, 3}}, false), "wait|other-conn-only")
	emit(waitSx(1000, 2, [][2]int{{0, 3}, {0, 4}}, false), "wait|never")
	emit(waitSx(100, 2, [][2]int{{0, 3}}, true), "wait|cancelled")
	emit(waitSx(1, 0, [][2]int{{0, 1}}, false), "wait|first-head")
	// several connections report the block before Run is scheduled: every queued update is handled
	emit(waitBatchSx(7, 5, [][2]int{{0, 7}, {1, 7}}, false), "wait|batch|best-then-same-of-other")
	emit(waitBatchSx(7, 5, [][2]int{{0, 7}, {1, 8}}, false), "wait|batch|best-then-newer-of-other")
	emit(waitBatchSx(7, 5, [][2]int{{1, 8}, {0, 7}}, false), "wait|batch|newer-of-other-then-best")
	emit(waitBatchSx(7, 5, [][2]int{{0, 6}, {1, 9}, {0, 7}, {1, 10}}, false), "wait|batch|interleaved")
	emit(waitBatchSx(7, 5, [][2]int{{1, 7}, {1, 8}}, false), "wait|batch|other-only")
	emit(waitBatchSx(1, 0, [][2]int{{0, 1}, {1, 1}}, false), "wait|batch|first-heads")
	n := c.Scale(24, 200)
	for i := 0; i < n; i++ {
		tgt := 2 + r.Intn(10)
		h0 := r.Intn(tgt + 2)
		var heads [][2]int
		cur := []int{h0, 0}
		k := r.Intn(6)
		for j := 0; j < k; j++ {
			cn := 0
			if r.Chance(40) {
				cn = 1
				if cur[1] < cur[0] && r.Chance(70) {
					cur[1] = cur[0] // the other server reports the same block
				}
			}
			cur[cn] += r.Intn(4)
			heads = append(heads, [2]int{cn, cur[cn]})
		}
		if r.Chance(50) {
			emit(waitBatchSx(tgt, h0, heads, r.Chance(20)), "wait|random|batch")
		} else {
			emit(waitSx(tgt, h0, heads, r.Chance(20)), "wait|random")
		}
	}
}

// c13.wait, two-caller shape: (tgt0 tgt1 h0 ((conn head) ...)) -> (res0 res1)
// Two concurrent callers of the real WaitMasterchainSeqno on a fresh pool under the
// real Run loop (connection 0 is the best one, head h0): caller 0 first - it is the
// first waiter ever registered if tgt0 > h0 -, then caller 1 (if it is satisfied at
// once it returns, running its deferred unsubscribe, before any head arrives), then
// the heads one by one.
func execC13Wait2(in sx.V) sx.V {
	tgt := []uint32{uint32(in.List[0].U64()), uint32(in.List[1].U64())}
	h0 := uint32(in.List[2].U64())
	p, conns, _ := newWalkPool(0, 2)
	ctx, stop := context.WithCancel(context.Background())
	defer stop()
	go p.Run(ctx)
	if h0 > 0 {
		conns[0].SetMasterHead(h0)
	}
	for k := 0; k < 200 && p.VerifUpdateBufferLen() > 0; k++ {
		time.Sleep(time.Millisecond)
	}
	time.Sleep(2 * time.Millisecond)
	sufficient := []bool{h0 >= tgt[0], h0 >= tgt[1]}
	for _, ch := range in.List[3].List {
		if ch.List[0].I() == 0 {
			for w := range tgt {
				if uint32(ch.List[1].U64()) >= tgt[w] {
					sufficient[w] = true
				}
			}
		}
	}
	errs := make([]error, 2)
	done := make([]chan struct{}, 2)
	registered := 0
	for w := 0; w < 2; w++ {
		w := w
		timeout := waitShort
		if sufficient[w] {
			timeout = waitLong
		}
		done[w] = goStep(func() { errs[w] = p.WaitMasterchainSeqno(context.Background(), tgt[w], timeout) })
		// wait until this caller is inside: registered, or (satisfied at once) back
		if h0 >= tgt[w] {
			finished(done[w], waitLong)
		} else {
			registered++
			for k := 0; k < 2000 && p.VerifWaitListLen() != registered; k++ {
				if finished(done[w], 0) {
					break
				}
				time.Sleep(500 * time.Microsecond)
			}
		}
	}
	for _, ch := range in.List[3].List {
		conns[ch.List[0].I()].SetMasterHead(uint32(ch.List[1].U64()))
		time.Sleep(3 * time.Millisecond)
	}
	out := make([]sx.V, 2)
	for w := 0; w < 2; w++ {
		switch {
		case !finished(done[w], waitLong+time.Second):
			out[w] = sx.A("hang")
		case errs[w] == nil:
			out[w] = sx.A("nil")
		default:
			out[w] = sx.A("timeout")
		}
	}
	return sx.L(out...)
}

func wait2Sx(t0, t1, h0 int, heads [][2]int) sx.V {
	hs := make([]sx.V, len(heads))
	for i, h := range heads {
		hs[i] = sx.L(sx.Nat(h[0]), sx.Nat(h[1]))
	}
	return sx.L(sx.Nat(t0), sx.Nat(t1), sx.Nat(h0), sx.L(hs...))
}

func genC13Waits2(c *Ctx, f *c13Fails) {
	r := c.R
	emit := func(in sx.V, class string) {
		res := c.Emit("c13.wait", in, class)
		// oracle (the property itself): a caller whose target the best connection reaches in
		// time returns nil, the others an error
		tgt := []int{in.List[0].I(), in.List[1].I()}
		for w := 0; w < 2; w++ {
			suff := in.List[2].I() >= tgt[w]
			for _, ch := range in.List[3].List {
				if ch.List[0].I() == 0 && ch.List[1].I() >= tgt[w] {
					suff = true
				}
			}
			want := "timeout"
			if suff {
				want = "nil"
			}
			if got := res.List[w].Atom; got != want {
				f.fail("c13.wait", in, "wait-lost-head", fmt.Sprintf("caller %d of two concurrent WaitMasterchainSeqno calls (target %d) returned %s, the best connection's heads demand %s", w, tgt[w], got, want))
			}
		}
	}
	// the first waiter of the pool's lifetime + a caller satisfied at once + the head arrives
	emit(wait2Sx(6, 5, 5, [][2]int{{0, 6}}), "wait2|first-waiter")
	emit(wait2Sx(1, 0, 0, [][2]int{{0, 1}}), "wait2|first-waiter-fresh")
	emit(wait2Sx(7, 3, 5, [][2]int{{0, 6}, {0, 7}}), "wait2|first-waiter-two-heads")
	emit(wait2Sx(6, 7, 5, [][2]int{{0, 6}, {0, 7}}), "wait2|both-wait")
	emit(wait2Sx(6, 9, 5, [][2]int{{0, 6}}), "wait2|second-times-out")
	n := c.Scale(16, 160)
	for i := 0; i < n; i++ {
		h0 := r.Intn(5)
		t0 := h0 + r.Intn(3)
		t1 := r.Intn(h0 + 3)
		var heads [][2]int
		cur := []int{h0, 0}
		for j := r.Intn(4); j > 0; j-- {
			cn := 0
			if r.Chance(25) {
				cn = 1
			}
			cur[cn] += r.Intn(3)
			heads = append(heads, [2]int{cn, cur[cn]})
		}
		emit(wait2Sx(t0, t1, h0, heads), "wait2|random")
	}
}

// ---- regression oracles for the repaired defects (each returns true when the defect shows) ----

const reproBlockAfter = 500 * time.Millisecond

// F14: two notifications while a waiter leaves.
func reproNotifyUnsubscribe() (bool, string) {
	p := pool.New(pool.BestPingStrategy)
	rc := p.VerifAddRealConn(0)
	rc.SetMasterHead(5)
	if u, ok := p.VerifTakeUpdate(); ok {
		p.VerifNotify(u)
	}
	id, ch := p.VerifSubscribe(10) // WaitMasterchainSeqno(10): registered
	rc.SetMasterHead(6)
	u1, _ := p.VerifTakeUpdate()
	p.VerifNotify(u1) // channel now holds head 6
	rc.SetMasterHead(7)
	u2, _ := p.VerifTakeUpdate()
	// the waiter's timeout fires here: it leaves the loop without draining
	dN := goStep(func() { p.VerifNotify(u2) })
	nBlocked := !finished(dN, reproBlockAfter)
	dU := goStep(func() { p.VerifUnsubscribe(id) })
	uBlocked := !finished(dU, reproBlockAfter)
	// collateral: an unrelated caller with a 50 ms timeout does not return either
	dW := goStep(func() { _ = p.WaitMasterchainSeqno(context.Background(), 1, 50*time.Millisecond) })
	wBlocked := !finished(dW, reproBlockAfter)
	select {
	case <-ch:
	default:
	}
	released := finished(dN, time.Second) && finished(dU, time.Second) && finished(dW, time.Second)
	return nBlocked || uBlocked || wBlocked, fmt.Sprintf("notifySubscribers blocked=%v (holds RLock, full waiter channel), unsubscribe blocked=%v, "+
		"unrelated WaitMasterchainSeqno(timeout 50ms) blocked=%v after %v; released by draining the channel=%v",
		nBlocked, uBlocked, wBlocked, reproBlockAfter, released)
}

// F14b: updateBest against SetMasterHead on a full update buffer.
func reproUpdateBestSetHead() (bool, string) {
	p := pool.New(pool.BestPingStrategy)
	rc := p.VerifAddRealConn(0)
	for h := uint32(1); h <= 10; h++ {
		rc.SetMasterHead(h) // buffer fills: Run has not been scheduled
	}
	d11 := goStep(func() { rc.SetMasterHead(11) })
	sBlocked := !finished(d11, reproBlockAfter) // expected: waits for buffer space, holding no lock
	// Run's select takes the ticker branch (both branches are ready)
	dT := goStep(func() { p.VerifUpdateBest() })
	tBlocked := !finished(dT, reproBlockAfter)
	dB := goStep(func() { _, _, _ = p.BestMasterchainClient(context.Background()) })
	bBlocked := !finished(dB, reproBlockAfter)
	p.VerifTakeUpdate() // what Run does next
	released := finished(d11, time.Second) && finished(dT, time.Second) && finished(dB, time.Second)
	return tBlocked || bBlocked || !released, fmt.Sprintf("SetMasterHead waiting for buffer space=%v, updateBest blocked=%v (holds pool lock, "+
		"waits for connection lock), BestMasterchainClient blocked=%v after %v; all returned after one update was consumed=%v",
		sBlocked, tBlocked, bBlocked, reproBlockAfter, released)
}

// the same with the real Run loop (1 ms ticker) and a publisher in a tight loop
func reproUpdateBestSetHeadRealRun() (bool, string) {
	p := pool.New(pool.BestPingStrategy)
	rc := p.VerifAddRealConn(0)
	p.VerifSetUpdateInterval(time.Millisecond)
	ctx, cancel := context.WithCancel(context.Background())
	defer cancel()
	go p.Run(ctx)
	var published uint32
	stop := make(chan struct{})
	go func() {
		for h := uint32(1); ; h++ {
			select {
			case <-stop:
				return
			default:
			}
			rc.SetMasterHead(h)
			atomic.StoreUint32(&published, h)
		}
	}()
	deadline := time.Now().Add(1500 * time.Millisecond)
	last, lastChange := uint32(0), time.Now()
	stuck := false
	for time.Now().Before(deadline) {
		time.Sleep(5 * time.Millisecond)
		cur := atomic.LoadUint32(&published)
		if cur != last {
			last, lastChange = cur, time.Now()
		} else if time.Since(lastChange) > 700*time.Millisecond {
			stuck = true
			break
		}
	}
	close(stop)
	if stuck {
		p.VerifTakeUpdate()
	}
	return stuck, fmt.Sprintf("real Run loop with a 1 ms ticker and one connection publishing in a loop: no progress for 700 ms after %d heads = %v", last, stuck)
}

// F14b: subscribe against SetMasterHead on a full update buffer while Run waits for RLock.
func reproSubscribeSetHead() (bool, string) {
	p := pool.New(pool.BestPingStrategy)
	rc := p.VerifAddRealConn(0)
	rc.SetMasterHead(1)
	u, _ := p.VerifTakeUpdate() // Run has received an update and is about to RLock
	for h := uint32(2); h <= 11; h++ {
		rc.SetMasterHead(h)
	}
	d12 := goStep(func() { rc.SetMasterHead(12) })
	pBlocked := !finished(d12, reproBlockAfter) // expected: waits for buffer space, holding no lock
	dS := goStep(func() { p.VerifSubscribe(100) })
	sBlocked := !finished(dS, reproBlockAfter)
	dN := goStep(func() { p.VerifNotify(u) })
	nBlocked := !finished(dN, reproBlockAfter)
	p.VerifTakeUpdate()
	released := finished(d12, time.Second) && finished(dS, time.Second) && finished(dN, time.Second)
	return sBlocked || nBlocked || !released, fmt.Sprintf("SetMasterHead waiting for buffer space=%v, subscribe blocked=%v (holds pool lock, waits for connection lock), "+
		"notifySubscribers blocked=%v (waits for RLock) after %v; all returned after one update was consumed=%v", pBlocked, sBlocked, nBlocked, reproBlockAfter, released)
}

// F14c: the timeout of WaitMasterchainSeqno restarted at every head update
func reproTimeoutRestarts() (bool, string) {
	p := pool.New(pool.BestPingStrategy)
	rc := p.VerifAddRealConn(0)
	ctx, cancel := context.WithCancel(context.Background())
	defer cancel()
	go p.Run(ctx)
	rc.SetMasterHead(1)
	const T = 150 * time.Millisecond
	start := time.Now()
	var ret time.Duration
	d := goStep(func() {
		_ = p.WaitMasterchainSeqno(ctx, 1_000_000, T)
		ret = time.Since(start)
	})
	h := uint32(2)
	lateAt6T := false
	for time.Since(start) < 7*T {
		time.Sleep(T / 3)
		rc.SetMasterHead(h)
		h++
		if time.Since(start) >= 6*T && !lateAt6T {
			lateAt6T = !finished(d, 0)
		}
		if finished(d, 0) {
			break
		}
	}
	finished(d, 2*T)
	return lateAt6T, fmt.Sprintf("WaitMasterchainSeqno(seqno far ahead, timeout %v) with a head update every %v: still waiting after %v = %v (returned after %v)",
		T, T/3, 6*T, lateAt6T, ret.Round(10*time.Millisecond))
}

// stress under the real Run loop (support for pool_never_blocks; no particular
// interleaving can be forced from outside): the best connection publishes a stream of
// heads while 8 callers arrive and leave (3 of 4 calls satisfied at once, 1 of 4 waits
// for the next head with a 20 ms timeout), updateBest runs every 20 ms.  A call that
// stays inside the pool for more than 5 s means the pool is blocked.
func reproPoolStuck() (bool, string) {
	const (
		waiters     = 8
		callTimeout = 20 * time.Millisecond
		stuckAfter  = 5 * time.Second
		stressFor   = 1500 * time.Millisecond
	)
	p := pool.New(pool.BestPingStrategy)
	rc := p.VerifAddRealConn(0)
	p.VerifSetUpdateInterval(20 * time.Millisecond)
	ctx, cancel := context.WithCancel(context.Background())
	defer cancel()
	go p.Run(ctx)
	var stop atomic.Bool
	var startedAt [waiters + 1]atomic.Int64
	var calls [waiters + 1]atomic.Int64
	finishedAll := make(chan struct{}, waiters+1)
	go func() {
		for seqno := uint32(1); !stop.Load(); seqno++ {
			startedAt[0].Store(time.Now().UnixNano())
			rc.SetMasterHead(seqno)
			startedAt[0].Store(0)
			calls[0].Add(1)
			if seqno%64 == 0 {
				time.Sleep(time.Millisecond)
			}
		}
		finishedAll <- struct{}{}
	}()
	for i := 1; i <= waiters; i++ {
		go func(i int) {
			for n := 0; !stop.Load(); n++ {
				var seqno uint32
				if n%4 == 0 {
					seqno = rc.Conn().MasterHead().Seqno + 1
				}
				startedAt[i].Store(time.Now().UnixNano())
				_ = p.WaitMasterchainSeqno(context.Background(), seqno, callTimeout)
				startedAt[i].Store(0)
				calls[i].Add(1)
			}
			finishedAll <- struct{}{}
		}(i)
	}
	stuck := func() (int, bool, time.Duration) {
		now := time.Now().UnixNano()
		n, pub, longest := 0, false, time.Duration(0)
		for i := range startedAt {
			s := startedAt[i].Load()
			if s == 0 || time.Duration(now-s) <= stuckAfter {
				continue
			}
			if d := time.Duration(now - s); d > longest {
				longest = d
			}
			if i == 0 {
				pub = true
			} else {
				n++
			}
		}
		return n, pub, longest
	}
	total := func() (t int64) {
		for j := range calls {
			t += calls[j].Load()
		}
		return
	}
	begin := time.Now()
	for {
		time.Sleep(50 * time.Millisecond)
		if w, pub, d := stuck(); w > 0 || pub {
			time.Sleep(200 * time.Millisecond)
			w, pub, d = stuck()
			what := fmt.Sprintf("the pool is blocked: %d of %d WaitMasterchainSeqno(timeout=%v) calls have not returned for over %v (longest %v); SetMasterHead stuck (Run no longer drains head updates): %v; %d pool calls had completed before",
				w, waiters, callTimeout, stuckAfter, d.Round(time.Millisecond), pub, total())
			stop.Store(true)
			return true, what
		}
		if time.Since(begin) > stressFor {
			// a blocked pool stops all progress at once: do not leave while nobody moves
			before := make([]int64, len(calls))
			for j := range calls {
				before[j] = calls[j].Load()
			}
			time.Sleep(300 * time.Millisecond)
			progressed := false
			for j := 1; j < len(calls); j++ {
				if calls[j].Load() != before[j] {
					progressed = true
				}
			}
			if progressed {
				break
			}
		}
	}
	stop.Store(true)
	for k := 0; k <= waiters; k++ {
		select {
		case <-finishedAll:
		case <-time.After(stuckAfter):
			return true, fmt.Sprintf("the pool is blocked: publisher/callers did not finish %v after being told to stop", stuckAfter)
		}
	}
	return false, fmt.Sprintf("%d pool calls in %v", total(), stressFor)
}

// refreshes of the best connection while heads keep arriving (no hook inside updateBest: real
// connection objects, real SetMasterHead from a publisher goroutine, the real Run loop draining
// the updates).  Connection 0 is dead and is the previous choice of every refresh; connection 1
// is alive, has the lowest round-trip time and always has the newest head of the pool, so every
// refresh must choose it, whether or not a block reaches it while the refresh runs.
func reproRefreshWhileHeadsArrive() (bool, string) {
	const stressFor = 500 * time.Millisecond
	for strat := 0; strat < 2; strat++ {
		p, conns, wraps := newWalkPool(strat, 3)
		ctx, cancel := context.WithCancel(context.Background())
		go p.Run(ctx)
		for i := range conns {
			conns[i].SetMasterHead(100)
		}
		wraps[0].alive.Store(false)
		wraps[1].alive.Store(true)
		wraps[2].alive.Store(true)
		wraps[0].rtt.Store(30)
		wraps[1].rtt.Store(2)
		wraps[2].rtt.Store(20)
		var stop atomic.Bool
		pubDone := goStep(func() {
			for h := uint32(101); !stop.Load(); h++ {
				conns[1].SetMasterHead(h)
				if h%3 == 0 {
					conns[2].SetMasterHead(h - 1) // stays at most one block behind
				}
			}
		})
		all := []pool.VerifConn{wraps[0], wraps[1], wraps[2]}
		begin := time.Now()
		refreshes := 0
		bad := ""
		for time.Since(begin) < stressFor && bad == "" {
			for k := 0; k < 256 && bad == ""; k++ {
				q := pool.VerifNewPool(stratNames[strat], all, wraps[0])
				best := q.VerifUpdateBest()
				refreshes++
				if best == nil || best.ID() != 1 {
					id := -1
					if best != nil {
						id = best.ID()
					}
					bad = fmt.Sprintf("strategy %s: refresh %d chose connection #%d (alive=%v, head %d) although connection #1 is alive, has the lowest round-trip time and the newest head (%d); heads were arriving during the refresh",
						stratNames[strat], refreshes, id, id >= 0 && wraps[id].alive.Load(), headOf(wraps, id), wraps[1].MasterHead().Seqno)
				}
			}
		}
		stop.Store(true)
		ok := finished(pubDone, 5*time.Second)
		cancel()
		if bad != "" {
			return true, bad
		}
		if !ok {
			return true, "the publisher did not finish: SetMasterHead is stuck"
		}
	}
	return false, ""
}

func headOf(ws []*wconn, id int) uint32 {
	if id < 0 || id >= len(ws) {
		return 0
	}
	return ws[id].MasterHead().Seqno
}

// a head update that lands inside subscribe, right after it has read the best connection's
// head: the next block arrives and Run handles it while the caller is still inside subscribe.
// The check of the head and the registration are one critical section, so Run's notification
// waits for it and finds the waiter registered; the caller must return nil.
func reproHeadDuringSubscribe() (bool, string) {
	p, conns, wraps := newWalkPool(0, 1)
	conns[0].SetMasterHead(5)
	if u, ok := p.VerifTakeUpdate(); ok {
		p.VerifNotify(u)
	}
	handled := make(chan struct{})
	hook := func() {
		go func() {
			conns[0].SetMasterHead(6)
			for k := 0; k < 2000; k++ {
				if u, ok := p.VerifTakeUpdate(); ok {
					p.VerifNotify(u) // what Run does with the update
					break
				}
				time.Sleep(100 * time.Microsecond)
			}
			close(handled)
		}()
		finished(handled, 20*time.Millisecond) // give Run the chance to be faster than the caller
	}
	wraps[0].afterHead.Store(&hook)
	var err error
	d := goStep(func() { err = p.WaitMasterchainSeqno(context.Background(), 6, 400*time.Millisecond) })
	if !finished(d, 5*time.Second) {
		return true, "WaitMasterchainSeqno(6, timeout 400ms) did not return within 5s"
	}
	finished(handled, time.Second)
	if err != nil {
		return true, fmt.Sprintf("WaitMasterchainSeqno(6) = %v although the best connection reported head 6 (published, handled by Run) while the caller was inside subscribe; head now %d", err, conns[0].Conn().MasterHead().Seqno)
	}
	return false, ""
}

// every exported method of the pool, on pools with 0, 1 and 3 connections (0 = during the
// asynchronous InitializeConnections), interleaved with the waiting entry points and with
// connections being added; each call under a 2 s watchdog: a call that does not return means the
// pool lock was left held
func reproExportedMethods() (bool, string) {
	step := func(what string, f func()) string {
		if !finished(goStep(f), 2*time.Second) {
			return what
		}
		return ""
	}
	for _, n := range []int{0, 1, 3} {
		p := pool.New(pool.BestPingStrategy)
		ctx, cancel := context.WithCancel(context.Background())
		go p.Run(ctx)
		var added []*pool.VerifRealConn
		calls := []struct {
			what string
			f    func()
		}{
			{"Status", func() { p.Status() }},
			{"ConnectionsNumber", func() { p.ConnectionsNumber() }},
			{"BestMasterchainInfoClient", func() { p.BestMasterchainInfoClient() }},
			{"BestArchiveClient", func() { _, _, _ = p.BestArchiveClient(context.Background()) }},
			{"BestMasterchainClient", func() {
				c2, cc := context.WithTimeout(context.Background(), 20*time.Millisecond)
				defer cc()
				_, _, _ = p.BestMasterchainClient(c2)
			}},
			{"BestClientByBlockID", func() {
				c2, cc := context.WithTimeout(context.Background(), 20*time.Millisecond)
				defer cc()
				_, _ = p.BestClientByBlockID(c2, ton.BlockID{})
			}},
			{"addConnection", func() { added = append(added, p.VerifAddConnection(len(added), hostOf(len(added)))) }},
			{"Status", func() { p.Status() }},
			{"WaitMasterchainSeqno", func() { _ = p.WaitMasterchainSeqno(context.Background(), 5, 20*time.Millisecond) }},
			{"SetMasterHead", func() { added[0].SetMasterHead(5) }},
			{"WaitMasterchainSeqno", func() { _ = p.WaitMasterchainSeqno(context.Background(), 5, time.Second) }},
			{"updateBest", func() { p.VerifUpdateBest() }},
			{"ConnectionsNumber", func() { p.ConnectionsNumber() }},
		}
		for i := 0; i < n; i++ {
			added = append(added, p.VerifAddConnection(i, hostOf(i)))
		}
		for k, cl := range calls {
			if stuck := step(cl.what, cl.f); stuck != "" {
				cancel()
				prev := "New"
				if k > 0 {
					prev = calls[k-1].what
				}
				return true, fmt.Sprintf("pool with %d connection(s): %s did not return within 2s (after %s): the pool is blocked", len(added), stuck, prev)
			}
		}
		cancel()
	}
	return false, ""
}

// observation (outside the property's quantifier: pools of 1..4 connections)
func reproEmptyPoolPanic() (panicked bool, what string) {
	defer func() {
		if r := recover(); r != nil {
			panicked, what = true, fmt.Sprintf("WaitMasterchainSeqno on a pool without connections panics: %v", r)
		}
	}()
	p := pool.New(pool.BestPingStrategy)
	_ = p.WaitMasterchainSeqno(context.Background(), 1, 10*time.Millisecond)
	return false, ""
}

type c13Repro struct {
	key string
	f   func() (bool, string)
}

var c13Repros = []c13Repro{
	{"notify-unsubscribe-deadlock", reproNotifyUnsubscribe},
	{"updatebest-sethead-deadlock", reproUpdateBestSetHead},
	{"updatebest-sethead-deadlock-real-run", reproUpdateBestSetHeadRealRun},
	{"subscribe-sethead-deadlock", reproSubscribeSetHead},
	{"wait-timeout-restarts", reproTimeoutRestarts},
	{"pool-stuck", reproPoolStuck},
	{"updatebest-racing-head", reproRefreshWhileHeadsArrive},
	{"subscribe-lost-wakeup", reproHeadDuringSubscribe},
	{"pool-stuck", reproExportedMethods},
}

// c13.repro: n -> 'ok | 'bad   (the model has no such behaviour: always 'ok)
func execC13Repro(in sx.V) sx.V {
	k := in.I()
	lastReproWhat = ""
	if k < 0 || k >= len(c13Repros) {
		return sx.A("ok")
	}
	bad, what := c13Repros[k].f()
	lastReproWhat = what
	if bad {
		return sx.A("bad")
	}
	return sx.A("ok")
}

var lastReproWhat string

func genC13Repro(c *Ctx, f *c13Fails) {
	for k, rp := range c13Repros {
		res := c.Emit("c13.repro", sx.Nat(k), "repro|"+rp.key)
		if res.Atom != "ok" {
			f.fail("c13.repro", sx.Nat(k), rp.key, lastReproWhat)
		}
	}
}

func maxOf(xs []int) int {
	m := xs[0]
	for _, x := range xs {
		if x > m {
			m = x
		}
	}
	return m
}

// ---- the exported entry points that wait, under best-connection switches ----

// c13.entry: (strategy nconns entry tgt (pre-event ...) (event ...)) -> (status head conn)
// entry 0 BestMasterchainClient, 1 BestClientByAccountID(archiveRequired=false), 2 BestClientByBlockID,
// 3 WaitMasterchainSeqno(tgt).  A fresh pool of real connection objects under the real Run loop
// (connection 0 is the choice, all heads 0, nobody alive); the pre-events happen before the call,
// the events while the call waits; every event is fully handled (update buffer drained) before the next.
func execC13Entry(in sx.V) sx.V {
	strat, nconns, entry := in.List[0].I(), in.List[1].I(), in.List[2].I()
	tgt := uint32(in.List[3].U64())
	p, conns, wraps := newWalkPool(strat, nconns)
	ctx, stop := context.WithCancel(context.Background())
	defer stop()
	go p.Run(ctx)
	settle := func() {
		for k := 0; k < 4000 && p.VerifUpdateBufferLen() > 0; k++ {
			time.Sleep(250 * time.Microsecond)
		}
		time.Sleep(2 * time.Millisecond)
	}
	apply := func(e sx.V) {
		switch e.List[0].Atom {
		case "sethead":
			if c := e.List[1].I(); c < len(conns) {
				conns[c].SetMasterHead(uint32(e.List[2].U64()))
			}
			settle()
		case "conn":
			if c := e.List[1].I(); c < len(wraps) {
				wraps[c].alive.Store(e.List[2].Bool)
				wraps[c].rtt.Store(e.List[3].Int.Int64())
			}
		case "tick":
			p.VerifUpdateBest()
		}
	}
	for _, e := range in.List[4].List {
		apply(e)
	}
	clientID := map[*liteclient.Client]int{}
	for i, c := range conns {
		clientID[c.Conn().Client()] = i
	}
	wctx, wcancel := context.WithCancel(context.Background())
	defer wcancel()
	var (
		cli  *liteclient.Client
		head ton.BlockIDExt
		err  error
	)
	d := goStep(func() {
		switch entry {
		case 0:
			cli, head, err = p.BestMasterchainClient(wctx)
		case 1:
			cli, head, err = p.BestClientByAccountID(wctx, ton.AccountID{}, false)
		case 2:
			cli, err = p.BestClientByBlockID(wctx, ton.BlockID{})
		default:
			err = p.WaitMasterchainSeqno(wctx, tgt, waitLong)
		}
	})
	// the caller is inside: registered, or back already
	for k := 0; k < 4000 && p.VerifWaitListLen() != 1 && !finished(d, 0); k++ {
		time.Sleep(250 * time.Microsecond)
	}
	for _, e := range in.List[5].List {
		apply(e)
		finished(d, time.Millisecond)
	}
	status := ""
	if !finished(d, 20*time.Millisecond) {
		// nothing it waits for has arrived: the caller's context ends (entry 3: its timeout is
		// stood in for by the cancellation, reported as 'timeout by the model's convention)
		wcancel()
		if !finished(d, 5*time.Second) {
			return sx.L(sx.A("hang"), sx.A("none"), sx.A("none"))
		}
		status = "cancel"
		if entry == 3 {
			status = "timeout"
		}
	}
	switch {
	case status != "":
		return sx.L(sx.A(status), sx.A("none"), sx.A("none"))
	case err == pool.ErrNoConnections:
		return sx.L(sx.A("noconn"), sx.A("none"), sx.A("none"))
	case err != nil:
		return sx.L(sx.A("err"), sx.A("none"), sx.A("none"))
	}
	hv, cv := sx.A("none"), sx.A("none")
	if entry == 0 || entry == 1 {
		hv = sx.N(uint64(head.Seqno))
	}
	if entry != 3 {
		if id, ok := clientID[cli]; ok {
			cv = sx.Nat(id)
		} else {
			cv = sx.A("unknown")
		}
	}
	return sx.L(sx.A("nil"), hv, cv)
}

func evSethead(c, h int) sx.V { return sx.L(sx.A("sethead"), sx.Nat(c), sx.Nat(h)) }
func evTick() sx.V            { return sx.L(sx.A("tick")) }

func entrySx(strat, nconns, entry, tgt int, pre, evs []sx.V) sx.V {
	return sx.L(sx.Nat(strat), sx.Nat(nconns), sx.Nat(entry), sx.Nat(tgt), sx.L(pre...), sx.L(evs...))
}

func genC13Entries(c *Ctx, f *c13Fails) {
	r := c.R
	emit := func(in sx.V, class string) {
		res := c.Emit("c13.entry", in, class)
		// oracle (the property itself): a head handed to the caller is at or beyond what the call
		// waits for (BestMasterchainClient and its wrappers wait for the first head: seqno >= 1)
		entry := in.List[2].I()
		if res.List[0].Atom == "nil" && (entry == 0 || entry == 1) {
			if res.List[1].K != sx.KN || res.List[1].U64() < 1 {
				f.fail("c13.entry", in, "best-client-stale-head", fmt.Sprintf("entry point %d returned success with head %s: the best connection never reported such a head (it waits for seqno >= 1)", entry, res.List[1].String()))
			}
		}
		if res.List[0].Atom == "hang" {
			f.fail("c13.entry", in, "entry-hang", "the call did not return after its context was cancelled")
		}
	}
	for entry := 0; entry < 4; entry++ {
		for strat := 0; strat < 2; strat++ {
			// the choice has no head yet; another connection reports, the old choice dies, the refresh
			// switches, the new best connection reports the next block
			emit(entrySx(strat, 2, entry, 8, nil, []sx.V{evSethead(1, 7), opConn(0, false, 1), opConn(1, true, 1), evTick(), evSethead(1, 8)}), fmt.Sprintf("entry|e%d|switch-on-death", entry))
			// ... falls behind instead of dying
			emit(entrySx(strat, 2, entry, 5, []sx.V{opConn(0, true, 1), opConn(1, true, 2)}, []sx.V{evSethead(1, 3), evTick(), evSethead(1, 5), evSethead(0, 1)}), fmt.Sprintf("entry|e%d|switch-on-lag", entry))
			// no switch: the choice reports its first head
			emit(entrySx(strat, 2, entry, 1, nil, []sx.V{evSethead(1, 4), evSethead(0, 1)}), fmt.Sprintf("entry|e%d|first-head", entry))
			// initialised pool: no wait
			emit(entrySx(strat, 2, entry, 3, []sx.V{evSethead(0, 3)}, nil), fmt.Sprintf("entry|e%d|initialised", entry))
			// nothing arrives
			emit(entrySx(strat, 2, entry, 9, nil, []sx.V{evSethead(1, 4), evTick()}), fmt.Sprintf("entry|e%d|nothing", entry))
		}
	}
	emit(entrySx(0, 0, 0, 1, nil, nil), "entry|e0|empty-pool")
	// the choice is uninitialised (or dies / falls behind) and the best connection switches while the call waits
	ns := c.Scale(40, 500)
	for i := 0; i < ns; i++ {
		nconns := 2 + r.Intn(2)
		entry := r.Intn(4)
		other := 1 + r.Intn(nconns-1)
		h := 1 + r.Intn(6)
		var pre, evs []sx.V
		if r.Chance(40) {
			pre = append(pre, opConn(0, true, int64(1+r.Intn(3))), opConn(other, true, int64(1+r.Intn(3))))
		}
		evs = append(evs, evSethead(other, h))
		if r.Chance(50) {
			evs = append(evs, opConn(0, false, 1))
		}
		evs = append(evs, opConn(other, true, 1))
		if r.Chance(30) {
			evs = append(evs, evSethead(other, h+2))
		}
		evs = append(evs, evTick())
		if r.Chance(80) {
			evs = append(evs, evSethead(other, h+2+r.Intn(3)))
		}
		if r.Chance(40) {
			evs = append(evs, evSethead(0, 1+r.Intn(3)))
		}
		emit(entrySx(r.Intn(2), nconns, entry, 1+r.Intn(h+3), pre, evs), fmt.Sprintf("entry|e%d|switch|c%d", entry, nconns))
	}
	n := c.Scale(60, 900)
	for i := 0; i < n; i++ {
		nconns := 1 + r.Intn(3)
		entry := r.Intn(4)
		heads := make([]int, nconns)
		mk := func(k int) []sx.V {
			var evs []sx.V
			for j := 0; j < k; j++ {
				switch x := r.Intn(10); {
				case x < 5:
					cn := r.Intn(nconns)
					heads[cn] += 1 + r.Intn(3)
					evs = append(evs, evSethead(cn, heads[cn]))
				case x < 8:
					evs = append(evs, opConn(r.Intn(nconns), r.Chance(65), int64(1+r.Intn(3))))
					if r.Chance(60) {
						evs = append(evs, evTick())
					}
				default:
					evs = append(evs, evTick())
				}
			}
			return evs
		}
		var pre []sx.V
		if r.Chance(50) {
			pre = mk(r.Intn(3))
			// keep the choice uninitialised in most cases: that is where the calls wait
		}
		evs := mk(1 + r.Intn(6))
		emit(entrySx(r.Intn(2), nconns, entry, 1+r.Intn(6), pre, evs), fmt.Sprintf("entry|e%d|random|c%d", entry, nconns))
	}
}
