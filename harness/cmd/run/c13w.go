package main

// C13, wait-list protocol on the real code: walks (compared with the LTS model)
// and deterministic reproductions of the deadlocks the model proves reachable.

import (
	"context"
	"fmt"
	"sort"
	"sync/atomic"
	"time"

	"github.com/tonkeeper/tongo/liteapi/pool"
	"github.com/tonkeeper/tongo/ton"

	"verifharness/sx"
)

// goStep runs f in its own goroutine; the channel is closed when f returned.
func goStep(f func()) chan struct{} {
	d := make(chan struct{})
	go func() {
		defer close(d)
		f()
	}()
	return d
}

func finished(d chan struct{}, wait time.Duration) bool {
	select {
	case <-d:
		return true
	case <-time.After(wait):
		return false
	}
}

// ---- walks ----

const (
	walkBlockAfter = 100 * time.Millisecond // an operation that has not returned by then is 'blocked
	walkSettle     = 25 * time.Millisecond  // time given to pending operations after each step
)

type wpend struct {
	op    int
	agent string
	done  chan struct{}
	res   func() sx.V
}

type wwaiter struct {
	state int         // 0 new, 1 subscribing/subscribed+waiting, 2 leaving, 3 done
	ready atomic.Bool // subscribe has returned
	id    uint64
	ch    chan ton.BlockIDExt
	tgt   uint32
}

// c13.walk: (nconns (tgt ...) (op ...)) on a real pool with real connection
// objects (no network; connection 0 is the best one)
func execC13Walk(in sx.V) sx.V {
	nconns := in.List[0].I()
	p := pool.New(pool.BestPingStrategy)
	conns := make([]*pool.VerifRealConn, nconns)
	for i := range conns {
		conns[i] = p.VerifAddRealConn(i)
	}
	ws := make([]*wwaiter, len(in.List[1].List))
	for i, t := range in.List[1].List {
		ws[i] = &wwaiter{tgt: uint32(t.U64())}
	}
	var pending []*wpend
	busy := func(agent string) bool {
		for _, q := range pending {
			if q.agent == agent {
				return true
			}
		}
		return false
	}
	done := sx.A("done")
	// launch runs f as its own goroutine and classifies it
	launch := func(op int, agent string, f func(), res func() sx.V) sx.V {
		d := goStep(f)
		if finished(d, walkBlockAfter) {
			return res()
		}
		pending = append(pending, &wpend{op: op, agent: agent, done: d, res: res})
		return sx.A("blocked")
	}
	var outs []sx.V
	for i, o := range in.List[2].List {
		name := o.List[0].Atom
		var r sx.V
		switch name {
		case "sethead":
			c, h := o.List[1].I(), uint32(o.List[2].U64())
			ag := fmt.Sprintf("c%d", c)
			if busy(ag) {
				r = sx.A("busy")
			} else {
				r = launch(i, ag, func() { conns[c].SetMasterHead(h) }, func() sx.V { return done })
			}
		case "notify":
			if busy("run") {
				r = sx.A("busy")
			} else if u, ok := p.VerifTakeUpdate(); !ok {
				r = sx.A("empty")
			} else {
				rr := launch(i, "run", func() { p.VerifNotify(u) }, func() sx.V { return done })
				r = sx.L(rr, sx.Nat(u.ConnID()), sx.N(uint64(u.Seqno())))
			}
		case "tick":
			if busy("run") {
				r = sx.A("busy")
			} else {
				r = launch(i, "run", func() { p.VerifUpdateBest() }, func() sx.V { return done })
			}
		case "sub":
			w := ws[o.List[1].I()]
			ag := fmt.Sprintf("w%d", o.List[1].I())
			if busy(ag) {
				r = sx.A("busy")
			} else if w.state != 0 {
				r = sx.A("bad")
			} else {
				w.state = 1
				r = launch(i, ag, func() { w.id, w.ch = p.VerifSubscribe(w.tgt); w.ready.Store(true) },
					func() sx.V { return sx.L(sx.A("sub"), sx.B(len(w.ch) == 1 && w.id == 0)) })
			}
		case "recv":
			w := ws[o.List[1].I()]
			ag := fmt.Sprintf("w%d", o.List[1].I())
			if busy(ag) || w.state != 1 {
				r = sx.A("bad")
			} else {
				select {
				case h := <-w.ch:
					// the loop body of WaitMasterchainSeqno
					if h.Seqno >= w.tgt {
						w.state = 2
					}
					r = sx.L(sx.A("head"), sx.N(uint64(h.Seqno)))
				default:
					r = sx.A("empty")
				}
			}
		case "unsub":
			w := ws[o.List[1].I()]
			ag := fmt.Sprintf("w%d", o.List[1].I())
			if busy(ag) {
				r = sx.A("busy")
			} else if w.state != 1 && w.state != 2 {
				r = sx.A("bad")
			} else {
				w.state = 3
				r = launch(i, ag, func() { p.VerifUnsubscribe(w.id) }, func() sx.V { return done })
			}
		case "state":
			wl := p.VerifWaitListLen()
			wlv := sx.A("locked")
			if wl >= 0 {
				wlv = sx.Nat(wl)
			}
			chs := make([]sx.V, len(ws))
			for k, w := range ws {
				chs[k] = sx.B(w.ready.Load() && len(w.ch) == 1)
			}
			r = sx.L(sx.Nat(p.VerifUpdateBufferLen()), wlv, sx.L(chs...))
		default:
			r = sx.L(sx.A("model-shape-error"), sx.A("op"))
		}
		// settle: pending operations that returned meanwhile
		var comps []sx.V
		if len(pending) > 0 {
			deadline := time.Now().Add(walkSettle)
			for {
				var still []*wpend
				progress := false
				for _, q := range pending {
					select {
					case <-q.done:
						comps = append(comps, sx.L(sx.Nat(q.op), q.res()))
						progress = true
					default:
						still = append(still, q)
					}
				}
				pending = still
				if len(pending) == 0 || (!progress && time.Now().After(deadline)) {
					break
				}
				if progress {
					deadline = time.Now().Add(walkSettle)
				}
				time.Sleep(time.Millisecond)
			}
			sort.Slice(comps, func(a, b int) bool { return comps[a].List[0].I() < comps[b].List[0].I() })
		}
		outs = append(outs, sx.L(r, sx.L(comps...)))
	}
	// release whatever is still blocked so that goroutines do not pile up
	for k := 0; k < 64 && len(pending) > 0; k++ {
		p.VerifTakeUpdate()
		for _, w := range ws {
			if w.ready.Load() {
				select {
				case <-w.ch:
				default:
				}
			}
		}
		var still []*wpend
		for _, q := range pending {
			if !finished(q.done, 2*time.Millisecond) {
				still = append(still, q)
			}
		}
		pending = still
	}
	return sx.L(outs...)
}

func op0(name string) sx.V           { return sx.L(sx.A(name)) }
func op1(name string, a int) sx.V    { return sx.L(sx.A(name), sx.Nat(a)) }
func op2(name string, a, b int) sx.V { return sx.L(sx.A(name), sx.Nat(a), sx.Nat(b)) }
func walkSx(nconns int, tgts []int, ops []sx.V) sx.V {
	ts := make([]sx.V, len(tgts))
	for i, t := range tgts {
		ts[i] = sx.Nat(t)
	}
	return sx.L(sx.Nat(nconns), sx.L(ts...), sx.L(ops...))
}

// genC13Walks: random walks that avoid the permanent-deadlock shapes (those
// are known findings, reproduced separately and not compared); transient
// blocking (full waiter channel drained later, full update buffer consumed
// later) is part of the compared stream.
func genC13Walks(c *Ctx, f *c13Fails) {
	r := c.R
	// hand-written scenarios
	fixed := []struct {
		class string
		in    sx.V
	}{
		{"walk|success", walkSx(1, []int{10}, []sx.V{op1("sub", 0), op0("state"), op2("sethead", 0, 12), op0("notify"), op0("state"),
			op1("recv", 0), op1("unsub", 0), op0("state")})},
		{"walk|preloaded", walkSx(1, []int{3}, []sx.V{op2("sethead", 0, 5), op0("notify"), op1("sub", 0), op0("state"), op1("recv", 0), op1("unsub", 0), op0("state")})},
		{"walk|stale-heads", walkSx(1, []int{10}, []sx.V{op1("sub", 0), op2("sethead", 0, 3), op0("notify"), op1("recv", 0), op2("sethead", 0, 2),
			op0("notify"), op2("sethead", 0, 9), op0("notify"), op1("recv", 0), op2("sethead", 0, 10), op0("notify"), op1("recv", 0), op1("unsub", 0), op0("state")})},
		{"walk|other-conn-ignored", walkSx(2, []int{5}, []sx.V{op1("sub", 0), op2("sethead", 1, 50), op0("notify"), op0("state"), op1("recv", 0),
			op2("sethead", 0, 7), op0("notify"), op1("recv", 0), op1("unsub", 0)})},
		{"walk|transient-full-channel", walkSx(1, []int{100}, []sx.V{op1("sub", 0), op2("sethead", 0, 1), op0("notify"), op2("sethead", 0, 2), op0("notify"),
			op0("state"), op0("tick"), op1("recv", 0), op0("state"), op1("recv", 0), op0("tick"), op1("unsub", 0), op0("state")})},
		{"walk|transient-full-buffer", walkSx(1, []int{100}, append(append([]sx.V{}, setheads(0, 1, 11)...), op0("state"), op0("notify"), op0("state"), op0("tick"), op1("sub", 0), op0("state")))},
		{"walk|empty-notify-tick", walkSx(2, []int{1, 2}, []sx.V{op0("notify"), op0("tick"), op0("state"), op1("recv", 0), op1("unsub", 1)})},
		{"walk|three-waiters", walkSx(1, []int{2, 4, 1}, []sx.V{op2("sethead", 0, 1), op0("notify"), op1("sub", 0), op1("sub", 1), op1("sub", 2), op0("state"),
			op2("sethead", 0, 3), op0("notify"), op1("recv", 0), op1("recv", 1), op1("recv", 2), op0("state"), op1("unsub", 0), op1("unsub", 2),
			op2("sethead", 0, 4), op0("notify"), op1("recv", 1), op1("unsub", 1), op0("state")})},
	}
	for _, s := range fixed {
		c.Emit("c13.walk", s.in, s.class)
	}
	// a second subscriber queues behind Run, which is blocked on the first waiter's full channel
	c.Emit("c13.walk", walkSx(1, []int{100, 100}, []sx.V{op1("sub", 0), op2("sethead", 0, 1), op0("notify"), op2("sethead", 0, 2), op0("notify"),
		op0("state"), op0("tick"), op1("sub", 1), op0("state"), op1("recv", 0), op0("state"), op1("recv", 0), op1("recv", 1), op1("unsub", 0), op1("unsub", 1), op0("state")}),
		"walk|writer-queued-behind-blocked-reader")
	// bursts of head updates against the 10-slot buffer
	for _, k := range []int{9, 10, 11} {
		for _, j := range []int{1, 3} {
			ops := []sx.V{op1("sub", 0)}
			ops = append(ops, setheads(0, 1, k)...)
			ops = append(ops, op0("state"))
			for x := 0; x < j; x++ {
				ops = append(ops, op0("notify"), op1("recv", 0))
			}
			ops = append(ops, op0("state"), op0("tick"), op1("sub", 1), op0("state"))
			for x := 0; x < 12; x++ {
				ops = append(ops, op0("notify"), op1("recv", 0), op1("recv", 1))
			}
			ops = append(ops, op1("unsub", 0), op1("unsub", 1), op0("state"))
			c.Emit("c13.walk", walkSx(1, []int{100, 5}, ops), fmt.Sprintf("walk|burst|k%d", k))
		}
	}
	// random walks
	n := c.Scale(260, 3000)
	for i := 0; i < n; i++ {
		nconns := 1 + r.Intn(2)
		nw := 1 + r.Intn(3)
		tgts := make([]int, nw)
		for k := range tgts {
			tgts[k] = 1 + r.Intn(12)
		}
		single := nw == 1
		// blocking is allowed in a fraction of the single-waiter walks only (each
		// blocked observation costs walkBlockAfter)
		mayBlock := single && i%6 == 0
		var ops []sx.V
		heads := make([]int, nconns)
		unconsumed := 0 // publishes minus notifies (upper bound of the buffer fill)
		undrained := 0  // notifies of the best connection since the waiter's last drain
		subbed := make([]bool, nw)
		gone := make([]bool, nw)
		// a waiter that has received a sufficient head leaves its loop; it is
		// unsubscribed right after the receive (channel empty), never later: a
		// leaving waiter with a full channel is the F14 shape (known finding, not
		// compared) and with several registered waiters the map order would show
		recv := func(w int) {
			ops = append(ops, op1("recv", w))
			if subbed[w] && !gone[w] && heads[0] >= tgts[w] {
				ops = append(ops, op1("recv", w), op1("unsub", w))
				gone[w] = true
			}
		}
		steps := 6 + r.Intn(14)
		for s := 0; s < steps; s++ {
			switch k := r.Intn(10); {
			case k < 3: // a head arrives
				cn := r.Intn(nconns)
				if r.Chance(85) {
					heads[cn] += 1 + r.Intn(3)
				}
				if unconsumed >= 10 && !mayBlock {
					ops = append(ops, op0("notify"))
					unconsumed--
				}
				if unconsumed >= 11 {
					continue
				}
				ops = append(ops, op2("sethead", cn, heads[cn]))
				unconsumed++
			case k < 6: // Run consumes one update
				if single && undrained >= 1 && !mayBlock {
					recv(0)
					undrained = 0
				}
				if single && undrained >= 2 {
					continue // Run would be busy
				}
				ops = append(ops, op0("notify"))
				if unconsumed > 0 {
					unconsumed--
				}
				undrained++
				if !single {
					for w := 0; w < nw; w++ {
						recv(w)
					}
					undrained = 0
				}
			case k < 7:
				if unconsumed < 11 {
					ops = append(ops, op0("tick"))
				}
			case k < 8:
				w := r.Intn(nw)
				if !subbed[w] && unconsumed < 11 {
					subbed[w] = true
					ops = append(ops, op1("sub", w))
				}
			case k < 9:
				w := r.Intn(nw)
				recv(w)
				if single && undrained > 0 {
					undrained--
				}
			default:
				w := r.Intn(nw)
				if subbed[w] && !gone[w] {
					// never leave with a possibly full channel (F14 shape)
					ops = append(ops, op1("recv", w), op1("recv", w), op1("unsub", w))
					gone[w] = true
					if single {
						undrained = 0
					}
				}
			}
			if r.Chance(25) {
				ops = append(ops, op0("state"))
			}
		}
		// drain everything that may be pending so that the walk ends quiescent
		for k := 0; k < 3; k++ {
			for w := 0; w < nw; w++ {
				recv(w)
			}
			ops = append(ops, op0("notify"))
		}
		ops = append(ops, op0("state"))
		class := fmt.Sprintf("walk|random|c%d|w%d", nconns, nw)
		if mayBlock {
			class += "|mayblock"
		}
		c.Emit("c13.walk", walkSx(nconns, tgts, ops), class)
	}
}

func setheads(c, from, n int) []sx.V {
	var out []sx.V
	for i := 0; i < n; i++ {
		out = append(out, op2("sethead", c, from+i))
	}
	return out
}

// ---- deterministic reproductions (oracle on the implementation) ----

const reproBlockAfter = 300 * time.Millisecond

// F14: two notifications while a waiter leaves.
func reproNotifyUnsubscribe() (bool, string) {
	p := pool.New(pool.BestPingStrategy)
	rc := p.VerifAddRealConn(0)
	rc.SetMasterHead(5)
	if u, ok := p.VerifTakeUpdate(); ok {
		p.VerifNotify(u)
	}
	id, ch := p.VerifSubscribe(10) // WaitMasterchainSeqno(10): registered
	rc.SetMasterHead(6)
	u1, _ := p.VerifTakeUpdate()
	p.VerifNotify(u1) // channel now holds head 6
	rc.SetMasterHead(7)
	u2, _ := p.VerifTakeUpdate()
	// the waiter's timeout fires here: it leaves the loop without draining
	dN := goStep(func() { p.VerifNotify(u2) })
	nBlocked := !finished(dN, reproBlockAfter)
	dU := goStep(func() { p.VerifUnsubscribe(id) })
	uBlocked := !finished(dU, reproBlockAfter)
	// collateral: an unrelated caller with a 50 ms timeout does not return either
	dW := goStep(func() { _ = p.WaitMasterchainSeqno(context.Background(), 1, 50*time.Millisecond) })
	wBlocked := !finished(dW, reproBlockAfter)
	// causality: draining the channel by hand releases everything
	select {
	case <-ch:
	default:
	}
	released := finished(dN, time.Second) && finished(dU, time.Second) && finished(dW, time.Second)
	return nBlocked && uBlocked, fmt.Sprintf("notifySubscribers blocked=%v (holds RLock, full waiter channel), unsubscribe blocked=%v, "+
		"unrelated WaitMasterchainSeqno(timeout 50ms) blocked=%v after %v; released by draining the channel=%v",
		nBlocked, uBlocked, wBlocked, reproBlockAfter, released)
}

// updateBest against SetMasterHead on a full update buffer.
func reproUpdateBestSetHead() (bool, string) {
	p := pool.New(pool.BestPingStrategy)
	rc := p.VerifAddRealConn(0)
	for h := uint32(1); h <= 10; h++ {
		rc.SetMasterHead(h) // buffer fills: Run has not been scheduled
	}
	d11 := goStep(func() { rc.SetMasterHead(11) })
	sBlocked := !finished(d11, reproBlockAfter)
	// Run's select takes the ticker branch (both branches are ready)
	dT := goStep(func() { p.VerifUpdateBest() })
	tBlocked := !finished(dT, reproBlockAfter)
	// collateral
	dB := goStep(func() { _, _, _ = p.BestMasterchainClient(context.Background()) })
	bBlocked := !finished(dB, reproBlockAfter)
	p.VerifTakeUpdate() // what only Run could do
	released := finished(d11, time.Second) && finished(dT, time.Second) && finished(dB, time.Second)
	return sBlocked && tBlocked, fmt.Sprintf("SetMasterHead blocked=%v (holds connection lock, buffer of 10 full), updateBest blocked=%v (holds pool lock, "+
		"waits for connection lock), BestMasterchainClient blocked=%v after %v; released by consuming one update=%v",
		sBlocked, tBlocked, bBlocked, reproBlockAfter, released)
}

// the same with the real Run loop (1 ms ticker) and a publisher in a tight loop
func reproUpdateBestSetHeadRealRun() (bool, string) {
	p := pool.New(pool.BestPingStrategy)
	rc := p.VerifAddRealConn(0)
	p.VerifSetUpdateInterval(time.Millisecond)
	ctx, cancel := context.WithCancel(context.Background())
	defer cancel()
	go p.Run(ctx)
	var published uint32
	stop := make(chan struct{})
	go func() {
		for h := uint32(1); ; h++ {
			select {
			case <-stop:
				return
			default:
			}
			rc.SetMasterHead(h)
			atomic.StoreUint32(&published, h)
		}
	}()
	deadline := time.Now().Add(3 * time.Second)
	last, lastChange := uint32(0), time.Now()
	stuck := false
	for time.Now().Before(deadline) {
		time.Sleep(5 * time.Millisecond)
		cur := atomic.LoadUint32(&published)
		if cur != last {
			last, lastChange = cur, time.Now()
		} else if time.Since(lastChange) > 400*time.Millisecond {
			stuck = true
			break
		}
	}
	close(stop)
	if stuck {
		p.VerifTakeUpdate()
	}
	return stuck, fmt.Sprintf("real Run loop with a 1 ms ticker and one connection publishing in a loop: no progress for 400 ms after %d heads = %v", last, stuck)
}

// subscribe against SetMasterHead on a full update buffer while Run waits for RLock.
func reproSubscribeSetHead() (bool, string) {
	p := pool.New(pool.BestPingStrategy)
	rc := p.VerifAddRealConn(0)
	rc.SetMasterHead(1)
	u, _ := p.VerifTakeUpdate() // Run has received an update and is about to RLock
	for h := uint32(2); h <= 11; h++ {
		rc.SetMasterHead(h)
	}
	d12 := goStep(func() { rc.SetMasterHead(12) })
	pBlocked := !finished(d12, reproBlockAfter)
	dS := goStep(func() { p.VerifSubscribe(100) })
	sBlocked := !finished(dS, reproBlockAfter)
	dN := goStep(func() { p.VerifNotify(u) })
	nBlocked := !finished(dN, reproBlockAfter)
	p.VerifTakeUpdate()
	released := finished(d12, time.Second) && finished(dS, time.Second) && finished(dN, time.Second)
	return pBlocked && sBlocked && nBlocked, fmt.Sprintf("SetMasterHead blocked=%v, subscribe blocked=%v (holds pool lock, waits for connection lock), "+
		"notifySubscribers blocked=%v (waits for RLock) after %v; released by consuming one update=%v", pBlocked, sBlocked, nBlocked, reproBlockAfter, released)
}

// the timeout of WaitMasterchainSeqno restarts at every head update
func reproTimeoutRestarts() (bool, string) {
	p := pool.New(pool.BestPingStrategy)
	rc := p.VerifAddRealConn(0)
	ctx, cancel := context.WithCancel(context.Background())
	defer cancel()
	go p.Run(ctx)
	rc.SetMasterHead(1)
	const T = 150 * time.Millisecond
	start := time.Now()
	var ret time.Duration
	d := goStep(func() {
		_ = p.WaitMasterchainSeqno(ctx, 1_000_000, T)
		ret = time.Since(start)
	})
	h := uint32(2)
	lateAt3T := false
	for time.Since(start) < 4*T {
		time.Sleep(T / 3)
		rc.SetMasterHead(h)
		h++
		if time.Since(start) >= 3*T && !lateAt3T {
			lateAt3T = !finished(d, 0)
		}
	}
	finished(d, 2*T)
	return lateAt3T, fmt.Sprintf("WaitMasterchainSeqno(seqno far ahead, timeout %v) with a head update every %v: still waiting after %v = %v (returned after %v, i.e. one timeout after the last update)",
		T, T/3, 3*T, lateAt3T, ret.Round(10*time.Millisecond))
}

func reproEmptyPoolPanic() (panicked bool, what string) {
	defer func() {
		if r := recover(); r != nil {
			panicked, what = true, fmt.Sprintf("WaitMasterchainSeqno on a pool without connections panics: %v", r)
		}
	}()
	p := pool.New(pool.BestPingStrategy)
	_ = p.WaitMasterchainSeqno(context.Background(), 1, 10*time.Millisecond)
	return false, ""
}

func genC13Repro(c *Ctx, f *c13Fails) {
	none := sx.L()
	if bad, what := reproNotifyUnsubscribe(); bad {
		f.fail("c13.repro", none, "notify-unsubscribe-deadlock", "F14: "+what)
	}
	if bad, what := reproUpdateBestSetHead(); bad {
		if bad2, what2 := reproUpdateBestSetHeadRealRun(); bad2 {
			what += "; " + what2
		}
		f.fail("c13.repro", none, "updatebest-sethead-deadlock", what)
	}
	if bad, what := reproSubscribeSetHead(); bad {
		f.fail("c13.repro", none, "subscribe-sethead-deadlock", what)
	}
	if bad, what := reproTimeoutRestarts(); bad {
		f.fail("c13.repro", none, "wait-timeout-restarts", what)
	}
	if bad, what := reproEmptyPoolPanic(); bad {
		f.fail("c13.repro", none, "wait-empty-pool-panic", what)
	}
}
