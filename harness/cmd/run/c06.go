package main

import (
	"fmt"
	"math/big"
	"strings"

	"github.com/tonkeeper/tongo/boc"

	"verifharness/prng"
	"verifharness/sx"
)

func init() {
	execs["c06.seq"] = execC06Seq
	execs["c06.tofift"] = execC06ToFift
	execs["c06.fromfift"] = execC06FromFift
	execs["c06.minbits"] = func(in sx.V) sx.V { return sx.Nat(boc.VerifMinBitsRequired(in.U64())) }
	gens["C06"] = genC06
}

func errOr(err error, ok sx.V) sx.V {
	if err != nil {
		return sx.A("err")
	}
	return ok
}

func bitsOf(b *boc.BitString) string {
	c := b.Copy()
	var sb strings.Builder
	for c.BitsAvailableForRead() > 0 {
		bit, err := c.ReadBit()
		if err != nil {
			break
		}
		if bit {
			sb.WriteByte('1')
		} else {
			sb.WriteByte('0')
		}
	}
	return sb.String()
}

func bitStringFromBits(s string) boc.BitString {
	b := boc.NewBitString(len(s))
	for _, c := range s {
		_ = b.WriteBit(c == '1')
	}
	return b
}

func fiftToSx(s string) sx.V {
	under := strings.HasSuffix(s, "_")
	if under {
		s = s[:len(s)-1]
	}
	var ds []sx.V
	for _, c := range s {
		var d int
		switch {
		case c >= '0' && c <= '9':
			d = int(c - '0')
		case c >= 'A' && c <= 'F':
			d = int(c-'A') + 10
		default:
			return sx.L(sx.A("harness-error"), sx.A("fiftchar"))
		}
		ds = append(ds, sx.Nat(d))
	}
	return sx.L(sx.L(ds...), sx.B(under))
}

// one op on a BitString; panics are caught per op so that the sequence goes on
func c06Op(b *boc.BitString, o sx.V) (out sx.V) {
	defer func() {
		if r := recover(); r != nil {
			out = sx.A("panic")
		}
	}()
	a := o.List[1:]
	ok := sx.A("ok")
	switch o.Head() {
	case "wbit":
		return errOr(b.WriteBit(a[0].Bool), ok)
	case "wuint":
		return errOr(b.WriteUint(a[0].U64(), a[1].I()), ok)
	case "wint":
		return errOr(b.WriteInt(a[0].Int.Int64(), a[1].I()), ok)
	case "wbiguint":
		return errOr(b.WriteBigUint(new(big.Int).Set(a[0].Int), a[1].I()), ok)
	case "wbigint":
		return errOr(b.WriteBigInt(new(big.Int).Set(a[0].Int), a[1].I()), ok)
	case "wbytes":
		return errOr(b.WriteBytes(a[0].Bytes), ok)
	case "wbits":
		// alternate between the two Go entry points that write a bit list
		if len(a[0].Bits)%2 == 0 {
			arr := make([]bool, len(a[0].Bits))
			for i, c := range a[0].Bits {
				arr[i] = c == '1'
			}
			return errOr(b.WriteBitArray(arr), ok)
		}
		return errOr(b.WriteBitString(bitStringFromBits(a[0].Bits)), ok)
	case "wunary":
		return errOr(b.WriteUnary(uint(a[0].U64())), ok)
	case "wlim":
		return errOr(b.WriteLimUint(a[0].I(), a[1].I()), ok)
	case "rbit":
		v, err := b.ReadBit()
		return errOr(err, sx.B(v))
	case "ruint":
		v, err := b.ReadUint(a[0].I())
		return errOr(err, sx.N(v))
	case "puint":
		v, err := b.PickUint(a[0].I())
		return errOr(err, sx.N(v))
	case "rint":
		v, err := b.ReadInt(a[0].I())
		return errOr(err, sx.Z(v))
	case "rbiguint":
		v, err := b.ReadBigUint(a[0].I())
		if err != nil {
			return sx.A("err")
		}
		return scribbleBig(sx.BigN(v), v)
	case "rbigint":
		v, err := b.ReadBigInt(a[0].I())
		if err != nil {
			return sx.A("err")
		}
		return scribbleBig(sx.BigZ(v), v)
	case "rbyte":
		v, err := b.ReadByte()
		return errOr(err, sx.N(uint64(v)))
	case "rbytes":
		v, err := b.ReadBytes(a[0].I())
		return errOr(err, sx.Bytes(v))
	case "rbits":
		v, err := b.ReadBits(a[0].I())
		if err != nil {
			return sx.A("err")
		}
		if v.GetWriteCursor() != a[0].I() {
			return sx.L(sx.A("harness-error"), sx.A("rbits-len"))
		}
		out := sx.Bits(bitsOf(&v))
		scribbleBits(&v)
		return out
	case "runary":
		v, err := b.ReadUnary()
		return errOr(err, sx.N(uint64(v)))
	case "rlim":
		v, err := b.ReadLimUint(a[0].I())
		return errOr(err, sx.N(uint64(v)))
	case "skip":
		return errOr(b.Skip(a[0].I()), ok)
	case "reset":
		b.ResetCounter()
		return ok
	case "state":
		return sx.L(sx.Nat(b.GetWriteCursor()), sx.Nat(b.BitsAvailableForRead()), sx.Nat(b.BitsAvailableForWrite()), sx.Bits(bitsOf(b)))
	case "fift":
		return fiftToSx(b.ToFiftHex())
	}
	return sx.L(sx.A("harness-error"), sx.A("badop"))
}

// The value a reader returns belongs to the caller: after it has been recorded it is modified
// in place, the way ordinary big.Int / BitString code does (x.Add(x, y), Append ...).  Nothing
// read later — from this or any other bit string — may be affected.
var scribbleCount int

func scribbleBig(out sx.V, v *big.Int) sx.V {
	scribbleCount++
	switch scribbleCount % 3 {
	case 0:
		v.Add(v, big.NewInt(41))
	case 1:
		v.SetInt64(-7)
	default:
		v.Lsh(v.Add(v, big.NewInt(1)), 70)
	}
	return out
}

func scribbleBits(v *boc.BitString) {
	// flip every bit of the result in place
	for i, c := range bitsOf(v) {
		if c == '1' {
			_ = v.Off(i)
		} else {
			_ = v.On(i)
		}
	}
	v.Grow(9)
	_ = v.WriteUint(0x1FF, 9)
}

func scribbleBytes(b []byte) {
	for i := range b {
		b[i] ^= 0xFF
	}
}

func execC06Seq(in sx.V) sx.V {
	b := boc.NewBitString(in.List[0].I())
	var outs []sx.V
	for _, o := range in.List[1:] {
		outs = append(outs, c06Op(&b, o))
	}
	return sx.L(outs...)
}

func execC06ToFift(in sx.V) sx.V {
	b := bitStringFromBits(in.Bits)
	return sx.Str(b.ToFiftHex())
}

func execC06FromFift(in sx.V) sx.V {
	b, err := boc.BitStringFromFiftHex(string(in.Bytes))
	if err != nil {
		return sx.A("err")
	}
	return sx.Bits(bitsOf(b))
}

// ---------------------------------------------------------------- generators

var edgeWidths = []int{0, 1, 2, 7, 8, 9, 15, 16, 17, 31, 32, 33, 55, 56, 57, 58, 63, 64}
var bigWidths = []int{1, 2, 7, 8, 9, 64, 65, 127, 128, 129, 255, 256, 257}

func randBits(r *prng.R, n int) string {
	var sb strings.Builder
	mode := r.Intn(4)
	for i := 0; i < n; i++ {
		var bit bool
		switch mode {
		case 0:
			bit = false
		case 1:
			bit = true
		default:
			bit = r.Bool()
		}
		if bit {
			sb.WriteByte('1')
		} else {
			sb.WriteByte('0')
		}
	}
	return sb.String()
}

func pickWidth(r *prng.R) int {
	if r.Chance(60) {
		return edgeWidths[r.Intn(len(edgeWidths))]
	}
	return r.Intn(65)
}

func randUintOfWidth(r *prng.R, w int) uint64 {
	if w == 0 {
		return 0
	}
	var max uint64 = ^uint64(0)
	if w < 64 {
		max = (uint64(1) << uint(w)) - 1
	}
	switch r.Intn(6) {
	case 0:
		return 0
	case 1:
		return max
	case 2:
		return 1 & max
	case 3:
		return (uint64(1) << uint(w-1)) & max
	}
	return r.U64() & max
}

func randIntOfWidth(r *prng.R, w int) int64 {
	// w in 1..64
	var min, max int64
	if w == 64 {
		min, max = -1<<63, 1<<63-1
	} else {
		min, max = -(int64(1) << uint(w-1)), (int64(1)<<uint(w-1))-1
	}
	switch r.Intn(7) {
	case 0:
		return 0
	case 1:
		return min
	case 2:
		return max
	case 3:
		return -1
	case 4:
		if max >= 1 {
			return 1
		}
		return 0
	}
	if w == 64 {
		return int64(r.U64())
	}
	span := uint64(max-min) + 1
	return min + int64(r.U64()%span)
}

func randBigOfWidth(r *prng.R, w int, signed bool) *big.Int {
	one := big.NewInt(1)
	if !signed {
		max := new(big.Int).Sub(new(big.Int).Lsh(one, uint(w)), one)
		switch r.Intn(5) {
		case 0:
			return big.NewInt(0)
		case 1:
			return max
		case 2:
			return new(big.Int).Lsh(one, uint(w-1))
		}
		v := new(big.Int).SetBytes(r.Bytes((w + 7) / 8))
		return v.And(v, max)
	}
	min := new(big.Int).Neg(new(big.Int).Lsh(one, uint(w-1)))
	max := new(big.Int).Sub(new(big.Int).Lsh(one, uint(w-1)), one)
	switch r.Intn(6) {
	case 0:
		return big.NewInt(0)
	case 1:
		return min
	case 2:
		return max
	case 3:
		return big.NewInt(-1)
	}
	v := new(big.Int).SetBytes(r.Bytes((w + 7) / 8))
	v.And(v, new(big.Int).Sub(new(big.Int).Lsh(one, uint(w)), one))
	if v.Cmp(max) > 0 {
		v.Sub(v, new(big.Int).Lsh(one, uint(w)))
	}
	return v
}

type planned struct {
	write sx.V
	read  sx.V
	want  sx.V
	width int
}

func op(name string, args ...sx.V) sx.V { return sx.L(append([]sx.V{sx.A(name)}, args...)...) }

func planItem(r *prng.R) planned {
	switch r.Intn(12) {
	case 0:
		b := r.Bool()
		return planned{op("wbit", sx.B(b)), op("rbit"), sx.B(b), 1}
	case 1, 2:
		w := pickWidth(r)
		v := randUintOfWidth(r, w)
		return planned{op("wuint", sx.N(v), sx.Nat(w)), op("ruint", sx.Nat(w)), sx.N(v), w}
	case 3, 4:
		w := pickWidth(r)
		if w == 0 {
			w = 1
		}
		v := randIntOfWidth(r, w)
		return planned{op("wint", sx.Z(v), sx.Nat(w)), op("rint", sx.Nat(w)), sx.Z(v), w}
	case 5:
		w := bigWidths[r.Intn(len(bigWidths))]
		if r.Chance(30) {
			w = 1 + r.Intn(257)
		}
		v := randBigOfWidth(r, w, false)
		return planned{op("wbiguint", sx.BigN(v), sx.Nat(w)), op("rbiguint", sx.Nat(w)), sx.BigN(v), w}
	case 6:
		w := bigWidths[r.Intn(len(bigWidths))]
		if r.Chance(30) {
			w = 1 + r.Intn(257)
		}
		v := randBigOfWidth(r, w, true)
		return planned{op("wbigint", sx.BigZ(v), sx.Nat(w)), op("rbigint", sx.Nat(w)), sx.BigZ(v), w}
	case 7:
		n := r.Intn(6)
		if r.Chance(20) {
			n = r.Intn(40)
		}
		b := r.Bytes(n)
		if n == 1 && r.Bool() {
			return planned{op("wbytes", sx.Bytes(b)), op("rbyte"), sx.N(uint64(b[0])), 8}
		}
		return planned{op("wbytes", sx.Bytes(b)), op("rbytes", sx.Nat(n)), sx.Bytes(b), 8 * n}
	case 8:
		n := r.Intn(20)
		if r.Chance(20) {
			n = r.Intn(200)
		}
		s := randBits(r, n)
		return planned{op("wbits", sx.Bits(s)), op("rbits", sx.Nat(n)), sx.Bits(s), n}
	case 9:
		n := r.Intn(10)
		if r.Chance(30) {
			n = []int{61, 62, 63, 64, 65, 100}[r.Intn(6)]
		}
		return planned{op("wunary", sx.Nat(n)), op("runary"), sx.Nat(n), n + 1}
	case 10:
		bound := []uint64{0, 1, 2, 3, 4, 7, 8, 255, 256, 1023, 1 << 31, 1<<31 - 1, 1<<62 - 1}[r.Intn(13)]
		if r.Chance(30) {
			bound = r.U64() >> uint(1+r.Intn(63))
		}
		v := uint64(0)
		if bound > 0 {
			v = r.U64() % (bound + 1)
		}
		if r.Chance(20) {
			v = bound
		}
		w := 0
		for x := bound; x > 0; x >>= 1 {
			w++
		}
		return planned{op("wlim", sx.N(v), sx.N(bound)), op("rlim", sx.N(bound)), sx.N(v), w}
	default:
		w := pickWidth(r)
		v := randUintOfWidth(r, w)
		return planned{op("wuint", sx.N(v), sx.Nat(w)), op("ruint", sx.Nat(w)), sx.N(v), w}
	}
}

func genC06(c *Ctx) {
	r := c.R
	// 0. corpus-like fixed cases: exhaustive small sweep of fast paths
	// 1. planned write-then-read sequences with a direct round-trip oracle
	nPlanned := c.Scale(2500, 150000)
	for i := 0; i < nPlanned; i++ {
		pad := r.Intn(17)
		var items []planned
		total := pad
		k := 1 + r.Intn(12)
		for j := 0; j < k; j++ {
			it := planItem(r)
			items = append(items, it)
			total += it.width
		}
		capBits := total
		switch r.Intn(5) {
		case 0:
			capBits = total + r.Intn(9)
		case 1:
			capBits = 1023
			if total > capBits {
				capBits = total
			}
		}
		ops := []sx.V{sx.Nat(capBits), op("wbits", sx.Bits(randBits(r, pad)))}
		for _, it := range items {
			ops = append(ops, it.write)
		}
		ops = append(ops, op("state"), op("skip", sx.Nat(pad)))
		for _, it := range items {
			if r.Chance(15) && it.read.Head() == "ruint" {
				ops = append(ops, op("puint", it.read.List[1]))
			}
			ops = append(ops, it.read)
		}
		ops = append(ops, op("rbit"), op("fift")) // must be an error: nothing left
		in := sx.L(ops...)
		out := c.Emit("c06.seq", in, fmt.Sprintf("planned|pad%d|k%d", pad%8, k/4))
		// oracle: every read returns what was written
		if out.K == sx.KL && len(out.List) == len(ops)-1 {
			res := out.List
			base := 1 + len(items) + 2
			ri := base
			for j, it := range items {
				_ = j
				if ops[1+ri].Head() == "puint" {
					if res[ri].String() != it.want.String() {
						c.Fail("c06.seq", in, "pick-mismatch", fmt.Sprintf("peek returned %s, written %s", res[ri], it.want))
					}
					ri++
				}
				if res[ri].String() != it.want.String() {
					c.Fail("c06.seq", in, "roundtrip-"+it.read.Head(), fmt.Sprintf("op %s returned %s, written %s", it.read, res[ri], it.want))
				}
				ri++
			}
			if !res[ri].IsA("err") {
				c.Fail("c06.seq", in, "read-past-end", "read beyond the written length did not fail")
			}
		}
	}
	// 2. random op soup incl. overflow / underflow / reset
	nSoup := c.Scale(1500, 100000)
	for i := 0; i < nSoup; i++ {
		capBits := []int{0, 1, 7, 8, 9, 63, 64, 65, 100, 256, 1023}[r.Intn(11)]
		if r.Chance(30) {
			capBits = r.Intn(1024)
		}
		ops := []sx.V{sx.Nat(capBits)}
		k := 5 + r.Intn(30)
		for j := 0; j < k; j++ {
			it := planItem(r)
			switch r.Intn(10) {
			case 0, 1, 2, 3:
				ops = append(ops, it.write)
			case 4, 5, 6:
				ops = append(ops, it.read)
			case 7:
				ops = append(ops, op("skip", sx.Nat(r.Intn(20))))
			case 8:
				if r.Bool() {
					ops = append(ops, op("reset"))
				} else {
					ops = append(ops, op("puint", sx.Nat(pickWidth(r))))
				}
			case 9:
				ops = append(ops, op("state"))
			}
		}
		ops = append(ops, op("state"), op("fift"))
		in := sx.L(ops...)
		out := c.Emit("c06.seq", in, fmt.Sprintf("soup|cap%d", capBits/128))
		// oracle: an op that fails never changes the previously written prefix
		if out.K == sx.KL {
			prev := ""
			for j, o := range out.List {
				if ops[1+j].Head() == "state" && o.K == sx.KL && len(o.List) == 4 {
					cur := o.List[3].Bits
					if !strings.HasPrefix(cur, prev) {
						c.Fail("c06.seq", in, "prefix-lost", "previously written bits changed")
					}
					prev = cur
				}
			}
		}
	}
	// 3. fast-path sweep: offset x width over a random 1023-bit string
	type ow struct{ off, w int }
	var combos []ow
	if c.Thorough() {
		for off := 0; off <= 1023; off++ {
			for w := 0; w <= 64; w++ {
				combos = append(combos, ow{off, w})
			}
		}
	} else {
		for i := 0; i < 1200; i++ {
			off := r.Intn(1024)
			if r.Chance(40) {
				off = []int{0, 1, 7, 8, 9, 56, 57, 63, 64, 959, 960, 966, 967, 1015, 1022, 1023}[r.Intn(16)]
			}
			combos = append(combos, ow{off, pickWidth(r)})
		}
	}
	for gi := 0; gi < len(combos); gi += 40 {
		content := randBits(r, 1023)
		end := gi + 40
		if end > len(combos) {
			end = len(combos)
		}
		ops := []sx.V{sx.Nat(1023), op("wbits", sx.Bits(content))}
		type chk struct {
			cw   ow
			base int
		}
		var chks []chk
		for _, cw := range combos[gi:end] {
			chks = append(chks, chk{cw, len(ops) - 1})
			ops = append(ops, op("reset"), op("skip", sx.Nat(cw.off)),
				op("puint", sx.Nat(cw.w)), op("ruint", sx.Nat(cw.w)), op("reset"), op("skip", sx.Nat(cw.off)),
				op("rint", sx.Nat(cw.w)), op("reset"), op("skip", sx.Nat(cw.off)), op("rbits", sx.Nat(cw.w)),
				op("reset"), op("skip", sx.Nat(cw.off)), op("rbytes", sx.Nat(cw.w/8)), op("rbyte"),
				op("reset"), op("skip", sx.Nat(cw.off)), op("rbiguint", sx.Nat(cw.w*4)), op("rbigint", sx.Nat(cw.w+1)))
		}
		in := sx.L(ops...)
		first := combos[gi]
		out := c.Emit("c06.seq", in, fmt.Sprintf("sweep|off%d|w%d", first.off%8, first.w))
		// oracle against the ideal bit list
		if out.K == sx.KL && len(out.List) == len(ops)-1 {
			for _, ch := range chks {
				cw := ch.cw
				res := out.List[ch.base:]
				if cw.off+cw.w <= 1023 {
					want := new(big.Int)
					if cw.w > 0 {
						want.SetString(content[cw.off:cw.off+cw.w], 2)
					}
					if got := res[3]; got.K != sx.KN || got.Int.Cmp(want) != 0 {
						c.Fail("c06.seq", in, "sweep-ruint", fmt.Sprintf("ReadUint(%d) at offset %d returned %s, ideal %s", cw.w, cw.off, got, want.Text(16)))
					}
					if got := res[2]; got.K != sx.KN || got.Int.Cmp(want) != 0 {
						c.Fail("c06.seq", in, "sweep-puint", fmt.Sprintf("PickUint(%d) at offset %d returned %s, ideal %s", cw.w, cw.off, got, want.Text(16)))
					}
					if got := res[9]; got.K != sx.KBits || got.Bits != content[cw.off:cw.off+cw.w] {
						c.Fail("c06.seq", in, "sweep-rbits", "ReadBits differs from the ideal bit list")
					}
				} else if !res[3].IsA("err") {
					c.Fail("c06.seq", in, "sweep-past-end", "read beyond the written length did not fail")
				}
			}
		}
	}
	// 4. Fift hex: every length (thorough) / sampled, round trip + malformed
	var lens []int
	if c.Thorough() {
		for rep := 0; rep < 4; rep++ {
			for n := 0; n <= 1023; n++ {
				lens = append(lens, n)
			}
		}
	} else {
		for n := 0; n <= 40; n++ {
			lens = append(lens, n)
		}
		for i := 0; i < 260; i++ {
			lens = append(lens, r.Intn(1024))
		}
		lens = append(lens, 1016, 1017, 1019, 1020, 1021, 1022, 1023)
	}
	for _, n := range lens {
		s := randBits(r, n)
		out := c.Emit("c06.tofift", sx.Bits(s), fmt.Sprintf("tofift|mod8=%d", n%8))
		if out.K == sx.KBytes {
			txt := string(out.Bytes)
			if r.Bool() {
				txt = strings.ToLower(txt)
			}
			back := c.Emit("c06.fromfift", sx.Str(txt), fmt.Sprintf("fromfift|valid|mod4=%d", n%4))
			if back.K != sx.KBits || back.Bits != s {
				c.Fail("c06.fromfift", sx.Str(txt), "fift-roundtrip", "Fift hex does not convert back to the same bits")
			}
			c06TextOracles(c, s, txt)
		}
	}
	nMal := c.Scale(400, 20000)
	alphabet := "0123456789abcdefABCDEF_gG xz-"
	for i := 0; i < nMal; i++ {
		n := r.Intn(12)
		var sb strings.Builder
		for j := 0; j < n; j++ {
			sb.WriteByte(alphabet[r.Intn(len(alphabet))])
		}
		if r.Chance(50) {
			sb.WriteByte('_')
		}
		c.Emit("c06.fromfift", sx.Str(sb.String()), "fromfift|malformed")
	}
	// 5. minBitsRequired
	for k := 0; k < 64; k++ {
		for _, v := range []uint64{1 << uint(k), (1 << uint(k)) - 1, (1 << uint(k)) + 1, (1 << uint(k)) | (r.U64() & ((1 << uint(k)) - 1))} {
			c.Emit("c06.minbits", sx.N(v), fmt.Sprintf("minbits|%d", k))
		}
	}
	c.Emit("c06.minbits", sx.N(^uint64(0)), "minbits|max")
	// 6. derived bit strings (results of ReadBits / ReadRemainingBits / Copy / RawBitString): c06d.go
	genC06Derived(c)
	// 7. reference slots and cursor of boc.Cell: c06r.go
	genC06Refs(c)
}
