package main

// C05 generators and property oracles (see c05.go).

import (
	"fmt"
	"sort"
	"strings"

	"github.com/tonkeeper/tongo/boc"
	"github.com/tonkeeper/tongo/tlb"
	"github.com/tonkeeper/tongo/ton"

	"verifharness/prng"
	"verifharness/sx"
)

// ---- generators --------------------------------------------------------------

func c05Less(a, b string) bool { return a < b } // equal lengths: lexicographic = bit order

func c05SortedDistinct(kvs []c05KV) []c05KV {
	// last value per key, ascending in bit order
	m := map[string]uint32{}
	for _, kv := range kvs {
		m[kv.k] = kv.v
	}
	out := make([]c05KV, 0, len(m))
	for k, v := range m {
		out = append(out, c05KV{k, v})
	}
	sort.Slice(out, func(i, j int) bool { return c05Less(out[i].k, out[j].k) })
	return out
}

func c05RandBits(r *prng.R, n int) string {
	var sb strings.Builder
	for sb.Len() < n {
		x := r.U64()
		for i := 0; i < 64 && sb.Len() < n; i++ {
			sb.WriteByte('0' + byte(x&1))
			x >>= 1
		}
	}
	return sb.String()
}

// keys made of runs of >= 8 equal bits
func c05RunBits(r *prng.R, n int) string {
	var sb strings.Builder
	bit := byte('0' + byte(r.Intn(2)))
	for sb.Len() < n {
		l := 8 + r.Intn(40)
		if r.Chance(20) {
			l = n
		}
		for i := 0; i < l && sb.Len() < n; i++ {
			sb.WriteByte(bit)
		}
		bit ^= 1
	}
	return sb.String()
}

func c05Inc(s string) (string, bool) { // s + 1 as an n-bit number
	b := []byte(s)
	for i := len(b) - 1; i >= 0; i-- {
		if b[i] == '0' {
			b[i] = '1'
			return string(b), true
		}
		b[i] = '0'
	}
	return "", false
}

var c05Shapes = []string{"single", "random", "prefix", "runs", "dense", "minmax", "lastbit"}

// the 288-bit key type is tlb.AddressWithWorkchain: an int8 workchain written as
// int32 followed by 32 bytes, so the first 24 bits repeat bit 24 (sign extension)
func c05Canon(n int, k string) string {
	if n != 288 || len(k) != 288 {
		return k
	}
	return strings.Repeat(k[24:25], 24) + k[24:]
}

// a set of at most size distinct keys of width n of the given shape
func c05KeySet(r *prng.R, n, size int, shape string) []string {
	set := map[string]bool{}
	add := func(k string) {
		if len(k) == n {
			set[c05Canon(n, k)] = true
		}
	}
	switch shape {
	case "single":
		switch r.Intn(4) {
		case 0:
			add(strings.Repeat("0", n))
		case 1:
			add(strings.Repeat("1", n))
		case 2:
			add(c05RunBits(r, n))
		default:
			add(c05RandBits(r, n))
		}
	case "random":
		for i := 0; i < size; i++ {
			add(c05RandBits(r, n))
		}
	case "prefix": // long common prefix, possibly of constant bits
		var pre string
		k := 1 + r.Intn(minInt(n, 8))
		switch r.Intn(3) {
		case 0:
			pre = c05RandBits(r, n-k)
		case 1:
			pre = c05RunBits(r, n-k)
		default:
			pre = strings.Repeat(string(rune('0'+r.Intn(2))), n-k)
		}
		for i := 0; i < size; i++ {
			add(pre + c05RandBits(r, k))
		}
	case "runs":
		for i := 0; i < size; i++ {
			add(c05RunBits(r, n))
		}
	case "dense":
		k := c05RandBits(r, n)
		if r.Bool() { // low range
			k = strings.Repeat("0", n)
		} else if n > 8 && r.Bool() { // straddle a carry into high bits
			k = c05RandBits(r, n-8) + "11110000"
		}
		for i := 0; i < size; i++ {
			add(k)
			var ok bool
			if k, ok = c05Inc(k); !ok {
				break
			}
		}
	case "minmax":
		add(strings.Repeat("0", n))
		add(strings.Repeat("1", n))
		add("1" + strings.Repeat("0", n-1))
		add("0" + strings.Repeat("1", n-1))
		add(strings.Repeat("0", n-1) + "1")
		add(strings.Repeat("1", n-1) + "0")
		for i := 6; i < size; i++ {
			add(c05RandBits(r, n))
		}
	case "lastbit": // pairs differing only in the last bit
		for i := 0; i < (size+1)/2; i++ {
			p := c05RandBits(r, n-1)
			if r.Bool() {
				p = c05RunBits(r, n-1)
			}
			add(p + "0")
			add(p + "1")
		}
	}
	out := make([]string, 0, len(set))
	for k := range set {
		out = append(out, k)
	}
	sort.Strings(out) // map iteration order must not leak into the case stream
	return out
}

func c05Shuffle(r *prng.R, kvs []c05KV) []c05KV {
	out := append([]c05KV{}, kvs...)
	for i := len(out) - 1; i > 0; i-- {
		j := r.Intn(i + 1)
		out[i], out[j] = out[j], out[i]
	}
	return out
}

func c05WidthClass(n int, signed bool) string {
	s := "u"
	if signed {
		s = "s"
	}
	switch {
	case n <= 2:
		return s + "1-2"
	case n <= 9:
		return s + "7-9"
	case n <= 16:
		return s + "15-16"
	case n <= 64:
		return fmt.Sprintf("%s%d", s, n)
	case n <= 96:
		return "b80-96"
	case n == 288:
		return "a288"
	}
	return fmt.Sprintf("b%d", n)
}

func c05EqualKVs(a, b []c05KV) bool {
	if len(a) != len(b) {
		return false
	}
	for i := range a {
		if a[i] != b[i] {
			return false
		}
	}
	return true
}

// coarse key family, for classes that already have another dimension
func c05Family(kt c05KT) string {
	switch {
	case kt.signed:
		return "int"
	case kt.n <= 64:
		return "uint"
	case kt.n == 288:
		return "addr"
	}
	return "bytes"
}

type c05KT struct {
	n      int
	signed bool
}

var c05KeyTypes = []c05KT{
	{1, false}, {2, false}, {7, false}, {8, false}, {9, false}, {15, false}, {16, false}, {32, false}, {64, false},
	{1, true}, {2, true}, {7, true}, {8, true}, {9, true}, {15, true}, {16, true}, {32, true}, {64, true},
	{80, false}, {96, false}, {256, false}, {288, false}, {512, false},
}

func c05PickSize(r *prng.R, max int) int {
	switch r.Intn(6) {
	case 0:
		return r.Intn(3)
	case 1:
		return 2 + r.Intn(6)
	}
	return r.Intn(max + 1)
}

// does a bit-sorted key list of a signed type hold both signs
func c05Mixed(kt c05KT, sorted []c05KV) bool {
	return kt.signed && len(sorted) > 0 && sorted[0].k[0] != sorted[len(sorted)-1].k[0]
}

func genC05(c *Ctx) {
	r := c.R
	maxSize := c.Scale(60, 400)

	// --- 0. the inputs that failed before the repairs in /repo (also in corpus/C05)
	c05Regressions(c)
	c05KnownFindings(c)

	// --- 1. Put in random order + Marshal; oracles: decode(encode) = sorted input,
	//        a second insertion order gives the same cell hash
	nEnc := c.Scale(160, 1200)
	for _, kt := range c05KeyTypes {
		im := c05Impls[c05Name(kt.n, kt.signed)]
		for i := 0; i < nEnc; i++ {
			shape := c05Shapes[(i+r.Intn(2))%len(c05Shapes)]
			size := c05PickSize(r, maxSize)
			if i == 0 {
				size = 0
			}
			var kvs []c05KV
			for _, k := range c05KeySet(r, kt.n, size, shape) {
				kvs = append(kvs, c05KV{k, uint32(r.U64())})
			}
			order := c05Shuffle(r, kvs)
			// sometimes insert a key twice: the last value must win
			if len(order) > 0 && r.Chance(25) {
				d := order[r.Intn(len(order))]
				d.v = uint32(r.U64())
				order = append(order, d)
				if r.Bool() {
					order = c05Shuffle(r, order)
				}
			}
			e := !r.Chance(20)
			in := sx.L(sx.Nat(kt.n), sx.B(kt.signed), sx.B(e), c05ItemsSx(order))
			out := c.Emit("c05.encode", in, fmt.Sprintf("%s|%s", c05WidthClass(kt.n, kt.signed), shape))
			want := c05SortedDistinct(order)
			if out.IsA("err") || out.IsA("panic") {
				c.Fail("c05.encode", in, "encode-fails", "Put + Marshal of distinct fixed-width keys failed")
				continue
			}
			if !e && len(want) == 0 {
				continue // an empty plain Hashmap writes nothing and cannot be decoded
			}
			cell, err := im.encode(e, order)
			if err != nil {
				c.Fail("c05.encode", in, "encode-unstable", "second run of the same encode failed")
				continue
			}
			h1, _ := cell.HashString()
			cell.ResetCounters()
			got, err := im.decode(e, cell)
			if err != nil || !c05EqualKVs(got, want) {
				c.Fail("c05.encode", in, "roundtrip", fmt.Sprintf("decode(encode(m)) = %v (err %v), expected the bit-sorted input", got, err))
			}
			cell2, err := im.encode(e, c05Shuffle(r, want))
			if err != nil {
				c.Fail("c05.encode", in, "order-dependent", "another insertion order fails to encode")
				continue
			}
			if h2, _ := cell2.HashString(); h1 != h2 {
				c.Fail("c05.encode", in, "order-dependent", "two insertion orders of the same map give different cell hashes")
			}
		}
	}

	// --- 1b. NewHashmap(E)(keys, values) with the slices in ANY order: the encoding
	//         depends only on the mapping; duplicates are rejected
	nRaw := c.Scale(70, 500)
	for _, kt := range c05KeyTypes {
		im := c05Impls[c05Name(kt.n, kt.signed)]
		for i := 0; i < nRaw; i++ {
			shape := c05Shapes[r.Intn(len(c05Shapes))]
			var kvs []c05KV
			for _, k := range c05KeySet(r, kt.n, 1+c05PickSize(r, maxSize-1), shape) {
				kvs = append(kvs, c05KV{k, uint32(r.U64())})
			}
			sorted := c05SortedDistinct(kvs)
			var order []c05KV
			ord := ""
			switch r.Intn(6) {
			case 0:
				order, ord = append(order, sorted...), "ascending"
			case 1:
				ord = "descending"
				for j := len(sorted) - 1; j >= 0; j-- {
					order = append(order, sorted[j])
				}
			case 2: // the order Put would produce for a signed type: keys starting with 1 first
				ord = "negatives-first"
				for _, kv := range sorted {
					if kv.k[0] == '1' {
						order = append(order, kv)
					}
				}
				for _, kv := range sorted {
					if kv.k[0] == '0' {
						order = append(order, kv)
					}
				}
			default:
				order, ord = c05Shuffle(r, sorted), "shuffled"
			}
			dup := r.Chance(8)
			if dup {
				ord = "duplicate"
				d := order[r.Intn(len(order))]
				if r.Bool() {
					d.v = uint32(r.U64())
				}
				p := r.Intn(len(order) + 1)
				order = append(order[:p:p], append([]c05KV{d}, order[p:]...)...)
			}
			e := !r.Chance(25)
			in := sx.L(sx.Nat(kt.n), sx.B(kt.signed), sx.B(e), c05ItemsSx(order))
			out := c.Emit("c05.raw", in, fmt.Sprintf("%s|%s", c05Family(kt), ord))
			if dup {
				if !out.IsA("err") {
					dec := safeExec("c05.decode", sx.L(sx.Nat(kt.n), sx.B(e), out))
					c.Fail("c05.raw", in, "duplicate-key", "a key slice holding the same key twice marshals to a dictionary that decodes to "+trunc(dec.String(), 200))
				}
				continue
			}
			if out.IsA("err") || out.IsA("panic") {
				c.Fail("c05.raw", in, "raw-encode-fails", "NewHashmap with distinct keys ("+ord+") does not marshal")
				continue
			}
			dec := safeExec("c05.decode", sx.L(sx.Nat(kt.n), sx.B(e), out))
			if dec.String() != c05ItemsSx(sorted).String() {
				c.Fail("c05.raw", in, "raw-roundtrip", "NewHashmap with distinct keys ("+ord+") marshals to a dictionary that decodes to "+trunc(dec.String(), 300))
			}
			viaPut, err := im.encode(e, c05Shuffle(r, sorted))
			if err != nil || c05CellSx(viaPut).String() != out.String() {
				c.Fail("c05.raw", in, "order-dependent", "the same mapping built with NewHashmap ("+ord+") and with Put marshals to different cells")
			}
		}
	}

	// --- 2. dictionaries serialised by "another implementation": every label form
	nDec := c.Scale(30, 200)
	modes := []string{"go", "short", "long", "same", "random"}
	for _, kt := range c05KeyTypes {
		if kt.signed {
			continue // decoding does not depend on Compare; covered by the ops stream
		}
		for _, mode := range modes {
			for i := 0; i < nDec; i++ {
				shape := c05Shapes[r.Intn(len(c05Shapes))]
				if mode == "same" && r.Bool() {
					shape = "runs"
				}
				size := 1 + c05PickSize(r, maxSize-1)
				var kvs []c05KV
				for _, k := range c05KeySet(r, kt.n, size, shape) {
					kvs = append(kvs, c05KV{k, uint32(r.U64())})
				}
				kvs = c05SortedDistinct(kvs)
				t := c05Build(kvs)
				t.chooseForms(r, mode)
				cls := fmt.Sprintf("%s|%s", c05WidthClass(kt.n, false), mode)
				if i == 0 || r.Chance(30) {
					c.Emit("c05.cells", sx.L(sx.Nat(kt.n), t.sx()), cls)
				}
				pc, fits := t.cells(kt.n)
				if !fits {
					continue
				}
				e := r.Chance(70)
				root := pc
				if e {
					root = &c05Cell{bits: "1", refs: []*c05Cell{pc}}
				}
				in := sx.L(sx.Nat(kt.n), sx.B(e), root.sx())
				out := c.Emit("c05.decode", in, cls)
				if out.String() != c05ItemsSx(kvs).String() {
					c.Fail("c05.decode", in, "decode-"+mode, fmt.Sprintf("a valid dictionary (label forms: %s) decodes to %s", mode, trunc(out.String(), 200)))
				}
			}
		}
	}
	// the empty HashmapE
	c.Emit("c05.decode", sx.L(sx.Nat(8), sx.B(true), (&c05Cell{bits: "0"}).sx()), "empty")
	c.Emit("c05.decode", sx.L(sx.Nat(8), sx.B(true), (&c05Cell{bits: ""}).sx()), "empty")
	c.Emit("c05.decode", sx.L(sx.Nat(8), sx.B(true), (&c05Cell{bits: "1"}).sx()), "empty")
	c.Emit("c05.decode", sx.L(sx.Nat(8), sx.B(false), (&c05Cell{bits: ""}).sx()), "empty")

	// --- 3. malformed dictionaries: both sides must agree on reject / result
	nMal := c.Scale(5000, 40000)
	for i := 0; i < nMal; i++ {
		kt := c05KeyTypes[r.Intn(len(c05KeyTypes))]
		if kt.signed {
			kt.signed = false
		}
		if kt.n == 288 {
			// a mutated key need not be a sign-extended int8 workchain: the key type
			// truncates it, which is the key codec's business (C03), not the dictionary's
			kt.n = 256
		}
		var kvs []c05KV
		for _, k := range c05KeySet(r, kt.n, 1+r.Intn(12), c05Shapes[r.Intn(len(c05Shapes))]) {
			kvs = append(kvs, c05KV{k, uint32(r.U64())})
		}
		kvs = c05SortedDistinct(kvs)
		t := c05Build(kvs)
		t.chooseForms(r, "random")
		mut := c05MutateTree(r, t)
		pc, _ := t.cells(kt.n)
		cmut := ""
		c05MutateCell(r, pc, &cmut)
		if mut == "none" || (cmut != "" && r.Bool()) {
			mut = "cell" + cmut
		}
		if !c05CellOK(pc) {
			continue
		}
		root := &c05Cell{bits: "1", refs: []*c05Cell{pc}}
		c.Emit("c05.decode", sx.L(sx.Nat(kt.n), sx.B(true), root.sx()), "malformed|"+mut)
	}

	// --- 4. Get / Put on a decoded dictionary (every key type, also new keys put into a
	//        signed-key dictionary that holds both signs), then Marshal and Unmarshal
	nOps := c.Scale(120, 800)
	for _, kt := range c05KeyTypes {
		for i := 0; i < nOps; i++ {
			shape := c05Shapes[r.Intn(len(c05Shapes))]
			var kvs []c05KV
			for _, k := range c05KeySet(r, kt.n, c05PickSize(r, maxSize/2), shape) {
				kvs = append(kvs, c05KV{k, uint32(r.U64())})
			}
			kvs = c05SortedDistinct(kvs)
			root := &c05Cell{bits: "0"}
			if len(kvs) > 0 {
				t := c05Build(kvs)
				t.chooseForms(r, "random")
				pc, fits := t.cells(kt.n)
				if !fits {
					continue
				}
				root = &c05Cell{bits: "1", refs: []*c05Cell{pc}}
			}
			mixed := c05Mixed(kt, kvs)
			ref := map[string]uint32{}
			for _, kv := range kvs {
				ref[kv.k] = kv.v
			}
			var ops []sx.V
			var wants []string
			newKeys := 0
			for j, nops := 0, 1+r.Intn(10); j < nops; j++ {
				var k string
				present := len(kvs) > 0 && r.Chance(50)
				if present {
					k = kvs[r.Intn(len(kvs))].k
				} else {
					ks := c05KeySet(r, kt.n, 1, "single")
					k = ks[0]
					if len(kvs) > 0 && r.Bool() { // neighbour of a present key
						b := []byte(kvs[r.Intn(len(kvs))].k)
						p := r.Intn(len(b))
						b[p] ^= 1
						k = c05Canon(kt.n, string(b))
					}
				}
				if r.Chance(45) {
					ops = append(ops, sx.L(sx.A("get"), sx.Bits(k)))
					if v, ok := ref[k]; ok {
						wants = append(wants, sx.L(sx.N(uint64(v))).String())
					} else {
						wants = append(wants, "'none")
					}
				} else {
					v := uint32(r.U64())
					if _, have := ref[k]; !have {
						newKeys++
					}
					ops = append(ops, sx.L(sx.A("put"), sx.Bits(k), sx.N(uint64(v))))
					ref[k] = v
					wants = append(wants, "'ok")
				}
			}
			in := sx.L(sx.Nat(kt.n), sx.B(kt.signed), root.sx(), sx.L(ops...))
			mx := "one-sign"
			if mixed {
				mx = "mixed-signs"
			}
			if newKeys > 0 {
				mx += "+new-keys"
			}
			out := c.Emit("c05.ops", in, fmt.Sprintf("%s|%s", c05WidthClass(kt.n, kt.signed), mx))
			// oracle: answers agree with the reference map; the re-encoded
			// dictionary decodes to the reference map in bit order
			if out.K != sx.KL || len(out.List) != len(ops)+2 {
				c.Fail("c05.ops", in, "ops-fail", "Get/Put on a decoded valid dictionary failed: "+trunc(out.String(), 100))
				continue
			}
			for j := range ops {
				if out.List[j].String() != wants[j] {
					c.Fail("c05.ops", in, "get-put", fmt.Sprintf("op %s answered %s, the mapping says %s", ops[j], out.List[j], wants[j]))
				}
			}
			var final []c05KV
			for k, v := range ref {
				final = append(final, c05KV{k, v})
			}
			final = c05SortedDistinct(final)
			cellSx := out.List[len(ops)+1]
			if cellSx.IsA("err") {
				c.Fail("c05.ops", in, "reencode", "dictionary does not encode after Get/Put")
				continue
			}
			dec := safeExec("c05.decode", sx.L(sx.Nat(kt.n), sx.B(true), cellSx))
			if dec.String() != c05ItemsSx(final).String() {
				key := "reencode"
				if mixed && newKeys > 0 {
					key = "signed-put-after-decode"
				}
				c.Fail("c05.ops", in, key, "dictionary re-encoded after Get/Put does not decode to the updated mapping")
			}
		}
	}

	// --- 5. AddressWithWorkchain keys at the value level (Put uses its Compare)
	nAddr := c.Scale(300, 3000)
	for i := 0; i < nAddr; i++ {
		size := c05PickSize(r, 24)
		if i == 0 {
			size = 0
		}
		type akv struct {
			wc   int8
			addr [32]byte
			v    uint32
		}
		var items []akv
		var base [32]byte
		for j := range base {
			base[j] = byte(r.U64())
		}
		family := r.Intn(3)
		for j := 0; j < size; j++ {
			var a akv
			a.wc = []int8{-1, 0, -1, 0, -128, 127, 1, int8(r.U64())}[r.Intn(8)]
			switch family {
			case 0:
				for k := range a.addr {
					a.addr[k] = byte(r.U64())
				}
			case 1: // shared prefix, differ in the last bytes
				a.addr = base
				a.addr[31] = byte(r.U64())
				a.addr[30] = byte(r.Intn(2))
			default: // runs
				for k := range a.addr {
					a.addr[k] = []byte{0, 0xff}[(k/(1+j%7))%2]
				}
				a.addr[r.Intn(32)] ^= byte(1 << uint(r.Intn(8)))
			}
			a.v = uint32(r.U64())
			items = append(items, a)
		}
		if len(items) > 1 && r.Chance(20) { // same key twice: last value wins
			d := items[r.Intn(len(items))]
			d.v = uint32(r.U64())
			items = append(items, d)
		}
		var ins []sx.V
		final := map[string]akv{}
		for _, a := range items {
			ins = append(ins, sx.L(sx.Z(int64(a.wc)), sx.Bytes(a.addr[:]), sx.N(uint64(a.v))))
			final[fmt.Sprintf("%08x%x", uint32(a.wc), a.addr)] = a // uint32(int8): sign extension
		}
		var ks []string
		for k := range final {
			ks = append(ks, k)
		}
		sort.Strings(ks) // = bit order of int32 workchain ++ address
		var wants []sx.V
		for _, k := range ks {
			a := final[k]
			wants = append(wants, sx.L(sx.Z(int64(a.wc)), sx.Bytes(a.addr[:]), sx.N(uint64(a.v))))
		}
		in := sx.L(sx.L(ins...))
		fam := []string{"random", "prefix", "runs"}[family]
		out := c.Emit("c05.addr", in, fmt.Sprintf("a288-values|%s", fam))
		if !(out.K == sx.KL && len(out.List) == 2 && out.List[1].String() == sx.L(wants...).String()) {
			c.Fail("c05.addr", in, "addr-roundtrip", "HashmapE keyed by tlb.AddressWithWorkchain: Put, Marshal, Unmarshal gives "+trunc(out.String(), 200)+" instead of the inserted pairs in key order")
		}
	}
	// --- 6. HISTORIES on one dictionary object: build (Put / NewHashmap(E) in every slice
	//        order / two objects over the same slices), then Marshal, Items, Get, Put, Marshal
	//        again ...  Marshal is a read: the object answers the same before and after,
	//        an unchanged object encodes to the same cells, every encoding decodes to the
	//        current mapping
	nHist := c.Scale(70, 500)
	for _, kt := range c05KeyTypes {
		for i := 0; i < nHist; i++ {
			shape := c05Shapes[r.Intn(len(c05Shapes))]
			var kvs []c05KV
			for _, k := range c05KeySet(r, kt.n, 1+c05PickSize(r, maxSize/2), shape) {
				kvs = append(kvs, c05KV{k, uint32(r.U64())})
			}
			sorted := c05SortedDistinct(kvs)
			build := []string{"put", "new", "new", "new2", "fput", "fnew"}[r.Intn(6)]
			var order []c05KV
			ord := "shuffled"
			switch r.Intn(5) {
			case 0:
				order, ord = append(order, sorted...), "ascending"
			case 1:
				ord = "descending"
				for j := len(sorted) - 1; j >= 0; j-- {
					order = append(order, sorted[j])
				}
			case 2:
				ord = "negatives-first"
				for _, kv := range sorted {
					if kv.k[0] == '1' {
						order = append(order, kv)
					}
				}
				for _, kv := range sorted {
					if kv.k[0] == '0' {
						order = append(order, kv)
					}
				}
			default:
				order = c05Shuffle(r, sorted)
			}
			if build == "put" || build == "fput" {
				ord = "any"
			}
			e := !r.Chance(30)
			nobj := 1
			if build == "new2" {
				nobj = 2
			}
			ref := map[string]uint32{}
			for _, kv := range sorted {
				ref[kv.k] = kv.v
			}
			var steps []sx.V
			pick := func() string {
				if len(sorted) > 0 && r.Chance(60) {
					return sorted[r.Intn(len(sorted))].k
				}
				if len(sorted) > 0 && r.Bool() {
					b := []byte(sorted[r.Intn(len(sorted))].k)
					b[r.Intn(len(b))] ^= 1
					return c05Canon(kt.n, string(b))
				}
				return c05KeySet(r, kt.n, 1, "single")[0]
			}
			steps = append(steps, sx.L(sx.A("items"), sx.Nat(0)), sx.L(sx.A("marshal"), sx.Nat(r.Intn(nobj))))
			for j, ns := 0, 3+r.Intn(9); j < ns; j++ {
				o := sx.Nat(r.Intn(nobj))
				switch x := r.Intn(10); {
				case x < 3:
					steps = append(steps, sx.L(sx.A("marshal"), o))
				case x < 5:
					steps = append(steps, sx.L(sx.A("items"), o))
				case x < 8 || build == "new2":
					steps = append(steps, sx.L(sx.A("get"), o, sx.Bits(pick())))
				case x == 8:
					steps = append(steps, sx.L(sx.A("put"), o, sx.Bits(pick()), sx.N(uint64(uint32(r.U64())))))
				default:
					// decode ANOTHER dictionary into the used object: empty / smaller / larger /
					// disjoint / the same keys with other values
					var d2 []c05KV
					kind := r.Intn(5)
					switch kind {
					case 0: // empty (HashmapE only)
					case 1:
						for _, kv := range sorted {
							if r.Bool() {
								d2 = append(d2, kv)
							}
						}
					case 2:
						d2 = append(d2, sorted...)
						for _, k := range c05KeySet(r, kt.n, 1+r.Intn(8), c05Shapes[r.Intn(len(c05Shapes))]) {
							d2 = append(d2, c05KV{k, uint32(r.U64())})
						}
					case 3:
						for _, k := range c05KeySet(r, kt.n, 1+r.Intn(8), c05Shapes[r.Intn(len(c05Shapes))]) {
							d2 = append(d2, c05KV{k, uint32(r.U64())})
						}
					default:
						for _, kv := range sorted {
							d2 = append(d2, c05KV{kv.k, uint32(r.U64())})
						}
					}
					d2 = c05SortedDistinct(d2)
					if len(d2) == 0 && !e {
						d2 = append(d2, c05KV{sorted[0].k, 5})
					}
					root := &c05Cell{bits: "0"}
					if len(d2) > 0 {
						t := c05Build(d2)
						t.chooseForms(r, "random")
						pc, fits := t.cells(kt.n)
						if !fits {
							continue
						}
						root = pc
						if e {
							root = &c05Cell{bits: "1", refs: []*c05Cell{pc}}
						}
					}
					steps = append(steps, sx.L(sx.A("decode"), o, root.sx()))
					if r.Bool() {
						steps = append(steps, sx.L(sx.A("items"), o))
					}
				}
			}
			steps = append(steps, sx.L(sx.A("items"), sx.Nat(nobj-1)), sx.L(sx.A("marshal"), sx.Nat(0)), sx.L(sx.A("items"), sx.Nat(0)))
			in := sx.L(sx.Nat(kt.n), sx.B(kt.signed), sx.B(e), sx.A(build), c05ItemsSx(order), sx.L(steps...))
			out := c.Emit("c05.hist", in, fmt.Sprintf("%s|%s-%s", c05Family(kt), build, ord))
			c05HistOracle(c, in, out, kt, e, build, order, steps, ref)
		}
	}
	genC05Dec(c)
	genC05R4(c)
	genC05R6(c)
	genC05R8(c)
}

// --- 7. decoder configurations x value types that use the decoder's state
func genC05Dec(c *Ctx) {
	r := c.R
	cfgs := []string{"plain", "new", "lib", "zlib", "debug"}
	vts := []string{"u32", "ref", "cell"}
	widths := []int{8, 16, 32, 64, 256}
	nDec := c.Scale(8, 60)
	u32bits := func(v uint32) string { return c05Bin(int(v>>16), 16) + c05Bin(int(v&0xffff), 16) }
	for _, n := range widths {
		for _, vt := range vts {
			for _, cfg := range cfgs {
				for i := 0; i < nDec; i++ {
					var kvs []c05KV
					for _, k := range c05KeySet(r, n, 1+c05PickSize(r, 24), c05Shapes[r.Intn(len(c05Shapes))]) {
						kvs = append(kvs, c05KV{k, uint32(r.U64())})
					}
					kvs = c05SortedDistinct(kvs)
					t := c05Build(kvs)
					t.chooseForms(r, "random")
					var leaves []*c05Tree
					t.leaves(&leaves)
					var libs []sx.V
					flavour := r.Intn(4) // 0: ordinary only, 1: + library, 2: + pruned, 3: everything incl. bad ones
					kinds := map[string]bool{}
					for _, lf := range leaves {
						lf.raw = true
						if vt == "u32" {
							lf.vbits = u32bits(lf.value)
							continue
						}
						ord := &c05Cell{bits: u32bits(lf.value) + c05RandBits(r, r.Intn(9))}
						if vt == "cell" && r.Chance(30) {
							ord.refs = append(ord.refs, &c05Cell{bits: c05RandBits(r, r.Intn(20))})
						}
						ref := ord
						switch x := r.Intn(100); {
						case flavour >= 1 && flavour != 2 && x < 40: // library cell known to the resolver
							lb := "00000010" + c05RandBits(r, 256)
							ref = &c05Cell{bits: lb, exo: 2}
							libs = append(libs, sx.L(sx.Bits(lb), ord.sx()))
							kinds["lib"] = true
						case flavour >= 2 && x < 60: // pruned branch: the value is absent (zero value)
							ref = &c05Cell{bits: "0000000100000001" + c05RandBits(r, 272), exo: 1}
							kinds["pruned"] = true
						case flavour == 3 && x < 64: // library cell the resolver does not know
							ref = &c05Cell{bits: "00000010" + c05RandBits(r, 256), exo: 2}
							kinds["unknown-lib"] = true
						case flavour == 3 && x < 67: // too few bits for the value
							ref = &c05Cell{bits: c05RandBits(r, r.Intn(32))}
							kinds["short"] = true
						}
						lf.vrefs = []*c05Cell{ref}
					}
					pc, fits := t.cells(n)
					if !fits {
						continue
					}
					e := r.Chance(70)
					root := pc
					if e {
						root = &c05Cell{bits: "1", refs: []*c05Cell{pc}}
					}
					var ks []string
					for k := range kinds {
						ks = append(ks, k)
					}
					sort.Strings(ks)
					in := sx.L(sx.Nat(n), sx.B(e), sx.A(cfg), sx.A(vt), root.sx(), sx.L(libs...))
					rc := "resolver"
					if cfg == "plain" || cfg == "new" {
						rc = "no-resolver"
					}
					out := c.Emit("c05.dec", in, fmt.Sprintf("%s|%s|%s", rc, vt, strings.Join(ks, "+")))
					// oracle: a value decodes inside a dictionary exactly as it decodes outside,
					// under the same decoder configuration
					lm, _ := c05LibsOfSx(sx.L(libs...))
					var want []sx.V
					bad := false
					for j, lf := range leaves {
						holder, err := (&c05Cell{bits: lf.vbits, refs: lf.vrefs}).toBoc()
						if err != nil {
							bad = true
							break
						}
						v := c05DecOutside(cfg, vt, holder, lm)
						if v.IsA("err") {
							bad = true
							break
						}
						want = append(want, sx.L(sx.Bits(kvs[j].k), v))
					}
					ws := sx.L(want...).String()
					if bad {
						ws = "'err"
					}
					if out.String() != ws {
						c.Fail("c05.dec", in, "value-inside-vs-outside", fmt.Sprintf("decoder configuration %s, value type %s: the dictionary decodes to %s, its values decoded outside a dictionary give %s", cfg, vt, trunc(out.String(), 200), trunc(ws, 200)))
					}
				}
			}
		}
	}
	c05MsgOracle(c)
}

// values that use the decoder's hasher (tlb.Message keeps its cell hash): inside a
// dictionary they must come out exactly as outside, under every configuration
func c05MsgOracle(c *Ctx) {
	r := c.R
	for i, nd := 0, c.Scale(6, 60); i < nd; i++ {
		var keys []tlb.Uint16
		var values []tlb.Ref[tlb.Message]
		var cells []*boc.Cell
		seen := map[uint16]bool{}
		for j, nk := 0, 1+r.Intn(12); j < nk; j++ {
			k := uint16(r.U64())
			if seen[k] {
				continue
			}
			seen[k] = true
			body := boc.NewCell()
			_ = body.WriteUint(r.U64(), 64)
			var acc ton.AccountID
			for b := range acc.Address {
				acc.Address[b] = byte(r.U64())
			}
			m, err := ton.CreateExternalMessage(acc, body, nil, tlb.VarUInteger16{})
			if err != nil {
				c.Fail("c05.dec", sx.A("message"), "harness-message", "cannot build a message")
				return
			}
			mc := boc.NewCell()
			if err := tlb.Marshal(mc, m); err != nil {
				c.Fail("c05.dec", sx.A("message"), "harness-message", "cannot marshal a message")
				return
			}
			keys = append(keys, tlb.Uint16(k))
			values = append(values, tlb.Ref[tlb.Message]{Value: m})
			cells = append(cells, mc)
		}
		root := boc.NewCell()
		if err := tlb.Marshal(root, tlb.NewHashmapE(keys, values)); err != nil {
			c.Fail("c05.dec", sx.A("message"), "harness-message", "cannot marshal a dictionary of messages")
			return
		}
		want := map[tlb.Uint16]string{}
		for j, k := range keys {
			h, _ := cells[j].HashString()
			want[k] = h
		}
		for _, cfg := range []string{"plain", "new", "lib", "zlib", "debug"} {
			dec := c05Decoder(cfg, nil)
			root.ResetCounters()
			var h tlb.HashmapE[tlb.Uint16, tlb.Ref[tlb.Message]]
			if err := dec(root, &h); err != nil {
				c.Fail("c05.dec", sx.A("message-"+cfg), "value-inside-vs-outside", "a dictionary of messages does not decode under decoder configuration "+cfg)
				continue
			}
			items := h.Items()
			if len(items) != len(keys) {
				c.Fail("c05.dec", sx.A("message-"+cfg), "value-inside-vs-outside", "a dictionary of messages loses entries under decoder configuration "+cfg)
				continue
			}
			for _, it := range items {
				j := 0
				for j < len(keys) && keys[j] != it.Key {
					j++
				}
				cells[j].ResetCounters()
				var outside tlb.Message
				errOut := dec(cells[j], &outside)
				inside := it.Value.Value
				if errOut != nil || inside.Hash(false).Hex() != outside.Hash(false).Hex() || inside.Hash(false).Hex() != want[it.Key] {
					c.Fail("c05.dec", sx.A("message-"+cfg), "value-inside-vs-outside", fmt.Sprintf("message value under key %d: hash inside the dictionary %s, outside %s, cell %s", it.Key, inside.Hash(false).Hex(), outside.Hash(false).Hex(), want[it.Key]))
				}
			}
		}
	}
}

// oracle of a c05.hist case, stated on the implementation's answers alone
func c05HistOracle(c *Ctx, in, out sx.V, kt c05KT, e bool, build string, order []c05KV, steps []sx.V, ref map[string]uint32) {
	if out.K != sx.KL || len(out.List) != len(steps) {
		c.Fail("c05.hist", in, "hist-fail", "history on a dictionary object failed: "+trunc(out.String(), 120))
		return
	}
	prevItems := ""
	afterDecode := false
	if build != "put" && build != "fput" {
		prevItems = c05ItemsSx(order).String() // NewHashmap keeps the slices as given
	}
	prevCell := ""
	for j, st := range steps {
		res := out.List[j]
		switch st.Head() {
		case "marshal":
			if res.IsA("err") || res.IsA("panic") {
				c.Fail("c05.hist", in, "hist-marshal-fails", fmt.Sprintf("step %d: Marshal of a dictionary with distinct keys failed", j))
				return
			}
			if prevCell != "" && prevCell != res.String() {
				c.Fail("c05.hist", in, "marshal-unstable", fmt.Sprintf("step %d: the same unchanged dictionary marshals to different cells the second time", j))
				return
			}
			prevCell = res.String()
			if !e && len(ref) == 0 {
				continue
			}
			var final []c05KV
			for k, v := range ref {
				final = append(final, c05KV{k, v})
			}
			dec := safeExec("c05.decode", sx.L(sx.Nat(kt.n), sx.B(e), res))
			if dec.String() != c05ItemsSx(c05SortedDistinct(final)).String() {
				c.Fail("c05.hist", in, "hist-decode", fmt.Sprintf("step %d: the encoding does not decode to the dictionary's current mapping but to %s", j, trunc(dec.String(), 200)))
				return
			}
		case "items":
			if res.K != sx.KL {
				c.Fail("c05.hist", in, "hist-items", fmt.Sprintf("step %d: Keys/Values/Items disagree with each other", j))
				return
			}
			if prevItems != "" && prevItems != res.String() {
				key, what := "marshal-mutates", "Items() changed although only Marshal/Get/Items happened since"
				if afterDecode {
					key, what = "decode-into-used", "after decoding into a used variable Items() is not what a fresh variable decodes"
				}
				c.Fail("c05.hist", in, key, fmt.Sprintf("step %d: %s: %s, expected %s", j, what, trunc(res.String(), 150), trunc(prevItems, 150)))
				return
			}
			prevItems = res.String()
			got := map[string]uint32{}
			for _, kv := range c05KVsOf(res) {
				got[kv.k] = kv.v
			}
			same := len(got) == len(ref) && len(res.List) == len(ref)
			for k, v := range ref {
				if gv, ok := got[k]; !ok || gv != v {
					same = false
				}
			}
			if !same {
				c.Fail("c05.hist", in, "hist-items", fmt.Sprintf("step %d: Items() is not the dictionary's mapping: %s", j, trunc(res.String(), 200)))
				return
			}
		case "get":
			want := "'none"
			if v, ok := ref[st.List[2].Bits]; ok {
				want = sx.L(sx.N(uint64(v))).String()
			}
			if res.String() != want {
				c.Fail("c05.hist", in, "hist-get", fmt.Sprintf("step %d: Get answered %s, the mapping says %s", j, res, want))
				return
			}
		case "put":
			ref[st.List[2].Bits] = uint32(st.List[3].U64())
			prevItems, prevCell = "", ""
		case "decode":
			// every observable afterwards must be that of a FRESH variable decoding the same cell
			fresh := safeExec("c05.decode", sx.L(sx.Nat(kt.n), sx.B(e), st.List[2]))
			if !res.IsA("ok") || fresh.K != sx.KL {
				c.Fail("c05.hist", in, "hist-decode-fails", fmt.Sprintf("step %d: decoding a valid dictionary into a used variable failed", j))
				return
			}
			for k := range ref {
				delete(ref, k)
			}
			for _, kv := range c05KVsOf(fresh) {
				ref[kv.k] = kv.v
			}
			prevItems, prevCell, afterDecode = fresh.String(), "", true
		}
	}
}

func c05CellOK(c *c05Cell) bool {
	if len(c.bits) > 1023 || len(c.refs) > 4 {
		return false
	}
	for _, r := range c.refs {
		if !c05CellOK(r) {
			return false
		}
	}
	return true
}

// tree-level mutations: invalid form choices / label lengths
func c05MutateTree(r *prng.R, t *c05Tree) string {
	var nodes []*c05Tree
	var walk func(x *c05Tree)
	walk = func(x *c05Tree) {
		nodes = append(nodes, x)
		if !x.leaf {
			walk(x.l)
			walk(x.r)
		}
	}
	walk(t)
	x := nodes[r.Intn(len(nodes))]
	switch r.Intn(6) {
	case 0: // same-bit form on an arbitrary label
		x.form = []string{"a0", "a1"}[r.Intn(2)]
		return "force-same"
	case 1: // label too long
		x.label += c05RandBits(r, 1+r.Intn(9))
		return "label-longer"
	case 2: // label too short
		if len(x.label) > 0 {
			x.label = x.label[:r.Intn(len(x.label))]
			return "label-shorter"
		}
		return "none"
	case 3: // leaf where a fork is needed / fork where a leaf is expected
		if !x.leaf {
			x.leaf = true
			return "fork-to-leaf"
		}
		x.leaf = false
		x.l = &c05Tree{leaf: true, form: "s", label: "", value: 1}
		x.r = &c05Tree{leaf: true, form: "s", label: "", value: 2}
		return "leaf-to-fork"
	}
	return "none"
}

// cell-level mutations
func c05MutateCell(r *prng.R, c *c05Cell, tag *string) bool {
	var cells []*c05Cell
	var walk func(x *c05Cell)
	walk = func(x *c05Cell) {
		cells = append(cells, x)
		for _, y := range x.refs {
			walk(y)
		}
	}
	walk(c)
	x := cells[r.Intn(len(cells))]
	switch r.Intn(7) {
	case 0:
		if len(x.bits) > 0 {
			x.bits = x.bits[:r.Intn(len(x.bits))]
			*tag += "+truncate"
		}
	case 1:
		if len(x.bits) > 0 {
			b := []byte(x.bits)
			p := r.Intn(minInt(len(b), 14))
			b[p] ^= 1
			x.bits = string(b)
			*tag += "+flip-head"
		}
	case 2:
		if len(x.refs) > 0 {
			x.refs = x.refs[:r.Intn(len(x.refs))]
			*tag += "+drop-ref"
		}
	case 3:
		x.bits = c05RandBits(r, r.Intn(80))
		*tag += "+random-bits"
	case 4:
		if len(x.refs) == 2 {
			x.refs[0], x.refs[1] = x.refs[1], x.refs[0]
			*tag += "+swap-refs"
		}
	}
	return true
}

// The inputs on which the property failed before the two repairs in /repo
// (fix: AddressWithWorkchain.MarshalTLB; fix: Hashmap.MarshalTLB sorts by key
// bits), as ordinary compared cases with their oracles, plus the width check of
// every key type.  The same three cases are in corpus/C05/regressions.txt.
func c05Regressions(c *Ctx) {
	// every key type must marshal to exactly FixedSize() bits
	var names []string
	for name := range c05Impls {
		names = append(names, name)
	}
	sort.Strings(names)
	for _, name := range names {
		im := c05Impls[name]
		cell, err := im.encode(false, []c05KV{{strings.Repeat("0", im.n), 1}})
		if err != nil {
			c.Fail("c05.encode", sx.A(name), "key-width-"+name, "one-entry dictionary does not encode")
			continue
		}
		// single leaf: label header + key + 32 value bits
		hdr := 2 + c05BitLen(im.n)
		if im.n < 8 {
			hdr = 2 + im.n
		}
		if got := cell.BitSize() - hdr - 32; got != im.n {
			c.Fail("c05.encode", sx.A(name), "key-width-"+name,
				fmt.Sprintf("key type %s: FixedSize() = %d but the key is encoded in %d bits", name, im.n, got))
		}
	}
	// AddressWithWorkchain: FixedSize 288, used to be written as int8 + 32 bytes = 264 bits
	addr := make([]byte, 32)
	addr[31] = 5
	item := sx.L(sx.Z(-1), sx.Bytes(addr), sx.N(7))
	in := sx.L(sx.L(item))
	out := c.Emit("c05.addr", in, "regression|addr-key")
	if !(out.K == sx.KL && len(out.List) == 2 && out.List[1].String() == sx.L(item).String()) {
		c.Fail("c05.addr", in, "addr-key-264-bits",
			"a HashmapE keyed by tlb.AddressWithWorkchain (FixedSize 288) does not decode from its own encoding: "+trunc(out.String(), 120))
	}
	// decode an Int8 dictionary holding 1 and -3 (bit order), Put(-64) (numeric order puts
	// it first), Marshal: the key slice is then not in bit order
	kvs := []c05KV{{"00000001", 10}, {"11111101", 30}}
	t := c05Build(kvs)
	t.chooseForms(c.R.Fork(0), "go")
	pc, _ := t.cells(8)
	root := &c05Cell{bits: "1", refs: []*c05Cell{pc}}
	in2 := sx.L(sx.Nat(8), sx.B(true), root.sx(), sx.L(sx.L(sx.A("put"), sx.Bits("11000000"), sx.N(20))))
	out2 := c.Emit("c05.ops", in2, "regression|signed-put")
	want := c05ItemsSx([]c05KV{{"00000001", 10}, {"11000000", 20}, {"11111101", 30}}).String()
	bad := true
	if out2.K == sx.KL && len(out2.List) == 3 && !out2.List[2].IsA("err") {
		dec := safeExec("c05.decode", sx.L(sx.Nat(8), sx.B(true), out2.List[2]))
		bad = dec.String() != want
		if bad {
			want = "re-encoded dictionary decodes to " + dec.String() + " instead of " + want
		}
	}
	if bad {
		c.Fail("c05.ops", in2, "signed-put-after-decode",
			"Put of a new key into a decoded IntN-keyed dictionary that holds negative and non-negative keys, then Marshal: "+trunc(want, 300))
	}
	// NewHashmapE with the Uint8 keys 1, 200, 2 in that order
	raw := []c05KV{{"00000001", 1}, {"11001000", 200}, {"00000010", 2}}
	in3 := sx.L(sx.Nat(8), sx.B(false), sx.B(true), c05ItemsSx(raw))
	out3 := c.Emit("c05.raw", in3, "regression|unsorted-slice")
	dec3 := safeExec("c05.decode", sx.L(sx.Nat(8), sx.B(true), out3))
	if dec3.String() != c05ItemsSx(c05SortedDistinct(raw)).String() {
		c.Fail("c05.raw", in3, "unsorted-slice", "NewHashmapE with keys 1, 200, 2 marshals to a dictionary that decodes to "+trunc(dec3.String(), 200))
	}
	// histories on one object (seeded change C05-r2m2: Marshal permuted the caller's values in place)
	st := func(name string, args ...sx.V) sx.V { return sx.L(append([]sx.V{sx.A(name), sx.Nat(0)}, args...)...) }
	h1 := []c05KV{{"11001000", 0}, {"00000001", 1}} // NewHashmapE(keys 200, 1)
	s1 := []sx.V{st("marshal"), st("items"), st("get", sx.Bits("11001000")), st("marshal")}
	in4 := sx.L(sx.Nat(8), sx.B(false), sx.B(true), sx.A("new"), c05ItemsSx(h1), sx.L(s1...))
	c05HistOracle(c, in4, c.Emit("c05.hist", in4, "regression|hist-new"), c05KT{8, false}, true, "new", h1, s1,
		map[string]uint32{"11001000": 0, "00000001": 1})
	h2 := []c05KV{{"11111001", 77}, {"11111111", 1}, {"00000000", 2}, {"00000101", 3}} // Int8 -7, -1, 0, 5 via Put
	s2 := []sx.V{st("marshal"), st("get", sx.Bits("11111001")), st("items"), st("marshal"),
		st("put", sx.Bits("00000001"), sx.N(9)), st("marshal"), st("items")}
	in5 := sx.L(sx.Nat(8), sx.B(true), sx.B(true), sx.A("put"), c05ItemsSx(h2), sx.L(s2...))
	c05HistOracle(c, in5, c.Emit("c05.hist", in5, "regression|hist-put"), c05KT{8, true}, true, "put", h2, s2,
		map[string]uint32{"11111001": 77, "11111111": 1, "00000000": 2, "00000101": 3})
	// decoding INTO a used object (seeded change C05-r3m2: HashmapE kept the old entries when the new
	// dictionary is empty; before "fix: reset a Hashmap before decoding into it" a plain Hashmap
	// accumulated the entries of every dictionary decoded into it)
	h3 := []c05KV{{"00000001", 1}, {"00000010", 2}}
	s3 := []sx.V{st("decode", (&c05Cell{bits: "0"}).sx()), st("items"), st("get", sx.Bits("00000001")), st("marshal")}
	in6 := sx.L(sx.Nat(8), sx.B(false), sx.B(true), sx.A("new"), c05ItemsSx(h3), sx.L(s3...))
	c05HistOracle(c, in6, c.Emit("c05.hist", in6, "regression|hist-decode-empty"), c05KT{8, false}, true, "new", h3, s3,
		map[string]uint32{"00000001": 1, "00000010": 2})
	t7 := c05Build([]c05KV{{"00000111", 70}})
	t7.chooseForms(c.R.Fork(2), "go")
	p7, _ := t7.cells(8)
	s4 := []sx.V{st("decode", p7.sx()), st("items"), st("marshal"), st("decode", p7.sx()), st("items")}
	in7 := sx.L(sx.Nat(8), sx.B(false), sx.B(false), sx.A("fnew"), c05ItemsSx(h3), sx.L(s4...))
	c05HistOracle(c, in7, c.Emit("c05.hist", in7, "regression|hist-decode-field"), c05KT{8, false}, false, "fnew", h3, s4,
		map[string]uint32{"00000001": 1, "00000010": 2})
	// the decoder's library resolver must reach the values of a dictionary (seeded change C05-r3m1)
	lb := "00000010" + strings.Repeat("01", 128)
	t8 := c05Build([]c05KV{{"00000101", 0}, {"10000101", 0}})
	t8.chooseForms(c.R.Fork(3), "go")
	var lv []*c05Tree
	t8.leaves(&lv)
	lv[0].raw, lv[0].vrefs = true, []*c05Cell{{bits: lb, exo: 2}}
	lv[1].raw, lv[1].vrefs = true, []*c05Cell{{bits: "00000000000000000000000000000111"}}
	p8, _ := t8.cells(8)
	in8 := sx.L(sx.Nat(8), sx.B(true), sx.A("lib"), sx.A("ref"), (&c05Cell{bits: "1", refs: []*c05Cell{p8}}).sx(),
		sx.L(sx.L(sx.Bits(lb), (&c05Cell{bits: "00000000000000000000000000101010"}).sx())))
	if out8 := c.Emit("c05.dec", in8, "regression|dec-library"); out8.String() != "((b00000101 n2a) (b10000101 n7))" {
		c.Fail("c05.dec", in8, "value-inside-vs-outside", "a dictionary whose value is a reference to a library cell, decoded with a library resolver, gives "+trunc(out8.String(), 120))
	}
	// leaf counting over a same-bit label (seeded change C05-r4m1: loadLabelSize skipped the value bit):
	// Bits256 keys 1..10 and 1..11 under a root label of 255 ones written in the hml_same form
	k9 := []c05KV{{strings.Repeat("1", 255) + "0", 1}, {strings.Repeat("1", 256), 2}}
	t9 := c05Build(k9)
	t9.chooseForms(c.R.Fork(4), "same")
	p9, _ := t9.cells(256)
	in9 := sx.L(sx.Nat(256), sx.B(true), (&c05Cell{bits: "1", refs: []*c05Cell{p9}}).sx())
	if out9 := c.Emit("c05.count", in9, "regression|count-same"); out9.String() != "n2" {
		c.Fail("c05.count", in9, "leaf-count", "a dictionary of two 256-bit keys under a same-bit root label is counted as "+out9.String())
	}
	// CloneKeepingSubsetOfKeys must not touch the source (seeded change C05-r4m2: filtered into the source's slices)
	var k10 []c05KV
	for _, k := range []uint32{0, 1, 2, 4, 5, 17} {
		k10 = append(k10, c05KV{c05U32Bits(k), 100 + k})
	}
	s10 := []sx.V{st("items"), st("clone", sx.L(sx.Bits(c05U32Bits(5)), sx.Bits(c05U32Bits(17)))), st("items"),
		sx.L(sx.A("items"), sx.Nat(1)), st("get", sx.Bits(c05U32Bits(0))), sx.L(sx.A("put"), sx.Nat(1), sx.Bits(c05U32Bits(3)), sx.N(7)),
		st("items"), st("marshal"), sx.L(sx.A("marshal"), sx.Nat(1))}
	in10 := sx.L(sx.L(sx.A("new"), c05ItemsSx(k10)), sx.L(s10...))
	c05CfgOracle(c, in10, c.Emit("c05.cfg", in10, "regression|clone"), s10, k10, true)
	// lookups of ABSENT keys through ProveKeyInHashmap (seeded change C05-r6m2: only the leaf label was
	// compared): Uint32 keys 0x10, 0x11, 0x20, 0x40000020; the absent keys differ from a stored key only
	// inside the root label / an inner label
	var k11 []c05KV
	for _, k := range []uint32{0x10, 0x11, 0x20, 0x40000020} {
		k11 = append(k11, c05KV{c05U32Bits(k), k})
	}
	k11 = c05SortedDistinct(k11)
	t11 := c05Build(k11)
	t11.chooseForms(c.R.Fork(5), "go")
	p11, _ := t11.cells(32)
	for _, k := range []uint32{0x10, 0x80000010, 0x00100010, 0x12, 0x40000020, 0x40000021} {
		in11 := sx.L(p11.sx(), sx.Bits(c05U32Bits(k)))
		want := "'err"
		if k == 0x10 || k == 0x40000020 {
			want = sx.L(sx.A("found"), sx.N(uint64(k))).String()
		}
		if out11 := c.Emit("c05.find", in11, "regression|find"); out11.String() != want {
			c.Fail("c05.find", in11, "lookup-regression", fmt.Sprintf("ProveKeyInHashmap(%#x) in the dictionary {0x10, 0x11, 0x20, 0x40000020} answers %s, expected %s", k, out11, want))
		}
	}
	// AccountBalances of a split state whose right half holds more accounts than the left one
	// (seeded change C05-r6m1: the right values were stored under the left keys)
	acc := func(first string, g uint64) sx.V { return sx.L(sx.Bits(first+strings.Repeat("0", 248)), sx.N(g)) }
	in12 := sx.L(sx.B(true), sx.L(acc("00000001", 101), acc("00000010", 102)),
		sx.L(acc("10000001", 201), acc("10000010", 202), acc("10000011", 203)))
	want12 := sx.L(acc("00000001", 101), acc("00000010", 102), acc("10000001", 201), acc("10000010", 202), acc("10000011", 203)).String()
	if out12 := c.Emit("c05.bal", in12, "regression|bal"); out12.String() != want12 {
		c.Fail("c05.bal", in12, "account-balances", "AccountBalances of a split state with 2 + 3 accounts answers "+trunc(out12.String(), 200))
	}
}

// Known finding addr-workchain-int8 (C05_address_workchain_int8_refuted): replayed on
// the implementation only, never part of the compared stream.  A valid one-entry
// dictionary whose 288-bit key has workchain 256 (an int32, as in the TON schema)
// decodes to a key with workchain 0 because AddressWithWorkchain.Workchain is int8.
func c05KnownFindings(c *Ctx) {
	key := strings.Repeat("0", 23) + "1" + strings.Repeat("0", 8) + strings.Repeat("0", 256)
	kvs := []c05KV{{key, 7}}
	t := c05Build(kvs)
	t.chooseForms(c.R.Fork(1), "go")
	pc, _ := t.cells(288)
	root := &c05Cell{bits: "1", refs: []*c05Cell{pc}}
	in := sx.L(sx.Nat(288), sx.B(true), root.sx())
	out := safeExec("c05.decode", in)
	if out.String() != c05ItemsSx(kvs).String() {
		c.Fail("c05.decode", in, "addr-workchain-int8",
			"tlb.AddressWithWorkchain.Workchain is int8 but the dictionary key carries an int32 workchain: a valid dictionary key with workchain 256 decodes to a key with workchain 0 (distinct keys can collapse)")
	}
}

// ---- round 4 streams -----------------------------------------------------------

func c05U32Bits(v uint32) string { return c05Bin(int(v>>16), 16) + c05Bin(int(v&0xffff), 16) }

// forks of a tree, any order
func (t *c05Tree) forks(out *[]*c05Tree) {
	if t.leaf {
		return
	}
	*out = append(*out, t)
	t.l.forks(out)
	t.r.forks(out)
}

func genC05R4(c *Ctx) {
	r := c.R
	maxSize := c.Scale(60, 400)

	// --- 8a. the size-only label parser on single labels of every form
	ms := []int{0, 1, 2, 3, 7, 8, 9, 15, 16, 31, 32, 63, 64, 127, 128, 255, 256, 257, 288, 511, 512, 1023}
	for i, nl := 0, c.Scale(800, 8000); i < nl; i++ {
		m := ms[r.Intn(len(ms))]
		if r.Chance(20) {
			m = r.Intn(600)
		}
		ll := 0
		if m > 0 {
			switch r.Intn(4) {
			case 0:
				ll = m
			case 1:
				ll = r.Intn(minInt(m, 9) + 1)
			default:
				ll = r.Intn(m + 1)
			}
		}
		lbl := c05RandBits(r, ll)
		form := []string{"s", "l", "a0", "a1"}[r.Intn(4)]
		if form == "a0" || form == "a1" {
			lbl = strings.Repeat(form[1:], ll)
		}
		rest := c05RandBits(r, r.Intn(40))
		bits := c05Label(form, m, lbl) + rest
		cls := "valid-" + form
		wantLen, wantUnread := ll, ll+len(rest)
		if form[0] == 'a' {
			wantUnread = len(rest)
		}
		valid := true
		if r.Chance(15) { // arbitrary bits / truncated labels
			valid = false
			cls = "random"
			if r.Bool() && len(bits) > 0 {
				bits = bits[:r.Intn(len(bits))]
				cls = "truncated"
			} else {
				bits = c05RandBits(r, r.Intn(60))
			}
		}
		if len(bits) > 1023 {
			continue
		}
		in := sx.L(sx.Nat(m), sx.Bits(bits))
		out := c.Emit("c05.lsize", in, cls)
		if valid && out.String() != sx.L(sx.Nat(wantLen), sx.Nat(wantUnread)).String() {
			c.Fail("c05.lsize", in, "label-size", fmt.Sprintf("loadLabelSize on a valid %s label of %d bits (m = %d) followed by %d bits answers %s, expected (%d %d)", form, ll, m, len(rest), out, wantLen, wantUnread))
		}
	}

	// --- 8b. leaf counting on plain dictionaries of every key width and label mode
	modes := []string{"go", "short", "long", "same", "random"}
	nCnt := c.Scale(10, 80)
	for _, kt := range c05KeyTypes {
		if kt.signed {
			continue
		}
		for _, mode := range modes {
			for i := 0; i < nCnt; i++ {
				shape := c05Shapes[r.Intn(len(c05Shapes))]
				if mode == "same" && r.Bool() {
					shape = "runs"
				}
				var kvs []c05KV
				for _, k := range c05KeySet(r, kt.n, 1+c05PickSize(r, maxSize-1), shape) {
					kvs = append(kvs, c05KV{k, uint32(r.U64())})
				}
				kvs = c05SortedDistinct(kvs)
				t := c05Build(kvs)
				t.chooseForms(r, mode)
				mut := ""
				if r.Chance(15) {
					mut = c05MutateTree(r, t)
				}
				pc, _ := t.cells(kt.n)
				if mut != "" {
					c05MutateCell(r, pc, &mut)
				}
				if !c05CellOK(pc) {
					continue
				}
				e := r.Chance(60)
				root := pc
				if e {
					root = &c05Cell{bits: "1", refs: []*c05Cell{pc}}
				}
				cls := fmt.Sprintf("%s|%s", c05Family(kt), mode)
				if mut != "" {
					cls = "malformed"
				}
				in := sx.L(sx.Nat(kt.n), sx.B(e), root.sx())
				out := c.Emit("c05.count", in, cls)
				if mut == "" && out.String() != sx.Nat(len(kvs)).String() {
					c.Fail("c05.count", in, "leaf-count", fmt.Sprintf("a valid dictionary with %d entries (label forms: %s) is counted as %s", len(kvs), mode, out))
				}
				// whatever decodes has as many entries as are counted
				n := kt.n
				if n == 288 {
					n = 0 // the key type truncates mutated workchains; decode is compared elsewhere
				}
				if dec := safeExec("c05.decode", sx.L(sx.Nat(n), sx.B(e), root.sx())); n > 0 && dec.K == sx.KL && dec.Head() != "harness-error" {
					if out.String() != sx.Nat(len(dec.List)).String() {
						c.Fail("c05.count", in, "leaf-count", fmt.Sprintf("the dictionary decodes to %d entries but is counted as %s", len(dec.List), out))
					}
				}
			}
		}
	}
	c.Emit("c05.count", sx.L(sx.Nat(256), sx.B(true), (&c05Cell{bits: "0"}).sx()), "empty")
	c.Emit("c05.count", sx.L(sx.Nat(256), sx.B(true), (&c05Cell{bits: ""}).sx()), "empty")
	c.Emit("c05.count", sx.L(sx.Nat(256), sx.B(true), (&c05Cell{bits: "1"}).sx()), "empty")

	// --- 8c. augmented dictionaries (decode only): HashmapAugE[key, Uint32, Uint32]
	nAug := c.Scale(20, 160)
	for _, n := range []int{8, 16, 32, 64, 96, 256} {
		for _, mode := range modes {
			for i := 0; i < nAug; i++ {
				shape := c05Shapes[r.Intn(len(c05Shapes))]
				if mode == "same" && r.Bool() {
					shape = "runs"
				}
				var kvs []c05KV
				for _, k := range c05KeySet(r, n, c05PickSize(r, maxSize/2), shape) {
					kvs = append(kvs, c05KV{k, uint32(r.U64())})
				}
				kvs = c05SortedDistinct(kvs)
				root := &c05Cell{bits: "0" + c05U32Bits(uint32(r.U64()))}
				mut := ""
				if len(kvs) > 0 {
					t := c05Build(kvs)
					t.chooseForms(r, mode)
					var leaves, forks []*c05Tree
					t.leaves(&leaves)
					t.forks(&forks)
					for _, lf := range leaves {
						lf.raw, lf.vbits = true, c05U32Bits(uint32(r.U64()))+c05U32Bits(lf.value)
					}
					for _, fk := range forks {
						fk.xbits = c05U32Bits(uint32(r.U64()))
					}
					if r.Chance(12) { // an extra is missing or short
						mut = "extra"
						if len(forks) > 0 && r.Bool() {
							fk := forks[r.Intn(len(forks))]
							fk.xbits = fk.xbits[:r.Intn(32)]
						} else {
							lf := leaves[r.Intn(len(leaves))]
							lf.vbits = lf.vbits[:r.Intn(64)]
						}
					}
					pc, fits := t.cells(n)
					if !fits {
						continue
					}
					if mut == "" && r.Chance(10) {
						c05MutateCell(r, pc, &mut)
						if mut == "" {
							mut = "cell"
						}
					}
					if !c05CellOK(pc) {
						continue
					}
					root = &c05Cell{bits: "1" + c05U32Bits(uint32(r.U64())), refs: []*c05Cell{pc}}
				}
				if mut == "" && r.Chance(4) {
					mut = "root-extra"
					root.bits = root.bits[:1+r.Intn(32)]
				}
				cls := fmt.Sprintf("%s|%s", c05Family(c05KT{n, false}), mode)
				if mut != "" {
					cls = "malformed"
				}
				in := sx.L(sx.Nat(n), root.sx())
				out := c.Emit("c05.aug", in, cls)
				if mut == "" && out.String() != c05ItemsSx(kvs).String() {
					c.Fail("c05.aug", in, "aug-decode-"+mode, fmt.Sprintf("a valid augmented dictionary (label forms: %s) decodes to %s", mode, trunc(out.String(), 200)))
				}
				inC := sx.L(sx.Nat(n), sx.B(true), root.sx())
				cnt := c.Emit("c05.count", inC, "aug|"+cls)
				if out.K == sx.KL && cnt.String() != sx.Nat(len(out.List)).String() {
					c.Fail("c05.count", inC, "leaf-count", fmt.Sprintf("an augmented dictionary decodes to %d entries but is counted as %s", len(out.List), cnt))
				}
			}
		}
	}

	// --- 9. histories on tlb.ConfigParams objects: CloneKeepingSubsetOfKeys must leave the source
	//        alone and give an independent dictionary
	cfgCell := func(kvs []c05KV) *c05Cell {
		t := c05Build(kvs)
		t.chooseForms(r, "random")
		var leaves []*c05Tree
		t.leaves(&leaves)
		for _, lf := range leaves {
			lf.raw, lf.vrefs = true, []*c05Cell{{bits: c05U32Bits(lf.value)}}
		}
		pc, _ := t.cells(32)
		return &c05Cell{bits: strings.Repeat("0", 256), refs: []*c05Cell{pc}}
	}
	for i, nh := 0, c.Scale(250, 2500); i < nh; i++ {
		var kvs []c05KV
		for _, k := range c05KeySet(r, 32, c05PickSize(r, 30), c05Shapes[r.Intn(len(c05Shapes))]) {
			kvs = append(kvs, c05KV{k, uint32(r.U64())})
		}
		if r.Chance(30) { // small config-like key numbers
			kvs = nil
			for k := 0; k < 45; k++ {
				if r.Chance(60) {
					kvs = append(kvs, c05KV{c05U32Bits(uint32(k)), uint32(r.U64())})
				}
			}
		}
		kvs = c05SortedDistinct(kvs)
		var build sx.V
		bname := "dec"
		canon := []bool{true}
		if len(kvs) == 0 || r.Chance(40) {
			order := kvs
			bname = "new-ascending"
			if r.Chance(30) {
				order, bname = c05Shuffle(r, kvs), "new-shuffled"
				canon[0] = false
			}
			build = sx.L(sx.A("new"), c05ItemsSx(order))
		} else {
			build = sx.L(sx.A("dec"), cfgCell(kvs).sx())
		}
		canon0 := canon[0]
		refs := []map[string]uint32{{}}
		for _, kv := range kvs {
			refs[0][kv.k] = kv.v
		}
		sortedKeys := func(m map[string]uint32) []string {
			var ks []string
			for k := range m {
				ks = append(ks, k)
			}
			sort.Strings(ks)
			return ks
		}
		var steps []sx.V
		itemsAll := func() {
			for j := range refs {
				steps = append(steps, sx.L(sx.A("items"), sx.Nat(j)))
			}
		}
		pickKey := func(m map[string]uint32) string {
			ks := sortedKeys(m)
			if len(ks) > 0 && r.Chance(60) {
				return ks[r.Intn(len(ks))]
			}
			return c05U32Bits(uint32(r.Intn(64)))
		}
		steps = append(steps, sx.L(sx.A("items"), sx.Nat(0)))
		nclones := 0
		for j, ns := 0, 3+r.Intn(8); j < ns; j++ {
			o := r.Intn(len(refs))
			switch x := r.Intn(100); {
			case x < 35 || (j == 0):
				ks := sortedKeys(refs[o])
				var keep []string
				switch r.Intn(6) {
				case 0: // a prefix of the key list
					keep = append(keep, ks[:r.Intn(len(ks)+1)]...)
				case 1: // the last keys
					keep = append(keep, ks[len(ks)-r.Intn(len(ks)+1):]...)
				case 2: // everything
					keep = append(keep, ks...)
				case 3: // nothing that is there
					keep = append(keep, c05U32Bits(uint32(1000+r.Intn(1000))))
				default:
					for _, k := range ks {
						if r.Chance(35) {
							keep = append(keep, k)
						}
					}
				}
				if r.Bool() { // absent keys and repetitions in the argument
					keep = append(keep, c05U32Bits(uint32(r.Intn(64))))
					if len(keep) > 1 {
						keep = append(keep, keep[r.Intn(len(keep))])
					}
				}
				for a := len(keep) - 1; a > 0; a-- { // the argument need not be sorted
					b := r.Intn(a + 1)
					keep[a], keep[b] = keep[b], keep[a]
				}
				var ka []sx.V
				nm := map[string]uint32{}
				for _, k := range keep {
					ka = append(ka, sx.Bits(k))
					if v, ok := refs[o][k]; ok {
						nm[k] = v
					}
				}
				steps = append(steps, sx.L(sx.A("clone"), sx.Nat(o), sx.L(ka...)))
				refs = append(refs, nm)
				canon = append(canon, canon[o])
				nclones++
				itemsAll()
			case x < 60:
				k := pickKey(refs[o])
				v := uint32(r.U64())
				steps = append(steps, sx.L(sx.A("put"), sx.Nat(o), sx.Bits(k), sx.N(uint64(v))))
				refs[o][k] = v
				itemsAll()
			case x < 75:
				steps = append(steps, sx.L(sx.A("get"), sx.Nat(o), sx.Bits(pickKey(refs[o]))))
			case x < 90:
				steps = append(steps, sx.L(sx.A("marshal"), sx.Nat(o)))
			default:
				var d2 []c05KV
				for _, k := range c05KeySet(r, 32, 1+r.Intn(10), c05Shapes[r.Intn(len(c05Shapes))]) {
					d2 = append(d2, c05KV{k, uint32(r.U64())})
				}
				d2 = c05SortedDistinct(d2)
				steps = append(steps, sx.L(sx.A("decode"), sx.Nat(o), cfgCell(d2).sx()))
				refs[o] = map[string]uint32{}
				for _, kv := range d2 {
					refs[o][kv.k] = kv.v
				}
				canon[o] = true
				itemsAll()
			}
		}
		itemsAll()
		for j := range refs {
			steps = append(steps, sx.L(sx.A("marshal"), sx.Nat(j)))
		}
		itemsAll()
		in := sx.L(build, sx.L(steps...))
		out := c.Emit("c05.cfg", in, fmt.Sprintf("%s|clones-%d", bname, minInt(nclones, 3)))
		c05CfgOracle(c, in, out, steps, kvs, canon0)
	}
}

// oracle of a c05.cfg history on the implementation's answers alone: every object answers by its
// own mapping at every point, whatever happened to the other objects
func c05CfgOracle(c *Ctx, in, out sx.V, steps []sx.V, kvs []c05KV, canon0 bool) {
	if out.K != sx.KL || len(out.List) != len(steps) {
		c.Fail("c05.cfg", in, "cfg-fail", "history on ConfigParams objects failed: "+trunc(out.String(), 120))
		return
	}
	refs := []map[string]uint32{{}}
	canon := []bool{canon0}
	for _, kv := range kvs {
		refs[0][kv.k] = kv.v
	}
	last := "build"
	lastObj := 0
	sortedItems := func(m map[string]uint32) []c05KV {
		var l []c05KV
		for k, v := range m {
			l = append(l, c05KV{k, v})
		}
		return c05SortedDistinct(l)
	}
	for j, st := range steps {
		res := out.List[j]
		o := st.List[1].I()
		switch st.Head() {
		case "clone":
			if !res.IsA("ok") {
				c.Fail("c05.cfg", in, "clone-argument", fmt.Sprintf("step %d: CloneKeepingSubsetOfKeys changed its keys argument", j))
				return
			}
			nm := map[string]uint32{}
			for _, k := range st.List[2].List {
				if v, ok := refs[o][k.Bits]; ok {
					nm[k.Bits] = v
				}
			}
			refs = append(refs, nm)
			canon = append(canon, canon[o])
			last, lastObj = "clone", o
		case "put":
			refs[o][st.List[2].Bits] = uint32(st.List[3].U64())
			last, lastObj = "put", o
		case "decode":
			if !res.IsA("ok") {
				c.Fail("c05.cfg", in, "cfg-decode", fmt.Sprintf("step %d: decoding a valid ConfigParams cell failed", j))
				return
			}
			refs[o] = map[string]uint32{}
			fresh := safeExec("c05.cfg", sx.L(sx.L(sx.A("dec"), st.List[2]), sx.L(sx.L(sx.A("items"), sx.Nat(0)))))
			if fresh.K == sx.KL && len(fresh.List) == 1 {
				for _, kv := range c05KVsOf(fresh.List[0]) {
					refs[o][kv.k] = kv.v
				}
			}
			canon[o] = true
			last, lastObj = "decode", o
		case "get":
			want := "'none"
			if v, ok := refs[o][st.List[2].Bits]; ok {
				want = sx.L(sx.N(uint64(v))).String()
			}
			if res.String() != want {
				c.Fail("c05.cfg", in, c05CfgKey(last, lastObj, o, "get"), fmt.Sprintf("step %d: Get on object %d answered %s, its mapping says %s (last change: %s on object %d)", j, o, res, want, last, lastObj))
				return
			}
		case "items":
			want := sortedItems(refs[o])
			ok := res.K == sx.KL
			if ok && canon[o] {
				ok = res.String() == c05ItemsSx(want).String()
			} else if ok {
				got := c05SortedDistinct(c05KVsOf(res))
				ok = len(res.List) == len(want) && c05EqualKVs(got, want)
			}
			if !ok {
				c.Fail("c05.cfg", in, c05CfgKey(last, lastObj, o, "items"), fmt.Sprintf("step %d: Items() of object %d is %s, its mapping is %s (last change: %s on object %d)", j, o, trunc(res.String(), 160), trunc(c05ItemsSx(want).String(), 160), last, lastObj))
				return
			}
		case "marshal":
			if res.K != sx.KL || len(res.List) != 2 || len(res.List[1].List) != 1 {
				c.Fail("c05.cfg", in, c05CfgKey(last, lastObj, o, "marshal"), fmt.Sprintf("step %d: ConfigParams object %d does not marshal: %s", j, o, trunc(res.String(), 80)))
				return
			}
			if len(refs[o]) == 0 {
				continue
			}
			dec := safeExec("c05.dec", sx.L(sx.Nat(32), sx.B(false), sx.A("plain"), sx.A("ref"), res.List[1].List[0], sx.L()))
			if dec.String() != c05ItemsSx(sortedItems(refs[o])).String() {
				c.Fail("c05.cfg", in, c05CfgKey(last, lastObj, o, "marshal"), fmt.Sprintf("step %d: the encoding of object %d decodes to %s, its mapping is %s", j, o, trunc(dec.String(), 160), trunc(c05ItemsSx(sortedItems(refs[o])).String(), 160)))
				return
			}
		}
	}
}

func c05CfgKey(last string, lastObj, o int, what string) string {
	switch {
	case last == "clone" && o == lastObj:
		return "clone-changes-source"
	case last == "clone":
		return "clone-wrong"
	case last == "put" && o != lastObj:
		return "cfg-objects-share-storage"
	}
	return "cfg-" + what
}

// ---- round 6 streams -------------------------------------------------------------

type c05Seg struct {
	kind     string // root-label | inner-label | leaf-label | fork-bit
	pos, len int
}

// the labels and fork bits on the path of a stored key
func (t *c05Tree) pathOf(key string, pos int, depth int, segs *[]c05Seg) {
	kind := "inner-label"
	if depth == 0 {
		kind = "root-label"
	}
	if t.leaf {
		kind = "leaf-label"
	}
	*segs = append(*segs, c05Seg{kind, pos, len(t.label)})
	if t.leaf {
		return
	}
	p := pos + len(t.label)
	*segs = append(*segs, c05Seg{"fork-bit", p, 1})
	if key[p] == '1' {
		t.r.pathOf(key, p+1, depth+1, segs)
	} else {
		t.l.pathOf(key, p+1, depth+1, segs)
	}
}

func genC05R6(c *Ctx) {
	r := c.R
	// --- 10. lookups through ProveKeyInHashmap: present keys, and absent keys derived from stored
	//         keys by changing a bit inside each label on the path and each fork bit
	nFind := c.Scale(6, 50)
	for _, kt := range c05KeyTypes {
		if kt.signed {
			continue
		}
		for i := 0; i < nFind; i++ {
			shape := c05Shapes[r.Intn(len(c05Shapes))]
			if r.Chance(40) {
				shape = "prefix"
			}
			var kvs []c05KV
			for _, k := range c05KeySet(r, kt.n, 1+c05PickSize(r, 40), shape) {
				kvs = append(kvs, c05KV{k, uint32(r.U64())})
			}
			kvs = c05SortedDistinct(kvs)
			ref := map[string]uint32{}
			for _, kv := range kvs {
				ref[kv.k] = kv.v
			}
			t := c05Build(kvs)
			t.chooseForms(r, []string{"go", "random", "same"}[r.Intn(3)])
			pc, fits := t.cells(kt.n)
			if !fits {
				continue
			}
			type probe struct{ key, cls string }
			var probes []probe
			for j := 0; j < 3; j++ {
				stored := kvs[r.Intn(len(kvs))].k
				if j == 0 {
					stored = kvs[0].k
				}
				probes = append(probes, probe{stored, "present"})
				var segs []c05Seg
				t.pathOf(stored, 0, 0, &segs)
				for _, sg := range segs {
					if sg.len == 0 {
						continue
					}
					b := []byte(stored)
					b[sg.pos+r.Intn(sg.len)] ^= 1
					probes = append(probes, probe{string(b), sg.kind})
				}
			}
			probes = append(probes, probe{c05RandBits(r, kt.n), "random"})
			seen := map[string]bool{}
			for _, p := range probes {
				if seen[p.key] {
					continue
				}
				seen[p.key] = true
				want := "'err"
				cls := p.cls + "|absent"
				if v, ok := ref[p.key]; ok {
					want = sx.L(sx.A("found"), sx.N(uint64(v))).String()
					cls = p.cls + "|present"
				}
				in := sx.L(pc.sx(), sx.Bits(p.key))
				out := c.Emit("c05.find", in, fmt.Sprintf("%s|%s", c05Family(kt), cls))
				if out.String() != want {
					c.Fail("c05.find", in, "lookup-"+p.cls, fmt.Sprintf("ProveKeyInHashmap for a key (%s of a stored key changed) answers %s, the dictionary's mapping says %s", p.cls, trunc(out.String(), 60), want))
				}
			}
		}
	}

	// --- 11. ShardState.AccountBalances over unsplit and split states
	for i, nb := 0, c.Scale(200, 2000); i < nb; i++ {
		split := r.Chance(75)
		mk := func(first string, size int) ([]sx.V, []c05KV64, []bool) {
			set := map[string]bool{}
			for j := 0; j < size; j++ {
				k := c05RandBits(r, 256)
				if first != "" {
					k = first + k[1:]
				}
				if r.Chance(30) { // close keys
					k = k[:8] + strings.Repeat("0", 240) + k[248:]
				}
				set[k] = true
			}
			var ks []string
			for k := range set {
				ks = append(ks, k)
			}
			sort.Strings(ks)
			var l []sx.V
			var kv []c05KV64
			var has []bool
			for _, k := range ks {
				switch x := r.Intn(10); {
				case x == 0:
					l = append(l, sx.L(sx.Bits(k), sx.A("none")))
					kv, has = append(kv, c05KV64{k, 0}), append(has, false)
				case x == 1:
					l = append(l, sx.L(sx.Bits(k), sx.A("accnone")))
					kv, has = append(kv, c05KV64{k, 0}), append(has, true)
				default:
					g := r.U64() >> uint(r.Intn(64))
					l = append(l, sx.L(sx.Bits(k), sx.N(g)))
					kv, has = append(kv, c05KV64{k, g}), append(has, true)
				}
			}
			return l, kv, has
		}
		lf, rf := "0", "1"
		if r.Chance(25) { // arbitrary halves, keys may repeat across them
			lf, rf = "", ""
		}
		ls, lkv, lhas := mk(lf, r.Intn(10))
		rs, rkv, rhas := mk(rf, r.Intn(14))
		if rf == "" && len(lkv) > 0 && r.Bool() { // the same account in both halves: the right one wins
			rs = append(rs, sx.L(sx.Bits(lkv[0].k), sx.N(77)))
			rkv, rhas = append(rkv, c05KV64{lkv[0].k, 77}), append(rhas, true)
		}
		want := map[string]uint64{}
		for j, kv := range lkv {
			if lhas[j] {
				want[kv.k] = kv.v
			}
		}
		if split {
			for j, kv := range rkv {
				if rhas[j] {
					want[kv.k] = kv.v
				}
			}
		}
		var ks []string
		for k := range want {
			ks = append(ks, k)
		}
		sort.Strings(ks)
		var ws []sx.V
		for _, k := range ks {
			ws = append(ws, sx.L(sx.Bits(k), sx.N(want[k])))
		}
		rel := "right<=left"
		if len(rkv) > len(lkv) {
			rel = "right>left"
		}
		in := sx.L(sx.B(split), sx.L(ls...), sx.L(rs...))
		out := c.Emit("c05.bal", in, fmt.Sprintf("split-%v|%s|%s", split, rel, map[bool]string{true: "disjoint", false: "arbitrary"}[lf != ""]))
		if out.String() != sx.L(ws...).String() {
			c.Fail("c05.bal", in, "account-balances", fmt.Sprintf("ShardState.AccountBalances (split = %v, %d + %d accounts) answers %s, the accounts dictionaries say %s", split, len(lkv), len(rkv), trunc(out.String(), 200), trunc(sx.L(ws...).String(), 200)))
		}
	}
}
