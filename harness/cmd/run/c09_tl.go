package main

// C09, TL half: random TL schemas inside the subset tl/parser supports (and an
// exploratory stream outside it), random values of the declared types.
//
// The subset, as read from tl/parser/generator.go:
//   - every line carries an 8-digit #id (tagToUint32), ids pairwise distinct;
//   - a type with one constructor c is written  ns.c ... = ns.C  (generateGolangMethod
//     looks the result type up by comparing it case-insensitively with the
//     constructor name) and is referred to as the bare type ns.c;
//   - a type with 2..5 constructors is referred to as the boxed type ns.T; its
//     constructors have no conditional fields (the generator tests t.Mode, which
//     is not a field of the sum struct);
//   - types are declared before use;
//   - field types int long int256 bytes string Bool #, (vector T) of those and of
//     declared types, declared types; mode.N?T (N = 0..31, the # field is called
//     "mode": generateGolangStruct makes a field optional only under that name)
//     with T any of these or `true`;
//   - Go names (utils.ToCamelCase) of fields / constructors / types distinct;
//   - liteServer.error is declared (single constructor);
//   - functions return declared types.

import (
	"fmt"
	"strings"

	"github.com/tonkeeper/tongo/utils"

	"verifharness/prng"
	"verifharness/sx"
)

type tlTy struct {
	k    string // int nat long int256 bytes string bool true vector bare boxed
	elem *tlTy
	ref  string
}

type tlField struct {
	name    string
	hasCond bool
	cond    string
	bit     int
	ty      tlTy
}

type tlDecl struct {
	name   string
	id     uint32
	idText string // "" = "#%08x"
	fields []tlField
	res    string
}

type tlSchema struct {
	types, funcs []tlDecl
	explore      string // "" for the subset stream, else what leaves the subset
}

func (t tlTy) text() string {
	switch t.k {
	case "nat":
		return "#"
	case "bool":
		return "Bool"
	case "vector":
		return "(vector " + t.elem.text() + ")"
	case "bare", "boxed":
		return t.ref
	}
	return t.k
}

func (d tlDecl) text() string {
	var sb strings.Builder
	sb.WriteString(d.name)
	if d.idText != "" {
		sb.WriteString(d.idText)
	} else {
		fmt.Fprintf(&sb, "#%08x", d.id)
	}
	for _, f := range d.fields {
		sb.WriteString(" " + f.name + ":")
		if f.hasCond {
			fmt.Fprintf(&sb, "%s.%d?", f.cond, f.bit)
		}
		sb.WriteString(f.ty.text())
	}
	sb.WriteString(" = " + d.res + ";")
	return sb.String()
}

func (s *tlSchema) text() string {
	var sb strings.Builder
	for _, d := range s.types {
		sb.WriteString(d.text() + "\n")
	}
	sb.WriteString("\n---functions---\n\n")
	for _, d := range s.funcs {
		sb.WriteString(d.text() + "\n")
	}
	return sb.String()
}

func (s *tlSchema) ctorsOf(res string) []tlDecl {
	var out []tlDecl
	for _, d := range s.types {
		if d.res == res {
			out = append(out, d)
		}
	}
	return out
}

func (s *tlSchema) ctor(name string) *tlDecl {
	for i := range s.types {
		if s.types[i].name == name {
			return &s.types[i]
		}
	}
	return nil
}

var c09Words = []string{"block", "id", "ext", "info", "state", "proof", "shard", "account", "config", "seqno", "hash",
	"link", "data", "list", "entry", "time", "version", "lib", "msg", "status", "tx", "part", "stats", "sig", "set", "key"}
var c09FieldWords = []string{"id", "workchain", "shard", "seqno", "root_hash", "file_hash", "data", "proof", "count", "lt",
	"now", "version", "capabilities", "state_proof", "init_c7", "exit_code", "result", "incomplete", "ids", "after",
	"known_block", "limit", "x", "y2", "a_b_c", "q1w", "utime", "body", "account", "method_id", "params", "from", "to"}
var c09Ns = []string{"liteServer", "tonNode", "adnl", "db", "x1", "liteServer.debug"}

type tlGen struct {
	r       *prng.R
	s       *tlSchema
	ids     map[uint32]bool
	goName  map[string]bool // Go type names in use
	singles []string        // constructor names of single-constructor types (bare references)
	sums    []string        // result names of multi-constructor types (boxed references)
	pending []tlDecl        // constructors of multi-constructor types still to be emitted (non-adjacent declaration)
	seq     int
}

func (g *tlGen) freshID() uint32 {
	for {
		var id uint32
		switch g.r.Intn(12) {
		case 0:
			id = uint32(g.r.Intn(256)) // leading zero digits
		case 1:
			id = 0xffffff00 | uint32(g.r.Intn(256))
		case 2:
			id = uint32(g.r.U64()) & 0x00ffffff
		case 3:
			id = uint32(g.r.U64()) | 0x80000000 // above 2^31: `int(tag)` / case constants must still agree
		default:
			id = uint32(g.r.U64())
		}
		if !g.ids[id] && id != 0x997275b5 && id != 0xbc799737 {
			g.ids[id] = true
			return id
		}
	}
}

// freshName returns a lower-camel last component and its namespace.
func (g *tlGen) freshName() (ns, last string) {
	for {
		ns = c09Ns[g.r.Intn(len(c09Ns))]
		g.seq++
		w := c09Words[g.r.Intn(len(c09Words))]
		switch g.r.Intn(4) {
		case 0:
			last = w + strings.Title(c09Words[g.r.Intn(len(c09Words))])
		case 1:
			last = w + fmt.Sprint(g.seq)
		case 2:
			last = w + fmt.Sprint(g.r.Intn(10)) + c09Words[g.r.Intn(len(c09Words))]
		default:
			last = w
		}
		gn := utils.ToCamelCase(ns + "." + last)
		if g.goName[strings.ToLower(gn)] || strings.HasSuffix(gn, "Request") || strings.HasSuffix(gn, "C") || gn == "Client" {
			continue
		}
		g.goName[strings.ToLower(gn)] = true
		return
	}
}

func upFirst(s string) string { return strings.ToUpper(s[:1]) + s[1:] }

func (g *tlGen) baseTy(allowRefs bool) tlTy {
	for {
		switch k := g.r.Intn(13); {
		case k == 0:
			return tlTy{k: "int"}
		case k == 1:
			return tlTy{k: "long"}
		case k == 2:
			return tlTy{k: "int256"}
		case k == 3:
			return tlTy{k: "bytes"}
		case k == 4:
			return tlTy{k: "string"}
		case k == 5:
			return tlTy{k: "bool"}
		case k == 6:
			return tlTy{k: "nat"}
		case k <= 9:
			if allowRefs && len(g.singles) > 0 {
				return tlTy{k: "bare", ref: g.singles[g.r.Intn(len(g.singles))]}
			}
		default:
			if allowRefs && len(g.sums) > 0 {
				return tlTy{k: "boxed", ref: g.sums[g.r.Intn(len(g.sums))]}
			}
		}
	}
}

func (g *tlGen) fieldTy() tlTy {
	if g.r.Chance(22) {
		e := g.baseTy(true)
		return tlTy{k: "vector", elem: &e}
	}
	return g.baseTy(true)
}

// fields of one constructor / function.  conds: conditional fields allowed.
func (g *tlGen) fields(conds bool, max int) []tlField {
	n := g.r.Intn(max + 1)
	if g.r.Chance(10) {
		n = 0
	}
	var fs []tlField
	used := map[string]bool{"sumtype": true}
	name := func() string {
		for {
			w := c09FieldWords[g.r.Intn(len(c09FieldWords))]
			if g.r.Chance(15) {
				w += fmt.Sprint(g.r.Intn(100))
			}
			k := strings.ToLower(utils.ToCamelCase(w))
			if w != "mode" && !used[k] {
				used[k] = true
				return w
			}
		}
	}
	haveMode := false
	var bits []int
	modeAt := -1
	if conds && n > 1 && g.r.Chance(55) {
		modeAt = g.r.Intn(n - 1)
		if g.r.Chance(50) {
			modeAt = 0
		}
		// bits to exercise: boundaries 0 and 31 often, every bit over the stream
		for i := 0; i < 32; i++ {
			bits = append(bits, i)
		}
	}
	for i := 0; i < n; i++ {
		if i == modeAt {
			fs = append(fs, tlField{name: "mode", ty: tlTy{k: "nat"}})
			haveMode = true
			continue
		}
		f := tlField{name: name(), ty: g.fieldTy()}
		if haveMode && g.r.Chance(60) {
			f.hasCond, f.cond = true, "mode"
			switch g.r.Intn(5) {
			case 0:
				f.bit = 0
			case 1:
				f.bit = 31
			default:
				f.bit = bits[g.r.Intn(32)]
			}
			if g.r.Chance(12) {
				f.ty = tlTy{k: "true"}
			}
		}
		fs = append(fs, f)
	}
	return fs
}

func (g *tlGen) addSingle(ns, last string, fs []tlField) {
	g.s.types = append(g.s.types, tlDecl{name: ns + "." + last, id: g.freshID(), fields: fs, res: ns + "." + upFirst(last)})
	g.singles = append(g.singles, ns+"."+last)
}

func (g *tlGen) addType() int {
	ns, last := g.freshName()
	if g.r.Chance(70) {
		g.addSingle(ns, last, g.fields(true, 8))
		return 1
	}
	k := 2 + g.r.Intn(4)
	res := ns + "." + upFirst(last)
	var cs []tlDecl
	for i := 0; i < k; i++ {
		var cn string
		for {
			cn = last + upFirst(c09Words[g.r.Intn(len(c09Words))])
			if g.r.Chance(30) {
				cn = last + fmt.Sprint(i)
			}
			gn := strings.ToLower(utils.ToCamelCase(ns + "." + cn))
			if !g.goName[gn] {
				g.goName[gn] = true
				break
			}
		}
		cs = append(cs, tlDecl{name: ns + "." + cn, id: g.freshID(), fields: g.fields(false, 5), res: res})
	}
	// declaration order is part of the quantifier: the constructors of a type need not be adjacent.
	// tl/parser places the type where its first constructor stands, so the fields of all of them
	// use only what is declared before that point; the later constructors are emitted at a distance.
	now := k
	if g.r.Chance(55) {
		now = 1 + g.r.Intn(k-1)
	}
	g.s.types = append(g.s.types, cs[:now]...)
	g.pending = append(g.pending, cs[now:]...)
	g.sums = append(g.sums, res)
	return k
}

// flush emits up to n of the constructors still waiting (all when n < 0).
func (g *tlGen) flush(n int) {
	for len(g.pending) > 0 && n != 0 {
		i := 0
		if g.r.Chance(30) {
			i = g.r.Intn(len(g.pending))
			// keep the constructors of one type in their order
			for j := 0; j < i; j++ {
				if g.pending[j].res == g.pending[i].res {
					i = j
					break
				}
			}
		}
		g.s.types = append(g.s.types, g.pending[i])
		g.pending = append(g.pending[:i], g.pending[i+1:]...)
		n--
	}
}

func (g *tlGen) addFunc() {
	ns, last := g.freshName()
	var res string
	if len(g.sums) > 0 && g.r.Chance(20) {
		res = g.sums[g.r.Intn(len(g.sums))]
	} else {
		// not the error type itself: its id is what the method reads as "the call failed"
		for res == "" || (res == "liteServer.Error" && len(g.singles) > 1) {
			res = g.s.ctor(g.singles[g.r.Intn(len(g.singles))]).res
		}
		if res == "liteServer.Error" {
			return
		}
	}
	g.s.funcs = append(g.s.funcs, tlDecl{name: ns + ".get" + upFirst(last), id: g.freshID(), fields: g.fields(true, 6), res: res})
}

// genTlSchema: a schema of `size` declarations (types + functions) in the subset.
func genTlSchema(r *prng.R, size int) *tlSchema {
	g := &tlGen{r: r, s: &tlSchema{}, ids: map[uint32]bool{}, goName: map[string]bool{"liteservererror": true}}
	errDecl := func() {
		fs := []tlField{{name: "code", ty: tlTy{k: "int"}}, {name: "message", ty: tlTy{k: "string"}}}
		g.s.types = append(g.s.types, tlDecl{name: "liteServer.error", id: g.freshID(), fields: fs, res: "liteServer.Error"})
		g.singles = append(g.singles, "liteServer.error")
	}
	nfun := 0
	if size > 1 {
		nfun = g.r.Intn(size/3 + 1)
		if size >= 4 && nfun == 0 {
			nfun = 1
		}
	}
	ntypes := size - nfun - 1
	errAt := 0
	if ntypes > 0 {
		errAt = g.r.Intn(ntypes + 1)
	}
	n := 0
	placed := false
	for n < ntypes {
		if !placed && n >= errAt {
			errDecl()
			placed = true
		}
		n += g.addType()
		if g.r.Chance(50) {
			g.flush(1)
		}
	}
	if !placed {
		errDecl()
	}
	g.flush(-1)
	for i := 0; i < nfun; i++ {
		g.addFunc()
	}
	return g.s
}

// ---------------------------------------------------------------- exploratory stream

// genTlExplore: a subset schema with one departure from the subset; only observed.
func genTlExplore(r *prng.R, size int) *tlSchema {
	s := genTlSchema(r, size)
	pickType := func() *tlDecl { return &s.types[r.Intn(len(s.types))] }
	switch r.Intn(11) {
	case 9:
		s.explore = "vector-with-two-parameters"
		s.types = append(s.types, tlDecl{name: "x1.expVec", id: 0x0e0e0e07, fields: []tlField{{name: "v", ty: tlTy{k: "bare", ref: "(vector int long)"}}}, res: "x1.ExpVec"})
	case 10:
		s.explore = "error-type-with-two-constructors"
		s.types = append(s.types, tlDecl{name: "liteServer.error2", id: 0x0e0e0e08, res: "liteServer.Error"})
	case 0:
		s.explore = "late-declaration"
		if len(s.types) >= 2 {
			i := r.Intn(len(s.types) - 1)
			s.types[i], s.types[len(s.types)-1] = s.types[len(s.types)-1], s.types[i]
		}
	case 1:
		s.explore = "colliding-go-field-names"
		d := pickType()
		d.fields = append(d.fields, tlField{name: "a_b", ty: tlTy{k: "int"}}, tlField{name: "aB", ty: tlTy{k: "int"}})
	case 2:
		s.explore = "unconditional-true"
		d := pickType()
		d.fields = append(d.fields, tlField{name: "flag_t", ty: tlTy{k: "true"}})
	case 3:
		s.explore = "conditional-in-sum-constructor"
		s.types = append(s.types,
			tlDecl{name: "x1.expA", id: 0x0e0e0e01, fields: []tlField{{name: "mode", ty: tlTy{k: "nat"}}, {name: "v", hasCond: true, cond: "mode", bit: 1, ty: tlTy{k: "int"}}}, res: "x1.Exp"},
			tlDecl{name: "x1.expB", id: 0x0e0e0e02, res: "x1.Exp"})
	case 4:
		s.explore = "flags-named-not-mode"
		s.types = append(s.types, tlDecl{name: "x1.expFlags", id: 0x0e0e0e03,
			fields: []tlField{{name: "flags", ty: tlTy{k: "nat"}}, {name: "v", hasCond: true, cond: "flags", bit: 0, ty: tlTy{k: "long"}}}, res: "x1.ExpFlags"})
	case 5:
		s.explore = "boxed-reference-to-single-constructor-type"
		s.types = append(s.types, tlDecl{name: "x1.expBoxed", id: 0x0e0e0e04,
			fields: []tlField{{name: "e", ty: tlTy{k: "boxed", ref: "liteServer.Error"}}}, res: "x1.ExpBoxed"})
	case 6:
		s.explore = "short-id"
		s.types = append(s.types, tlDecl{name: "x1.expShort", id: 0xabcd0000, idText: "#abcd", fields: []tlField{{name: "v", ty: tlTy{k: "int"}}}, res: "x1.ExpShort"})
	case 7:
		s.explore = "missing-id"
		s.types = append(s.types, tlDecl{name: "x1.expNoId", idText: " ", fields: []tlField{{name: "v", ty: tlTy{k: "int"}}}, res: "x1.ExpNoId"})
	default:
		s.explore = "result-name-differs-from-constructor"
		s.types = append(s.types, tlDecl{name: "x1.expCtor", id: 0x0e0e0e05, fields: []tlField{{name: "v", ty: tlTy{k: "int"}}}, res: "x1.ExpOther"})
		s.funcs = append(s.funcs, tlDecl{name: "x1.getExp", id: 0x0e0e0e06, res: "x1.ExpOther"})
	}
	return s
}

// ---------------------------------------------------------------- values

var c09Lens = []int{0, 1, 2, 3, 4, 5, 7, 8, 252, 253, 254, 255, 256, 257, 258, 259, 260, 1100}
var c09U32 = []uint64{0, 1, 2, 0x7f, 0x80, 0xff, 0x100, 0xffff, 0x10000, 0x7fffffff, 0x80000000, 0xfffffffe, 0xffffffff}
var c09U64 = []uint64{0, 1, 0xff, 0x100, 0xffffffff, 0x100000000, 0x7fffffffffffffff, 0x8000000000000000, 0xffffffffffffffff}

type tlValGen struct {
	r    *prng.R
	s    *tlSchema
	big  int
	maxV int
}

func (g *tlValGen) bytes() []byte {
	if g.r.Chance(g.big) {
		return g.r.Bytes(g.r.Pick(c09Lens))
	}
	return g.r.Bytes(g.r.Intn(20))
}

func (g *tlValGen) record(name string, fs []tlField, depth int) sx.V {
	items := []sx.V{sx.A("r"), sx.A(name)}
	var mode uint64
	for _, f := range fs {
		if f.ty.k == "nat" && f.name == "mode" && !f.hasCond {
			switch k := g.r.Intn(10); {
			case k < 1:
				mode = 0
			case k < 2:
				mode = 0xffffffff
			case k < 5:
				mode = g.r.U64() & g.r.U64() & 0xffffffff
			default:
				mode = g.r.U64() & 0xffffffff
			}
			if depth > 3 {
				mode = 0
			}
			items = append(items, sx.L(sx.A("Mode"), sx.N(mode)))
			continue
		}
		if f.hasCond && (mode>>uint(f.bit))&1 == 0 {
			continue
		}
		if f.ty.k == "true" {
			continue
		}
		items = append(items, sx.L(sx.A(utils.ToCamelCase(f.name)), g.value(f.ty, depth+1)))
	}
	return sx.L(items...)
}

func (g *tlValGen) value(t tlTy, depth int) sx.V {
	switch t.k {
	case "int", "nat":
		if g.r.Chance(40) {
			return sx.N(c09U32[g.r.Intn(len(c09U32))])
		}
		return sx.N(g.r.U64() & 0xffffffff)
	case "long":
		if g.r.Chance(40) {
			return sx.N(c09U64[g.r.Intn(len(c09U64))])
		}
		return sx.N(g.r.U64())
	case "int256":
		return sx.Bytes(g.r.Bytes(32))
	case "bytes", "string":
		return sx.Bytes(g.bytes())
	case "bool":
		return sx.B(g.r.Bool())
	case "vector":
		n := 0
		switch k := g.r.Intn(10); {
		case k < 2:
			n = 0
		case k < 5:
			n = 1
		case k < 8:
			n = 2 + g.r.Intn(3)
		default:
			n = g.r.Intn(g.maxV + 1)
		}
		if depth > 2 && n > 2 {
			n = 2
		}
		if depth > 5 {
			n = 0
		}
		items := []sx.V{sx.A("v")}
		for i := 0; i < n; i++ {
			items = append(items, g.value(*t.elem, depth+1))
		}
		return sx.L(items...)
	case "bare":
		return g.record("_", g.s.ctor(t.ref).fields, depth)
	case "boxed":
		cs := g.s.ctorsOf(t.ref)
		d := cs[g.r.Intn(len(cs))]
		if len(cs) == 1 {
			return g.record("_", d.fields, depth)
		}
		return g.record(utils.ToCamelCase(d.name), d.fields, depth)
	}
	return sx.A("bad-type")
}

// genTlAllBits: one constructor and one function with a conditional field on
// every bit 0..31 of mode (every run covers the whole range of N in mode.N?T).
func genTlAllBits() *tlSchema {
	s := &tlSchema{}
	s.types = append(s.types,
		tlDecl{name: "liteServer.error", id: 0x48e1a9bb, fields: []tlField{{name: "code", ty: tlTy{k: "int"}}, {name: "message", ty: tlTy{k: "string"}}}, res: "liteServer.Error"},
		// the constructors of x1.Alt are not adjacent: another type and a user of x1.Alt stand between them
		tlDecl{name: "x1.altA", id: 0xfffffffe, fields: []tlField{{name: "p", ty: tlTy{k: "long"}}}, res: "x1.Alt"},
		tlDecl{name: "x1.leaf", id: 0x00000001, fields: []tlField{{name: "a", ty: tlTy{k: "int"}}}, res: "x1.Leaf"},
		tlDecl{name: "x1.altB", id: 0x80000000, res: "x1.Alt"},
		tlDecl{name: "x1.user", id: 0x00000002, fields: []tlField{{name: "alt", ty: tlTy{k: "boxed", ref: "x1.Alt"}}}, res: "x1.User"},
		tlDecl{name: "x1.altC", id: 0x7fffffff, fields: []tlField{{name: "q", ty: tlTy{k: "int"}}, {name: "r", ty: tlTy{k: "bytes"}}}, res: "x1.Alt"})
	vi := tlTy{k: "int"}
	vl := tlTy{k: "bare", ref: "x1.leaf"}
	kinds := []tlTy{{k: "int"}, {k: "long"}, {k: "int256"}, {k: "bytes"}, {k: "string"}, {k: "bool"}, {k: "nat"},
		{k: "vector", elem: &vi}, {k: "true"}, {k: "bare", ref: "x1.leaf"}, {k: "boxed", ref: "x1.Alt"}, {k: "vector", elem: &vl}}
	mk := func(rot int) []tlField {
		fs := []tlField{{name: "mode", ty: tlTy{k: "nat"}}}
		for b := 0; b < 32; b++ {
			fs = append(fs, tlField{name: fmt.Sprintf("f%d", b), hasCond: true, cond: "mode", bit: b, ty: kinds[(b+rot)%len(kinds)]})
		}
		return fs
	}
	s.types = append(s.types, tlDecl{name: "x1.allBits", id: 0x0a11b175, fields: mk(0), res: "x1.AllBits"})
	s.funcs = append(s.funcs, tlDecl{name: "x1.getAllBits", id: 0x0a11b176, fields: mk(5), res: "x1.AllBits"},
		tlDecl{name: "x1.getNothing", id: 0x0a11b177, res: "x1.Leaf"},
		tlDecl{name: "x1.getAlt", id: 0x0a11b178, fields: []tlField{{name: "n", ty: tlTy{k: "int"}}}, res: "x1.Alt"},
		tlDecl{name: "x1.getAltNoArgs", id: 0x0a11b179, res: "x1.Alt"})
	return s
}

// genTlThresholds: a fixed schema whose values are taken across the internal
// thresholds of the runtime every generated method runs on (tl/decoder.go:
// maxPrealloc = 4096 bounds the pre-allocation of decodeVector and the buffer of
// readN; the 253/254 switch of the length prefix; recursion): one constructor
// per vector element kind with a field after the vector, an optional vector, long
// byte strings, a chain of 30 nested bare types, functions carrying such values
// as arguments and as results.
var c09VecKinds = []struct {
	name string
	ty   tlTy
}{
	{"Int", tlTy{k: "int"}}, {"Long", tlTy{k: "long"}}, {"Int256", tlTy{k: "int256"}}, {"Bytes", tlTy{k: "bytes"}},
	{"String", tlTy{k: "string"}}, {"Bool", tlTy{k: "bool"}}, {"Nat", tlTy{k: "nat"}},
	{"Leaf", tlTy{k: "bare", ref: "x1.leaf"}}, {"Alt", tlTy{k: "boxed", ref: "x1.Alt"}},
}

const c09ChainDepth = 30

func genTlThresholds() *tlSchema {
	s := &tlSchema{}
	id := uint32(0x7e570000)
	add := func(name string, fs []tlField, res string) {
		id++
		s.types = append(s.types, tlDecl{name: name, id: id, fields: fs, res: res})
	}
	add("liteServer.error", []tlField{{name: "code", ty: tlTy{k: "int"}}, {name: "message", ty: tlTy{k: "string"}}}, "liteServer.Error")
	add("x1.leaf", []tlField{{name: "a", ty: tlTy{k: "int"}}}, "x1.Leaf")
	add("x1.altA", []tlField{{name: "p", ty: tlTy{k: "long"}}}, "x1.Alt")
	add("x1.altB", nil, "x1.Alt")
	for i := range c09VecKinds {
		k := c09VecKinds[i]
		add("x1.vec"+k.name, []tlField{{name: "v", ty: tlTy{k: "vector", elem: &c09VecKinds[i].ty}}, {name: "tail", ty: tlTy{k: "int"}}}, "x1.Vec"+k.name)
	}
	add("x1.vecOpt", []tlField{{name: "mode", ty: tlTy{k: "nat"}}, {name: "v", hasCond: true, cond: "mode", bit: 3, ty: tlTy{k: "vector", elem: &c09VecKinds[1].ty}}, {name: "tail", ty: tlTy{k: "int"}}}, "x1.VecOpt")
	add("x1.blob", []tlField{{name: "data", ty: tlTy{k: "bytes"}}, {name: "s", ty: tlTy{k: "string"}}, {name: "tail", ty: tlTy{k: "int"}}}, "x1.Blob")
	add("x1.n0", []tlField{{name: "a", ty: tlTy{k: "int"}}}, "x1.N0")
	for i := 1; i < c09ChainDepth; i++ {
		add(fmt.Sprintf("x1.n%d", i), []tlField{{name: "c", ty: tlTy{k: "bare", ref: fmt.Sprintf("x1.n%d", i-1)}}, {name: "t", ty: tlTy{k: "int"}}}, fmt.Sprintf("x1.N%d", i))
	}
	fn := func(name string, fs []tlField, res string) {
		id++
		s.funcs = append(s.funcs, tlDecl{name: name, id: id, fields: fs, res: res})
	}
	fn("x1.getVecInt", nil, "x1.VecInt")
	fn("x1.getVecLeaf", []tlField{{name: "n", ty: tlTy{k: "int"}}}, "x1.VecLeaf")
	fn("x1.getVecAlt", nil, "x1.VecAlt")
	fn("x1.getBlob", nil, "x1.Blob")
	fn("x1.sendVec", []tlField{{name: "v", ty: tlTy{k: "vector", elem: &c09VecKinds[1].ty}}, {name: "tail", ty: tlTy{k: "int"}}}, "x1.Leaf")
	fn("x1.sendBlob", []tlField{{name: "data", ty: tlTy{k: "bytes"}}, {name: "tail", ty: tlTy{k: "int"}}}, "x1.Leaf")
	return s
}

// vector value with exactly n elements
func (g *tlValGen) bigVector(elem tlTy, n int) sx.V {
	items := []sx.V{sx.A("v")}
	save := g.big
	g.big = 0
	for i := 0; i < n; i++ {
		if elem.k == "bytes" || elem.k == "string" {
			// short elements: the spec's strict reader measures the rest of the input for every byte string
			items = append(items, sx.Bytes(g.r.Bytes(g.r.Intn(4))))
			continue
		}
		items = append(items, g.value(elem, 4))
	}
	g.big = save
	return sx.L(items...)
}
