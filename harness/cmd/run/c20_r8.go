package main

// C20, non-canonical but decodable spellings of a cell document: the data of a
// cell is spelled by its second descriptor byte d2 (odd: the last data byte is
// not full and carries the completion tag -- the lowest 1 bit -- in one of its
// SEVEN low bits) and by the data bytes.  From genuine bags (the reference
// serialiser of dag.go in every header variant, and the library's own ToBoc)
// the spelling of every cell is rewritten in place: last byte := 0x80 with odd
// d2 (overlong form of a byte-aligned string), last byte := 0x00 with odd d2
// and the tag bit cleared (completion bit missing), d2 decremented on aligned
// cells (ending in 0x80 / 0x00 / 0x01 / anything), d2 incremented on
// non-aligned cells, the boundary tags 0x01 and 0x40|data, all non-aligned
// cells at once; CRC32C re-computed where the header carries one.  The
// documents go through every JSON form that holds a cell (compared with the
// model's BOC parser where the kinds exist) and the implementation-side oracle
// c20.spelling: an independent reading of the document decides whether every
// cell is spelled canonically; a non-canonical document must be rejected, an
// accepted one must hold, cell by cell along the references, exactly the bits
// whose canonical (d2, data) spelling is the one in the document.

import (
	"encoding/base64"
	"encoding/binary"
	"encoding/hex"
	"encoding/json"
	"fmt"
	"hash/crc32"
	"strings"

	"github.com/tonkeeper/tongo/abi"
	"github.com/tonkeeper/tongo/boc"
	"github.com/tonkeeper/tongo/tlb"

	"verifharness/prng"
	"verifharness/sx"
)

// spell20: where one cell of a bag is spelled
type spell20 struct {
	d2Pos, dataPos, dataLen int
	refs                    []int
}

type bag20 struct {
	cells  []spell20
	roots  []int
	crc    bool
	endPos int // end of the cell data (start of the checksum, if any)
}

func getBE20(b []byte, pos, w int) (int, bool) {
	if pos < 0 || w < 0 || w > 7 || pos+w > len(b) {
		return 0, false
	}
	v := 0
	for i := 0; i < w; i++ {
		v = v<<8 | int(b[pos+i])
	}
	return v, true
}

// walkBag20 reads the layout of a well-formed bag (header of any variant) without the library
func walkBag20(b []byte) (bag20, bool) {
	var g bag20
	if len(b) < 6 {
		return g, false
	}
	magic := binary.BigEndian.Uint32(b)
	var size int
	idx, lean := false, false
	switch magic {
	case 0xb5ee9c72:
		fb := b[4]
		size = int(fb & 7)
		idx = fb&128 != 0
		g.crc = fb&64 != 0
	case 0x68ff65f3:
		size, idx, lean = int(b[4]), true, true
	case 0xacc3a728:
		size, idx, lean, g.crc = int(b[4]), true, true, true
	default:
		return g, false
	}
	off := int(b[5])
	pos := 6
	n, ok1 := getBE20(b, pos, size)
	nroots, ok2 := getBE20(b, pos+size, size)
	total, ok3 := getBE20(b, pos+3*size, off)
	if !ok1 || !ok2 || !ok3 {
		return g, false
	}
	pos += 3*size + off
	// the library (and the reference serialiser of dag.go) keep the root list under the lean magics too
	_ = lean
	for i := 0; i < nroots; i++ {
		rt, ok := getBE20(b, pos, size)
		if !ok {
			return g, false
		}
		g.roots = append(g.roots, rt)
		pos += size
	}
	if idx {
		pos += n * off
	}
	start := pos
	for i := 0; i < n; i++ {
		if pos+2 > len(b) {
			return g, false
		}
		d1, d2 := b[pos], b[pos+1]
		s := spell20{d2Pos: pos + 1}
		pos += 2
		if d1&16 != 0 {
			slots := 1
			for m := d1 >> 5; m > 0; m >>= 1 {
				slots += int(m & 1)
			}
			pos += 34 * slots
		}
		s.dataPos, s.dataLen = pos, (int(d2)+1)/2
		pos += s.dataLen
		for k := 0; k < int(d1&7); k++ {
			ref, ok := getBE20(b, pos, size)
			if !ok {
				return g, false
			}
			s.refs = append(s.refs, ref)
			pos += size
		}
		g.cells = append(g.cells, s)
	}
	if pos-start != total || pos > len(b) {
		return g, false
	}
	g.endPos = pos
	return g, true
}

// spelledCanon20: the independent reading -- every cell with an odd d2 carries its
// completion tag in the seven low bits of its last data byte
func spelledCanon20(b []byte, g bag20) bool {
	for _, s := range g.cells {
		if b[s.d2Pos]%2 == 1 && (s.dataLen == 0 || b[s.dataPos+s.dataLen-1]&0x7f == 0) {
			return false
		}
	}
	return true
}

// sameSpelling20: the accepted value, walked along the references together with the
// document, holds in every cell the bits whose canonical spelling the document has
func sameSpelling20(b []byte, g bag20, root *boc.Cell) string {
	if len(g.roots) != 1 || g.roots[0] >= len(g.cells) {
		return "document without a single root accepted"
	}
	seen := map[int]*boc.Cell{}
	var walk func(i int, c *boc.Cell, depth int) string
	walk = func(i int, c *boc.Cell, depth int) string {
		if c == nil {
			return fmt.Sprintf("cell %d: nil", i)
		}
		if _, ok := seen[i]; ok || depth > 64 {
			return ""
		}
		seen[i] = c
		s := g.cells[i]
		bs := c.RawBitString()
		data, d2 := bitsToBytesTagged(bitsOf(&bs))
		if d2 != b[s.d2Pos] || hex.EncodeToString(data) != hex.EncodeToString(b[s.dataPos:s.dataPos+s.dataLen]) {
			return fmt.Sprintf("cell %d is spelled d2=%02x data=%x in the document, the accepted value has %d bits and re-encodes as d2=%02x data=%x", i, b[s.d2Pos], b[s.dataPos:s.dataPos+s.dataLen], c.BitSize(), d2, data)
		}
		refs := c.Refs()
		if len(refs) != len(s.refs) {
			return fmt.Sprintf("cell %d: %d references in the document, %d in the value", i, len(s.refs), len(refs))
		}
		for k, ref := range s.refs {
			if ref >= len(g.cells) {
				return fmt.Sprintf("cell %d: reference out of range accepted", i)
			}
			if m := walk(ref, refs[k], depth+1); m != "" {
				return m
			}
		}
		return ""
	}
	return walk(g.roots[0], root, 0)
}

var spellTargets20 = []string{"cell", "any", "maybe", "hex", "base64", "singleroot", "field-C", "field-A", "field-M", "field-P", "env-0", "env-1", "env-2", "env-3"}

// spellOutcome20: 'err | 'ok | (respelled <what>) for one target and one bag
func spellOutcome20(target string, b []byte) sx.V {
	g, wellFormed := walkBag20(b)
	h := hex.EncodeToString(b)
	doc := []byte("\"" + h + "\"")
	check := func(c *boc.Cell, err error) sx.V {
		if err != nil {
			return sx.A("err")
		}
		if !wellFormed {
			return sx.L(sx.A("respelled"), sx.Str("document the layout walker cannot read was accepted"))
		}
		if m := sameSpelling20(b, g, c); m != "" {
			return sx.L(sx.A("respelled"), sx.Str(m))
		}
		return sx.A("ok")
	}
	fromAny := func(v any, err error) sx.V {
		if err != nil {
			return sx.A("err")
		}
		switch x := v.(type) {
		case *boc.Cell:
			return check(x, nil)
		case boc.Cell:
			return check(&x, nil)
		case tlb.Any:
			return check((*boc.Cell)(&x), nil)
		case *tlb.Any:
			return check((*boc.Cell)(x), nil)
		}
		return sx.L(sx.A("respelled"), sx.Str(fmt.Sprintf("envelope value of type %T", v)))
	}
	one := func(cs []*boc.Cell, err error) sx.V {
		if err != nil {
			return sx.A("err")
		}
		if len(cs) != 1 {
			return sx.L(sx.A("respelled"), sx.Str(fmt.Sprintf("%d roots", len(cs))))
		}
		return check(cs[0], nil)
	}
	return watchdog20(func() sx.V {
		switch target {
		case "cell":
			var x boc.Cell
			err := json.Unmarshal(doc, &x)
			return check(&x, err)
		case "any":
			var x tlb.Any
			err := json.Unmarshal(doc, &x)
			return check((*boc.Cell)(&x), err)
		case "maybe":
			var x tlb.Maybe[tlb.Any]
			err := json.Unmarshal(doc, &x)
			if err == nil && !x.Exists {
				return sx.L(sx.A("respelled"), sx.Str("absent"))
			}
			return check((*boc.Cell)(&x.Value), err)
		case "hex":
			return one(boc.DeserializeBocHex(h))
		case "base64":
			return one(boc.DeserializeBocBase64(base64.StdEncoding.EncodeToString(b)))
		case "singleroot":
			c, err := boc.DeserializeSinglRootHex(h)
			return check(c, err)
		case "env-0":
			var x abi.InMsgBody
			err := json.Unmarshal([]byte(fmt.Sprintf(envelopeDocs20[0], h)), &x)
			return fromAny(x.Value, err)
		case "env-1":
			var x abi.ExtOutMsgBody
			err := json.Unmarshal([]byte(fmt.Sprintf(envelopeDocs20[0], h)), &x)
			return fromAny(x.Value, err)
		case "env-2":
			var x abi.JettonPayload
			err := json.Unmarshal([]byte(fmt.Sprintf(envelopeDocs20[1], h)), &x)
			return fromAny(x.Value, err)
		case "env-3":
			var x abi.NFTPayload
			err := json.Unmarshal([]byte(fmt.Sprintf(envelopeDocs20[1], h)), &x)
			return fromAny(x.Value, err)
		}
		if strings.HasPrefix(target, "field-") {
			var hd cellHolder20
			err := json.Unmarshal([]byte("{\""+target[6:]+"\":"+string(doc)+"}"), &hd)
			if err != nil {
				return sx.A("err")
			}
			switch target[6:] {
			case "C":
				return check(&hd.C, nil)
			case "A":
				return check((*boc.Cell)(&hd.A), nil)
			case "M":
				if !hd.M.Exists {
					return sx.L(sx.A("respelled"), sx.Str("absent"))
				}
				return check((*boc.Cell)(&hd.M.Value), nil)
			default:
				return check(hd.P, nil)
			}
		}
		return sx.L(sx.A("harness-error"), sx.A("target"))
	})
}

func init() {
	// replay entry (oracle only): (target-atom bag-bytes) -> 'err | 'ok | (respelled what) | 'panic | 'timeout
	execs["c20.spelling"] = func(in sx.V) sx.V { return spellOutcome20(in.List[0].Atom, in.List[1].Bytes) }
}

// spellDoc20: one bag through the model-compared forms and the spelling oracle on every target
func spellDoc20(c *Ctx, b []byte, class string) {
	if tooManyHangs20() {
		return
	}
	cutDoc20(c, b, class, true)
	g, ok := walkBag20(b)
	if !ok {
		panic("c20: layout walker failed on a derived document")
	}
	canon := spelledCanon20(b, g)
	for _, target := range spellTargets20 {
		in := sx.L(sx.A(target), sx.Bytes(b))
		res := spellOutcome20(target, b)
		fam := "cell"
		if strings.HasPrefix(target, "env-") {
			fam = "envelope"
		}
		switch {
		case hang20(c, "c20.spelling", in, fam, res):
			return
		case res.IsA("panic"):
			c.Fail("c20.spelling", in, "panic-"+fam, "decoding a re-spelled cell document panicked")
		case res.IsA("err") && canon:
			c.Fail("c20.spelling", in, "canonical-rejected-"+fam, "a cell document in which every cell is spelled canonically is rejected")
		case res.IsA("ok") && !canon:
			c.Fail("c20.spelling", in, "noncanonical-accepted-"+fam, "a cell document with a completion tag outside the seven low bits of the last data byte is accepted")
		case !res.IsA("ok") && !res.IsA("err"):
			c.Fail("c20.spelling", in, "noncanonical-accepted-"+fam, "accepted as a value the document does not spell: "+res.String())
		}
	}
}

// respell20: the documents derived from one genuine bag by rewriting the spelling of cell i
func respell20(b []byte, g bag20, i int) [][]byte {
	s := g.cells[i]
	var out [][]byte
	mk := func(d2 int, last int) {
		if d2 < 0 || d2 > 255 {
			return
		}
		m := append([]byte{}, b...)
		m[s.d2Pos] = byte(d2)
		if last >= 0 && s.dataLen > 0 {
			m[s.dataPos+s.dataLen-1] = byte(last)
		}
		out = append(out, m)
	}
	d2 := int(b[s.d2Pos])
	if s.dataLen == 0 {
		return nil
	}
	last := int(b[s.dataPos+s.dataLen-1])
	if d2%2 == 1 {
		mk(d2, 0x80)           // overlong form of the aligned string
		mk(d2, 0x00)           // no completion bit at all
		mk(d2, last&(last-1))  // the tag bit cleared: the tag moves to an earlier 1, or is missing
		mk(d2, 0x01)           // seven data bits
		mk(d2, 0x40|last&0x80) // one data bit
		mk(d2, last|0x80)
		mk(d2+1, -1) // the same bytes as an aligned cell
		mk(d2+1, 0x80)
	} else {
		mk(d2-1, -1) // the same bytes with the last one declared not full
		mk(d2-1, 0x80)
		mk(d2-1, 0x00)
		mk(d2-1, 0x01)
		mk(d2-1, 0xc0)
		mk(d2, 0x80)
	}
	return out
}

func fixCrc20(b []byte, g bag20) {
	if g.crc && g.endPos+4 == len(b) {
		binary.LittleEndian.PutUint32(b[g.endPos:], crc32.Checksum(b[:g.endPos], crc32.MakeTable(crc32.Castagnoli)))
	}
}

// spellBits20: nb full bytes then rem bits; style selects the last byte (aligned) or the remainder
func spellBits20(r *prng.R, nb, rem, style int) string {
	bits := randBits(r, 8*nb)
	if rem == 0 && nb > 0 {
		tail := [][]byte{{0x80}, {0x00}, {0x01}, r.Bytes(1)}[style%4]
		bits = bits[:8*nb-8] + hexBits(tail)
	}
	switch style % 3 {
	case 0:
		bits += strings.Repeat("0", rem)
	case 1:
		bits += strings.Repeat("1", rem)
	default:
		bits += randBits(r, rem)
		if rem > 0 && r.Bool() {
			bits = bits[:len(bits)-1] + "0"
		}
	}
	return bits
}

func genC20Spellings(c *Ctx) {
	r := c.R
	variants := []HeaderVariant{{}, {Idx: true}, {Crc: true}, {Idx: true, Crc: true}, {Idx: true, Cache: true}, {Magic: 1}, {Magic: 2}, {SizeExtra: 1}, {OffExtra: 1}, {Idx: true, SizeExtra: 1}, {SizeExtra: 1, OffExtra: 2, Crc: true}, {WithHashes: true}, {Idx: true, WithHashes: true}}
	vi := 0
	derive := func(dag []Node, own bool, name string, every bool) {
		var b []byte
		if own {
			b = dagBoc20(dag)
		} else {
			b = refSerialize(dag, []int{0}, variants[vi%len(variants)], r)
			vi++
		}
		g, ok := walkBag20(b)
		if !ok || len(g.cells) != len(dag) || !spelledCanon20(b, g) {
			panic(fmt.Sprintf("c20: layout walker failed on a genuine document %x ok=%v cells=%d", b, ok, len(g.cells)))
		}
		spellDoc20(c, b, "cell|spelling|"+name+"|genuine")
		for i := range g.cells {
			if !every && i != 0 && i != len(g.cells)-1 && r.Chance(50) {
				continue
			}
			ds := respell20(b, g, i)
			for k, m := range ds {
				if !every && len(dag) > 1 && k >= 2 && r.Chance(60) {
					continue
				}
				fixCrc20(m, g)
				g2, _ := walkBag20(m)
				cls := "noncanonical"
				if spelledCanon20(m, g2) {
					cls = "canonical"
				}
				spellDoc20(c, m, "cell|spelling|"+name+"|"+cls)
			}
		}
		// every non-aligned cell at once
		if len(dag) > 1 {
			m := append([]byte{}, b...)
			for _, s := range g.cells {
				if m[s.d2Pos]%2 == 1 {
					m[s.dataPos+s.dataLen-1] = 0x80
				}
			}
			fixCrc20(m, g)
			spellDoc20(c, m, "cell|spelling|"+name+"|noncanonical")
		}
	}
	// ---- single cells: every remainder x short / long data x tail style
	longs := []int{127}
	if c.Thorough() {
		longs = []int{31, 32, 126, 127}
	}
	for rem := 0; rem < 8; rem++ {
		for _, nb := range []int{0, 1, 2} {
			if rem == 0 && nb == 0 {
				continue
			}
			styles := 3
			if rem == 0 {
				styles = 4
			}
			for st := 0; st < styles; st++ {
				if !c.Thorough() && nb == 2 && st != (rem+1)%styles {
					continue
				}
				derive([]Node{{Bits: spellBits20(r, nb, rem, st)}}, (rem+nb+st)%4 == 0, "single", true)
			}
		}
		for _, nb := range longs {
			derive([]Node{{Bits: spellBits20(r, nb, rem, rem%4)}}, rem%3 == 0, "single-long", true)
		}
	}
	derive([]Node{{Bits: ""}}, false, "single", true)
	// ---- several cells: the rewritten cell is the root, an inner cell, a leaf; shared subtrees
	for i := 0; i < c.Scale(5, 40); i++ {
		n := 2 + r.Intn(4)
		dag := make([]Node, n)
		for k := 0; k < n; k++ {
			nb := r.Intn(4)
			rem := r.Intn(8)
			if rem == 0 && nb == 0 {
				nb = 1
			}
			// pairwise distinct cells: the index in front
			nd := Node{Bits: hexBits([]byte{byte(k)}) + spellBits20(r, nb, rem, r.Intn(12))}
			if k < n-1 {
				nd.Refs = append(nd.Refs, k+1)
				for x := r.Intn(3); x > 0; x-- {
					nd.Refs = append(nd.Refs, k+1+r.Intn(n-1-k))
				}
			}
			dag[k] = nd
		}
		derive(dag, i%3 == 2, "dag", false)
	}
}
