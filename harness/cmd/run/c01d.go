package main

import (
	"bytes"
	"fmt"
	"runtime"
	"sync"
	"sync/atomic"

	"github.com/tonkeeper/tongo/boc"

	"verifharness/prng"
	"verifharness/sx"
)

// C01, several goroutines.  Nothing in the property depends on what other
// goroutines do with OTHER cells: N goroutines each hash / serialise (all
// eight option combinations, through ToBoc / ToBocCustom / SerializeBoc) /
// parse their own DAG for a bounded number of rounds, and every result is
// compared with the result of the same operation computed before, one
// goroutine at a time.  Mode 1: the goroutines share ONE read-only DAG and
// only call what takes no read cursor (Hash, ToBoc*, SerializeBoc): boc
// documents no concurrency contract, so the harness stays inside the usual Go
// rule that concurrent readers are fine (read cursors — ReadUint, NextRef —
// are mutable state inside a cell and are never used on a shared cell).
//
// c01.conc: (mode N rounds idx crc cache (dag ...)) ->
//   (((hash (bytes cert)) per dag) verdict), verdict 'same |
//   ('diff what goroutine round): the first difference stops all goroutines.
// The sequential part (hash, bytes with the given options, certificate) is
// compared with the extracted model; the model's verdict is always 'same.

type c01ConcRef struct {
	hash  []byte
	bocs  [8][]byte
	errs  [8]bool
	hashE bool
}

func c01ConcSeq(root *boc.Cell) (ref c01ConcRef) {
	h, err := root.Hash()
	ref.hash, ref.hashE = h, err != nil
	for o := 0; o < 8; o++ {
		b, err := root.ToBocCustom(o&1 != 0, o&2 != 0, o&4 != 0, 0)
		ref.bocs[o], ref.errs[o] = b, err != nil
	}
	return ref
}

func execC01Conc(in sx.V) sx.V {
	if in.K != sx.KL || len(in.List) != 7 {
		return sx.A("err")
	}
	mode, n, rounds := in.List[0].I(), in.List[1].I(), in.List[2].I()
	idx, crc, cache := in.List[3].Bool, in.List[4].Bool, in.List[5].Bool
	if n < 1 || n > 16 || rounds < 0 || rounds > 1000000 {
		return sx.A("err")
	}
	var dags [][]Node
	for _, d := range in.List[6].List {
		dags = append(dags, dagFromSx(d))
	}
	if len(dags) == 0 || (mode == 0 && len(dags) != n) {
		return sx.A("err")
	}
	// sequential reference, one DAG after the other
	roots := make([]*boc.Cell, len(dags))
	refs := make([]c01ConcRef, len(dags))
	var seq []sx.V
	for i, d := range dags {
		cells, err := buildGo(d)
		if err != nil {
			return sx.A("err")
		}
		roots[i] = cells[0]
		refs[i] = c01ConcSeq(roots[i])
		o := 0
		if idx {
			o |= 1
		}
		if crc {
			o |= 2
		}
		if cache {
			o |= 4
		}
		hv := sx.A("err")
		if !refs[i].hashE {
			hv = sx.Bytes(refs[i].hash)
		}
		bv := sx.A("err")
		if !refs[i].errs[o] {
			cert := false
			back, err := boc.DeserializeBoc(refs[i].bocs[o])
			if err == nil && len(back) == 1 {
				h1, e1 := back[0].Hash()
				cert = !refs[i].hashE && e1 == nil && bytes.Equal(refs[i].hash, h1) && sameStructure(roots[i], back[0], map[[2]*boc.Cell]bool{})
			}
			bv = sx.L(sx.Bytes(refs[i].bocs[o]), sx.B(cert))
		}
		seq = append(seq, sx.L(hv, bv))
	}
	// concurrent part
	if old := runtime.GOMAXPROCS(0); old < 4 {
		runtime.GOMAXPROCS(4)
		defer runtime.GOMAXPROCS(old)
	}
	var stop int32
	var mu sync.Mutex
	verdict := sx.A("same")
	report := func(what string, g, round int) {
		mu.Lock()
		if atomic.LoadInt32(&stop) == 0 {
			verdict = sx.L(sx.A("diff"), sx.A(what), sx.Nat(g), sx.Nat(round))
			atomic.StoreInt32(&stop, 1)
		}
		mu.Unlock()
	}
	var firstPanic []int
	var wg sync.WaitGroup
	start := make(chan struct{})
	for g := 0; g < n; g++ {
		wg.Add(1)
		go func(g int) {
			defer wg.Done()
			k := 0
			if mode == 0 {
				k = g
			}
			ref := refs[k]
			// own mode: the goroutine's own, freshly built cells (nothing shared)
			root := roots[k]
			if mode == 0 {
				cells, err := buildGo(dags[k])
				if err != nil {
					report("build", g, 0)
					return
				}
				root = cells[0]
			}
			<-start
			for round := 0; round < rounds && atomic.LoadInt32(&stop) == 0; round++ {
				func() {
					defer func() {
						if r := recover(); r != nil {
							// remembered; the goroutines go on, looking for a
							// silent difference (reported in preference)
							mu.Lock()
							if firstPanic == nil {
								firstPanic = []int{g, round}
							}
							mu.Unlock()
						}
					}()
					h, err := root.Hash()
					if (err != nil) != ref.hashE || (err == nil && !bytes.Equal(h, ref.hash)) {
						report("hash", g, round)
						return
					}
					o := (round + g) % 8
					var b []byte
					switch {
					case o == 0 && round%2 == 0:
						b, err = root.ToBoc()
					case round%3 == 0:
						b, err = boc.SerializeBoc(root, o&1 != 0, o&2 != 0, o&4 != 0, 0)
					default:
						b, err = root.ToBocCustom(o&1 != 0, o&2 != 0, o&4 != 0, 0)
					}
					if (err != nil) != ref.errs[o] || (err == nil && !bytes.Equal(b, ref.bocs[o])) {
						report("bytes", g, round)
						return
					}
					if !ref.errs[o] {
						back, err := boc.DeserializeBoc(ref.bocs[o])
						if err != nil || len(back) != 1 {
							report("parse", g, round)
							return
						}
						h1, err := back[0].Hash()
						if ref.hashE || err != nil || !bytes.Equal(h1, ref.hash) || !sameStructure(root, back[0], map[[2]*boc.Cell]bool{}) {
							report("parse", g, round)
						}
					}
				}()
			}
		}(g)
	}
	close(start)
	wg.Wait()
	if verdict.IsA("same") && firstPanic != nil {
		verdict = sx.L(sx.A("diff"), sx.A("panic"), sx.Nat(firstPanic[0]), sx.Nat(firstPanic[1]))
	}
	return sx.L(sx.L(seq...), verdict)
}

// a small DAG with two separately built, structurally equal leaves (stored
// once as long as their hashes are right)
func c01ConcDag(r *prng.R) []Node {
	n := 2 + r.Intn(14)
	var dag []Node
	if r.Chance(25) {
		dag = exoticDag(r, n)
	} else {
		dag = randDag(r, n)
	}
	twin := dag[len(dag)-1]
	twin.Refs = nil
	dag = append(dag, twin)
	for i := 0; i < len(dag)-1; i++ {
		if len(dag[i].Refs) < 4 && !dag[i].Special {
			dag[i].Refs = append(dag[i].Refs, len(dag)-1)
			dag[i].Mask |= twin.Mask
			break
		}
	}
	return dag
}

func genC01Conc(c *Ctx, r *prng.R) {
	cases := c.Scale(10, 60)
	rounds := c.Scale(400, 1500)
	for i := 0; i < cases; i++ {
		mode := 0
		if i%4 == 3 {
			mode = 1
		}
		n := 2 + r.Intn(7)
		if i < 2 {
			n = 2 + 6*i // 2 and 8 always
		}
		nd := n
		if mode == 1 {
			nd = 1
		}
		var ds []sx.V
		for k := 0; k < nd; k++ {
			ds = append(ds, dagSx(c01ConcDag(r)))
		}
		o := r.Intn(8)
		in := sx.L(sx.Nat(mode), sx.Nat(n), sx.Nat(rounds), sx.B(o&1 != 0), sx.B(o&2 != 0), sx.B(o&4 != 0), sx.L(ds...))
		m := "own"
		if mode == 1 {
			m = "shared"
		}
		out := c.EmitGuarded("c01.conc", in, fmt.Sprintf("conc|%s|g%d", m, n))
		switch {
		case c01IsAtom(out, "crash", "timeout", "panic"):
			c.Fail("c01.conc", in, "conc-crash", fmt.Sprintf("%d goroutines working on %s cell DAGs: the process %s", n, m, out.String()))
		case out.K == sx.KL && len(out.List) == 2 && out.List[1].K == sx.KL && len(out.List[1].List) == 4:
			v := out.List[1].List
			what, g, round := v[1].Atom, v[2].I(), v[3].I()
			key, text := "conc-hash", "Cell.Hash differs from the hash computed sequentially for the same cells"
			switch what {
			case "bytes":
				key, text = "conc-bytes", "the serialisation differs from the bytes computed sequentially for the same cells and options"
			case "parse":
				key, text = "conc-parse", "parsing the sequentially computed bytes gives a root with another hash / structure"
			case "panic", "build":
				key, text = "conc-crash", "panic inside the goroutine"
			}
			c.Fail("c01.conc", in, key, fmt.Sprintf("%d goroutines on %s DAGs, goroutine %d, round %d: %s", n, m, g, round, text))
		case out.K == sx.KL && len(out.List) == 2 && out.List[1].IsA("same"):
			for _, e := range out.List[0].List {
				if e.K == sx.KL && len(e.List) == 2 && e.List[1].K == sx.KL && len(e.List[1].List) == 2 && !e.List[1].List[1].Bool {
					c.Fail("c01.conc", in, "roundtrip", "own output does not parse back to a structurally identical root with the same hash")
				}
			}
		default:
			c.Fail("c01.conc", in, "conc-crash", "the case was not executed: "+trunc(out.String(), 80))
		}
	}
}
