package main

import (
	"bytes"
	"fmt"

	"github.com/tonkeeper/tongo/boc"

	"verifharness/prng"
	"verifharness/sx"
)

func init() {
	execs["c02.hashes"] = execC02Hashes
	gens["C02"] = genC02
}

func dagFromSx(v sx.V) []Node {
	var dag []Node
	for _, n := range v.List {
		nd := Node{Special: n.List[0].Bool, Mask: uint8(n.List[1].U64()), Bits: n.List[2].Bits}
		for _, r := range n.List[3].List {
			nd.Refs = append(nd.Refs, r.I())
		}
		dag = append(dag, nd)
	}
	return dag
}

func levelInfo(c *boc.Cell, l int) (out sx.V) {
	defer func() {
		if r := recover(); r != nil {
			out = sx.L(sx.A("panic"), sx.A("panic"))
		}
	}()
	h, d, err := boc.VerifLevelHash(c, l)
	if err != nil {
		return sx.L(sx.A("err"), sx.A("err"))
	}
	return sx.L(sx.Bytes(h), sx.Nat(d))
}

func execC02Hashes(in sx.V) sx.V {
	dag := dagFromSx(in.List[0])
	root := in.List[1].I()
	cells, err := buildGo(dag)
	if err != nil {
		return sx.A("err")
	}
	c := cells[root]
	return sx.L(levelInfo(c, 0), levelInfo(c, 1), levelInfo(c, 2), levelInfo(c, 3), sx.Nat(c.Level()))
}

func byteBits(b ...byte) string { return hexBits(b) }

func popcount8(m uint8) int {
	n := 0
	for ; m > 0; m >>= 1 {
		n += int(m & 1)
	}
	return n
}

// exoticDag builds a DAG (BOC order) that satisfies the exotic-cell rules a
// validating node requires: pruned branch = 01 | mask | hashes | depths, no
// refs, mask >= 1; library = 02 | 32 bytes, no refs; Merkle proof = 03 | hash |
// depth with one ref and mask = child mask >> 1; Merkle update = 04 | 2 hashes
// | 2 depths with two refs and mask = (m1|m2) >> 1; ordinary: mask = OR of the
// children's masks.
func exoticDag(r *prng.R, n int) []Node {
	dag := make([]Node, n)
	for i := n - 1; i >= 0; i-- {
		avail := n - 1 - i
		kind := r.Intn(10)
		pick := func() int {
			if r.Chance(60) {
				return i + 1 + r.Intn(minInt(avail, 4))
			}
			return i + 1 + r.Intn(avail)
		}
		switch {
		case kind == 0 || (avail == 0 && kind < 4): // pruned branch
			m := uint8(1 + r.Intn(7))
			k := popcount8(m)
			data := []byte{1, m}
			data = append(data, r.Bytes(32*k)...)
			for j := 0; j < k; j++ {
				d := r.Intn(1000)
				if r.Chance(3) { // a stored depth at the limit, at any level
					d = nearLimit(r)
				}
				data = append(data, byte(d>>8), byte(d))
			}
			dag[i] = Node{Special: true, Mask: m, Bits: byteBits(data...)}
		case kind == 1: // library
			dag[i] = Node{Special: true, Mask: 0, Bits: byteBits(append([]byte{2}, r.Bytes(32)...)...)}
		case kind == 2 && avail >= 1: // merkle proof
			ch := pick()
			d := r.Intn(1000)
			data := append([]byte{3}, r.Bytes(32)...)
			data = append(data, byte(d>>8), byte(d))
			dag[i] = Node{Special: true, Mask: dag[ch].Mask >> 1, Bits: byteBits(data...), Refs: []int{ch}}
		case kind == 3 && avail >= 1: // merkle update
			a, b := pick(), pick()
			data := append([]byte{4}, r.Bytes(64)...)
			data = append(data, r.Bytes(4)...)
			dag[i] = Node{Special: true, Mask: (dag[a].Mask | dag[b].Mask) >> 1, Bits: byteBits(data...), Refs: []int{a, b}}
		default: // ordinary
			nd := Node{}
			bl := r.Intn(64)
			if r.Chance(20) {
				bl = r.Intn(1024)
			}
			nd.Bits = randBits(r, bl)
			if avail > 0 {
				k := r.Intn(5)
				for j := 0; j < k; j++ {
					ch := pick()
					nd.Refs = append(nd.Refs, ch)
					nd.Mask |= dag[ch].Mask
				}
			}
			dag[i] = nd
		}
	}
	return dag
}

func genC02(c *Ctx) {
	r := c.R
	// histories on one caching hasher over chains at the depth limit (c02b.go)
	genC02Chains(c)
	genC02OneShot(c) // one-shot entry points, writes, failing calls (c02_r8.go)
	genC02SourceIntact(c) // proof-building steps leave their source tree as it was (c02_r8b.go)
	n := c.Scale(700, 12000)
	for i := 0; i < n; i++ {
		size := 1 + r.Intn(14)
		if i%10 == 0 {
			size = 20 + r.Intn(30)
		}
		var dag []Node
		fam := "exotic"
		if i%4 == 3 {
			dag = randDag(r, size)
			fam = "ordinary"
		} else {
			dag = exoticDag(r, size)
		}
		root := 0
		if r.Chance(30) {
			root = r.Intn(size)
		}
		in := sx.L(dagSx(dag), sx.Nat(root))
		rt := dag[root]
		ty := "ord"
		if rt.Special {
			ty = "t" + rt.Bits[6:8]
		}
		out := c.Emit("c02.hashes", in, fmt.Sprintf("%s|root-%s|mask%d", fam, ty, rt.Mask))
		c02Oracle(c, in, dag, root, out)
		// origin "parsed from a bag of cells": every header variant of the
		// reference serialiser incl. stored hashes, every cell a root (c02b.go)
		c02ParsedOrigin(c, in, dag, root, i%7 == 0)
		// origin "decoded from JSON" (fresh and used receivers) and every
		// Deserialize* entry point / hash accessor (c02c.go)
		c02DepthOracle(c, in, dag, root, out)
		c02JsonOrigin(c, dag, root, out, i%9 == 0)
		c02EntryPoints(c, in, dag, root, out)
	}
	// the root cell of every real block in testdata (Merkle updates with pruned
	// branches inside): origin "parsed from a bag of cells"
	files := []string{"tlb/testdata/block-4/block.bin", "tlb/testdata/block-5/block.bin"}
	if c.Thorough() {
		files = append(files, "tlb/testdata/block-1/block.bin", "tlb/testdata/block-2/block.bin", "tlb/testdata/block-3/block.bin")
	}
	for _, f := range files {
		if b := repoFile(f); b != nil {
			c.Emit("c07.parse", sx.Bytes(b), "real-block")
		}
	}
	// nested Merkle cells: non-contiguous masks 2, 4, 5, 6 at every kind of
	// position, parsed from bags with and without stored hashes
	for i := 0; i < c.Scale(60, 2000); i++ {
		dag := nestedMerkleDag(r)
		in := sx.L(dagSx(dag), sx.Nat(0))
		if i%3 == 0 {
			c.Emit("c02.hashes", in, fmt.Sprintf("nested-merkle|root-mask%d", dag[0].Mask))
		}
		c02ParsedOrigin(c, in, dag, 0, i%2 == 0)
	}
	// cells of non-zero level whose stored depths differ per level (c02c.go)
	genC02LevelDepths(c)
	// cells built from BitStrings returned by the BitString-producing APIs (c02c.go)
	genC02FromBits(c)
	// goroutines hashing unrelated cells (c02b.go)
	genC02Conc(c)
	// histories of requests on one caching hasher (c02b.go)
	genC02Histories(c)
	// cells produced by the library's proof builder (c02b.go)
	genC02Builders(c)
}

// oracle on the implementation: the reported hash does not depend on the
// caching hasher, on what has been read, or on how the cell was obtained
func c02Oracle(c *Ctx, in sx.V, dag []Node, root int, out sx.V) {
	defer func() { _ = recover() }()
	cells, err := buildGo(dag)
	if err != nil {
		return
	}
	cell := cells[root]
	h0, err := cell.Hash()
	if err != nil {
		return
	}
	if out.K == sx.KL && len(out.List) == 5 && out.List[3].K == sx.KL && out.List[3].List[0].K == sx.KBytes {
		if !bytes.Equal(out.List[3].List[0].Bytes, h0) {
			c.Fail("c02.hashes", in, "hash-vs-level3", "Cell.Hash differs from the level-3 hash")
		}
	}
	hs := boc.NewHasher()
	h1, err := hs.Hash(cell)
	if err != nil || !bytes.Equal(h0, h1) {
		c.Fail("c02.hashes", in, "cached-hasher", "caching hasher gives a different hash")
	}
	h1b, _ := hs.Hash(cell)
	if !bytes.Equal(h0, h1b) {
		c.Fail("c02.hashes", in, "cached-hasher-2", "second call of the caching hasher differs")
	}
	// read something, then hash again
	_, _ = cell.ReadUint(minInt(cell.BitsAvailableForRead(), 13))
	_, _ = cell.NextRef()
	h2, err := cell.Hash()
	if err != nil || !bytes.Equal(h0, h2) {
		c.Fail("c02.hashes", in, "after-read", "hash changed after reading from the cell")
	}
	// obtained by parsing a bag of cells written by the reference serialiser
	// (reachable part only: re-index from the root)
	sub, idx := reachable(dag, root)
	b := refSerialize(sub, []int{idx}, HeaderVariant{Idx: true, Crc: true}, c.R)
	parsed, err := boc.DeserializeBoc(b)
	if err != nil || len(parsed) != 1 {
		c.Fail("c02.hashes", in, "origin-parse", "reference-serialised BOC of the DAG does not parse")
		return
	}
	h3, err := parsed[0].Hash()
	if err != nil || !bytes.Equal(h0, h3) {
		c.Fail("c02.hashes", in, "origin-parsed", "cell parsed from a bag of cells hashes differently from the cell built in memory")
	}
	// different pointer sharing, same structure: rebuild as a tree without sharing
	if len(sub) <= 12 {
		t := buildTree(sub, idx, 0)
		if t != nil {
			h4, err := t.Hash()
			if err != nil || !bytes.Equal(h0, h4) {
				c.Fail("c02.hashes", in, "origin-unshared", "same structure built without sharing hashes differently")
			}
		}
	}
}

// reachable returns the sub-DAG reachable from root (BOC order kept) and the new root index.
func reachable(dag []Node, root int) ([]Node, int) {
	mark := make([]bool, len(dag))
	var walk func(i int)
	walk = func(i int) {
		if mark[i] {
			return
		}
		mark[i] = true
		for _, r := range dag[i].Refs {
			walk(r)
		}
	}
	walk(root)
	newIdx := make([]int, len(dag))
	var sub []Node
	for i, m := range mark {
		if m {
			newIdx[i] = len(sub)
			sub = append(sub, dag[i])
		}
	}
	for i := range sub {
		refs := make([]int, len(sub[i].Refs))
		for j, r := range sub[i].Refs {
			refs[j] = newIdx[r]
		}
		sub[i].Refs = refs
	}
	return sub, newIdx[root]
}

func buildTree(dag []Node, i int, depth int) *boc.Cell {
	if depth > 12 {
		return nil
	}
	n := dag[i]
	c := boc.NewCell()
	for _, ch := range n.Bits {
		_ = c.WriteBit(ch == '1')
	}
	ty := 0
	if n.Special {
		for j := 0; j < 8 && j < len(n.Bits); j++ {
			ty = ty*2 + int(n.Bits[j]-'0')
		}
	}
	boc.VerifSetTypeMask(c, boc.CellType(ty), uint32(n.Mask))
	for _, r := range n.Refs {
		ch := buildTree(dag, r, depth+1)
		if ch == nil {
			return nil
		}
		_ = c.AddRef(ch)
	}
	return c
}
