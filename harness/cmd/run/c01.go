package main

import (
	"bytes"
	"fmt"
	"time"

	"github.com/tonkeeper/tongo/boc"

	"verifharness/prng"
	"verifharness/sx"
)

func init() {
	execs["c01.ser"] = execC01Ser
	execs["c01.hist"] = execC01Hist
	execs["c01.conc"] = execC01Conc
	gens["C01"] = genC01
}

// structural identity of two cell trees (memoised on pointer pairs)
func sameStructure(a, b *boc.Cell, memo map[[2]*boc.Cell]bool) bool {
	k := [2]*boc.Cell{a, b}
	if v, ok := memo[k]; ok {
		return v
	}
	memo[k] = true
	ok := a.BitSize() == b.BitSize() && a.CellType() == b.CellType() && a.RefsSize() == b.RefsSize() &&
		boc.VerifMask(a) == boc.VerifMask(b)
	if ok {
		ba, bb := a.RawBitString(), b.RawBitString()
		ok = bitsOf(&ba) == bitsOf(&bb)
	}
	if ok {
		ra, rb := a.Refs(), b.Refs()
		for i := range ra {
			if !sameStructure(ra[i], rb[i], memo) {
				ok = false
				break
			}
		}
	}
	memo[k] = ok
	return ok
}

func countCells(c *boc.Cell, seen map[*boc.Cell]bool) {
	if seen[c] {
		return
	}
	seen[c] = true
	for _, r := range c.Refs() {
		countCells(r, seen)
	}
}

// c01.ser: (dag root idx crc cache) -> (bytes cert); cert is the
// implementation-side round-trip check: own output parses to one root that is
// structurally identical to the input and has the same hash
func execC01Ser(in sx.V) sx.V {
	dag := dagFromSx(in.List[0])
	root := in.List[1].I()
	cells, err := buildGo(dag)
	if err != nil {
		return sx.A("err")
	}
	c := cells[root]
	out, err := c.ToBocCustom(in.List[2].Bool, in.List[3].Bool, in.List[4].Bool, 0)
	if err != nil {
		return sx.A("err")
	}
	cert := false
	back, err := boc.DeserializeBoc(out)
	if err == nil && len(back) == 1 {
		h0, e0 := c.Hash()
		h1, e1 := back[0].Hash()
		cert = e0 == nil && e1 == nil && bytes.Equal(h0, h1) && sameStructure(c, back[0], map[[2]*boc.Cell]bool{})
	}
	return sx.L(sx.Bytes(out), sx.B(cert))
}

func genC01(c *Ctx) {
	r := c.R
	// first (so that the first input reported as hanging is a small one): DAGs
	// whose number of root-to-leaf paths is exponential in the number of cells,
	// shared cells that have children (index / cache bits): c01b.go
	// (histories, cheap for the extracted model, are interleaved with them and
	// with the big single cases below: c01c.go)
	hist := newC01HistGen(c, r.Fork(0xc01b))
	genC01Sharing(c, r.Fork(0xc01a), func(cells int) { hist.next(1 + cells/30) })
	// bundles of differently pruned copies of one tree (what the
	// de-duplication key must identify): c01e.go
	genC01Views(c, r.Fork(0xc01f), func(cells int) { hist.next(1) })
	// big single cases, run one at a time between the random DAGs
	var big []func()
	n := c.Scale(110, 3000)
	step := 0
	for i := 0; i < n; i++ {
		if i == 0 {
			big = append(c01BigCases(c, r.Fork(0xc01d)), c01ExactBytes(c)...)
			// densely filled cells (output capacity): c01e.go
			dense := c01DenseClosures(c, r.Fork(0xc01e))
			var mix []func()
			for len(big) > 0 || len(dense) > 0 {
				if len(dense) > 0 {
					mix, dense = append(mix, dense[0]), dense[1:]
				}
				if len(dense) > 0 {
					mix, dense = append(mix, dense[0]), dense[1:]
				}
				if len(big) > 0 {
					mix, big = append(mix, big[0]), big[1:]
				}
			}
			big = mix
			step = n/(len(big)+1) + 1
		}
		if i%step == step-1 && len(big) > 0 {
			big[0]()
			big = big[1:]
			hist.next(2)
		}
		size := 1 + r.Intn(16)
		switch {
		case i%9 == 0:
			size = 40 + r.Intn(80)
		case i%31 == 0 && (c.Thorough() || i <= 62):
			size = 255 + r.Intn(6) // crosses the one-byte cell index
		}
		var dag []Node
		fam := "ordinary"
		if i%3 == 2 {
			dag = exoticDag(r, size)
			fam = "exotic"
		} else {
			dag = randDag(r, size)
		}
		opts := []int{r.Intn(8)}
		if i%5 == 0 || c.Thorough() {
			opts = []int{0, 1, 2, 3, 4, 5, 6, 7}
			if !c.Thorough() && size >= 40 {
				// quick tier: the extracted model hashes every cell twice
				// (~10 ms per cell): two combinations for the larger DAGs
				opts = []int{r.Intn(8), 5 + 2*r.Intn(2)}
			}
		}
		for _, o := range opts {
			in, out, fast := c01EmitSer(c, dag, o, fmt.Sprintf("%s|opt%d|n%d", fam, o, bucket(size)))
			if fast && o == opts[0] {
				c01Oracles(c, in, dag, out)
			}
		}
	}
	for _, f := range big {
		f()
	}
	hist.rest()
	// foreign bags of cells with every legal header width: c01f.go
	genC01Widths(c, r.Fork(0xc020))
	// several goroutines, each on its own cells (or reading one shared DAG): c01d.go
	genC01Conc(c, r.Fork(0xc01c))
	if c01st.skipped > 0 {
		c.Fail("c01.ser", sx.Nat(c01st.skipped), "ser-timeout-skipped",
			fmt.Sprintf("%d further inputs with an unfolded tree of at least %d cells were not run after %d serialisations had hung", c01st.skipped, c01st.skipFrom, c01st.hangs))
	}
}

// c01BigCases returns the single big cases as closures (each emits one case).
func c01BigCases(c *Ctx, r *prng.R) []func() {
	var out []func()
	// exactly n distinct cells around the widths of the cell counter / reference
	// size (every cell carries its own index, so nothing is de-duplicated)
	for _, cnt := range []int{254, 255, 256, 257} {
		for _, shape := range []string{"fan", "chainfan"} {
			dag := exactDag(cnt, shape)
			opts := []int{0, 7, r.Intn(8)}
			if !c.Thorough() {
				// quick tier (about 2 s of model time per case): 256 as a fan
				// with two combinations, 255 and 257 with one
				switch {
				case cnt == 256 && shape == "fan":
					opts = []int{0, 7}
				case (cnt == 255 && shape == "chainfan") || (cnt == 257 && shape == "fan"):
					opts = opts[2:]
				default:
					opts = nil
				}
			}
			for _, o := range opts {
				cnt, shape, o := cnt, shape, o
				out = append(out, func() { c01EmitSer(c, dag, o, fmt.Sprintf("exact%d|%s|opt%d", cnt, shape, o)) })
			}
		}
	}
	// the two-byte boundary: too large for the extracted model in reasonable
	// time, so only the round-trip oracle on the implementation runs
	for _, cnt := range []int{65535, 65536, 65537} {
		if !c.Thorough() && cnt != 65536 {
			continue
		}
		cnt := cnt
		out = append(out, func() {
			dag := exactDag(cnt, "fan")
			for _, o := range []int{0, 7} {
				in := sx.L(sx.Nat(cnt), sx.Nat(o))
				if what := c01BigRoundTrip(dag, o); what != "" {
					c.Fail("c01.big", in, "roundtrip-big", fmt.Sprintf("DAG with exactly %d distinct cells, options %d: %s", cnt, o, what))
				}
				c.Note("c01.big", fmt.Sprintf("big%d|opt%d", cnt, o), in)
			}
		})
	}
	// deep chains around the depth limit
	for _, depth := range []int{1022, 1023, 1024, 1025} {
		if !c.Thorough() && depth != 1024 {
			continue
		}
		dag := make([]Node, depth+1)
		for i := range dag {
			if i < depth {
				dag[i].Refs = []int{i + 1}
			}
			dag[i].Bits = fmt.Sprintf("%b", i%5)
		}
		depth := depth
		out = append(out, func() {
			in, res, _ := c01EmitSer(c, dag, 2, fmt.Sprintf("chain|depth%d", depth))
			if depth <= 1024 && c01IsAtom(res, "err", "panic") {
				c.Fail("c01.ser", in, "depth-limit", fmt.Sprintf("a chain of depth %d (the limit is 1024) is not serialised: %s", depth, res.String()))
			}
		})
	}
	return out
}

// c01.ser cases run in the guarded child (20 s limit): a serialisation that
// does not finish is an outcome ('timeout: a class mismatch with the model,
// which always answers) and an oracle failure with the concrete DAG.  After
// c01MaxHangs hangs, inputs whose unfolded tree is at least as large as the
// smallest one that hung are not run any more (each would cost the limit).
const c01MaxHangs = 2
const c01MaxSlow = 8

var c01st struct {
	hangs    int
	skipFrom uint64
	slow     int
	slowFrom uint64
	skipped  int
}

func c01TreeSize(dag []Node) uint64 {
	const cap = uint64(1) << 62
	if len(dag) == 0 {
		return 0
	}
	sz := make([]uint64, len(dag))
	for i := len(dag) - 1; i >= 0; i-- {
		s := uint64(1)
		for _, t := range dag[i].Refs {
			s += sz[t]
			if s > cap {
				s = cap
			}
		}
		sz[i] = s
	}
	return sz[0]
}

func c01IsAtom(v sx.V, names ...string) bool {
	for _, n := range names {
		if v.IsA(n) {
			return true
		}
	}
	return false
}

// c01EmitSer runs one c01.ser case (root = cell 0) in the guarded child and
// evaluates the outcome oracles; fast reports that the implementation answered
// with bytes quickly, so that in-process oracles may serialise the input again
// (an input that timed out or crashed in the child is never run in-process).
func c01EmitSer(c *Ctx, dag []Node, o int, class string) (in, out sx.V, fast bool) {
	in = sx.L(dagSx(dag), sx.Nat(0), sx.B(o&1 != 0), sx.B(o&2 != 0), sx.B(o&4 != 0))
	ts := c01TreeSize(dag)
	if c01st.hangs >= c01MaxHangs && (ts >= c01st.skipFrom || (c01st.slow >= c01MaxSlow && ts >= c01st.slowFrom)) {
		c01st.skipped++
		return in, sx.A("skipped"), false
	}
	t0 := time.Now()
	out = c.EmitGuarded("c01.ser", in, class)
	el := time.Since(t0)
	switch {
	case c01IsAtom(out, "timeout"):
		c01st.hangs++
		if c01st.skipFrom == 0 || ts < c01st.skipFrom {
			c01st.skipFrom = ts
		}
		c.Fail("c01.ser", in, "ser-timeout", fmt.Sprintf("serialising a DAG of %d cells (unfolded tree: %d cells) with options %d did not finish within 20 s", len(dag), ts, o))
	case c01IsAtom(out, "crash"):
		c.Fail("c01.ser", in, "ser-crash", fmt.Sprintf("serialising a DAG of %d cells with options %d killed the process (fatal error / memory limit)", len(dag), o))
	case out.K == sx.KL && len(out.List) == 2:
		if !out.List[1].Bool {
			c.Fail("c01.ser", in, "roundtrip", fmt.Sprintf("own output for a DAG of %d cells does not parse back to a structurally identical root with the same hash", len(dag)))
		}
		if o&1 != 0 {
			if what := c01IndexOracle(out.List[0].Bytes, o&4 != 0); what != "" {
				c.Fail("c01.ser", in, "index-bytes", what)
			}
		}
		fast = el < 2*time.Second
		if el > 5*time.Second {
			// answered, but three orders of magnitude slower than any input of
			// this size on the unchanged tree (not an alarm by itself: the limit
			// is the child's 20 s): after c01MaxSlow such answers and the hangs,
			// inputs of at least that tree size are not run any more either
			c01st.slow++
			if c01st.slowFrom == 0 || ts < c01st.slowFrom {
				c01st.slowFrom = ts
			}
		}
	}
	return in, out, fast
}

// exactDag builds a DAG of exactly n pairwise different cells reachable from
// cell 0: "fan" is a 4-ary heap, "chainfan" a chain whose cells also point to
// leaves.
func exactDag(n int, shape string) []Node {
	dag := make([]Node, n)
	for i := range dag {
		dag[i].Bits = fmt.Sprintf("%024b", i)
	}
	switch shape {
	case "fan":
		for i := range dag {
			for k := 1; k <= 4; k++ {
				if ch := 4*i + k; ch < n {
					dag[i].Refs = append(dag[i].Refs, ch)
				}
			}
		}
	default:
		// cells 0..m-1 form a chain, every chain cell also refers to up to 3 leaves
		m := (n + 3) / 4
		next := m
		for i := 0; i < m; i++ {
			if i+1 < m {
				dag[i].Refs = append(dag[i].Refs, i+1)
			}
			for k := 0; k < 3 && next < n; k++ {
				dag[i].Refs = append(dag[i].Refs, next)
				next++
			}
		}
	}
	return dag
}

func c01BigRoundTrip(dag []Node, o int) (what string) {
	defer func() {
		if r := recover(); r != nil {
			what = fmt.Sprintf("panic: %v", r)
		}
	}()
	cells, err := buildGo(dag)
	if err != nil {
		return "cannot build: " + err.Error()
	}
	root := cells[0]
	out, err := root.ToBocCustom(o&1 != 0, o&2 != 0, o&4 != 0, 0)
	if err != nil {
		return "serialise: " + err.Error()
	}
	back, err := boc.DeserializeBoc(out)
	if err != nil {
		return "own output rejected: " + err.Error()
	}
	if len(back) != 1 {
		return "own output has several roots"
	}
	h0, e0 := root.Hash()
	h1, e1 := back[0].Hash()
	if e0 != nil || e1 != nil || !bytes.Equal(h0, h1) {
		return "own output parses to a different hash"
	}
	if !sameStructure(root, back[0], map[[2]*boc.Cell]bool{}) {
		return "own output parses to a different structure"
	}
	return ""
}

func bucket(n int) int {
	switch {
	case n < 8:
		return 0
	case n < 64:
		return 1
	case n < 256:
		return 2
	}
	return 3
}

// canonicity, sharing and foreign-layout oracles on the implementation
func c01Oracles(c *Ctx, in sx.V, dag []Node, out sx.V) {
	defer func() { _ = recover() }()
	if out.K != sx.KL {
		return
	}
	own := out.List[0].Bytes
	// own generator: whether the oracles run (they are skipped for slow inputs)
	// must not change the cases generated afterwards
	r := c.R.Fork(0xc010 + uint64(len(own)))
	cells, err := buildGo(dag)
	if err != nil {
		return
	}
	root := cells[0]
	// every exported entry point agrees with ToBocCustom / DeserializeBoc: c01e.go
	c01EntryPoints(c, in, root, own, in.List[2].Bool, in.List[3].Bool, in.List[4].Bool)
	// stored once: the cell count in the header equals the number of distinct hashes
	seen := map[*boc.Cell]bool{}
	countCells(root, seen)
	distinct := map[string]bool{}
	for x := range seen {
		h, err := x.HashString()
		if err != nil {
			return
		}
		distinct[h] = true
	}
	if len(own) > 6 {
		size := int(own[4] & 7)
		if size >= 1 && len(own) >= 6+size {
			cnt := 0
			for _, b := range own[6 : 6+size] {
				cnt = cnt*256 + int(b)
			}
			if cnt != len(distinct) {
				c.Fail("c01.ser", in, "stored-once", fmt.Sprintf("header announces %d cells, the DAG has %d distinct sub-cells", cnt, len(distinct)))
			}
		}
	}
	// same structure, no pointer sharing -> same bytes
	sub, idx := reachable(dag, 0)
	if rs := c01Reshare(sub, r.Fork(1)); rs != nil {
		b2, err := rs[idx].ToBocCustom(in.List[2].Bool, in.List[3].Bool, in.List[4].Bool, 0)
		if err != nil || !bytes.Equal(own, b2) {
			c.Fail("c01.ser", in, "canonical", "structurally equal inputs with different pointer sharing (every cell built twice, parents pick a copy) serialise to different bytes")
		}
	}
	if len(sub) <= 14 && c01TreeSize(sub) <= 4096 {
		if t := buildTree(sub, idx, 0); t != nil {
			b2, err := t.ToBocCustom(in.List[2].Bool, in.List[3].Bool, in.List[4].Bool, 0)
			if err != nil || !bytes.Equal(own, b2) {
				c.Fail("c01.ser", in, "canonical", "structurally equal inputs with different pointer sharing serialise to different bytes")
			}
		}
	}
	// a bag of cells from another conforming implementation: every header
	// variant, a different (reversed-as-far-as-possible) cell order, several roots
	h0, err := root.Hash()
	if err != nil {
		return
	}
	for k := 0; k < 3; k++ {
		hv := randVariant(r)
		roots := []int{idx}
		if r.Chance(40) && len(sub) > 1 {
			roots = append(roots, r.Intn(len(sub)))
		}
		b := refSerialize(sub, roots, hv, r)
		parsed, err := boc.DeserializeBoc(b)
		if err != nil || len(parsed) != len(roots) {
			c.Fail("c01.ser", sx.Bytes(b), "foreign-parse", "a well-formed BOC written by the reference serialiser is rejected")
			continue
		}
		h, err := parsed[0].Hash()
		if err != nil || !bytes.Equal(h, h0) {
			c.Fail("c01.ser", sx.Bytes(b), "foreign-hash", "a BOC written by the reference serialiser parses to a different hash")
		}
		if !sameStructure(root, parsed[0], map[[2]*boc.Cell]bool{}) {
			c.Fail("c01.ser", sx.Bytes(b), "foreign-structure", "a BOC written by the reference serialiser parses to a different structure")
		}
	}
}
