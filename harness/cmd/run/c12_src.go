package main

// C12: the statement order that the model's program counters assume is read
// off today's source of liteclient/client.go (go/ast): a harness that only
// sees packets cannot tell whether the id was registered before or just after
// the query was written.

import (
	"fmt"
	"go/ast"
	"go/parser"
	"go/token"
	"reflect"
	"runtime"
	"strings"

	"github.com/tonkeeper/tongo/liteclient"
)

func c12SourceChecks() (fails []c12Fail) {
	fail := func(what string) { fails = append(fails, c12Fail{"source-structure", what}) }
	file, _ := runtime.FuncForPC(reflect.ValueOf(liteclient.NewClient).Pointer()).FileLine(reflect.ValueOf(liteclient.NewClient).Pointer())
	if !strings.HasSuffix(file, "client.go") {
		return []c12Fail{{"harness-error", "source of liteclient.NewClient not found: " + file}}
	}
	fset := token.NewFileSet()
	f, err := parser.ParseFile(fset, file, nil, 0)
	if err != nil {
		return []c12Fail{{"harness-error", "parse " + file + ": " + err.Error()}}
	}
	fn := map[string]*ast.FuncDecl{}
	for _, d := range f.Decls {
		if fd, ok := d.(*ast.FuncDecl); ok && fd.Recv != nil {
			fn[fd.Name.Name] = fd
		}
	}
	// position of the first node in body satisfying pred (0 if none)
	first := func(body ast.Node, pred func(ast.Node) bool) token.Pos {
		var at token.Pos
		ast.Inspect(body, func(n ast.Node) bool {
			if n != nil && at == 0 && pred(n) {
				at = n.Pos()
			}
			return at == 0
		})
		return at
	}
	callTo := func(name string) func(ast.Node) bool {
		return func(n ast.Node) bool {
			c, ok := n.(*ast.CallExpr)
			if !ok {
				return false
			}
			switch f := c.Fun.(type) {
			case *ast.SelectorExpr:
				return f.Sel.Name == name
			case *ast.Ident:
				return f.Name == name
			}
			return false
		}
	}
	selCall := func(recv, name string) func(ast.Node) bool {
		return func(n ast.Node) bool {
			c, ok := n.(*ast.CallExpr)
			if !ok {
				return false
			}
			s, ok := c.Fun.(*ast.SelectorExpr)
			if !ok || s.Sel.Name != name {
				return false
			}
			if in, ok := s.X.(*ast.SelectorExpr); ok {
				return in.Sel.Name == recv
			}
			return false
		}
	}
	req := fn["Request"]
	if req == nil {
		fail("method Request not found")
	} else {
		reg := first(req.Body, callTo("registerCallback"))
		unreg := first(req.Body, func(n ast.Node) bool {
			d, ok := n.(*ast.DeferStmt)
			return ok && callTo("unregisterCallback")(d.Call)
		})
		send := first(req.Body, callTo("Send"))
		sel := first(req.Body, func(n ast.Node) bool { _, ok := n.(*ast.SelectStmt); return ok })
		wt := first(req.Body, callTo("WithTimeout"))
		switch {
		case reg == 0 || unreg == 0 || send == 0 || sel == 0 || wt == 0:
			fail("Request: registerCallback / defer unregisterCallback / Send / select / context.WithTimeout not all present")
		case !(wt < reg && reg < unreg && unreg < send && send < sel):
			fail("Request: the order WithTimeout < registerCallback < defer unregisterCallback < Send < select does not hold (the id must be registered before the query is written)")
		}
		done := first(req.Body, func(n ast.Node) bool {
			cc, ok := n.(*ast.CommClause)
			if !ok || cc.Comm == nil {
				return false
			}
			return first(cc.Comm, callTo("Done")) != 0
		})
		if done == 0 {
			fail("Request: the select has no <-ctx.Done() case")
		}
	}
	if rc := fn["registerCallback"]; rc == nil {
		fail("method registerCallback not found")
	} else {
		ok := false
		ast.Inspect(rc.Body, func(n ast.Node) bool {
			if c, isCall := n.(*ast.CallExpr); isCall && callTo("make")(c) && len(c.Args) == 2 {
				if _, isChan := c.Args[0].(*ast.ChanType); isChan {
					if l, isLit := c.Args[1].(*ast.BasicLit); isLit && l.Value == "1" {
						ok = true
					}
				}
			}
			return true
		})
		if !ok {
			fail("registerCallback: the reply channel is not make(chan []byte, 1) (the reader's send must never block)")
		}
	}
	if pq := fn["processQueryAnswer"]; pq == nil {
		fail("method processQueryAnswer not found")
	} else {
		lock := first(pq.Body, selCall("queriesMutex", "Lock"))
		unlock := first(pq.Body, selCall("queriesMutex", "Unlock"))
		del := first(pq.Body, callTo("delete"))
		snd := first(pq.Body, func(n ast.Node) bool { _, ok := n.(*ast.SendStmt); return ok })
		switch {
		case lock == 0 || unlock == 0 || del == 0 || snd == 0:
			fail("processQueryAnswer: Lock / delete / Unlock / channel send not all present")
		case !(lock < del && del < unlock && unlock < snd):
			fail("processQueryAnswer: the order Lock < delete(queries, id) < Unlock < resp <- data does not hold (one delivery per entry, no send under the lock)")
		}
	}
	for _, name := range []string{"registerCallback", "unregisterCallback"} {
		if m := fn[name]; m != nil {
			lock := first(m.Body, selCall("queriesMutex", "Lock"))
			unlock := first(m.Body, selCall("queriesMutex", "Unlock"))
			var op token.Pos
			if name == "unregisterCallback" {
				op = first(m.Body, callTo("delete"))
			} else {
				op = first(m.Body, func(n ast.Node) bool {
					a, ok := n.(*ast.AssignStmt)
					if !ok || len(a.Lhs) != 1 {
						return false
					}
					_, isIdx := a.Lhs[0].(*ast.IndexExpr)
					return isIdx
				})
			}
			if lock == 0 || unlock == 0 || op == 0 || !(lock < op && op < unlock) {
				fail(fmt.Sprintf("%s: the map operation is not between queriesMutex.Lock and Unlock", name))
			}
		}
	}
	return fails
}
