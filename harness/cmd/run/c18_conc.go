package main

import (
	"bytes"
	"fmt"
	"runtime"
	"sync"

	"github.com/tonkeeper/tongo/boc"

	"verifharness/sx"
)

func init() {
	execs["c18.conc"] = execC18Conc
}

// c18.conc: (dag root rounds (op ...)) — ONE MerkleProver shared by one
// goroutine per operation; every goroutine repeats its operation `rounds`
// times (own cursor each time; key walks read a private copy of the cells,
// because ProveKeyInHashmap moves the read position of the cells it is given;
// the only shared object is the prover).  A prover is read-only after
// construction, so every round of operation i must return what operation i
// returns alone.  Result per operation: that result when all rounds agree,
// else ('diverged <first> <first differing>).
func execC18Conc(in sx.V) sx.V {
	dag := dagFromSx(in.List[0])
	ri := in.List[1].I()
	rounds := in.List[2].I()
	ops := in.List[3].List
	cells, err := buildGo(dag)
	if err != nil {
		return sx.A("err")
	}
	prover, err := boc.NewMerkleProver(cells[ri])
	if err != nil {
		return sx.A("err")
	}
	// real parallelism (OS threads) even where the run is confined to few CPUs
	if runtime.GOMAXPROCS(0) < 4 {
		defer runtime.GOMAXPROCS(runtime.GOMAXPROCS(4))
	}
	outs := make([]sx.V, len(ops))
	start := make(chan struct{})
	var wg sync.WaitGroup
	for g := range ops {
		mine, err := buildGo(dag)
		if err != nil {
			return sx.A("err")
		}
		wg.Add(1)
		go func(g int, root *boc.Cell) {
			defer wg.Done()
			<-start
			var first sx.V
			var other *sx.V
			for r := 0; r < rounds; r++ {
				o := c18RunOp(prover, root, ops[g])
				if r == 0 {
					first = o
				} else if other == nil && !sameResult(first, o) {
					oo := o
					other = &oo
				}
			}
			if other != nil {
				outs[g] = sx.L(sx.A("diverged"), first, *other)
			} else {
				outs[g] = first
			}
		}(g, mine[ri])
	}
	close(start)
	wg.Wait()
	return sx.L(outs...)
}

func sameResult(a, b sx.V) bool {
	if a.K != b.K {
		return false
	}
	if a.K == sx.KBytes {
		return bytes.Equal(a.Bytes, b.Bytes)
	}
	return a.String() == b.String()
}

// c18ConcOracle: every operation run concurrently on the shared prover must
// return, in every round, exactly what the same operation returns alone on a
// fresh prover (computed here, sequentially), and that proof must satisfy the
// property for ITS operation (own pruned set, own key's value revealed).
func c18ConcOracle(c *Ctx, in sx.V, src *c18Src, ops []sx.V, out sx.V) {
	if out.K != sx.KL || len(out.List) != len(ops) {
		if _, _, ok := src.level0(0); ok {
			c.Fail("c18.conc", in, "concurrent-outcome", "the concurrent run on one prover did not yield one result per operation: "+trunc(out.String(), 60))
		}
		return
	}
	for i, op := range ops {
		tag := fmt.Sprintf("operation %d of %d running concurrently on one prover (%s): ", i+1, len(ops), trunc(op.String(), 80))
		// the operation alone, on its own prover
		cells, err := buildGo(src.dag)
		if err != nil {
			return
		}
		prover, err := boc.NewMerkleProver(cells[0])
		if err != nil {
			return
		}
		alone := c18RunOp(prover, cells[0], op)
		got := out.List[i]
		if got.Head() == "diverged" && len(got.List) == 3 {
			bad := got.List[2]
			if sameResult(bad, alone) {
				bad = got.List[1]
			}
			c.Fail("c18.conc", in, "concurrent-differs", tag+"its rounds returned different results; one that differs from the operation alone: "+trunc(bad.String(), 60))
			// say what the deviating proof is, in the property's terms
			c18JudgeOp(c, "c18.conc", in, tag, src, op, bad)
			return
		}
		if !sameResult(got, alone) {
			c.Fail("c18.conc", in, "concurrent-differs", tag+"the result differs from the result of the same operation alone on a fresh prover")
			c18JudgeOp(c, "c18.conc", in, tag, src, op, got)
			return
		}
		before := len(c.fails)
		c18JudgeOp(c, "c18.conc", in, tag, src, op, got)
		if len(c.fails) > before {
			return
		}
	}
}

func c18JudgeOp(c *Ctx, kind string, in sx.V, tag string, src *c18Src, op sx.V, out sx.V) {
	switch op.Head() {
	case "key":
		c18KeyOracle(c, kind, in, tag, src, op.List[1].Bits, out)
	case "walk":
		c18WalkOracle(c, kind, in, tag, src, c18PathsOf(op.List[1]), out)
	case "prog":
		c18WalkOracle(c, kind, in, tag, src, progPrunes(op.List[1].List), out)
	}
}

// genC18Conc: concurrent histories on one prover, in the guarded child (a
// hang or a fatal error becomes 'timeout / 'crash, which the model never says).
func genC18Conc(c *Ctx) {
	r := c.R
	rounds := c.Scale(120, 300)
	// dictionaries: every goroutine proves its own key (some ask for an
	// absent key, some walk a cursor of their own)
	nd := c.Scale(10, 150)
	for i := 0; i < nd; i++ {
		width := []int{8, 16, 16, 32, 64}[r.Intn(5)]
		count := 6 + r.Intn(30)
		dag, keys, _ := randDict(r, width, count)
		k := 2 + r.Intn(7)
		if i%3 == 0 {
			k = 8
		}
		var ops []sx.V
		na, nw := 0, 0
		for g := 0; g < k; g++ {
			switch x := r.Intn(10); {
			case x < 7:
				ops = append(ops, opKey(keys[r.Intn(len(keys))]))
			case x < 8:
				if ak, ok := absentKey(r, keys, width, r.Bool()); ok {
					ops = append(ops, opKey(ak))
					na++
				}
			default:
				ops = append(ops, opWalk(randPaths(r, dag, 1+r.Intn(2), 4)))
				nw++
			}
		}
		if len(ops) < 2 {
			ops = append(ops, opKey(keys[0]), opKey(keys[len(keys)-1]))
		}
		in := sx.L(dagSx(dag), sx.Nat(0), sx.Nat(rounds), sx.L(ops...))
		out := c.EmitGuarded("c18.conc", in, fmt.Sprintf("concurrent-dict|w%d|n%d|goroutines%d|absent%d|walks%d", bucket(width), bucket(len(keys)), bucket(len(ops)), minInt(na, 1), minInt(nw, 1)))
		c18ConcOracle(c, in, newC18Src(dag), ops, out)
	}
	// arbitrary trees (ordinary or with exotic cells): every goroutine prunes
	// through its own cursor
	nt := c.Scale(8, 120)
	for i := 0; i < nt; i++ {
		exotic := i%2 == 1
		size := 4 + r.Intn(7)
		dag := smallTree(150, func() []Node {
			if exotic {
				return c18ExoticDag(r, size, false, false)
			}
			return randDag(r, size)
		})
		k := 2 + r.Intn(5)
		var ops []sx.V
		for g := 0; g < k; g++ {
			ops = append(ops, opWalk(randPaths(r, dag, r.Intn(3), 3)))
		}
		in := sx.L(dagSx(dag), sx.Nat(0), sx.Nat(rounds), sx.L(ops...))
		out := c.EmitGuarded("c18.conc", in, fmt.Sprintf("concurrent-tree|exotic%v|n%d|goroutines%d", exotic, bucket(len(dag)), bucket(len(ops))))
		c18ConcOracle(c, in, newC18Src(dag), ops, out)
	}
}
