package main

// C04: wallet signed bodies / state-init data and address embedding at the edges of the
// option and address domains (implementation-side oracles against a reference layout
// written from the wallet contracts' TL-B, not from the library):
//
//   v3:       signature:bits512 subwallet_id:uint32 valid_until:uint32 seqno:uint32 (mode:uint8 ^msg)*
//   v4:       signature:bits512 subwallet_id:uint32 valid_until:uint32 seqno:uint32 op:int8 (mode:uint8 ^msg)*
//   highload: signature:bits512 subwallet_id:uint32 query_id:uint64 messages:(HashmapE 16 ...)
//   data v3:  seqno:uint32 subwallet_id:uint32 public_key:bits256
//   data v4:  seqno:uint32 subwallet_id:uint32 public_key:bits256 plugins:(HashmapE 256 ...)
//   data hl:  subwallet_id:uint32 last_cleaned:uint64 public_key:bits256 old_queries:(HashmapE 64 ...)
//
// subwallet_id is the configured value whatever it is (0, 1, 2^32-1, the default given
// explicitly), and 698983191 + workchain when none is configured.

import (
	"bytes"
	"crypto/ed25519"
	"fmt"
	"strconv"
	"time"

	"github.com/tonkeeper/tongo/boc"
	"github.com/tonkeeper/tongo/tlb"
	"github.com/tonkeeper/tongo/ton"
	"github.com/tonkeeper/tongo/wallet"

	"verifharness/sx"
)

func c04BitsOf(c *boc.Cell) string {
	bs := c.RawBitString()
	return bs.BinaryString()
}

func c04U(s string) uint64 {
	v, _ := strconv.ParseUint(s, 2, 64)
	return v
}

// address shapes: all zero, all ones, a single low / high bit, random
func c04AddrShape(c *Ctx, k int) [32]byte {
	var a [32]byte
	switch k % 5 {
	case 0:
	case 1:
		for i := range a {
			a[i] = 0xff
		}
	case 2:
		a[31] = 1
	case 3:
		a[0] = 0x80
	default:
		copy(a[:], c.R.Bytes(32))
	}
	return a
}

var c04ShapeNames = []string{"zero", "ones", "low-bit", "high-bit", "random"}

func c04WalletOptions(c *Ctx) {
	versions := []wallet.Version{wallet.V3R1, wallet.V3R2, wallet.V4R1, wallet.V4R2, wallet.HighLoadV2R2}
	u32 := func(v uint32) *uint32 { return &v }
	rounds := c.Scale(1, 8)
	for round := 0; round < rounds; round++ {
		for _, ver := range versions {
			for _, wc := range []*int{nil, new(int), func() *int { v := -1; return &v }()} {
				wcv := 0
				if wc != nil {
					wcv = *wc
				}
				def := uint32(698983191 + wcv)
				for si, sub := range []*uint32{nil, u32(0), u32(1), u32(def), u32(0xffffffff), u32(uint32(c.R.U64()))} {
					seed := c.R.Bytes(32)
					priv := ed25519.NewKeyFromSeed(seed)
					pub := priv.Public().(ed25519.PublicKey)
					var opts []wallet.Option
					if wc != nil {
						opts = append(opts, wallet.WithWorkchain(*wc))
					}
					want := def
					if sub != nil {
						opts = append(opts, wallet.WithSubWalletID(*sub))
						want = *sub
					}
					seq := []uint32{0, 1, 0xffffffff, uint32(c.R.U64())}[c.R.Intn(4)]
					valid := []int64{1, 0xffffffff, int64(uint32(c.R.U64()))}[c.R.Intn(3)]
					label := fmt.Sprintf("%v|wc=%v|sub=%s", ver.ToString(), wcv, []string{"unset", "0", "1", "default", "max", "random"}[si])
					in := sx.L(sx.Str(label), sx.N(uint64(want)), sx.N(uint64(seq)), sx.Z(valid))
					key := "wallet-options-" + ver.ToString()
					w, err := wallet.New(priv, ver, nil, opts...)
					if err != nil {
						c.Fail("c04.wallet", in, key, "wallet.New failed: "+err.Error())
						continue
					}
					if what := c04WalletCheck(c, &w, ver, wcv, want, seq, valid, pub); what != "" {
						c.Fail("c04.wallet", in, key, what)
						continue
					}
					fam := map[wallet.Version]string{wallet.V3R1: "v3", wallet.V3R2: "v3", wallet.V4R1: "v4", wallet.V4R2: "v4", wallet.HighLoadV2R2: "highload"}[ver]
					c.Note("c04.wallet", "wallet|"+fam+"|sub-"+[]string{"unset", "0", "1", "default", "max", "random"}[si], in)
				}
			}
		}
	}
}

func c04WalletCheck(c *Ctx, w *wallet.Wallet, ver wallet.Version, wc int, sub, seq uint32, valid int64, pub ed25519.PublicKey) (what string) {
	defer func() {
		if r := recover(); r != nil {
			what = fmt.Sprintf("panic: %v", r)
		}
	}()
	// state-init data
	si, err := w.StateInit()
	if err != nil || si == nil || !si.Data.Exists {
		return "no state-init data"
	}
	data := si.Data.Value.Value
	db := c04BitsOf(&data)
	pk := ""
	for _, b := range pub {
		pk += fmt.Sprintf("%08b", b)
	}
	var wantData string
	switch ver {
	case wallet.V3R1, wallet.V3R2:
		wantData = fmt.Sprintf("%032b%032b", 0, sub) + pk
	case wallet.V4R1, wallet.V4R2:
		wantData = fmt.Sprintf("%032b%032b", 0, sub) + pk + "0"
	default:
		wantData = fmt.Sprintf("%032b%064b", sub, 0) + pk + "0"
	}
	if db != wantData || data.RefsSize() != 0 {
		return fmt.Sprintf("state-init data cell is not seqno/subwallet_id/public_key of the configured wallet: subwallet_id %d expected (bits %s...)", sub, db[:minInt(len(db), 72)])
	}
	// address = workchain : hash(state-init)
	sc := boc.NewCell()
	if err := tlb.Marshal(sc, *si); err != nil {
		return "state-init does not encode: " + err.Error()
	}
	h, _ := sc.Hash()
	addr := w.GetAddress()
	if int(addr.Workchain) != wc || !bytes.Equal(addr.Address[:], h) {
		return "wallet address is not workchain:hash(state-init)"
	}
	// signed body
	n := c.R.Intn(5)
	if ver == wallet.HighLoadV2R2 {
		n = 1 + c.R.Intn(3)
	}
	var msgs []wallet.Sendable
	var cells []*boc.Cell
	for i := 0; i < n; i++ {
		dst := ton.AccountID{Workchain: int32([]int{0, -1}[c.R.Intn(2)]), Address: c04AddrShape(c, c.R.Intn(5))}
		st := wallet.SimpleTransfer{Amount: tlb.Grams(c.R.U64() >> uint(c.R.Intn(64))), Address: dst, Bounceable: c.R.Bool()}
		if c.R.Bool() {
			st.Comment = "hi é"
		}
		m, _, err := st.ToInternal()
		if err != nil {
			return "ToInternal: " + err.Error()
		}
		mc := boc.NewCell()
		if err := tlb.Marshal(mc, m); err != nil {
			return "message does not encode: " + err.Error()
		}
		msgs = append(msgs, st)
		cells = append(cells, mc)
	}
	body, err := w.CreateMessageBody(wallet.MessageConfig{Seqno: seq, ValidUntil: time.Unix(valid, 0)}, msgs...)
	if err != nil {
		return "CreateMessageBody: " + err.Error()
	}
	bb := c04BitsOf(body)
	if len(bb) < 512+32 {
		return "signed body shorter than signature + subwallet_id"
	}
	if got := uint32(c04U(bb[512:544])); got != sub {
		return fmt.Sprintf("signed body bits 512..543 (subwallet_id) = %d, configured %d", got, sub)
	}
	if ver != wallet.HighLoadV2R2 {
		hdr := 608
		if ver == wallet.V4R1 || ver == wallet.V4R2 {
			hdr = 616
		}
		if len(bb) != hdr+8*n || body.RefsSize() != n {
			return fmt.Sprintf("signed body has %d bits and %d references, expected %d and %d", len(bb), body.RefsSize(), hdr+8*n, n)
		}
		if uint32(c04U(bb[544:576])) != uint32(valid) || uint32(c04U(bb[576:608])) != seq {
			return "signed body valid_until / seqno fields are not the requested ones"
		}
		if hdr == 616 && c04U(bb[608:616]) != 0 {
			return "v4 body op is not 0"
		}
		for i := 0; i < n; i++ {
			if c04U(bb[hdr+8*i:hdr+8*i+8]) != 3 {
				return "send mode of a simple transfer is not 3"
			}
			if !sameHash(body.Refs()[i], cells[i]) {
				return fmt.Sprintf("reference %d of the signed body is not the %d-th message", i, i)
			}
		}
	}
	// the signature covers the body without its first 512 bits
	unsigned := boc.NewCell()
	for _, ch := range bb[512:] {
		_ = unsigned.WriteBit(ch == '1')
	}
	for _, r := range body.Refs() {
		_ = unsigned.AddRef(r)
	}
	uh, _ := unsigned.Hash()
	sig := make([]byte, 64)
	for i := range sig {
		sig[i] = byte(c04U(bb[8*i : 8*i+8]))
	}
	if !ed25519.Verify(pub, uh, sig) {
		return "the first 512 bits are not the signature of the rest of the body under the wallet key"
	}
	return ""
}

// every way an account id becomes a MsgAddress, for addresses of special shape
func c04Addresses(c *Ctx) {
	for round := 0; round < c.Scale(2, 20); round++ {
		for k := 0; k < 5; k++ {
			for _, wc := range []int32{0, -1, 1, 127, -128} {
				id := ton.AccountID{Workchain: wc, Address: c04AddrShape(c, k)}
				in := sx.L(sx.Z(int64(wc)), sx.Str(c04ShapeNames[k]), sx.Bytes(id.Address[:]))
				fail := func(what string) { c.Fail("c04.address", in, "address-shape", what) }
				isStd := func(a tlb.MsgAddress) bool {
					return a.SumType == "AddrStd" && !a.AddrStd.Anycast.Exists && int32(a.AddrStd.WorkchainId) == wc && a.AddrStd.Address == tlb.Bits256(id.Address)
				}
				ma := id.ToMsgAddress()
				if !isStd(ma) {
					fail("AccountID.ToMsgAddress of " + id.ToRaw() + " is not addr_std with that workchain and address")
					continue
				}
				back, err := ton.AccountIDFromTlb(ma)
				if err != nil || back == nil || *back != id {
					fail("AccountIDFromTlb(ToMsgAddress(id)) is not id for " + id.ToRaw())
					continue
				}
				mc := boc.NewCell()
				if err := tlb.Marshal(mc, ma); err != nil || mc.BitSize() != 267 {
					fail("the MsgAddress of " + id.ToRaw() + " does not encode to the 267 bits of addr_std")
					continue
				}
				ok := true
				for _, s := range []wallet.Sendable{
					wallet.SimpleTransfer{Amount: 1, Address: id},
					wallet.Message{Amount: 1, Address: id, Mode: 3},
				} {
					m, _, err := s.ToInternal()
					if err != nil || m.Info.SumType != "IntMsgInfo" || !isStd(m.Info.IntMsgInfo.Dest) {
						fail(fmt.Sprintf("%T.ToInternal does not address the message to %s", s, id.ToRaw()))
						ok = false
						break
					}
				}
				if !ok {
					continue
				}
				if wc >= -128 && wc <= 127 {
					m, err := ton.CreateExternalMessage(id, boc.NewCell(), nil, tlb.VarUInteger16{})
					if err != nil || !isStd(m.Info.ExtInMsgInfo.Dest) {
						fail("CreateExternalMessage does not address the message to " + id.ToRaw())
						continue
					}
				}
				c.Note("c04.address", "address|"+c04ShapeNames[k], in)
			}
		}
	}
}
