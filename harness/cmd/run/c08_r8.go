package main

// Round 8 (C08-r8m1): allocation driven by an ANNOUNCED length that is not the maximum.
//
// The older allocation oracle measured mutated encodings against the model's global bound
// 901*len + 2446529 (the intercept is the bounded vector pre-allocation of the widest element
// type), and the directed prefixes used the extreme value 0xffffff only. A decoder that sizes a
// buffer by the announced length below some threshold (Grow(n) for n <= 2 MiB) stays under both.
//
//   c08.tl |announce|<type>|bytes   every byte-string position (bytes / string fields, found by
//          differential marshalling: the first byte where the encodings of the value with an
//          8-byte and with a 9-byte field differ is the length prefix) of every TL type and basic
//          kind gets the long form 0xfe + 24-bit length at EVERY magnitude (4097 ... 16 MiB-1 and
//          the values around every limit read by c08.limit) with 0 / 4 / 60 bytes behind it;
//          oracle: rejected, and runtime TotalAlloc <= 901*len + c with the small constant of a
//          decoder without vector pre-allocation (16 KiB), i.e. proportional to the INPUT.
//   c08.tl |announce|<type>|vector  the same for every vector count position (count word at every
//          magnitude up to 2^32-1): TotalAlloc <= 901*len + min(count,4096)*elemsize*2 + 16 KiB
//          (guarded child first).
//   helper entry points with the same prefixes: liteclient.LiteapiRequestDecoder (request tag +
//          body), processQueryAnswer (adnl.message.answer with a long-form answer length).
//   c08.limit census: every integer constant declared in the files whose limits the model
//          mirrors must be one of the known ones (a new size threshold is a new limit the model
//          does not speak about): key limit-census-<file>.

import (
	"bytes"
	"encoding/binary"
	"fmt"
	"go/ast"
	"go/parser"
	"go/token"
	"os"
	"path/filepath"
	"reflect"
	"runtime"
	"sort"
	"strings"
	"time"

	"github.com/tonkeeper/tongo/liteclient"
	"github.com/tonkeeper/tongo/tl"

	"verifharness/prng"
	"verifharness/sx"
)

// constant part of the bound for a decode that pre-allocates no vector: the fixed-size first
// read (maxPrealloc), bytes.Buffer's first growth steps and the decoded value itself
const c08R8Const = 16384

type c08R8Slot struct {
	off  int    // offset of the length / count word in enc
	vec  bool   // vector count (else byte string)
	esz  int    // static size of a vector element
	path string // field path, for the report
	enc  []byte // a valid encoding up to off
}

func c08R8FirstDiff(a, b []byte) int {
	n := len(a)
	if len(b) < n {
		n = len(b)
	}
	for i := 0; i < n; i++ {
		if a[i] != b[i] {
			return i
		}
	}
	if len(a) != len(b) {
		return n
	}
	return -1
}

// c08R8Walk finds the wire position of every byte string and every vector count reachable in the
// value root (all alternatives of every sum type are visited in turn)
func c08R8Walk(r *prng.R, root reflect.Value, v reflect.Value, path string, depth int, out *[]c08R8Slot) {
	if depth > 7 || len(*out) > 200 {
		return
	}
	enc := func() []byte {
		b, ok := c08Marshal(root.Interface())
		if !ok {
			return nil
		}
		return b
	}
	slot := func(e1, e2 []byte, vec bool, esz int) {
		if e1 == nil || e2 == nil {
			return
		}
		off := c08R8FirstDiff(e1, e2)
		if off < 0 || off%4 != 0 || off >= len(e1) {
			return
		}
		*out = append(*out, c08R8Slot{off: off, vec: vec, esz: esz, path: path, enc: append([]byte{}, e1[:off]...)})
	}
	switch v.Kind() {
	case reflect.String:
		if !v.CanSet() || v.Type().Name() == "SumType" {
			return
		}
		m := r.Bytes(9)
		v.SetString(string(m[:9]))
		e2 := enc()
		v.SetString(string(m[:8]))
		slot(enc(), e2, false, 0)
	case reflect.Slice:
		if !v.CanSet() {
			return
		}
		if v.Type().Elem().Kind() == reflect.Uint8 {
			m := r.Bytes(9)
			v.SetBytes(append([]byte{}, m[:9]...))
			e2 := enc()
			v.SetBytes(append([]byte{}, m[:8]...))
			slot(enc(), e2, false, 0)
			return
		}
		s := reflect.MakeSlice(v.Type(), 2, 2)
		c08Fill(r, s.Index(0), 3)
		s.Index(1).Set(s.Index(0))
		v.Set(s)
		e2 := enc()
		v.Set(s.Slice(0, 1))
		slot(enc(), e2, true, int(v.Type().Elem().Size()))
		c08R8Walk(r, root, v.Index(0), path+"[0]", depth+1, out)
	case reflect.Pointer:
		if v.IsNil() {
			if !v.CanSet() {
				return
			}
			p := reflect.New(v.Type().Elem())
			c08Fill(r, p.Elem(), 3)
			v.Set(p)
		}
		c08R8Walk(r, root, v.Elem(), path, depth+1, out)
	case reflect.Struct:
		if st := v.FieldByName("SumType"); st.IsValid() && st.Kind() == reflect.String && st.CanSet() {
			for i := 0; i < v.NumField(); i++ {
				f := v.Type().Field(i)
				if f.Name == "SumType" || !v.Field(i).CanSet() {
					continue
				}
				st.SetString(f.Name)
				c08R8Walk(r, root, v.Field(i), path+"."+f.Name, depth+1, out)
			}
			return
		}
		for i := 0; i < v.NumField(); i++ {
			if v.Field(i).CanSet() {
				c08R8Walk(r, root, v.Field(i), path+"."+v.Type().Field(i).Name, depth+1, out)
			}
		}
	}
}

// allocation of one call, the minimum over a few repetitions when the first measurement exceeds
// the bound (other goroutines of the harness allocate concurrently; the decoder is deterministic)
func c08R8Alloc(bound uint64, f func()) (alloc uint64, panicked bool) {
	one := func() (a uint64, p bool) {
		defer func() {
			if r := recover(); r != nil {
				p = true
			}
		}()
		var m0, m1 runtime.MemStats
		runtime.ReadMemStats(&m0)
		f()
		runtime.ReadMemStats(&m1)
		return m1.TotalAlloc - m0.TotalAlloc, false
	}
	alloc, panicked = one()
	for k := 0; k < 6 && !panicked && alloc > bound; k++ {
		runtime.Gosched()
		a, p := one()
		if p {
			return a, true
		}
		if a < alloc {
			alloc = a
		}
	}
	return alloc, panicked
}

// the magnitudes an announced length is probed at: fixed ladder + the neighbourhood of every
// limit that c08.limit reads from the source
func c08R8Magnitudes(c *Ctx, r *prng.R) []int {
	ms := []int{254, 4095, 4096, 4097, 8192, 12288, 16384, 32768, 65535, 65536, 65537, 1 << 17, 1 << 18, 1 << 19,
		1<<20 - 1, 1 << 20, 1<<20 + 1, 3 << 19, 2<<20 - 1, 2 << 20, 2<<20 + 1, 3 << 20, 4 << 20, 4<<20 + 1,
		8 << 20, 8<<20 + 1, 12 << 20, 1<<24 - 1}
	for k := 0; k < c.Scale(2, 24); k++ {
		ms = append(ms, 4097+r.Intn(1<<24-4097))
	}
	return ms
}

func c08R8Long(n int) []byte { return []byte{0xfe, byte(n), byte(n >> 8), byte(n >> 16)} }

func genC08R8Announce(c *Ctx) {
	var names []string
	for n := range c08Types {
		names = append(names, n)
	}
	for n := range c08Basic {
		names = append(names, n)
	}
	sort.Strings(names)
	rm := c.R.Fork(88001)
	mags := c08R8Magnitudes(c, rm)
	counts := append([]int{}, mags...)
	counts = append(counts, 1<<24, 1<<24+1, 1<<28, 1<<31-1, 1<<31, 1<<32-1)
	fills := c.Scale(1, 3)
	nslots, nmeasured, rot := 0, 0, 0
	// at most two reports per type and key (the magnitudes ascend: the smallest witnesses are kept)
	reported := map[string]int{}
	fail := func(kind string, in sx.V, name, key, what string) {
		reported[name+"|"+key]++
		if reported[name+"|"+key] <= 2 {
			c.Fail(kind, in, key, what)
		}
	}
	done := func(name, key string) bool { return reported[name+"|"+key] >= 2 }
	var maxSeen uint64
	for ti, name := range names {
		r := c.R.Fork(uint64(88100 + ti))
		t, _ := c08TypeOf(name)
		seen := map[string]bool{}
		for k := 0; k < fills; k++ {
			v := reflect.New(t)
			c08Fill(r, v.Elem(), 0)
			var slots []c08R8Slot
			c08R8Walk(r, v.Elem(), v.Elem(), "", 0, &slots)
			for _, s := range slots {
				key := fmt.Sprintf("%s|%v|%d", s.path, s.vec, s.off)
				if seen[key] {
					continue
				}
				seen[key] = true
				nslots++
				if s.path == "" {
					s.path = "(value)"
				}
				tag, isReq := c08RequestTags[name]
				if !s.vec {
					noted := false
					for mi, n := range mags {
						for _, have := range []int{0, 4, 60} {
							if have >= n {
								continue
							}
							bs := append(append(append([]byte{}, s.enc...), c08R8Long(n)...), r.Bytes(have)...)
							in := sx.L(sx.A(name), sx.Bytes(bs))
							if (mi+rot)%len(mags) == 0 && have == 4 {
								// one magnitude per position also goes to the model (outcome class)
								out := c.Emit("c08.tl", in, "announce|bytes")
								if o := out.String(); o != "'err" {
									c.Fail("c08.tl", in, "tl-announce-accepted", fmt.Sprintf("byte string at %s announcing %d bytes with %d present: %s", s.path, n, have, o))
								}
							} else if !noted {
								c.Note("c08.tl", "announce|bytes|"+name, in)
								noted = true
							}
							if done(name, "tl-alloc-announced") {
								continue
							}
							bound := uint64(c08Slope*len(bs) + c08R8Const)
							var err error
							a, p := c08R8Alloc(bound, func() {
								err = tl.Unmarshal(bytes.NewReader(bs), reflect.New(t).Interface())
							})
							nmeasured++
							if a > maxSeen && !p {
								maxSeen = a
							}
							if p {
								c.Fail("c08.tl", in, "tl-panic", "tl.Unmarshal panicked")
							} else if err == nil {
								fail("c08.tl", in, name, "tl-announce-accepted", fmt.Sprintf("byte string at %s announcing %d bytes with %d present was accepted", s.path, n, have))
							} else if a > bound {
								fail("c08.tl", in, name, "tl-alloc-announced", fmt.Sprintf("byte string at %s announces %d bytes, %d present: %d bytes allocated for %d bytes of input (bound 901*len+%d = %d)", s.path, n, have, a, len(bs), c08R8Const, bound))
							}
							if isReq && have != 60 && !done(name, "reqdec-alloc-announced") {
								rb := append(binary.LittleEndian.AppendUint32(nil, tag), bs...)
								rin := sx.Bytes(rb)
								rbound := uint64(c08Slope*len(rb) + c08R8Const)
								a, p := c08R8Alloc(rbound, func() { _, _, _, _ = liteclient.LiteapiRequestDecoder(append([]byte{}, rb...)) })
								if p {
									c.Fail("c08.reqdec", rin, "reqdec-panic", "LiteapiRequestDecoder panicked")
								} else if a > rbound {
									fail("c08.reqdec", rin, name, "reqdec-alloc-announced", fmt.Sprintf("%s: byte string at %s announces %d bytes, %d present: %d bytes allocated for %d bytes of input", name, s.path, n, have, a, len(rb)))
								}
							}
						}
					}
					rot++
					continue
				}
				// vector count: legitimate pre-allocation is min(count, maxPrealloc) elements
				for ci, n := range counts {
					have := []int{0, 4}[(ci+rot)%2]
					bs := append(binary.LittleEndian.AppendUint32(append([]byte{}, s.enc...), uint32(n)), r.Bytes(have)...)
					in := sx.L(sx.A(name), sx.Bytes(bs))
					out := c.EmitGuarded("c08.tl", in, "announce|vector")
					o := out.String()
					if strings.Contains(o, "'panic") {
						c.Fail("c08.tl", in, "tl-panic", "tl.Unmarshal panicked")
						continue
					} else if strings.Contains(o, "'crash") || strings.Contains(o, "'timeout") {
						c.Fail("c08.tl", in, "tl-crash", "tl.Unmarshal exhausted memory or time: "+o)
						continue
					}
					pre := n
					if pre > 4096 {
						pre = 4096
					}
					if done(name, "tl-alloc-announced") {
						continue
					}
					bound := uint64(c08Slope*len(bs) + 2*pre*s.esz + c08R8Const)
					a, p := c08R8Alloc(bound, func() { _ = tl.Unmarshal(bytes.NewReader(bs), reflect.New(t).Interface()) })
					nmeasured++
					if p {
						c.Fail("c08.tl", in, "tl-panic", "tl.Unmarshal panicked")
					} else if a > bound {
						fail("c08.tl", in, name, "tl-alloc-announced", fmt.Sprintf("vector at %s announces %d elements of %d bytes, %d bytes present: %d bytes allocated for %d bytes of input (bound %d)", s.path, n, s.esz, have, a, len(bs), bound))
					}
				}
				rot++
			}
		}
	}
	// processQueryAnswer: adnl.message.answer query_id:int256 answer:bytes with a long-form length
	for _, n := range mags {
		for _, have := range []int{0, 4, 60} {
			if have >= n {
				continue
			}
			p := append(rm.Bytes(36), c08R8Long(n)...)
			p = append(p, rm.Bytes(have)...)
			in := sx.L(sx.B(true), sx.Bytes(p))
			bound := uint64(c08Slope*len(p) + c08R8Const)
			var err error
			a, pn := c08R8Alloc(bound, func() { _, err = liteclient.VerifProcessQueryAnswer(append([]byte{}, p...), true) })
			if pn {
				c.Fail("c08.answer", in, "answer-panic", "processQueryAnswer panicked")
			} else if err == nil {
				c.Fail("c08.answer", in, "answer-announce-accepted", fmt.Sprintf("answer announcing %d bytes with %d present was delivered", n, have))
			} else if a > bound {
				fail("c08.answer", in, "answer", "answer-alloc-announced", fmt.Sprintf("answer announces %d bytes, %d present: %d bytes allocated", n, have, a))
			}
		}
	}
	c.Note("c08.answer", "announce|answer", sx.Nat(len(mags)))
	if nslots < 40 {
		c.Fail("c08.tl", sx.Nat(nslots), "harness-announce-coverage", fmt.Sprintf("only %d byte-string / vector positions found in the TL types", nslots))
	}
	if os.Getenv("VERIF_C08_R8_DEBUG") != "" {
		fmt.Fprintf(os.Stderr, "c08r8: slots %d measured %d max alloc %d\n", nslots, nmeasured, maxSeen)
	}
}

// ---- census of integer constants in the files whose limits the model mirrors

var c08R8KnownConsts = map[string][]string{
	"tl/decoder.go":      {"maxPrealloc"},
	"liteclient/adnl.go": nil,
	"liteclient/connection.go": {"ClientNonceSize", "MaxServerNonceSize", "magicPubKey", "magicTCPPing", "magicTCPPong",
		"magicTcpAuthentificate", "magicTcpAuthentificationComplete", "magicTcpAuthentificationNonce"},
}

// c08R8ConstCensus lists the names of the untyped constants of the file that are integer literals
// or shifts / products / sums of integer literals
func c08R8ConstCensus(fn any, file string) ([]string, error) {
	f := runtime.FuncForPC(reflect.ValueOf(fn).Pointer())
	if f == nil {
		return nil, fmt.Errorf("no source")
	}
	src, _ := f.FileLine(f.Entry())
	fs := token.NewFileSet()
	af, err := parser.ParseFile(fs, filepath.Join(filepath.Dir(src), file), nil, 0)
	if err != nil {
		return nil, err
	}
	var sizeLike func(e ast.Expr) bool
	sizeLike = func(e ast.Expr) bool {
		switch x := e.(type) {
		case *ast.BasicLit:
			return x.Kind == token.INT
		case *ast.BinaryExpr:
			return (x.Op == token.SHL || x.Op == token.MUL || x.Op == token.ADD || x.Op == token.SUB) && sizeLike(x.X) && sizeLike(x.Y)
		case *ast.ParenExpr:
			return sizeLike(x.X)
		}
		return false
	}
	var names []string
	ast.Inspect(af, func(n ast.Node) bool {
		gd, ok := n.(*ast.GenDecl)
		if !ok || gd.Tok != token.CONST {
			return true
		}
		for _, sp := range gd.Specs {
			vs := sp.(*ast.ValueSpec)
			for i, nm := range vs.Names {
				if i < len(vs.Values) && vs.Type == nil && sizeLike(vs.Values[i]) {
					names = append(names, nm.Name)
				}
			}
		}
		return true
	})
	sort.Strings(names)
	return names, nil
}

func genC08R8Census(c *Ctx) {
	fns := map[string]any{"tl/decoder.go": tl.EncodeLength, "liteclient/adnl.go": liteclient.ParsePacket, "liteclient/connection.go": liteclient.ParsePacket}
	var files []string
	for f := range c08R8KnownConsts {
		files = append(files, f)
	}
	sort.Strings(files)
	for _, file := range files {
		in := sx.A(strings.ReplaceAll(file, "/", "-"))
		got, err := c08R8ConstCensus(fns[file], filepath.Base(file))
		if err != nil {
			c.Fail("c08.limit", in, "limit-census-unreadable", "cannot parse "+file+": "+err.Error())
			continue
		}
		want := append([]string{}, c08R8KnownConsts[file]...)
		sort.Strings(want)
		c.Note("c08.limit", "census|"+file, in)
		if strings.Join(got, ",") != strings.Join(want, ",") {
			c.Fail("c08.limit", in, "limit-census-"+filepath.Base(file), fmt.Sprintf("size constants declared in %s: [%s]; the model and c08.limit know [%s] - a new or renamed limit must be read by c08.limit and mirrored in the model", file, strings.Join(got, " "), strings.Join(want, " ")))
		}
	}
}

func genC08R8(c *Ctx) {
	t0 := time.Now()
	genC08R8Census(c)
	genC08R8Announce(c)
	if os.Getenv("VERIF_C08_R8_DEBUG") != "" {
		fmt.Fprintf(os.Stderr, "c08r8: %v, cases so far %d, fails %d\n", time.Since(t0), c.n, len(c.fails))
		for _, f := range c.fails {
			fmt.Fprintf(os.Stderr, "  FAIL %s %s: %s\n", f.Kind, f.Key, f.What)
		}
	}
}
