package main

// C10: lite-server TL bindings against the extracted model of the bindings
// (coq/Model/Tl.v run on the terms of coq/Generated/TlBindings.v) and the TL
// wire-format spec (coq/Spec/TlWire.v on coq/Generated/TlSchema.v).
//
// Values travel as   n<hex> | x<hex> (bytes, string, int256) | t/f |
//   ('v v ...) vector | ('r 'Name ('Field v) ...) record
// 'Name is '_ for a struct that is not a sum and the value of SumType for a
// sum; nil slices and nil pointers are omitted from their record.

import (
	"bufio"
	"bytes"
	"context"
	"encoding/binary"
	"fmt"
	"go/format"
	"net"
	"os"
	"os/exec"
	"path/filepath"
	"reflect"
	"sort"
	"strconv"
	"strings"
	"time"

	"github.com/tonkeeper/tongo/boc"
	"github.com/tonkeeper/tongo/liteclient"
	"github.com/tonkeeper/tongo/tl"
	"github.com/tonkeeper/tongo/tlb"
	"github.com/tonkeeper/tongo/ton"
	"github.com/tonkeeper/tongo/utils"

	"verifharness/prng"
	"verifharness/sx"
)

func init() {
	execs["c10.marshal"] = execC10Marshal
	execs["c10.cmarshal"] = execC10Marshal
	execs["c10.unmarshal"] = execC10Unmarshal
	execs["c10.cunmarshal"] = execC10Unmarshal
	execs["c10.reqdecode"] = execC10ReqDecode
	execs["c10.request"] = execC10Request
	execs["c10.sizeof"] = execC10Sizeof
	execs["c10.camel"] = func(in sx.V) sx.V { return sx.Str(utils.ToCamelCase(string(in.Bytes))) }
	execs["c10.enclen"] = func(in sx.V) sx.V { return sx.Bytes(tl.EncodeLength(in.I())) }
	execs["c10.bmarshal"] = execC10BMarshal
	execs["c10.bunmarshal"] = execC10BUnmarshal
	execs["c10.hand"] = execC10Hand
	execs["c10.lclen"] = func(in sx.V) sx.V { return sx.Bytes(liteclient.VerifEncodeLength(in.I())) }
	execs["c10.lcdec"] = execC10LcDec
	execs["c10.lcalign"] = func(in sx.V) sx.V { return sx.Bytes(liteclient.VerifAlignBytes(append([]byte{}, in.Bytes...))) }
	execs["c10.adnlreq"] = execC10AdnlReq
	execs["c10.wait"] = execC10Wait
	gens["C10"] = genC10
}

// ---------------------------------------------------------------- type registry

// TL types of package liteclient that no lite-server function reaches
var c10Extra = []any{
	liteclient.TonNodeBlockIdC{}, liteclient.TonNodeShardPublicOverlayIdC{}, liteclient.AdnlMessage{},
	liteclient.LiteServerDebugVerbosityC{}, liteclient.LiteServerSignatureSet{}, liteclient.LiteServerSignatureSetC{},
	liteclient.LiteServerErrorC{},
	liteclient.LiteServerGetMasterchainInfoRequest{}, liteclient.LiteServerGetTimeRequest{},
	liteclient.LiteServerGetVersionRequest{}, liteclient.LiteProxyGetRequestRateLimitRequest{},
}

type c10Method struct {
	name string
	req  reflect.Type // nil when the method takes no request
	res  reflect.Type
}

var (
	c10Types   map[string]reflect.Type
	c10Names   []string
	c10Methods []c10Method
)

var c10Int256 = reflect.TypeOf(tl.Int256{})

func c10AddType(t reflect.Type) {
	switch t.Kind() {
	case reflect.Pointer, reflect.Slice:
		c10AddType(t.Elem())
		return
	case reflect.Struct:
	default:
		return
	}
	if t.Name() != "" {
		if t.PkgPath() != "github.com/tonkeeper/tongo/liteclient" {
			return
		}
		if _, ok := c10Types[t.Name()]; ok {
			return
		}
		c10Types[t.Name()] = t
	}
	for i := 0; i < t.NumField(); i++ {
		c10AddType(t.Field(i).Type)
	}
}

func c10Init() {
	if c10Types != nil {
		return
	}
	c10Types = map[string]reflect.Type{}
	ct := reflect.TypeOf(&liteclient.Client{})
	ctxT := reflect.TypeOf((*context.Context)(nil)).Elem()
	errT := reflect.TypeOf((*error)(nil)).Elem()
	for i := 0; i < ct.NumMethod(); i++ {
		m := ct.Method(i)
		if !strings.HasPrefix(m.Name, "LiteServer") && !strings.HasPrefix(m.Name, "LiteProxy") {
			continue
		}
		ft := m.Type // receiver is argument 0
		if ft.NumOut() != 2 || ft.Out(1) != errT || ft.NumIn() < 2 || ft.NumIn() > 3 || ft.In(1) != ctxT {
			continue
		}
		cm := c10Method{name: m.Name, res: ft.Out(0)}
		if ft.NumIn() == 3 {
			cm.req = ft.In(2)
			c10AddType(cm.req)
		}
		c10AddType(cm.res)
		c10Methods = append(c10Methods, cm)
	}
	for _, x := range c10Extra {
		c10AddType(reflect.TypeOf(x))
	}
	for n := range c10Types {
		c10Names = append(c10Names, n)
	}
	sort.Strings(c10Names)
}

func c10IsSum(t reflect.Type) bool {
	if t.Kind() != reflect.Struct {
		return false
	}
	_, ok := t.FieldByName("SumType")
	return ok
}

// ---------------------------------------------------------------- value <-> sx

func c10Fields(v reflect.Value) []sx.V {
	var out []sx.V
	t := v.Type()
	for i := 0; i < t.NumField(); i++ {
		f := v.Field(i)
		if (f.Kind() == reflect.Pointer || f.Kind() == reflect.Slice) && f.IsNil() {
			continue
		}
		out = append(out, sx.L(sx.A(t.Field(i).Name), c10ToSx(f)))
	}
	return out
}

func c10ToSx(v reflect.Value) sx.V {
	switch v.Kind() {
	case reflect.Uint32, reflect.Uint64:
		return sx.N(v.Uint())
	case reflect.Bool:
		return sx.B(v.Bool())
	case reflect.String:
		return sx.Str(v.String())
	case reflect.Pointer:
		return c10ToSx(v.Elem())
	case reflect.Array:
		b := make([]byte, v.Len())
		for i := range b {
			b[i] = byte(v.Index(i).Uint())
		}
		return sx.Bytes(b)
	case reflect.Slice:
		if v.Type().Elem().Kind() == reflect.Uint8 {
			return sx.Bytes(v.Bytes())
		}
		items := []sx.V{sx.A("v")}
		for i := 0; i < v.Len(); i++ {
			items = append(items, c10ToSx(v.Index(i)))
		}
		return sx.L(items...)
	case reflect.Struct:
		if c10IsSum(v.Type()) {
			name := v.FieldByName("SumType").String()
			items := []sx.V{sx.A("r")}
			if name == "" {
				return sx.L(sx.A("r"), sx.A("_"))
			}
			items = append(items, sx.A(name))
			if f := v.FieldByName(name); f.IsValid() && f.Kind() == reflect.Struct && name != "SumType" {
				items = append(items, c10Fields(f)...)
			}
			return sx.L(items...)
		}
		return sx.L(append([]sx.V{sx.A("r"), sx.A("_")}, c10Fields(v)...)...)
	}
	return sx.A("unsupported-kind")
}

func c10SetFields(dst reflect.Value, fs []sx.V) error {
	for _, f := range fs {
		if f.K != sx.KL || len(f.List) != 2 || f.List[0].K != sx.KA {
			return fmt.Errorf("bad field")
		}
		fv := dst.FieldByName(f.List[0].Atom)
		if !fv.IsValid() {
			return fmt.Errorf("no field %s", f.List[0].Atom)
		}
		if err := c10FromSx(fv, f.List[1]); err != nil {
			return err
		}
	}
	return nil
}

func c10FromSx(dst reflect.Value, s sx.V) error {
	switch dst.Kind() {
	case reflect.Uint32, reflect.Uint64:
		if s.K != sx.KN {
			return fmt.Errorf("number expected")
		}
		dst.SetUint(s.U64())
	case reflect.Bool:
		if s.K != sx.KB {
			return fmt.Errorf("bool expected")
		}
		dst.SetBool(s.Bool)
	case reflect.String:
		if s.K != sx.KBytes {
			return fmt.Errorf("bytes expected")
		}
		dst.SetString(string(s.Bytes))
	case reflect.Pointer:
		p := reflect.New(dst.Type().Elem())
		if err := c10FromSx(p.Elem(), s); err != nil {
			return err
		}
		dst.Set(p)
	case reflect.Array:
		if s.K != sx.KBytes || len(s.Bytes) != dst.Len() {
			return fmt.Errorf("array length")
		}
		for i, b := range s.Bytes {
			dst.Index(i).SetUint(uint64(b))
		}
	case reflect.Slice:
		if dst.Type().Elem().Kind() == reflect.Uint8 {
			if s.K != sx.KBytes {
				return fmt.Errorf("bytes expected")
			}
			dst.SetBytes(append([]byte{}, s.Bytes...))
			return nil
		}
		if s.Head() != "v" {
			return fmt.Errorf("vector expected")
		}
		sl := reflect.MakeSlice(dst.Type(), len(s.List)-1, len(s.List)-1)
		for i, x := range s.List[1:] {
			if err := c10FromSx(sl.Index(i), x); err != nil {
				return err
			}
		}
		dst.Set(sl)
	case reflect.Struct:
		if s.Head() != "r" || len(s.List) < 2 || s.List[1].K != sx.KA {
			return fmt.Errorf("record expected")
		}
		name := s.List[1].Atom
		if c10IsSum(dst.Type()) {
			if name == "_" {
				return nil
			}
			dst.FieldByName("SumType").SetString(name)
			sub := dst.FieldByName(name)
			if !sub.IsValid() || sub.Kind() != reflect.Struct || name == "SumType" {
				if len(s.List) > 2 {
					return fmt.Errorf("fields of an unknown constructor")
				}
				return nil
			}
			return c10SetFields(sub, s.List[2:])
		}
		return c10SetFields(dst, s.List[2:])
	default:
		return fmt.Errorf("unsupported kind %v", dst.Kind())
	}
	return nil
}

// ---------------------------------------------------------------- execs

func c10TypeArg(in sx.V) (reflect.Type, sx.V, bool) {
	c10Init()
	if in.K != sx.KL || len(in.List) != 2 || in.List[0].K != sx.KA {
		return nil, sx.V{}, false
	}
	t, ok := c10Types[in.List[0].Atom]
	return t, in.List[1], ok
}

func execC10Marshal(in sx.V) sx.V {
	t, sv, ok := c10TypeArg(in)
	if !ok {
		return sx.L(sx.A("harness-error"), sx.A("type"))
	}
	v := reflect.New(t).Elem()
	if err := c10FromSx(v, sv); err != nil {
		return sx.L(sx.A("harness-error"), sx.A("value"))
	}
	b, err := tl.Marshal(v.Interface())
	if err != nil {
		return sx.A("err")
	}
	return sx.Bytes(b)
}

func execC10Unmarshal(in sx.V) sx.V {
	t, sv, ok := c10TypeArg(in)
	if !ok || sv.K != sx.KBytes {
		return sx.L(sx.A("harness-error"), sx.A("type"))
	}
	p := reflect.New(t)
	r := bytes.NewReader(sv.Bytes)
	if err := tl.Unmarshal(r, p.Interface()); err != nil {
		return sx.A("err")
	}
	return sx.L(c10ToSx(p.Elem()), sx.Nat(r.Len()))
}

func execC10ReqDecode(in sx.V) sx.V {
	tag, name, v, err := liteclient.LiteapiRequestDecoder(append([]byte{}, in.Bytes...))
	if err != nil {
		return sx.A("err")
	}
	if v == nil || name == nil || *name == liteclient.UnknownRequest {
		return sx.L(sx.N(uint64(tag)), sx.A("unknown"))
	}
	return sx.L(sx.N(uint64(tag)), sx.Str(*name), c10ToSx(reflect.ValueOf(v)))
}

func execC10Sizeof(in sx.V) sx.V {
	c10Init()
	t, ok := c10Types[in.Atom]
	if !ok {
		return sx.L(sx.A("harness-error"), sx.A("type"))
	}
	return sx.N(uint64(t.Size()))
}

type c10Null struct{}

func (c10Null) XORKeyStream(dst, src []byte) { copy(dst, src) }

// c10Call runs one (*Client).LiteServerXxx method over an in-process pipe: the
// other end plays the lite server, records the liteServer.query payload and
// answers with resp.  Returns the payload, the method's results.
func c10Call(m c10Method, req reflect.Value, resp []byte) (payload []byte, res reflect.Value, rerr error, herr error) {
	cliEnd, srvEnd := net.Pipe()
	defer cliEnd.Close()
	defer srvEnd.Close()
	conn := liteclient.VerifNewConnection(cliEnd, c10Null{}, c10Null{})
	cl := liteclient.VerifNewClient([]*liteclient.Connection{conn}, 5*time.Second)
	got := make(chan []byte, 1)
	fail := make(chan error, 1)
	go func() {
		p, err := liteclient.ParsePacket(bufio.NewReader(srvEnd), c10Null{})
		if err != nil {
			fail <- err
			return
		}
		// adnl.message.query query_id:int256 query:bytes
		pl := p.Payload
		if len(pl) < 37 || binary.LittleEndian.Uint32(pl[:4]) != 0xb48bf97a {
			fail <- fmt.Errorf("not an adnl query")
			return
		}
		id := pl[4:36]
		q, _, ok := c10ReadBytes(pl[36:])
		if !ok || len(q) < 5 || binary.LittleEndian.Uint32(q[:4]) != 0x798c06df {
			fail <- fmt.Errorf("not a liteServer.query")
			return
		}
		inner, _, ok := c10ReadBytes(q[4:])
		if !ok {
			fail <- fmt.Errorf("bad liteServer.query data")
			return
		}
		got <- inner
		ans := make([]byte, 4)
		binary.LittleEndian.PutUint32(ans, 0x0fac8416)
		ans = append(ans, id...)
		ans = append(ans, c10RefBytes(resp)...)
		ap, err := liteclient.NewPacket(ans)
		if err != nil {
			return
		}
		_, _ = srvEnd.Write(liteclient.VerifMarshalPacket(ap))
	}()
	args := []reflect.Value{reflect.ValueOf(context.Background())}
	if m.req != nil {
		args = append(args, req)
	}
	out := reflect.ValueOf(cl).MethodByName(m.name).Call(args)
	select {
	case payload = <-got:
	case herr = <-fail:
		return
	default:
		// the method failed before sending anything (marshal error)
		payload = nil
	}
	res = out[0]
	if !out[1].IsNil() {
		rerr = out[1].Interface().(error)
	}
	return
}

// reference TL bytes codec of the harness (written from the TL specification)
func c10RefBytes(b []byte) []byte {
	var out []byte
	if len(b) < 254 {
		out = append(out, byte(len(b)))
	} else {
		out = append(out, 254, byte(len(b)), byte(len(b)>>8), byte(len(b)>>16))
	}
	out = append(out, b...)
	for len(out)%4 != 0 {
		out = append(out, 0)
	}
	return out
}

func c10ReadBytes(b []byte) (data, rest []byte, ok bool) {
	if len(b) == 0 {
		return nil, nil, false
	}
	n, h := int(b[0]), 1
	if b[0] == 254 {
		if len(b) < 4 {
			return nil, nil, false
		}
		n, h = int(b[1])|int(b[2])<<8|int(b[3])<<16, 4
	} else if b[0] == 255 {
		return nil, nil, false
	}
	if len(b) < h+n {
		return nil, nil, false
	}
	end := h + n
	for end%4 != 0 {
		end++
	}
	if len(b) < end {
		return nil, nil, false
	}
	return b[h : h+n], b[end:], true
}

func c10FindMethod(name string) (c10Method, bool) {
	c10Init()
	for _, m := range c10Methods {
		if m.name == name {
			return m, true
		}
	}
	return c10Method{}, false
}

// ('Method request|'none response-bytes) -> (payload outcome)
func execC10Request(in sx.V) sx.V {
	if in.K != sx.KL || len(in.List) != 3 || in.List[0].K != sx.KA || in.List[2].K != sx.KBytes {
		return sx.L(sx.A("harness-error"), sx.A("shape"))
	}
	m, ok := c10FindMethod(in.List[0].Atom)
	if !ok {
		return sx.L(sx.A("harness-error"), sx.A("method"))
	}
	var req reflect.Value
	if m.req != nil {
		req = reflect.New(m.req).Elem()
		if err := c10FromSx(req, in.List[1]); err != nil {
			return sx.L(sx.A("harness-error"), sx.A("value"))
		}
	}
	payload, res, rerr, herr := c10Call(m, req, in.List[2].Bytes)
	if herr != nil {
		return sx.L(sx.A("harness-error"), sx.A("server"))
	}
	if payload == nil {
		return sx.A("err")
	}
	var oc sx.V
	switch e := rerr.(type) {
	case nil:
		oc = sx.L(sx.A("result"), c10ToSx(res))
	case liteclient.LiteServerErrorC:
		oc = sx.L(sx.A("lserror"), c10ToSx(reflect.ValueOf(e)))
	default:
		oc = sx.A("err")
	}
	return sx.L(sx.Bytes(payload), oc)
}

// ---------------------------------------------------------------- generators

type c10Gen struct {
	r     *prng.R
	big   int  // percentage of byte strings that get a boundary length
	holes bool // leave pointers / slices nil at random
	maxV  int  // vector length bound
}

var c10Lens = []int{0, 1, 2, 3, 4, 5, 7, 8, 252, 253, 254, 255, 256, 257, 258, 259, 260}
var c10U32 = []uint64{0, 1, 2, 0x7f, 0x80, 0xff, 0x100, 0xffff, 0x10000, 0x7fffffff, 0x80000000, 0xfffffffe, 0xffffffff}
var c10U64 = []uint64{0, 1, 0xff, 0x100, 0xffffffff, 0x100000000, 0x7fffffffffffffff, 0x8000000000000000, 0xffffffffffffffff}

func (g *c10Gen) bytes() []byte {
	if g.r.Chance(g.big) {
		return g.r.Bytes(g.r.Pick(c10Lens))
	}
	return g.r.Bytes(g.r.Intn(24))
}

func (g *c10Gen) fill(v reflect.Value, depth int) {
	switch v.Kind() {
	case reflect.Uint32:
		if g.r.Chance(40) {
			v.SetUint(c10U32[g.r.Intn(len(c10U32))])
		} else {
			v.SetUint(g.r.U64() & 0xffffffff)
		}
	case reflect.Uint64:
		if g.r.Chance(40) {
			v.SetUint(c10U64[g.r.Intn(len(c10U64))])
		} else {
			v.SetUint(g.r.U64())
		}
	case reflect.Bool:
		v.SetBool(g.r.Bool())
	case reflect.String:
		v.SetString(string(g.bytes()))
	case reflect.Array:
		for i := 0; i < v.Len(); i++ {
			v.Index(i).SetUint(g.r.U64() & 0xff)
		}
	case reflect.Pointer:
		if g.holes && g.r.Chance(30) {
			return
		}
		p := reflect.New(v.Type().Elem())
		g.fill(p.Elem(), depth+1)
		v.Set(p)
	case reflect.Slice:
		if g.holes && g.r.Chance(15) {
			return
		}
		if v.Type().Elem().Kind() == reflect.Uint8 {
			b := g.bytes()
			if b == nil {
				b = []byte{}
			}
			v.SetBytes(b)
			return
		}
		n := 0
		switch k := g.r.Intn(10); {
		case k < 2:
			n = 0
		case k < 5:
			n = 1
		case k < 8:
			n = 2 + g.r.Intn(3)
		default:
			n = g.r.Intn(g.maxV + 1)
		}
		if depth > 2 && n > 3 {
			n = 3
		}
		sl := reflect.MakeSlice(v.Type(), n, n)
		for i := 0; i < n; i++ {
			g.fill(sl.Index(i), depth+1)
		}
		v.Set(sl)
	case reflect.Struct:
		t := v.Type()
		if c10IsSum(t) {
			var names []string
			for i := 0; i < t.NumField(); i++ {
				if t.Field(i).Name != "SumType" {
					names = append(names, t.Field(i).Name)
				}
			}
			n := names[g.r.Intn(len(names))]
			v.FieldByName("SumType").SetString(n)
			g.fill(v.FieldByName(n), depth+1)
			return
		}
		for i := 0; i < t.NumField(); i++ {
			f := v.Field(i)
			if t.Field(i).Name == "Mode" && f.Kind() == reflect.Uint32 {
				switch k := g.r.Intn(10); {
				case k < 5:
					f.SetUint(g.r.U64() & 0xff)
				case k < 6:
					f.SetUint(0)
				case k < 7:
					f.SetUint(0xffffffff)
				default:
					f.SetUint(g.r.U64() & 0xffffffff)
				}
				continue
			}
			g.fill(f, depth+1)
		}
	}
}

// canonical: every optional field present exactly when its mode bit is set —
// obtained by encoding a fully populated value and decoding it again
func c10Canon(v reflect.Value) (reflect.Value, []byte, bool) {
	b, err := tl.Marshal(v.Interface())
	if err != nil {
		return v, nil, false
	}
	p := reflect.New(v.Type())
	r := bytes.NewReader(b)
	if err := tl.Unmarshal(r, p.Interface()); err != nil || r.Len() != 0 {
		return v, b, false
	}
	return p.Elem(), b, true
}

func c10Category(t reflect.Type) string {
	cat := "plain"
	switch {
	case c10IsSum(t):
		cat = "sum"
	case t.Name() == "LiteServerSignatureSet":
		cat = "wrapper"
	case strings.HasSuffix(t.Name(), "Request"):
		cat = "request"
	}
	if _, ok := t.FieldByName("Mode"); ok {
		for i := 0; i < t.NumField(); i++ {
			if t.Field(i).Type.Kind() == reflect.Pointer {
				return cat + "-optional"
			}
		}
		return cat + "-mode"
	}
	for i := 0; i < t.NumField(); i++ {
		ft := t.Field(i).Type
		if ft.Kind() == reflect.Slice && ft.Elem().Kind() != reflect.Uint8 {
			return cat + "-vector"
		}
	}
	return cat
}

func c10Size(n int) string {
	switch {
	case n < 64:
		return "<64"
	case n < 256:
		return "<256"
	case n < 1024:
		return "<1k"
	case n < 65536:
		return "<64k"
	}
	return ">=64k"
}

func c10Case(name string, v sx.V) sx.V { return sx.L(sx.A(name), v) }

// emit; a 'harness-error result means the harness (not tongo) is broken
func (c *Ctx) c10Emit(kind string, in sx.V, class string) sx.V {
	out := c.Emit(kind, in, class)
	if out.Head() == "harness-error" {
		c.Fail(kind, in, "c10-harness", "the harness could not run this case: "+out.String())
	}
	return out
}

// one canonical value: marshal (model and spec must agree), unmarshal of the
// bytes followed by junk (prefix property), Go-side oracles
func (c *Ctx) c10Canonical(t reflect.Type, g *c10Gen, tag string) {
	v := reflect.New(t).Elem()
	g.fill(v, 0)
	cv, _, ok := c10Canon(v)
	in := c10Case(t.Name(), c10ToSx(cv))
	if !ok {
		c.Fail("c10.cmarshal", c10Case(t.Name(), c10ToSx(v)), "c10-canon", "Unmarshal(Marshal(v)) failed or left bytes for a fully populated value")
		return
	}
	b, err := tl.Marshal(cv.Interface())
	class := tag + "|" + c10Category(t) + "|" + c10Size(len(b))
	out := c.c10Emit("c10.cmarshal", in, class)
	if err != nil || out.K != sx.KBytes {
		c.Fail("c10.cmarshal", in, "c10-marshal-error", "MarshalTL of a canonical value failed")
		return
	}
	if len(b)%4 != 0 {
		c.Fail("c10.cmarshal", in, "c10-align", "encoding is not a multiple of 4 bytes")
	}
	junk := g.r.Bytes(g.r.Intn(9))
	ub := append(append([]byte{}, b...), junk...)
	uin := c10Case(t.Name(), sx.Bytes(ub))
	c.c10Emit("c10.cunmarshal", uin, class)
	p := reflect.New(t)
	rd := bytes.NewReader(ub)
	if err := tl.Unmarshal(rd, p.Interface()); err != nil {
		c.Fail("c10.cunmarshal", uin, "c10-roundtrip", "UnmarshalTL rejects MarshalTL output")
	} else if rd.Len() != len(junk) || !reflect.DeepEqual(p.Elem().Interface(), cv.Interface()) {
		c.Fail("c10.cunmarshal", uin, "c10-roundtrip", "UnmarshalTL(MarshalTL(v) ++ junk) is not (v, junk)")
	}
}

// arbitrary value (optional fields present or absent regardless of the mode)
func (c *Ctx) c10Arbitrary(t reflect.Type, g *c10Gen) {
	v := reflect.New(t).Elem()
	g.fill(v, 0)
	c.c10Emit("c10.marshal", c10Case(t.Name(), c10ToSx(v)), "holes|"+c10Category(t))
}

// damaged encodings: truncation and byte substitution of a valid encoding
func (c *Ctx) c10Damaged(t reflect.Type, g *c10Gen, n int) {
	v := reflect.New(t).Elem()
	g.fill(v, 0)
	cv, b, ok := c10Canon(v)
	_ = cv
	if !ok || len(b) == 0 {
		return
	}
	for i := 0; i < n; i++ {
		m := append([]byte{}, b...)
		kind := "trunc"
		switch g.r.Intn(3) {
		case 0:
			m = m[:g.r.Intn(len(m))]
		case 1:
			kind = "subst"
			m[g.r.Intn(len(m))] = byte(g.r.Pick([]int{0, 1, 253, 254, 255, int(g.r.U64() & 0xff)}))
		default:
			kind = "subst-head"
			k := len(m)
			if k > 12 {
				k = 12
			}
			m[g.r.Intn(k)] ^= byte(1 << g.r.Intn(8))
		}
		c.c10Emit("c10.unmarshal", c10Case(t.Name(), sx.Bytes(m)), "damaged|"+kind+"|"+c10Category(t))
	}
}

func (c *Ctx) c10ByteLengths() {
	// liteServer.sendMessage body:bytes — every length of the sweep through both directions
	t := reflect.TypeOf(liteclient.LiteServerSendMessageRequest{})
	et := reflect.TypeOf(liteclient.LiteServerErrorC{})
	var lens []int
	top := c.Scale(300, 1100)
	for n := 0; n <= top; n++ {
		lens = append(lens, n)
	}
	if !c.Thorough() {
		for n := 301; n <= 1100; n += 37 {
			lens = append(lens, n)
		}
		lens = append(lens, 1020, 1021, 1022, 1023, 1024, 1025, 1100)
	}
	// readN switches from make+ReadFull to a growing buffer above maxPrealloc = 4096; io.CopyN copies in 32 KiB chunks
	lens = append(lens, 4092, 4093, 4094, 4095, 4096, 4097, 4098, 4099, 4100, 8191, 8192, 8193, 32767, 32768, 32769)
	lens = append(lens, 65531, 65532, 65533, 65534, 65535, 65536, 65537, 65540)
	if c.Thorough() {
		lens = append(lens, 1<<18-1, 1<<18, 1<<18+1, 1<<18+2) // larger lists overflow the stack of the extracted model
	}
	for _, n := range lens {
		body := c.R.Bytes(n)
		bucket := "short"
		switch {
		case n >= 65530:
			bucket = "around-64k"
		case n >= 4090:
			bucket = "around-4096"
		case n >= 254:
			bucket = "escape"
		case n >= 250:
			bucket = "near-254"
		}
		bucket += fmt.Sprintf("|mod4=%d", n%4)
		v := liteclient.LiteServerSendMessageRequest{Body: body}
		in := c10Case(t.Name(), c10ToSx(reflect.ValueOf(v)))
		out := c.c10Emit("c10.cmarshal", in, "bytes|"+bucket)
		want := c10RefBytes(body)
		if out.K != sx.KBytes || !bytes.Equal(out.Bytes, want) {
			c.Fail("c10.cmarshal", in, "c10-bytes-layout", fmt.Sprintf("bytes of length %d are not laid out as length prefix, data, zero padding to 4", n))
		}
		c.c10Emit("c10.cunmarshal", c10Case(t.Name(), sx.Bytes(append(want, 0xaa, 0xbb))), "bytes|"+bucket)
		if n <= 1100 {
			e := liteclient.LiteServerErrorC{Code: uint32(n), Message: string(body)}
			ein := c10Case(et.Name(), c10ToSx(reflect.ValueOf(e)))
			eo := c.c10Emit("c10.cmarshal", ein, "string|"+bucket)
			ew := append([]byte{byte(n), byte(n >> 8), 0, 0}, want...)
			if eo.K != sx.KBytes || !bytes.Equal(eo.Bytes, ew) {
				c.Fail("c10.cmarshal", ein, "c10-bytes-layout", fmt.Sprintf("string of length %d is not laid out as length prefix, data, zero padding to 4", n))
			}
		}
	}
	// the 2^24 boundary on the implementation alone (lists of this size are beyond the
	// extracted model): 2^24-1 bytes round-trip, 2^24 bytes have no TL encoding and are refused
	{
		big := c.R.Bytes(1 << 24)
		mark := sx.L(sx.A(t.Name()), sx.A("body-of-2^24-bytes"))
		if _, err := tl.Marshal(liteclient.LiteServerSendMessageRequest{Body: big}); err == nil {
			c.Fail("c10.cmarshal", mark, "c10-bytes-2p24", "a byte string of 2^24 bytes is encoded (with a wrapped 24-bit length) instead of refused")
		}
		if _, err := tl.Marshal(liteclient.LiteServerErrorC{Message: string(big)}); err == nil {
			c.Fail("c10.cmarshal", mark, "c10-bytes-2p24", "a string of 2^24 bytes is encoded (with a wrapped 24-bit length) instead of refused")
		}
		b, err := tl.Marshal(liteclient.LiteServerSendMessageRequest{Body: big[:1<<24-1]})
		var back liteclient.LiteServerSendMessageRequest
		if err != nil || len(b) != 1<<24+4 || !bytes.Equal(b[:4], []byte{0xfe, 0xff, 0xff, 0xff}) || b[len(b)-1] != 0 ||
			tl.Unmarshal(bytes.NewReader(b), &back) != nil || !bytes.Equal(back.Body, big[:1<<24-1]) {
			c.Fail("c10.cmarshal", sx.L(sx.A(t.Name()), sx.A("body-of-2^24-1-bytes")), "c10-bytes-layout", "a byte string of 2^24-1 bytes does not round-trip with prefix fe ff ff ff")
		}
	}
	// length prefixes alone, including the 2^24 boundary where TL has no encoding
	for _, n := range []int{0, 1, 253, 254, 255, 256, 65535, 65536, 1<<24 - 2, 1<<24 - 1} {
		c.c10Emit("c10.enclen", sx.Nat(n), "enclen")
	}
	// non-canonical but accepted forms: 0xfe prefix for a short string, non-zero padding
	for _, n := range []int{0, 1, 5, 253} {
		body := c.R.Bytes(n)
		m := append([]byte{254, byte(n), 0, 0}, body...)
		for len(m)%4 != 0 {
			m = append(m, 0)
		}
		c.c10Emit("c10.unmarshal", c10Case(t.Name(), sx.Bytes(m)), "bytes|long-form-of-short")
		w := c10RefBytes(body)
		if len(w) > 1+n {
			w[len(w)-1] = 0x77
			c.c10Emit("c10.unmarshal", c10Case(t.Name(), sx.Bytes(w)), "bytes|nonzero-padding")
		}
	}
	c.c10Emit("c10.unmarshal", c10Case(t.Name(), sx.Bytes([]byte{255, 0, 0, 0})), "bytes|prefix-255")
}

func (c *Ctx) c10Requests(g *c10Gen) {
	errT := reflect.TypeOf(liteclient.LiteServerErrorC{})
	per := c.Scale(6, 40)
	for _, m := range c10Methods {
		for i := 0; i < per; i++ {
			reqSx := sx.A("none")
			if m.req != nil {
				v := reflect.New(m.req).Elem()
				g.fill(v, 0)
				if i%3 != 2 {
					if cv, _, ok := c10Canon(v); ok {
						v = cv
					}
				}
				reqSx = c10ToSx(v)
			}
			// the answer: a boxed result, a boxed liteServer.error, or something else
			var resp []byte
			kind := "result"
			switch i % 6 {
			case 0, 1, 2:
				rv := reflect.New(m.res).Elem()
				g.fill(rv, 0)
				if cv, _, ok := c10Canon(rv); ok {
					rv = cv
				}
				body, _ := tl.Marshal(rv.Interface())
				resp = append(c10ResultID(m), body...)
			case 3:
				kind = "error"
				ev := reflect.New(errT).Elem()
				g.fill(ev, 0)
				body, _ := tl.Marshal(ev.Interface())
				resp = append([]byte{0x48, 0xe1, 0xa9, 0xbb}, body...)
			case 4:
				kind = "foreign-tag"
				resp = g.r.Bytes(4 + g.r.Intn(16))
				if i >= 6 || g.r.Bool() {
					// a complete, valid result body under a constructor id that is not the result's
					kind = "foreign-tag-valid-body"
					rv := reflect.New(m.res).Elem()
					g.fill(rv, 0)
					if cv, _, ok := c10Canon(rv); ok {
						rv = cv
					}
					body, _ := tl.Marshal(rv.Interface())
					resp = append(c10ForeignID(c10ResultID(m), g.r), body...)
				}
			default:
				kind = "short"
				rv := reflect.New(m.res).Elem()
				g.fill(rv, 0)
				body, _ := tl.Marshal(rv.Interface())
				resp = append(c10ResultID(m), body...)
				resp = resp[:g.r.Intn(len(resp))]
			}
			in := sx.L(sx.A(m.name), reqSx, sx.Bytes(resp))
			c.c10Emit("c10.request", in, "request|"+kind)
		}
	}
}

// the constructor id the real method accepts for its result: Go offers no way
// to read it off the type, so it is discovered once per method by offering the
// method every id that occurs in the schema file.
var c10ResIDs map[string][]byte

func c10ResultID(m c10Method) []byte {
	if c10ResIDs == nil {
		c10ResIDs = map[string][]byte{}
	}
	if id, ok := c10ResIDs[m.name]; ok {
		return id
	}
	id := []byte{0, 0, 0, 0}
	for _, cand := range c10SchemaIDs() {
		var req reflect.Value
		if m.req != nil {
			req = reflect.New(m.req).Elem()
		}
		_, _, rerr, herr := c10Call(m, req, cand)
		if herr == nil && (rerr == nil || !strings.Contains(rerr.Error(), "invalid tag")) {
			if _, isErr := rerr.(liteclient.LiteServerErrorC); !isErr && !bytes.Equal(cand, []byte{0x48, 0xe1, 0xa9, 0xbb}) {
				id = cand
				break
			}
		}
	}
	c10ResIDs[m.name] = id
	return id
}

// generator -> artifact pairs: `go run generator.go` in a scratch module whose
// tongo is the tree under check must reproduce the checked-in file (after gofmt)
func (c *Ctx) c10Regen(dir, input, output string) {
	root := os.Getenv("VERIF_REPO")
	if root == "" {
		root = "/repo"
	}
	mark := sx.L(sx.A("regenerate"), sx.Str(dir+"/"+output))
	fail := func(what string) { c.Fail("c10.regen", mark, "c10-regen-"+dir, what) }
	tmp, err := os.MkdirTemp("", "c10regen")
	if err != nil {
		fail("no scratch directory")
		return
	}
	defer os.RemoveAll(tmp)
	cp := func(from, to string) bool {
		b, err := os.ReadFile(from)
		if err != nil {
			return false
		}
		return os.WriteFile(to, b, 0o644) == nil
	}
	gomod := "module c10regen\n\ngo 1.19\n\nrequire github.com/tonkeeper/tongo v0.0.0\n\nreplace github.com/tonkeeper/tongo => " + root + "\n"
	if os.WriteFile(filepath.Join(tmp, "go.mod"), []byte(gomod), 0o644) != nil ||
		!cp(filepath.Join(root, "go.sum"), filepath.Join(tmp, "go.sum")) ||
		!cp(filepath.Join(root, dir, "generator.go"), filepath.Join(tmp, "generator.go")) ||
		(input != "" && !cp(filepath.Join(root, dir, input), filepath.Join(tmp, input))) {
		fail("generator sources not found")
		return
	}
	cmd := exec.Command("go", "run", "generator.go")
	cmd.Dir = tmp
	cmd.Env = append(os.Environ(), "GOFLAGS=-mod=mod", "GOPROXY=off", "GOSUMDB=off", "GOTOOLCHAIN=local", "CGO_ENABLED=0")
	if out, err := cmd.CombinedOutput(); err != nil {
		fail("go run generator.go failed: " + trunc(string(out), 300))
		return
	}
	got, err := os.ReadFile(filepath.Join(tmp, output))
	if err != nil {
		fail("the generator wrote no " + output)
		return
	}
	got, err = format.Source(got)
	if err != nil {
		fail("the generator's output does not parse")
		return
	}
	want, err := os.ReadFile(filepath.Join(root, dir, output))
	if err != nil || !bytes.Equal(got, want) {
		fail("the checked-in " + dir + "/" + output + " is not what generator.go produces from the checked-in sources")
	}
}

func genC10(c *Ctx) {
	c10Init()
	c.c10Regen("liteclient", "lite_api.tl", "generated.go")
	c.c10Regen("tlb", "", "integers.go")
	// naming function of the generator
	for _, s := range []string{"liteServer.getMasterchainInfo", "tonNode.blockIdExt", "init_c7", "mc_block_id", "adnl.message.query",
		"liteServer.debug.verbosity", "a1b", "x_1_y", "Already", "__x", "", "a-b c.d", "r2d2_unit", "ABC_def"} {
		c.c10Emit("c10.camel", sx.Str(s), "camel")
	}
	for _, n := range c10Names {
		c.c10Emit("c10.sizeof", sx.A(n), "sizeof")
	}
	c.c10ByteLengths()
	c.c10HandCodecs()
	c.c10Framing()
	c.c10Words()
	c.c10Truncations()
	c.c10Vectors()
	c.c10R8()
	per := c.Scale(8, 60)
	for _, n := range c10Names {
		t := c10Types[n]
		for i := 0; i < per; i++ {
			g := &c10Gen{r: c.R, big: 10, maxV: c.Scale(12, 50)}
			if i%4 == 3 {
				g.big = 60
			}
			c.c10Canonical(t, g, "canon")
		}
		for i := 0; i < c.Scale(3, 12); i++ {
			c.c10Arbitrary(t, &c10Gen{r: c.R, big: 10, maxV: 6, holes: true})
		}
		c.c10Damaged(t, &c10Gen{r: c.R, big: 10, maxV: 4}, c.Scale(3, 12))
	}
	// all mode-bit combinations of the low byte for every type with optional fields
	for _, n := range c10Names {
		t := c10Types[n]
		if !strings.HasSuffix(c10Category(t), "-optional") && !strings.HasSuffix(c10Category(t), "-mode") {
			continue
		}
		step := c.Scale(5, 1)
		for mode := 0; mode < 256; mode += step {
			v := reflect.New(t).Elem()
			g := &c10Gen{r: c.R, big: 5, maxV: 3}
			g.fill(v, 0)
			v.FieldByName("Mode").SetUint(uint64(mode) | uint64(c.R.Intn(2))<<31)
			cv, b, ok := c10Canon(v)
			if !ok {
				c.Fail("c10.cmarshal", c10Case(n, c10ToSx(v)), "c10-canon", "Unmarshal(Marshal(v)) failed for a fully populated value")
				continue
			}
			class := "modes|" + c10Category(t)
			c.c10Emit("c10.cmarshal", c10Case(n, c10ToSx(cv)), class)
			c.c10Emit("c10.cunmarshal", c10Case(n, sx.Bytes(b)), class)
		}
	}
	// request decoder table
	g := &c10Gen{r: c.R, big: 10, maxV: 6}
	for _, m := range c10Methods {
		rt, ok := c10Types[m.name+"Request"]
		if !ok {
			continue
		}
		for i := 0; i < c.Scale(3, 12); i++ {
			v := reflect.New(rt).Elem()
			g.fill(v, 0)
			cv, body, ok := c10Canon(v)
			_ = cv
			if !ok {
				continue
			}
			id := c10RequestID(m)
			msg := append(append([]byte{}, id...), body...)
			c.c10Emit("c10.reqdecode", sx.Bytes(msg), "reqdecode|valid")
			if len(msg) > 4 && i == 0 {
				c.c10Emit("c10.reqdecode", sx.Bytes(msg[:4+c.R.Intn(len(msg)-4)]), "reqdecode|truncated")
			}
			if i == 1 {
				c.c10Emit("c10.reqdecode", sx.Bytes(append(c10ForeignID(id, c.R), body...)), "reqdecode|foreign-id")
			}
		}
	}
	for i := 0; i < c.Scale(10, 60); i++ {
		c.c10Emit("c10.reqdecode", sx.Bytes(c.R.Bytes(c.R.Intn(12))), "reqdecode|random")
	}
	c.c10Requests(g)
}

// the request id a method sends: observed on the wire
var c10ReqIDs map[string][]byte

func c10RequestID(m c10Method) []byte {
	if c10ReqIDs == nil {
		c10ReqIDs = map[string][]byte{}
	}
	if id, ok := c10ReqIDs[m.name]; ok {
		return id
	}
	var req reflect.Value
	if m.req != nil {
		req = reflect.New(m.req).Elem()
	}
	payload, _, _, _ := c10Call(m, req, []byte{0, 0, 0, 0})
	id := []byte{0, 0, 0, 0}
	if len(payload) >= 4 {
		id = append([]byte{}, payload[:4]...)
	}
	c10ReqIDs[m.name] = id
	return id
}

// every "#xxxxxxxx" of the types section of lite_api.tl, little-endian: only a
// list of candidates to probe the methods with
func c10SchemaIDs() [][]byte {
	root := os.Getenv("VERIF_REPO")
	if root == "" {
		root = "/repo"
	}
	src, err := os.ReadFile(filepath.Join(root, "liteclient", "lite_api.tl"))
	if err != nil {
		return nil
	}
	var out [][]byte
	for _, line := range strings.Split(string(src), "\n") {
		if strings.HasPrefix(strings.TrimSpace(line), "---functions---") {
			break
		}
		if i := strings.Index(line, "//"); i >= 0 {
			line = line[:i]
		}
		i := strings.IndexByte(line, '#')
		if i < 0 || len(line) < i+9 {
			continue
		}
		v, err := strconv.ParseUint(line[i+1:i+9], 16, 32)
		if err != nil {
			continue
		}
		b := make([]byte, 4)
		binary.LittleEndian.PutUint32(b, uint32(v))
		out = append(out, b)
	}
	return out
}

// ---------------------------------------------------------------- basic kinds and vectors of them

// descriptor: 'u32 | 'u64 | 'bytes | 'string | 'bool | 'int256 | ('vec d) | 'TypeName
func c10DescType(d sx.V) (reflect.Type, bool) {
	c10Init()
	if d.K == sx.KA {
		switch d.Atom {
		case "u32":
			return reflect.TypeOf(uint32(0)), true
		case "u64":
			return reflect.TypeOf(uint64(0)), true
		case "bytes":
			return reflect.TypeOf([]byte(nil)), true
		case "string":
			return reflect.TypeOf(""), true
		case "bool":
			return reflect.TypeOf(false), true
		case "int256":
			return c10Int256, true
		}
		t, ok := c10Types[d.Atom]
		return t, ok
	}
	if d.K == sx.KL && len(d.List) == 2 && d.List[0].IsA("vec") {
		t, ok := c10DescType(d.List[1])
		if !ok {
			return nil, false
		}
		return reflect.SliceOf(t), true
	}
	return nil, false
}

func execC10BMarshal(in sx.V) sx.V {
	if in.K != sx.KL || len(in.List) != 2 {
		return sx.L(sx.A("harness-error"), sx.A("shape"))
	}
	t, ok := c10DescType(in.List[0])
	if !ok {
		return sx.L(sx.A("harness-error"), sx.A("desc"))
	}
	v := reflect.New(t).Elem()
	if err := c10FromSx(v, in.List[1]); err != nil {
		return sx.L(sx.A("harness-error"), sx.A("value"))
	}
	b, err := tl.Marshal(v.Interface())
	if err != nil {
		return sx.A("err")
	}
	return sx.Bytes(b)
}

func execC10BUnmarshal(in sx.V) sx.V {
	if in.K != sx.KL || len(in.List) != 2 || in.List[1].K != sx.KBytes {
		return sx.L(sx.A("harness-error"), sx.A("shape"))
	}
	t, ok := c10DescType(in.List[0])
	if !ok {
		return sx.L(sx.A("harness-error"), sx.A("desc"))
	}
	p := reflect.New(t)
	r := bytes.NewReader(in.List[1].Bytes)
	if err := tl.Unmarshal(r, p.Interface()); err != nil {
		return sx.A("err")
	}
	return sx.L(c10ToSx(p.Elem()), sx.Nat(r.Len()))
}

// ---------------------------------------------------------------- hand-written codecs

func c10Hash(b []byte) (h [32]byte, ok bool) {
	if len(b) != 32 {
		return h, false
	}
	copy(h[:], b)
	return h, true
}

func execC10Hand(in sx.V) sx.V {
	bad := sx.L(sx.A("harness-error"), sx.A("hand"))
	if in.K != sx.KL || len(in.List) < 2 || in.List[0].K != sx.KA {
		return bad
	}
	a := in.List[1:]
	marshal := a[0].IsA("m")
	switch in.List[0].Atom {
	case "accountid":
		if marshal {
			if len(a) != 3 {
				return bad
			}
			h, ok := c10Hash(a[2].Bytes)
			if !ok {
				return bad
			}
			b, err := tl.Marshal(ton.AccountID{Workchain: int32(uint32(a[1].U64())), Address: h})
			return errOr(err, sx.Bytes(b))
		}
		var id ton.AccountID
		r := bytes.NewReader(a[1].Bytes)
		if err := tl.Unmarshal(r, &id); err != nil {
			return sx.A("err")
		}
		return sx.L(sx.N(uint64(uint32(id.Workchain))), sx.Bytes(id.Address[:]), sx.Nat(r.Len()))
	case "blockid":
		if marshal {
			if len(a) != 4 {
				return bad
			}
			b, err := tl.Marshal(ton.BlockID{Workchain: int32(uint32(a[1].U64())), Shard: a[2].U64(), Seqno: uint32(a[3].U64())})
			return errOr(err, sx.Bytes(b))
		}
		var id ton.BlockID
		r := bytes.NewReader(a[1].Bytes)
		if err := tl.Unmarshal(r, &id); err != nil {
			return sx.A("err")
		}
		return sx.L(sx.N(uint64(uint32(id.Workchain))), sx.N(id.Shard), sx.N(uint64(id.Seqno)), sx.Nat(r.Len()))
	case "blockidext":
		if marshal {
			if len(a) != 6 {
				return bad
			}
			rh, ok1 := c10Hash(a[4].Bytes)
			fh, ok2 := c10Hash(a[5].Bytes)
			if !ok1 || !ok2 {
				return bad
			}
			id := ton.BlockIDExt{BlockID: ton.BlockID{Workchain: int32(uint32(a[1].U64())), Shard: a[2].U64(), Seqno: uint32(a[3].U64())},
				RootHash: ton.Bits256(rh), FileHash: ton.Bits256(fh)}
			b, err := tl.Marshal(id)
			return errOr(err, sx.Bytes(b))
		}
		var id ton.BlockIDExt
		if err := id.UnmarshalTL(append([]byte{}, a[1].Bytes...)); err != nil {
			return sx.A("err")
		}
		return sx.L(sx.N(uint64(uint32(id.Workchain))), sx.N(id.Shard), sx.N(uint64(id.Seqno)), sx.Bytes(id.RootHash[:]), sx.Bytes(id.FileHash[:]))
	case "vmstack":
		if len(a) != 2 {
			return bad
		}
		frame := append(c10RefBytes(a[0].Bytes), a[1].Bytes...)
		var s tlb.VmStack
		r := bytes.NewReader(frame)
		if err := s.UnmarshalTL(r); err != nil {
			return sx.A("err")
		}
		return sx.Nat(r.Len())
	}
	return bad
}

var c10WC = []uint64{0, 1, 2, 0xff, 0x100, 0x01020304, 0x7fffffff, 0x80000000, 0xfffffffe, 0xffffffff, 0xff000000, 0x00ffffff}
var c10Shard = []uint64{0x8000000000000000, 0, 1, 0x0102030405060708, 0xffffffffffffffff, 0x4000000000000000, 0xc000000000000000, 0x00000000ffffffff}
var c10Seqno = []uint64{0, 1, 2, 0x01020304, 0xfffffffe, 0xffffffff, 0x80000000}

func (c *Ctx) c10HandCodecs() {
	n := c.Scale(40, 400)
	pick := func(xs []uint64, mask uint64) uint64 {
		if c.R.Chance(60) {
			return xs[c.R.Intn(len(xs))]
		}
		return c.R.U64() & mask
	}
	for i := 0; i < n; i++ {
		wc := pick(c10WC, 0xffffffff)
		if i < len(c10WC) {
			wc = c10WC[i]
		}
		sh := pick(c10Shard, ^uint64(0))
		sq := pick(c10Seqno, 0xffffffff)
		rh, _ := c10Hash(c.R.Bytes(32))
		fh, _ := c10Hash(c.R.Bytes(32))
		junk := c.R.Bytes(c.R.Intn(6))
		wcClass := "wc-other"
		switch wc {
		case 0, 0xffffffff:
			wcClass = "wc-0/-1"
		}
		// ton.AccountID  <->  liteServer.accountId
		aid := ton.AccountID{Workchain: int32(uint32(wc)), Address: rh}
		in := sx.L(sx.A("accountid"), sx.A("m"), sx.N(wc), sx.Bytes(rh[:]))
		out := c.c10Emit("c10.hand", in, "hand|accountid|marshal|"+wcClass)
		gen, err := tl.Marshal(liteclient.AccountID(aid))
		if out.K != sx.KBytes || err != nil || !bytes.Equal(out.Bytes, gen) {
			c.Fail("c10.hand", in, "c10-hand-accountid", "ton.AccountID.MarshalTL differs from liteclient.LiteServerAccountIdC.MarshalTL of the same account")
		}
		uin := sx.L(sx.A("accountid"), sx.A("u"), sx.Bytes(append(append([]byte{}, gen...), junk...)))
		c.c10Emit("c10.hand", uin, "hand|accountid|unmarshal|"+wcClass)
		var back ton.AccountID
		rd := bytes.NewReader(append(append([]byte{}, gen...), junk...))
		if err := tl.Unmarshal(rd, &back); err != nil || back != aid || rd.Len() != len(junk) {
			c.Fail("c10.hand", uin, "c10-hand-accountid", "ton.AccountID.UnmarshalTL does not read back what LiteServerAccountIdC.MarshalTL wrote")
		}
		// ton.BlockID  <->  tonNode.blockId (reflection walk)
		bin := sx.L(sx.A("blockid"), sx.A("m"), sx.N(wc), sx.N(sh), sx.N(sq))
		bout := c.c10Emit("c10.hand", bin, "hand|blockid|marshal|"+wcClass)
		gb, err := tl.Marshal(liteclient.TonNodeBlockIdC{Workchain: uint32(wc), Shard: sh, Seqno: uint32(sq)})
		if bout.K != sx.KBytes || err != nil || !bytes.Equal(bout.Bytes, gb) {
			c.Fail("c10.hand", bin, "c10-hand-blockid", "tl.Marshal(ton.BlockID) differs from liteclient.TonNodeBlockIdC.MarshalTL")
		}
		c.c10Emit("c10.hand", sx.L(sx.A("blockid"), sx.A("u"), sx.Bytes(append(append([]byte{}, gb...), junk...))), "hand|blockid|unmarshal|"+wcClass)
		// ton.BlockIDExt  <->  tonNode.blockIdExt
		bid := ton.BlockIDExt{BlockID: ton.BlockID{Workchain: int32(uint32(wc)), Shard: sh, Seqno: uint32(sq)}, RootHash: ton.Bits256(rh), FileHash: ton.Bits256(fh)}
		ein := sx.L(sx.A("blockidext"), sx.A("m"), sx.N(wc), sx.N(sh), sx.N(sq), sx.Bytes(rh[:]), sx.Bytes(fh[:]))
		eout := c.c10Emit("c10.hand", ein, "hand|blockidext|marshal|"+wcClass)
		ge, err := tl.Marshal(liteclient.BlockIDExt(bid))
		if eout.K != sx.KBytes || err != nil || !bytes.Equal(eout.Bytes, ge) {
			c.Fail("c10.hand", ein, "c10-hand-blockidext", "ton.BlockIDExt.MarshalTL differs from liteclient.TonNodeBlockIdExtC.MarshalTL of the same id")
		}
		euin := sx.L(sx.A("blockidext"), sx.A("u"), sx.Bytes(ge))
		c.c10Emit("c10.hand", euin, "hand|blockidext|unmarshal|"+wcClass)
		var eb ton.BlockIDExt
		var gc liteclient.TonNodeBlockIdExtC
		if err := eb.UnmarshalTL(append([]byte{}, ge...)); err != nil || eb != bid ||
			tl.Unmarshal(bytes.NewReader(ge), &gc) != nil || gc.ToBlockIdExt() != bid {
			c.Fail("c10.hand", euin, "c10-hand-blockidext", "ton.BlockIDExt.UnmarshalTL / TonNodeBlockIdExtC.ToBlockIdExt do not read back the id")
		}
		if i%8 == 0 {
			c.c10Emit("c10.hand", sx.L(sx.A("blockidext"), sx.A("u"), sx.Bytes(ge[:len(ge)-1-c.R.Intn(4)])), "hand|blockidext|unmarshal|short")
			c.c10Emit("c10.hand", sx.L(sx.A("blockidext"), sx.A("u"), sx.Bytes(append(append([]byte{}, ge...), 0))), "hand|blockidext|unmarshal|long")
			c.c10Emit("c10.hand", sx.L(sx.A("accountid"), sx.A("u"), sx.Bytes(gen[:c.R.Intn(len(gen))])), "hand|accountid|unmarshal|short")
		}
	}
	// tlb.VmStack: TL framing of the BOC
	for i := 0; i < c.Scale(20, 120); i++ {
		var st tlb.VmStack
		for j := c.R.Intn(5); j >= 0; j-- {
			switch c.R.Intn(3) {
			case 0:
				st = append(st, tlb.VmStackValue{SumType: "VmStkTinyInt", VmStkTinyInt: int64(c.R.U64())})
			case 1:
				st = append(st, tlb.VmStackValue{SumType: "VmStkNull"})
			default:
				cell := boc.NewCell()
				_ = cell.WriteBytes(c.R.Bytes(c.R.Pick([]int{0, 1, 30, 100, 127})))
				st = append(st, tlb.VmStackValue{SumType: "VmStkCell", VmStkCell: tlb.Ref[boc.Cell]{Value: *cell}})
			}
		}
		cell := boc.NewCell()
		if err := tlb.Marshal(cell, st); err != nil {
			continue
		}
		raw, err := cell.ToBocCustom(false, false, false, 0)
		if err != nil {
			continue
		}
		in := sx.L(sx.A("vmstack"), sx.Bytes(raw), sx.Bytes(c.R.Bytes(c.R.Intn(5))))
		bucket := "short"
		if len(raw) >= 254 {
			bucket = "escape"
		}
		c.c10Emit("c10.hand", in, "hand|vmstack|"+bucket)
		c.c10Emit("c10.bmarshal", sx.L(sx.A("bytes"), sx.Bytes(raw)), "hand|vmstack-frame|"+bucket)
		direct, err := st.MarshalTL()
		if err != nil || !bytes.Equal(direct, c10RefBytes(raw)) {
			c.Fail("c10.hand", in, "c10-hand-vmstack", "VmStack.MarshalTL is not the TL byte string of the stack's BOC")
		}
	}
}

// ---------------------------------------------------------------- vectors across the internal constants

func c10Vec(d sx.V) sx.V { return sx.L(sx.A("vec"), d) }

// one vector value through both directions, with the implementation-side oracle
func (c *Ctx) c10VectorCase(desc sx.V, v reflect.Value, class string) {
	in := sx.L(desc, c10ToSx(v))
	out := c.c10Emit("c10.bmarshal", in, class)
	if out.K != sx.KBytes {
		c.Fail("c10.bmarshal", sx.L(desc, sx.Nat(v.Len())), "c10-vector", "tl.Marshal of a vector failed")
		return
	}
	n := v.Len()
	if len(out.Bytes) < 4 || binary.LittleEndian.Uint32(out.Bytes[:4]) != uint32(n) {
		c.Fail("c10.bmarshal", sx.L(desc, sx.Nat(n)), "c10-vector", "the encoding does not start with the 32-bit count")
	}
	junk := c.R.Bytes(c.R.Intn(5))
	ub := append(append([]byte{}, out.Bytes...), junk...)
	c.c10Emit("c10.bunmarshal", sx.L(desc, sx.Bytes(ub)), class)
	p := reflect.New(v.Type())
	rd := bytes.NewReader(ub)
	mark := sx.L(desc, sx.Nat(n))
	if err := tl.Unmarshal(rd, p.Interface()); err != nil {
		c.Fail("c10.bunmarshal", mark, "c10-vector", fmt.Sprintf("a vector announcing %d items is rejected", n))
		return
	}
	if p.Elem().Len() != n {
		c.Fail("c10.bunmarshal", mark, "c10-vector", fmt.Sprintf("a vector announcing %d items decodes to %d items", n, p.Elem().Len()))
		return
	}
	if rd.Len() != len(junk) {
		c.Fail("c10.bunmarshal", mark, "c10-vector", fmt.Sprintf("decoding a vector of %d items leaves %d bytes instead of %d", n, rd.Len(), len(junk)))
	}
	if re, err := tl.Marshal(p.Elem().Interface()); err != nil || !bytes.Equal(re, out.Bytes) {
		c.Fail("c10.bunmarshal", mark, "c10-vector", fmt.Sprintf("re-encoding the decoded vector of %d items does not give the input back", n))
	}
}

func c10LenBucket(n int) string {
	switch {
	case n < 4095:
		return "small"
	case n <= 4097:
		return "4096"
	case n <= 8193:
		return "8192"
	}
	return "65536"
}

func (c *Ctx) c10Vectors() {
	c10Init()
	around := []int{4095, 4096, 4097}
	mid := []int{8191, 8192, 8193}
	high := []int{65535, 65536, 65537}
	lens := append(append([]int{0, 1, 2, 255, 256}, around...), mid...)
	u32 := func(n int) reflect.Value {
		s := make([]uint32, n)
		for i := range s {
			s[i] = uint32(c.R.U64())
		}
		return reflect.ValueOf(s)
	}
	u64 := func(n int) reflect.Value {
		s := make([]uint64, n)
		for i := range s {
			s[i] = c.R.U64()
		}
		return reflect.ValueOf(s)
	}
	for _, n := range append(append([]int{}, lens...), high...) {
		if n > 8193 && !c.Thorough() && n != 65537 {
			continue
		}
		c.c10VectorCase(c10Vec(sx.A("u32")), u32(n), "vector|u32|"+c10LenBucket(n))
	}
	for _, n := range append(append([]int{}, lens...), high...) {
		if n > 4097 && !c.Thorough() && n != 8193 {
			continue
		}
		c.c10VectorCase(c10Vec(sx.A("u64")), u64(n), "vector|u64|"+c10LenBucket(n))
	}
	// vector of bytes, vector of int256
	for _, n := range append([]int{0, 3}, append(around, 8193)...) {
		if n > 4097 && !c.Thorough() {
			continue
		}
		bs := make([][]byte, n)
		for i := range bs {
			bs[i] = c.R.Bytes(c.R.Intn(6))
		}
		if n > 0 {
			bs[n-1] = c.R.Bytes(254)
		}
		c.c10VectorCase(c10Vec(sx.A("bytes")), reflect.ValueOf(bs), "vector|bytes|"+c10LenBucket(n))
		hs := make([]tl.Int256, n)
		for i := range hs {
			copy(hs[i][:], c.R.Bytes(32))
		}
		c.c10VectorCase(c10Vec(sx.A("int256")), reflect.ValueOf(hs), "vector|int256|"+c10LenBucket(n))
	}
	// nested vectors: long outside, long inside
	for _, n := range around {
		outer := make([][]uint32, n)
		for i := range outer {
			outer[i] = make([]uint32, c.R.Intn(3))
			for j := range outer[i] {
				outer[i][j] = uint32(c.R.U64())
			}
		}
		c.c10VectorCase(c10Vec(c10Vec(sx.A("u32"))), reflect.ValueOf(outer), "vector|nested-outer|"+c10LenBucket(n))
		inner := [][]uint32{u32(2).Interface().([]uint32), u32(n).Interface().([]uint32), {}}
		c.c10VectorCase(c10Vec(c10Vec(sx.A("u32"))), reflect.ValueOf(inner), "vector|nested-inner|"+c10LenBucket(n))
	}
	// vector of a small struct: liteServer.transactionId with its optional fields
	for _, n := range append(append([]int{}, around...), 8193) {
		if n > 4097 && !c.Thorough() {
			continue
		}
		ids := make([]liteclient.LiteServerTransactionIdC, n)
		for i := range ids {
			if c.R.Chance(20) {
				lt := c.R.U64()
				ids[i] = liteclient.LiteServerTransactionIdC{Mode: 2, Lt: &lt}
			} else {
				ids[i] = liteclient.LiteServerTransactionIdC{Mode: uint32(c.R.Intn(4)) << 3}
			}
		}
		c.c10VectorCase(c10Vec(sx.A("LiteServerTransactionIdC")), reflect.ValueOf(ids), "vector|struct|"+c10LenBucket(n))
	}
	// the same lengths inside real binding types, through the generated methods
	holder := func(t reflect.Type, fill func(v reflect.Value, n int), ns []int) {
		for _, n := range ns {
			v := reflect.New(t).Elem()
			g := &c10Gen{r: c.R, big: 5, maxV: 2}
			g.fill(v, 0)
			fill(v, n)
			cv, b, ok := c10Canon(v)
			in := c10Case(t.Name(), c10ToSx(cv))
			if !ok {
				c.Fail("c10.cmarshal", sx.L(sx.A(t.Name()), sx.Nat(n)), "c10-vector", fmt.Sprintf("%s with a vector of %d items does not survive MarshalTL then UnmarshalTL", t.Name(), n))
				continue
			}
			class := "vector|" + t.Name() + "|" + c10LenBucket(n)
			c.c10Emit("c10.cmarshal", in, class)
			c.c10Emit("c10.cunmarshal", c10Case(t.Name(), sx.Bytes(b)), class)
			if !reflect.DeepEqual(cv.Interface(), v.Interface()) {
				c.Fail("c10.cunmarshal", sx.L(sx.A(t.Name()), sx.Nat(n)), "c10-vector", fmt.Sprintf("%s with a vector of %d items decodes to a different value", t.Name(), n))
			}
		}
	}
	quickOr := func(q, t []int) []int {
		if c.Thorough() {
			return t
		}
		return q
	}
	holder(reflect.TypeOf(liteclient.LiteServerGetConfigParamsRequest{}), func(v reflect.Value, n int) {
		v.FieldByName("ParamList").Set(u32(n))
	}, quickOr([]int{4096, 4097}, []int{4095, 4096, 4097, 8193, 65537}))
	holder(reflect.TypeOf(liteclient.LiteServerGetLibrariesRequest{}), func(v reflect.Value, n int) {
		hs := make([]tl.Int256, n)
		for i := range hs {
			copy(hs[i][:], c.R.Bytes(32))
		}
		v.FieldByName("LibraryList").Set(reflect.ValueOf(hs))
	}, quickOr([]int{4097}, []int{4096, 4097, 8193}))
	holder(reflect.TypeOf(liteclient.LiteServerBlockTransactionsC{}), func(v reflect.Value, n int) {
		ids := make([]liteclient.LiteServerTransactionIdC, n)
		for i := range ids {
			ids[i].Mode = uint32(i) << 3
		}
		v.FieldByName("Ids").Set(reflect.ValueOf(ids))
	}, quickOr([]int{4097}, []int{4096, 4097, 8193}))
	holder(reflect.TypeOf(liteclient.LiteServerTransactionListC{}), func(v reflect.Value, n int) {
		ids := make([]liteclient.TonNodeBlockIdExtC, n)
		for i := range ids {
			ids[i].Seqno = uint32(i)
			ids[i].Shard = c.R.U64()
		}
		v.FieldByName("Ids").Set(reflect.ValueOf(ids))
	}, quickOr([]int{4097}, []int{4096, 4097}))
	// ... through the request decoder and through a request method's answer
	{
		req := liteclient.LiteServerGetConfigParamsRequest{Mode: 1, ParamList: u32(4097).Interface().([]uint32)}
		body, _ := tl.Marshal(req)
		if m, ok := c10FindMethod("LiteServerGetConfigParams"); ok {
			msg := append(append([]byte{}, c10RequestID(m)...), body...)
			c.c10Emit("c10.reqdecode", sx.Bytes(msg), "vector|reqdecode|4096")
		}
		if m, ok := c10FindMethod("LiteServerListBlockTransactions"); ok {
			res := liteclient.LiteServerBlockTransactionsC{ReqCount: 4097, Ids: make([]liteclient.LiteServerTransactionIdC, 4097), Proof: []byte{}}
			rb, _ := tl.Marshal(res)
			rq := reflect.New(m.req).Elem()
			in := sx.L(sx.A(m.name), c10ToSx(rq), sx.Bytes(append(append([]byte{}, c10ResultID(m)...), rb...)))
			c.c10Emit("c10.request", in, "vector|response|4096")
		}
	}
}

// ---------------------------------------------------------------- liteclient's own framing

func execC10LcDec(in sx.V) sx.V {
	b := append([]byte{}, in.Bytes...)
	n, rest, err := liteclient.VerifDecodeLength(b)
	if err != nil {
		return sx.A("err")
	}
	if !bytes.Equal(b, in.Bytes) {
		return sx.L(sx.A("harness-error"), sx.A("decodeLength-changed-its-input"))
	}
	return sx.L(sx.Nat(n), sx.Nat(len(rest)))
}

// c10Session runs f on a Client over an in-process pipe; the other end records the
// ADNL payload of the first packet as it is and answers adnl.message.answer with
// the TL bytes of resp under the same query id.
func c10Session(resp []byte, f func(cl *liteclient.Client)) (adnl []byte) {
	cliEnd, srvEnd := net.Pipe()
	defer cliEnd.Close()
	defer srvEnd.Close()
	conn := liteclient.VerifNewConnection(cliEnd, c10Null{}, c10Null{})
	cl := liteclient.VerifNewClient([]*liteclient.Connection{conn}, 5*time.Second)
	got := make(chan []byte, 1)
	go func() {
		p, err := liteclient.ParsePacket(bufio.NewReader(srvEnd), c10Null{})
		if err != nil {
			got <- nil
			return
		}
		pl := append([]byte{}, p.Payload...)
		got <- pl
		if len(pl) < 36 {
			return
		}
		ans := make([]byte, 4)
		binary.LittleEndian.PutUint32(ans, 0x0fac8416)
		ans = append(ans, pl[4:36]...)
		ans = append(ans, c10RefBytes(resp)...)
		ap, err := liteclient.NewPacket(ans)
		if err != nil {
			return
		}
		_, _ = srvEnd.Write(liteclient.VerifMarshalPacket(ap))
	}()
	f(cl)
	select {
	case adnl = <-got:
	default:
	}
	return
}

// (query answer) -> (ADNL payload without the query id, what Request returns)
func execC10AdnlReq(in sx.V) sx.V {
	if in.K != sx.KL || len(in.List) != 2 || in.List[0].K != sx.KBytes || in.List[1].K != sx.KBytes {
		return sx.L(sx.A("harness-error"), sx.A("shape"))
	}
	q := append([]byte{}, in.List[0].Bytes...)
	var res []byte
	var rerr error
	adnl := c10Session(in.List[1].Bytes, func(cl *liteclient.Client) { res, rerr = cl.Request(context.Background(), q) })
	if len(adnl) < 36 {
		return sx.L(sx.A("harness-error"), sx.A("no-adnl-payload"))
	}
	if !bytes.Equal(q, in.List[0].Bytes) {
		return sx.L(sx.A("harness-error"), sx.A("Request-changed-the-caller's-query"))
	}
	frame := append(append([]byte{}, adnl[:4]...), adnl[36:]...)
	if rerr != nil {
		return sx.L(sx.Bytes(frame), sx.A("err"))
	}
	return sx.L(sx.Bytes(frame), sx.Bytes(res))
}

// the query inside liteServer.query of an ADNL payload, read with the reference reader
func c10Inner(adnl []byte) ([]byte, bool) {
	if len(adnl) < 37 || binary.LittleEndian.Uint32(adnl[:4]) != 0xb48bf97a {
		return nil, false
	}
	q, _, ok := c10ReadBytes(adnl[36:])
	if !ok || len(q) < 5 || binary.LittleEndian.Uint32(q[:4]) != 0x798c06df {
		return nil, false
	}
	inner, _, ok := c10ReadBytes(q[4:])
	return inner, ok
}

// ('seqno|'block seqno timeout answer) -> (query, outcome)
func execC10Wait(in sx.V) sx.V {
	if in.K != sx.KL || len(in.List) != 4 || in.List[0].K != sx.KA || in.List[3].K != sx.KBytes {
		return sx.L(sx.A("harness-error"), sx.A("shape"))
	}
	seqno, tmo := uint32(in.List[1].U64()), uint32(in.List[2].U64())
	var oc sx.V
	adnl := c10Session(in.List[3].Bytes, func(cl *liteclient.Client) {
		var err error
		if in.List[0].Atom == "seqno" {
			err = cl.WaitMasterchainSeqno(context.Background(), seqno, tmo)
			oc = sx.A("ok")
		} else {
			var res liteclient.LiteServerBlockHeaderC
			res, err = cl.WaitMasterchainBlock(context.Background(), seqno, tmo)
			oc = sx.L(sx.A("result"), c10ToSx(reflect.ValueOf(res)))
		}
		switch e := err.(type) {
		case nil:
		case liteclient.LiteServerErrorC:
			oc = sx.L(sx.A("lserror"), c10ToSx(reflect.ValueOf(e)))
		default:
			oc = sx.A("err")
		}
	})
	inner, ok := c10Inner(adnl)
	if !ok {
		return sx.L(sx.A("harness-error"), sx.A("envelope"))
	}
	return sx.L(sx.Bytes(inner), oc)
}

func (c *Ctx) c10Framing() {
	// the private length prefix and alignment helpers, every length of the sweep
	var ns []int
	for n := 0; n <= c.Scale(600, 1100); n++ {
		ns = append(ns, n)
	}
	ns = append(ns, 4095, 4096, 4097, 65535, 65536, 65537, 1<<24-2, 1<<24-1)
	for _, n := range ns {
		bucket := "short"
		switch {
		case n >= 1<<16-1:
			bucket = "large"
		case n >= 256:
			bucket = "escape"
		case n >= 252:
			bucket = "around-254"
		}
		out := c.c10Emit("c10.lclen", sx.Nat(n), "framing|encodeLength|"+bucket)
		if want := tl.EncodeLength(n); out.K != sx.KBytes || !bytes.Equal(out.Bytes, want) {
			c.Fail("c10.lclen", sx.Nat(n), "c10-length-copies", fmt.Sprintf("liteclient.encodeLength(%d) differs from tl.EncodeLength(%d)", n, n))
		}
		var hdr []byte
		if n < 254 {
			hdr = []byte{byte(n)}
		} else {
			hdr = []byte{254, byte(n), byte(n >> 8), byte(n >> 16)}
		}
		tail := c.R.Bytes(c.R.Intn(4))
		din := sx.Bytes(append(append([]byte{}, hdr...), tail...))
		dout := c.c10Emit("c10.lcdec", din, "framing|decodeLength|"+bucket)
		if dout.K != sx.KL || len(dout.List) != 2 || dout.List[0].I() != n || dout.List[1].I() != len(tail) {
			c.Fail("c10.lcdec", din, "c10-length-copies", fmt.Sprintf("liteclient.decodeLength does not read the TL length prefix of %d back", n))
		}
	}
	for _, b := range [][]byte{{}, {255}, {255, 1, 2, 3}, {254}, {254, 1}, {254, 1, 2}, {254, 5, 0, 0}, {254, 253, 0, 0, 9}, {254, 255, 255, 255}, {253}, {0}} {
		c.c10Emit("c10.lcdec", sx.Bytes(b), "framing|decodeLength|odd")
	}
	for n := 0; n <= 9; n++ {
		c.c10Emit("c10.lcalign", sx.Bytes(c.R.Bytes(n)), "framing|alignBytes")
	}
	// (*Client).Request with raw queries of every length (the generated bindings only ever
	// hand it multiples of 4), answers of every length
	top := c.Scale(300, 1100)
	var lens []int
	for n := 0; n <= top; n++ {
		lens = append(lens, n)
	}
	lens = append(lens, 508, 509, 510, 511, 512, 1021, 1022, 1023, 1024, 4095, 4096, 4097, 65535, 65536, 65537)
	for i, n := range lens {
		q := c.R.Bytes(n)
		rn := lens[(i*7+3)%len(lens)]
		if i%3 == 0 {
			rn = n
		}
		resp := c.R.Bytes(rn)
		bucket := func(n int) string {
			switch {
			case n >= 4095:
				return "large"
			case n >= 256:
				return "escape"
			case n >= 252:
				return "around-254"
			}
			return fmt.Sprintf("short-mod4=%d", n%4)
		}
		in := sx.L(sx.Bytes(q), sx.Bytes(resp))
		out := c.c10Emit("c10.adnlreq", in, "framing|Request|q="+bucket(n))
		mark := sx.L(sx.A("Request"), sx.Nat(n), sx.Nat(rn))
		if out.K != sx.KL || len(out.List) != 2 || out.List[0].K != sx.KBytes {
			continue
		}
		frame := out.List[0].Bytes
		// two exported ways of writing adnl.message.query agree, and the TL reader reads it back
		var id tl.Int256
		msg := liteclient.AdnlMessage{SumType: "AdnlMessageQuery"}
		msg.AdnlMessageQuery.QueryId = id
		msg.AdnlMessageQuery.Query = q
		gen, err := tl.Marshal(msg)
		full := append(append(append([]byte{}, frame[:4]...), id[:]...), frame[4:]...)
		if err != nil || !bytes.Equal(gen, full) {
			c.Fail("c10.adnlreq", mark, "c10-adnl-query", fmt.Sprintf("Request writes a %d-byte query differently from AdnlMessage.MarshalTL", n))
		}
		var back liteclient.AdnlMessage
		rd := bytes.NewReader(full)
		if err := tl.Unmarshal(rd, &back); err != nil || rd.Len() != 0 || back.SumType != "AdnlMessageQuery" || !bytes.Equal(back.AdnlMessageQuery.Query, q) {
			c.Fail("c10.adnlreq", mark, "c10-adnl-query", fmt.Sprintf("the ADNL payload Request writes for a %d-byte query does not parse back as adnl.message.query", n))
		}
		if out.List[1].K != sx.KBytes || !bytes.Equal(out.List[1].Bytes, resp) {
			c.Fail("c10.adnlreq", mark, "c10-adnl-answer", fmt.Sprintf("Request does not return the %d-byte answer the server sent", rn))
		}
	}
	// the hand-assembled wait queries
	errBody := func(code uint32, msg string) []byte {
		b, _ := tl.Marshal(liteclient.LiteServerErrorC{Code: code, Message: msg})
		return append([]byte{0x48, 0xe1, 0xa9, 0xbb}, b...)
	}
	for i := 0; i < c.Scale(24, 120); i++ {
		seqno := c10Seqno[c.R.Intn(len(c10Seqno))]
		tmo := c10U32[c.R.Intn(len(c10U32))]
		var resp []byte
		kind := "ok"
		switch i % 6 {
		case 0:
			resp = errBody(0, "")
		case 1:
			kind = "error"
			resp = errBody(uint32(1+c.R.Intn(700)), string(c.R.Bytes(c.R.Intn(20))))
		case 2:
			kind = "foreign"
			resp = c.R.Bytes(c.R.Intn(12))
		case 3:
			kind = "short-error"
			resp = errBody(0, "abc")[:4+c.R.Intn(5)]
		default:
			kind = "header"
			hv := reflect.New(reflect.TypeOf(liteclient.LiteServerBlockHeaderC{})).Elem()
			(&c10Gen{r: c.R, big: 10, maxV: 2}).fill(hv, 0)
			b, _ := tl.Marshal(hv.Interface())
			resp = append([]byte{0x19, 0x82, 0x2d, 0x75}, b...)
		}
		which := "seqno"
		if i%2 == 1 {
			which = "block"
		}
		c.c10Emit("c10.wait", sx.L(sx.A(which), sx.N(seqno), sx.N(tmo), sx.Bytes(resp)), "framing|wait|"+which+"|"+kind)
	}
	// the hand-written answer dispatch: complete, valid bodies under every kind of foreign constructor id
	for i := 0; i < c.Scale(16, 80); i++ {
		hv := reflect.New(reflect.TypeOf(liteclient.LiteServerBlockHeaderC{})).Elem()
		(&c10Gen{r: c.R, big: 10, maxV: 2}).fill(hv, 0)
		hb, _ := tl.Marshal(hv.Interface())
		eb, _ := tl.Marshal(liteclient.LiteServerErrorC{Code: uint32(c.R.Intn(3)), Message: "x"})
		for _, which := range []string{"seqno", "block"} {
			for k, body := range [][]byte{hb, eb} {
				own := []byte{0x19, 0x82, 0x2d, 0x75}
				if k == 1 {
					own = []byte{0x48, 0xe1, 0xa9, 0xbb}
				}
				resp := append(c10ForeignID(own, c.R), body...)
				in := sx.L(sx.A(which), sx.N(uint64(i)), sx.N(1000), sx.Bytes(resp))
				out := c.c10Emit("c10.wait", in, "framing|wait|"+which+"|foreign-id-valid-body")
				if out.K == sx.KL && len(out.List) == 2 && !out.List[1].IsA("err") {
					c.Fail("c10.wait", in, "c10-wait-dispatch", fmt.Sprintf("WaitMasterchain%s accepts an answer under the foreign constructor id %x", which, resp[:4]))
				}
			}
		}
	}
}

// ---------------------------------------------------------------- foreign words at every word position

// words a peer could plausibly put where a constructor id, a count, a mode or a length belongs
func c10Foreign(orig uint32, r *prng.R) []uint32 {
	sw := func(x uint32) uint32 { return x<<24 | (x&0xff00)<<8 | (x>>8)&0xff00 | x>>24 }
	return []uint32{sw(0x997275b5), sw(0xbc799737), 0x3fedd339, 0, 1, orig ^ 1, sw(orig), 0xffffffff, orig + 1, uint32(r.U64())}
}

func c10PutWord(b []byte, off int, w uint32) []byte {
	m := append([]byte{}, b...)
	binary.LittleEndian.PutUint32(m[off:], w)
	return m
}

// bool fields of a struct value (of the selected constructor for a sum)
func c10BoolFields(v reflect.Value) []reflect.Value {
	if c10IsSum(v.Type()) {
		f := v.FieldByName(v.FieldByName("SumType").String())
		if !f.IsValid() || f.Kind() != reflect.Struct {
			return nil
		}
		v = f
	}
	var out []reflect.Value
	for i := 0; i < v.NumField(); i++ {
		if v.Field(i).Kind() == reflect.Bool {
			out = append(out, v.Field(i))
		}
	}
	return out
}

func (c *Ctx) c10Words() {
	// Bool on its own: the two constructor ids and nothing else
	for _, w := range append([]uint32{0x997275b5, 0xbc799737}, c10Foreign(0x997275b5, c.R)...) {
		b := make([]byte, 4, 6)
		binary.LittleEndian.PutUint32(b, w)
		b = append(b, c.R.Bytes(c.R.Intn(3))...)
		in := sx.L(sx.A("bool"), sx.Bytes(b))
		out := c.c10Emit("c10.bunmarshal", in, "words|bool-alone")
		valid := w == 0x997275b5 || w == 0xbc799737
		if valid == out.IsA("err") {
			c.Fail("c10.bunmarshal", in, "c10-bool-id", fmt.Sprintf("tl.Unmarshal into a bool: word %08x accepted=%v", w, !out.IsA("err")))
		}
	}
	for _, n := range c10Names {
		t := c10Types[n]
		v := reflect.New(t).Elem()
		(&c10Gen{r: c.R, big: 0, maxV: 2}).fill(v, 0)
		cv, b, ok := c10Canon(v)
		if !ok || len(b) < 4 {
			continue
		}
		// every aligned word of a valid encoding replaced by foreign words: the model decides
		words := len(b) / 4
		if words > 64 {
			words = 64
		}
		for w := 0; w < words; w++ {
			orig := binary.LittleEndian.Uint32(b[4*w:])
			fw := c10Foreign(orig, c.R)
			k := c.Scale(2, len(fw))
			for j := 0; j < k; j++ {
				x := fw[(w+j*3)%len(fw)]
				if x == orig {
					continue
				}
				c.c10Emit("c10.unmarshal", c10Case(n, sx.Bytes(c10PutWord(b, 4*w, x))), "words|"+c10Category(t))
			}
		}
		// the word of every Bool field, located by flipping the field: only the two ids parse
		for _, bf := range c10BoolFields(cv) {
			bf.SetBool(!bf.Bool())
			b2, err := tl.Marshal(cv.Interface())
			bf.SetBool(!bf.Bool())
			if err != nil || len(b2) != len(b) {
				continue
			}
			off := -1
			for i := range b {
				if b[i] != b2[i] {
					off = i &^ 3
					break
				}
			}
			if off < 0 {
				continue
			}
			for _, x := range c10Foreign(binary.LittleEndian.Uint32(b[off:]), c.R)[:8] {
				if x == 0x997275b5 || x == 0xbc799737 {
					continue
				}
				m := c10PutWord(b, off, x)
				in := c10Case(n, sx.Bytes(m))
				c.c10Emit("c10.unmarshal", in, "words|bool-field|"+c10Category(t))
				if err := tl.Unmarshal(bytes.NewReader(m), reflect.New(t).Interface()); err == nil {
					c.Fail("c10.unmarshal", in, "c10-bool-id", fmt.Sprintf("%s parses with the word %08x where a Bool constructor id belongs (offset %d)", n, x, off))
				}
			}
		}
	}
	// the same through the request decoder and through a request method's answer
	if m, ok := c10FindMethod("LiteServerGetShardInfo"); ok {
		rq := reflect.New(m.req).Elem()
		(&c10Gen{r: c.R, big: 0, maxV: 2}).fill(rq, 0)
		body, _ := tl.Marshal(rq.Interface())
		msg := append(append([]byte{}, c10RequestID(m)...), body...)
		for w := 1; w < len(msg)/4; w++ {
			for _, x := range c10Foreign(binary.LittleEndian.Uint32(msg[4*w:]), c.R)[:c.Scale(3, 8)] {
				c.c10Emit("c10.reqdecode", sx.Bytes(c10PutWord(msg, 4*w, x)), "words|reqdecode")
			}
		}
	}
	for _, name := range []string{"LiteServerListBlockTransactions", "LiteServerGetValidatorStats", "LiteServerGetBlockProof"} {
		m, ok := c10FindMethod(name)
		if !ok {
			continue
		}
		rv := reflect.New(m.res).Elem()
		(&c10Gen{r: c.R, big: 0, maxV: 2}).fill(rv, 0)
		if cv, _, ok := c10Canon(rv); ok {
			rv = cv
		}
		body, _ := tl.Marshal(rv.Interface())
		resp := append(append([]byte{}, c10ResultID(m)...), body...)
		rq := reflect.New(m.req).Elem()
		words := len(resp) / 4
		if words > 48 {
			words = 48
		}
		for w := 0; w < words; w++ {
			for _, x := range c10Foreign(binary.LittleEndian.Uint32(resp[4*w:]), c.R)[:c.Scale(1, 6)] {
				c.c10Emit("c10.request", sx.L(sx.A(m.name), c10ToSx(rq), sx.Bytes(c10PutWord(resp, 4*w, x))), "words|response")
			}
		}
	}
}

// a constructor id that is not id: another id of the schema, a neighbour, the byte-swapped id, ...
func c10ForeignID(id []byte, r *prng.R) []byte {
	for {
		var f []byte
		switch r.Intn(5) {
		case 0:
			all := c10SchemaIDs()
			if len(all) > 0 {
				f = append([]byte{}, all[r.Intn(len(all))]...)
			}
		case 1:
			f = []byte{id[3], id[2], id[1], id[0]}
		case 2:
			f = append([]byte{}, id...)
			f[r.Intn(4)] ^= 1 << r.Intn(8)
		case 3:
			f = []byte{0, 0, 0, 0}
		default:
			f = r.Bytes(4)
		}
		// neither the id itself nor liteServer.error (a legitimate other answer)
		if len(f) == 4 && !bytes.Equal(f, id) && !bytes.Equal(f, []byte{0x48, 0xe1, 0xa9, 0xbb}) {
			return f
		}
	}
}

// ---------------------------------------------------------------- truncated inputs

// every proper prefix of a valid encoding must be rejected (the reader is sequential
// and needs every byte); cut points cover the header, the internal thresholds and every
// multiple of 4 inside the data of the last field
func (c *Ctx) c10Truncations() {
	emit := func(kind string, mk func(b []byte) sx.V, b []byte, cuts []int, class string, reject func(b []byte) bool) {
		seen := map[int]bool{}
		for _, cut := range cuts {
			if cut < 0 || cut >= len(b) || seen[cut] {
				continue
			}
			seen[cut] = true
			in := mk(b[:cut])
			c.c10Emit(kind, in, class)
			if !reject(b[:cut]) {
				c.Fail(kind, sx.L(sx.A(class), sx.Nat(len(b)), sx.Nat(cut)), "c10-truncated", fmt.Sprintf("%s: an encoding of %d bytes cut after %d bytes is accepted", class, len(b), cut))
			}
		}
	}
	cutsFor := func(n int, dense bool) []int {
		cs := []int{0, 1, 2, 3, 4, 5, 6, 7, 8, n - 1, n - 2, n - 3, n - 4, n - 5, n - 8}
		for _, t := range []int{256, 1024, 4092, 4096, 4100, 4104, 8192, 8196} {
			for d := -4; d <= 4; d++ {
				cs = append(cs, t+d)
			}
		}
		step := 4
		if !dense {
			step = 4 * (1 + n/160)
		}
		for x := 8; x < n; x += step {
			cs = append(cs, x)
		}
		for i := 0; i < 12; i++ {
			cs = append(cs, c.R.Intn(n+1))
		}
		return cs
	}
	// byte strings on both sides of readN's threshold, as the last thing read
	st := reflect.TypeOf(liteclient.LiteServerSendMessageRequest{})
	for _, n := range []int{0, 1, 3, 253, 254, 255, 1000, 4092, 4095, 4096, 4097, 4100, 5000, 8192, 8193} {
		if !c.Thorough() && (n == 1000 || n == 4092 || n == 8192) {
			continue
		}
		body := c.R.Bytes(n)
		b, _ := tl.Marshal(liteclient.LiteServerSendMessageRequest{Body: body})
		bucket := "below-4096"
		if n > 4096 {
			bucket = "above-4096"
		}
		emit("c10.unmarshal", func(p []byte) sx.V { return c10Case(st.Name(), sx.Bytes(p)) }, b, cutsFor(len(b), c.Thorough()),
			"truncated|bytes-field|"+bucket, func(p []byte) bool {
				var v liteclient.LiteServerSendMessageRequest
				return tl.Unmarshal(bytes.NewReader(p), &v) != nil
			})
		if n >= 4096 || n == 254 {
			emit("c10.bunmarshal", func(p []byte) sx.V { return sx.L(sx.A("bytes"), sx.Bytes(p)) }, c10RefBytes(body), cutsFor(len(b), false),
				"truncated|bytes|"+bucket, func(p []byte) bool {
					var v []byte
					return tl.Unmarshal(bytes.NewReader(p), &v) != nil
				})
			e, _ := tl.Marshal(liteclient.LiteServerErrorC{Code: 7, Message: string(body)})
			emit("c10.unmarshal", func(p []byte) sx.V { return c10Case("LiteServerErrorC", sx.Bytes(p)) }, e, cutsFor(len(e), false),
				"truncated|string-field|"+bucket, func(p []byte) bool {
					var v liteclient.LiteServerErrorC
					return tl.Unmarshal(bytes.NewReader(p), &v) != nil
				})
		}
	}
	// vectors on both sides of the pre-allocation cap
	for _, n := range []int{2, 4095, 4096, 4097, 4100, 8193} {
		if !c.Thorough() && n == 8193 {
			continue
		}
		xs := make([]uint32, n)
		for i := range xs {
			xs[i] = uint32(c.R.U64())
		}
		b, _ := tl.Marshal(xs)
		bucket := "below-4096"
		if n > 4096 {
			bucket = "above-4096"
		}
		emit("c10.bunmarshal", func(p []byte) sx.V { return sx.L(c10Vec(sx.A("u32")), sx.Bytes(p)) }, b, cutsFor(len(b), false),
			"truncated|vector|"+bucket, func(p []byte) bool {
				var v []uint32
				return tl.Unmarshal(bytes.NewReader(p), &v) != nil
			})
		rq, _ := tl.Marshal(liteclient.LiteServerGetConfigParamsRequest{Mode: 1, ParamList: xs})
		emit("c10.unmarshal", func(p []byte) sx.V { return c10Case("LiteServerGetConfigParamsRequest", sx.Bytes(p)) }, rq, cutsFor(len(rq), false),
			"truncated|vector-field|"+bucket, func(p []byte) bool {
				var v liteclient.LiteServerGetConfigParamsRequest
				return tl.Unmarshal(bytes.NewReader(p), &v) != nil
			})
	}
	// every type: proper prefixes of a small valid encoding
	for _, n := range c10Names {
		t := c10Types[n]
		v := reflect.New(t).Elem()
		(&c10Gen{r: c.R, big: 10, maxV: 3}).fill(v, 0)
		_, b, ok := c10Canon(v)
		if !ok || len(b) == 0 {
			continue
		}
		var cuts []int
		if c.Thorough() && len(b) <= 400 {
			for x := 0; x < len(b); x++ {
				cuts = append(cuts, x)
			}
		} else {
			cuts = []int{0, 1, 3, 4, len(b) - 1, len(b) - 4, len(b) - 8}
			for i := 0; i < 6; i++ {
				cuts = append(cuts, c.R.Intn(len(b))&^3, c.R.Intn(len(b)))
			}
		}
		name := n
		emit("c10.unmarshal", func(p []byte) sx.V { return c10Case(name, sx.Bytes(p)) }, b, cuts,
			"truncated|"+c10Category(t), func(p []byte) bool {
				return tl.Unmarshal(bytes.NewReader(p), reflect.New(t).Interface()) != nil
			})
	}
}
