package main

// C20, envelope types of package abi (InMsgBody, ExtOutMsgBody, JettonPayload,
// NFTPayload): the equal-value oracle on values the LIBRARY produced by decoding
// cells -- empty, shorter than an opcode, unknown opcode (raw cell), and every
// known operation name whose generated body could be filled and encoded.
// value -> JSON -> value must succeed, keep SumType / OpCode, re-marshal to the
// same text, and encode to the same TL-B cell (representation hash).
// Implementation-side oracle only (no Coq model of the reflection codecs).

import (
	"bytes"
	"encoding/json"
	"fmt"
	"math/big"
	"os"
	"path/filepath"
	"reflect"
	"regexp"
	"runtime"
	"sort"
	"strconv"
	"strings"

	"github.com/tonkeeper/tongo/abi"
	"github.com/tonkeeper/tongo/boc"
	"github.com/tonkeeper/tongo/tlb"

	"verifharness/prng"
	"verifharness/sx"
)

// the operation codes are Go constants (<Name>MsgOpCode); they are read from the
// source file of the abi package this binary was compiled from
func msgOpCodes20() map[string]uint32 {
	out := map[string]uint32{}
	file, _ := runtime.FuncForPC(reflect.ValueOf(abi.InternalMessageDecoder).Pointer()).FileLine(0)
	src, err := os.ReadFile(filepath.Join(filepath.Dir(file), "messages_generated.go"))
	if err != nil {
		return out
	}
	re := regexp.MustCompile(`(?m)^\s*(\w+)MsgOpCode\s+MsgOpCode\s*=\s*(0x[0-9a-fA-F]+)`)
	for _, m := range re.FindAllStringSubmatch(string(src), -1) {
		if v, err := strconv.ParseUint(m[2], 0, 32); err == nil {
			out[m[1]] = uint32(v)
		}
	}
	return out
}

func randCell20(r *prng.R, opcode *uint32, bits int, withRef bool) *boc.Cell {
	c := boc.NewCell()
	if opcode != nil {
		_ = c.WriteUint(uint64(*opcode), 32)
	}
	for i := 0; i < bits; i++ {
		_ = c.WriteBit(r.Bool())
	}
	if withRef {
		ch := boc.NewCell()
		_ = ch.WriteUint(r.U64(), 1+r.Intn(64))
		_ = c.AddRef(ch)
	}
	return c
}

var c20Texts = []string{"", "hi", "é", "日本語", "😀 <&> \"q\" \\", strings.Repeat("x", 130)}

var uintN20 = regexp.MustCompile(`^(Uint|Int)([0-9]+)$`)
var varUint20 = regexp.MustCompile(`^VarUInteger([0-9]+)$`)

func unknownOp20(r *prng.R) uint32 { return 0xDEAD0000 | uint32(r.Intn(0xffff)) }

// fill20 puts a random in-domain value into dst where it knows how to; what it
// leaves at the zero value may make the TL-B encoder fail, and then the value is
// not used (only values that encode AND decode enter the oracle)
func fill20(r *prng.R, dst reflect.Value, depth int) {
	t := dst.Type()
	switch v := dst.Addr().Interface().(type) {
	case *tlb.MsgAddress:
		if r.Chance(15) {
			*v = tlb.MsgAddress{SumType: "AddrNone"}
		} else {
			*v = addrFromSx20(sx.L(sx.A("std"), sx.A("no"), sx.Z(int64(int8(r.U64()))), sx.Bytes(randBytes20(r, 32))))
		}
		return
	case *tlb.Any:
		*v = tlb.Any(*randCell20(r, nil, r.Intn(64), r.Bool()))
		return
	case *boc.Cell:
		*v = *randCell20(r, nil, r.Intn(64), r.Bool())
		return
	case *tlb.Text:
		*v = tlb.Text(c20Texts[r.Intn(len(c20Texts))])
		return
	case *abi.NFTPayload:
		*v = nftPayload20(r)
		return
	case *abi.JettonPayload:
		*v = jettonPayload20(r)
		return
	case *boc.BitString:
		*v = writerBitString20(randBits(r, r.Intn(40)), 0)
		return
	}
	if t.PkgPath() == "github.com/tonkeeper/tongo/tlb" {
		if m := uintN20.FindStringSubmatch(t.Name()); m != nil {
			w, _ := strconv.Atoi(m[2])
			if w <= 64 {
				if m[1] == "Uint" {
					dst.SetUint(r.U64() >> uint(64-w))
				} else {
					dst.SetInt(int64(r.U64()) >> uint(64-w))
				}
			} else {
				n := new(big.Int).SetBytes(r.Bytes(w / 8))
				dst.Set(reflect.ValueOf(*n).Convert(t))
			}
			return
		}
		if m := varUint20.FindStringSubmatch(t.Name()); m != nil {
			n, _ := strconv.Atoi(m[1])
			b := new(big.Int).SetBytes(r.Bytes(r.Intn(minInt(n, 12))))
			dst.Set(reflect.ValueOf(*b).Convert(t))
			return
		}
		if t.Name() == "Grams" {
			dst.SetUint(r.U64() >> uint(r.Intn(64)))
			return
		}
	}
	switch t.Kind() {
	case reflect.Bool:
		dst.SetBool(r.Bool())
	case reflect.Uint8, reflect.Uint16, reflect.Uint32, reflect.Uint64:
		dst.SetUint(r.U64() >> uint(64-t.Bits()))
	case reflect.Int8, reflect.Int16, reflect.Int32, reflect.Int64:
		dst.SetInt(int64(r.U64()) >> uint(64-t.Bits()))
	case reflect.Array:
		if t.Elem().Kind() == reflect.Uint8 {
			reflect.Copy(dst, reflect.ValueOf(randBytes20(r, t.Len())))
		}
	case reflect.Ptr:
		if depth > 0 && r.Chance(60) {
			p := reflect.New(t.Elem())
			fill20(r, p.Elem(), depth-1)
			dst.Set(p)
		}
	case reflect.Struct:
		if depth <= 0 {
			return
		}
		for i := 0; i < t.NumField(); i++ {
			f := t.Field(i)
			if !f.IsExported() {
				continue
			}
			// Maybe[T]: an absent value keeps T at its zero value
			if f.Name == "Value" && t.NumField() == 2 && t.Field(0).Name == "Exists" && !dst.Field(0).Bool() {
				continue
			}
			fill20(r, dst.Field(i), depth-1)
		}
	}
}

func nftPayload20(r *prng.R) abi.NFTPayload {
	switch r.Intn(5) {
	case 0:
		return abi.NFTPayload{}
	case 1:
		op := unknownOp20(r)
		return abi.NFTPayload{SumType: abi.UnknownNFTOp, OpCode: &op, Value: randCell20(r, &op, r.Intn(40), r.Bool())}
	case 2: // shorter than an opcode
		return abi.NFTPayload{SumType: abi.UnknownNFTOp, Value: randCell20(r, nil, 1+r.Intn(31), r.Bool())}
	}
	op := uint32(0)
	return abi.NFTPayload{SumType: abi.TextCommentNFTOp, OpCode: &op, Value: abi.TextCommentNFTPayload{Text: tlb.Text(c20Texts[r.Intn(len(c20Texts))])}}
}

func jettonPayload20(r *prng.R) abi.JettonPayload {
	switch r.Intn(5) {
	case 0:
		return abi.JettonPayload{}
	case 1:
		op := unknownOp20(r)
		return abi.JettonPayload{SumType: abi.UnknownJettonOp, OpCode: &op, Value: randCell20(r, &op, r.Intn(40), r.Bool())}
	case 2:
		return abi.JettonPayload{SumType: abi.UnknownJettonOp, Value: randCell20(r, nil, 1+r.Intn(31), r.Bool())}
	}
	op := uint32(0)
	return abi.JettonPayload{SumType: abi.TextCommentJettonOp, OpCode: &op, Value: abi.TextCommentJettonPayload{Text: tlb.Text(c20Texts[r.Intn(len(c20Texts))])}}
}

// envelope20 is one of the four envelope types behind a common face
type envelope20 struct {
	which int // 0 InMsgBody, 1 ExtOutMsgBody, 2 JettonPayload, 3 NFTPayload
	name  string
}

var envelopes20 = []envelope20{{0, "InMsgBody"}, {1, "ExtOutMsgBody"}, {2, "JettonPayload"}, {3, "NFTPayload"}}

func (e envelope20) fresh() any {
	switch e.which {
	case 0:
		return &abi.InMsgBody{}
	case 1:
		return &abi.ExtOutMsgBody{}
	case 2:
		return &abi.JettonPayload{}
	}
	return &abi.NFTPayload{}
}

func sumTypeOf20(p any) (string, *uint32) {
	switch v := p.(type) {
	case *abi.InMsgBody:
		return v.SumType, v.OpCode
	case *abi.ExtOutMsgBody:
		return v.SumType, v.OpCode
	case *abi.JettonPayload:
		return v.SumType, v.OpCode
	case *abi.NFTPayload:
		return v.SumType, v.OpCode
	}
	return "?", nil
}

func cellHash20(p any) (string, error) {
	c := boc.NewCell()
	if err := tlb.Marshal(c, reflect.ValueOf(p).Elem().Interface()); err != nil {
		return "", err
	}
	return c.HashString()
}

// envelopeRoundTrip20: decode the cell with the library, then value -> JSON -> value
func envelopeRoundTrip20(c *Ctx, e envelope20, cell *boc.Cell, class string) (decodedAs string) {
	b, err := cell.ToBoc()
	if err != nil {
		return ""
	}
	in := sx.L(sx.Nat(e.which), sx.Bytes(b))
	type result struct {
		what, sum string
	}
	var res result
	out := watchdog20(func() sx.V {
		x := e.fresh()
		cells, err := boc.DeserializeBoc(b) // a fresh tree: the decoder moves read cursors
		if err != nil || len(cells) != 1 {
			return sx.A("skip")
		}
		if err := tlb.Unmarshal(cells[0], x); err != nil {
			return sx.A("skip")
		}
		st, op := sumTypeOf20(x)
		res.sum = st
		doc, err := json.Marshal(x)
		if err != nil {
			res.what = fmt.Sprintf("json.Marshal of the decoded %s (%s) failed: %v", e.name, st, err)
			return sx.A("fail")
		}
		if !json.Valid(doc) {
			res.what = fmt.Sprintf("invalid JSON for %s (%s): %s", e.name, st, trunc(string(doc), 200))
			return sx.A("fail")
		}
		y := e.fresh()
		if err := json.Unmarshal(doc, y); err != nil {
			res.what = fmt.Sprintf("%s %s does not parse back: %v", e.name, trunc(string(doc), 300), err)
			return sx.A("fail")
		}
		st2, op2 := sumTypeOf20(y)
		if st2 != st || (op == nil) != (op2 == nil) || (op != nil && *op != *op2) {
			res.what = fmt.Sprintf("%s: SumType/OpCode %s/%v became %s/%v", e.name, st, op, st2, op2)
			return sx.A("fail")
		}
		again, err := json.Marshal(y)
		if err != nil || !bytes.Equal(again, doc) {
			res.what = fmt.Sprintf("%s (%s): re-marshalled text differs: %s vs %s (%v)", e.name, st, trunc(string(again), 200), trunc(string(doc), 200), err)
			return sx.A("fail")
		}
		h1, e1 := cellHash20(x)
		h2, e2 := cellHash20(y)
		if (e1 == nil) != (e2 == nil) || (e1 == nil && h1 != h2) {
			res.what = fmt.Sprintf("%s (%s): the value after the JSON round trip encodes to another cell (%v / %v)", e.name, st, e1, e2)
			return sx.A("fail")
		}
		return sx.A("ok")
	})
	if hang20(c, "c20.envdec", in, "envelope", out) {
		return ""
	}
	c.classes["c20.envdec|"+class+"|"+e.name+"|"+out.Atom]++
	switch {
	case out.IsA("panic"):
		c.Fail("c20.envdec", in, "panic-envelope", e.name+": decoding / JSON round trip panicked")
	case out.IsA("fail"):
		c.Fail("c20.envdec", in, "envelope-roundtrip", res.what)
	}
	return res.sum
}

func init() {
	// replay entry (oracle only): (which boc) -> JSON text of the decoded value after one round trip | 'err
	execs["c20.envdec"] = func(in sx.V) sx.V {
		e := envelopes20[in.List[0].I()]
		cells, err := boc.DeserializeBoc(in.List[1].Bytes)
		if err != nil || len(cells) != 1 {
			return sx.A("err")
		}
		x := e.fresh()
		if err := tlb.Unmarshal(cells[0], x); err != nil {
			return sx.A("err")
		}
		doc, err := json.Marshal(x)
		if err != nil {
			return sx.A("err")
		}
		y := e.fresh()
		if err := json.Unmarshal(doc, y); err != nil {
			return sx.A("err")
		}
		return sx.Bytes(doc)
	}
}

func genC20EnvelopeValues(c *Ctx) {
	r := c.R
	// 1. cells every envelope must cope with: empty, short, unknown opcode, text comment
	for rep := 0; rep < c.Scale(4, 40); rep++ {
		zero := uint32(0)
		unk := unknownOp20(r)
		shapes := []*boc.Cell{
			boc.NewCell(),
			randCell20(r, nil, 1+r.Intn(31), false),
			randCell20(r, nil, 1+r.Intn(31), true),
			randCell20(r, &unk, r.Intn(200), r.Bool()),
			randCell20(r, &unk, 0, false),
		}
		txt := boc.NewCell()
		_ = tlb.Marshal(txt, abi.InMsgBody{SumType: abi.TextCommentMsgOp, OpCode: &zero, Value: abi.TextCommentMsgBody{Text: tlb.Text(c20Texts[r.Intn(len(c20Texts))])}})
		shapes = append(shapes, txt)
		for _, e := range envelopes20 {
			for _, cell := range shapes {
				envelopeRoundTrip20(c, e, cell, "shape")
			}
		}
	}
	// 2. bodies that carry a payload envelope, every payload variant inline and in a reference
	for i := 0; i < c.Scale(40, 600); i++ {
		var body abi.InMsgBody
		switch i % 3 {
		case 0:
			op := uint32(abi.NftTransferMsgOpCode)
			v := abi.NftTransferMsgBody{QueryId: r.U64()}
			fill20(r, reflect.ValueOf(&v).Elem(), 4)
			v.ForwardPayload = tlb.EitherRef[abi.NFTPayload]{IsRight: r.Bool(), Value: nftPayload20(r)}
			body = abi.InMsgBody{SumType: abi.NftTransferMsgOp, OpCode: &op, Value: v}
		case 1:
			op := uint32(abi.NftOwnershipAssignedMsgOpCode)
			v := abi.NftOwnershipAssignedMsgBody{}
			fill20(r, reflect.ValueOf(&v).Elem(), 4)
			v.ForwardPayload = tlb.EitherRef[abi.NFTPayload]{IsRight: r.Bool(), Value: nftPayload20(r)}
			body = abi.InMsgBody{SumType: abi.NftOwnershipAssignedMsgOp, OpCode: &op, Value: v}
		default:
			op := uint32(abi.JettonTransferMsgOpCode)
			v := abi.JettonTransferMsgBody{}
			fill20(r, reflect.ValueOf(&v).Elem(), 4)
			v.ForwardPayload = tlb.EitherRef[abi.JettonPayload]{IsRight: r.Bool(), Value: jettonPayload20(r)}
			body = abi.InMsgBody{SumType: abi.JettonTransferMsgOp, OpCode: &op, Value: v}
		}
		cell := boc.NewCell()
		if err := tlb.Marshal(cell, body); err != nil {
			c.classes["c20.envdec|payload-body|not-encodable"]++
			continue
		}
		if got := envelopeRoundTrip20(c, envelopes20[0], cell, "payload-body"); got != "" && got != body.SumType {
			c.classes["c20.envdec|payload-body|decoded-as-other"]++
		}
		// the payload envelope on its own, decoded from its own cell
		pc := boc.NewCell()
		if i%3 == 2 {
			if tlb.Marshal(pc, jettonPayload20(r)) == nil {
				envelopeRoundTrip20(c, envelopes20[2], pc, "payload")
			}
		} else if tlb.Marshal(pc, nftPayload20(r)) == nil {
			envelopeRoundTrip20(c, envelopes20[3], pc, "payload")
		}
	}
	// 3. every known operation name: fill the generated body type, encode, let the library decode
	ops := msgOpCodes20()
	var names []string
	for n := range abi.KnownMsgInTypes {
		names = append(names, n)
	}
	sort.Strings(names)
	used, skipped := 0, 0
	for _, name := range names {
		op, ok := ops[name]
		if !ok {
			skipped++
			continue
		}
		done := false
		for try := 0; try < c.Scale(2, 8); try++ {
			v := reflect.New(reflect.TypeOf(abi.KnownMsgInTypes[name])).Elem()
			fill20(r, v, 5)
			opc := op
			cell := boc.NewCell()
			var err error
			func() {
				defer func() {
					if rec := recover(); rec != nil {
						err = fmt.Errorf("encoder panic: %v", rec)
					}
				}()
				err = tlb.Marshal(cell, abi.InMsgBody{SumType: name, OpCode: &opc, Value: v.Interface()})
			}()
			if err != nil {
				continue
			}
			if got := envelopeRoundTrip20(c, envelopes20[0], cell, "known"); got != "" {
				done = true
				if got == name {
					c.classes["c20.envdec|known|decoded-as-named"]++
				} else {
					c.classes["c20.envdec|known|decoded-as-other"]++
				}
			}
		}
		if done {
			used++
		} else {
			skipped++
		}
	}
	c.classes[fmt.Sprintf("c20.envdec|known|names-used-%d-of-%d", used/50*50, len(names)/50*50)]++
	if len(names) > 0 && used*2 < len(names) {
		c.Fail("c20.envdec", sx.L(sx.Nat(used), sx.Nat(len(names))), "envelope-coverage", fmt.Sprintf("only %d of %d known operation names could be filled, encoded and decoded (op codes found: %d)", used, len(names), len(ops)))
	}
}
