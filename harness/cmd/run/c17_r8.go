package main

// Round 8: the lite-server forms of an account id and of a block id.  Every
// request of liteapi puts the account / block into TL through the converters of
// liteclient/extensions.go (liteclient.AccountID, liteclient.BlockIDExt,
// TonNodeBlockIdExtC.ToBlockIdExt), siblings of ton.AccountID.MarshalTL and
// ton.BlockIDExt.MarshalTL: for every int32 workchain both ways of producing the
// TL bytes agree and the bytes decode to the same id.

import (
	"bytes"

	"github.com/tonkeeper/tongo/liteclient"
	"github.com/tonkeeper/tongo/tl"
	"github.com/tonkeeper/tongo/ton"

	"verifharness/prng"
	"verifharness/sx"
)

func c17LiteServerForms(c *Ctx, r *prng.R, a ton.AccountID, acc sx.V) {
	want, err := a.MarshalTL()
	if err != nil {
		return // reported by c17.tl
	}
	ls := liteclient.AccountID(a)
	got, err := tl.Marshal(ls)
	if err != nil || !bytes.Equal(got, want) {
		c.Fail("c17.tl", acc, "tl-liteserver-account", "tl.Marshal(liteclient.AccountID(id)) differs from id.MarshalTL()")
	} else {
		var back ton.AccountID
		if err := back.UnmarshalTL(bytes.NewReader(got)); err != nil || back != a {
			c.Fail("c17.tl", acc, "tl-liteserver-account", "the lite-server form of an account id does not decode to the same id")
		}
		var ls2 liteclient.LiteServerAccountIdC
		if err := tl.Unmarshal(bytes.NewReader(want), &ls2); err != nil || int32(ls2.Workchain) != a.Workchain || ton.Bits256(ls2.Id) != a.Address {
			c.Fail("c17.tl", acc, "tl-liteserver-account", "id.MarshalTL() does not decode as liteServer.accountId with the same workchain and address")
		}
	}
	// block ids of the same workchain
	var id ton.BlockIDExt
	id.Workchain = a.Workchain
	id.Shard = r.U64()
	if r.Chance(30) {
		id.Shard = 0x8000000000000000
	}
	id.Seqno = uint32(r.U64())
	copy(id.RootHash[:], r.Bytes(32))
	copy(id.FileHash[:], a.Address[:])
	wantB, _ := id.MarshalTL()
	lb := liteclient.BlockIDExt(id)
	gotB, err := tl.Marshal(lb)
	if err != nil || !bytes.Equal(gotB, wantB) {
		c.Fail("c17.tl", acc, "tl-liteserver-block", "tl.Marshal(liteclient.BlockIDExt(id)) differs from id.MarshalTL()")
	}
	if lb.ToBlockIdExt() != id {
		c.Fail("c17.tl", acc, "tl-liteserver-block", "BlockIDExt(id).ToBlockIdExt() is not id")
	}
	var id2 ton.BlockIDExt
	if err := id2.UnmarshalTL(gotB); err == nil && id2 != id {
		c.Fail("c17.tl", acc, "tl-liteserver-block", "the lite-server form of a block id decodes to another id")
	}
}
