package main

import (
	"encoding/base64"
	"fmt"
	"os"
	"path/filepath"

	"github.com/tonkeeper/tongo/boc"

	"verifharness/prng"
	"verifharness/sx"
)

func init() {
	execs["c07.parse"] = execC07Parse
	execs["c07.alloc"] = execC07Alloc
	execs["c07.print"] = execC07Print
	execs["c07.lines"] = execC07Lines
	execs["c07.hash"] = execC07Hash
	execs["c07.alias"] = execC07Alias
	execs["c07.text"] = execC07Text
	gens["C07"] = genC07
}

func rootInfo(c *boc.Cell) (out sx.V) {
	defer func() {
		if r := recover(); r != nil {
			out = sx.A("panic")
		}
	}()
	var hv, dv sx.V
	h, d, err := boc.VerifLevelHash(c, 3)
	if err != nil {
		hv, dv = sx.A("err"), sx.A("err")
	} else {
		hv, dv = sx.Bytes(h), sx.Nat(d)
	}
	return sx.L(hv, dv, sx.Nat(c.Level()), sx.Nat(c.BitSize()), sx.Nat(c.RefsSize()), sx.B(c.IsExotic()), sx.N(uint64(c.CellType())))
}

// c07.parse: DeserializeBoc, then for every root its hash, depth, level, bit
// size, reference count, exotic flag and type; additionally (oracle part, not
// compared with the model) printing and re-serialising must terminate.
func execC07Parse(in sx.V) sx.V {
	cells, err := boc.DeserializeBoc(in.Bytes)
	if err != nil {
		return sx.A("err")
	}
	var outs []sx.V
	for _, c := range cells {
		ri := rootInfo(c)
		outs = append(outs, ri)
	}
	return sx.L(outs...)
}

func wellKnownBocs() [][]byte {
	var out [][]byte
	for _, s := range []string{
		"te6cckEBAQEARAAAhP8AIN2k8mCBAgDXGCDXCx/tRNDTH9P/0VESuvKhIvkBVBBE+RDyovgAAdMfMSDXSpbTB9QC+wDe0aTIyx/L/8ntVEH98Ik=",
		"te6cckEBAQEAcQAA3v8AIN0gggFMl7ohggEznLqxn3Gw7UTQ0x/THzHXC//jBOCk8mCDCNcYINMf0x/TH/gjE7vyY+1E0NMf0x/T/9FRMrryoVFEuvKiBPkBVBBV+RDyo/gAkyDXSpbTB9QC+wDo0QGkyMsfyx/L/8ntVBC9ba0=",
	} {
		b, err := base64.StdEncoding.DecodeString(s)
		if err == nil {
			out = append(out, b)
		}
	}
	return out
}

func repoFile(rel string) []byte {
	root := os.Getenv("VERIF_REPO")
	if root == "" {
		root = "/repo"
	}
	b, err := os.ReadFile(filepath.Join(root, rel))
	if err != nil {
		return nil
	}
	return b
}

func randVariant(r *prng.R) HeaderVariant {
	hv := HeaderVariant{Magic: 0, Idx: r.Bool(), Crc: r.Bool(), Cache: r.Bool()}
	if r.Chance(25) {
		hv.Magic = 1 + r.Intn(2)
	}
	if r.Chance(30) {
		hv.SizeExtra = r.Intn(3)
	}
	if r.Chance(30) {
		hv.OffExtra = r.Intn(4)
	}
	hv.WithHashes = r.Chance(15)
	return hv
}

func classOfLen(n int) string {
	switch {
	case n < 16:
		return "tiny"
	case n < 256:
		return "small"
	case n < 65536:
		return "medium"
	}
	return "large"
}

func genC07(c *Ctx) {
	r := c.R
	var seeds [][]byte
	// own output, all 8 option combinations
	nOwn := c.Scale(6, 40)
	for i := 0; i < nOwn; i++ {
		n := 1 + r.Intn(12)
		if i%3 == 0 {
			n = 1 + r.Intn(60)
		}
		dag := randDag(r, n)
		cells, err := buildGo(dag)
		if err != nil {
			continue
		}
		for opt := 0; opt < 8; opt++ {
			b, err := cells[0].ToBocCustom(opt&1 != 0, opt&2 != 0, opt&4 != 0, 0)
			if err == nil {
				seeds = append(seeds, b)
			}
		}
	}
	// reference serialiser with every header variant, multi-root
	nRef := c.Scale(40, 400)
	for i := 0; i < nRef; i++ {
		n := 1 + r.Intn(20)
		if i%10 == 0 {
			n = 250 + r.Intn(20) // crosses the one-byte index boundary
		}
		dag := randDag(r, n)
		roots := []int{0}
		for r.Chance(25) && len(roots) < 4 {
			roots = append(roots, r.Intn(n))
		}
		seeds = append(seeds, refSerialize(dag, roots, randVariant(r), r))
	}
	seeds = append(seeds, wellKnownBocs()...)
	if b := repoFile("tlb/testdata/block-4/block.bin"); b != nil {
		seeds = append(seeds, b)
	}
	c07Phase("seeds-built")
	// 1. the valid seeds themselves
	for _, s := range seeds {
		in := sx.Bytes(s)
		c07Oracle(c, in, c.EmitGuarded("c07.parse", in, "valid|"+classOfLen(len(s))))
	}
	if b := repoFile("tlb/testdata/block-5/block.bin"); b != nil {
		in := sx.Bytes(b)
		c07Oracle(c, in, c.EmitGuarded("c07.parse", in, "valid|block-5"))
	}
	if c.Thorough() {
		for _, f := range []string{"tlb/testdata/block-1/block.bin", "tlb/testdata/block-2/block.bin", "tlb/testdata/block-3/block.bin"} {
			if b := repoFile(f); b != nil {
				in := sx.Bytes(b)
				c07Oracle(c, in, c.EmitGuarded("c07.parse", in, "valid|real-block"))
			}
		}
	}
	small := func(s []byte) bool { return len(s) <= 400 }
	c07Phase("valid")
	// 2. every truncation of the small seeds (sampled for larger ones)
	for si, s := range seeds {
		if !small(s) && !c.Thorough() {
			continue
		}
		step := 1
		if len(s) > 120 && !c.Thorough() {
			step = 1 + len(s)/60
		}
		if si%4 != 0 && !c.Thorough() {
			continue
		}
		for k := 0; k < len(s); k += step {
			in := sx.Bytes(s[:k])
			c07Oracle(c, in, c.EmitGuarded("c07.parse", in, "truncation|"+classOfLen(k)))
		}
	}
	c07Phase("truncation")
	// 3. single-byte substitutions: header bytes exhaustively on interesting
	//    values, body bytes sampled
	bodyPos, substN := 0, 0
	interesting := []byte{0x00, 0x01, 0x02, 0x04, 0x07, 0x08, 0x09, 0x10, 0x18, 0x1f, 0x20, 0x28, 0x3f, 0x40, 0x7f, 0x80, 0xe0, 0xfe, 0xff}
	for si, s := range seeds {
		if !small(s) {
			continue
		}
		if si%3 != 0 && !c.Thorough() {
			continue
		}
		idxStart, hdrEnd := c07HeaderEnd(s)
		for pos := 0; pos < len(s); pos++ {
			vals := interesting
			if pos <= 24 && (pos >= hdrEnd+2 || (pos >= idxStart && pos < hdrEnd)) && !c.Thorough() {
				// quick tier: the short seeds' cell data starts before offset 24
				// (hdrEnd; +2: the first cell's descriptors get every value) and
				// the index (idxStart..hdrEnd) is not read by the parser.
				// 19 values of such a byte give 19 near-identical BOCs that all
				// parse: keep three, rotating with the position (no PRNG use,
				// so the cases stay a subset of the former ones)
				vals = []byte{interesting[pos%19], interesting[(pos+6)%19], interesting[(pos+12)%19]}
			}
			if pos > 24 && !c.Thorough() {
				if !r.Chance(25) {
					continue
				}
				vals = []byte{byte(r.U64()), interesting[r.Intn(len(interesting))]}
				// quick tier: one sampled body position in three (a body
				// substitution that still parses costs the extracted model a
				// SHA-256 of every cell: ~30 ms); decided after the draws so
				// that the cases stay a subset of the former ones
				bodyPos++
				if bodyPos%3 != 0 {
					continue
				}
			}
			for _, v := range vals {
				if s[pos] == v {
					continue
				}
				m := append([]byte{}, s...)
				m[pos] = v
				in := sx.Bytes(m)
				where := "body"
				if pos < 5 {
					where = "magic+flags"
				} else if pos < 24 {
					where = "header"
				}
				// quick tier: the allocation oracle on one substitution in four
				substN++
				c07OracleOpt(c, in, c.EmitGuarded("c07.parse", in, "subst|"+where), c.Thorough() || substN%4 == 0)
			}
		}
	}
	c07Phase("subst")
	// 4. adversarial headers built directly
	hdr := func(flags byte, off byte, fields ...[]byte) []byte {
		b := []byte{0xb5, 0xee, 0x9c, 0x72, flags, off}
		for _, f := range fields {
			b = append(b, f...)
		}
		return b
	}
	be := func(v uint64, n int) []byte { return putBE(nil, v, n) }
	adv := [][]byte{
		{0xb5, 0xee, 0x9c, 0x72, 0x01, 0xff, 0x01, 0x01, 0x00, 0x00, 0x00},                   // off_bytes 255
		{0xb5, 0xee, 0x9c, 0x72, 0x01, 0x01, 0x01, 0x01, 0x00, 0x03, 0x00, 0x01, 0x00, 0x00}, // self reference
		hdr(0x01, 0x01, be(1, 1), be(1, 1), be(0, 1), be(2, 1), be(5, 1), []byte{0, 0}),      // root index out of range
		hdr(0x07, 0x01, be(1<<55, 7), be(1, 7), be(0, 7), be(2, 1), be(0, 7), []byte{0, 0}),  // 2^55 cells
		hdr(0x07, 0x01, be(1, 7), be(1<<55, 7), be(0, 7), be(2, 1), be(0, 7), []byte{0, 0}),  // 2^55 roots
		hdr(0x04, 0x08, be(1, 4), be(1, 4), be(0, 4), be(1<<63, 8), be(0, 4), []byte{0, 0}),  // tot size 2^63
		hdr(0x04, 0x08, be(1, 4), be(1, 4), be(0, 4), be(^uint64(0), 8), be(0, 4), []byte{0, 0}),
		hdr(0x01, 0x01, be(1, 1), be(1, 1), be(0, 1), be(2, 1), be(0, 1), []byte{0x10, 0}), // stored hashes, no data
		hdr(0x01, 0x01, be(1, 1), be(1, 1), be(0, 1), be(2, 1), be(0, 1), []byte{0x08, 0}), // exotic, no data
		hdr(0x01, 0x01, be(1, 1), be(1, 1), be(0, 1), be(2, 1), be(0, 1), []byte{0xf8, 0}), // exotic, mask 7, hashes
		hdr(0x01, 0x01, be(2, 1), be(1, 1), be(0, 1), be(5, 1), be(0, 1), []byte{0x01, 0, 1, 0x00, 0x00}),
		hdr(0x01, 0x01, be(2, 1), be(1, 1), be(0, 1), be(5, 1), be(1, 1), []byte{0x00, 0, 0x01, 0, 0}), // backward ref
		hdr(0x01, 0x01, be(1, 1), be(1, 1), be(0, 1), be(3, 1), be(0, 1), []byte{0x05, 0, 0}),          // 5 refs announced
		hdr(0x00, 0x00), // size 0
		hdr(0x81, 0x01, be(1, 1), be(1, 1), be(0, 1), be(2, 1), be(0, 1), []byte{0, 0}), // idx announced, no index bytes
		{0x68, 0xff, 0x65, 0xf3, 0xff, 0x01},
		{0xac, 0xc3, 0xa7, 0x28, 0x01, 0x01, 0x01, 0x01, 0x00, 0x02, 0x00, 0x00, 0x00},
	}
	// deep chains: depth 1023 / 1024 / 1025 (hash must fail above the limit, not crash)
	for _, depth := range []int{1023, 1024, 1025, 1100} {
		if depth > 1025 && !c.Thorough() {
			continue
		}
		dag := make([]Node, depth+1)
		for i := range dag {
			if i < depth {
				dag[i].Refs = []int{i + 1}
			}
		}
		adv = append(adv, refSerialize(dag, []int{0}, HeaderVariant{}, r))
	}
	for _, a := range adv {
		in := sx.Bytes(a)
		c07Oracle(c, in, c.EmitGuarded("c07.parse", in, "adversarial"))
	}
	// many empty cells (2 input bytes each): the largest allocation per input
	// byte a valid BOC can ask for
	emptyCounts := []int{100, 255, 256, 1000}
	if c.Thorough() {
		emptyCounts = append(emptyCounts, 5000)
	}
	for _, n := range emptyCounts {
		in := sx.Bytes(refSerialize(make([]Node, n), []int{0}, HeaderVariant{}, r))
		c07Oracle(c, in, c.EmitGuarded("c07.parse", in, "empty-cells"))
	}
	// grid of counts and widths against short inputs
	for _, size := range []int{0, 1, 2, 3, 4, 5, 7} {
		for _, off := range []int{0, 1, 2, 8, 9, 255} {
			for _, cnt := range []uint64{0, 1, 2, 255, 1 << 16, 1 << 31, 1 << 32, 1<<56 - 1} {
				b := []byte{0xb5, 0xee, 0x9c, 0x72, byte(size), byte(off)}
				b = append(b, be(cnt, 8)[8-minInt(size, 8):]...)
				b = append(b, be(1, 8)[8-minInt(size, 8):]...)
				b = append(b, be(0, 8)[8-minInt(size, 8):]...)
				if off <= 8 {
					b = append(b, be(2, 8)[8-off:]...)
				}
				b = append(b, r.Bytes(r.Intn(12))...)
				in := sx.Bytes(b)
				c07Oracle(c, in, c.EmitGuarded("c07.parse", in, fmt.Sprintf("grid|size%d", size)))
			}
		}
	}
	c07Phase("adversarial+grid")
	// 5. random multi-byte mutations and random bytes
	nMut := c.Scale(1500, 60000)
	for i := 0; i < nMut; i++ {
		s := seeds[r.Intn(len(seeds))]
		if !small(s) {
			continue
		}
		m := append([]byte{}, s...)
		k := 1 + r.Intn(4)
		for j := 0; j < k; j++ {
			switch r.Intn(4) {
			case 0:
				m[r.Intn(len(m))] = byte(r.U64())
			case 1:
				p := r.Intn(len(m))
				m = append(m[:p], m[p+1:]...)
			case 2:
				p := r.Intn(len(m) + 1)
				m = append(m[:p], append([]byte{byte(r.U64())}, m[p:]...)...)
			case 3:
				m[r.Intn(minInt(len(m), 24))] ^= 1 << uint(r.Intn(8))
			}
			if len(m) == 0 {
				m = []byte{0}
			}
		}
		in := sx.Bytes(m)
		c07Oracle(c, in, c.EmitGuarded("c07.parse", in, "multi-mutation"))
	}
	nRand := c.Scale(300, 20000)
	for i := 0; i < nRand; i++ {
		n := r.Intn(64)
		b := r.Bytes(n)
		if r.Chance(70) && n >= 4 {
			copy(b, []byte{0xb5, 0xee, 0x9c, 0x72})
		}
		in := sx.Bytes(b)
		c07Oracle(c, in, c.EmitGuarded("c07.parse", in, "random"))
	}
	c07Phase("mutation+random")
	// 6. huge, mutually consistent header counters in front of a tiny body
	c07ConsistentHuge(c, r.Fork(0xc07a))
	c07Phase("consistent-huge")
	// 7. valid BOCs with heavy sub-cell sharing: printing / hashing /
	//    re-serialising the parsed cells terminate within the budget
	c07Sharing(c, r.Fork(0xc07b))
	c07Phase("sharing")
	// 8. the same shapes with exotic-typed cells (pruned branch / library /
	//    Merkle proof / Merkle update / unknown types, level masks 1..7, valid
	//    and invalid payload lengths): hashing stays linear in the cells
	c07ExoticSharing(c, r.Fork(0xc07c))
	c07Phase("sharing-exotic")
	// 8b. one exotic cell of every type / mask / payload length (shorter than
	//     the mask announces, exact, longer) at every position of a tiny bag
	c07ShortExotic(c, r.Fork(0xc081))
	c07Phase("short-exotic")
	// 9. trees around and beyond the hasher's depth limit, chains and deep
	//    branches under a shallow root (a reused Hasher must survive the error)
	c07Deep(c, r.Fork(0xc07d))
	c07Phase("deep")
	// 10. cells whose data fill the 128-byte buffer (the parser must neither
	//     write into nor retain the caller's slice), and lean-magic headers
	//     with counter widths of 8..255 bytes at the values where a product of
	//     a counter and a width wraps
	c07FullCells(c, r.Fork(0xc07e))
	c07WideLean(c, r.Fork(0xc07f))
	c07Phase("full-cells+wide-lean")
	// 11. text entry points: JSON tokens of every kind and length 0..3, hex /
	//     base64 strings, quoted and not, direct calls and through encoding/json
	c07TextTokens(c, r.Fork(0xc080), seeds)
	c07Phase("text-tokens")
	c07DumpStats()
}

// c07HeaderEnd returns the offsets at which the index and the cell data of a
// BOC produced by one of the seed serialisers start (magic, flags/size,
// off_bytes, counters, tot_cells_size, root list | index | cells), or len(s)
// twice when s is too short.
func c07HeaderEnd(s []byte) (idxStart, end int) {
	if len(s) < 6 {
		return len(s), len(s)
	}
	size, idx := int(s[4]&7), s[4]&128 != 0
	if s[0] != 0xb5 {
		size, idx = int(s[4]), true
	}
	off := int(s[5])
	if size < 1 || size > 8 || off < 1 || off > 8 || len(s) < 6+3*size+off {
		return len(s), len(s)
	}
	be := func(b []byte) int {
		v := 0
		for _, x := range b {
			v = v<<8 | int(x)
		}
		return v
	}
	cells, roots := be(s[6:6+size]), be(s[6+size:6+2*size])
	idxStart = 6 + 3*size + off + roots*size
	end = idxStart
	if idx {
		end += cells * off
	}
	if idxStart < 0 || end > len(s) || end < idxStart {
		return len(s), len(s)
	}
	return idxStart, end
}
